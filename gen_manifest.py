#!/usr/bin/env python3
"""writes MANIFEST.json from props.py (claimed properties) and properties.jsonl (the rest -> not_applicable)"""
import json, os, sys
ROOT = os.path.dirname(os.path.abspath(__file__))
sys.path.insert(0, ROOT)
from props import PROPS

all_ids = [json.loads(l)["id"] for l in open(os.path.join(ROOT, "properties.jsonl"))]
checks = []
for pid in all_ids:
    if pid not in PROPS:
        continue
    p = PROPS[pid]
    checks.append({
        "property_id": pid,
        "quick_cmd": f"./verif check {pid} --tier quick",
        "thorough_cmd": f"./verif check {pid} --tier thorough",
        "evidence_file": f"/verif/evidence/{pid}.json",
        "replay_cmd_template": "./verif replay {path}",
        "engine": "lean4-proof+correspondence",
        "level_claimed": {
            "category": "proof",
            "text": p.get("level_text", "Lean 4 theorems over the hand-written executable model (all inputs, unbounded), tied to /repo by a differential correspondence check of the model against the real code plus implementation-side oracles"),
            "design_ref": p.get("design_ref", "DESIGN.md §6 " + pid),
        },
        "level_note": p.get("level_note", "Trusted: Lean kernel + axioms {propext, Classical.choice, Quot.sound}; the model↔code tie is the correspondence check over generated cases (not a proof); Spec.lean as transcription of the SSZ spec; rustc/std/third-party crates; 64-bit usize.") + " " + " ".join(p.get("assumptions", [])),
        "technique": p.get("technique", "Lean 4 machine-checked proof over a hand-written model + model/implementation correspondence check"),
    })
na = [{"property_id": pid, "reason": "not claimed yet: theorem file and correspondence group under construction (see DESIGN.md status table)"}
      for pid in all_ids if pid not in PROPS]
m = {
    "version": 1,
    "setup_cmd": "./verif setup",
    "hooks": {
        "guard": "ethereum_ssz_verif",
        "enable": "no hooks are needed: probe types, a counting global allocator and catch_unwind in the harness observe everything through the public API",
        "baseline_off_cmd": "cd /repo && cargo test --workspace --no-fail-fast --offline",
        "source_commits": [],
        "add_only": True,
    },
    "engines": [
        {"name": "lean4-proof+correspondence", "path": "/verif/verif",
         "serves_properties": [c["property_id"] for c in checks],
         "kind_free_text": "Lean 4.33 theorems (lean/SszProofs) over an executable model (lean/SszModel) + Rust harness (harness/) diffed against the compiled Lean driver"},
    ],
    "checks": checks,
    "not_applicable": na,
    "notes": "See DESIGN.md. Fix commits in /repo are listed in known_findings.json ('fixed' entries).",
}
json.dump(m, open(os.path.join(ROOT, "MANIFEST.json"), "w"), indent=1)
print(f"{len(checks)} checks, {len(na)} not claimed")
