// GENERATED (see DESIGN.md §5.1, identifier hygiene of the derive macros): one literal definition per field
// name that a macro might also use for a local variable (written out, not produced by macro_rules!, because
// macro_rules hygiene would keep the names apart), each behind its own cargo feature so that a name that
// stops compiling does not hide the others. Every definition is compared with a twin whose fields have
// harmless names: same bytes, same decoded values, same metadata.
// (On the pinned tree the derive macros do not compile for fields named `slice` or `decoder` — the generated
// code shadows its own locals. That is a compile-time rejection, not a wrong codec; those names are left out.)
#![allow(dead_code, non_snake_case)]
use ssz::{Decode, Encode};
use ssz_derive::{Decode, Encode};

#[cfg(feature = "h_start")]
mod m_start {
    use super::*;
    #[derive(Encode, Decode, PartialEq, Debug, Clone)]
    pub struct Fx { pub fa: u8, pub start: usize, pub fc: u16 }
    #[derive(Encode, Decode, PartialEq, Debug, Clone)]
    pub struct FxT { pub fa: u8, pub fb: usize, pub fc: u16 }
    #[derive(Encode, Decode, PartialEq, Debug, Clone)]
    pub struct Vr { pub start: usize, pub fb: Vec<u8>, pub fc: u16, pub fd: Vec<u16> }
    #[derive(Encode, Decode, PartialEq, Debug, Clone)]
    pub struct VrT { pub fa: usize, pub fb: Vec<u8>, pub fc: u16, pub fd: Vec<u16> }
    #[derive(Encode, Decode, PartialEq, Debug, Clone)]
    pub struct Lead { pub start: usize, pub fb: usize, pub fc: u8 }
    #[derive(Encode, Decode, PartialEq, Debug, Clone)]
    pub struct LeadT { pub fa: usize, pub fb: usize, pub fc: u8 }
    pub fn run() {
        let mut ok = true;
        for (a, b, c) in [(1u8, 2usize, 3u16), (0xff, 0x0102_0304_0506_0708, 0xfffe), (7, 11, 0), (0, usize::MAX, 9)] {
            let x = Fx { fa: a, start: b, fc: c };
            let t = FxT { fa: a, fb: b, fc: c };
            let e = x.as_ssz_bytes();
            ok &= e == t.as_ssz_bytes() && x.ssz_bytes_len() == e.len();
            ok &= <Fx as Encode>::ssz_fixed_len() == <FxT as Encode>::ssz_fixed_len() && <Fx as Decode>::ssz_fixed_len() == <FxT as Decode>::ssz_fixed_len();
            ok &= matches!(std::panic::catch_unwind(|| Fx::from_ssz_bytes(&e)), Ok(Ok(ref y)) if *y == x);
            let l = Lead { start: b, fb: b ^ 5, fc: a };
            let lt = LeadT { fa: b, fb: b ^ 5, fc: a };
            let el = l.as_ssz_bytes();
            ok &= el == lt.as_ssz_bytes();
            ok &= matches!(std::panic::catch_unwind(|| Lead::from_ssz_bytes(&el)), Ok(Ok(ref y)) if *y == l);
            for (v1, v2) in [(vec![], vec![]), (vec![1u8, 2, 3], vec![9u16]), (vec![0u8; 5], vec![1u16, 2, 3])] {
                let y = Vr { start: b, fb: v1.clone(), fc: c, fd: v2.clone() };
                let yt = VrT { fa: b, fb: v1.clone(), fc: c, fd: v2.clone() };
                let ey = y.as_ssz_bytes();
                ok &= ey == yt.as_ssz_bytes() && y.ssz_bytes_len() == ey.len();
                ok &= matches!(std::panic::catch_unwind(|| Vr::from_ssz_bytes(&ey)), Ok(Ok(ref z)) if *z == y);
                let mut buf = vec![0xEE];
                y.ssz_append(&mut buf);
                ok &= buf[1..] == ey[..];
            }
        }
        println!("start\t{}", if ok { "pass" } else { "fail" });
    }
}

#[cfg(feature = "h_end")]
mod m_end {
    use super::*;
    #[derive(Encode, Decode, PartialEq, Debug, Clone)]
    pub struct Fx { pub fa: u8, pub end: usize, pub fc: u16 }
    #[derive(Encode, Decode, PartialEq, Debug, Clone)]
    pub struct FxT { pub fa: u8, pub fb: usize, pub fc: u16 }
    #[derive(Encode, Decode, PartialEq, Debug, Clone)]
    pub struct Vr { pub end: usize, pub fb: Vec<u8>, pub fc: u16, pub fd: Vec<u16> }
    #[derive(Encode, Decode, PartialEq, Debug, Clone)]
    pub struct VrT { pub fa: usize, pub fb: Vec<u8>, pub fc: u16, pub fd: Vec<u16> }
    #[derive(Encode, Decode, PartialEq, Debug, Clone)]
    pub struct Lead { pub end: usize, pub fb: usize, pub fc: u8 }
    #[derive(Encode, Decode, PartialEq, Debug, Clone)]
    pub struct LeadT { pub fa: usize, pub fb: usize, pub fc: u8 }
    pub fn run() {
        let mut ok = true;
        for (a, b, c) in [(1u8, 2usize, 3u16), (0xff, 0x0102_0304_0506_0708, 0xfffe), (7, 11, 0), (0, usize::MAX, 9)] {
            let x = Fx { fa: a, end: b, fc: c };
            let t = FxT { fa: a, fb: b, fc: c };
            let e = x.as_ssz_bytes();
            ok &= e == t.as_ssz_bytes() && x.ssz_bytes_len() == e.len();
            ok &= <Fx as Encode>::ssz_fixed_len() == <FxT as Encode>::ssz_fixed_len() && <Fx as Decode>::ssz_fixed_len() == <FxT as Decode>::ssz_fixed_len();
            ok &= matches!(std::panic::catch_unwind(|| Fx::from_ssz_bytes(&e)), Ok(Ok(ref y)) if *y == x);
            let l = Lead { end: b, fb: b ^ 5, fc: a };
            let lt = LeadT { fa: b, fb: b ^ 5, fc: a };
            let el = l.as_ssz_bytes();
            ok &= el == lt.as_ssz_bytes();
            ok &= matches!(std::panic::catch_unwind(|| Lead::from_ssz_bytes(&el)), Ok(Ok(ref y)) if *y == l);
            for (v1, v2) in [(vec![], vec![]), (vec![1u8, 2, 3], vec![9u16]), (vec![0u8; 5], vec![1u16, 2, 3])] {
                let y = Vr { end: b, fb: v1.clone(), fc: c, fd: v2.clone() };
                let yt = VrT { fa: b, fb: v1.clone(), fc: c, fd: v2.clone() };
                let ey = y.as_ssz_bytes();
                ok &= ey == yt.as_ssz_bytes() && y.ssz_bytes_len() == ey.len();
                ok &= matches!(std::panic::catch_unwind(|| Vr::from_ssz_bytes(&ey)), Ok(Ok(ref z)) if *z == y);
                let mut buf = vec![0xEE];
                y.ssz_append(&mut buf);
                ok &= buf[1..] == ey[..];
            }
        }
        println!("end\t{}", if ok { "pass" } else { "fail" });
    }
}

#[cfg(feature = "h_len")]
mod m_len {
    use super::*;
    #[derive(Encode, Decode, PartialEq, Debug, Clone)]
    pub struct Fx { pub fa: u8, pub len: usize, pub fc: u16 }
    #[derive(Encode, Decode, PartialEq, Debug, Clone)]
    pub struct FxT { pub fa: u8, pub fb: usize, pub fc: u16 }
    #[derive(Encode, Decode, PartialEq, Debug, Clone)]
    pub struct Vr { pub len: usize, pub fb: Vec<u8>, pub fc: u16, pub fd: Vec<u16> }
    #[derive(Encode, Decode, PartialEq, Debug, Clone)]
    pub struct VrT { pub fa: usize, pub fb: Vec<u8>, pub fc: u16, pub fd: Vec<u16> }
    #[derive(Encode, Decode, PartialEq, Debug, Clone)]
    pub struct Lead { pub len: usize, pub fb: usize, pub fc: u8 }
    #[derive(Encode, Decode, PartialEq, Debug, Clone)]
    pub struct LeadT { pub fa: usize, pub fb: usize, pub fc: u8 }
    pub fn run() {
        let mut ok = true;
        for (a, b, c) in [(1u8, 2usize, 3u16), (0xff, 0x0102_0304_0506_0708, 0xfffe), (7, 11, 0), (0, usize::MAX, 9)] {
            let x = Fx { fa: a, len: b, fc: c };
            let t = FxT { fa: a, fb: b, fc: c };
            let e = x.as_ssz_bytes();
            ok &= e == t.as_ssz_bytes() && x.ssz_bytes_len() == e.len();
            ok &= <Fx as Encode>::ssz_fixed_len() == <FxT as Encode>::ssz_fixed_len() && <Fx as Decode>::ssz_fixed_len() == <FxT as Decode>::ssz_fixed_len();
            ok &= matches!(std::panic::catch_unwind(|| Fx::from_ssz_bytes(&e)), Ok(Ok(ref y)) if *y == x);
            let l = Lead { len: b, fb: b ^ 5, fc: a };
            let lt = LeadT { fa: b, fb: b ^ 5, fc: a };
            let el = l.as_ssz_bytes();
            ok &= el == lt.as_ssz_bytes();
            ok &= matches!(std::panic::catch_unwind(|| Lead::from_ssz_bytes(&el)), Ok(Ok(ref y)) if *y == l);
            for (v1, v2) in [(vec![], vec![]), (vec![1u8, 2, 3], vec![9u16]), (vec![0u8; 5], vec![1u16, 2, 3])] {
                let y = Vr { len: b, fb: v1.clone(), fc: c, fd: v2.clone() };
                let yt = VrT { fa: b, fb: v1.clone(), fc: c, fd: v2.clone() };
                let ey = y.as_ssz_bytes();
                ok &= ey == yt.as_ssz_bytes() && y.ssz_bytes_len() == ey.len();
                ok &= matches!(std::panic::catch_unwind(|| Vr::from_ssz_bytes(&ey)), Ok(Ok(ref z)) if *z == y);
                let mut buf = vec![0xEE];
                y.ssz_append(&mut buf);
                ok &= buf[1..] == ey[..];
            }
        }
        println!("len\t{}", if ok { "pass" } else { "fail" });
    }
}

#[cfg(feature = "h_offset")]
mod m_offset {
    use super::*;
    #[derive(Encode, Decode, PartialEq, Debug, Clone)]
    pub struct Fx { pub fa: u8, pub offset: usize, pub fc: u16 }
    #[derive(Encode, Decode, PartialEq, Debug, Clone)]
    pub struct FxT { pub fa: u8, pub fb: usize, pub fc: u16 }
    #[derive(Encode, Decode, PartialEq, Debug, Clone)]
    pub struct Vr { pub offset: usize, pub fb: Vec<u8>, pub fc: u16, pub fd: Vec<u16> }
    #[derive(Encode, Decode, PartialEq, Debug, Clone)]
    pub struct VrT { pub fa: usize, pub fb: Vec<u8>, pub fc: u16, pub fd: Vec<u16> }
    #[derive(Encode, Decode, PartialEq, Debug, Clone)]
    pub struct Lead { pub offset: usize, pub fb: usize, pub fc: u8 }
    #[derive(Encode, Decode, PartialEq, Debug, Clone)]
    pub struct LeadT { pub fa: usize, pub fb: usize, pub fc: u8 }
    pub fn run() {
        let mut ok = true;
        for (a, b, c) in [(1u8, 2usize, 3u16), (0xff, 0x0102_0304_0506_0708, 0xfffe), (7, 11, 0), (0, usize::MAX, 9)] {
            let x = Fx { fa: a, offset: b, fc: c };
            let t = FxT { fa: a, fb: b, fc: c };
            let e = x.as_ssz_bytes();
            ok &= e == t.as_ssz_bytes() && x.ssz_bytes_len() == e.len();
            ok &= <Fx as Encode>::ssz_fixed_len() == <FxT as Encode>::ssz_fixed_len() && <Fx as Decode>::ssz_fixed_len() == <FxT as Decode>::ssz_fixed_len();
            ok &= matches!(std::panic::catch_unwind(|| Fx::from_ssz_bytes(&e)), Ok(Ok(ref y)) if *y == x);
            let l = Lead { offset: b, fb: b ^ 5, fc: a };
            let lt = LeadT { fa: b, fb: b ^ 5, fc: a };
            let el = l.as_ssz_bytes();
            ok &= el == lt.as_ssz_bytes();
            ok &= matches!(std::panic::catch_unwind(|| Lead::from_ssz_bytes(&el)), Ok(Ok(ref y)) if *y == l);
            for (v1, v2) in [(vec![], vec![]), (vec![1u8, 2, 3], vec![9u16]), (vec![0u8; 5], vec![1u16, 2, 3])] {
                let y = Vr { offset: b, fb: v1.clone(), fc: c, fd: v2.clone() };
                let yt = VrT { fa: b, fb: v1.clone(), fc: c, fd: v2.clone() };
                let ey = y.as_ssz_bytes();
                ok &= ey == yt.as_ssz_bytes() && y.ssz_bytes_len() == ey.len();
                ok &= matches!(std::panic::catch_unwind(|| Vr::from_ssz_bytes(&ey)), Ok(Ok(ref z)) if *z == y);
                let mut buf = vec![0xEE];
                y.ssz_append(&mut buf);
                ok &= buf[1..] == ey[..];
            }
        }
        println!("offset\t{}", if ok { "pass" } else { "fail" });
    }
}

#[cfg(feature = "h_index")]
mod m_index {
    use super::*;
    #[derive(Encode, Decode, PartialEq, Debug, Clone)]
    pub struct Fx { pub fa: u8, pub index: usize, pub fc: u16 }
    #[derive(Encode, Decode, PartialEq, Debug, Clone)]
    pub struct FxT { pub fa: u8, pub fb: usize, pub fc: u16 }
    #[derive(Encode, Decode, PartialEq, Debug, Clone)]
    pub struct Vr { pub index: usize, pub fb: Vec<u8>, pub fc: u16, pub fd: Vec<u16> }
    #[derive(Encode, Decode, PartialEq, Debug, Clone)]
    pub struct VrT { pub fa: usize, pub fb: Vec<u8>, pub fc: u16, pub fd: Vec<u16> }
    #[derive(Encode, Decode, PartialEq, Debug, Clone)]
    pub struct Lead { pub index: usize, pub fb: usize, pub fc: u8 }
    #[derive(Encode, Decode, PartialEq, Debug, Clone)]
    pub struct LeadT { pub fa: usize, pub fb: usize, pub fc: u8 }
    pub fn run() {
        let mut ok = true;
        for (a, b, c) in [(1u8, 2usize, 3u16), (0xff, 0x0102_0304_0506_0708, 0xfffe), (7, 11, 0), (0, usize::MAX, 9)] {
            let x = Fx { fa: a, index: b, fc: c };
            let t = FxT { fa: a, fb: b, fc: c };
            let e = x.as_ssz_bytes();
            ok &= e == t.as_ssz_bytes() && x.ssz_bytes_len() == e.len();
            ok &= <Fx as Encode>::ssz_fixed_len() == <FxT as Encode>::ssz_fixed_len() && <Fx as Decode>::ssz_fixed_len() == <FxT as Decode>::ssz_fixed_len();
            ok &= matches!(std::panic::catch_unwind(|| Fx::from_ssz_bytes(&e)), Ok(Ok(ref y)) if *y == x);
            let l = Lead { index: b, fb: b ^ 5, fc: a };
            let lt = LeadT { fa: b, fb: b ^ 5, fc: a };
            let el = l.as_ssz_bytes();
            ok &= el == lt.as_ssz_bytes();
            ok &= matches!(std::panic::catch_unwind(|| Lead::from_ssz_bytes(&el)), Ok(Ok(ref y)) if *y == l);
            for (v1, v2) in [(vec![], vec![]), (vec![1u8, 2, 3], vec![9u16]), (vec![0u8; 5], vec![1u16, 2, 3])] {
                let y = Vr { index: b, fb: v1.clone(), fc: c, fd: v2.clone() };
                let yt = VrT { fa: b, fb: v1.clone(), fc: c, fd: v2.clone() };
                let ey = y.as_ssz_bytes();
                ok &= ey == yt.as_ssz_bytes() && y.ssz_bytes_len() == ey.len();
                ok &= matches!(std::panic::catch_unwind(|| Vr::from_ssz_bytes(&ey)), Ok(Ok(ref z)) if *z == y);
                let mut buf = vec![0xEE];
                y.ssz_append(&mut buf);
                ok &= buf[1..] == ey[..];
            }
        }
        println!("index\t{}", if ok { "pass" } else { "fail" });
    }
}

#[cfg(feature = "h_i")]
mod m_i {
    use super::*;
    #[derive(Encode, Decode, PartialEq, Debug, Clone)]
    pub struct Fx { pub fa: u8, pub i: usize, pub fc: u16 }
    #[derive(Encode, Decode, PartialEq, Debug, Clone)]
    pub struct FxT { pub fa: u8, pub fb: usize, pub fc: u16 }
    #[derive(Encode, Decode, PartialEq, Debug, Clone)]
    pub struct Vr { pub i: usize, pub fb: Vec<u8>, pub fc: u16, pub fd: Vec<u16> }
    #[derive(Encode, Decode, PartialEq, Debug, Clone)]
    pub struct VrT { pub fa: usize, pub fb: Vec<u8>, pub fc: u16, pub fd: Vec<u16> }
    #[derive(Encode, Decode, PartialEq, Debug, Clone)]
    pub struct Lead { pub i: usize, pub fb: usize, pub fc: u8 }
    #[derive(Encode, Decode, PartialEq, Debug, Clone)]
    pub struct LeadT { pub fa: usize, pub fb: usize, pub fc: u8 }
    pub fn run() {
        let mut ok = true;
        for (a, b, c) in [(1u8, 2usize, 3u16), (0xff, 0x0102_0304_0506_0708, 0xfffe), (7, 11, 0), (0, usize::MAX, 9)] {
            let x = Fx { fa: a, i: b, fc: c };
            let t = FxT { fa: a, fb: b, fc: c };
            let e = x.as_ssz_bytes();
            ok &= e == t.as_ssz_bytes() && x.ssz_bytes_len() == e.len();
            ok &= <Fx as Encode>::ssz_fixed_len() == <FxT as Encode>::ssz_fixed_len() && <Fx as Decode>::ssz_fixed_len() == <FxT as Decode>::ssz_fixed_len();
            ok &= matches!(std::panic::catch_unwind(|| Fx::from_ssz_bytes(&e)), Ok(Ok(ref y)) if *y == x);
            let l = Lead { i: b, fb: b ^ 5, fc: a };
            let lt = LeadT { fa: b, fb: b ^ 5, fc: a };
            let el = l.as_ssz_bytes();
            ok &= el == lt.as_ssz_bytes();
            ok &= matches!(std::panic::catch_unwind(|| Lead::from_ssz_bytes(&el)), Ok(Ok(ref y)) if *y == l);
            for (v1, v2) in [(vec![], vec![]), (vec![1u8, 2, 3], vec![9u16]), (vec![0u8; 5], vec![1u16, 2, 3])] {
                let y = Vr { i: b, fb: v1.clone(), fc: c, fd: v2.clone() };
                let yt = VrT { fa: b, fb: v1.clone(), fc: c, fd: v2.clone() };
                let ey = y.as_ssz_bytes();
                ok &= ey == yt.as_ssz_bytes() && y.ssz_bytes_len() == ey.len();
                ok &= matches!(std::panic::catch_unwind(|| Vr::from_ssz_bytes(&ey)), Ok(Ok(ref z)) if *z == y);
                let mut buf = vec![0xEE];
                y.ssz_append(&mut buf);
                ok &= buf[1..] == ey[..];
            }
        }
        println!("i\t{}", if ok { "pass" } else { "fail" });
    }
}

#[cfg(feature = "h_n")]
mod m_n {
    use super::*;
    #[derive(Encode, Decode, PartialEq, Debug, Clone)]
    pub struct Fx { pub fa: u8, pub n: usize, pub fc: u16 }
    #[derive(Encode, Decode, PartialEq, Debug, Clone)]
    pub struct FxT { pub fa: u8, pub fb: usize, pub fc: u16 }
    #[derive(Encode, Decode, PartialEq, Debug, Clone)]
    pub struct Vr { pub n: usize, pub fb: Vec<u8>, pub fc: u16, pub fd: Vec<u16> }
    #[derive(Encode, Decode, PartialEq, Debug, Clone)]
    pub struct VrT { pub fa: usize, pub fb: Vec<u8>, pub fc: u16, pub fd: Vec<u16> }
    #[derive(Encode, Decode, PartialEq, Debug, Clone)]
    pub struct Lead { pub n: usize, pub fb: usize, pub fc: u8 }
    #[derive(Encode, Decode, PartialEq, Debug, Clone)]
    pub struct LeadT { pub fa: usize, pub fb: usize, pub fc: u8 }
    pub fn run() {
        let mut ok = true;
        for (a, b, c) in [(1u8, 2usize, 3u16), (0xff, 0x0102_0304_0506_0708, 0xfffe), (7, 11, 0), (0, usize::MAX, 9)] {
            let x = Fx { fa: a, n: b, fc: c };
            let t = FxT { fa: a, fb: b, fc: c };
            let e = x.as_ssz_bytes();
            ok &= e == t.as_ssz_bytes() && x.ssz_bytes_len() == e.len();
            ok &= <Fx as Encode>::ssz_fixed_len() == <FxT as Encode>::ssz_fixed_len() && <Fx as Decode>::ssz_fixed_len() == <FxT as Decode>::ssz_fixed_len();
            ok &= matches!(std::panic::catch_unwind(|| Fx::from_ssz_bytes(&e)), Ok(Ok(ref y)) if *y == x);
            let l = Lead { n: b, fb: b ^ 5, fc: a };
            let lt = LeadT { fa: b, fb: b ^ 5, fc: a };
            let el = l.as_ssz_bytes();
            ok &= el == lt.as_ssz_bytes();
            ok &= matches!(std::panic::catch_unwind(|| Lead::from_ssz_bytes(&el)), Ok(Ok(ref y)) if *y == l);
            for (v1, v2) in [(vec![], vec![]), (vec![1u8, 2, 3], vec![9u16]), (vec![0u8; 5], vec![1u16, 2, 3])] {
                let y = Vr { n: b, fb: v1.clone(), fc: c, fd: v2.clone() };
                let yt = VrT { fa: b, fb: v1.clone(), fc: c, fd: v2.clone() };
                let ey = y.as_ssz_bytes();
                ok &= ey == yt.as_ssz_bytes() && y.ssz_bytes_len() == ey.len();
                ok &= matches!(std::panic::catch_unwind(|| Vr::from_ssz_bytes(&ey)), Ok(Ok(ref z)) if *z == y);
                let mut buf = vec![0xEE];
                y.ssz_append(&mut buf);
                ok &= buf[1..] == ey[..];
            }
        }
        println!("n\t{}", if ok { "pass" } else { "fail" });
    }
}

#[cfg(feature = "h_x")]
mod m_x {
    use super::*;
    #[derive(Encode, Decode, PartialEq, Debug, Clone)]
    pub struct Fx { pub fa: u8, pub x: usize, pub fc: u16 }
    #[derive(Encode, Decode, PartialEq, Debug, Clone)]
    pub struct FxT { pub fa: u8, pub fb: usize, pub fc: u16 }
    #[derive(Encode, Decode, PartialEq, Debug, Clone)]
    pub struct Vr { pub x: usize, pub fb: Vec<u8>, pub fc: u16, pub fd: Vec<u16> }
    #[derive(Encode, Decode, PartialEq, Debug, Clone)]
    pub struct VrT { pub fa: usize, pub fb: Vec<u8>, pub fc: u16, pub fd: Vec<u16> }
    #[derive(Encode, Decode, PartialEq, Debug, Clone)]
    pub struct Lead { pub x: usize, pub fb: usize, pub fc: u8 }
    #[derive(Encode, Decode, PartialEq, Debug, Clone)]
    pub struct LeadT { pub fa: usize, pub fb: usize, pub fc: u8 }
    pub fn run() {
        let mut ok = true;
        for (a, b, c) in [(1u8, 2usize, 3u16), (0xff, 0x0102_0304_0506_0708, 0xfffe), (7, 11, 0), (0, usize::MAX, 9)] {
            let x = Fx { fa: a, x: b, fc: c };
            let t = FxT { fa: a, fb: b, fc: c };
            let e = x.as_ssz_bytes();
            ok &= e == t.as_ssz_bytes() && x.ssz_bytes_len() == e.len();
            ok &= <Fx as Encode>::ssz_fixed_len() == <FxT as Encode>::ssz_fixed_len() && <Fx as Decode>::ssz_fixed_len() == <FxT as Decode>::ssz_fixed_len();
            ok &= matches!(std::panic::catch_unwind(|| Fx::from_ssz_bytes(&e)), Ok(Ok(ref y)) if *y == x);
            let l = Lead { x: b, fb: b ^ 5, fc: a };
            let lt = LeadT { fa: b, fb: b ^ 5, fc: a };
            let el = l.as_ssz_bytes();
            ok &= el == lt.as_ssz_bytes();
            ok &= matches!(std::panic::catch_unwind(|| Lead::from_ssz_bytes(&el)), Ok(Ok(ref y)) if *y == l);
            for (v1, v2) in [(vec![], vec![]), (vec![1u8, 2, 3], vec![9u16]), (vec![0u8; 5], vec![1u16, 2, 3])] {
                let y = Vr { x: b, fb: v1.clone(), fc: c, fd: v2.clone() };
                let yt = VrT { fa: b, fb: v1.clone(), fc: c, fd: v2.clone() };
                let ey = y.as_ssz_bytes();
                ok &= ey == yt.as_ssz_bytes() && y.ssz_bytes_len() == ey.len();
                ok &= matches!(std::panic::catch_unwind(|| Vr::from_ssz_bytes(&ey)), Ok(Ok(ref z)) if *z == y);
                let mut buf = vec![0xEE];
                y.ssz_append(&mut buf);
                ok &= buf[1..] == ey[..];
            }
        }
        println!("x\t{}", if ok { "pass" } else { "fail" });
    }
}

#[cfg(feature = "h_buf")]
mod m_buf {
    use super::*;
    #[derive(Encode, Decode, PartialEq, Debug, Clone)]
    pub struct Fx { pub fa: u8, pub buf: usize, pub fc: u16 }
    #[derive(Encode, Decode, PartialEq, Debug, Clone)]
    pub struct FxT { pub fa: u8, pub fb: usize, pub fc: u16 }
    #[derive(Encode, Decode, PartialEq, Debug, Clone)]
    pub struct Vr { pub buf: usize, pub fb: Vec<u8>, pub fc: u16, pub fd: Vec<u16> }
    #[derive(Encode, Decode, PartialEq, Debug, Clone)]
    pub struct VrT { pub fa: usize, pub fb: Vec<u8>, pub fc: u16, pub fd: Vec<u16> }
    #[derive(Encode, Decode, PartialEq, Debug, Clone)]
    pub struct Lead { pub buf: usize, pub fb: usize, pub fc: u8 }
    #[derive(Encode, Decode, PartialEq, Debug, Clone)]
    pub struct LeadT { pub fa: usize, pub fb: usize, pub fc: u8 }
    pub fn run() {
        let mut ok = true;
        for (a, b, c) in [(1u8, 2usize, 3u16), (0xff, 0x0102_0304_0506_0708, 0xfffe), (7, 11, 0), (0, usize::MAX, 9)] {
            let x = Fx { fa: a, buf: b, fc: c };
            let t = FxT { fa: a, fb: b, fc: c };
            let e = x.as_ssz_bytes();
            ok &= e == t.as_ssz_bytes() && x.ssz_bytes_len() == e.len();
            ok &= <Fx as Encode>::ssz_fixed_len() == <FxT as Encode>::ssz_fixed_len() && <Fx as Decode>::ssz_fixed_len() == <FxT as Decode>::ssz_fixed_len();
            ok &= matches!(std::panic::catch_unwind(|| Fx::from_ssz_bytes(&e)), Ok(Ok(ref y)) if *y == x);
            let l = Lead { buf: b, fb: b ^ 5, fc: a };
            let lt = LeadT { fa: b, fb: b ^ 5, fc: a };
            let el = l.as_ssz_bytes();
            ok &= el == lt.as_ssz_bytes();
            ok &= matches!(std::panic::catch_unwind(|| Lead::from_ssz_bytes(&el)), Ok(Ok(ref y)) if *y == l);
            for (v1, v2) in [(vec![], vec![]), (vec![1u8, 2, 3], vec![9u16]), (vec![0u8; 5], vec![1u16, 2, 3])] {
                let y = Vr { buf: b, fb: v1.clone(), fc: c, fd: v2.clone() };
                let yt = VrT { fa: b, fb: v1.clone(), fc: c, fd: v2.clone() };
                let ey = y.as_ssz_bytes();
                ok &= ey == yt.as_ssz_bytes() && y.ssz_bytes_len() == ey.len();
                ok &= matches!(std::panic::catch_unwind(|| Vr::from_ssz_bytes(&ey)), Ok(Ok(ref z)) if *z == y);
                let mut buf = vec![0xEE];
                y.ssz_append(&mut buf);
                ok &= buf[1..] == ey[..];
            }
        }
        println!("buf\t{}", if ok { "pass" } else { "fail" });
    }
}

#[cfg(feature = "h_items")]
mod m_items {
    use super::*;
    #[derive(Encode, Decode, PartialEq, Debug, Clone)]
    pub struct Fx { pub fa: u8, pub items: usize, pub fc: u16 }
    #[derive(Encode, Decode, PartialEq, Debug, Clone)]
    pub struct FxT { pub fa: u8, pub fb: usize, pub fc: u16 }
    #[derive(Encode, Decode, PartialEq, Debug, Clone)]
    pub struct Vr { pub items: usize, pub fb: Vec<u8>, pub fc: u16, pub fd: Vec<u16> }
    #[derive(Encode, Decode, PartialEq, Debug, Clone)]
    pub struct VrT { pub fa: usize, pub fb: Vec<u8>, pub fc: u16, pub fd: Vec<u16> }
    #[derive(Encode, Decode, PartialEq, Debug, Clone)]
    pub struct Lead { pub items: usize, pub fb: usize, pub fc: u8 }
    #[derive(Encode, Decode, PartialEq, Debug, Clone)]
    pub struct LeadT { pub fa: usize, pub fb: usize, pub fc: u8 }
    pub fn run() {
        let mut ok = true;
        for (a, b, c) in [(1u8, 2usize, 3u16), (0xff, 0x0102_0304_0506_0708, 0xfffe), (7, 11, 0), (0, usize::MAX, 9)] {
            let x = Fx { fa: a, items: b, fc: c };
            let t = FxT { fa: a, fb: b, fc: c };
            let e = x.as_ssz_bytes();
            ok &= e == t.as_ssz_bytes() && x.ssz_bytes_len() == e.len();
            ok &= <Fx as Encode>::ssz_fixed_len() == <FxT as Encode>::ssz_fixed_len() && <Fx as Decode>::ssz_fixed_len() == <FxT as Decode>::ssz_fixed_len();
            ok &= matches!(std::panic::catch_unwind(|| Fx::from_ssz_bytes(&e)), Ok(Ok(ref y)) if *y == x);
            let l = Lead { items: b, fb: b ^ 5, fc: a };
            let lt = LeadT { fa: b, fb: b ^ 5, fc: a };
            let el = l.as_ssz_bytes();
            ok &= el == lt.as_ssz_bytes();
            ok &= matches!(std::panic::catch_unwind(|| Lead::from_ssz_bytes(&el)), Ok(Ok(ref y)) if *y == l);
            for (v1, v2) in [(vec![], vec![]), (vec![1u8, 2, 3], vec![9u16]), (vec![0u8; 5], vec![1u16, 2, 3])] {
                let y = Vr { items: b, fb: v1.clone(), fc: c, fd: v2.clone() };
                let yt = VrT { fa: b, fb: v1.clone(), fc: c, fd: v2.clone() };
                let ey = y.as_ssz_bytes();
                ok &= ey == yt.as_ssz_bytes() && y.ssz_bytes_len() == ey.len();
                ok &= matches!(std::panic::catch_unwind(|| Vr::from_ssz_bytes(&ey)), Ok(Ok(ref z)) if *z == y);
                let mut buf = vec![0xEE];
                y.ssz_append(&mut buf);
                ok &= buf[1..] == ey[..];
            }
        }
        println!("items\t{}", if ok { "pass" } else { "fail" });
    }
}


#[cfg(feature = "h_builder")]
mod m_builder {
    use super::*;
    #[derive(Encode, Decode, PartialEq, Debug, Clone)]
    pub struct Fx { pub fa: u8, pub builder: usize, pub fc: u16 }
    #[derive(Encode, Decode, PartialEq, Debug, Clone)]
    pub struct FxT { pub fa: u8, pub fb: usize, pub fc: u16 }
    #[derive(Encode, Decode, PartialEq, Debug, Clone)]
    pub struct Vr { pub builder: usize, pub fb: Vec<u8>, pub fc: u16, pub fd: Vec<u16> }
    #[derive(Encode, Decode, PartialEq, Debug, Clone)]
    pub struct VrT { pub fa: usize, pub fb: Vec<u8>, pub fc: u16, pub fd: Vec<u16> }
    #[derive(Encode, Decode, PartialEq, Debug, Clone)]
    pub struct Lead { pub builder: usize, pub fb: usize, pub fc: u8 }
    #[derive(Encode, Decode, PartialEq, Debug, Clone)]
    pub struct LeadT { pub fa: usize, pub fb: usize, pub fc: u8 }
    pub fn run() {
        let mut ok = true;
        for (a, b, c) in [(1u8, 2usize, 3u16), (0xff, 0x0102_0304_0506_0708, 0xfffe), (7, 11, 0), (0, usize::MAX, 9)] {
            let x = Fx { fa: a, builder: b, fc: c };
            let t = FxT { fa: a, fb: b, fc: c };
            let e = x.as_ssz_bytes();
            ok &= e == t.as_ssz_bytes() && x.ssz_bytes_len() == e.len();
            ok &= <Fx as Encode>::ssz_fixed_len() == <FxT as Encode>::ssz_fixed_len() && <Fx as Decode>::ssz_fixed_len() == <FxT as Decode>::ssz_fixed_len();
            ok &= matches!(std::panic::catch_unwind(|| Fx::from_ssz_bytes(&e)), Ok(Ok(ref y)) if *y == x);
            let l = Lead { builder: b, fb: b ^ 5, fc: a };
            let lt = LeadT { fa: b, fb: b ^ 5, fc: a };
            let el = l.as_ssz_bytes();
            ok &= el == lt.as_ssz_bytes();
            ok &= matches!(std::panic::catch_unwind(|| Lead::from_ssz_bytes(&el)), Ok(Ok(ref y)) if *y == l);
            for (v1, v2) in [(vec![], vec![]), (vec![1u8, 2, 3], vec![9u16]), (vec![0u8; 5], vec![1u16, 2, 3])] {
                let y = Vr { builder: b, fb: v1.clone(), fc: c, fd: v2.clone() };
                let yt = VrT { fa: b, fb: v1.clone(), fc: c, fd: v2.clone() };
                let ey = y.as_ssz_bytes();
                ok &= ey == yt.as_ssz_bytes() && y.ssz_bytes_len() == ey.len();
                ok &= matches!(std::panic::catch_unwind(|| Vr::from_ssz_bytes(&ey)), Ok(Ok(ref z)) if *z == y);
                let mut buf = vec![0xEE];
                y.ssz_append(&mut buf);
                ok &= buf[1..] == ey[..];
            }
        }
        println!("builder\t{}", if ok { "pass" } else { "fail" });
    }
}


#[cfg(feature = "h_encoder")]
mod m_encoder {
    use super::*;
    #[derive(Encode, Decode, PartialEq, Debug, Clone)]
    pub struct Fx { pub fa: u8, pub encoder: usize, pub fc: u16 }
    #[derive(Encode, Decode, PartialEq, Debug, Clone)]
    pub struct FxT { pub fa: u8, pub fb: usize, pub fc: u16 }
    #[derive(Encode, Decode, PartialEq, Debug, Clone)]
    pub struct Vr { pub encoder: usize, pub fb: Vec<u8>, pub fc: u16, pub fd: Vec<u16> }
    #[derive(Encode, Decode, PartialEq, Debug, Clone)]
    pub struct VrT { pub fa: usize, pub fb: Vec<u8>, pub fc: u16, pub fd: Vec<u16> }
    #[derive(Encode, Decode, PartialEq, Debug, Clone)]
    pub struct Lead { pub encoder: usize, pub fb: usize, pub fc: u8 }
    #[derive(Encode, Decode, PartialEq, Debug, Clone)]
    pub struct LeadT { pub fa: usize, pub fb: usize, pub fc: u8 }
    pub fn run() {
        let mut ok = true;
        for (a, b, c) in [(1u8, 2usize, 3u16), (0xff, 0x0102_0304_0506_0708, 0xfffe), (7, 11, 0), (0, usize::MAX, 9)] {
            let x = Fx { fa: a, encoder: b, fc: c };
            let t = FxT { fa: a, fb: b, fc: c };
            let e = x.as_ssz_bytes();
            ok &= e == t.as_ssz_bytes() && x.ssz_bytes_len() == e.len();
            ok &= <Fx as Encode>::ssz_fixed_len() == <FxT as Encode>::ssz_fixed_len() && <Fx as Decode>::ssz_fixed_len() == <FxT as Decode>::ssz_fixed_len();
            ok &= matches!(std::panic::catch_unwind(|| Fx::from_ssz_bytes(&e)), Ok(Ok(ref y)) if *y == x);
            let l = Lead { encoder: b, fb: b ^ 5, fc: a };
            let lt = LeadT { fa: b, fb: b ^ 5, fc: a };
            let el = l.as_ssz_bytes();
            ok &= el == lt.as_ssz_bytes();
            ok &= matches!(std::panic::catch_unwind(|| Lead::from_ssz_bytes(&el)), Ok(Ok(ref y)) if *y == l);
            for (v1, v2) in [(vec![], vec![]), (vec![1u8, 2, 3], vec![9u16]), (vec![0u8; 5], vec![1u16, 2, 3])] {
                let y = Vr { encoder: b, fb: v1.clone(), fc: c, fd: v2.clone() };
                let yt = VrT { fa: b, fb: v1.clone(), fc: c, fd: v2.clone() };
                let ey = y.as_ssz_bytes();
                ok &= ey == yt.as_ssz_bytes() && y.ssz_bytes_len() == ey.len();
                ok &= matches!(std::panic::catch_unwind(|| Vr::from_ssz_bytes(&ey)), Ok(Ok(ref z)) if *z == y);
                let mut buf = vec![0xEE];
                y.ssz_append(&mut buf);
                ok &= buf[1..] == ey[..];
            }
        }
        println!("encoder\t{}", if ok { "pass" } else { "fail" });
    }
}

#[cfg(feature = "h_value")]
mod m_value {
    use super::*;
    #[derive(Encode, Decode, PartialEq, Debug, Clone)]
    pub struct Fx { pub fa: u8, pub value: usize, pub fc: u16 }
    #[derive(Encode, Decode, PartialEq, Debug, Clone)]
    pub struct FxT { pub fa: u8, pub fb: usize, pub fc: u16 }
    #[derive(Encode, Decode, PartialEq, Debug, Clone)]
    pub struct Vr { pub value: usize, pub fb: Vec<u8>, pub fc: u16, pub fd: Vec<u16> }
    #[derive(Encode, Decode, PartialEq, Debug, Clone)]
    pub struct VrT { pub fa: usize, pub fb: Vec<u8>, pub fc: u16, pub fd: Vec<u16> }
    #[derive(Encode, Decode, PartialEq, Debug, Clone)]
    pub struct Lead { pub value: usize, pub fb: usize, pub fc: u8 }
    #[derive(Encode, Decode, PartialEq, Debug, Clone)]
    pub struct LeadT { pub fa: usize, pub fb: usize, pub fc: u8 }
    pub fn run() {
        let mut ok = true;
        for (a, b, c) in [(1u8, 2usize, 3u16), (0xff, 0x0102_0304_0506_0708, 0xfffe), (7, 11, 0), (0, usize::MAX, 9)] {
            let x = Fx { fa: a, value: b, fc: c };
            let t = FxT { fa: a, fb: b, fc: c };
            let e = x.as_ssz_bytes();
            ok &= e == t.as_ssz_bytes() && x.ssz_bytes_len() == e.len();
            ok &= <Fx as Encode>::ssz_fixed_len() == <FxT as Encode>::ssz_fixed_len() && <Fx as Decode>::ssz_fixed_len() == <FxT as Decode>::ssz_fixed_len();
            ok &= matches!(std::panic::catch_unwind(|| Fx::from_ssz_bytes(&e)), Ok(Ok(ref y)) if *y == x);
            let l = Lead { value: b, fb: b ^ 5, fc: a };
            let lt = LeadT { fa: b, fb: b ^ 5, fc: a };
            let el = l.as_ssz_bytes();
            ok &= el == lt.as_ssz_bytes();
            ok &= matches!(std::panic::catch_unwind(|| Lead::from_ssz_bytes(&el)), Ok(Ok(ref y)) if *y == l);
            for (v1, v2) in [(vec![], vec![]), (vec![1u8, 2, 3], vec![9u16]), (vec![0u8; 5], vec![1u16, 2, 3])] {
                let y = Vr { value: b, fb: v1.clone(), fc: c, fd: v2.clone() };
                let yt = VrT { fa: b, fb: v1.clone(), fc: c, fd: v2.clone() };
                let ey = y.as_ssz_bytes();
                ok &= ey == yt.as_ssz_bytes() && y.ssz_bytes_len() == ey.len();
                ok &= matches!(std::panic::catch_unwind(|| Vr::from_ssz_bytes(&ey)), Ok(Ok(ref z)) if *z == y);
                let mut buf = vec![0xEE];
                y.ssz_append(&mut buf);
                ok &= buf[1..] == ey[..];
            }
        }
        println!("value\t{}", if ok { "pass" } else { "fail" });
    }
}

#[cfg(feature = "h_result")]
mod m_result {
    use super::*;
    #[derive(Encode, Decode, PartialEq, Debug, Clone)]
    pub struct Fx { pub fa: u8, pub result: usize, pub fc: u16 }
    #[derive(Encode, Decode, PartialEq, Debug, Clone)]
    pub struct FxT { pub fa: u8, pub fb: usize, pub fc: u16 }
    #[derive(Encode, Decode, PartialEq, Debug, Clone)]
    pub struct Vr { pub result: usize, pub fb: Vec<u8>, pub fc: u16, pub fd: Vec<u16> }
    #[derive(Encode, Decode, PartialEq, Debug, Clone)]
    pub struct VrT { pub fa: usize, pub fb: Vec<u8>, pub fc: u16, pub fd: Vec<u16> }
    #[derive(Encode, Decode, PartialEq, Debug, Clone)]
    pub struct Lead { pub result: usize, pub fb: usize, pub fc: u8 }
    #[derive(Encode, Decode, PartialEq, Debug, Clone)]
    pub struct LeadT { pub fa: usize, pub fb: usize, pub fc: u8 }
    pub fn run() {
        let mut ok = true;
        for (a, b, c) in [(1u8, 2usize, 3u16), (0xff, 0x0102_0304_0506_0708, 0xfffe), (7, 11, 0), (0, usize::MAX, 9)] {
            let x = Fx { fa: a, result: b, fc: c };
            let t = FxT { fa: a, fb: b, fc: c };
            let e = x.as_ssz_bytes();
            ok &= e == t.as_ssz_bytes() && x.ssz_bytes_len() == e.len();
            ok &= <Fx as Encode>::ssz_fixed_len() == <FxT as Encode>::ssz_fixed_len() && <Fx as Decode>::ssz_fixed_len() == <FxT as Decode>::ssz_fixed_len();
            ok &= matches!(std::panic::catch_unwind(|| Fx::from_ssz_bytes(&e)), Ok(Ok(ref y)) if *y == x);
            let l = Lead { result: b, fb: b ^ 5, fc: a };
            let lt = LeadT { fa: b, fb: b ^ 5, fc: a };
            let el = l.as_ssz_bytes();
            ok &= el == lt.as_ssz_bytes();
            ok &= matches!(std::panic::catch_unwind(|| Lead::from_ssz_bytes(&el)), Ok(Ok(ref y)) if *y == l);
            for (v1, v2) in [(vec![], vec![]), (vec![1u8, 2, 3], vec![9u16]), (vec![0u8; 5], vec![1u16, 2, 3])] {
                let y = Vr { result: b, fb: v1.clone(), fc: c, fd: v2.clone() };
                let yt = VrT { fa: b, fb: v1.clone(), fc: c, fd: v2.clone() };
                let ey = y.as_ssz_bytes();
                ok &= ey == yt.as_ssz_bytes() && y.ssz_bytes_len() == ey.len();
                ok &= matches!(std::panic::catch_unwind(|| Vr::from_ssz_bytes(&ey)), Ok(Ok(ref z)) if *z == y);
                let mut buf = vec![0xEE];
                y.ssz_append(&mut buf);
                ok &= buf[1..] == ey[..];
            }
        }
        println!("result\t{}", if ok { "pass" } else { "fail" });
    }
}

#[cfg(feature = "h_res")]
mod m_res {
    use super::*;
    #[derive(Encode, Decode, PartialEq, Debug, Clone)]
    pub struct Fx { pub fa: u8, pub res: usize, pub fc: u16 }
    #[derive(Encode, Decode, PartialEq, Debug, Clone)]
    pub struct FxT { pub fa: u8, pub fb: usize, pub fc: u16 }
    #[derive(Encode, Decode, PartialEq, Debug, Clone)]
    pub struct Vr { pub res: usize, pub fb: Vec<u8>, pub fc: u16, pub fd: Vec<u16> }
    #[derive(Encode, Decode, PartialEq, Debug, Clone)]
    pub struct VrT { pub fa: usize, pub fb: Vec<u8>, pub fc: u16, pub fd: Vec<u16> }
    #[derive(Encode, Decode, PartialEq, Debug, Clone)]
    pub struct Lead { pub res: usize, pub fb: usize, pub fc: u8 }
    #[derive(Encode, Decode, PartialEq, Debug, Clone)]
    pub struct LeadT { pub fa: usize, pub fb: usize, pub fc: u8 }
    pub fn run() {
        let mut ok = true;
        for (a, b, c) in [(1u8, 2usize, 3u16), (0xff, 0x0102_0304_0506_0708, 0xfffe), (7, 11, 0), (0, usize::MAX, 9)] {
            let x = Fx { fa: a, res: b, fc: c };
            let t = FxT { fa: a, fb: b, fc: c };
            let e = x.as_ssz_bytes();
            ok &= e == t.as_ssz_bytes() && x.ssz_bytes_len() == e.len();
            ok &= <Fx as Encode>::ssz_fixed_len() == <FxT as Encode>::ssz_fixed_len() && <Fx as Decode>::ssz_fixed_len() == <FxT as Decode>::ssz_fixed_len();
            ok &= matches!(std::panic::catch_unwind(|| Fx::from_ssz_bytes(&e)), Ok(Ok(ref y)) if *y == x);
            let l = Lead { res: b, fb: b ^ 5, fc: a };
            let lt = LeadT { fa: b, fb: b ^ 5, fc: a };
            let el = l.as_ssz_bytes();
            ok &= el == lt.as_ssz_bytes();
            ok &= matches!(std::panic::catch_unwind(|| Lead::from_ssz_bytes(&el)), Ok(Ok(ref y)) if *y == l);
            for (v1, v2) in [(vec![], vec![]), (vec![1u8, 2, 3], vec![9u16]), (vec![0u8; 5], vec![1u16, 2, 3])] {
                let y = Vr { res: b, fb: v1.clone(), fc: c, fd: v2.clone() };
                let yt = VrT { fa: b, fb: v1.clone(), fc: c, fd: v2.clone() };
                let ey = y.as_ssz_bytes();
                ok &= ey == yt.as_ssz_bytes() && y.ssz_bytes_len() == ey.len();
                ok &= matches!(std::panic::catch_unwind(|| Vr::from_ssz_bytes(&ey)), Ok(Ok(ref z)) if *z == y);
                let mut buf = vec![0xEE];
                y.ssz_append(&mut buf);
                ok &= buf[1..] == ey[..];
            }
        }
        println!("res\t{}", if ok { "pass" } else { "fail" });
    }
}

#[cfg(feature = "h_tmp")]
mod m_tmp {
    use super::*;
    #[derive(Encode, Decode, PartialEq, Debug, Clone)]
    pub struct Fx { pub fa: u8, pub tmp: usize, pub fc: u16 }
    #[derive(Encode, Decode, PartialEq, Debug, Clone)]
    pub struct FxT { pub fa: u8, pub fb: usize, pub fc: u16 }
    #[derive(Encode, Decode, PartialEq, Debug, Clone)]
    pub struct Vr { pub tmp: usize, pub fb: Vec<u8>, pub fc: u16, pub fd: Vec<u16> }
    #[derive(Encode, Decode, PartialEq, Debug, Clone)]
    pub struct VrT { pub fa: usize, pub fb: Vec<u8>, pub fc: u16, pub fd: Vec<u16> }
    #[derive(Encode, Decode, PartialEq, Debug, Clone)]
    pub struct Lead { pub tmp: usize, pub fb: usize, pub fc: u8 }
    #[derive(Encode, Decode, PartialEq, Debug, Clone)]
    pub struct LeadT { pub fa: usize, pub fb: usize, pub fc: u8 }
    pub fn run() {
        let mut ok = true;
        for (a, b, c) in [(1u8, 2usize, 3u16), (0xff, 0x0102_0304_0506_0708, 0xfffe), (7, 11, 0), (0, usize::MAX, 9)] {
            let x = Fx { fa: a, tmp: b, fc: c };
            let t = FxT { fa: a, fb: b, fc: c };
            let e = x.as_ssz_bytes();
            ok &= e == t.as_ssz_bytes() && x.ssz_bytes_len() == e.len();
            ok &= <Fx as Encode>::ssz_fixed_len() == <FxT as Encode>::ssz_fixed_len() && <Fx as Decode>::ssz_fixed_len() == <FxT as Decode>::ssz_fixed_len();
            ok &= matches!(std::panic::catch_unwind(|| Fx::from_ssz_bytes(&e)), Ok(Ok(ref y)) if *y == x);
            let l = Lead { tmp: b, fb: b ^ 5, fc: a };
            let lt = LeadT { fa: b, fb: b ^ 5, fc: a };
            let el = l.as_ssz_bytes();
            ok &= el == lt.as_ssz_bytes();
            ok &= matches!(std::panic::catch_unwind(|| Lead::from_ssz_bytes(&el)), Ok(Ok(ref y)) if *y == l);
            for (v1, v2) in [(vec![], vec![]), (vec![1u8, 2, 3], vec![9u16]), (vec![0u8; 5], vec![1u16, 2, 3])] {
                let y = Vr { tmp: b, fb: v1.clone(), fc: c, fd: v2.clone() };
                let yt = VrT { fa: b, fb: v1.clone(), fc: c, fd: v2.clone() };
                let ey = y.as_ssz_bytes();
                ok &= ey == yt.as_ssz_bytes() && y.ssz_bytes_len() == ey.len();
                ok &= matches!(std::panic::catch_unwind(|| Vr::from_ssz_bytes(&ey)), Ok(Ok(ref z)) if *z == y);
                let mut buf = vec![0xEE];
                y.ssz_append(&mut buf);
                ok &= buf[1..] == ey[..];
            }
        }
        println!("tmp\t{}", if ok { "pass" } else { "fail" });
    }
}

#[cfg(feature = "h_idx")]
mod m_idx {
    use super::*;
    #[derive(Encode, Decode, PartialEq, Debug, Clone)]
    pub struct Fx { pub fa: u8, pub idx: usize, pub fc: u16 }
    #[derive(Encode, Decode, PartialEq, Debug, Clone)]
    pub struct FxT { pub fa: u8, pub fb: usize, pub fc: u16 }
    #[derive(Encode, Decode, PartialEq, Debug, Clone)]
    pub struct Vr { pub idx: usize, pub fb: Vec<u8>, pub fc: u16, pub fd: Vec<u16> }
    #[derive(Encode, Decode, PartialEq, Debug, Clone)]
    pub struct VrT { pub fa: usize, pub fb: Vec<u8>, pub fc: u16, pub fd: Vec<u16> }
    #[derive(Encode, Decode, PartialEq, Debug, Clone)]
    pub struct Lead { pub idx: usize, pub fb: usize, pub fc: u8 }
    #[derive(Encode, Decode, PartialEq, Debug, Clone)]
    pub struct LeadT { pub fa: usize, pub fb: usize, pub fc: u8 }
    pub fn run() {
        let mut ok = true;
        for (a, b, c) in [(1u8, 2usize, 3u16), (0xff, 0x0102_0304_0506_0708, 0xfffe), (7, 11, 0), (0, usize::MAX, 9)] {
            let x = Fx { fa: a, idx: b, fc: c };
            let t = FxT { fa: a, fb: b, fc: c };
            let e = x.as_ssz_bytes();
            ok &= e == t.as_ssz_bytes() && x.ssz_bytes_len() == e.len();
            ok &= <Fx as Encode>::ssz_fixed_len() == <FxT as Encode>::ssz_fixed_len() && <Fx as Decode>::ssz_fixed_len() == <FxT as Decode>::ssz_fixed_len();
            ok &= matches!(std::panic::catch_unwind(|| Fx::from_ssz_bytes(&e)), Ok(Ok(ref y)) if *y == x);
            let l = Lead { idx: b, fb: b ^ 5, fc: a };
            let lt = LeadT { fa: b, fb: b ^ 5, fc: a };
            let el = l.as_ssz_bytes();
            ok &= el == lt.as_ssz_bytes();
            ok &= matches!(std::panic::catch_unwind(|| Lead::from_ssz_bytes(&el)), Ok(Ok(ref y)) if *y == l);
            for (v1, v2) in [(vec![], vec![]), (vec![1u8, 2, 3], vec![9u16]), (vec![0u8; 5], vec![1u16, 2, 3])] {
                let y = Vr { idx: b, fb: v1.clone(), fc: c, fd: v2.clone() };
                let yt = VrT { fa: b, fb: v1.clone(), fc: c, fd: v2.clone() };
                let ey = y.as_ssz_bytes();
                ok &= ey == yt.as_ssz_bytes() && y.ssz_bytes_len() == ey.len();
                ok &= matches!(std::panic::catch_unwind(|| Vr::from_ssz_bytes(&ey)), Ok(Ok(ref z)) if *z == y);
                let mut buf = vec![0xEE];
                y.ssz_append(&mut buf);
                ok &= buf[1..] == ey[..];
            }
        }
        println!("idx\t{}", if ok { "pass" } else { "fail" });
    }
}

#[cfg(feature = "h_pos")]
mod m_pos {
    use super::*;
    #[derive(Encode, Decode, PartialEq, Debug, Clone)]
    pub struct Fx { pub fa: u8, pub pos: usize, pub fc: u16 }
    #[derive(Encode, Decode, PartialEq, Debug, Clone)]
    pub struct FxT { pub fa: u8, pub fb: usize, pub fc: u16 }
    #[derive(Encode, Decode, PartialEq, Debug, Clone)]
    pub struct Vr { pub pos: usize, pub fb: Vec<u8>, pub fc: u16, pub fd: Vec<u16> }
    #[derive(Encode, Decode, PartialEq, Debug, Clone)]
    pub struct VrT { pub fa: usize, pub fb: Vec<u8>, pub fc: u16, pub fd: Vec<u16> }
    #[derive(Encode, Decode, PartialEq, Debug, Clone)]
    pub struct Lead { pub pos: usize, pub fb: usize, pub fc: u8 }
    #[derive(Encode, Decode, PartialEq, Debug, Clone)]
    pub struct LeadT { pub fa: usize, pub fb: usize, pub fc: u8 }
    pub fn run() {
        let mut ok = true;
        for (a, b, c) in [(1u8, 2usize, 3u16), (0xff, 0x0102_0304_0506_0708, 0xfffe), (7, 11, 0), (0, usize::MAX, 9)] {
            let x = Fx { fa: a, pos: b, fc: c };
            let t = FxT { fa: a, fb: b, fc: c };
            let e = x.as_ssz_bytes();
            ok &= e == t.as_ssz_bytes() && x.ssz_bytes_len() == e.len();
            ok &= <Fx as Encode>::ssz_fixed_len() == <FxT as Encode>::ssz_fixed_len() && <Fx as Decode>::ssz_fixed_len() == <FxT as Decode>::ssz_fixed_len();
            ok &= matches!(std::panic::catch_unwind(|| Fx::from_ssz_bytes(&e)), Ok(Ok(ref y)) if *y == x);
            let l = Lead { pos: b, fb: b ^ 5, fc: a };
            let lt = LeadT { fa: b, fb: b ^ 5, fc: a };
            let el = l.as_ssz_bytes();
            ok &= el == lt.as_ssz_bytes();
            ok &= matches!(std::panic::catch_unwind(|| Lead::from_ssz_bytes(&el)), Ok(Ok(ref y)) if *y == l);
            for (v1, v2) in [(vec![], vec![]), (vec![1u8, 2, 3], vec![9u16]), (vec![0u8; 5], vec![1u16, 2, 3])] {
                let y = Vr { pos: b, fb: v1.clone(), fc: c, fd: v2.clone() };
                let yt = VrT { fa: b, fb: v1.clone(), fc: c, fd: v2.clone() };
                let ey = y.as_ssz_bytes();
                ok &= ey == yt.as_ssz_bytes() && y.ssz_bytes_len() == ey.len();
                ok &= matches!(std::panic::catch_unwind(|| Vr::from_ssz_bytes(&ey)), Ok(Ok(ref z)) if *z == y);
                let mut buf = vec![0xEE];
                y.ssz_append(&mut buf);
                ok &= buf[1..] == ey[..];
            }
        }
        println!("pos\t{}", if ok { "pass" } else { "fail" });
    }
}

#[cfg(feature = "h_cursor")]
mod m_cursor {
    use super::*;
    #[derive(Encode, Decode, PartialEq, Debug, Clone)]
    pub struct Fx { pub fa: u8, pub cursor: usize, pub fc: u16 }
    #[derive(Encode, Decode, PartialEq, Debug, Clone)]
    pub struct FxT { pub fa: u8, pub fb: usize, pub fc: u16 }
    #[derive(Encode, Decode, PartialEq, Debug, Clone)]
    pub struct Vr { pub cursor: usize, pub fb: Vec<u8>, pub fc: u16, pub fd: Vec<u16> }
    #[derive(Encode, Decode, PartialEq, Debug, Clone)]
    pub struct VrT { pub fa: usize, pub fb: Vec<u8>, pub fc: u16, pub fd: Vec<u16> }
    #[derive(Encode, Decode, PartialEq, Debug, Clone)]
    pub struct Lead { pub cursor: usize, pub fb: usize, pub fc: u8 }
    #[derive(Encode, Decode, PartialEq, Debug, Clone)]
    pub struct LeadT { pub fa: usize, pub fb: usize, pub fc: u8 }
    pub fn run() {
        let mut ok = true;
        for (a, b, c) in [(1u8, 2usize, 3u16), (0xff, 0x0102_0304_0506_0708, 0xfffe), (7, 11, 0), (0, usize::MAX, 9)] {
            let x = Fx { fa: a, cursor: b, fc: c };
            let t = FxT { fa: a, fb: b, fc: c };
            let e = x.as_ssz_bytes();
            ok &= e == t.as_ssz_bytes() && x.ssz_bytes_len() == e.len();
            ok &= <Fx as Encode>::ssz_fixed_len() == <FxT as Encode>::ssz_fixed_len() && <Fx as Decode>::ssz_fixed_len() == <FxT as Decode>::ssz_fixed_len();
            ok &= matches!(std::panic::catch_unwind(|| Fx::from_ssz_bytes(&e)), Ok(Ok(ref y)) if *y == x);
            let l = Lead { cursor: b, fb: b ^ 5, fc: a };
            let lt = LeadT { fa: b, fb: b ^ 5, fc: a };
            let el = l.as_ssz_bytes();
            ok &= el == lt.as_ssz_bytes();
            ok &= matches!(std::panic::catch_unwind(|| Lead::from_ssz_bytes(&el)), Ok(Ok(ref y)) if *y == l);
            for (v1, v2) in [(vec![], vec![]), (vec![1u8, 2, 3], vec![9u16]), (vec![0u8; 5], vec![1u16, 2, 3])] {
                let y = Vr { cursor: b, fb: v1.clone(), fc: c, fd: v2.clone() };
                let yt = VrT { fa: b, fb: v1.clone(), fc: c, fd: v2.clone() };
                let ey = y.as_ssz_bytes();
                ok &= ey == yt.as_ssz_bytes() && y.ssz_bytes_len() == ey.len();
                ok &= matches!(std::panic::catch_unwind(|| Vr::from_ssz_bytes(&ey)), Ok(Ok(ref z)) if *z == y);
                let mut buf = vec![0xEE];
                y.ssz_append(&mut buf);
                ok &= buf[1..] == ey[..];
            }
        }
        println!("cursor\t{}", if ok { "pass" } else { "fail" });
    }
}

#[cfg(feature = "h_total")]
mod m_total {
    use super::*;
    #[derive(Encode, Decode, PartialEq, Debug, Clone)]
    pub struct Fx { pub fa: u8, pub total: usize, pub fc: u16 }
    #[derive(Encode, Decode, PartialEq, Debug, Clone)]
    pub struct FxT { pub fa: u8, pub fb: usize, pub fc: u16 }
    #[derive(Encode, Decode, PartialEq, Debug, Clone)]
    pub struct Vr { pub total: usize, pub fb: Vec<u8>, pub fc: u16, pub fd: Vec<u16> }
    #[derive(Encode, Decode, PartialEq, Debug, Clone)]
    pub struct VrT { pub fa: usize, pub fb: Vec<u8>, pub fc: u16, pub fd: Vec<u16> }
    #[derive(Encode, Decode, PartialEq, Debug, Clone)]
    pub struct Lead { pub total: usize, pub fb: usize, pub fc: u8 }
    #[derive(Encode, Decode, PartialEq, Debug, Clone)]
    pub struct LeadT { pub fa: usize, pub fb: usize, pub fc: u8 }
    pub fn run() {
        let mut ok = true;
        for (a, b, c) in [(1u8, 2usize, 3u16), (0xff, 0x0102_0304_0506_0708, 0xfffe), (7, 11, 0), (0, usize::MAX, 9)] {
            let x = Fx { fa: a, total: b, fc: c };
            let t = FxT { fa: a, fb: b, fc: c };
            let e = x.as_ssz_bytes();
            ok &= e == t.as_ssz_bytes() && x.ssz_bytes_len() == e.len();
            ok &= <Fx as Encode>::ssz_fixed_len() == <FxT as Encode>::ssz_fixed_len() && <Fx as Decode>::ssz_fixed_len() == <FxT as Decode>::ssz_fixed_len();
            ok &= matches!(std::panic::catch_unwind(|| Fx::from_ssz_bytes(&e)), Ok(Ok(ref y)) if *y == x);
            let l = Lead { total: b, fb: b ^ 5, fc: a };
            let lt = LeadT { fa: b, fb: b ^ 5, fc: a };
            let el = l.as_ssz_bytes();
            ok &= el == lt.as_ssz_bytes();
            ok &= matches!(std::panic::catch_unwind(|| Lead::from_ssz_bytes(&el)), Ok(Ok(ref y)) if *y == l);
            for (v1, v2) in [(vec![], vec![]), (vec![1u8, 2, 3], vec![9u16]), (vec![0u8; 5], vec![1u16, 2, 3])] {
                let y = Vr { total: b, fb: v1.clone(), fc: c, fd: v2.clone() };
                let yt = VrT { fa: b, fb: v1.clone(), fc: c, fd: v2.clone() };
                let ey = y.as_ssz_bytes();
                ok &= ey == yt.as_ssz_bytes() && y.ssz_bytes_len() == ey.len();
                ok &= matches!(std::panic::catch_unwind(|| Vr::from_ssz_bytes(&ey)), Ok(Ok(ref z)) if *z == y);
                let mut buf = vec![0xEE];
                y.ssz_append(&mut buf);
                ok &= buf[1..] == ey[..];
            }
        }
        println!("total\t{}", if ok { "pass" } else { "fail" });
    }
}

#[cfg(feature = "h_size")]
mod m_size {
    use super::*;
    #[derive(Encode, Decode, PartialEq, Debug, Clone)]
    pub struct Fx { pub fa: u8, pub size: usize, pub fc: u16 }
    #[derive(Encode, Decode, PartialEq, Debug, Clone)]
    pub struct FxT { pub fa: u8, pub fb: usize, pub fc: u16 }
    #[derive(Encode, Decode, PartialEq, Debug, Clone)]
    pub struct Vr { pub size: usize, pub fb: Vec<u8>, pub fc: u16, pub fd: Vec<u16> }
    #[derive(Encode, Decode, PartialEq, Debug, Clone)]
    pub struct VrT { pub fa: usize, pub fb: Vec<u8>, pub fc: u16, pub fd: Vec<u16> }
    #[derive(Encode, Decode, PartialEq, Debug, Clone)]
    pub struct Lead { pub size: usize, pub fb: usize, pub fc: u8 }
    #[derive(Encode, Decode, PartialEq, Debug, Clone)]
    pub struct LeadT { pub fa: usize, pub fb: usize, pub fc: u8 }
    pub fn run() {
        let mut ok = true;
        for (a, b, c) in [(1u8, 2usize, 3u16), (0xff, 0x0102_0304_0506_0708, 0xfffe), (7, 11, 0), (0, usize::MAX, 9)] {
            let x = Fx { fa: a, size: b, fc: c };
            let t = FxT { fa: a, fb: b, fc: c };
            let e = x.as_ssz_bytes();
            ok &= e == t.as_ssz_bytes() && x.ssz_bytes_len() == e.len();
            ok &= <Fx as Encode>::ssz_fixed_len() == <FxT as Encode>::ssz_fixed_len() && <Fx as Decode>::ssz_fixed_len() == <FxT as Decode>::ssz_fixed_len();
            ok &= matches!(std::panic::catch_unwind(|| Fx::from_ssz_bytes(&e)), Ok(Ok(ref y)) if *y == x);
            let l = Lead { size: b, fb: b ^ 5, fc: a };
            let lt = LeadT { fa: b, fb: b ^ 5, fc: a };
            let el = l.as_ssz_bytes();
            ok &= el == lt.as_ssz_bytes();
            ok &= matches!(std::panic::catch_unwind(|| Lead::from_ssz_bytes(&el)), Ok(Ok(ref y)) if *y == l);
            for (v1, v2) in [(vec![], vec![]), (vec![1u8, 2, 3], vec![9u16]), (vec![0u8; 5], vec![1u16, 2, 3])] {
                let y = Vr { size: b, fb: v1.clone(), fc: c, fd: v2.clone() };
                let yt = VrT { fa: b, fb: v1.clone(), fc: c, fd: v2.clone() };
                let ey = y.as_ssz_bytes();
                ok &= ey == yt.as_ssz_bytes() && y.ssz_bytes_len() == ey.len();
                ok &= matches!(std::panic::catch_unwind(|| Vr::from_ssz_bytes(&ey)), Ok(Ok(ref z)) if *z == y);
                let mut buf = vec![0xEE];
                y.ssz_append(&mut buf);
                ok &= buf[1..] == ey[..];
            }
        }
        println!("size\t{}", if ok { "pass" } else { "fail" });
    }
}

#[cfg(feature = "h_count")]
mod m_count {
    use super::*;
    #[derive(Encode, Decode, PartialEq, Debug, Clone)]
    pub struct Fx { pub fa: u8, pub count: usize, pub fc: u16 }
    #[derive(Encode, Decode, PartialEq, Debug, Clone)]
    pub struct FxT { pub fa: u8, pub fb: usize, pub fc: u16 }
    #[derive(Encode, Decode, PartialEq, Debug, Clone)]
    pub struct Vr { pub count: usize, pub fb: Vec<u8>, pub fc: u16, pub fd: Vec<u16> }
    #[derive(Encode, Decode, PartialEq, Debug, Clone)]
    pub struct VrT { pub fa: usize, pub fb: Vec<u8>, pub fc: u16, pub fd: Vec<u16> }
    #[derive(Encode, Decode, PartialEq, Debug, Clone)]
    pub struct Lead { pub count: usize, pub fb: usize, pub fc: u8 }
    #[derive(Encode, Decode, PartialEq, Debug, Clone)]
    pub struct LeadT { pub fa: usize, pub fb: usize, pub fc: u8 }
    pub fn run() {
        let mut ok = true;
        for (a, b, c) in [(1u8, 2usize, 3u16), (0xff, 0x0102_0304_0506_0708, 0xfffe), (7, 11, 0), (0, usize::MAX, 9)] {
            let x = Fx { fa: a, count: b, fc: c };
            let t = FxT { fa: a, fb: b, fc: c };
            let e = x.as_ssz_bytes();
            ok &= e == t.as_ssz_bytes() && x.ssz_bytes_len() == e.len();
            ok &= <Fx as Encode>::ssz_fixed_len() == <FxT as Encode>::ssz_fixed_len() && <Fx as Decode>::ssz_fixed_len() == <FxT as Decode>::ssz_fixed_len();
            ok &= matches!(std::panic::catch_unwind(|| Fx::from_ssz_bytes(&e)), Ok(Ok(ref y)) if *y == x);
            let l = Lead { count: b, fb: b ^ 5, fc: a };
            let lt = LeadT { fa: b, fb: b ^ 5, fc: a };
            let el = l.as_ssz_bytes();
            ok &= el == lt.as_ssz_bytes();
            ok &= matches!(std::panic::catch_unwind(|| Lead::from_ssz_bytes(&el)), Ok(Ok(ref y)) if *y == l);
            for (v1, v2) in [(vec![], vec![]), (vec![1u8, 2, 3], vec![9u16]), (vec![0u8; 5], vec![1u16, 2, 3])] {
                let y = Vr { count: b, fb: v1.clone(), fc: c, fd: v2.clone() };
                let yt = VrT { fa: b, fb: v1.clone(), fc: c, fd: v2.clone() };
                let ey = y.as_ssz_bytes();
                ok &= ey == yt.as_ssz_bytes() && y.ssz_bytes_len() == ey.len();
                ok &= matches!(std::panic::catch_unwind(|| Vr::from_ssz_bytes(&ey)), Ok(Ok(ref z)) if *z == y);
                let mut buf = vec![0xEE];
                y.ssz_append(&mut buf);
                ok &= buf[1..] == ey[..];
            }
        }
        println!("count\t{}", if ok { "pass" } else { "fail" });
    }
}

#[cfg(feature = "h_bytes_len")]
mod m_bytes_len {
    use super::*;
    #[derive(Encode, Decode, PartialEq, Debug, Clone)]
    pub struct Fx { pub fa: u8, pub bytes_len: usize, pub fc: u16 }
    #[derive(Encode, Decode, PartialEq, Debug, Clone)]
    pub struct FxT { pub fa: u8, pub fb: usize, pub fc: u16 }
    #[derive(Encode, Decode, PartialEq, Debug, Clone)]
    pub struct Vr { pub bytes_len: usize, pub fb: Vec<u8>, pub fc: u16, pub fd: Vec<u16> }
    #[derive(Encode, Decode, PartialEq, Debug, Clone)]
    pub struct VrT { pub fa: usize, pub fb: Vec<u8>, pub fc: u16, pub fd: Vec<u16> }
    #[derive(Encode, Decode, PartialEq, Debug, Clone)]
    pub struct Lead { pub bytes_len: usize, pub fb: usize, pub fc: u8 }
    #[derive(Encode, Decode, PartialEq, Debug, Clone)]
    pub struct LeadT { pub fa: usize, pub fb: usize, pub fc: u8 }
    pub fn run() {
        let mut ok = true;
        for (a, b, c) in [(1u8, 2usize, 3u16), (0xff, 0x0102_0304_0506_0708, 0xfffe), (7, 11, 0), (0, usize::MAX, 9)] {
            let x = Fx { fa: a, bytes_len: b, fc: c };
            let t = FxT { fa: a, fb: b, fc: c };
            let e = x.as_ssz_bytes();
            ok &= e == t.as_ssz_bytes() && x.ssz_bytes_len() == e.len();
            ok &= <Fx as Encode>::ssz_fixed_len() == <FxT as Encode>::ssz_fixed_len() && <Fx as Decode>::ssz_fixed_len() == <FxT as Decode>::ssz_fixed_len();
            ok &= matches!(std::panic::catch_unwind(|| Fx::from_ssz_bytes(&e)), Ok(Ok(ref y)) if *y == x);
            let l = Lead { bytes_len: b, fb: b ^ 5, fc: a };
            let lt = LeadT { fa: b, fb: b ^ 5, fc: a };
            let el = l.as_ssz_bytes();
            ok &= el == lt.as_ssz_bytes();
            ok &= matches!(std::panic::catch_unwind(|| Lead::from_ssz_bytes(&el)), Ok(Ok(ref y)) if *y == l);
            for (v1, v2) in [(vec![], vec![]), (vec![1u8, 2, 3], vec![9u16]), (vec![0u8; 5], vec![1u16, 2, 3])] {
                let y = Vr { bytes_len: b, fb: v1.clone(), fc: c, fd: v2.clone() };
                let yt = VrT { fa: b, fb: v1.clone(), fc: c, fd: v2.clone() };
                let ey = y.as_ssz_bytes();
                ok &= ey == yt.as_ssz_bytes() && y.ssz_bytes_len() == ey.len();
                ok &= matches!(std::panic::catch_unwind(|| Vr::from_ssz_bytes(&ey)), Ok(Ok(ref z)) if *z == y);
                let mut buf = vec![0xEE];
                y.ssz_append(&mut buf);
                ok &= buf[1..] == ey[..];
            }
        }
        println!("bytes_len\t{}", if ok { "pass" } else { "fail" });
    }
}

#[cfg(feature = "h_fixed_len")]
mod m_fixed_len {
    use super::*;
    #[derive(Encode, Decode, PartialEq, Debug, Clone)]
    pub struct Fx { pub fa: u8, pub fixed_len: usize, pub fc: u16 }
    #[derive(Encode, Decode, PartialEq, Debug, Clone)]
    pub struct FxT { pub fa: u8, pub fb: usize, pub fc: u16 }
    #[derive(Encode, Decode, PartialEq, Debug, Clone)]
    pub struct Vr { pub fixed_len: usize, pub fb: Vec<u8>, pub fc: u16, pub fd: Vec<u16> }
    #[derive(Encode, Decode, PartialEq, Debug, Clone)]
    pub struct VrT { pub fa: usize, pub fb: Vec<u8>, pub fc: u16, pub fd: Vec<u16> }
    #[derive(Encode, Decode, PartialEq, Debug, Clone)]
    pub struct Lead { pub fixed_len: usize, pub fb: usize, pub fc: u8 }
    #[derive(Encode, Decode, PartialEq, Debug, Clone)]
    pub struct LeadT { pub fa: usize, pub fb: usize, pub fc: u8 }
    pub fn run() {
        let mut ok = true;
        for (a, b, c) in [(1u8, 2usize, 3u16), (0xff, 0x0102_0304_0506_0708, 0xfffe), (7, 11, 0), (0, usize::MAX, 9)] {
            let x = Fx { fa: a, fixed_len: b, fc: c };
            let t = FxT { fa: a, fb: b, fc: c };
            let e = x.as_ssz_bytes();
            ok &= e == t.as_ssz_bytes() && x.ssz_bytes_len() == e.len();
            ok &= <Fx as Encode>::ssz_fixed_len() == <FxT as Encode>::ssz_fixed_len() && <Fx as Decode>::ssz_fixed_len() == <FxT as Decode>::ssz_fixed_len();
            ok &= matches!(std::panic::catch_unwind(|| Fx::from_ssz_bytes(&e)), Ok(Ok(ref y)) if *y == x);
            let l = Lead { fixed_len: b, fb: b ^ 5, fc: a };
            let lt = LeadT { fa: b, fb: b ^ 5, fc: a };
            let el = l.as_ssz_bytes();
            ok &= el == lt.as_ssz_bytes();
            ok &= matches!(std::panic::catch_unwind(|| Lead::from_ssz_bytes(&el)), Ok(Ok(ref y)) if *y == l);
            for (v1, v2) in [(vec![], vec![]), (vec![1u8, 2, 3], vec![9u16]), (vec![0u8; 5], vec![1u16, 2, 3])] {
                let y = Vr { fixed_len: b, fb: v1.clone(), fc: c, fd: v2.clone() };
                let yt = VrT { fa: b, fb: v1.clone(), fc: c, fd: v2.clone() };
                let ey = y.as_ssz_bytes();
                ok &= ey == yt.as_ssz_bytes() && y.ssz_bytes_len() == ey.len();
                ok &= matches!(std::panic::catch_unwind(|| Vr::from_ssz_bytes(&ey)), Ok(Ok(ref z)) if *z == y);
                let mut buf = vec![0xEE];
                y.ssz_append(&mut buf);
                ok &= buf[1..] == ey[..];
            }
        }
        println!("fixed_len\t{}", if ok { "pass" } else { "fail" });
    }
}

#[cfg(feature = "h_is_fixed")]
mod m_is_fixed {
    use super::*;
    #[derive(Encode, Decode, PartialEq, Debug, Clone)]
    pub struct Fx { pub fa: u8, pub is_fixed: usize, pub fc: u16 }
    #[derive(Encode, Decode, PartialEq, Debug, Clone)]
    pub struct FxT { pub fa: u8, pub fb: usize, pub fc: u16 }
    #[derive(Encode, Decode, PartialEq, Debug, Clone)]
    pub struct Vr { pub is_fixed: usize, pub fb: Vec<u8>, pub fc: u16, pub fd: Vec<u16> }
    #[derive(Encode, Decode, PartialEq, Debug, Clone)]
    pub struct VrT { pub fa: usize, pub fb: Vec<u8>, pub fc: u16, pub fd: Vec<u16> }
    #[derive(Encode, Decode, PartialEq, Debug, Clone)]
    pub struct Lead { pub is_fixed: usize, pub fb: usize, pub fc: u8 }
    #[derive(Encode, Decode, PartialEq, Debug, Clone)]
    pub struct LeadT { pub fa: usize, pub fb: usize, pub fc: u8 }
    pub fn run() {
        let mut ok = true;
        for (a, b, c) in [(1u8, 2usize, 3u16), (0xff, 0x0102_0304_0506_0708, 0xfffe), (7, 11, 0), (0, usize::MAX, 9)] {
            let x = Fx { fa: a, is_fixed: b, fc: c };
            let t = FxT { fa: a, fb: b, fc: c };
            let e = x.as_ssz_bytes();
            ok &= e == t.as_ssz_bytes() && x.ssz_bytes_len() == e.len();
            ok &= <Fx as Encode>::ssz_fixed_len() == <FxT as Encode>::ssz_fixed_len() && <Fx as Decode>::ssz_fixed_len() == <FxT as Decode>::ssz_fixed_len();
            ok &= matches!(std::panic::catch_unwind(|| Fx::from_ssz_bytes(&e)), Ok(Ok(ref y)) if *y == x);
            let l = Lead { is_fixed: b, fb: b ^ 5, fc: a };
            let lt = LeadT { fa: b, fb: b ^ 5, fc: a };
            let el = l.as_ssz_bytes();
            ok &= el == lt.as_ssz_bytes();
            ok &= matches!(std::panic::catch_unwind(|| Lead::from_ssz_bytes(&el)), Ok(Ok(ref y)) if *y == l);
            for (v1, v2) in [(vec![], vec![]), (vec![1u8, 2, 3], vec![9u16]), (vec![0u8; 5], vec![1u16, 2, 3])] {
                let y = Vr { is_fixed: b, fb: v1.clone(), fc: c, fd: v2.clone() };
                let yt = VrT { fa: b, fb: v1.clone(), fc: c, fd: v2.clone() };
                let ey = y.as_ssz_bytes();
                ok &= ey == yt.as_ssz_bytes() && y.ssz_bytes_len() == ey.len();
                ok &= matches!(std::panic::catch_unwind(|| Vr::from_ssz_bytes(&ey)), Ok(Ok(ref z)) if *z == y);
                let mut buf = vec![0xEE];
                y.ssz_append(&mut buf);
                ok &= buf[1..] == ey[..];
            }
        }
        println!("is_fixed\t{}", if ok { "pass" } else { "fail" });
    }
}

#[cfg(feature = "h_selector")]
mod m_selector {
    use super::*;
    #[derive(Encode, Decode, PartialEq, Debug, Clone)]
    pub struct Fx { pub fa: u8, pub selector: usize, pub fc: u16 }
    #[derive(Encode, Decode, PartialEq, Debug, Clone)]
    pub struct FxT { pub fa: u8, pub fb: usize, pub fc: u16 }
    #[derive(Encode, Decode, PartialEq, Debug, Clone)]
    pub struct Vr { pub selector: usize, pub fb: Vec<u8>, pub fc: u16, pub fd: Vec<u16> }
    #[derive(Encode, Decode, PartialEq, Debug, Clone)]
    pub struct VrT { pub fa: usize, pub fb: Vec<u8>, pub fc: u16, pub fd: Vec<u16> }
    #[derive(Encode, Decode, PartialEq, Debug, Clone)]
    pub struct Lead { pub selector: usize, pub fb: usize, pub fc: u8 }
    #[derive(Encode, Decode, PartialEq, Debug, Clone)]
    pub struct LeadT { pub fa: usize, pub fb: usize, pub fc: u8 }
    pub fn run() {
        let mut ok = true;
        for (a, b, c) in [(1u8, 2usize, 3u16), (0xff, 0x0102_0304_0506_0708, 0xfffe), (7, 11, 0), (0, usize::MAX, 9)] {
            let x = Fx { fa: a, selector: b, fc: c };
            let t = FxT { fa: a, fb: b, fc: c };
            let e = x.as_ssz_bytes();
            ok &= e == t.as_ssz_bytes() && x.ssz_bytes_len() == e.len();
            ok &= <Fx as Encode>::ssz_fixed_len() == <FxT as Encode>::ssz_fixed_len() && <Fx as Decode>::ssz_fixed_len() == <FxT as Decode>::ssz_fixed_len();
            ok &= matches!(std::panic::catch_unwind(|| Fx::from_ssz_bytes(&e)), Ok(Ok(ref y)) if *y == x);
            let l = Lead { selector: b, fb: b ^ 5, fc: a };
            let lt = LeadT { fa: b, fb: b ^ 5, fc: a };
            let el = l.as_ssz_bytes();
            ok &= el == lt.as_ssz_bytes();
            ok &= matches!(std::panic::catch_unwind(|| Lead::from_ssz_bytes(&el)), Ok(Ok(ref y)) if *y == l);
            for (v1, v2) in [(vec![], vec![]), (vec![1u8, 2, 3], vec![9u16]), (vec![0u8; 5], vec![1u16, 2, 3])] {
                let y = Vr { selector: b, fb: v1.clone(), fc: c, fd: v2.clone() };
                let yt = VrT { fa: b, fb: v1.clone(), fc: c, fd: v2.clone() };
                let ey = y.as_ssz_bytes();
                ok &= ey == yt.as_ssz_bytes() && y.ssz_bytes_len() == ey.len();
                ok &= matches!(std::panic::catch_unwind(|| Vr::from_ssz_bytes(&ey)), Ok(Ok(ref z)) if *z == y);
                let mut buf = vec![0xEE];
                y.ssz_append(&mut buf);
                ok &= buf[1..] == ey[..];
            }
        }
        println!("selector\t{}", if ok { "pass" } else { "fail" });
    }
}

#[cfg(feature = "h_body")]
mod m_body {
    use super::*;
    #[derive(Encode, Decode, PartialEq, Debug, Clone)]
    pub struct Fx { pub fa: u8, pub body: usize, pub fc: u16 }
    #[derive(Encode, Decode, PartialEq, Debug, Clone)]
    pub struct FxT { pub fa: u8, pub fb: usize, pub fc: u16 }
    #[derive(Encode, Decode, PartialEq, Debug, Clone)]
    pub struct Vr { pub body: usize, pub fb: Vec<u8>, pub fc: u16, pub fd: Vec<u16> }
    #[derive(Encode, Decode, PartialEq, Debug, Clone)]
    pub struct VrT { pub fa: usize, pub fb: Vec<u8>, pub fc: u16, pub fd: Vec<u16> }
    #[derive(Encode, Decode, PartialEq, Debug, Clone)]
    pub struct Lead { pub body: usize, pub fb: usize, pub fc: u8 }
    #[derive(Encode, Decode, PartialEq, Debug, Clone)]
    pub struct LeadT { pub fa: usize, pub fb: usize, pub fc: u8 }
    pub fn run() {
        let mut ok = true;
        for (a, b, c) in [(1u8, 2usize, 3u16), (0xff, 0x0102_0304_0506_0708, 0xfffe), (7, 11, 0), (0, usize::MAX, 9)] {
            let x = Fx { fa: a, body: b, fc: c };
            let t = FxT { fa: a, fb: b, fc: c };
            let e = x.as_ssz_bytes();
            ok &= e == t.as_ssz_bytes() && x.ssz_bytes_len() == e.len();
            ok &= <Fx as Encode>::ssz_fixed_len() == <FxT as Encode>::ssz_fixed_len() && <Fx as Decode>::ssz_fixed_len() == <FxT as Decode>::ssz_fixed_len();
            ok &= matches!(std::panic::catch_unwind(|| Fx::from_ssz_bytes(&e)), Ok(Ok(ref y)) if *y == x);
            let l = Lead { body: b, fb: b ^ 5, fc: a };
            let lt = LeadT { fa: b, fb: b ^ 5, fc: a };
            let el = l.as_ssz_bytes();
            ok &= el == lt.as_ssz_bytes();
            ok &= matches!(std::panic::catch_unwind(|| Lead::from_ssz_bytes(&el)), Ok(Ok(ref y)) if *y == l);
            for (v1, v2) in [(vec![], vec![]), (vec![1u8, 2, 3], vec![9u16]), (vec![0u8; 5], vec![1u16, 2, 3])] {
                let y = Vr { body: b, fb: v1.clone(), fc: c, fd: v2.clone() };
                let yt = VrT { fa: b, fb: v1.clone(), fc: c, fd: v2.clone() };
                let ey = y.as_ssz_bytes();
                ok &= ey == yt.as_ssz_bytes() && y.ssz_bytes_len() == ey.len();
                ok &= matches!(std::panic::catch_unwind(|| Vr::from_ssz_bytes(&ey)), Ok(Ok(ref z)) if *z == y);
                let mut buf = vec![0xEE];
                y.ssz_append(&mut buf);
                ok &= buf[1..] == ey[..];
            }
        }
        println!("body\t{}", if ok { "pass" } else { "fail" });
    }
}

#[cfg(feature = "h_field")]
mod m_field {
    use super::*;
    #[derive(Encode, Decode, PartialEq, Debug, Clone)]
    pub struct Fx { pub fa: u8, pub field: usize, pub fc: u16 }
    #[derive(Encode, Decode, PartialEq, Debug, Clone)]
    pub struct FxT { pub fa: u8, pub fb: usize, pub fc: u16 }
    #[derive(Encode, Decode, PartialEq, Debug, Clone)]
    pub struct Vr { pub field: usize, pub fb: Vec<u8>, pub fc: u16, pub fd: Vec<u16> }
    #[derive(Encode, Decode, PartialEq, Debug, Clone)]
    pub struct VrT { pub fa: usize, pub fb: Vec<u8>, pub fc: u16, pub fd: Vec<u16> }
    #[derive(Encode, Decode, PartialEq, Debug, Clone)]
    pub struct Lead { pub field: usize, pub fb: usize, pub fc: u8 }
    #[derive(Encode, Decode, PartialEq, Debug, Clone)]
    pub struct LeadT { pub fa: usize, pub fb: usize, pub fc: u8 }
    pub fn run() {
        let mut ok = true;
        for (a, b, c) in [(1u8, 2usize, 3u16), (0xff, 0x0102_0304_0506_0708, 0xfffe), (7, 11, 0), (0, usize::MAX, 9)] {
            let x = Fx { fa: a, field: b, fc: c };
            let t = FxT { fa: a, fb: b, fc: c };
            let e = x.as_ssz_bytes();
            ok &= e == t.as_ssz_bytes() && x.ssz_bytes_len() == e.len();
            ok &= <Fx as Encode>::ssz_fixed_len() == <FxT as Encode>::ssz_fixed_len() && <Fx as Decode>::ssz_fixed_len() == <FxT as Decode>::ssz_fixed_len();
            ok &= matches!(std::panic::catch_unwind(|| Fx::from_ssz_bytes(&e)), Ok(Ok(ref y)) if *y == x);
            let l = Lead { field: b, fb: b ^ 5, fc: a };
            let lt = LeadT { fa: b, fb: b ^ 5, fc: a };
            let el = l.as_ssz_bytes();
            ok &= el == lt.as_ssz_bytes();
            ok &= matches!(std::panic::catch_unwind(|| Lead::from_ssz_bytes(&el)), Ok(Ok(ref y)) if *y == l);
            for (v1, v2) in [(vec![], vec![]), (vec![1u8, 2, 3], vec![9u16]), (vec![0u8; 5], vec![1u16, 2, 3])] {
                let y = Vr { field: b, fb: v1.clone(), fc: c, fd: v2.clone() };
                let yt = VrT { fa: b, fb: v1.clone(), fc: c, fd: v2.clone() };
                let ey = y.as_ssz_bytes();
                ok &= ey == yt.as_ssz_bytes() && y.ssz_bytes_len() == ey.len();
                ok &= matches!(std::panic::catch_unwind(|| Vr::from_ssz_bytes(&ey)), Ok(Ok(ref z)) if *z == y);
                let mut buf = vec![0xEE];
                y.ssz_append(&mut buf);
                ok &= buf[1..] == ey[..];
            }
        }
        println!("field\t{}", if ok { "pass" } else { "fail" });
    }
}

#[cfg(feature = "h_name")]
mod m_name {
    use super::*;
    #[derive(Encode, Decode, PartialEq, Debug, Clone)]
    pub struct Fx { pub fa: u8, pub name: usize, pub fc: u16 }
    #[derive(Encode, Decode, PartialEq, Debug, Clone)]
    pub struct FxT { pub fa: u8, pub fb: usize, pub fc: u16 }
    #[derive(Encode, Decode, PartialEq, Debug, Clone)]
    pub struct Vr { pub name: usize, pub fb: Vec<u8>, pub fc: u16, pub fd: Vec<u16> }
    #[derive(Encode, Decode, PartialEq, Debug, Clone)]
    pub struct VrT { pub fa: usize, pub fb: Vec<u8>, pub fc: u16, pub fd: Vec<u16> }
    #[derive(Encode, Decode, PartialEq, Debug, Clone)]
    pub struct Lead { pub name: usize, pub fb: usize, pub fc: u8 }
    #[derive(Encode, Decode, PartialEq, Debug, Clone)]
    pub struct LeadT { pub fa: usize, pub fb: usize, pub fc: u8 }
    pub fn run() {
        let mut ok = true;
        for (a, b, c) in [(1u8, 2usize, 3u16), (0xff, 0x0102_0304_0506_0708, 0xfffe), (7, 11, 0), (0, usize::MAX, 9)] {
            let x = Fx { fa: a, name: b, fc: c };
            let t = FxT { fa: a, fb: b, fc: c };
            let e = x.as_ssz_bytes();
            ok &= e == t.as_ssz_bytes() && x.ssz_bytes_len() == e.len();
            ok &= <Fx as Encode>::ssz_fixed_len() == <FxT as Encode>::ssz_fixed_len() && <Fx as Decode>::ssz_fixed_len() == <FxT as Decode>::ssz_fixed_len();
            ok &= matches!(std::panic::catch_unwind(|| Fx::from_ssz_bytes(&e)), Ok(Ok(ref y)) if *y == x);
            let l = Lead { name: b, fb: b ^ 5, fc: a };
            let lt = LeadT { fa: b, fb: b ^ 5, fc: a };
            let el = l.as_ssz_bytes();
            ok &= el == lt.as_ssz_bytes();
            ok &= matches!(std::panic::catch_unwind(|| Lead::from_ssz_bytes(&el)), Ok(Ok(ref y)) if *y == l);
            for (v1, v2) in [(vec![], vec![]), (vec![1u8, 2, 3], vec![9u16]), (vec![0u8; 5], vec![1u16, 2, 3])] {
                let y = Vr { name: b, fb: v1.clone(), fc: c, fd: v2.clone() };
                let yt = VrT { fa: b, fb: v1.clone(), fc: c, fd: v2.clone() };
                let ey = y.as_ssz_bytes();
                ok &= ey == yt.as_ssz_bytes() && y.ssz_bytes_len() == ey.len();
                ok &= matches!(std::panic::catch_unwind(|| Vr::from_ssz_bytes(&ey)), Ok(Ok(ref z)) if *z == y);
                let mut buf = vec![0xEE];
                y.ssz_append(&mut buf);
                ok &= buf[1..] == ey[..];
            }
        }
        println!("name\t{}", if ok { "pass" } else { "fail" });
    }
}

#[cfg(feature = "h_item")]
mod m_item {
    use super::*;
    #[derive(Encode, Decode, PartialEq, Debug, Clone)]
    pub struct Fx { pub fa: u8, pub item: usize, pub fc: u16 }
    #[derive(Encode, Decode, PartialEq, Debug, Clone)]
    pub struct FxT { pub fa: u8, pub fb: usize, pub fc: u16 }
    #[derive(Encode, Decode, PartialEq, Debug, Clone)]
    pub struct Vr { pub item: usize, pub fb: Vec<u8>, pub fc: u16, pub fd: Vec<u16> }
    #[derive(Encode, Decode, PartialEq, Debug, Clone)]
    pub struct VrT { pub fa: usize, pub fb: Vec<u8>, pub fc: u16, pub fd: Vec<u16> }
    #[derive(Encode, Decode, PartialEq, Debug, Clone)]
    pub struct Lead { pub item: usize, pub fb: usize, pub fc: u8 }
    #[derive(Encode, Decode, PartialEq, Debug, Clone)]
    pub struct LeadT { pub fa: usize, pub fb: usize, pub fc: u8 }
    pub fn run() {
        let mut ok = true;
        for (a, b, c) in [(1u8, 2usize, 3u16), (0xff, 0x0102_0304_0506_0708, 0xfffe), (7, 11, 0), (0, usize::MAX, 9)] {
            let x = Fx { fa: a, item: b, fc: c };
            let t = FxT { fa: a, fb: b, fc: c };
            let e = x.as_ssz_bytes();
            ok &= e == t.as_ssz_bytes() && x.ssz_bytes_len() == e.len();
            ok &= <Fx as Encode>::ssz_fixed_len() == <FxT as Encode>::ssz_fixed_len() && <Fx as Decode>::ssz_fixed_len() == <FxT as Decode>::ssz_fixed_len();
            ok &= matches!(std::panic::catch_unwind(|| Fx::from_ssz_bytes(&e)), Ok(Ok(ref y)) if *y == x);
            let l = Lead { item: b, fb: b ^ 5, fc: a };
            let lt = LeadT { fa: b, fb: b ^ 5, fc: a };
            let el = l.as_ssz_bytes();
            ok &= el == lt.as_ssz_bytes();
            ok &= matches!(std::panic::catch_unwind(|| Lead::from_ssz_bytes(&el)), Ok(Ok(ref y)) if *y == l);
            for (v1, v2) in [(vec![], vec![]), (vec![1u8, 2, 3], vec![9u16]), (vec![0u8; 5], vec![1u16, 2, 3])] {
                let y = Vr { item: b, fb: v1.clone(), fc: c, fd: v2.clone() };
                let yt = VrT { fa: b, fb: v1.clone(), fc: c, fd: v2.clone() };
                let ey = y.as_ssz_bytes();
                ok &= ey == yt.as_ssz_bytes() && y.ssz_bytes_len() == ey.len();
                ok &= matches!(std::panic::catch_unwind(|| Vr::from_ssz_bytes(&ey)), Ok(Ok(ref z)) if *z == y);
                let mut buf = vec![0xEE];
                y.ssz_append(&mut buf);
                ok &= buf[1..] == ey[..];
            }
        }
        println!("item\t{}", if ok { "pass" } else { "fail" });
    }
}

#[cfg(feature = "h_out")]
mod m_out {
    use super::*;
    #[derive(Encode, Decode, PartialEq, Debug, Clone)]
    pub struct Fx { pub fa: u8, pub out: usize, pub fc: u16 }
    #[derive(Encode, Decode, PartialEq, Debug, Clone)]
    pub struct FxT { pub fa: u8, pub fb: usize, pub fc: u16 }
    #[derive(Encode, Decode, PartialEq, Debug, Clone)]
    pub struct Vr { pub out: usize, pub fb: Vec<u8>, pub fc: u16, pub fd: Vec<u16> }
    #[derive(Encode, Decode, PartialEq, Debug, Clone)]
    pub struct VrT { pub fa: usize, pub fb: Vec<u8>, pub fc: u16, pub fd: Vec<u16> }
    #[derive(Encode, Decode, PartialEq, Debug, Clone)]
    pub struct Lead { pub out: usize, pub fb: usize, pub fc: u8 }
    #[derive(Encode, Decode, PartialEq, Debug, Clone)]
    pub struct LeadT { pub fa: usize, pub fb: usize, pub fc: u8 }
    pub fn run() {
        let mut ok = true;
        for (a, b, c) in [(1u8, 2usize, 3u16), (0xff, 0x0102_0304_0506_0708, 0xfffe), (7, 11, 0), (0, usize::MAX, 9)] {
            let x = Fx { fa: a, out: b, fc: c };
            let t = FxT { fa: a, fb: b, fc: c };
            let e = x.as_ssz_bytes();
            ok &= e == t.as_ssz_bytes() && x.ssz_bytes_len() == e.len();
            ok &= <Fx as Encode>::ssz_fixed_len() == <FxT as Encode>::ssz_fixed_len() && <Fx as Decode>::ssz_fixed_len() == <FxT as Decode>::ssz_fixed_len();
            ok &= matches!(std::panic::catch_unwind(|| Fx::from_ssz_bytes(&e)), Ok(Ok(ref y)) if *y == x);
            let l = Lead { out: b, fb: b ^ 5, fc: a };
            let lt = LeadT { fa: b, fb: b ^ 5, fc: a };
            let el = l.as_ssz_bytes();
            ok &= el == lt.as_ssz_bytes();
            ok &= matches!(std::panic::catch_unwind(|| Lead::from_ssz_bytes(&el)), Ok(Ok(ref y)) if *y == l);
            for (v1, v2) in [(vec![], vec![]), (vec![1u8, 2, 3], vec![9u16]), (vec![0u8; 5], vec![1u16, 2, 3])] {
                let y = Vr { out: b, fb: v1.clone(), fc: c, fd: v2.clone() };
                let yt = VrT { fa: b, fb: v1.clone(), fc: c, fd: v2.clone() };
                let ey = y.as_ssz_bytes();
                ok &= ey == yt.as_ssz_bytes() && y.ssz_bytes_len() == ey.len();
                ok &= matches!(std::panic::catch_unwind(|| Vr::from_ssz_bytes(&ey)), Ok(Ok(ref z)) if *z == y);
                let mut buf = vec![0xEE];
                y.ssz_append(&mut buf);
                ok &= buf[1..] == ey[..];
            }
        }
        println!("out\t{}", if ok { "pass" } else { "fail" });
    }
}

#[cfg(feature = "h_var")]
mod m_var {
    use super::*;
    #[derive(Encode, Decode, PartialEq, Debug, Clone)]
    pub struct Fx { pub fa: u8, pub var: usize, pub fc: u16 }
    #[derive(Encode, Decode, PartialEq, Debug, Clone)]
    pub struct FxT { pub fa: u8, pub fb: usize, pub fc: u16 }
    #[derive(Encode, Decode, PartialEq, Debug, Clone)]
    pub struct Vr { pub var: usize, pub fb: Vec<u8>, pub fc: u16, pub fd: Vec<u16> }
    #[derive(Encode, Decode, PartialEq, Debug, Clone)]
    pub struct VrT { pub fa: usize, pub fb: Vec<u8>, pub fc: u16, pub fd: Vec<u16> }
    #[derive(Encode, Decode, PartialEq, Debug, Clone)]
    pub struct Lead { pub var: usize, pub fb: usize, pub fc: u8 }
    #[derive(Encode, Decode, PartialEq, Debug, Clone)]
    pub struct LeadT { pub fa: usize, pub fb: usize, pub fc: u8 }
    pub fn run() {
        let mut ok = true;
        for (a, b, c) in [(1u8, 2usize, 3u16), (0xff, 0x0102_0304_0506_0708, 0xfffe), (7, 11, 0), (0, usize::MAX, 9)] {
            let x = Fx { fa: a, var: b, fc: c };
            let t = FxT { fa: a, fb: b, fc: c };
            let e = x.as_ssz_bytes();
            ok &= e == t.as_ssz_bytes() && x.ssz_bytes_len() == e.len();
            ok &= <Fx as Encode>::ssz_fixed_len() == <FxT as Encode>::ssz_fixed_len() && <Fx as Decode>::ssz_fixed_len() == <FxT as Decode>::ssz_fixed_len();
            ok &= matches!(std::panic::catch_unwind(|| Fx::from_ssz_bytes(&e)), Ok(Ok(ref y)) if *y == x);
            let l = Lead { var: b, fb: b ^ 5, fc: a };
            let lt = LeadT { fa: b, fb: b ^ 5, fc: a };
            let el = l.as_ssz_bytes();
            ok &= el == lt.as_ssz_bytes();
            ok &= matches!(std::panic::catch_unwind(|| Lead::from_ssz_bytes(&el)), Ok(Ok(ref y)) if *y == l);
            for (v1, v2) in [(vec![], vec![]), (vec![1u8, 2, 3], vec![9u16]), (vec![0u8; 5], vec![1u16, 2, 3])] {
                let y = Vr { var: b, fb: v1.clone(), fc: c, fd: v2.clone() };
                let yt = VrT { fa: b, fb: v1.clone(), fc: c, fd: v2.clone() };
                let ey = y.as_ssz_bytes();
                ok &= ey == yt.as_ssz_bytes() && y.ssz_bytes_len() == ey.len();
                ok &= matches!(std::panic::catch_unwind(|| Vr::from_ssz_bytes(&ey)), Ok(Ok(ref z)) if *z == y);
                let mut buf = vec![0xEE];
                y.ssz_append(&mut buf);
                ok &= buf[1..] == ey[..];
            }
        }
        println!("var\t{}", if ok { "pass" } else { "fail" });
    }
}

fn main() {
    std::panic::set_hook(Box::new(|_| {}));
    #[cfg(feature = "h_start")]
    m_start::run();
    #[cfg(feature = "h_end")]
    m_end::run();
    #[cfg(feature = "h_len")]
    m_len::run();
    #[cfg(feature = "h_offset")]
    m_offset::run();
    #[cfg(feature = "h_index")]
    m_index::run();
    #[cfg(feature = "h_i")]
    m_i::run();
    #[cfg(feature = "h_n")]
    m_n::run();
    #[cfg(feature = "h_x")]
    m_x::run();
    #[cfg(feature = "h_buf")]
    m_buf::run();
    #[cfg(feature = "h_items")]
    m_items::run();
    #[cfg(feature = "h_builder")]
    m_builder::run();
    #[cfg(feature = "h_encoder")]
    m_encoder::run();
    #[cfg(feature = "h_value")]
    m_value::run();
    #[cfg(feature = "h_result")]
    m_result::run();
    #[cfg(feature = "h_res")]
    m_res::run();
    #[cfg(feature = "h_tmp")]
    m_tmp::run();
    #[cfg(feature = "h_idx")]
    m_idx::run();
    #[cfg(feature = "h_pos")]
    m_pos::run();
    #[cfg(feature = "h_cursor")]
    m_cursor::run();
    #[cfg(feature = "h_total")]
    m_total::run();
    #[cfg(feature = "h_size")]
    m_size::run();
    #[cfg(feature = "h_count")]
    m_count::run();
    #[cfg(feature = "h_bytes_len")]
    m_bytes_len::run();
    #[cfg(feature = "h_fixed_len")]
    m_fixed_len::run();
    #[cfg(feature = "h_is_fixed")]
    m_is_fixed::run();
    #[cfg(feature = "h_selector")]
    m_selector::run();
    #[cfg(feature = "h_body")]
    m_body::run();
    #[cfg(feature = "h_field")]
    m_field::run();
    #[cfg(feature = "h_name")]
    m_name::run();
    #[cfg(feature = "h_item")]
    m_item::run();
    #[cfg(feature = "h_out")]
    m_out::run();
    #[cfg(feature = "h_var")]
    m_var::run();
}
