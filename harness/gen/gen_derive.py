#!/usr/bin/env python3
"""
Generates, from one compact specification, (a) the derived definitions exercised at run time by the
harness (`harness/src/derive_gen.rs`), each with the `Def` descriptor the Lean driver parses, and
(b) the must-compile / must-not-compile definitions of the `reject` crate (`reject/src/lib.rs`,
`reject/cases.json`). Descriptor and Rust source come from the same entry, so they cannot drift.
Deterministic; re-run after editing and commit the outputs.
"""
import json, os
ROOT = os.path.dirname(os.path.dirname(os.path.dirname(os.path.abspath(__file__))))

TY = {'usize': 'U8', 'Vec<u64>': 'L(U8)', 'Vec<bool>': 'L(B)', 'Vec<u32>': 'L(U4)', 'u8': 'U1', 'u16': 'U2', 'u32': 'U4', 'u64': 'U8', 'bool': 'B', 'Vec<u8>': 'L(U1)', 'Vec<u16>': 'L(U2)',
      'Vec<Vec<u8>>': 'L(L(U1))', 'Option<u16>': 'O(U2)', '[u8; 0]': 'X0',
      'Wide': 'U4',  # Wide: only as a skipped field or behind the wide4 module (its own codec is 8 bytes)
      'Blob': 'L(U1)', 'VarNative': 'U4'}  # likewise: only skipped or behind blob_var / fix4
WITH = {'leg_u16': ('Option<u16>', 'LO(U2)'), 'leg_vec_u16': ('Option<Vec<u16>>', 'LO(L(U2))'), 'plain_u32': ('u32', 'U4'),
        'wide4': ('Wide', 'U4'), 'blob_var': ('Blob', 'L(U1)'), 'fix4': ('VarNative', 'U4')}

def F(name, ty, flags='', with_=None, attrs=None):
    """flags: 's' skip_serializing, 'd' skip_deserializing"""
    return dict(name=name, ty=ty, flags=flags, with_=with_, attrs=attrs)

STRUCTS = [
    dict(name='S0', beh=None, kind='named', fields=[]),
    dict(name='SU', beh=None, kind='unit', fields=[]),
    dict(name='S1', beh='container', kind='named', fields=[F('a', 'u16')]),
    dict(name='S2', beh=None, kind='named', fields=[F('a', 'u8'), F('b', 'u16'), F('c', 'u32')]),
    dict(name='S4', beh=None, kind='named', fields=[F('a', 'u16'), F('b', 'Vec<u16>'), F('c', 'u32')]),
    dict(name='S5', beh=None, kind='named', fields=[F('a', 'Vec<u8>'), F('b', 'Vec<u16>')]),
    dict(name='S6', beh=None, kind='named', fields=[F('x', 'u8', 'sd'), F('a', 'u16'), F('b', 'Vec<u8>')]),
    dict(name='S7', beh=None, kind='named', fields=[F('a', 'Vec<u8>'), F('x', 'Vec<u8>', 'sd'), F('b', 'Vec<u16>')]),
    dict(name='S8', beh=None, kind='named', fields=[F('a', 'u16'), F('x', 'u32', 'sd')]),
    dict(name='S9', beh=None, kind='named', fields=[F('x', 'u8', 'sd')]),
    dict(name='S9b', beh=None, kind='named', fields=[F('x', 'u8', 'sd'), F('y', 'Vec<u8>', 'sd')]),
    dict(name='S10', beh=None, kind='named', fields=[F('a', 'u16'), F('x', 'u8', 's')]),
    dict(name='S11', beh=None, kind='named', fields=[F('a', 'u16'), F('x', 'u8', 'd')]),
    dict(name='S10v', beh=None, kind='named', fields=[F('a', 'Vec<u8>'), F('x', 'Vec<u8>', 's'), F('b', 'u8')]),
    dict(name='S11v', beh=None, kind='named', fields=[F('a', 'Vec<u8>'), F('x', 'Vec<u8>', 'd'), F('b', 'u8')]),
    dict(name='S12', beh=None, kind='named', fields=[F('x', 'u8'), F('a', 'Option<u16>', '', 'leg_u16'), F('y', 'Vec<u8>')]),
    dict(name='S13', beh=None, kind='named', fields=[F('a', 'Option<u16>', '', 'leg_u16')]),
    dict(name='S14', beh=None, kind='named', fields=[F('a', 'Option<Vec<u16>>', '', 'leg_vec_u16'), F('b', 'Option<u16>', '', 'leg_u16')]),
    dict(name='S15', beh=None, kind='named', fields=[F('a', 'u8'), F('b', 'u32', '', 'plain_u32'), F('c', 'u16')]),
    dict(name='S16', beh=None, kind='named', fields=[F('b', 'u32', '', 'plain_u32'), F('v', 'Vec<u8>')]),
    # a `with` module whose codec DIFFERS from the field type's own impl (Wide encodes natively as 8 bytes)
    dict(name='S20', beh=None, kind='named', fields=[F('a', 'u8'), F('w', 'Wide', '', 'wide4'), F('c', 'u16')]),
    dict(name='S21', beh=None, kind='named', fields=[F('w', 'Wide', '', 'wide4'), F('v', 'Vec<u8>')]),
    dict(name='S22', beh=None, kind='named', fields=[F('w', 'Wide', '', 'wide4')]),
    dict(name='S23', beh=None, kind='named', fields=[F('x', 'Wide', 'sd'), F('w', 'Wide', '', 'wide4'), F('o', 'Option<u16>', '', 'leg_u16')]),
    # other attributes (doc comments, lints) written BEFORE the #[ssz(..)] attribute of a field
    dict(name='S31', beh=None, kind='named', fields=[
        dict(F('a', 'Option<u16>', '', 'leg_u16'), pre='/** the legacy field */ #[allow(dead_code)] '),
        dict(F('x', 'u8', 'sd'), pre='#[allow(dead_code)] /** skipped */ '),
        F('v', 'Vec<u8>')]),
    dict(name='S32', beh=None, kind='named', fields=[
        F('v', 'Vec<u8>'),
        dict(F('w', 'Wide', '', 'wide4'), pre='/// fixed-size custom codec\n    '),
        dict(F('a', 'Option<u16>', '', 'leg_u16'), extra='#[allow(dead_code)]')]),
    # `with` combined with a one-sided skip: the field is still live in the other direction
    dict(name='S26', beh=None, kind='named', fields=[F('a', 'u8'), F('w', 'Wide', 'd', 'wide4'), F('c', 'u16')]),
    dict(name='S27', beh=None, kind='named', fields=[F('a', 'u8'), F('w', 'Wide', 's', 'wide4'), F('c', 'u16')]),
    dict(name='S28', beh=None, kind='named', fields=[F('v', 'Vec<u8>'), F('o', 'Option<u16>', 'd', 'leg_u16'), F('c', 'u16')]),
    dict(name='S29', beh=None, kind='named', fields=[F('v', 'Vec<u8>'), F('o', 'Option<u16>', 's', 'leg_u16'), F('c', 'u16')]),
    # `with` and both skip flags on the same field: the field is absent, whatever its codec
    dict(name='S33', beh=None, kind='named', fields=[F('a', 'u16'), F('w', 'Wide', 'sd', 'wide4'), F('b', 'Vec<u8>')]),
    dict(name='S34', beh=None, kind='named', fields=[F('a', 'u8'), F('o', 'Option<u16>', 'sd', 'leg_u16'), F('c', 'u16')]),
    dict(name='S35', beh=None, kind='named', fields=[F('w', 'Wide', 'sd', 'wide4')]),
    # `with` modules whose size class differs from the field type's own impl: a variable-size codec over a type
    # that is natively fixed-size, and a fixed-size codec over a natively variable-size type
    dict(name='S36', beh=None, kind='named', fields=[F('a', 'u8'), F('b', 'Blob', '', 'blob_var'), F('c', 'u16')]),
    dict(name='S37', beh=None, kind='named', fields=[F('b', 'Blob', '', 'blob_var')]),
    dict(name='S38', beh=None, kind='named', fields=[F('a', 'u8'), F('x', 'VarNative', '', 'fix4'), F('c', 'u16')]),
    dict(name='S39', beh=None, kind='named', fields=[F('x', 'VarNative', '', 'fix4'), F('b', 'Blob', '', 'blob_var'), F('v', 'Vec<u16>')]),
    # zero-width fixed-size members before, between and after variable-size ones (their slices are empty too)
    dict(name='S41', beh=None, kind='named', fields=[F('z', '[u8; 0]'), F('l', 'Option<u16>', '', 'leg_u16'), F('v', 'Vec<u8>')]),
    dict(name='S42', beh=None, kind='named', fields=[F('a', 'u8'), F('z', '[u8; 0]'), F('v', 'Vec<u8>'), F('y', '[u8; 0]'), F('w', 'Vec<u16>'), F('x', '[u8; 0]')]),
    # more than 256 fields, the variable-size ones last (indices 256 and 257)
    dict(name='S40', beh=None, kind='named', fields=[F('f%03d' % i, 'u8') for i in range(256)] + [F('tail', 'Vec<u8>'), F('tail2', 'Vec<u16>')]),
    # more than 8 and more than 16 fields (inline small-vector spill)
    dict(name='S30', beh=None, kind='named', fields=[F('f%d' % i, 'Vec<u8>' if i % 3 == 0 else 'u8') for i in range(17)]),
    dict(name='S17', beh=None, kind='named', fields=[F('a', 'u8'), F('b', 'Vec<u8>'), F('c', 'u16'), F('d', 'Vec<Vec<u8>>'), F('e', 'bool'), F('f', 'Vec<u16>')]),
    dict(name='S18', beh=None, kind='named', fields=[F('z', '[u8; 0]'), F('a', 'u8'), F('y', '[u8; 0]')]),
    dict(name='S19', beh=None, kind='named', fields=[F('o', 'Option<u16>'), F('x', 'u8', 'sd'), F('l', 'Option<u16>', '', 'leg_u16')]),
    # transparent structs
    dict(name='T1', beh='transparent', kind='named', fields=[F('a', 'Vec<u8>')]),
    dict(name='T2', beh='transparent', kind='tuple', fields=[F('0', 'Vec<u8>')]),
    dict(name='T3', beh='transparent', kind='named', fields=[F('a', 'Vec<u8>'), F('x', 'u8', 'sd')]),
    dict(name='T4', beh='transparent', kind='tuple', fields=[F('0', 'u8', 'sd'), F('1', 'Vec<u16>')]),
    dict(name='T5', beh='transparent', kind='tuple', fields=[F('0', 'u16')]),
    dict(name='T6', beh='transparent', kind='tuple', fields=[F('0', 'u8', 'd'), F('1', 'Vec<u8>')]),
    # `with` on the wrapped field of a transparent struct (honoured since the fix: commit 29a8ce0)
    dict(name='T8', beh='transparent', kind='named', fields=[F('w', 'Wide', '', 'wide4')]),
    dict(name='T9', beh='transparent', kind='tuple', fields=[F('0', 'u8', 'sd'), F('1', 'Option<u16>', '', 'leg_u16')]),
    dict(name='T10', beh='transparent', kind='named', fields=[F('b', 'Blob', '', 'blob_var')]),
    dict(name='T11', beh='transparent', kind='tuple', fields=[F('0', 'VarNative', '', 'fix4')]),
    dict(name='T12', beh='transparent', kind='named', fields=[F('s', 'u8', 'sd'), F('x', 'VarNative', '', 'fix4')]),
    dict(name='T7', beh='transparent', kind='named', fields=[F('x', 'u32', 'sd'), F('a', 'u16'), F('y', 'Vec<u8>', 'sd')]),
]
GENERICS = [
    # (name, generics decl, where clause, fields with T, instantiation, field descs after instantiation)
    dict(name='G1', decl='<T: ssz::Encode + ssz::Decode>', where='', fields=[('a', 'T'), ('b', 'Vec<T>')], inst='u16', tys=['u16', 'Vec<u16>']),
    dict(name='G2', decl='<T>', where='where T: ssz::Encode + ssz::Decode', fields=[('v', 'Vec<T>'), ('a', 'T')], inst='u8', tys=['Vec<u8>', 'u8']),
    # further instantiations of the SAME generic definitions (anything cached per definition instead of per
    # instantiation shows up here)
    dict(name='G1', decl=None, where='', fields=[('a', 'T'), ('b', 'Vec<T>')], inst='u64', tys=['u64', 'Vec<u64>']),
    dict(name='G1', decl=None, where='', fields=[('a', 'T'), ('b', 'Vec<T>')], inst='bool', tys=['bool', 'Vec<bool>']),
    dict(name='G2', decl=None, where='', fields=[('v', 'Vec<T>'), ('a', 'T')], inst='u32', tys=['Vec<u32>', 'u32']),
    dict(name='G3', decl='<T: ssz::Encode + ssz::Decode>', where='', fields=[('x', 'u8'), ('a', 'T'), ('y', 'u16')], inst='u8', tys=['u8', 'u8', 'u16']),
    dict(name='G3', decl=None, where='', fields=[('x', 'u8'), ('a', 'T'), ('y', 'u16')], inst='u64', tys=['u8', 'u64', 'u16']),
]

def fdesc(f):
    return WITH[f['with_']][1] if f['with_'] else TY[f['ty']]

def fattrs(f):
    if f['attrs'] is not None:
        return f['attrs']
    return 1 if (f['flags'] or f['with_']) else 0

def struct_desc(s):
    b = {'container': 'c', 'transparent': 't', None: '-', 'invalid': 'x'}[s['beh']]
    e = 'e' if s.get('enum_attr') else '-'
    fs = []
    for f in s['fields']:
        fl = ('u' if s['kind'] == 'tuple' else 'n') + ('s' if 's' in f['flags'] else '') + ('d' if 'd' in f['flags'] else '') + str(fattrs(f))
        fs.append(fl + ':' + fdesc(f))
    return f"DS{b}{e}(" + ';'.join(fs) + ")"

def field_attr(f, extra=None):
    pre = f.get('pre') or ''
    parts = []
    if f['with_']:
        parts.append(f'with = "{f["with_"]}"')
    if 's' in f['flags']:
        parts.append('skip_serializing')
    if 'd' in f['flags']:
        parts.append('skip_deserializing')
    out = pre
    if parts:
        out += f"#[ssz({', '.join(parts)})] "
    if extra:
        out += extra + ' '
    return out

def struct_src(s, derives='#[derive(ssz_derive::Encode, ssz_derive::Decode, Clone, PartialEq, Debug)]'):
    attr = ''
    if s['beh'] == 'container':
        attr = '#[ssz(struct_behaviour = "container")]\n'
    elif s['beh'] == 'transparent':
        attr = '#[ssz(struct_behaviour = "transparent")]\n'
    elif s['beh'] == 'invalid':
        attr = '#[ssz(struct_behaviour = "bogus")]\n'
    if s.get('enum_attr'):
        attr += '#[ssz(enum_behaviour = "union")]\n'
    if s['kind'] == 'unit':
        body = ';'
    elif s['kind'] == 'tuple':
        body = '(' + ', '.join(field_attr(f, f.get('extra')) + 'pub ' + f['ty'] for f in s['fields']) + ');'
    else:
        body = ' { ' + ' '.join(field_attr(f, f.get('extra')) + 'pub ' + f['name'] + ': ' + f['ty'] + ',' for f in s['fields']) + ' }'
    return f"{derives}\n{attr}pub struct {s['name']}{body}\n"

def acc(s, f):
    return f"self.{f['name']}"

def struct_impl(s):
    n = s['name']
    fs = s['fields']
    all_vals = ', '.join(f"crate::model::Model::to_val(&{acc(s, f)})" for f in fs)
    if s['kind'] == 'unit':
        ctor = n
    elif s['kind'] == 'tuple':
        ctor = n + '(' + ', '.join(f"<{f['ty']} as crate::model::Model>::gen(g, size)" for f in fs) + ')'
    else:
        ctor = n + ' { ' + ', '.join(f"{f['name']}: <{f['ty']} as crate::model::Model>::gen(g, size)" for f in fs) + ' }'
    sym = all(('s' in f['flags']) == ('d' in f['flags']) for f in fs)
    manual = ''
    if s['kind'] == 'named' and s['beh'] in (None, 'container'):
        live = [f for f in fs if 's' not in f['flags']]
        terms, apps = [], []
        for f in live:
            if f['with_']:
                m = f['with_']
                terms.append(f"(if {m}::encode::is_ssz_fixed_len() {{ {m}::encode::ssz_fixed_len() }} else {{ ssz::BYTES_PER_LENGTH_OFFSET }})")
                apps.append(f"enc.append_parameterized({m}::encode::is_ssz_fixed_len(), |b| {m}::encode::ssz_append(&self.{f['name']}, b));")
            else:
                t = f['ty']
                terms.append(f"(if <{t} as ssz::Encode>::is_ssz_fixed_len() {{ <{t} as ssz::Encode>::ssz_fixed_len() }} else {{ ssz::BYTES_PER_LENGTH_OFFSET }})")
                apps.append(f"enc.append(&self.{f['name']});")
        manual = f"""
    fn manual(&self) -> Option<Vec<u8>> {{
        let mut buf: Vec<u8> = vec![0x5A, 0xC3];
        let fixed: usize = 0{''.join(' + ' + t for t in terms)};
        {{
            #[allow(unused_mut)]
            let mut enc = ssz::SszEncoder::container(&mut buf, fixed);
            {' '.join(apps)}
            enc.finalize();
        }}
        if buf[..2] != [0x5A, 0xC3] {{ return Some(vec![0xEE; 3]); }}
        Some(buf[2..].to_vec())
    }}"""
    return f"""impl crate::derive::DModel for {n} {{{manual}
    fn name() -> &'static str {{ "{n}" }}
    fn def_desc() -> String {{ "{struct_desc(s)}".to_string() }}
    fn symmetric() -> bool {{ {str(sym).lower()} }}
    fn to_val_all(&self) -> String {{
        let v: Vec<String> = vec![{all_vals}];
        format!("({{}})", v.join(","))
    }}
    #[allow(unused_variables)]
    fn gen(g: &mut crate::rng::Rng, size: usize) -> Self {{ {ctor} }}
}}
"""

def main():
    out = ["// GENERATED by harness/gen/gen_derive.py — do not edit by hand\n",
           "use ssz::four_byte_option_impl;\n",
           "type VecU16 = Vec<u16>;\n",
           "four_byte_option_impl!(leg_u16, u16);\nfour_byte_option_impl!(leg_vec_u16, VecU16);\n",
           PLAIN_MOD]
    names = []
    for s in STRUCTS:
        out.append(struct_src(s))
        out.append(struct_impl(s))
        names.append(s['name'])
    for g in GENERICS:
        fields = ' '.join(f"pub {n}: {t}," for n, t in g['fields'])
        if g['decl'] is not None:
            out.append(f"#[derive(ssz_derive::Encode, ssz_derive::Decode, Clone, PartialEq, Debug)]\npub struct {g['name']}{g['decl']} {g['where']} {{ {fields} }}\n")
        inst = f"{g['name']}<{g['inst']}>"
        desc = "DS--(" + ';'.join('n0:' + TY[t] for t in g['tys']) + ")"
        vals = ', '.join(f"crate::model::Model::to_val(&self.{n})" for n, _ in g['fields'])
        ctor = g['name'] + ' { ' + ', '.join(f"{n}: <{t} as crate::model::Model>::gen(g, size)" for (n, _), t in zip(g['fields'], g['tys'])) + ' }'
        terms = ''.join(f" + (if <{t} as ssz::Encode>::is_ssz_fixed_len() {{ <{t} as ssz::Encode>::ssz_fixed_len() }} else {{ ssz::BYTES_PER_LENGTH_OFFSET }})" for t in g['tys'])
        apps = ' '.join(f"enc.append(&self.{n});" for n, _ in g['fields'])
        out.append(f"""impl crate::derive::DModel for {inst} {{
    fn manual(&self) -> Option<Vec<u8>> {{
        let mut buf: Vec<u8> = vec![0x5A, 0xC3];
        let fixed: usize = 0{terms};
        {{
            let mut enc = ssz::SszEncoder::container(&mut buf, fixed);
            {apps}
            enc.finalize();
        }}
        if buf[..2] != [0x5A, 0xC3] {{ return Some(vec![0xEE; 3]); }}
        Some(buf[2..].to_vec())
    }}
    fn name() -> &'static str {{ "{g['name']}<{g['inst']}>" }}
    fn def_desc() -> String {{ "{desc}".to_string() }}
    fn symmetric() -> bool {{ true }}
    fn to_val_all(&self) -> String {{
        let v: Vec<String> = vec![{vals}];
        format!("({{}})", v.join(","))
    }}
    fn gen(g: &mut crate::rng::Rng, size: usize) -> Self {{ {ctor} }}
}}
""")
        names.append(inst)
    names += ['TagD', 'TagR', 'UnD', 'UnW', 'TrD', 'SC<0>', 'SC<3>', 'SC<32>', 'GU<u8>', 'GU<u32>', 'GU<Vec<u16>>', 'GT<u8>', 'GT<u32>', 'GT<Vec<u16>>']
    calls = ' '.join(f"$f::<{n}>($ctx);" for n in names)
    out.append(f"#[macro_export]\nmacro_rules! for_each_derived {{ ($f:ident, $ctx:expr) => {{{{ use $crate::derive_gen::*; {calls} }}}}; }}\n")
    open(os.path.join(ROOT, 'harness/src/derive_gen.rs'), 'w').write('\n'.join(out))

    # ---------------- reject crate
    cases = []
    src = ["// GENERATED by harness/gen/gen_derive.py — do not edit by hand\n#![allow(dead_code)]\n"]
    def add(name, desc, code, expect):
        cases.append(dict(feature=name, desc=desc, expect_compiles=expect))
        src.append(f'#[cfg(feature = "{name}")]\nmod {name} {{\n{code}\n}}\n')
    D = '#[derive(ssz_derive::Encode, ssz_derive::Decode)]'
    def enum_case(name, beh, variants, expect, struct_attr=False):
        """variants: list of (named, [tys])"""
        b = {'union': 'u', 'tag': 'g', 'transparent': 't', None: '-', 'invalid': 'x'}[beh]
        desc = f"DE{b}{'s' if struct_attr else '-'}(" + '|'.join(('n' if nm else 'u') + ':' + ','.join(TY[t] for t in tys) for nm, tys in variants) + ")"
        attr = {'union': '#[ssz(enum_behaviour = "union")]', 'tag': '#[ssz(enum_behaviour = "tag")]',
                'transparent': '#[ssz(enum_behaviour = "transparent")]', None: '', 'invalid': '#[ssz(enum_behaviour = "bogus")]'}[beh]
        if struct_attr:
            attr += '\n#[ssz(struct_behaviour = "container")]'
        vs = []
        for i, (nm, tys) in enumerate(variants):
            if not tys:
                vs.append(f"V{i}")
            elif nm:
                vs.append(f"V{i} {{ " + ', '.join(f"f{j}: {t}" for j, t in enumerate(tys)) + " }")
            else:
                vs.append(f"V{i}(" + ', '.join(tys) + ")")
        add(name, desc, f"{D}\n{attr}\npub enum E {{ {', '.join(vs)} }}", expect)
    def struct_case(name, s, expect):
        s = dict(s, name='S')
        add(name, struct_desc(s), struct_src(s, D), expect)
    enum_case('r_union_0', 'union', [], False)
    enum_case('r_union_129', 'union', [(False, ['u8'])] * 129, False)
    enum_case('r_union_257', 'union', [(False, ['u8'])] * 257, False)
    enum_case('r_tag_129', 'tag', [(False, [])] * 129, False)
    enum_case('r_tag_0', 'tag', [], False)
    enum_case('r_no_behaviour', None, [(False, ['u8'])], False)
    enum_case('r_invalid_behaviour', 'invalid', [(False, ['u8'])], False)
    enum_case('r_struct_attr_on_enum', 'union', [(False, ['u8'])], False, struct_attr=True)
    enum_case('r_tag_with_field', 'tag', [(False, []), (False, ['u8'])], False)
    add('r_tag_braces', 'DEg-(np:)', f'{D}\n#[ssz(enum_behaviour = "tag")]\npub enum E {{ V0 {{}} }}', False)
    add('r_tag_parens', 'DEg-(up:|u:)', f'{D}\n#[ssz(enum_behaviour = "tag")]\npub enum E {{ V0(), V1 }}', False)
    enum_case('r_union_two_fields', 'union', [(False, ['u8', 'u16'])], False)
    enum_case('r_union_no_field', 'union', [(False, ['u8']), (False, [])], False)
    enum_case('r_union_named_field', 'union', [(True, ['u8'])], False)
    enum_case('r_transparent_two_fields', 'transparent', [(False, ['Vec<u8>', 'Vec<u8>'])], False)
    enum_case('a_union_128', 'union', [(False, ['u8'])] * 128, True)
    enum_case('a_union_1', 'union', [(False, ['Vec<u8>'])], True)
    enum_case('a_tag_128', 'tag', [(False, [])] * 128, True)
    enum_case('a_tag_1', 'tag', [(False, [])], True)
    enum_case('a_transparent_enum', 'transparent', [(False, ['Vec<u8>']), (False, ['Vec<u16>'])], True)
    struct_case('r_transparent_0_live', dict(beh='transparent', kind='tuple', fields=[F('0', 'u8', 'sd')]), False)
    struct_case('r_transparent_2_live', dict(beh='transparent', kind='named', fields=[F('a', 'u8'), F('b', 'u8')]), False)
    struct_case('r_transparent_skipser_only', dict(beh='transparent', kind='tuple', fields=[F('0', 'u8', 's'), F('1', 'Vec<u8>')]), False)
    struct_case('r_transparent_empty', dict(beh='transparent', kind='named', fields=[]), False)
    struct_case('r_enum_attr_on_struct', dict(beh=None, kind='named', enum_attr=True, fields=[F('a', 'u8')]), False)
    struct_case('r_tuple_container', dict(beh=None, kind='tuple', fields=[F('0', 'u8')]), False)
    struct_case('r_tuple_container_all_skipped', dict(beh=None, kind='tuple', fields=[F('0', 'u8', 'sd')]), False)
    struct_case('r_invalid_struct_behaviour', dict(beh='invalid', kind='named', fields=[F('a', 'u8')]), False)
    struct_case('r_two_attrs', dict(beh=None, kind='named', fields=[dict(F('a', 'u8', 'd', attrs=2), extra='#[ssz(skip_serializing)]')]), False)
    struct_case('a_empty', dict(beh=None, kind='named', fields=[]), True)
    struct_case('a_unit', dict(beh=None, kind='unit', fields=[]), True)
    struct_case('a_all_skipped', dict(beh=None, kind='named', fields=[F('a', 'u8', 'sd'), F('b', 'Vec<u8>', 'sd')]), True)
    struct_case('a_empty_tuple', dict(beh=None, kind='tuple', fields=[]), True)
    struct_case('a_transparent_named_skipped', dict(beh='transparent', kind='named', fields=[F('x', 'u8', 'sd'), F('a', 'Vec<u8>')]), True)
    struct_case('a_skipde_only', dict(beh=None, kind='named', fields=[F('a', 'u16'), F('x', 'u8', 'd')]), True)
    open(os.path.join(ROOT, 'reject/src/lib.rs'), 'w').write('\n'.join(src))
    json.dump(cases, open(os.path.join(ROOT, 'reject/cases.json'), 'w'), indent=1)
    feats = '\n'.join(f'{c["feature"]} = []' for c in cases)
    open(os.path.join(ROOT, 'reject/Cargo.toml'), 'w').write(f"""[package]
name = "ssz_verif_reject"
version = "0.1.0"
edition = "2021"
publish = false

[workspace]

[dependencies]
ethereum_ssz = {{ path = "/repo/ssz" }}
ethereum_ssz_derive = {{ path = "/repo/ssz_derive" }}

[features]
{feats}
""")
    print(len(names), 'derived definitions,', len(cases), 'compile cases')

PLAIN_MOD = '''
/// a type whose OWN codec is 8 bytes little-endian; the `wide4` module encodes it as 4 bytes
#[derive(Clone, Copy, PartialEq, Debug, Default)]
pub struct Wide(pub u32);
impl ssz::Encode for Wide {
    fn is_ssz_fixed_len() -> bool { true }
    fn ssz_fixed_len() -> usize { 8 }
    fn ssz_bytes_len(&self) -> usize { 8 }
    fn ssz_append(&self, buf: &mut Vec<u8>) { buf.extend_from_slice(&(self.0 as u64).to_le_bytes()) }
}
impl ssz::Decode for Wide {
    fn is_ssz_fixed_len() -> bool { true }
    fn ssz_fixed_len() -> usize { 8 }
    fn from_ssz_bytes(b: &[u8]) -> Result<Self, ssz::DecodeError> {
        let x = <u64 as ssz::Decode>::from_ssz_bytes(b)?;
        if x > u32::MAX as u64 { return Err(ssz::DecodeError::BytesInvalid("wide".into())); }
        Ok(Wide(x as u32))
    }
}
impl crate::model::Model for Wide {
    fn desc() -> String { "U4".into() }
    fn to_val(&self) -> String { format!("{}", self.0) }
    fn gen(g: &mut crate::rng::Rng, size: usize) -> Self { Wide(<u32 as crate::model::Model>::gen(g, size)) }
}
pub mod wide4 {
    pub mod encode {
        use super::super::Wide;
        pub fn is_ssz_fixed_len() -> bool { true }
        pub fn ssz_fixed_len() -> usize { 4 }
        pub fn ssz_bytes_len(_v: &Wide) -> usize { 4 }
        pub fn ssz_append(v: &Wide, buf: &mut Vec<u8>) { buf.extend_from_slice(&v.0.to_le_bytes()) }
    }
    pub mod decode {
        use super::super::Wide;
        pub fn is_ssz_fixed_len() -> bool { true }
        pub fn ssz_fixed_len() -> usize { 4 }
        pub fn from_ssz_bytes(b: &[u8]) -> Result<Wide, ssz::DecodeError> {
            <u32 as ssz::Decode>::from_ssz_bytes(b).map(Wide)
        }
    }
}

/// natively FIXED-size (2 bytes: the length), encoded as a byte list by the `blob_var` module
#[derive(Clone, PartialEq, Debug, Default)]
pub struct Blob(pub Vec<u8>);
impl ssz::Encode for Blob {
    fn is_ssz_fixed_len() -> bool { true }
    fn ssz_fixed_len() -> usize { 2 }
    fn ssz_bytes_len(&self) -> usize { 2 }
    fn ssz_append(&self, buf: &mut Vec<u8>) { buf.extend_from_slice(&(self.0.len() as u16).to_le_bytes()) }
}
impl ssz::Decode for Blob {
    fn is_ssz_fixed_len() -> bool { true }
    fn ssz_fixed_len() -> usize { 2 }
    fn from_ssz_bytes(b: &[u8]) -> Result<Self, ssz::DecodeError> {
        <u16 as ssz::Decode>::from_ssz_bytes(b).map(|n| Blob(vec![0; n as usize]))
    }
}
impl crate::model::Model for Blob {
    fn desc() -> String { "L(U1)".into() }
    fn to_val(&self) -> String { crate::model::Model::to_val(&self.0) }
    fn gen(g: &mut crate::rng::Rng, size: usize) -> Self { Blob(<Vec<u8> as crate::model::Model>::gen(g, size)) }
}
pub mod blob_var {
    pub mod encode {
        use super::super::Blob;
        pub fn is_ssz_fixed_len() -> bool { false }
        pub fn ssz_fixed_len() -> usize { ssz::BYTES_PER_LENGTH_OFFSET }
        pub fn ssz_bytes_len(v: &Blob) -> usize { v.0.len() }
        pub fn ssz_append(v: &Blob, buf: &mut Vec<u8>) { buf.extend_from_slice(&v.0) }
    }
    pub mod decode {
        use super::super::Blob;
        pub fn is_ssz_fixed_len() -> bool { false }
        pub fn ssz_fixed_len() -> usize { ssz::BYTES_PER_LENGTH_OFFSET }
        pub fn from_ssz_bytes(b: &[u8]) -> Result<Blob, ssz::DecodeError> { Ok(Blob(b.to_vec())) }
    }
}
/// natively VARIABLE-size (its four bytes as a byte list), encoded as a fixed 4-byte integer by the `fix4` module
#[derive(Clone, Copy, PartialEq, Debug, Default)]
pub struct VarNative(pub u32);
impl ssz::Encode for VarNative {
    fn is_ssz_fixed_len() -> bool { false }
    fn ssz_bytes_len(&self) -> usize { 4 }
    fn ssz_append(&self, buf: &mut Vec<u8>) { buf.extend_from_slice(&self.0.to_be_bytes()) }
}
impl ssz::Decode for VarNative {
    fn is_ssz_fixed_len() -> bool { false }
    fn from_ssz_bytes(b: &[u8]) -> Result<Self, ssz::DecodeError> {
        if b.len() != 4 { return Err(ssz::DecodeError::BytesInvalid("varnative".into())); }
        Ok(VarNative(u32::from_be_bytes([b[0], b[1], b[2], b[3]])))
    }
}
impl crate::model::Model for VarNative {
    fn desc() -> String { "U4".into() }
    fn to_val(&self) -> String { format!("{}", self.0) }
    fn gen(g: &mut crate::rng::Rng, size: usize) -> Self { VarNative(<u32 as crate::model::Model>::gen(g, size)) }
}
pub mod fix4 {
    pub mod encode {
        use super::super::VarNative;
        pub fn is_ssz_fixed_len() -> bool { true }
        pub fn ssz_fixed_len() -> usize { 4 }
        pub fn ssz_bytes_len(_v: &VarNative) -> usize { 4 }
        pub fn ssz_append(v: &VarNative, buf: &mut Vec<u8>) { buf.extend_from_slice(&v.0.to_le_bytes()) }
    }
    pub mod decode {
        use super::super::VarNative;
        pub fn is_ssz_fixed_len() -> bool { true }
        pub fn ssz_fixed_len() -> usize { 4 }
        pub fn from_ssz_bytes(b: &[u8]) -> Result<VarNative, ssz::DecodeError> {
            <u32 as ssz::Decode>::from_ssz_bytes(b).map(VarNative)
        }
    }
}

/// const-generic container, generic union, generic transparent wrapper: one definition, several instantiations
#[derive(ssz_derive::Encode, ssz_derive::Decode, Clone, PartialEq, Debug)]
pub struct SC<const N: usize> { pub a: [u8; N], pub v: Vec<u8>, pub t: u16 }
#[derive(ssz_derive::Encode, ssz_derive::Decode, Clone, PartialEq, Debug)]
#[ssz(enum_behaviour = "union")]
pub enum GU<T: ssz::Encode + ssz::Decode> { A(T), B(Vec<T>) }
#[derive(ssz_derive::Encode, ssz_derive::Decode, Clone, PartialEq, Debug)]
#[ssz(struct_behaviour = "transparent")]
pub struct GT<T: ssz::Encode + ssz::Decode>(pub T);
macro_rules! sc_impl {
    ($n:expr, $name:expr) => {
        impl crate::derive::DModel for SC<$n> {
            fn name() -> &'static str { $name }
            fn def_desc() -> String { format!("DS--(n0:X{};n0:L(U1);n0:U2)", $n) }
            fn symmetric() -> bool { true }
            fn to_val_all(&self) -> String {
                use crate::model::Model;
                format!("({},{},{})", self.a.to_val(), self.v.to_val(), self.t.to_val())
            }
            fn gen(g: &mut crate::rng::Rng, size: usize) -> Self {
                use crate::model::Model;
                SC { a: <[u8; $n]>::gen(g, size), v: Vec::<u8>::gen(g, size), t: u16::gen(g, size) }
            }
        }
    };
}
sc_impl!(0, "SC<0>");
sc_impl!(3, "SC<3>");
sc_impl!(32, "SC<32>");
macro_rules! gu_impl {
    ($t:ty, $name:expr) => {
        impl crate::derive::DModel for GU<$t> {
            fn name() -> &'static str { $name }
            fn def_desc() -> String {
                use crate::model::Model;
                format!("DEu-(u:{}|u:L({}))", <$t>::desc(), <$t>::desc())
            }
            fn symmetric() -> bool { true }
            fn to_val_all(&self) -> String {
                use crate::model::Model;
                match self { GU::A(x) => format!("U0({})", x.to_val()), GU::B(x) => format!("U1({})", x.to_val()) }
            }
            fn gen(g: &mut crate::rng::Rng, size: usize) -> Self {
                use crate::model::Model;
                if g.bool() { GU::A(<$t>::gen(g, size)) } else { GU::B(Vec::<$t>::gen(g, size)) }
            }
        }
        impl crate::derive::DModel for GT<$t> {
            fn name() -> &'static str { concat!("GT/", $name) }
            fn def_desc() -> String {
                use crate::model::Model;
                format!("DSt-(u0:{})", <$t>::desc())
            }
            fn symmetric() -> bool { true }
            fn to_val_all(&self) -> String {
                use crate::model::Model;
                format!("({})", self.0.to_val())
            }
            fn gen(g: &mut crate::rng::Rng, size: usize) -> Self {
                use crate::model::Model;
                GT(<$t>::gen(g, size))
            }
        }
    };
}
gu_impl!(u8, "GU<u8>");
gu_impl!(u32, "GU<u32>");
gu_impl!(Vec<u16>, "GU<Vec<u16>>");

/// a union whose variants carry `#[ssz(with = ..)]` on their field (the derive ignores it for enums; the module is a
/// pass-through, so only the selectors could tell): selectors are still the declaration indices
#[derive(ssz_derive::Encode, ssz_derive::Decode, Clone, PartialEq, Debug)]
#[ssz(enum_behaviour = "union")]
pub enum UnW { A(#[ssz(with = "plain_u32")] u32), B(u8), C(#[ssz(with = "plain_u32")] u32), D(Vec<u8>) }
impl crate::derive::DModel for UnW {
    fn name() -> &'static str { "UnW" }
    fn def_desc() -> String { "DEu-(u:U4|u:U1|u:U4|u:L(U1))".to_string() }
    fn symmetric() -> bool { true }
    fn to_val_all(&self) -> String {
        use crate::model::Model;
        match self { UnW::A(x) => format!("U0({})", x.to_val()), UnW::B(x) => format!("U1({})", x.to_val()), UnW::C(x) => format!("U2({})", x.to_val()), UnW::D(x) => format!("U3({})", x.to_val()) }
    }
    fn gen(g: &mut crate::rng::Rng, size: usize) -> Self {
        use crate::model::Model;
        match g.below(4) { 0 => UnW::A(u32::gen(g, size)), 1 => UnW::B(u8::gen(g, size)), 2 => UnW::C(u32::gen(g, size)), _ => UnW::D(Vec::<u8>::gen(g, size)) }
    }
}

/// enums whose Rust discriminants differ from the declaration order: selectors must still be the
/// zero-based declaration index
#[derive(ssz_derive::Encode, ssz_derive::Decode, Clone, Copy, PartialEq, Debug)]
#[ssz(enum_behaviour = "tag")]
pub enum TagD { Ping = 1, Pong = 2, Goodbye = 16 }
impl crate::derive::DModel for TagD {
    fn name() -> &'static str { "TagD" }
    fn def_desc() -> String { "DEg-(u:|u:|u:)".to_string() }
    fn symmetric() -> bool { true }
    fn to_val_all(&self) -> String { match self { TagD::Ping => "G0".into(), TagD::Pong => "G1".into(), TagD::Goodbye => "G2".into() } }
    fn gen(g: &mut crate::rng::Rng, _size: usize) -> Self { *g.pick(&[TagD::Ping, TagD::Pong, TagD::Goodbye]) }
}
#[derive(ssz_derive::Encode, ssz_derive::Decode, Clone, Copy, PartialEq, Debug)]
#[ssz(enum_behaviour = "tag")]
pub enum TagR { C = 2, A = 0, B = 1 }
impl crate::derive::DModel for TagR {
    fn name() -> &'static str { "TagR" }
    fn def_desc() -> String { "DEg-(u:|u:|u:)".to_string() }
    fn symmetric() -> bool { true }
    fn to_val_all(&self) -> String { match self { TagR::C => "G0".into(), TagR::A => "G1".into(), TagR::B => "G2".into() } }
    fn gen(g: &mut crate::rng::Rng, _size: usize) -> Self { *g.pick(&[TagR::C, TagR::A, TagR::B]) }
}
#[derive(ssz_derive::Encode, ssz_derive::Decode, Clone, PartialEq, Debug)]
#[ssz(enum_behaviour = "union")]
#[repr(u8)]
pub enum UnD { A(u8) = 5, B(Vec<u8>) = 0, C(u16) = 9 }
impl crate::derive::DModel for UnD {
    fn name() -> &'static str { "UnD" }
    fn def_desc() -> String { "DEu-(u:U1|u:L(U1)|u:U2)".to_string() }
    fn symmetric() -> bool { true }
    fn to_val_all(&self) -> String {
        use crate::model::Model;
        match self { UnD::A(x) => format!("U0({})", x.to_val()), UnD::B(x) => format!("U1({})", x.to_val()), UnD::C(x) => format!("U2({})", x.to_val()) }
    }
    fn gen(g: &mut crate::rng::Rng, size: usize) -> Self {
        use crate::model::Model;
        match g.below(3) { 0 => UnD::A(u8::gen(g, size)), 1 => UnD::B(Vec::<u8>::gen(g, size)), _ => UnD::C(u16::gen(g, size)) }
    }
}
#[derive(ssz_derive::Encode, ssz_derive::Decode, Clone, PartialEq, Debug)]
#[ssz(enum_behaviour = "transparent")]
pub enum TrD { A(Vec<u16>), B(Vec<u8>) }
impl crate::derive::DModel for TrD {
    fn name() -> &'static str { "TrD" }
    fn def_desc() -> String { "DEt-(u:L(U2)|u:L(U1))".to_string() }
    fn symmetric() -> bool { false }
    fn to_val_all(&self) -> String {
        use crate::model::Model;
        match self { TrD::A(x) => format!("U0({})", x.to_val()), TrD::B(x) => format!("U1({})", x.to_val()) }
    }
    fn gen(g: &mut crate::rng::Rng, size: usize) -> Self {
        use crate::model::Model;
        if g.bool() { TrD::A(Vec::<u16>::gen(g, size)) } else { TrD::B(Vec::<u8>::gen(g, size)) }
    }
}

/// a `with` module delegating to the field type's own impls (fixed-size codec through the
/// `append_parameterized` / `register_type_parameterized` paths)
pub mod plain_u32 {
    pub mod encode {
        use ssz::Encode;
        pub fn is_ssz_fixed_len() -> bool { <u32 as Encode>::is_ssz_fixed_len() }
        pub fn ssz_fixed_len() -> usize { <u32 as Encode>::ssz_fixed_len() }
        pub fn ssz_bytes_len(v: &u32) -> usize { v.ssz_bytes_len() }
        pub fn ssz_append(v: &u32, buf: &mut Vec<u8>) { v.ssz_append(buf) }
    }
    pub mod decode {
        use ssz::Decode;
        pub fn is_ssz_fixed_len() -> bool { <u32 as Decode>::is_ssz_fixed_len() }
        pub fn ssz_fixed_len() -> usize { <u32 as Decode>::ssz_fixed_len() }
        pub fn from_ssz_bytes(b: &[u8]) -> Result<u32, ssz::DecodeError> { u32::from_ssz_bytes(b) }
    }
}
'''
if __name__ == '__main__':
    main()
