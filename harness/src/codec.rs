//! Groups `meta`, `enc` (with `len`, `spec`), `entry`, `dec` over the type catalogue.
use crate::model::{hex, Model};
use crate::out::Out;
use crate::rng::Rng;
use ssz::{Decode, Encode};
use std::collections::HashSet;
use std::panic::{catch_unwind, AssertUnwindSafe};
use std::sync::Arc;

pub struct Ctx {
    pub out: Out,
    pub rng: Rng,
    pub thorough: bool,
    pub groups: HashSet<String>,
    pub only_type: Option<String>,
    pub type_filter: Vec<String>,
    pub seed: u64,
    pub replay: Option<Vec<String>>,
    pub replay_done: bool,
    pub corpus: Vec<(String, Vec<u8>)>,
}

impl Ctx {
    pub fn on(&self, g: &str) -> bool {
        self.groups.contains(g)
    }
}

pub fn dec_str<T: Model>(b: &[u8]) -> String {
    match catch_unwind(AssertUnwindSafe(|| T::from_ssz_bytes(b))) {
        Ok(Ok(v)) => format!("ok {}", v.to_val()),
        Ok(Err(_)) => "err".to_string(),
        Err(_) => "panic".to_string(),
    }
}

pub fn run_meta<T: Model>(ctx: &mut Ctx) {
    let d = T::desc();
    let ef = <T as Encode>::is_ssz_fixed_len();
    let el = <T as Encode>::ssz_fixed_len();
    let df = <T as Decode>::is_ssz_fixed_len();
    let dl = <T as Decode>::ssz_fixed_len();
    let s = |f: bool, l: usize| format!("{} {}", if f { "fixed" } else { "variable" }, l);
    ctx.out.m("meta", &s(ef, el), &["meta", &d]);
    ctx.out.m("meta", &s(df, dl), &["meta", &d]);
    let name = T::rust_name();
    ctx.out.r("C07", "meta", ef == df && el == dl, &["meta_agree", "meta", &d, &name]);
    ctx.out.r("C07", "meta", ef || el == 4, &["variable_fixed_len_is_4", "meta", &d, &name]);
}

fn values<T: Model>(ctx: &mut Ctx) -> Vec<T> {
    let n = if ctx.thorough { 60 } else { 14 };
    let mut vs = Vec::new();
    for i in 0..n {
        let size = if i < 4 { i } else { 1 + ctx.rng.below(4) };
        vs.push(T::gen(&mut ctx.rng, size));
    }
    vs
}

/// reduced mutation set for very long encodings: lengths off by a few bytes, the first offset words
pub fn big_mutations(e: &[u8]) -> Vec<Vec<u8>> {
    let n = e.len();
    let mut out = Vec::new();
    for k in [1usize, 2, 3, 5, 7] {
        if n > k {
            out.push(e[..n - k].to_vec());
        }
    }
    for x in [vec![0u8], vec![1, 2], vec![0, 0, 0]] {
        let mut v = e.to_vec();
        v.extend(x);
        out.push(v);
    }
    for w in 0..3usize {
        if 4 * w + 4 <= n {
            let orig = u32::from_le_bytes([e[4 * w], e[4 * w + 1], e[4 * w + 2], e[4 * w + 3]]);
            for c in [orig.wrapping_add(1), orig.wrapping_sub(1), orig ^ 0x0001_0000, orig ^ 0x0100_0000, n as u32] {
                let mut v = e.to_vec();
                v[4 * w..4 * w + 4].copy_from_slice(&c.to_le_bytes());
                out.push(v);
            }
        }
    }
    if n > 70000 {
        let mut v = e.to_vec();
        v[n - 1] ^= 0x80;
        out.push(v);
    }
    out
}

/// in the quick tier only one representative per collection impl and code path gets large values
const BIG_QUICK: &[&str] = &[
    "vec::Vec<u64>", "vec::Vec<u16>", "vec::Vec<(u8, u16)>", "vec::Vec<vec::Vec<u8>>", "vec::Vec<core::option::Option<u16>>",
    "vec::Vec<alloy_primitives::bytes_::Bytes>", "smallvec::SmallVec<[u16; 4]>", "smallvec::SmallVec<[vec::Vec<u8>; 2]>",
    "collections::btree::set::BTreeSet<u16>", "collections::btree::set::BTreeSet<vec::Vec<u8>>",
    "collections::btree::map::BTreeMap<u8, u16>", "collections::btree::map::BTreeMap<u16, vec::Vec<u8>>",
    "alloy_primitives::bytes_::Bytes", "core::option::Option<alloy_primitives::bytes_::Bytes>",
    "(alloy_primitives::bytes_::Bytes, alloy_primitives::bytes_::Bytes)", "catalogue::CBB", "vec::Vec<catalogue::CM>",
];

fn big_values_for<T: Model>(ctx: &mut Ctx) -> Vec<T> {
    if !ctx.thorough && !BIG_QUICK.contains(&T::rust_name().as_str()) {
        return Vec::new();
    }
    let mut b = T::big_values(&mut ctx.rng);
    if !ctx.thorough {
        b.truncate(1);
    }
    b
}

/// An encoder that is filled and then dropped without `finalize` (what a caller does on an early return), and an
/// encode that unwinds half way: neither may leave anything behind that a later encode can see.
pub fn abandon_encoder(k: usize) {
    let mut scratch: Vec<u8> = vec![0xC3; k % 3];
    {
        let mut enc = ssz::SszEncoder::container(&mut scratch, 4 + (k % 2) * 4);
        enc.append(&vec![0xD7u8; 1 + k % 5]);
        if k % 2 == 1 {
            enc.append(&(k as u32));
        }
        // dropped here, not finalized
    }
    if k % 7 == 0 {
        let _ = catch_unwind(AssertUnwindSafe(|| {
            let mut scratch: Vec<u8> = Vec::new();
            let mut enc = ssz::SszEncoder::container(&mut scratch, 8);
            enc.append(&vec![vec![0xE1u8; 3]; 2]);
            enc.append_parameterized(false, |_b: &mut Vec<u8>| panic!("encoder callback unwinds"));
            enc.finalize();
        }));
    }
}

pub fn run_enc<T: Model>(ctx: &mut Ctx) {
    let d = T::desc();
    let name = T::rust_name();
    let mut seen = HashSet::new();
    let mut all_values = values::<T>(ctx);
    let n_small = all_values.len();
    all_values.extend(big_values_for::<T>(ctx));
    for (vi, v) in all_values.into_iter().enumerate() {
        if vi >= n_small && !T::big_model_ok() {
            // large value of a type the model cannot evaluate quickly: implementation-side oracles only
            if let Ok(bytes) = catch_unwind(AssertUnwindSafe(|| v.as_ssz_bytes())) {
                let tag = format!("{} bytes", bytes.len());
                ctx.out.r("C07", "len", v.ssz_bytes_len() == bytes.len(), &["bytes_len", "big", &d, &tag, &name]);
                if T::roundtrip() {
                    let back = catch_unwind(AssertUnwindSafe(|| T::from_ssz_bytes(&bytes)));
                    ctx.out.r("C01", "enc", matches!(&back, Ok(Ok(w)) if *w == v), &["roundtrip", "big", &d, &tag, &name]);
                }
                let mut buf = vec![0x5a, 0xa5];
                v.ssz_append(&mut buf);
                ctx.out.r("C10", "entry", buf[..2] == [0x5a, 0xa5] && buf[2..] == bytes[..], &["append_prefix", "big", &d, &tag, &name]);
            }
            continue;
        }
        let val = v.to_val();
        if !seen.insert(val.clone()) {
            continue;
        }
        abandon_encoder(vi);
        let bytes = match catch_unwind(AssertUnwindSafe(|| v.as_ssz_bytes())) {
            Ok(b) => b,
            Err(_) => {
                ctx.out.m("enc", "panic", &["enc", &d, &val]);
                continue;
            }
        };
        let hx = hex(&bytes);
        if ctx.on("enc") {
            ctx.out.m("enc", &hx, &["enc", &d, &val]);
            ctx.out.o("C03", "enc", &hx, &["spec", &d, &val]);
            let l = v.ssz_bytes_len();
            ctx.out.m("len", &l.to_string(), &["len", &d, &val]);
            ctx.out.r("C07", "len", l == bytes.len(), &["bytes_len", "len", &d, &val, &name]);
            // the predicted size is the size of what every entry point produces
            let sizes_ok = catch_unwind(AssertUnwindSafe(|| {
                let mut buf = Vec::new();
                v.ssz_append(&mut buf);
                ssz::ssz_encode(&v).len() == l && buf.len() == l && (&v).ssz_bytes_len() == l && Arc::new(v.clone()).ssz_bytes_len() == l && Arc::new(v.clone()).as_ssz_bytes().len() == l
            }))
            .unwrap_or(false);
            ctx.out.r("C07", "len", sizes_ok, &["predicted_size_for_every_entry_point", "len", &d, &val, &name]);
            if <T as Encode>::is_ssz_fixed_len() {
                ctx.out.r(
                    "C07",
                    "len",
                    bytes.len() == <T as Encode>::ssz_fixed_len(),
                    &["fixed_len_exact", "enc", &d, &val, &name],
                );
            }
            if let Some(ok) = catch_unwind(AssertUnwindSafe(|| v.concat_oracle())).unwrap_or(Some(false)) {
                // a list of fixed-size items is the concatenation of the items' standalone encodings
                ctx.out.r("C10", "enc", ok, &["list_is_concatenation_of_item_encodings", "enc", &d, &val, &name]);
                ctx.out.r("C03", "enc", ok, &["list_is_concatenation_of_item_encodings", "enc", &d, &val, &name]);
            }
            if let Some(_n) = T::union_variants() {
                // C15: the leading byte is the zero-based declaration index of the variant
                let idx: Option<usize> = if val == "N" {
                    Some(0)
                } else if val.starts_with("S(") {
                    Some(1)
                } else if val.starts_with('U') {
                    val[1..].split('(').next().and_then(|x| x.parse().ok())
                } else {
                    None
                };
                let ok = match idx {
                    Some(i) => bytes.first().map(|b| *b as usize) == Some(i),
                    None => false,
                };
                ctx.out.r("C15", "enc", ok, &["selector_is_declaration_index", "enc", &d, &val, &name]);
            }
            if T::roundtrip() {
                let back = catch_unwind(AssertUnwindSafe(|| T::from_ssz_bytes(&bytes)));
                let ok = matches!(&back, Ok(Ok(w)) if *w == v);
                ctx.out.r("C01", "enc", ok, &["roundtrip", "dec", &d, &hx, &name, &val]);
            }
            // C04 (<-): what the specification serializer produces must be accepted with this value;
            // the `spec` line above ties Spec.ser to these bytes, the decode line ties acceptance.
            // decoding of a produced encoding (what the round-trip theorem needs from the decoder)
            ctx.out.m("encdec", &dec_str::<T>(&bytes), &["dec", &d, &hx]);
            ctx.out.bump(&format!("enc.len.{}", bucket(bytes.len())));
        }
        if ctx.on("entry") {
            let prefixes: Vec<Vec<u8>> = vec![vec![], vec![0xAA], vec![1, 2, 3, 4, 5, 6, 7], bytes.clone()];
            for p in prefixes {
                let mut buf = p.clone();
                v.ssz_append(&mut buf);
                let mut want = p.clone();
                want.extend_from_slice(&bytes);
                ctx.out.r("C10", "entry", buf == want, &["append_prefix", "append", &d, &val, &hex(&p), &name]);
                ctx.out.m("entry", &hex(&buf), &["append", &d, &val, &hex(&p)]);
            }
            {
                // a buffer whose spare capacity is large and holds old data
                let mut buf = vec![0xABu8; bytes.len() + 96];
                buf.truncate(3);
                v.ssz_append(&mut buf);
                ctx.out.r("C10", "entry", buf[..3] == [0xAB; 3] && buf[3..] == bytes[..], &["append_into_dirty_spare_capacity", "enc", &d, &val, &name]);
                // and one with no spare capacity at all
                let mut buf = vec![0xCDu8; 5];
                buf.shrink_to_fit();
                v.ssz_append(&mut buf);
                ctx.out.r("C10", "entry", buf[..5] == [0xCD; 5] && buf[5..] == bytes[..], &["append_into_full_buffer", "enc", &d, &val, &name]);
            }
            ctx.out.r("C10", "entry", ssz::ssz_encode(&v) == bytes, &["ssz_encode", "enc", &d, &val, &name]);
            ctx.out.r("C10", "entry", (&v).as_ssz_bytes() == bytes, &["ref", "enc", &d, &val, &name]);
            ctx.out.r("C10", "entry", (&&v).as_ssz_bytes() == bytes, &["refref", "enc", &d, &val, &name]);
            let a = Arc::new(v.clone());
            ctx.out.r("C10", "entry", a.as_ssz_bytes() == bytes, &["arc", "enc", &d, &val, &name]);
            let mut b2 = vec![9u8];
            a.ssz_append(&mut b2);
            ctx.out.r("C10", "entry", b2[1..] == bytes[..] && b2[0] == 9, &["arc_append", "enc", &d, &val, &name]);
            ctx.out.r("C10", "entry", (&a).ssz_bytes_len() == bytes.len(), &["arc_len", "enc", &d, &val, &name]);
        }
    }
}

fn bucket(n: usize) -> &'static str {
    match n {
        0 => "0",
        1..=3 => "1-3",
        4..=7 => "4-7",
        8..=15 => "8-15",
        16..=63 => "16-63",
        64..=255 => "64-255",
        _ => "256+",
    }
}

/// structure-agnostic mutations around a valid encoding
pub fn mutations(rng: &mut Rng, e: &[u8], thorough: bool) -> Vec<Vec<u8>> {
    let mut out: Vec<Vec<u8>> = Vec::new();
    let n = e.len();
    let cap = if thorough { 96 } else { 28 };
    // truncations
    if n <= cap {
        for k in 0..n {
            out.push(e[..k].to_vec());
        }
    } else {
        for k in [0, 1, 3, 4, 5, n / 2, n - 5, n - 4, n - 1] {
            out.push(e[..k.min(n)].to_vec());
        }
    }
    // extensions
    for x in [0u8, 1, 0xff] {
        let mut v = e.to_vec();
        v.push(x);
        out.push(v.clone());
        v.push(x);
        out.push(v);
    }
    // positions to mutate
    let positions: Vec<usize> = if n <= cap {
        (0..n).collect()
    } else {
        let mut p: Vec<usize> = (0..16).collect();
        p.extend(n - 8..n);
        for _ in 0..16 {
            p.push(rng.below(n));
        }
        p
    };
    for &i in &positions {
        for x in [e[i].wrapping_add(1), e[i].wrapping_sub(1), 0, 0xff, 1, 0x80, e[i] ^ 0x10] {
            if x != e[i] {
                let mut v = e.to_vec();
                v[i] = x;
                out.push(v);
            }
        }
        // delete / duplicate a byte
        let mut v = e.to_vec();
        v.remove(i);
        out.push(v);
        let mut v = e.to_vec();
        v.insert(i, e[i]);
        out.push(v);
    }
    // 4-byte windows as offset words
    for &i in &positions {
        if i + 4 <= n {
            let orig = u32::from_le_bytes([e[i], e[i + 1], e[i + 2], e[i + 3]]);
            let cands = [
                0u32,
                4,
                8,
                n as u32,
                (n as u32).wrapping_add(1),
                (n as u32).wrapping_sub(1),
                u32::MAX,
                orig.wrapping_add(1),
                orig.wrapping_sub(1),
                orig.wrapping_add(4),
                orig.wrapping_sub(4),
                orig | 0x0100_0000,
            ];
            for c in cands {
                if c != orig {
                    let mut v = e.to_vec();
                    v[i..i + 4].copy_from_slice(&c.to_le_bytes());
                    out.push(v);
                }
            }
        }
    }
    // sweep of first and last byte
    if n > 0 && n <= 300 {
        for x in 0..=255u8 {
            let mut v = e.to_vec();
            v[0] = x;
            out.push(v);
            let mut v = e.to_vec();
            v[n - 1] = x;
            out.push(v);
        }
    }
    // swap two halves
    if n >= 2 {
        let mut v = e[n / 2..].to_vec();
        v.extend_from_slice(&e[..n / 2]);
        out.push(v);
    }
    out
}

fn short_strings(thorough: bool) -> Vec<Vec<u8>> {
    let mut out: Vec<Vec<u8>> = vec![vec![]];
    for x in 0..=255u8 {
        out.push(vec![x]);
    }
    let alpha2: &[u8] = &[0, 1, 2, 3, 4, 5, 8, 127, 128, 255];
    for &a in alpha2 {
        for &b in alpha2 {
            out.push(vec![a, b]);
        }
    }
    let alpha: &[u8] = if thorough { &[0, 1, 4, 5, 8, 255] } else { &[0, 1, 4, 8, 255] };
    let maxlen = if thorough { 6 } else { 4 };
    let mut cur: Vec<Vec<u8>> = vec![vec![]];
    for len in 1..=maxlen {
        let mut next = Vec::new();
        for c in &cur {
            for &a in alpha {
                let mut v = c.clone();
                v.push(a);
                next.push(v);
            }
        }
        if len >= 3 {
            out.extend(next.iter().cloned());
        }
        cur = next;
    }
    out
}

pub fn run_dec<T: Model>(ctx: &mut Ctx) {
    let d = T::desc();
    let name = T::rust_name();
    let mut inputs: Vec<Vec<u8>> = Vec::new();
    let mut seen_enc = HashSet::new();
    for v in values::<T>(ctx) {
        if let Ok(e) = catch_unwind(AssertUnwindSafe(|| v.as_ssz_bytes())) {
            if seen_enc.insert(e.clone()) {
                let muts = mutations(&mut ctx.rng, &e, ctx.thorough);
                inputs.push(e);
                inputs.extend(muts);
            }
        }
    }
    let mut big_inputs: Vec<Vec<u8>> = Vec::new();
    for v in big_values_for::<T>(ctx) {
        if let Ok(e) = catch_unwind(AssertUnwindSafe(|| v.as_ssz_bytes())) {
            let muts = big_mutations(&e);
            if T::big_model_ok() {
                // a handful of the long inputs also go to the model, the rest to the implementation-side oracles only
                inputs.push(e);
                for (k, m) in muts.into_iter().enumerate() {
                    if k % 4 == 0 {
                        inputs.push(m);
                    } else {
                        big_inputs.push(m);
                    }
                }
            } else {
                big_inputs.extend(muts);
                big_inputs.push(e);
            }
        }
    }
    inputs.extend(short_strings(ctx.thorough));
    let fl = <T as Decode>::ssz_fixed_len();
    let nrand = if ctx.thorough { 400 } else { 60 };
    for _ in 0..nrand {
        let len = ctx.rng.below(4 * fl + 6);
        inputs.push(ctx.rng.bytes(len));
    }
    if <T as Decode>::is_ssz_fixed_len() {
        for l in [fl.wrapping_sub(2), fl.wrapping_sub(1), fl, fl + 1, fl + 2, 0] {
            if l < 10_000 {
                inputs.push(vec![0; l]);
                inputs.push(ctx.rng.bytes(l));
            }
        }
    }
    // minimised past failures and hand-picked witnesses for this schema run with the generated inputs
    for (cd, cb) in ctx.corpus.clone() {
        if cd == d {
            inputs.push(cb);
        }
    }
    let mut seen: HashSet<Vec<u8>> = HashSet::new();
    let mut sample: Vec<Vec<u8>> = Vec::new();
    for b in inputs {
        if !seen.insert(b.clone()) {
            continue;
        }
        if sample.len() < 24 && (sample.len() < 8 || seen.len() % 37 == 0) {
            sample.push(b.clone());
        }
        dec_case::<T>(ctx, &b);
    }
    threads_agree::<T>(ctx, &sample);
    // long inputs of types the model cannot evaluate quickly: implementation-side oracles only
    ctx.out.capture_m = true;
    for b in big_inputs {
        dec_case::<T>(ctx, &b);
    }
    ctx.out.capture_m = false;
}

/// one decode case: correspondence line plus every implementation-side oracle that applies
pub fn dec_case<T: Model>(ctx: &mut Ctx, b: &[u8]) {
    let b: Vec<u8> = b.to_vec();
    let d = T::desc();
    let name = T::rust_name();
    let fixed = <T as Decode>::is_ssz_fixed_len();
    let fl = <T as Decode>::ssz_fixed_len();
    {
        let hx = hex(&b);
        let r = catch_unwind(AssertUnwindSafe(|| T::from_ssz_bytes(&b)));
        let s = match &r {
            Ok(Ok(v)) => format!("ok {}", v.to_val()),
            Ok(Err(_)) => "err".to_string(),
            Err(_) => "panic".to_string(),
        };
        // fixed-size types get their own label so that C07 depends only on them
        // and non-strict ones (ordered collections, transparent enums) theirs, so that C02 does not depend on them
        ctx.out.m(if fixed { "decf" } else if T::strict() { "dec" } else { "decns" }, &s, &["dec", &d, &hx]);
        if T::strict() && T::roundtrip() {
            // C04: the Lean decoder is proven equal to the strict reference deserializer (C04.decode_iff_spec),
            // so for these types a disagreement is an implementation-vs-specification failure
            ctx.out.o("C04", "dec", &s, &["dec", &d, &hx]);
        }
        ctx.out.r("C05", "dec", r.is_ok(), &["no_panic", "dec", &d, &hx, &name]);
        if b.len() <= 4096 {
            // the same bytes inside a larger allocation, at an odd address and followed by other data: the result
            // depends on the slice handed in and on nothing around it
            let k = 1 + (b.len() + b.first().copied().unwrap_or(0) as usize) % 7;
            let mut big = vec![0xF5u8; k];
            big.extend_from_slice(&b);
            big.extend_from_slice(&[0xF5, 0x01, 0xFF, 0x00, 0x04, 0, 0, 0]);
            let s2 = dec_str::<T>(&big[k..k + b.len()]);
            ctx.out.r("C04", "dec", s2 == s, &["same_result_wherever_the_slice_lives", "dec", &d, &hx, &name]);
            ctx.out.r("C05", "dec", s2 != "panic" || s == "panic", &["same_result_wherever_the_slice_lives", "dec", &d, &hx, &name]);
        }
        if let Some(n) = T::union_variants() {
            // C15: empty input, selectors that name no declared variant and selectors above 127 are rejected
            let must_reject = b.is_empty() || (b[0] as usize) >= n || b[0] > 127;
            if must_reject {
                ctx.out.r("C15", "dec", matches!(r, Ok(Err(_))), &["selector_rejected", "dec", &d, &hx, &name]);
            }
        }
        if let Some(ok) = catch_unwind(AssertUnwindSafe(|| T::collection_oracle(&b))).unwrap_or(Some(false)) {
            ctx.out.r("C19", "dec", ok, &["decode_is_collect_of_entry_list", "dec", &d, &hx, &name]);
            ctx.out.r("C04", "dec", ok, &["decode_is_collect_of_entry_list", "dec", &d, &hx, &name]);
        }
        match &r {
            Ok(Ok(v)) => {
                ctx.out.bump(&format!("dec.{}.ok", d_short(&d)));
                let re = catch_unwind(AssertUnwindSafe(|| v.as_ssz_bytes()));
                if T::strict() {
                    let ok = matches!(&re, Ok(e) if *e == b);
                    ctx.out.r("C02", "dec", ok, &["canonical", "dec", &d, &hx, &name]);
                } else if let Ok(e) = &re {
                    // fixed point for ordered collections (C19)
                    let again = catch_unwind(AssertUnwindSafe(|| T::from_ssz_bytes(e)));
                    let ok = matches!(&again, Ok(Ok(w)) if w == v);
                    ctx.out.r("C19", "dec", ok || !T::roundtrip(), &["fixed_point", "dec", &d, &hx, &name]);
                }
                if fixed {
                    ctx.out.r("C07", "dec", b.len() == fl, &["fixed_decode_len", "dec", &d, &hx, &name]);
                }
            }
            Ok(Err(_)) => ctx.out.bump(&format!("dec.{}.err", d_short(&d))),
            Err(_) => ctx.out.bump(&format!("dec.{}.panic", d_short(&d))),
        }
    }
}

/// greedy shrinking of a decode input on which the named oracle fails: drop bytes, zero bytes, while it still fails
pub fn shrink_dec<T: Model>(ctx: &mut Ctx, oracle: &str, b: &[u8]) -> Vec<u8> {
    let mut fails = |ctx: &mut Ctx, cand: &[u8]| -> bool {
        ctx.out.capture = Some(Vec::new());
        dec_case::<T>(ctx, cand);
        let got = ctx.out.capture.take().unwrap_or_default();
        got.iter().any(|o| o == oracle)
    };
    let mut cur = b.to_vec();
    if !fails(ctx, &cur) {
        return cur;
    }
    let mut changed = true;
    while changed {
        changed = false;
        let mut i = 0;
        while i < cur.len() {
            let mut cand = cur.clone();
            cand.remove(i);
            if fails(ctx, &cand) {
                cur = cand;
                changed = true;
            } else {
                i += 1;
            }
        }
        for i in 0..cur.len() {
            for v in [0u8, 1] {
                if cur[i] > v {
                    let mut cand = cur.clone();
                    cand[i] = v;
                    if fails(ctx, &cand) {
                        cur = cand;
                        changed = true;
                        break;
                    }
                }
            }
        }
    }
    cur
}

fn d_short(d: &str) -> String {
    if d.len() > 40 {
        format!("{}..", &d[..40])
    } else {
        d.to_string()
    }
}


// ---------------------------------------------------------------------------------------------
// keys whose order is coarser than their encoding (C19: "a later duplicate key replacing an earlier one")

/// ordered and compared by `id` alone; `note` is carried along and encoded
#[derive(Clone, Debug, ssz_derive::Encode, ssz_derive::Decode)]
pub struct CoarseKey {
    pub id: u8,
    pub note: Vec<u8>,
}
impl PartialEq for CoarseKey {
    fn eq(&self, o: &Self) -> bool { self.id == o.id }
}
impl Eq for CoarseKey {}
impl PartialOrd for CoarseKey {
    fn partial_cmp(&self, o: &Self) -> Option<std::cmp::Ordering> { Some(self.cmp(o)) }
}
impl Ord for CoarseKey {
    fn cmp(&self, o: &Self) -> std::cmp::Ordering { self.id.cmp(&o.id) }
}

/// Implementation-side oracle only (the model's collections are ordered by the whole key): decoding an entry list
/// yields the collection in which every listed entry has replaced, key and value, any earlier entry with an equal key.
pub fn run_coarse_keys(ctx: &mut Ctx) {
    use std::collections::{BTreeMap, BTreeSet};
    let mut g = Rng::new(ctx.seed ^ 0xc0a53);
    let n = if ctx.thorough { 400 } else { 60 };
    for case in 0..n {
        let len = g.below(7);
        let dom = 1 + g.below(4);
        let keys: Vec<CoarseKey> = (0..len).map(|_| CoarseKey { id: g.below(dom) as u8, note: { let l = g.below(3); g.bytes(l) } }).collect();
        // sets
        let b = keys.as_ssz_bytes();
        let hx = hex(&b);
        let got = catch_unwind(AssertUnwindSafe(|| <BTreeSet<CoarseKey> as Decode>::from_ssz_bytes(&b)));
        let mut want: Vec<CoarseKey> = Vec::new();
        for k in &keys {
            want.retain(|w| w.id != k.id);
            want.push(k.clone());
        }
        want.sort_by_key(|k| k.id);
        let ok = match &got {
            Ok(Ok(s)) => s.iter().map(|k| (k.id, k.note.clone())).collect::<Vec<_>>() == want.iter().map(|k| (k.id, k.note.clone())).collect::<Vec<_>>(),
            _ => false,
        };
        ctx.out.r("C19", "dec", ok, &["later_duplicate_replaces_earlier_entry", "coarse-set", &hx, &case.to_string()]);
        {
            // the same against the model's `collectCmp` (entries compared by the leading integer of their key)
            let listed: Vec<(u8, Vec<u8>)> = keys.iter().map(|k| (k.id, k.note.clone())).collect();
            let out = match &got {
                Ok(Ok(s)) => s.iter().map(|k| (k.id, k.note.clone())).collect::<Vec<_>>().to_val(),
                Ok(Err(_)) => "err".into(),
                Err(_) => "panic".into(),
            };
            ctx.out.m("decns", &out, &["collect_coarse", "set", &listed.to_val()]);
        }
        // maps
        let entries: Vec<(CoarseKey, Vec<u8>)> = keys.iter().map(|k| (k.clone(), { let l = g.below(3); g.bytes(l) })).collect();
        let b = entries.as_ssz_bytes();
        let hx = hex(&b);
        let got = catch_unwind(AssertUnwindSafe(|| <BTreeMap<CoarseKey, Vec<u8>> as Decode>::from_ssz_bytes(&b)));
        let mut want: Vec<(CoarseKey, Vec<u8>)> = Vec::new();
        for (k, v) in &entries {
            want.retain(|w| w.0.id != k.id);
            want.push((k.clone(), v.clone()));
        }
        want.sort_by_key(|e| e.0.id);
        let flat = |k: &CoarseKey, v: &Vec<u8>| (k.id, k.note.clone(), v.clone());
        let ok = match &got {
            Ok(Ok(m)) => m.iter().map(|(k, v)| flat(k, v)).collect::<Vec<_>>() == want.iter().map(|(k, v)| flat(k, v)).collect::<Vec<_>>(),
            _ => false,
        };
        ctx.out.r("C19", "dec", ok, &["later_duplicate_replaces_earlier_entry", "coarse-map", &hx, &case.to_string()]);
        {
            let listed: Vec<((u8, Vec<u8>), Vec<u8>)> = entries.iter().map(|(k, v)| ((k.id, k.note.clone()), v.clone())).collect();
            let out = match &got {
                Ok(Ok(m)) => m.iter().map(|(k, v)| ((k.id, k.note.clone()), v.clone())).collect::<Vec<_>>().to_val(),
                Ok(Err(_)) => "err".into(),
                Err(_) => "panic".into(),
            };
            ctx.out.m("decns", &out, &["collect_coarse", "map", &listed.to_val()]);
        }
        if let Ok(Ok(m)) = &got {
            // re-encoding the decoded collection is a fixed point
            let e1 = m.as_ssz_bytes();
            let again = <BTreeMap<CoarseKey, Vec<u8>> as Decode>::from_ssz_bytes(&e1).map(|m2| m2.as_ssz_bytes());
            ctx.out.r("C19", "dec", matches!(&again, Ok(e2) if *e2 == e1), &["reencode_fixed_point", "coarse-map", &hx, &case.to_string()]);
        }
    }
}


/// decode, re-encode and metadata computed concurrently on other threads equal what this thread computes
pub fn threads_agree<T: Model>(ctx: &mut Ctx, sample: &[Vec<u8>]) {
    let one = |b: &Vec<u8>| -> (String, Option<(Vec<u8>, usize)>, (bool, usize, bool, usize)) {
        let re = catch_unwind(AssertUnwindSafe(|| T::from_ssz_bytes(b).ok().map(|v| (v.as_ssz_bytes(), v.ssz_bytes_len())))).unwrap_or(None);
        (dec_str::<T>(b), re, (<T as Encode>::is_ssz_fixed_len(), <T as Encode>::ssz_fixed_len(), <T as Decode>::is_ssz_fixed_len(), <T as Decode>::ssz_fixed_len()))
    };
    let here: Vec<_> = sample.iter().map(one).collect();
    let there: Vec<Vec<_>> = std::thread::scope(|sc| {
        let hs: Vec<_> = (0..3).map(|_| sc.spawn(|| sample.iter().map(one).collect::<Vec<_>>())).collect();
        hs.into_iter().map(|h| h.join().unwrap_or_default()).collect()
    });
    let d = T::desc();
    let name = T::rust_name();
    for (i, b) in sample.iter().enumerate() {
        let ok = there.iter().all(|t| t.get(i) == Some(&here[i]));
        ctx.out.r("C04", "dec", ok, &["same_result_on_every_thread", "dec", &d, &hex(b), &name]);
        ctx.out.r("C01", "dec", ok, &["same_result_on_every_thread", "dec", &d, &hex(b), &name]);
        ctx.out.r("C02", "dec", ok, &["same_result_on_every_thread", "dec", &d, &hex(b), &name]);
    }
}


// ---------------------------------------------------------------------------------------------
// encoding and decoding while a thread shuts down (inside the destructor of a thread-local that was created before
// the thread first used the library): the same bytes and values as in the middle of the thread's life

struct AtExit(std::sync::mpsc::Sender<Vec<String>>);
fn exit_probe() -> Vec<String> {
    type C = (u16, Vec<u8>, Vec<Vec<u16>>, Option<u32>);
    let v: C = (7, vec![1, 2, 3], vec![vec![], vec![9, 10]], Some(5));
    let mut out = Vec::new();
    let mut one = |s: Result<String, Box<dyn std::any::Any + Send>>| out.push(s.unwrap_or_else(|_| "panic".into()));
    one(catch_unwind(|| hex(&((7u16, vec![1u8, 2, 3], vec![vec![], vec![9u16, 10]], Some(5u32)).as_ssz_bytes()))));
    one(catch_unwind(|| hex(&ssz::ssz_encode(&(1u8, vec![vec![1u8], vec![]])))));
    one(catch_unwind(|| { let mut b = vec![0xAA]; (3u8, vec![4u16]).ssz_append(&mut b); hex(&b) }));
    one(catch_unwind(|| hex(&std::collections::BTreeMap::from([(1u8, vec![2u8]), (0, vec![])]).as_ssz_bytes())));
    one(catch_unwind(|| hex(&ssz::BitList::<typenum::U16>::with_capacity(9).map(|mut b| { let _ = b.set(8, true); b.as_ssz_bytes() }).unwrap_or_default())));
    let e = v.as_ssz_bytes();
    one(catch_unwind(move || format!("{:?}", C::from_ssz_bytes(&e))));
    one(catch_unwind(|| format!("{:?}", <Vec<Vec<u8>> as Decode>::from_ssz_bytes(&[8, 0, 0, 0, 9, 0, 0, 0, 1, 2]))));
    one(catch_unwind(|| format!("{:?}", <Option<u16> as Decode>::from_ssz_bytes(&[1, 2, 3]))));
    out
}
impl Drop for AtExit {
    fn drop(&mut self) {
        let _ = self.0.send(exit_probe());
    }
}
thread_local! {
    static AT_EXIT: std::cell::RefCell<Option<AtExit>> = const { std::cell::RefCell::new(None) };
}

/// runs in a child process (`--thread-exit-probe`), because a failure in a thread-local destructor aborts the process
pub fn thread_exit_child() {
    let here = exit_probe();
    let mut all_ok = true;
    for round in 0..2 {
        let (tx, rx) = std::sync::mpsc::channel::<Vec<String>>();
        let tx_mid = tx.clone();
        let h = std::thread::spawn(move || {
            // the guard's thread-local is created before this thread's first call into the library
            AT_EXIT.with(|c| *c.borrow_mut() = Some(AtExit(tx)));
            if round == 1 {
                let _ = tx_mid.send(exit_probe());
            }
        });
        let _ = h.join();
        let mut got: Vec<Vec<String>> = Vec::new();
        while let Ok(v) = rx.recv_timeout(std::time::Duration::from_secs(5)) {
            got.push(v);
        }
        let want = if round == 1 { 2 } else { 1 };
        let ok = got.len() == want && got.iter().all(|g| *g == here);
        println!("round {} reports {} {}", round, got.len(), if ok { "same" } else { "DIFFERENT" });
        all_ok &= ok;
    }
    println!("{}", if all_ok { "thread-exit-ok" } else { "thread-exit-differs" });
}

pub fn run_thread_exit(ctx: &mut Ctx) {
    let out = std::env::current_exe().ok().and_then(|exe| std::process::Command::new(exe).arg("--thread-exit-probe").output().ok());
    let (ok, tag) = match &out {
        Some(o) => {
            let txt = String::from_utf8_lossy(&o.stdout).replace('\n', "; ");
            (o.status.success() && txt.contains("thread-exit-ok"), format!("child status {:?}: {} {}", o.status.code(), txt, String::from_utf8_lossy(&o.stderr).replace('\n', "; ").chars().take(160).collect::<String>()))
        }
        None => (false, "child could not be started".to_string()),
    };
    ctx.out.r("C10", "entry", ok, &["same_bytes_while_the_thread_shuts_down", "thread-exit", &tag]);
    ctx.out.r("C01", "enc", ok, &["same_bytes_while_the_thread_shuts_down", "thread-exit", &tag]);
    ctx.out.r("C05", "dec", ok, &["same_results_while_the_thread_shuts_down", "thread-exit", &tag]);
}
