//! The type catalogue: every separate `impl` of the library is exercised by at least one entry.
use crate::{container, tag_enum, transparent_enum, transparent_struct, union_enum};
use alloy_primitives::Bytes;
use ssz::{BitList, BitVector, BitVectorDynamic};
use smallvec::SmallVec;
use std::collections::{BTreeMap, BTreeSet};
use std::sync::Arc;
use typenum::*;

pub type N1025 = Sum<U1024, U1>;

container!(C0 {});
container!(C1 { a: u16 });
container!(CF { a: u8, b: u16, c: u32 });
container!(CF2 { a: bool, b: [u8; 3], c: CF });
container!(CV { a: Vec<u8> });
container!(CM { a: u16, b: Vec<u16>, c: u32 });
container!(CVV { a: Vec<u8>, b: Vec<u16> });
container!(CSet { a: u8, s: BTreeSet<u64>, m: BTreeMap<u8, u16>, z: u16 });
container!(CBB { a: Bytes, x: u8, b: Bytes, c: Vec<u8> });
container!(CFVFV { a: u8, b: Vec<u8>, c: u16, d: Vec<Vec<u8>>, e: u8 });
container!(CVF { a: Vec<u16>, b: u64 });
container!(CN { a: CM, b: CF, c: Vec<CM>, d: Vec<CF> });
container!(CO { a: Option<u16>, b: u8, c: Option<Vec<u8>> });
container!(CB { a: BitVector<U9>, b: BitList<U9>, c: BitVectorDynamic, d: BitVector<U8> });
container!(CZ { a: [u8; 0], b: C0 });
container!(CT { a: (u8, Vec<u8>), b: (u8, u16) });
container!(CArc { a: Arc<u16>, b: Arc<Vec<u8>> });
container!(CSix { a: Vec<u8>, b: Vec<u8>, c: Vec<u8>, d: Vec<u8>, e: Vec<u8>, f: Vec<u8> });
container!(CNine { a: u8, b: Vec<u8>, c: u8, d: Vec<u8>, e: u8, f: Vec<u8>, g: u8, h: Vec<u8>, i: u8 });

union_enum!(Un1 { A(u8) = 0 });
// zero-sized in memory but variable-size on the wire
union_enum!(UnZ { A([u8; 0]) = 0 });
transparent_struct!(TsZ(UnZ));
union_enum!(Un2 { A(u8) = 0, B(Vec<u8>) = 1 });
union_enum!(Un3 { A(u16) = 0, B(CM) = 1, C(Option<u8>) = 2 });
union_enum!(UnN { A(Un2) = 0, B(Vec<Un2>) = 1 });

tag_enum!(Tag1 { A = 0 });

/// a tag enum whose Rust discriminants differ from the declaration order (selectors are declaration indices)
#[derive(ssz_derive::Encode, ssz_derive::Decode, Clone, Copy, PartialEq, Eq, PartialOrd, Ord, Debug)]
#[ssz(enum_behaviour = "tag")]
pub enum TagX { Mainnet = 1, Goerli = 5, Gnosis = 100 }
impl crate::model::Model for TagX {
    fn desc() -> String { "G3".into() }
    fn to_val(&self) -> String { match self { TagX::Mainnet => "G0".into(), TagX::Goerli => "G1".into(), TagX::Gnosis => "G2".into() } }
    fn gen(g: &mut crate::rng::Rng, _size: usize) -> Self { *g.pick(&[TagX::Mainnet, TagX::Goerli, TagX::Gnosis]) }
}
tag_enum!(Tag3 { A = 0, B = 1, C = 2 });

transparent_enum!(Tr1 { A(Vec<u8>) = 0 });
transparent_enum!(Tr2 { A(Vec<u16>) = 0, B(Vec<u8>) = 1 });
transparent_enum!(Tr3 { A(CM) = 0, B(Vec<u32>) = 1, C(Bytes) = 2 });

transparent_struct!(TsV(Vec<u8>));
transparent_struct!(TsF(u16));
transparent_struct!(TsC(CM));

include!("catalogue_gen.rs");

/// Calls `$f::<T>($ctx)` for every catalogue type.
#[macro_export]
macro_rules! for_each_type {
    ($f:ident, $ctx:expr) => {{
        use $crate::catalogue::*;
        use alloy_primitives::{Address, Bloom, Bytes, FixedBytes, B256, U128 as AU128, U256 as AU256};
        use smallvec::SmallVec;
        use ssz::{BitList, BitVector, BitVectorDynamic};
        use std::collections::{BTreeMap, BTreeSet};
        use std::num::NonZeroUsize;
        use std::sync::Arc;
        use typenum::*;
        // integers, bool
        $f::<u8>($ctx); $f::<u16>($ctx); $f::<u32>($ctx); $f::<u64>($ctx); $f::<u128>($ctx);
        $f::<usize>($ctx); $f::<AU128>($ctx); $f::<AU256>($ctx); $f::<bool>($ctx); $f::<NonZeroUsize>($ctx);
        // byte arrays and alloy types
        $f::<[u8; 0]>($ctx); $f::<[u8; 1]>($ctx); $f::<[u8; 4]>($ctx); $f::<[u8; 32]>($ctx);
        $f::<FixedBytes<0>>($ctx); $f::<FixedBytes<4>>($ctx); $f::<B256>($ctx);
        $f::<Address>($ctx); $f::<Bloom>($ctx); $f::<Bytes>($ctx);
        // Option
        $f::<Option<u8>>($ctx); $f::<Option<u16>>($ctx); $f::<Option<Vec<u16>>>($ctx);
        $f::<Option<Option<u8>>>($ctx); $f::<Option<[u8; 0]>>($ctx); $f::<Option<CM>>($ctx);
        // Vec
        $f::<Vec<u8>>($ctx); $f::<Vec<u16>>($ctx); $f::<Vec<u64>>($ctx); $f::<Vec<bool>>($ctx);
        $f::<Vec<Vec<u16>>>($ctx); $f::<Vec<Vec<Vec<u8>>>>($ctx); $f::<Vec<Option<u16>>>($ctx);
        $f::<Vec<[u8; 0]>>($ctx); $f::<Vec<(u8, u16)>>($ctx); $f::<Vec<(u8, Vec<u8>)>>($ctx);
        $f::<Vec<B256>>($ctx); $f::<Vec<Bytes>>($ctx); $f::<Vec<AU256>>($ctx); $f::<Vec<NonZeroUsize>>($ctx);
        $f::<Vec<UnZ>>($ctx); $f::<Vec<(UnZ, UnZ)>>($ctx); $f::<Vec<TsZ>>($ctx); $f::<(u8, [u8; 0])>($ctx); $f::<(Vec<u8>, [u8; 0])>($ctx); $f::<Vec<(u16, [u8; 0])>>($ctx);
        $f::<Vec<CF>>($ctx); $f::<Vec<CM>>($ctx); $f::<Vec<C0>>($ctx); $f::<Vec<Un2>>($ctx); $f::<Vec<Tag3>>($ctx); $f::<TagX>($ctx); $f::<Vec<TagX>>($ctx); $f::<SmallVec<[TagX; 2]>>($ctx); $f::<(TagX, u8, Vec<TagX>)>($ctx); $f::<BTreeSet<TagX>>($ctx);
        // SmallVec
        $f::<SmallVec<[u16; 4]>>($ctx); $f::<SmallVec<[Vec<u8>; 2]>>($ctx); $f::<SmallVec<[[u8; 0]; 2]>>($ctx);
        $f::<SmallVec<[u8; 1]>>($ctx);
        // Arc
        $f::<Arc<u64>>($ctx); $f::<Arc<Vec<u64>>>($ctx); $f::<Vec<Arc<u16>>>($ctx); $f::<Arc<CM>>($ctx);
        // tuples, every arity
        $f::<(u8, u16)>($ctx); $f::<(Vec<u8>, u8)>($ctx); $f::<(u8, Vec<u8>)>($ctx); $f::<(Vec<u8>, Vec<u8>)>($ctx);
        $f::<(u8, Vec<u16>, u32)>($ctx); $f::<(Vec<u8>, Vec<u16>, Vec<u8>)>($ctx); $f::<(bool, bool, bool)>($ctx);
        $f::<(u8, Vec<u8>, u16, Vec<u16>)>($ctx);
        $f::<(u8, u8, Vec<u8>, u8, u8)>($ctx);
        $f::<(Vec<u8>, u8, u8, u8, u8, Vec<u8>)>($ctx);
        $f::<(u8, u16, u32, u64, u8, u16, u32)>($ctx);
        $f::<(u8, Vec<u8>, u8, Vec<u8>, u8, Vec<u8>, u8, Vec<u8>)>($ctx);
        $f::<(u8, u8, u8, u8, Vec<u16>, u8, u8, u8, u8)>($ctx);
        $f::<(Vec<u8>, u8, u8, u8, u8, u8, u8, u8, u8, Vec<u8>)>($ctx);
        $f::<(u8, u8, u8, u8, u8, u8, u8, u8, u8, u8, Vec<u8>)>($ctx);
        $f::<(Vec<u8>, u8, Vec<u8>, u8, Vec<u8>, u8, Vec<u8>, u8, Vec<u8>, u8, Vec<u8>, u8)>($ctx);
        $f::<((u8, Vec<u8>), (Vec<u8>, u8))>($ctx); $f::<(Option<u8>, Option<u8>)>($ctx);
        $f::<([u8; 0], u8)>($ctx); $f::<([u8; 0], [u8; 0])>($ctx);
        // ordered collections
        $f::<BTreeSet<u16>>($ctx); $f::<BTreeSet<Vec<u8>>>($ctx); $f::<BTreeSet<[u8; 2]>>($ctx);
        $f::<BTreeSet<(u8, u8)>>($ctx); $f::<BTreeSet<[u8; 0]>>($ctx);
        $f::<BTreeMap<u8, u16>>($ctx); $f::<BTreeMap<u16, Vec<u8>>>($ctx); $f::<BTreeMap<Vec<u8>, u8>>($ctx);
        $f::<BTreeMap<u8, u8>>($ctx); $f::<BTreeMap<u8, bool>>($ctx); $f::<BTreeMap<u8, NonZeroUsize>>($ctx); $f::<BTreeSet<bool>>($ctx); $f::<BTreeMap<bool, u8>>($ctx);
        $f::<(u8, BTreeSet<u64>)>($ctx); $f::<Vec<BTreeSet<u16>>>($ctx); $f::<BTreeMap<u8, BTreeSet<u8>>>($ctx); $f::<BTreeMap<BTreeSet<u64>, u16>>($ctx); $f::<Option<BTreeMap<u8, u16>>>($ctx); $f::<BTreeMap<[u8; 0], [u8; 0]>>($ctx); $f::<BTreeMap<Option<u8>, Vec<u16>>>($ctx);
        // bitfields
        $f::<BitList<U0>>($ctx); $f::<BitList<U1>>($ctx); $f::<BitList<U2>>($ctx); $f::<BitList<U7>>($ctx);
        $f::<BitList<U8>>($ctx); $f::<BitList<U9>>($ctx); $f::<BitList<U15>>($ctx); $f::<BitList<U16>>($ctx);
        $f::<BitList<U17>>($ctx); $f::<BitList<U31>>($ctx); $f::<BitList<U32>>($ctx); $f::<BitList<U33>>($ctx);
        $f::<BitList<U63>>($ctx); $f::<BitList<U64>>($ctx); $f::<BitList<U65>>($ctx); $f::<BitList<U127>>($ctx);
        $f::<BitList<U128>>($ctx); $f::<BitList<U129>>($ctx); $f::<BitList<U255>>($ctx); $f::<BitList<U256>>($ctx);
        $f::<BitList<U257>>($ctx); $f::<BitList<U1023>>($ctx); $f::<BitList<U1024>>($ctx); $f::<BitList<N1025>>($ctx);
        $f::<BitVector<U0>>($ctx); $f::<BitVector<U1>>($ctx); $f::<BitVector<U2>>($ctx); $f::<BitVector<U7>>($ctx);
        $f::<BitVector<U8>>($ctx); $f::<BitVector<U9>>($ctx); $f::<BitVector<U15>>($ctx); $f::<BitVector<U16>>($ctx);
        $f::<BitVector<U17>>($ctx); $f::<BitVector<U31>>($ctx); $f::<BitVector<U32>>($ctx); $f::<BitVector<U33>>($ctx);
        $f::<BitVector<U63>>($ctx); $f::<BitVector<U64>>($ctx); $f::<BitVector<U65>>($ctx); $f::<BitVector<U127>>($ctx);
        $f::<BitVector<U128>>($ctx); $f::<BitVector<U129>>($ctx); $f::<BitVector<U255>>($ctx); $f::<BitVector<U256>>($ctx);
        $f::<BitVector<U257>>($ctx); $f::<BitVector<U1023>>($ctx); $f::<BitVector<U1024>>($ctx); $f::<BitVector<N1025>>($ctx);
        $f::<BitVectorDynamic>($ctx);
        $f::<Vec<BitList<U9>>>($ctx); $f::<(BitVector<U9>, BitList<U8>)>($ctx); $f::<Option<BitVector<U4>>>($ctx);
        $f::<Vec<BitVector<U12>>>($ctx); $f::<Vec<BitVectorDynamic>>($ctx);
        // derived
        $f::<C0>($ctx); $f::<C1>($ctx); $f::<CF>($ctx); $f::<CF2>($ctx); $f::<CV>($ctx); $f::<CM>($ctx);
        $f::<CVV>($ctx); $f::<CSet>($ctx); $f::<CBB>($ctx); $f::<(Bytes, Bytes)>($ctx); $f::<Vec<(u8, u16)>>($ctx); $f::<Option<Bytes>>($ctx); $f::<CFVFV>($ctx); $f::<CVF>($ctx); $f::<CN>($ctx); $f::<CO>($ctx); $f::<CB>($ctx);
        $f::<CZ>($ctx); $f::<CT>($ctx); $f::<CArc>($ctx); $f::<CSix>($ctx); $f::<CNine>($ctx);
        $f::<Un1>($ctx); $f::<Un2>($ctx); $f::<Un3>($ctx); $f::<UnN>($ctx); $f::<Un127>($ctx); $f::<Un128>($ctx);
        $f::<Tag1>($ctx); $f::<Tag3>($ctx); $f::<Tag128>($ctx);
        $f::<Tr1>($ctx); $f::<Tr2>($ctx); $f::<Tr3>($ctx);
        $f::<TsV>($ctx); $f::<TsF>($ctx); $f::<TsC>($ctx);
    }};
}
