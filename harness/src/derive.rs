//! Groups `derive` and `legacy`: generated definitions with attributes (skipped fields, `with`
//! modules, transparent wrappers, generics) against the `Derive` model, and the legacy
//! four-byte-selector Option modules standalone.
use crate::codec::Ctx;
use crate::model::{hex, Model};
use ssz::{Decode, Encode};
use std::panic::{catch_unwind, AssertUnwindSafe};

pub trait DModel: Encode + Decode + Clone + PartialEq + std::fmt::Debug {
    fn name() -> &'static str;
    /// `Def` descriptor parsed by the Lean driver
    fn def_desc() -> String;
    /// skip_serializing and skip_deserializing coincide on every field (so a round trip is claimed)
    fn symmetric() -> bool;
    /// ALL fields, in declaration order
    fn to_val_all(&self) -> String;
    fn gen(g: &mut crate::rng::Rng, size: usize) -> Self;
    /// containers: the bytes a hand-driven `SszEncoder` produces from the same live fields (after a two-byte prefix)
    fn manual(&self) -> Option<Vec<u8>> {
        None
    }
}

pub fn run_derive<D: DModel>(ctx: &mut Ctx) {
    let d = D::def_desc();
    let name = D::name();
    let mut g = crate::rng::Rng::new(ctx.seed ^ name.bytes().fold(7u64, |h, b| (h ^ b as u64).wrapping_mul(0x100000001b3)));
    ctx.out.m("derive", "true", &["accepts", &d]);
    let s = |f: bool, l: usize| format!("{} {}", if f { "fixed" } else { "variable" }, l);
    let (ef, el) = (<D as Encode>::is_ssz_fixed_len(), <D as Encode>::ssz_fixed_len());
    let (df, dl) = (<D as Decode>::is_ssz_fixed_len(), <D as Decode>::ssz_fixed_len());
    ctx.out.m("derive", &s(ef, el), &["dmeta_enc", &d]);
    ctx.out.m("derive", &s(df, dl), &["dmeta_dec", &d]);
    if D::symmetric() {
        ctx.out.r("C07", "derive", ef == df && el == dl, &["meta_agree", "dmeta_enc", &d, name]);
        ctx.out.r("C08", "derive", ef == df && el == dl, &["meta_agree", "dmeta_enc", &d, name]);
    }
    let nv = if ctx.thorough { 120 } else { 16 };
    let mut inputs: Vec<Vec<u8>> = Vec::new();
    let mut seen_v = std::collections::HashSet::new();
    for i in 0..nv {
        let size = if i < 4 { i } else { 1 + g.below(4) };
        let v = D::gen(&mut g, size);
        let val = v.to_val_all();
        if !seen_v.insert(val.clone()) {
            continue;
        }
        crate::codec::abandon_encoder(i);
        let bytes = match catch_unwind(AssertUnwindSafe(|| v.as_ssz_bytes())) {
            Ok(b) => b,
            Err(_) => {
                ctx.out.m("derive", "panic", &["denc", &d, &val]);
                continue;
            }
        };
        let hx = hex(&bytes);
        ctx.out.m("derive", &hx, &["denc", &d, &val]);
        if d.starts_with("DEu") && val.starts_with('U') {
            // C15: a derived union writes the zero-based declaration index as its first byte
            let idx: Option<usize> = val[1..].split('(').next().and_then(|x| x.parse().ok());
            ctx.out.r("C15", "derive", idx.is_some() && bytes.first().map(|b| *b as usize) == idx, &["selector_is_declaration_index", "denc", &d, &val, name]);
        }
        ctx.out.o("C08", "derive", &hx, &["dspec", &d, &val]);
        ctx.out.o("C03", "derive", &hx, &["dspec", &d, &val]);
        if d.contains("LO(") {
            ctx.out.o("C17", "derive", &hx, &["dspec", &d, &val]);
        }
        ctx.out.r("C07", "derive", v.ssz_bytes_len() == bytes.len(), &["bytes_len", "denc", &d, &val, name]);
        ctx.out.r("C08", "derive", v.ssz_bytes_len() == bytes.len(), &["bytes_len", "denc", &d, &val, name]);
        if ef {
            ctx.out.r("C07", "derive", bytes.len() == el, &["fixed_len_exact", "denc", &d, &val, name]);
        }
        let mut buf = vec![0xAB];
        v.ssz_append(&mut buf);
        ctx.out.r("C10", "derive", buf[0] == 0xAB && buf[1..] == bytes[..], &["append_prefix", "denc", &d, &val, name]);
        if let Ok(Some(man)) = catch_unwind(AssertUnwindSafe(|| v.manual())) {
            ctx.out.r("C10", "derive", man == bytes, &["manual_encoder_with_the_same_fields", "denc", &d, &val, name]);
        }
        ctx.out.r("C10", "derive", ssz::ssz_encode(&v) == bytes && (&v).as_ssz_bytes() == bytes && std::sync::Arc::new(v.clone()).as_ssz_bytes() == bytes, &["entry_points_agree", "denc", &d, &val, name]);
        if d.contains("LO(") {
            ctx.out.r("C17", "derive", v.ssz_bytes_len() == bytes.len(), &["legacy_field_exact_size", "denc", &d, &val, name]);
        }
        if D::symmetric() {
            // round trip up to the skipped fields: decoding succeeds and re-encodes to the same bytes
            let back = catch_unwind(AssertUnwindSafe(|| D::from_ssz_bytes(&bytes)));
            let ok = matches!(&back, Ok(Ok(w)) if w.as_ssz_bytes() == bytes);
            ctx.out.r("C08", "derive", ok, &["roundtrip_mod_skipped", "ddec", &d, &hx, name]);
            ctx.out.r("C01", "derive", ok, &["roundtrip_mod_skipped", "ddec", &d, &hx, name]);
            if d.contains("LO(") {
                // the legacy option as a field codec inside derived containers (C17)
                ctx.out.r("C17", "derive", ok, &["legacy_field_roundtrip", "ddec", &d, &hx, name]);
            }
        }
        let muts = crate::codec::mutations(&mut g, &bytes, ctx.thorough);
        inputs.push(bytes);
        inputs.extend(muts);
    }
    for len in 0..=3usize {
        for x in [0u8, 1, 4, 255] {
            inputs.push(vec![x; len]);
        }
    }
    for _ in 0..(if ctx.thorough { 300 } else { 40 }) {
        let len = g.below(4 * dl + 6);
        inputs.push(g.bytes(len));
    }
    let mut seen = std::collections::HashSet::new();
    for b in inputs {
        if !seen.insert(b.clone()) {
            continue;
        }
        let hx = hex(&b);
        let r = catch_unwind(AssertUnwindSafe(|| D::from_ssz_bytes(&b)));
        let s = match &r {
            Ok(Ok(v)) => format!("ok {}", v.to_val_all()),
            Ok(Err(_)) => "err".to_string(),
            Err(_) => "panic".to_string(),
        };
        ctx.out.m("derive", &s, &["ddec", &d, &hx]);
        if D::symmetric() && !d.starts_with("DEt") {
            // the model's generated decoder is the reference deserializer of the definition's schema (C08, C04)
            ctx.out.o("C04", "derive", &s, &["ddec", &d, &hx]);
        }
        ctx.out.r("C05", "derive", r.is_ok(), &["no_panic", "ddec", &d, &hx, name]);
        if let Ok(Ok(v)) = &r {
            ctx.out.bump(&format!("derive.{}.ok", name));
            if D::symmetric() {
                ctx.out.r("C02", "derive", v.as_ssz_bytes() == b, &["canonical", "ddec", &d, &hx, name]);
                ctx.out.r("C08", "derive", v.as_ssz_bytes() == b, &["canonical", "ddec", &d, &hx, name]);
            }
            if df {
                ctx.out.r("C07", "derive", b.len() == dl, &["fixed_decode_len", "ddec", &d, &hx, name]);
            }
        } else {
            ctx.out.bump(&format!("derive.{}.err", name));
        }
    }
}

// ---------------------------------------------------------------------------------------------
// legacy four-byte option, standalone (module functions)

macro_rules! legacy_case {
    ($ctx:expr, $m:path, $inner:ty, $desc:expr) => {{
        use $m as m;
        let ctx: &mut Ctx = $ctx;
        let d: String = format!("LO({})", <$inner as Model>::desc());
        assert_eq!(d, $desc);
        let mut g = crate::rng::Rng::new(ctx.seed ^ 0x1e6a);
        ctx.out.m("legacy", &format!("{} {}", if m::encode::is_ssz_fixed_len() { "fixed" } else { "variable" }, m::encode::ssz_fixed_len()), &["meta", &d]);
        ctx.out.m("legacy", &format!("{} {}", if m::decode::is_ssz_fixed_len() { "fixed" } else { "variable" }, m::decode::ssz_fixed_len()), &["meta", &d]);
        let mut inputs: Vec<Vec<u8>> = Vec::new();
        let nv = if ctx.thorough { 80 } else { 12 };
        for i in 0..nv {
            let v: Option<$inner> = if i == 0 { None } else { Some(<$inner as Model>::gen(&mut g, 1 + i % 4)) };
            let val = v.to_val();
            let bytes = m::encode::as_ssz_bytes(&v);
            let hx = hex(&bytes);
            ctx.out.m("legacy", &hx, &["enc", &d, &val]);
            ctx.out.o("C17", "legacy", &hx, &["spec", &d, &val]);
            let mut buf = vec![7u8];
            m::encode::ssz_append(&v, &mut buf);
            ctx.out.r("C17", "legacy", buf[0] == 7 && buf[1..] == bytes[..], &["append_equals_as_ssz_bytes", "enc", &d, &val]);
            ctx.out.r("C17", "legacy", m::encode::ssz_bytes_len(&v) == bytes.len(), &["exact_size", "len", &d, &val]);
            ctx.out.m("legacy", &m::encode::ssz_bytes_len(&v).to_string(), &["len", &d, &val]);
            let want: Vec<u8> = match &v {
                None => vec![0, 0, 0, 0],
                Some(x) => {
                    let mut w = vec![1, 0, 0, 0];
                    w.extend(x.as_ssz_bytes());
                    w
                }
            };
            ctx.out.r("C17", "legacy", bytes == want, &["selector_then_payload", "enc", &d, &val]);
            let back = catch_unwind(AssertUnwindSafe(|| m::decode::from_ssz_bytes(&bytes)));
            ctx.out.r("C17", "legacy", matches!(&back, Ok(Ok(w)) if *w == v), &["roundtrip", "dec", &d, &hx]);
            let muts = crate::codec::mutations(&mut g, &bytes, ctx.thorough);
            inputs.push(bytes);
            inputs.extend(muts);
        }
        for len in 0..=5usize {
            for x in [0u8, 1, 2, 255] {
                inputs.push(vec![x; len]);
                let mut v = vec![0u8; len];
                if len > 0 {
                    v[0] = x;
                }
                inputs.push(v);
            }
        }
        for sel in [0u32, 1, 2, 3, 255, 256, 257, 1 << 8, 1 << 16, 1 << 24, (1 << 24) + 1, u32::MAX] {
            for tail in [vec![], vec![0u8], vec![1, 0], vec![255, 255], vec![4, 0, 0, 0]] {
                let mut v = sel.to_le_bytes().to_vec();
                v.extend(tail);
                inputs.push(v);
            }
        }
        let mut seen = std::collections::HashSet::new();
        for b in inputs {
            if !seen.insert(b.clone()) {
                continue;
            }
            let hx = hex(&b);
            let r = catch_unwind(AssertUnwindSafe(|| m::decode::from_ssz_bytes(&b)));
            let s = match &r {
                Ok(Ok(v)) => format!("ok {}", v.to_val()),
                Ok(Err(_)) => "err".to_string(),
                Err(_) => "panic".to_string(),
            };
            ctx.out.m("legacy", &s, &["dec", &d, &hx]);
            ctx.out.r("C05", "legacy", r.is_ok(), &["no_panic", "dec", &d, &hx]);
            ctx.out.r("C17", "legacy", r.is_ok(), &["no_panic", "dec", &d, &hx]);
            match &r {
                Ok(Ok(v)) => {
                    // strict: accepts no byte string other than the encoding of the value it returns
                    ctx.out.r("C17", "legacy", m::encode::as_ssz_bytes(v) == b, &["strict", "dec", &d, &hx]);
                    ctx.out.r("C02", "legacy", m::encode::as_ssz_bytes(v) == b, &["canonical", "dec", &d, &hx]);
                }
                _ => {}
            }
            if b.len() < 4 {
                ctx.out.r("C17", "legacy", matches!(r, Ok(Err(_))), &["short_input_rejected", "dec", &d, &hx]);
            } else {
                let sel = u32::from_le_bytes([b[0], b[1], b[2], b[3]]);
                if sel > 1 {
                    ctx.out.r("C17", "legacy", matches!(r, Ok(Err(_))), &["selector_rejected", "dec", &d, &hx]);
                }
            }
        }
    }};
}

type VecU16 = Vec<u16>;
ssz::four_byte_option_impl!(sa_leg_u16, u16);
ssz::four_byte_option_impl!(sa_leg_vec_u16, VecU16);

pub fn run_legacy(ctx: &mut Ctx) {
    legacy_case!(ctx, self::sa_leg_u16, u16, "LO(U2)");
    legacy_case!(ctx, self::sa_leg_vec_u16, Vec<u16>, "LO(L(U2))");
    // the public selector helpers of the legacy module: the 32-bit little-endian word
    let mut ns: Vec<usize> = vec![0, 1, 2, 3, 127, 128, 255, 256, 257, 65535, 65536, 65537, (1 << 24) - 1, 1 << 24, (1 << 24) + 1, u32::MAX as usize - 1, u32::MAX as usize];
    for _ in 0..200 {
        ns.push(ctx.rng.next() as u32 as usize);
    }
    for n in ns {
        let r = catch_unwind(|| ssz::legacy::encode_four_byte_union_selector(n));
        let le = (n as u32).to_le_bytes();
        ctx.out.r("C17", "legacy", matches!(&r, Ok(b) if *b == le), &["selector_is_32_bit_little_endian", "legacy-selector", &n.to_string()]);
        let back = catch_unwind(|| ssz::legacy::read_four_byte_union_selector(&le));
        ctx.out.r("C17", "legacy", matches!(&back, Ok(Ok(m)) if *m == n), &["selector_read_back", "legacy-selector", &n.to_string()]);
    }
    for b in [vec![], vec![0u8], vec![1, 0], vec![1, 0, 0], vec![1, 0, 0, 0, 0], vec![1, 0, 0, 0, 9, 9]] {
        let r = catch_unwind(|| ssz::legacy::read_four_byte_union_selector(&b));
        let want_ok = b.len() >= 4;
        ctx.out.r("C17", "legacy", matches!(&r, Ok(x) if x.is_ok() == want_ok && (!want_ok || *x == Ok(1))), &["selector_needs_four_bytes", "legacy-selector", &crate::model::hex(&b)]);
    }
}


// definitions that can only derive `Encode` (borrowed fields, a lifetime parameter, a where clause): their encoding
// must be the one of the owned twin, whose codec the model covers
#[derive(ssz_derive::Encode)]
pub struct BorrowedS<'a, T: Encode> where T: Clone { pub a: &'a u16, pub v: &'a Vec<T>, pub w: &'a [u8; 2], pub o: Option<&'a u8> }
#[derive(ssz_derive::Encode, ssz_derive::Decode, Clone, PartialEq, Debug)]
pub struct OwnedS<T: Encode + Decode> { pub a: u16, pub v: Vec<T>, pub w: [u8; 2], pub o: Option<u8> }
#[derive(ssz_derive::Encode)]
#[ssz(enum_behaviour = "union")]
pub enum BorrowedU<'a> { A(&'a u8), B(&'a Vec<u16>), C(&'a BorrowedS<'a, u8>) }
#[derive(ssz_derive::Encode)]
#[ssz(enum_behaviour = "transparent")]
pub enum BorrowedT<'a> { A(&'a Vec<u8>), B(&'a Vec<u16>) }
#[derive(ssz_derive::Encode)]
#[ssz(struct_behaviour = "transparent")]
pub struct BorrowedW<'a>(pub &'a Vec<u16>);

pub fn run_derive_borrowed(ctx: &mut Ctx) {
    let mut g = crate::rng::Rng::new(ctx.seed ^ 0xb0440);
    for case in 0..(if ctx.thorough { 300 } else { 50 }) {
        let size = case % 4;
        let a = u16::gen(&mut g, size);
        let v8 = Vec::<u8>::gen(&mut g, size);
        let v16 = Vec::<u16>::gen(&mut g, size);
        let w = <[u8; 2]>::gen(&mut g, size);
        let o = Option::<u8>::gen(&mut g, size);
        let tag = case.to_string();
        let b = BorrowedS { a: &a, v: &v8, w: &w, o: o.as_ref() };
        let own = OwnedS { a, v: v8.clone(), w, o };
        let same = |x: &dyn Fn() -> (Vec<u8>, usize), y: &dyn Fn() -> (Vec<u8>, usize)| -> bool {
            match (catch_unwind(AssertUnwindSafe(x)), catch_unwind(AssertUnwindSafe(y))) {
                (Ok((e1, l1)), Ok((e2, l2))) => e1 == e2 && l1 == e1.len() && l2 == e2.len(),
                _ => false,
            }
        };
        let ok = same(&|| (b.as_ssz_bytes(), b.ssz_bytes_len()), &|| (own.as_ssz_bytes(), own.ssz_bytes_len()))
            && <BorrowedS<u8> as Encode>::is_ssz_fixed_len() == <OwnedS<u8> as Encode>::is_ssz_fixed_len()
            && <BorrowedS<u8> as Encode>::ssz_fixed_len() == <OwnedS<u8> as Encode>::ssz_fixed_len();
        ctx.out.r("C08", "derive", ok, &["borrowed_container_encodes_as_owned", "derive-borrowed", &tag]);
        ctx.out.r("C10", "derive", ok, &["borrowed_container_encodes_as_owned", "derive-borrowed", &tag]);
        // and the owned twin is an ordinary container the tuple codec agrees with
        let tup = (a, v8.clone(), w, o);
        ctx.out.r("C08", "derive", own.as_ssz_bytes() == tup.as_ssz_bytes() && OwnedS::<u8>::from_ssz_bytes(&tup.as_ssz_bytes()).ok() == Some(own.clone()), &["owned_container_encodes_as_tuple", "derive-borrowed", &tag]);
        let b16 = BorrowedS { a: &a, v: &v16, w: &w, o: o.as_ref() };
        let tup16 = (a, v16.clone(), w, o);
        ctx.out.r("C08", "derive", same(&|| (b16.as_ssz_bytes(), b16.ssz_bytes_len()), &|| (tup16.as_ssz_bytes(), tup16.ssz_bytes_len())), &["borrowed_container_second_instantiation", "derive-borrowed", &tag]);
        let x8 = u8::gen(&mut g, size);
        for (k, u) in [BorrowedU::A(&x8), BorrowedU::B(&v16), BorrowedU::C(&b)].iter().enumerate() {
            let inner: Vec<u8> = match k { 0 => x8.as_ssz_bytes(), 1 => v16.as_ssz_bytes(), _ => own.as_ssz_bytes() };
            let mut want = vec![k as u8];
            want.extend_from_slice(&inner);
            let got = catch_unwind(AssertUnwindSafe(|| (u.as_ssz_bytes(), u.ssz_bytes_len())));
            let ok = matches!(&got, Ok((e, l)) if *e == want && *l == want.len());
            ctx.out.r("C08", "derive", ok, &["borrowed_union_selector_and_body", "derive-borrowed", &tag, &k.to_string()]);
            ctx.out.r("C15", "derive", ok, &["borrowed_union_selector_and_body", "derive-borrowed", &tag, &k.to_string()]);
        }
        let t1 = BorrowedT::A(&v8);
        let t2 = BorrowedT::B(&v16);
        ctx.out.r("C08", "derive", t1.as_ssz_bytes() == v8.as_ssz_bytes() && t2.as_ssz_bytes() == v16.as_ssz_bytes() && t1.ssz_bytes_len() == v8.ssz_bytes_len() && t2.ssz_bytes_len() == v16.ssz_bytes_len(), &["borrowed_transparent_enum_is_inner", "derive-borrowed", &tag]);
        let wv = BorrowedW(&v16);
        ctx.out.r("C08", "derive", wv.as_ssz_bytes() == v16.as_ssz_bytes() && wv.ssz_bytes_len() == v16.ssz_bytes_len() && !<BorrowedW as Encode>::is_ssz_fixed_len(), &["borrowed_transparent_struct_is_inner", "derive-borrowed", &tag]);
    }
}
