//! `Model`: the glue between a Rust type of the catalogue and the Lean model — its type
//! descriptor, the text form of its values, and a generator of values.
use crate::rng::Rng;
use alloy_primitives::{Address, Bloom, Bytes, FixedBytes, U128, U256};
use smallvec::SmallVec;
use ssz::{BitList, BitVector, BitVectorDynamic, Decode, Encode};
use std::collections::{BTreeMap, BTreeSet};
use std::num::NonZeroUsize;
use std::sync::Arc;
use typenum::Unsigned;

pub fn hex(b: &[u8]) -> String {
    let mut s = String::with_capacity(b.len() * 2);
    for x in b {
        s.push_str(&format!("{:02x}", x));
    }
    s
}

pub fn unhex(s: &str) -> Vec<u8> {
    (0..s.len() / 2)
        .map(|i| u8::from_str_radix(&s[2 * i..2 * i + 2], 16).unwrap())
        .collect()
}

pub trait Model: Encode + Decode + Clone + PartialEq + std::fmt::Debug {
    /// type descriptor understood by the Lean driver
    fn desc() -> String;
    /// value in the driver's value syntax
    fn to_val(&self) -> String;
    /// size-biased generator; `size` bounds collection lengths and nesting
    fn gen(g: &mut Rng, size: usize) -> Self;
    /// C02 is claimed for this type (no ordered set/map or transparent enum inside)
    fn strict() -> bool {
        true
    }
    /// C01 is claimed for this type (no transparent enum, no list of zero-length items inside)
    fn roundtrip() -> bool {
        true
    }
    /// a few LARGE values (encodings beyond 64 KiB): offsets that need more than two bytes, long chunked
    /// inputs. Empty for types that have none
    fn big_values(_g: &mut Rng) -> Vec<Self> {
        Vec::new()
    }
    /// can the Lean model evaluate this type's large values in reasonable time? (only byte strings: the
    /// model appends list items one by one, which is quadratic for tens of thousands of items)
    fn big_model_ok() -> bool {
        false
    }
    /// for sequences of fixed-size items: is the encoding the plain concatenation of the items' own
    /// standalone encodings? `None` for other types
    fn concat_oracle(&self) -> Option<bool> {
        None
    }
    /// for union-like types (derived unions, Option): the number of declared variants
    fn union_variants() -> Option<usize> {
        None
    }
    /// for ordered collections: does decoding `b` equal "decode the plain entry list, then collect"
    /// (later duplicate key wins)? `None` for other types
    fn collection_oracle(_b: &[u8]) -> Option<bool> {
        None
    }
    /// sum of `size_of` over this type and the types nested in it (for the allocation monitor)
    fn alloc_coeff() -> usize {
        std::mem::size_of::<Self>()
    }
    /// name of the Rust type (for reports)
    fn rust_name() -> String {
        std::any::type_name::<Self>().replace("ssz_verif_harness::", "").replace("alloc::", "")
    }
}

macro_rules! impl_uint {
    ($t:ident, $bytes:expr) => {
        impl Model for $t {
            fn desc() -> String {
                format!("U{}", $bytes)
            }
            fn to_val(&self) -> String {
                format!("{}", self)
            }
            fn gen(g: &mut Rng, _size: usize) -> Self {
                match g.below(6) {
                    0 => 0,
                    1 => 1,
                    2 => $t::MAX,
                    3 => $t::MAX - 1,
                    4 => (g.next() as $t) & 0xff,
                    _ => {
                        let mut x: u128 = g.next() as u128;
                        x = (x << 64) | g.next() as u128;
                        x as $t
                    }
                }
            }
        }
    };
}
impl_uint!(u8, 1);
impl_uint!(u16, 2);
impl_uint!(u32, 4);
impl_uint!(u64, 8);
impl_uint!(u128, 16);
impl_uint!(usize, 8);

impl Model for U128 {
    fn desc() -> String {
        "U16".into()
    }
    fn to_val(&self) -> String {
        format!("{}", self)
    }
    fn gen(g: &mut Rng, size: usize) -> Self {
        U128::from(u128::gen(g, size))
    }
}

impl Model for U256 {
    fn desc() -> String {
        "U32".into()
    }
    fn to_val(&self) -> String {
        format!("{}", self)
    }
    fn gen(g: &mut Rng, _size: usize) -> Self {
        match g.below(5) {
            0 => U256::ZERO,
            1 => U256::from(1u8),
            2 => U256::MAX,
            3 => U256::from(g.next()),
            _ => {
                let b: Vec<u8> = (0..32).map(|_| g.next() as u8).collect();
                U256::from_le_slice(&b)
            }
        }
    }
}

impl Model for bool {
    fn desc() -> String {
        "B".into()
    }
    fn to_val(&self) -> String {
        if *self { "t".into() } else { "f".into() }
    }
    fn gen(g: &mut Rng, _size: usize) -> Self {
        g.bool()
    }
}

impl Model for NonZeroUsize {
    fn desc() -> String {
        "NZ".into()
    }
    fn to_val(&self) -> String {
        format!("{}", self.get())
    }
    fn gen(g: &mut Rng, size: usize) -> Self {
        NonZeroUsize::new(usize::gen(g, size).max(1)).unwrap()
    }
}

impl<const N: usize> Model for [u8; N] {
    fn desc() -> String {
        format!("X{}", N)
    }
    fn to_val(&self) -> String {
        format!("x{}", hex(&self[..]))
    }
    fn gen(g: &mut Rng, _size: usize) -> Self {
        let mut a = [0u8; N];
        for x in a.iter_mut() {
            *x = g.byte();
        }
        a
    }
}

impl<const N: usize> Model for FixedBytes<N> {
    fn desc() -> String {
        format!("X{}", N)
    }
    fn to_val(&self) -> String {
        format!("x{}", hex(&self.0))
    }
    fn gen(g: &mut Rng, size: usize) -> Self {
        FixedBytes(<[u8; N]>::gen(g, size))
    }
}

impl Model for Address {
    fn desc() -> String {
        "X20".into()
    }
    fn to_val(&self) -> String {
        format!("x{}", hex(self.as_slice()))
    }
    fn gen(g: &mut Rng, size: usize) -> Self {
        Address::from(<[u8; 20]>::gen(g, size))
    }
}

impl Model for Bloom {
    fn desc() -> String {
        "X256".into()
    }
    fn to_val(&self) -> String {
        format!("x{}", hex(self.as_slice()))
    }
    fn gen(g: &mut Rng, size: usize) -> Self {
        Bloom::from(<[u8; 256]>::gen(g, size))
    }
}

impl Model for Bytes {
    fn big_model_ok() -> bool {
        true
    }
    fn big_values(g: &mut Rng) -> Vec<Self> {
        vec![Bytes::from(g.bytes(65536)), Bytes::from(g.bytes(70001))]
    }
    fn desc() -> String {
        "XL".into()
    }
    fn to_val(&self) -> String {
        format!("x{}", hex(&self.0))
    }
    fn gen(g: &mut Rng, size: usize) -> Self {
        let n = g.below(size * 3 + 1);
        Bytes::from(g.bytes(n))
    }
}

fn gen_len(g: &mut Rng, size: usize) -> usize {
    match g.below(4) {
        0 => 0,
        1 => 1,
        _ => g.below(size + 1),
    }
}

impl<T: Model> Model for Vec<T> {
    fn concat_oracle(&self) -> Option<bool> {
        if <T as Encode>::is_ssz_fixed_len() {
            let mut want = Vec::new();
            for x in self.iter() {
                want.extend(x.as_ssz_bytes());
            }
            Some(self.as_ssz_bytes() == want)
        } else {
            None
        }
    }
    fn big_model_ok() -> bool {
        // thousands of small variable-size items are fine for the model; tens of thousands of fixed ones are not
        !<T as Encode>::is_ssz_fixed_len()
    }
    fn big_values(g: &mut Rng) -> Vec<Self> {
        let fl = <T as Encode>::ssz_fixed_len();
        if <T as Encode>::is_ssz_fixed_len() {
            if fl >= 1 && fl <= 64 {
                // just past 64 KiB and just past 128 KiB of encoded items
                [65536 / fl + 3, 131072 / fl + 1].iter().map(|n| (0..*n).map(|_| T::gen(g, 0)).collect()).collect()
            } else {
                Vec::new()
            }
        } else {
            // more variable-size items than any plausible internal cap (4096) and an offset table beyond 16 KiB
            [4100usize, 5003].iter().map(|n| (0..*n).map(|_| T::gen(g, 0)).collect()).collect()
        }
    }
    fn alloc_coeff() -> usize {
        std::mem::size_of::<Self>() + T::alloc_coeff()
    }
    fn strict() -> bool {
        T::strict()
    }
    fn roundtrip() -> bool {
        T::roundtrip() && !(<T as Encode>::is_ssz_fixed_len() && <T as Encode>::ssz_fixed_len() == 0)
    }
    fn desc() -> String {
        format!("L({})", T::desc())
    }
    fn to_val(&self) -> String {
        format!("[{}]", self.iter().map(|x| x.to_val()).collect::<Vec<_>>().join(","))
    }
    fn gen(g: &mut Rng, size: usize) -> Self {
        let n = gen_len(g, size);
        (0..n).map(|_| T::gen(g, size.saturating_sub(1))).collect()
    }
}

impl<T: Model, const N: usize> Model for SmallVec<[T; N]> {
    fn concat_oracle(&self) -> Option<bool> {
        if <T as Encode>::is_ssz_fixed_len() {
            let mut want = Vec::new();
            for x in self.iter() {
                want.extend(x.as_ssz_bytes());
            }
            Some(self.as_ssz_bytes() == want)
        } else {
            None
        }
    }
    fn big_model_ok() -> bool {
        // thousands of small variable-size items are fine for the model; tens of thousands of fixed ones are not
        !<T as Encode>::is_ssz_fixed_len()
    }
    fn big_values(g: &mut Rng) -> Vec<Self> {
        let fl = <T as Encode>::ssz_fixed_len();
        if <T as Encode>::is_ssz_fixed_len() {
            if fl >= 1 && fl <= 64 {
                // just past 64 KiB and just past 128 KiB of encoded items
                [65536 / fl + 3, 131072 / fl + 1].iter().map(|n| (0..*n).map(|_| T::gen(g, 0)).collect()).collect()
            } else {
                Vec::new()
            }
        } else {
            // more variable-size items than any plausible internal cap (4096) and an offset table beyond 16 KiB
            [4100usize, 5003].iter().map(|n| (0..*n).map(|_| T::gen(g, 0)).collect()).collect()
        }
    }
    fn alloc_coeff() -> usize {
        std::mem::size_of::<Self>() + T::alloc_coeff()
    }
    fn strict() -> bool {
        T::strict()
    }
    fn roundtrip() -> bool {
        T::roundtrip() && !(<T as Encode>::is_ssz_fixed_len() && <T as Encode>::ssz_fixed_len() == 0)
    }
    fn desc() -> String {
        format!("L({})", T::desc())
    }
    fn to_val(&self) -> String {
        format!("[{}]", self.iter().map(|x| x.to_val()).collect::<Vec<_>>().join(","))
    }
    fn gen(g: &mut Rng, size: usize) -> Self {
        let n = gen_len(g, size);
        (0..n).map(|_| T::gen(g, size.saturating_sub(1))).collect()
    }
}

impl<T: Model + Ord> Model for BTreeSet<T> {
    fn concat_oracle(&self) -> Option<bool> {
        if <T as Encode>::is_ssz_fixed_len() {
            let mut want = Vec::new();
            for x in self.iter() {
                want.extend(x.as_ssz_bytes());
            }
            Some(self.as_ssz_bytes() == want)
        } else {
            None
        }
    }
    fn big_model_ok() -> bool {
        // thousands of small variable-size items are fine for the model; tens of thousands of fixed ones are not
        !<T as Encode>::is_ssz_fixed_len()
    }
    fn big_values(g: &mut Rng) -> Vec<Self> {
        let fl = <T as Encode>::ssz_fixed_len();
        if <T as Encode>::is_ssz_fixed_len() {
            if fl >= 1 && fl <= 64 {
                // just past 64 KiB and just past 128 KiB of encoded items
                [65536 / fl + 3, 131072 / fl + 1].iter().map(|n| (0..*n).map(|_| T::gen(g, 0)).collect()).collect()
            } else {
                Vec::new()
            }
        } else {
            // more variable-size items than any plausible internal cap (4096) and an offset table beyond 16 KiB
            [4100usize, 5003].iter().map(|n| (0..*n).map(|_| T::gen(g, 0)).collect()).collect()
        }
    }
    fn collection_oracle(b: &[u8]) -> Option<bool> {
        let plain = <Vec<T> as Decode>::from_ssz_bytes(b);
        let got = <Self as Decode>::from_ssz_bytes(b);
        Some(match (plain, got) {
            (Ok(l), Ok(s)) => l.into_iter().collect::<BTreeSet<T>>() == s,
            (Err(_), Err(_)) => true,
            _ => false,
        })
    }
    fn alloc_coeff() -> usize {
        std::mem::size_of::<Self>() + T::alloc_coeff()
    }
    fn strict() -> bool {
        false
    }
    fn roundtrip() -> bool {
        T::roundtrip() && !(<T as Encode>::is_ssz_fixed_len() && <T as Encode>::ssz_fixed_len() == 0)
    }
    fn desc() -> String {
        format!("S({})", T::desc())
    }
    fn to_val(&self) -> String {
        format!("[{}]", self.iter().map(|x| x.to_val()).collect::<Vec<_>>().join(","))
    }
    fn gen(g: &mut Rng, size: usize) -> Self {
        let n = gen_len(g, size);
        (0..n).map(|_| T::gen(g, size.saturating_sub(1))).collect()
    }
}

impl<K: Model + Ord, V: Model> Model for BTreeMap<K, V> {
    fn big_values(g: &mut Rng) -> Vec<Self> {
        let fl = <(K, V) as Encode>::ssz_fixed_len();
        if <(K, V) as Encode>::is_ssz_fixed_len() && fl >= 1 && fl <= 64 {
            vec![(0..65536 / fl + 3).map(|_| (K::gen(g, 0), V::gen(g, 0))).collect()]
        } else {
            Vec::new()
        }
    }
    fn collection_oracle(b: &[u8]) -> Option<bool> {
        let plain = <Vec<(K, V)> as Decode>::from_ssz_bytes(b);
        let got = <Self as Decode>::from_ssz_bytes(b);
        Some(match (plain, got) {
            (Ok(l), Ok(m)) => {
                let mut want = BTreeMap::new();
                for (k, v) in l {
                    want.insert(k, v); // a later duplicate key replaces an earlier one
                }
                want == m
            }
            (Err(_), Err(_)) => true,
            _ => false,
        })
    }
    fn alloc_coeff() -> usize {
        std::mem::size_of::<Self>() + K::alloc_coeff() + V::alloc_coeff()
    }
    fn strict() -> bool {
        false
    }
    fn roundtrip() -> bool {
        K::roundtrip() && V::roundtrip()
            && !(<(K, V) as Encode>::is_ssz_fixed_len() && <(K, V) as Encode>::ssz_fixed_len() == 0)
    }
    fn desc() -> String {
        format!("M({},{})", K::desc(), V::desc())
    }
    fn to_val(&self) -> String {
        format!(
            "[{}]",
            self.iter()
                .map(|(k, v)| format!("({},{})", k.to_val(), v.to_val()))
                .collect::<Vec<_>>()
                .join(",")
        )
    }
    fn gen(g: &mut Rng, size: usize) -> Self {
        let n = gen_len(g, size);
        (0..n)
            .map(|_| (K::gen(g, size.saturating_sub(1)), V::gen(g, size.saturating_sub(1))))
            .collect()
    }
}

impl<T: Model> Model for Option<T> {
    fn union_variants() -> Option<usize> {
        Some(2)
    }
    fn big_model_ok() -> bool {
        T::big_model_ok()
    }
    fn big_values(g: &mut Rng) -> Vec<Self> {
        T::big_values(g).into_iter().take(1).map(Some).collect()
    }
    fn alloc_coeff() -> usize {
        std::mem::size_of::<Self>() + T::alloc_coeff()
    }
    fn strict() -> bool {
        T::strict()
    }
    fn roundtrip() -> bool {
        T::roundtrip()
    }
    fn desc() -> String {
        format!("O({})", T::desc())
    }
    fn to_val(&self) -> String {
        match self {
            None => "N".into(),
            Some(x) => format!("S({})", x.to_val()),
        }
    }
    fn gen(g: &mut Rng, size: usize) -> Self {
        if g.below(3) == 0 {
            None
        } else {
            Some(T::gen(g, size))
        }
    }
}

impl<T: Model> Model for Arc<T> {
    fn alloc_coeff() -> usize {
        std::mem::size_of::<Self>() + T::alloc_coeff()
    }
    fn strict() -> bool {
        T::strict()
    }
    fn roundtrip() -> bool {
        T::roundtrip()
    }
    fn desc() -> String {
        T::desc()
    }
    fn to_val(&self) -> String {
        self.as_ref().to_val()
    }
    fn gen(g: &mut Rng, size: usize) -> Self {
        Arc::new(T::gen(g, size))
    }
}

macro_rules! impl_tuple {
    ($(($idx:tt) -> $T:ident),+) => {
        impl<$($T: Model),+> Model for ($($T,)+) {
            fn big_model_ok() -> bool {
                true $(&& (<$T as Model>::big_model_ok() || <$T as Model>::big_values(&mut Rng::new(1)).is_empty()))+
            }
            fn big_values(g: &mut Rng) -> Vec<Self> {
                // every component that has large values carries one at the same time
                if false $(|| !<$T as Model>::big_values(&mut g.clone()).is_empty())+ {
                    vec![($($crate::model::big_or_gen::<$T>(g),)+)]
                } else {
                    Vec::new()
                }
            }
            fn alloc_coeff() -> usize {
                std::mem::size_of::<Self>() $(+ $T::alloc_coeff())+
            }
            fn strict() -> bool {
                true $(&& $T::strict())+
            }
            fn roundtrip() -> bool {
                true $(&& $T::roundtrip())+
            }
            fn desc() -> String {
                format!("T({})", vec![$($T::desc()),+].join(","))
            }
            fn to_val(&self) -> String {
                format!("({})", vec![$(self.$idx.to_val()),+].join(","))
            }
            fn gen(g: &mut Rng, size: usize) -> Self {
                ($($T::gen(g, size),)+)
            }
        }
    };
}
impl_tuple!((0) -> A, (1) -> B);
impl_tuple!((0) -> A, (1) -> B, (2) -> C);
impl_tuple!((0) -> A, (1) -> B, (2) -> C, (3) -> D);
impl_tuple!((0) -> A, (1) -> B, (2) -> C, (3) -> D, (4) -> E);
impl_tuple!((0) -> A, (1) -> B, (2) -> C, (3) -> D, (4) -> E, (5) -> F);
impl_tuple!((0) -> A, (1) -> B, (2) -> C, (3) -> D, (4) -> E, (5) -> F, (6) -> G);
impl_tuple!((0) -> A, (1) -> B, (2) -> C, (3) -> D, (4) -> E, (5) -> F, (6) -> G, (7) -> H);
impl_tuple!((0) -> A, (1) -> B, (2) -> C, (3) -> D, (4) -> E, (5) -> F, (6) -> G, (7) -> H, (8) -> I);
impl_tuple!((0) -> A, (1) -> B, (2) -> C, (3) -> D, (4) -> E, (5) -> F, (6) -> G, (7) -> H, (8) -> I, (9) -> J);
impl_tuple!((0) -> A, (1) -> B, (2) -> C, (3) -> D, (4) -> E, (5) -> F, (6) -> G, (7) -> H, (8) -> I, (9) -> J, (10) -> K);
impl_tuple!((0) -> A, (1) -> B, (2) -> C, (3) -> D, (4) -> E, (5) -> F, (6) -> G, (7) -> H, (8) -> I, (9) -> J, (10) -> K, (11) -> L);

pub fn big_or_gen<T: Model>(g: &mut Rng) -> T {
    let mut b = T::big_values(g);
    if b.is_empty() {
        T::gen(g, 1)
    } else {
        b.swap_remove(0)
    }
}

pub fn bits_str<I: Iterator<Item = bool>>(it: I) -> String {
    let mut s = String::from("b");
    for b in it {
        s.push(if b { '1' } else { '0' });
    }
    s
}

fn gen_bits(g: &mut Rng, n: usize) -> Vec<bool> {
    match g.below(4) {
        0 => vec![false; n],
        1 => vec![true; n],
        2 => (0..n).map(|i| i + 1 == n || i == 0).collect(),
        _ => (0..n).map(|_| g.bool()).collect(),
    }
}

impl<N: Unsigned + Clone + std::fmt::Debug + PartialEq> Model for BitList<N> {
    fn desc() -> String {
        format!("BL{}", N::to_usize())
    }
    fn to_val(&self) -> String {
        bits_str(self.iter())
    }
    fn gen(g: &mut Rng, _size: usize) -> Self {
        let cap = N::to_usize();
        let len = match g.below(5) {
            0 => 0,
            1 => cap,
            2 => cap.saturating_sub(1),
            3 => cap.min(8 * (1 + g.below(cap / 8 + 1))),
            _ => g.below(cap + 1),
        };
        let mut b = BitList::<N>::with_capacity(len).unwrap();
        for (i, v) in gen_bits(g, len).into_iter().enumerate() {
            b.set(i, v).unwrap();
        }
        b
    }
}

impl<N: Unsigned + Clone + std::fmt::Debug + PartialEq> Model for BitVector<N> {
    fn desc() -> String {
        format!("BV{}", N::to_usize())
    }
    fn to_val(&self) -> String {
        bits_str(self.iter())
    }
    fn gen(g: &mut Rng, _size: usize) -> Self {
        let mut b = BitVector::<N>::new();
        for (i, v) in gen_bits(g, N::to_usize()).into_iter().enumerate() {
            b.set(i, v).unwrap();
        }
        b
    }
}

impl Model for BitVectorDynamic {
    fn desc() -> String {
        "BD".into()
    }
    fn to_val(&self) -> String {
        bits_str(self.iter())
    }
    fn gen(g: &mut Rng, size: usize) -> Self {
        let len = 8 * (1 + g.below(size + 2));
        let mut b = BitVectorDynamic::new(len).unwrap();
        for (i, v) in gen_bits(g, len).into_iter().enumerate() {
            b.set(i, v).unwrap();
        }
        b
    }
}

/// Derived container with plain fields.
#[macro_export]
macro_rules! container {
    ($name:ident { $($f:ident : $t:ty),* $(,)? }) => {
        #[derive(ssz_derive::Encode, ssz_derive::Decode, Clone, PartialEq, Debug)]
        pub struct $name { $(pub $f: $t),* }
        impl $crate::model::Model for $name {
            fn desc() -> String {
                let v: Vec<String> = vec![$(<$t as $crate::model::Model>::desc()),*];
                format!("C({})", v.join(","))
            }
            fn alloc_coeff() -> usize {
                std::mem::size_of::<Self>() $(+ <$t as $crate::model::Model>::alloc_coeff())*
            }
            fn big_model_ok() -> bool {
                true $(&& (<$t as $crate::model::Model>::big_model_ok() || <$t as $crate::model::Model>::big_values(&mut $crate::rng::Rng::new(1)).is_empty()))*
            }
            #[allow(unused_variables)]
            fn big_values(g: &mut $crate::rng::Rng) -> Vec<Self> {
                if false $(|| !<$t as $crate::model::Model>::big_values(&mut g.clone()).is_empty())* {
                    vec![$name { $($f: $crate::model::big_or_gen::<$t>(g)),* }]
                } else {
                    Vec::new()
                }
            }
            fn strict() -> bool {
                true $(&& <$t as $crate::model::Model>::strict())*
            }
            fn roundtrip() -> bool {
                true $(&& <$t as $crate::model::Model>::roundtrip())*
            }
            fn to_val(&self) -> String {
                let v: Vec<String> = vec![$($crate::model::Model::to_val(&self.$f)),*];
                format!("({})", v.join(","))
            }
            #[allow(unused_variables)]
            fn gen(g: &mut $crate::rng::Rng, size: usize) -> Self {
                $name { $($f: <$t as $crate::model::Model>::gen(g, size)),* }
            }
        }
    };
}

/// Derived union enum.
#[macro_export]
macro_rules! union_enum {
    ($name:ident { $($v:ident($t:ty) = $i:expr),+ $(,)? }) => {
        #[derive(ssz_derive::Encode, ssz_derive::Decode, Clone, PartialEq, Debug)]
        #[ssz(enum_behaviour = "union")]
        pub enum $name { $($v($t)),+ }
        impl $crate::model::Model for $name {
            fn desc() -> String {
                let v: Vec<String> = vec![$(<$t as $crate::model::Model>::desc()),+];
                format!("N({})", v.join(","))
            }
            fn union_variants() -> Option<usize> {
                Some([$($i),+].len())
            }
            fn alloc_coeff() -> usize {
                std::mem::size_of::<Self>() $(+ <$t as $crate::model::Model>::alloc_coeff())+
            }
            fn strict() -> bool {
                true $(&& <$t as $crate::model::Model>::strict())+
            }
            fn roundtrip() -> bool {
                true $(&& <$t as $crate::model::Model>::roundtrip())+
            }
            fn to_val(&self) -> String {
                match self { $($name::$v(x) => format!("U{}({})", $i, $crate::model::Model::to_val(x))),+ }
            }
            fn gen(g: &mut $crate::rng::Rng, size: usize) -> Self {
                let n = [$($i),+].len();
                let k = match g.below(5) { 0 => 0, 1 => n - 1, _ => g.below(n) };
                $(if k == $i { return $name::$v(<$t as $crate::model::Model>::gen(g, size)); })+
                unreachable!()
            }
        }
    };
}

/// Derived transparent enum (all variants variable-size).
#[macro_export]
macro_rules! transparent_enum {
    ($name:ident { $($v:ident($t:ty) = $i:expr),+ $(,)? }) => {
        #[derive(ssz_derive::Encode, ssz_derive::Decode, Clone, PartialEq, Debug)]
        #[ssz(enum_behaviour = "transparent")]
        pub enum $name { $($v($t)),+ }
        impl $crate::model::Model for $name {
            fn desc() -> String {
                let v: Vec<String> = vec![$(<$t as $crate::model::Model>::desc()),+];
                format!("E({})", v.join(","))
            }
            fn alloc_coeff() -> usize {
                std::mem::size_of::<Self>() $(+ <$t as $crate::model::Model>::alloc_coeff())+
            }
            fn strict() -> bool {
                false
            }
            fn roundtrip() -> bool {
                false
            }
            fn to_val(&self) -> String {
                match self { $($name::$v(x) => format!("U{}({})", $i, $crate::model::Model::to_val(x))),+ }
            }
            fn gen(g: &mut $crate::rng::Rng, size: usize) -> Self {
                let n = [$($i),+].len();
                let k = match g.below(5) { 0 => 0, 1 => n - 1, _ => g.below(n) };
                $(if k == $i { return $name::$v(<$t as $crate::model::Model>::gen(g, size)); })+
                unreachable!()
            }
        }
    };
}

/// Derived tag enum.
#[macro_export]
macro_rules! tag_enum {
    ($name:ident { $($v:ident = $i:expr),+ $(,)? }) => {
        #[derive(ssz_derive::Encode, ssz_derive::Decode, Clone, Copy, PartialEq, Eq, PartialOrd, Ord, Debug)]
        #[ssz(enum_behaviour = "tag")]
        pub enum $name { $($v),+ }
        impl $crate::model::Model for $name {
            fn desc() -> String {
                format!("G{}", [$($i),+].len())
            }
            fn to_val(&self) -> String {
                match self { $($name::$v => format!("G{}", $i)),+ }
            }
            fn gen(g: &mut $crate::rng::Rng, _size: usize) -> Self {
                let n = [$($i),+].len();
                let k = match g.below(5) { 0 => 0, 1 => n - 1, _ => g.below(n) };
                $(if k == $i { return $name::$v; })+
                unreachable!()
            }
        }
    };
}

/// Derived transparent struct (newtype) around one field.
#[macro_export]
macro_rules! transparent_struct {
    ($name:ident($t:ty)) => {
        #[derive(ssz_derive::Encode, ssz_derive::Decode, Clone, PartialEq, Debug)]
        #[ssz(struct_behaviour = "transparent")]
        pub struct $name(pub $t);
        impl $crate::model::Model for $name {
            fn desc() -> String {
                <$t as $crate::model::Model>::desc()
            }
            fn alloc_coeff() -> usize {
                std::mem::size_of::<Self>() + <$t as $crate::model::Model>::alloc_coeff()
            }
            fn strict() -> bool {
                <$t as $crate::model::Model>::strict()
            }
            fn roundtrip() -> bool {
                <$t as $crate::model::Model>::roundtrip()
            }
            fn to_val(&self) -> String {
                $crate::model::Model::to_val(&self.0)
            }
            fn gen(g: &mut $crate::rng::Rng, size: usize) -> Self {
                $name(<$t as $crate::model::Model>::gen(g, size))
            }
        }
    };
}
