//! Groups `const`, `offset`, `builder`, `listvar`, `union`: the public byte-parsing helpers.
use crate::codec::Ctx;
use crate::model::hex;
use ssz::{
    decode_list_of_variable_length_items, encode_length, read_offset, split_union_bytes, Decode, DecodeError,
    Encode, SszDecoderBuilder, SszEncoder, TryFromIter, UnionSelector,
};
use std::cell::RefCell;
use std::panic::{catch_unwind, AssertUnwindSafe};

pub fn run_const(ctx: &mut Ctx) {
    let s = format!(
        "{} {} {} {}",
        ssz::BYTES_PER_LENGTH_OFFSET,
        ssz::BYTES_PER_UNION_SELECTOR,
        ssz::MAX_UNION_SELECTOR,
        ssz::MAX_LENGTH_VALUE
    );
    ctx.out.m("const", &s, &["const"]);
}

pub fn run_offset(ctx: &mut Ctx) {
    let mut ns: Vec<usize> = vec![0, 1, 2, 3, 4, 5, 255, 256, 257, 65535, 65536, 1 << 24, (1 << 24) - 1, u32::MAX as usize - 1, u32::MAX as usize];
    for sh in 0..32 {
        ns.push(1usize << sh);
        ns.push((1usize << sh) + 1);
        ns.push((1usize << sh).wrapping_sub(1));
    }
    let nrand = if ctx.thorough { 20000 } else { 2000 };
    for _ in 0..nrand {
        ns.push((ctx.rng.next() as u32) as usize);
    }
    for n in ns {
        let r = catch_unwind(|| encode_length(n));
        match r {
            Ok(b) => {
                ctx.out.m("offset", &hex(&b), &["offset_enc", &n.to_string()]);
                // bijection on [0, 2^32): decode(encode n) = n, and the bytes are the LE digits
                let back = read_offset(&b);
                ctx.out.r("C09", "offset", back == Ok(n), &["offset_roundtrip", "offset_enc", &n.to_string()]);
                let le = [(n & 0xff) as u8, ((n >> 8) & 0xff) as u8, ((n >> 16) & 0xff) as u8, ((n >> 24) & 0xff) as u8];
                ctx.out.r("C09", "offset", b == le, &["offset_little_endian", "offset_enc", &n.to_string()]);
                ctx.out.r("C03", "offset", b == le, &["offset_little_endian", "offset_enc", &n.to_string()]);
            }
            Err(_) => ctx.out.m("offset", "panic", &["offset_enc", &n.to_string()]),
        }
    }
    // lengths that do not fit the offset word: debug_assert in debug builds, truncation in release builds
    for n in [1usize << 32, (1usize << 32) + 1, (1usize << 40) + 5, usize::MAX - 1, usize::MAX] {
        let r = catch_unwind(|| encode_length(n));
        let s = match r {
            Ok(b) => if cfg!(debug_assertions) { format!("ok {}", hex(&b)) } else { hex(&b) },
            Err(_) => "panic".to_string(),
        };
        ctx.out.m("offset", &s, &[if cfg!(debug_assertions) { "offset_enc_dbg" } else { "offset_enc" }, &n.to_string()]);
    }
    // read_offset on arbitrary byte strings
    let mut inputs: Vec<Vec<u8>> = vec![vec![], vec![0], vec![0, 0], vec![0, 0, 0], vec![255; 3], vec![255; 4], vec![255; 5]];
    let nrand = if ctx.thorough { 20000 } else { 2000 };
    for _ in 0..nrand {
        let len = ctx.rng.below(9);
        inputs.push(ctx.rng.bytes(len));
    }
    for b in inputs {
        let r = catch_unwind(|| read_offset(&b));
        let s = match &r {
            Ok(Ok(n)) => format!("ok {}", n),
            Ok(Err(_)) => "err".into(),
            Err(_) => "panic".into(),
        };
        ctx.out.m("offset", &s, &["offset_read", &hex(&b)]);
        ctx.out.r("C05", "offset", r.is_ok(), &["read_offset_no_panic", "offset_read", &hex(&b)]);
        if let Ok(Ok(n)) = r {
            if b.len() == 4 {
                ctx.out.r("C09", "offset", encode_length(n)[..] == b[..], &["offset_surjective", "offset_read", &hex(&b)]);
            }
        }
    }
}

pub fn run_union(ctx: &mut Ctx) {
    let bodies: Vec<Vec<u8>> = vec![vec![], vec![0], vec![1, 2, 3], vec![255; 5]];
    // empty input
    let r = catch_unwind(|| split_union_bytes(&[]).map(|(s, b)| (u8::from(s), b.to_vec())));
    let s = match &r {
        Ok(Ok((s, b))) => format!("ok {} x{}", s, hex(b)),
        Ok(Err(_)) => "err".into(),
        Err(_) => "panic".into(),
    };
    ctx.out.m("union", &s, &["split_union", ""]);
    ctx.out.r("C15", "union", matches!(r, Ok(Err(_))), &["split_empty_is_error", "split_union", ""]);
    for sel in 0..=255u8 {
        let rs = catch_unwind(|| UnionSelector::new(sel).map(u8::from));
        let s = match &rs {
            Ok(Ok(x)) => format!("ok {}", x),
            Ok(Err(_)) => "err".into(),
            Err(_) => "panic".into(),
        };
        ctx.out.m("union", &s, &["selector", &sel.to_string()]);
        ctx.out.r("C15", "union", matches!(&rs, Ok(Ok(x)) if *x == sel) == (sel <= 127) && rs.is_ok(), &["selector_new", "selector", &sel.to_string()]);
        if let Ok(us) = UnionSelector::new(sel) {
            ctx.out.r("C15", "union", us == sel && !(us == sel.wrapping_add(1)), &["selector_eq_u8", "selector", &sel.to_string()]);
        }
        for body in &bodies {
            let mut b = vec![sel];
            b.extend_from_slice(body);
            let r = catch_unwind(|| split_union_bytes(&b).map(|(s, rest)| (u8::from(s), rest.to_vec())));
            let s = match &r {
                Ok(Ok((s, rest))) => format!("ok {} x{}", s, hex(rest)),
                Ok(Err(_)) => "err".into(),
                Err(_) => "panic".into(),
            };
            ctx.out.m("union", &s, &["split_union", &hex(&b)]);
            ctx.out.r("C05", "union", r.is_ok(), &["split_no_panic", "split_union", &hex(&b)]);
            let want_ok = sel <= 127;
            let good = match &r {
                Ok(Ok((s, rest))) => want_ok && *s == sel && rest == body,
                Ok(Err(_)) => !want_ok,
                Err(_) => false,
            };
            ctx.out.r("C15", "union", good, &["split_returns_first_byte_and_rest", "split_union", &hex(&b)]);
        }
    }
}

#[derive(Clone, Debug)]
pub enum Reg {
    Fixed(usize),
    Var,
}

fn regs_str(regs: &[Reg]) -> String {
    if regs.is_empty() {
        return "-".into();
    }
    regs.iter()
        .map(|r| match r {
            Reg::Fixed(n) => format!("f{}", n),
            Reg::Var => "v".into(),
        })
        .collect::<Vec<_>>()
        .join(",")
}

/// the documented protocol: register until the first error, build, decode exactly the registered items
pub fn run_builder_case(regs: &[Reg], b: &[u8]) -> Result<Result<Vec<Vec<u8>>, DecodeError>, ()> {
    catch_unwind(AssertUnwindSafe(|| {
        let mut builder = SszDecoderBuilder::new(b);
        for (k, r) in regs.iter().enumerate() {
            match r {
                Reg::Fixed(n) => builder.register_type_parameterized(true, *n)?,
                // the three public ways of registering a variable-size item
                Reg::Var => match k % 3 {
                    // the second parameter is documented as irrelevant for variable-size items
                    0 => builder.register_type_parameterized(false, [4usize, 0, 1, 8, 4096, usize::MAX][(k / 3 + b.len()) % 6])?,
                    1 => builder.register_anonymous_variable_length_item()?,
                    _ => builder.register_type::<Vec<u8>>()?,
                },
            }
        }
        let mut decoder = builder.build()?;
        let mut items = Vec::new();
        for _ in regs {
            let it: Vec<u8> = decoder.decode_next_with(|s| Ok(s.to_vec()))?;
            items.push(it);
        }
        Ok(items)
    }))
    .map_err(|_| ())
}

/// like `run_builder_case`, but the item callback refuses the items selected by `mask` and the caller goes on
/// asking for the remaining ones: every call must still be handed its own item's bytes, in order
pub fn run_builder_case_refusing(regs: &[Reg], b: &[u8], mask: u64) -> Result<Option<Vec<Vec<u8>>>, ()> {
    catch_unwind(AssertUnwindSafe(|| {
        let mut builder = SszDecoderBuilder::new(b);
        for r in regs.iter() {
            let ok = match r {
                Reg::Fixed(n) => builder.register_type_parameterized(true, *n),
                Reg::Var => builder.register_type::<Vec<u8>>(),
            };
            if ok.is_err() {
                return None;
            }
        }
        let mut decoder = match builder.build() {
            Ok(d) => d,
            Err(_) => return None,
        };
        let mut seen: Vec<Vec<u8>> = Vec::new();
        for k in 0..regs.len() {
            let refuse = mask >> (k % 64) & 1 == 1;
            let r: Result<u8, DecodeError> = decoder.decode_next_with(|s| {
                seen.push(s.to_vec());
                if refuse { Err(DecodeError::BytesInvalid("refused by the caller".into())) } else { Ok(0u8) }
            });
            if r.is_ok() == refuse {
                return None;
            }
        }
        Some(seen)
    }))
    .map_err(|_| ())
}

fn encode_items(regs: &[Reg], items: &[Vec<u8>], prefix: &[u8]) -> Vec<u8> {
    let mut buf = prefix.to_vec();
    let fixed: usize = regs.iter().map(|r| match r { Reg::Fixed(n) => *n, Reg::Var => 4 }).sum();
    let mut enc = SszEncoder::container(&mut buf, fixed);
    for (r, it) in regs.iter().zip(items) {
        enc.append_parameterized(matches!(r, Reg::Fixed(_)), |b| b.extend_from_slice(it));
    }
    enc.finalize();
    buf
}

pub fn run_builder(ctx: &mut Ctx) {
    // registration shapes: all sequences up to length 3 over {f1, f2, v}, plus hand-picked longer ones
    let atoms = [Reg::Fixed(1), Reg::Fixed(2), Reg::Var];
    let mut shapes: Vec<Vec<Reg>> = vec![vec![]];
    let mut cur: Vec<Vec<Reg>> = vec![vec![]];
    for _ in 0..3 {
        let mut next = Vec::new();
        for c in &cur {
            for a in &atoms {
                let mut v = c.clone();
                v.push(a.clone());
                next.push(v);
            }
        }
        shapes.extend(next.iter().cloned());
        cur = next;
    }
    shapes.push(vec![Reg::Fixed(3), Reg::Var, Reg::Fixed(1), Reg::Var, Reg::Fixed(2), Reg::Var]);
    shapes.push(vec![Reg::Var, Reg::Var, Reg::Var, Reg::Var, Reg::Var, Reg::Var]);
    shapes.push(vec![Reg::Fixed(0), Reg::Var, Reg::Fixed(0)]);
    shapes.push(vec![Reg::Fixed(1), Reg::Fixed(usize::MAX)]);
    shapes.push(vec![Reg::Fixed(usize::MAX), Reg::Var]);
    shapes.push(vec![Reg::Var, Reg::Fixed(usize::MAX - 3)]);
    shapes.push(vec![Reg::Fixed(40), Reg::Var]);
    let nrand_shapes = if ctx.thorough { 60 } else { 12 };
    for _ in 0..nrand_shapes {
        let n = 1 + ctx.rng.below(8);
        let mut v = Vec::new();
        for _ in 0..n {
            v.push(if ctx.rng.bool() { Reg::Var } else { Reg::Fixed(ctx.rng.below(5)) });
        }
        shapes.push(v);
    }
    for regs in shapes {
        let rs = regs_str(&regs);
        let mut inputs: Vec<Vec<u8>> = Vec::new();
        // valid layouts and their mutations
        let big = regs.iter().any(|r| matches!(r, Reg::Fixed(n) if *n > 1000));
        if !big {
            let nvals = if ctx.thorough { 12 } else { 4 };
            for k in 0..nvals {
                let items: Vec<Vec<u8>> = regs
                    .iter()
                    .map(|r| match r {
                        Reg::Fixed(n) => ctx.rng.bytes(*n),
                        Reg::Var => {
                            let l = if k == 0 { 0 } else { ctx.rng.below(4) };
                            ctx.rng.bytes(l)
                        }
                    })
                    .collect();
                let e = encode_items(&regs, &items, &[]);
                // completeness oracle: every layout is accepted and yields the items back
                let r = run_builder_case(&regs, &e);
                ctx.out.r("C09", "builder", matches!(&r, Ok(Ok(got)) if *got == items), &["layout_accepted", "builder", &rs, &hex(&e)]);
                ctx.out.r("C04", "builder", matches!(&r, Ok(Ok(got)) if *got == items), &["layout_accepted", "builder", &rs, &hex(&e)]);
                // items refused by the caller do not disturb the ones after them
                for mask in [1u64, 2, 5, 0xaaaa, u64::MAX] {
                    let rr = run_builder_case_refusing(&regs, &e, mask);
                    ctx.out.r("C09", "builder", matches!(&rr, Ok(Some(got)) if *got == items), &["items_in_order_when_some_are_refused", "builder", &rs, &hex(&e), &mask.to_string()]);
                }
                // manual encoder with a pre-filled buffer (C10)
                let pre = vec![0xEE, 0x01];
                let e2 = encode_items(&regs, &items, &pre);
                ctx.out.r("C10", "builder", e2[..2] == pre[..] && e2[2..] == e[..], &["manual_encoder_prefix", "builder", &rs, &hex(&e)]);
                let muts = crate::codec::mutations(&mut ctx.rng, &e, ctx.thorough);
                inputs.push(e);
                inputs.extend(muts);
            }
        }
        // short exhaustive strings over a small alphabet
        let alpha: &[u8] = &[0, 1, 4, 5, 8, 9, 255];
        let maxlen = if ctx.thorough { 6 } else { 4 };
        let mut curs: Vec<Vec<u8>> = vec![vec![]];
        inputs.push(vec![]);
        for _ in 0..maxlen {
            let mut next = Vec::new();
            for c in &curs {
                for &a in alpha {
                    let mut v = c.clone();
                    v.push(a);
                    next.push(v);
                }
            }
            inputs.extend(next.iter().cloned());
            curs = next;
        }
        let mut seen = std::collections::HashSet::new();
        for b in inputs {
            if !seen.insert(b.clone()) {
                continue;
            }
            let r = run_builder_case(&regs, &b);
            let s = match &r {
                Ok(Ok(items)) => format!("ok {}", items.iter().map(|i| format!("x{}", hex(i))).collect::<Vec<_>>().join(",")),
                Ok(Err(_)) => "err".into(),
                Err(_) => "panic".into(),
            };
            ctx.out.m("builder", &s, &["builder", &rs, &hex(&b)]);
            ctx.out.r("C05", "builder", r.is_ok(), &["builder_no_panic", "builder", &rs, &hex(&b)]);
            if let Ok(Ok(items)) = &r {
                ctx.out.bump("builder.ok");
                // soundness oracle: re-assembling the slices with the encoder gives the input back
                let fits = regs.iter().zip(items).all(|(r, it)| match r { Reg::Fixed(n) => it.len() == *n, Reg::Var => true });
                let re = encode_items(&regs, items, &[]);
                ctx.out.r("C09", "builder", fits && re == b && items.len() == regs.len(), &["slices_tile_input", "builder", &rs, &hex(&b)]);
            } else {
                ctx.out.bump("builder.err");
            }
        }
    }
}

// ---------------------------------------------------------------------------------------------
// listvar: probe item type and probe collections

thread_local! {
    pub static CALLS: RefCell<Vec<Vec<u8>>> = RefCell::new(Vec::new());
    pub static HINT: RefCell<Option<Option<usize>>> = RefCell::new(None);
}

#[derive(Debug, PartialEq, Clone)]
pub struct Probe(pub Vec<u8>);

impl Decode for Probe {
    fn is_ssz_fixed_len() -> bool {
        false
    }
    fn from_ssz_bytes(bytes: &[u8]) -> Result<Self, DecodeError> {
        CALLS.with(|c| c.borrow_mut().push(bytes.to_vec()));
        Ok(Probe(bytes.to_vec()))
    }
}
impl Encode for Probe {
    fn is_ssz_fixed_len() -> bool {
        false
    }
    fn ssz_append(&self, buf: &mut Vec<u8>) {
        buf.extend_from_slice(&self.0)
    }
    fn ssz_bytes_len(&self) -> usize {
        self.0.len()
    }
}

/// unbounded collection recording the size hint it saw
pub struct VecC(pub Vec<Probe>);
impl TryFromIter<Probe> for VecC {
    type Error = String;
    fn try_from_iter<I: IntoIterator<Item = Probe>>(iter: I) -> Result<Self, String> {
        let it = iter.into_iter();
        HINT.with(|h| *h.borrow_mut() = Some(it.size_hint().1));
        Ok(VecC(it.collect()))
    }
}

/// refuses the (K+1)-th item after pulling it
pub struct Bounded<const K: usize>(pub Vec<Probe>);
impl<const K: usize> TryFromIter<Probe> for Bounded<K> {
    type Error = String;
    fn try_from_iter<I: IntoIterator<Item = Probe>>(iter: I) -> Result<Self, String> {
        let it = iter.into_iter();
        HINT.with(|h| *h.borrow_mut() = Some(it.size_hint().1));
        let mut v = Vec::new();
        for x in it {
            if v.len() == K {
                return Err("full".into());
            }
            v.push(x);
        }
        Ok(Bounded(v))
    }
}

/// refuses without looking at the iterator
pub struct Refusing;
impl TryFromIter<Probe> for Refusing {
    type Error = String;
    fn try_from_iter<I: IntoIterator<Item = Probe>>(_iter: I) -> Result<Self, String> {
        Err("refused".into())
    }
}

fn listvar_case<C: TryFromIter<Probe>>(b: &[u8], max: Option<usize>, unwrap: impl Fn(C) -> Vec<Probe>) -> (String, Vec<Vec<u8>>, Option<Option<usize>>, Result<Option<Vec<Vec<u8>>>, ()>) {
    CALLS.with(|c| c.borrow_mut().clear());
    HINT.with(|h| *h.borrow_mut() = None);
    let r = catch_unwind(AssertUnwindSafe(|| decode_list_of_variable_length_items::<Probe, C>(b, max)));
    let calls = CALLS.with(|c| c.borrow().clone());
    let hint = HINT.with(|h| *h.borrow());
    let (s, res) = match r {
        Ok(Ok(c)) => {
            let items: Vec<Vec<u8>> = unwrap(c).into_iter().map(|p| p.0).collect();
            (format!("ok {}", items.iter().map(|i| format!("x{}", hex(i))).collect::<Vec<_>>().join(",")), Ok(Some(items)))
        }
        Ok(Err(_)) => ("err".to_string(), Ok(None)),
        Err(_) => ("panic".to_string(), Err(())),
    };
    (s, calls, hint, res)
}

fn listvar_line(s: &str, calls: &[Vec<u8>], hint: Option<Option<usize>>) -> String {
    format!(
        "{} calls={} hint={}",
        s,
        calls.iter().map(|i| format!("x{}", hex(i))).collect::<Vec<_>>().join(","),
        match hint {
            Some(Some(n)) => n.to_string(),
            _ => "-".into(),
        }
    )
}

/// the library's own `TryFromIter` impls must collect every item of ANY iterator (also one without a size hint)
pub fn run_tryfromiter(ctx: &mut Ctx) {
    use smallvec::SmallVec;
    use std::collections::{BTreeMap, BTreeSet};
    for n in [0usize, 1, 2, 7, 100] {
        let tag = n.to_string();
        let mk = || { let mut k = 0usize; std::iter::from_fn(move || { if k < n { k += 1; Some(k as u16) } else { None } }) };
        let want: Vec<u16> = (1..=n as u16).collect();
        let v = <Vec<u16> as TryFromIter<u16>>::try_from_iter(mk());
        ctx.out.r("C16", "listvar", matches!(&v, Ok(x) if *x == want), &["vec_try_from_iter_collects_all", "tryfromiter", &tag]);
        let v = <Vec<u16> as TryFromIter<u16>>::try_from_iter(want.iter().copied().filter(|_| true));
        ctx.out.r("C16", "listvar", matches!(&v, Ok(x) if *x == want), &["vec_try_from_iter_collects_all_filtered", "tryfromiter", &tag]);
        let v = <Vec<u16> as TryFromIter<u16>>::try_from_iter(vec![want.clone(), want.clone()].into_iter().flatten());
        ctx.out.r("C16", "listvar", matches!(&v, Ok(x) if x.len() == 2 * n), &["vec_try_from_iter_collects_all_flatten", "tryfromiter", &tag]);
        let v = <SmallVec<[u16; 2]> as TryFromIter<u16>>::try_from_iter(mk());
        ctx.out.r("C16", "listvar", matches!(&v, Ok(x) if x[..] == want[..]), &["smallvec_try_from_iter_collects_all", "tryfromiter", &tag]);
        let v = <BTreeSet<u16> as TryFromIter<u16>>::try_from_iter(mk());
        ctx.out.r("C16", "listvar", matches!(&v, Ok(x) if x.len() == n), &["btreeset_try_from_iter_collects_all", "tryfromiter", &tag]);
        let v = <BTreeMap<u16, u16> as TryFromIter<(u16, u16)>>::try_from_iter(mk().map(|k| (k, k)));
        ctx.out.r("C16", "listvar", matches!(&v, Ok(x) if x.len() == n), &["btreemap_try_from_iter_collects_all", "tryfromiter", &tag]);
    }
}

pub fn run_listvar(ctx: &mut Ctx) {
    let mut inputs: Vec<Vec<u8>> = vec![vec![]];
    // valid encodings of item lists and their mutations
    let nlists = if ctx.thorough { 60 } else { 14 };
    for k in 0..nlists {
        let n = if k < 5 { k } else { 1 + ctx.rng.below(6) };
        let items: Vec<Probe> = (0..n).map(|_| { let l = ctx.rng.below(4); Probe(ctx.rng.bytes(l)) }).collect();
        let e = items.as_ssz_bytes();
        // C09 completeness: every offset-table layout is accepted and yields the items back
        let (_, _, _, r) = listvar_case::<VecC>(&e, None, |c| c.0);
        let want: Vec<Vec<u8>> = items.iter().map(|p| p.0.clone()).collect();
        ctx.out.r("C09", "listvar", matches!(&r, Ok(Some(got)) if *got == want), &["list_layout_accepted", "listvar", "-", "v", &hex(&e)]);
        let muts = crate::codec::mutations(&mut ctx.rng, &e, ctx.thorough);
        inputs.push(e);
        inputs.extend(muts);
    }
    // short inputs announcing huge counts
    for first in [4u32, 8, 12, 16, 1 << 10, 1 << 20, 1 << 30, u32::MAX - 3, u32::MAX] {
        for extra in [0usize, 1, 4, 8] {
            let mut b = first.to_le_bytes().to_vec();
            b.extend(vec![0u8; extra]);
            inputs.push(b);
        }
    }
    let alpha: &[u8] = &[0, 4, 8, 9, 12, 255];
    let maxlen = if ctx.thorough { 6 } else { 5 };
    let mut curs: Vec<Vec<u8>> = vec![vec![]];
    for _ in 0..maxlen {
        let mut next = Vec::new();
        for c in &curs {
            for &a in alpha {
                let mut v = c.clone();
                v.push(a);
                next.push(v);
            }
        }
        inputs.extend(next.iter().cloned());
        curs = next;
    }
    let mut seen = std::collections::HashSet::new();
    let mut pow2_sweeps = 0usize;
    for b in inputs {
        if !seen.insert(b.clone()) {
            continue;
        }
        let hx = hex(&b);
        // unlimited, Vec-like
        let (s0, calls0, hint0, res0) = listvar_case::<VecC>(&b, None, |c| c.0);
        ctx.out.m("listvar", &listvar_line(&s0, &calls0, hint0), &["listvar", "-", "v", &hx]);
        ctx.out.r("C05", "listvar", res0.is_ok(), &["listvar_no_panic", "listvar", "-", "v", &hx]);
        ctx.out.r("C16", "listvar", res0.is_ok(), &["listvar_no_panic", "listvar", "-", "v", &hx]);
        if b.is_empty() {
            ctx.out.r("C16", "listvar", matches!(&res0, Ok(Some(v)) if v.is_empty()), &["empty_input_empty_collection", "listvar", "-", "v", &hx]);
        }
        // C09: whatever is accepted is the offset-table encoding of the slices handed out
        if let Ok(Some(items)) = &res0 {
            let re = items.iter().map(|i| Probe(i.clone())).collect::<Vec<_>>().as_ssz_bytes();
            ctx.out.r("C09", "listvar", re == b, &["list_slices_tile_input", "listvar", "-", "v", &hx]);
        }
        // C06: what the collection is told to reserve is physically present in the input
        if let Some(Some(n)) = hint0 {
            ctx.out.r("C06", "listvar", 4 * n <= b.len(), &["size_hint_backed_by_input", "listvar", "-", "v", &hx]);
        }
        ctx.out.r("C06", "listvar", calls0.iter().map(|c| c.len()).sum::<usize>() <= b.len() && calls0.len() * 4 <= b.len().max(0), &["calls_bounded_by_input", "listvar", "-", "v", &hx]);
        // the real Vec path (the library's own TryFromIter for Vec)
        let rv = catch_unwind(AssertUnwindSafe(|| decode_list_of_variable_length_items::<Probe, Vec<Probe>>(&b, None)));
        let same = match (&rv, &res0) {
            (Ok(Ok(v)), Ok(Some(items))) => v.iter().map(|p| p.0.clone()).collect::<Vec<_>>() == *items,
            (Ok(Err(_)), Ok(None)) => true,
            _ => false,
        };
        ctx.out.r("C16", "listvar", same, &["vec_equals_probe_collection", "listvar", "-", "v", &hx]);
        // item count announced by the input, when the header is well-formed
        let announced = if b.len() >= 4 { Some(u32::from_le_bytes([b[0], b[1], b[2], b[3]]) as usize / 4) } else { None };
        let count = match &res0 { Ok(Some(v)) => Some(v.len()), _ => None };
        // limits
        let mut limits: Vec<usize> = vec![0, 1, 2, 3, 1 << 30, 1 << 62, (1 << 62) + 1, 1 << 63, 3 << 62, usize::MAX / 4 + 1, usize::MAX - 1, usize::MAX];
        if let Some(c) = count {
            limits.extend([c.saturating_sub(1), c, c + 1]);
            // every power of two and its neighbours, for the first accepted inputs
            if c > 0 && pow2_sweeps < 12 {
                pow2_sweeps += 1;
                for k in 0..64 {
                    limits.extend([(1usize << k) - 1, 1usize << k, (1usize << k) + 1, (1usize << k).wrapping_mul(3)]);
                }
            }
        }
        limits.sort();
        limits.dedup();
        for m in limits {
            let (s, calls, hint, res) = listvar_case::<VecC>(&b, Some(m), |c| c.0);
            ctx.out.m("listvar", &listvar_line(&s, &calls, hint), &["listvar", &m.to_string(), "v", &hx]);
            ctx.out.r("C05", "listvar", res.is_ok(), &["listvar_no_panic", "listvar", &m.to_string(), "v", &hx]);
            // announced count above the limit with a well-formed header: error, no item decoded, collection never asked
            if let (Some(c), Ok(Some(_))) = (count, &res0) {
                if c > m {
                    ctx.out.r("C16", "listvar", matches!(res, Ok(None)) && calls.is_empty() && hint.is_none(), &["over_limit_fails_before_work", "listvar", &m.to_string(), "v", &hx]);
                } else {
                    ctx.out.r("C16", "listvar", res == res0, &["within_limit_same_as_unlimited", "listvar", &m.to_string(), "v", &hx]);
                    // a list within its limit is a valid serialization of the bounded-list schema (C04)
                    ctx.out.r("C04", "listvar", res == res0, &["within_limit_same_as_unlimited", "listvar", &m.to_string(), "v", &hx]);
                }
            }
            if let Some(a) = announced {
                if a > m && !b.is_empty() {
                    ctx.out.r("C16", "listvar", calls.is_empty() && hint.is_none() && !matches!(res, Ok(Some(_))), &["announced_over_limit_no_work", "listvar", &m.to_string(), "v", &hx]);
                }
            }
        }
        // bounded and refusing collections
        let (s, calls, hint, res) = listvar_case::<Bounded<1>>(&b, None, |c| c.0);
        ctx.out.m("listvar", &listvar_line(&s, &calls, hint), &["listvar", "-", "b1", &hx]);
        if let Some(c) = count {
            let ok = if c > 1 { matches!(res, Ok(None)) } else { res == res0 };
            ctx.out.r("C16", "listvar", ok, &["bounded_collection_never_truncates", "listvar", "-", "b1", &hx]);
        }
        ctx.out.r("C05", "listvar", res.is_ok(), &["listvar_no_panic", "listvar", "-", "b1", &hx]);
        let (s, calls, hint, res) = listvar_case::<Bounded<0>>(&b, Some(2), |c| c.0);
        ctx.out.m("listvar", &listvar_line(&s, &calls, hint), &["listvar", "2", "b0", &hx]);
        ctx.out.r("C05", "listvar", res.is_ok(), &["listvar_no_panic", "listvar", "2", "b0", &hx]);
        let (s, calls, hint, res) = listvar_case::<Refusing>(&b, None, |_| vec![]);
        ctx.out.m("listvar", &listvar_line(&s, &calls, hint), &["listvar", "-", "r", &hx]);
        ctx.out.r("C16", "listvar", matches!(res, Ok(None)), &["refusing_collection_is_error", "listvar", "-", "r", &hx]);
    }
}

/// long registration sequences (more items than any inline small-vector or narrow index type holds):
/// only the implementation-side oracles, the model is not asked
pub fn run_builder_big(ctx: &mut Ctx) {
    let mut g = crate::rng::Rng::new(ctx.seed ^ 0xb16);
    for n in [9usize, 17, 255, 256, 257, 300, 1000, 65537] {
        // (`decode_next` is quadratic in the number of items: the longest sequence is run once)
        let positions: Vec<usize> = if n > 10000 { vec![n / 2] } else { vec![0usize, n / 2, n - 1] };
        for var_at in positions {
            // n items: one-byte fixed items, with variable items at `var_at` and at the end
            let regs: Vec<Reg> = (0..n).map(|i| if i == var_at || i == n - 1 { Reg::Var } else { Reg::Fixed(1) }).collect();
            let items: Vec<Vec<u8>> = regs.iter().enumerate().map(|(i, r)| match r {
                Reg::Fixed(_) => vec![(i % 251) as u8],
                Reg::Var => { let l = 1 + g.below(3); g.bytes(l) }
            }).collect();
            let e = encode_items(&regs, &items, &[]);
            let r = run_builder_case(&regs, &e);
            let tag = format!("n={} var_at={}", n, var_at);
            ctx.out.r("C09", "builder", matches!(&r, Ok(Ok(got)) if *got == items), &["long_layout_accepted_and_items_in_order", "builder-big", &tag]);
            ctx.out.r("C05", "builder", r.is_ok(), &["long_sequence_no_panic", "builder-big", &tag]);
            ctx.out.r("C01", "builder", matches!(&r, Ok(Ok(got)) if *got == items), &["long_layout_roundtrip", "builder-big", &tag]);
            ctx.out.r("C04", "builder", matches!(&r, Ok(Ok(got)) if *got == items), &["long_layout_accepted_and_items_in_order", "builder-big", &tag]);
            if n > 10000 {
                continue;
            }
            // one byte too many / too few must be rejected
            let mut longer = e.clone();
            longer.push(0);
            let r2 = run_builder_case(&regs, &longer);
            ctx.out.r("C05", "builder", r2.is_ok(), &["long_sequence_no_panic", "builder-big", &tag]);
            if n > 1 {
                let r3 = run_builder_case(&regs, &e[..e.len() - 1]);
                ctx.out.r("C05", "builder", r3.is_ok(), &["long_sequence_no_panic", "builder-big", &tag]);
                if let Ok(Ok(got)) = &r3 {
                    let re = encode_items(&regs, got, &[]);
                    ctx.out.r("C09", "builder", re == e[..e.len() - 1], &["slices_tile_input", "builder-big", &tag]);
                }
            }
        }
    }
}

fn parse_regs(s: &str) -> Vec<Reg> {
    if s == "-" {
        return vec![];
    }
    s.split(',')
        .map(|r| if r == "v" { Reg::Var } else { Reg::Fixed(r[1..].parse().unwrap()) })
        .collect()
}

/// re-evaluates one low-level request on the implementation (used by `./verif replay`)
pub fn replay(f: &[String]) {
    let unhex = crate::model::unhex;
    match f[0].as_str() {
        "builder" => {
            let regs = parse_regs(&f[1]);
            let r = run_builder_case(&regs, &unhex(&f[2]));
            match r {
                Ok(Ok(items)) => println!("ok {}", items.iter().map(|i| format!("x{}", hex(i))).collect::<Vec<_>>().join(",")),
                Ok(Err(e)) => println!("err ({:?})", e),
                Err(_) => println!("panic"),
            }
        }
        "listvar" => {
            let max = if f[1] == "-" { None } else { Some(f[1].parse().unwrap()) };
            let b = unhex(&f[3]);
            let (s, calls, hint, _) = match f[2].as_str() {
                "v" => listvar_case::<VecC>(&b, max, |c| c.0),
                "b0" => listvar_case::<Bounded<0>>(&b, max, |c| c.0),
                "b1" => listvar_case::<Bounded<1>>(&b, max, |c| c.0),
                _ => listvar_case::<Refusing>(&b, max, |_| vec![]),
            };
            println!("{}", listvar_line(&s, &calls, hint));
        }
        "offset_enc" => {
            let n: usize = f[1].parse().unwrap();
            match catch_unwind(|| encode_length(n)) {
                Ok(b) => println!("{}", hex(&b)),
                Err(_) => println!("panic"),
            }
        }
        "offset_read" => println!("{:?}", catch_unwind(|| read_offset(&unhex(&f[1])))),
        "split_union" => {
            let b = unhex(f.get(1).map(|s| s.as_str()).unwrap_or(""));
            println!("{:?}", catch_unwind(|| split_union_bytes(&b).map(|(s, r)| (u8::from(s), r.to_vec()))));
        }
        "selector" => {
            let n: u8 = f[1].parse().unwrap();
            println!("{:?}", catch_unwind(|| UnionSelector::new(n).map(u8::from)));
        }
        other => println!("cannot replay request kind {}", other),
    }
}
