//! Groups `bitops`, `bitbytes`, `serde`, `arb`: the three bitfield behaviours against the Lean model
//! (class M), against a plain `Vec<bool>` reference (class R) and against the Spec predicates (class O).
use crate::codec::Ctx;
use crate::model::{bits_str, hex};
use crate::rng::Rng;
use smallvec::SmallVec;
use ssz::{BitList, BitVector, BitVectorDynamic, Decode, Encode};
use std::hash::{Hash, Hasher};
use std::panic::{catch_unwind, AssertUnwindSafe};
use typenum::Unsigned;

#[derive(Default)]
struct RecHasher(Vec<u8>);
impl Hasher for RecHasher {
    fn finish(&self) -> u64 {
        0
    }
    fn write(&mut self, bytes: &[u8]) {
        self.0.extend_from_slice(bytes)
    }
}

#[derive(Clone, Copy, PartialEq, Debug)]
pub enum Kind {
    V(usize),
    F(usize),
    D,
}

impl Kind {
    fn s(&self) -> String {
        match self {
            Kind::V(n) => format!("V{}", n),
            Kind::F(n) => format!("F{}", n),
            Kind::D => "D".into(),
        }
    }
    fn len_ok(&self, l: usize) -> bool {
        match self {
            Kind::V(n) => l <= *n,
            Kind::F(n) => l == *n,
            Kind::D => l > 0 && l % 8 == 0,
        }
    }
}

/// uniform face of the three behaviours
pub trait BK: Sized + Clone + PartialEq + Hash + Encode + Decode + serde::Serialize + serde::de::DeserializeOwned {
    fn kind() -> Kind;
    fn new_n(n: usize) -> Result<Self, ()>;
    fn from_bytes_(b: &[u8]) -> Result<Self, ()>;
    /// the same through a heap-backed (spilled) small-vector: storage mode is not part of the value
    fn from_bytes_heap_(b: &[u8]) -> Result<Self, ()> {
        Self::from_bytes_(b)
    }
    fn into_bytes_(self) -> Vec<u8>;
    fn union_(&self, o: &Self) -> Result<Self, ()>;
    fn inter_(&self, o: &Self) -> Result<Self, ()>;
    fn subset_(&self, o: &Self) -> bool;
    fn len_(&self) -> usize;
    fn get_(&self, i: usize) -> Result<bool, ()>;
    fn set_(&mut self, i: usize, v: bool) -> Result<(), ()>;
    fn bits_(&self) -> Vec<bool>;
    fn num_set_(&self) -> usize;
    fn highest_(&self) -> Option<usize>;
    fn is_zero_(&self) -> bool;
    fn slice_(&self) -> Vec<u8>;
    fn raw_(self) -> Vec<u8>;
    fn shift_(&mut self, n: usize) -> Result<(), ()>;
    fn diffin_(&mut self, o: &Self);
    fn diff_(&self, o: &Self) -> Self;
    fn is_empty_(&self) -> bool;
    /// `Display` (bitvectors only)
    fn display_(&self) -> Option<String> {
        None
    }
    /// every way of driving the iterator (adaptors, partial consumption, overridable methods) agrees with the same
    /// program on a plain sequence of booleans
    fn iter_protocol_(&self) -> bool;
}

macro_rules! common_methods {
    () => {
        fn len_(&self) -> usize {
            self.len()
        }
        fn get_(&self, i: usize) -> Result<bool, ()> {
            self.get(i).map_err(|_| ())
        }
        fn set_(&mut self, i: usize, v: bool) -> Result<(), ()> {
            self.set(i, v).map_err(|_| ())
        }
        fn bits_(&self) -> Vec<bool> {
            self.iter().collect()
        }
        fn num_set_(&self) -> usize {
            self.num_set_bits()
        }
        fn highest_(&self) -> Option<usize> {
            self.highest_set_bit()
        }
        fn is_zero_(&self) -> bool {
            self.is_zero()
        }
        fn slice_(&self) -> Vec<u8> {
            self.as_slice().to_vec()
        }
        fn raw_(self) -> Vec<u8> {
            self.into_raw_bytes().to_vec()
        }
        fn shift_(&mut self, n: usize) -> Result<(), ()> {
            self.shift_up(n).map_err(|_| ())
        }
        fn diffin_(&mut self, o: &Self) {
            self.difference_inplace(o)
        }
        fn diff_(&self, o: &Self) -> Self {
            self.difference(o)
        }
        fn is_empty_(&self) -> bool {
            self.is_empty()
        }
        fn iter_protocol_(&self) -> bool {
            let mut v: Vec<bool> = Vec::new();
            let mut it = self.iter();
            while let Some(b) = it.next() {
                v.push(b);
                if v.len() > self.len() + 8 {
                    return false;
                }
            }
            if it.next().is_some() || it.next().is_some() {
                return false;
            }
            let n = v.len();
            if n != self.len() {
                return false;
            }
            let r = || v.iter().copied();
            let hint_ok = |h: (usize, Option<usize>), rem: usize| h.0 <= rem && h.1.map_or(true, |u| u >= rem);
            let mut ok = self.iter().count() == n
                && self.iter().last() == r().last()
                && self.iter().collect::<Vec<_>>() == v
                && hint_ok(self.iter().size_hint(), n)
                && self.iter().filter(|b| *b).count() == r().filter(|b| *b).count()
                && self.iter().position(|b| b) == r().position(|b| b)
                && self.iter().all(|b| b) == r().all(|b| b)
                && self.iter().any(|b| b) == r().any(|b| b)
                && self.iter().fold(0usize, |a, b| a.wrapping_mul(3).wrapping_add(b as usize)) == r().fold(0usize, |a, b| a.wrapping_mul(3).wrapping_add(b as usize))
                && self.iter().zip(r()).all(|(a, b)| a == b)
                && self.iter().chain(self.iter()).count() == 2 * n;
            for k in [0, 1, 2, 7, 8, n / 2, n.saturating_sub(1), n, n + 1] {
                ok &= self.iter().nth(k) == r().nth(k);
                ok &= self.iter().skip(k).last() == r().skip(k).last();
                ok &= self.iter().skip(k).count() == r().skip(k).count();
                ok &= self.iter().take(k).collect::<Vec<_>>() == r().take(k).collect::<Vec<_>>();
                ok &= self.iter().step_by(k.max(1)).collect::<Vec<_>>() == r().step_by(k.max(1)).collect::<Vec<_>>();
                let (mut a, mut b) = (self.iter(), r());
                for _ in 0..k {
                    ok &= a.next() == b.next();
                }
                ok &= hint_ok(a.size_hint(), n.saturating_sub(k));
                ok &= a.last() == b.last();
                let (mut a, mut b) = (self.iter(), r());
                for _ in 0..k {
                    a.next();
                    b.next();
                }
                ok &= a.count() == b.count();
                let (mut a, mut b) = (self.iter(), r());
                ok &= a.nth(k) == b.nth(k);
                ok &= a.next() == b.next();
                ok &= a.nth(1) == b.nth(1);
                ok &= a.last() == b.last();
            }
            ok
        }
    };
}

impl<N: Unsigned + Clone> BK for BitList<N> {
    fn kind() -> Kind {
        Kind::V(N::to_usize())
    }
    fn new_n(n: usize) -> Result<Self, ()> {
        Self::with_capacity(n).map_err(|_| ())
    }
    fn from_bytes_(b: &[u8]) -> Result<Self, ()> {
        Self::from_bytes(SmallVec::from_slice(b)).map_err(|_| ())
    }
    fn from_bytes_heap_(b: &[u8]) -> Result<Self, ()> {
        let mut v: Vec<u8> = Vec::with_capacity(b.len() + 300);
        v.extend_from_slice(b);
        Self::from_bytes(SmallVec::from_vec(v)).map_err(|_| ())
    }
    fn into_bytes_(self) -> Vec<u8> {
        self.into_bytes().to_vec()
    }
    fn union_(&self, o: &Self) -> Result<Self, ()> {
        Ok(self.union(o))
    }
    fn inter_(&self, o: &Self) -> Result<Self, ()> {
        Ok(self.intersection(o))
    }
    fn subset_(&self, o: &Self) -> bool {
        self.is_subset(o)
    }
    common_methods!();
}

impl<N: Unsigned + Clone> BK for BitVector<N> {
    fn kind() -> Kind {
        Kind::F(N::to_usize())
    }
    fn display_(&self) -> Option<String> {
        Some(format!("{}", self))
    }
    fn new_n(_n: usize) -> Result<Self, ()> {
        Ok(Self::new())
    }
    fn from_bytes_(b: &[u8]) -> Result<Self, ()> {
        Self::from_bytes(SmallVec::from_slice(b)).map_err(|_| ())
    }
    fn from_bytes_heap_(b: &[u8]) -> Result<Self, ()> {
        let mut v: Vec<u8> = Vec::with_capacity(b.len() + 300);
        v.extend_from_slice(b);
        Self::from_bytes(SmallVec::from_vec(v)).map_err(|_| ())
    }
    fn into_bytes_(self) -> Vec<u8> {
        self.into_bytes().to_vec()
    }
    fn union_(&self, o: &Self) -> Result<Self, ()> {
        Ok(self.union(o))
    }
    fn inter_(&self, o: &Self) -> Result<Self, ()> {
        Ok(self.intersection(o))
    }
    fn subset_(&self, o: &Self) -> bool {
        self.is_subset(o)
    }
    common_methods!();
}

impl BK for BitVectorDynamic {
    fn kind() -> Kind {
        Kind::D
    }
    fn new_n(n: usize) -> Result<Self, ()> {
        Self::new(n).map_err(|_| ())
    }
    fn from_bytes_(b: &[u8]) -> Result<Self, ()> {
        // the dynamic behaviour has no `from_bytes`; its byte-level constructor is `from_bytes_with_len`
        // and its SSZ decoder; the pool machine uses the SSZ decoder (the model's `BF.fromBytes .dynamic`)
        Self::from_ssz_bytes(b).map_err(|_| ())
    }
    fn into_bytes_(self) -> Vec<u8> {
        self.into_bytes().to_vec()
    }
    fn union_(&self, o: &Self) -> Result<Self, ()> {
        self.union(o).map_err(|_| ())
    }
    fn inter_(&self, o: &Self) -> Result<Self, ()> {
        self.intersection(o).map_err(|_| ())
    }
    fn subset_(&self, o: &Self) -> bool {
        // no `is_subset` on the dynamic behaviour: defined through the generic difference / is_zero
        self.difference(o).is_zero()
    }
    common_methods!();
}

fn pack(bits: &[bool], nbytes: usize) -> Vec<u8> {
    let mut out = vec![0u8; nbytes];
    for (i, b) in bits.iter().enumerate() {
        if *b && i / 8 < nbytes {
            out[i / 8] |= 1 << (i % 8);
        }
    }
    out
}

fn spec_enc(kind: Kind, bits: &[bool]) -> Vec<u8> {
    match kind {
        Kind::V(_) => {
            let mut b = bits.to_vec();
            b.push(true);
            pack(&b, bits.len() / 8 + 1)
        }
        _ => pack(bits, std::cmp::max(1, (bits.len() + 7) / 8)),
    }
}

/// observation computed from the plain boolean sequence alone
fn spec_obs(kind: Kind, bits: &[bool]) -> String {
    let slice = pack(bits, std::cmp::max(1, (bits.len() + 7) / 8));
    let mut hs = (slice.len() as u64).to_le_bytes().to_vec();
    hs.extend_from_slice(&slice);
    hs.extend_from_slice(&(bits.len() as u64).to_le_bytes());
    format!(
        "{}|{}|{}|{}|{}|{}|{}|{}",
        bits.len(),
        bits_str(bits.iter().copied()),
        bits.iter().filter(|b| **b).count(),
        bits.iter().rposition(|b| *b).map(|i| i.to_string()).unwrap_or("-".into()),
        bits.iter().all(|b| !*b),
        hex(&slice),
        hex(&spec_enc(kind, bits)),
        hex(&hs)
    )
}

fn impl_obs<B: BK>(b: &B) -> String {
    let r = catch_unwind(AssertUnwindSafe(|| {
        let mut h = RecHasher::default();
        b.hash(&mut h);
        format!(
            "{}|{}|{}|{}|{}|{}|{}|{}",
            b.len_(),
            bits_str(b.bits_().into_iter()),
            b.num_set_(),
            b.highest_().map(|i| i.to_string()).unwrap_or("-".into()),
            b.is_zero_(),
            hex(&b.slice_()),
            hex(&b.as_ssz_bytes()),
            hex(&h.0)
        )
    }));
    r.unwrap_or_else(|_| "panic".into())
}

fn gen_ops(g: &mut Rng, kind: Kind, n_ops: usize) -> Vec<String> {
    let cap = match kind {
        Kind::V(n) | Kind::F(n) => n,
        Kind::D => 32,
    };
    let mut ops: Vec<String> = Vec::new();
    let mut pool_lens: Vec<usize> = Vec::new(); // best-effort guess of the lengths, only to bias indices
    let pick_len = |g: &mut Rng| -> usize {
        match kind {
            Kind::V(n) => match g.below(6) {
                0 => 0,
                1 => n,
                2 => n + 1,
                3 => n.saturating_sub(1),
                _ => g.below(n + 1),
            },
            Kind::F(n) => n,
            Kind::D => match g.below(6) {
                0 => 0,
                1 => 7,
                2 => 9,
                _ => 8 * (1 + g.below(4)),
            },
        }
    };
    for step in 0..n_ops {
        let have = pool_lens.len();
        if have > 0 && g.below(12) == 0 {
            // a value decoded from bytes (every second one through a heap-backed small-vector)
            let l = match kind { Kind::V(n) => g.below(n.min(40) + 1), Kind::F(n) => n, Kind::D => 8 * (1 + g.below(3)) };
            if l <= 4200 {
                let bits: Vec<bool> = (0..l).map(|_| g.bool()).collect();
                let enc = spec_enc(kind, &bits);
                ops.push(format!("from {}", hex(&enc)));
                pool_lens.push(l);
                continue;
            }
        }
        let choice = if have == 0 || (have < 3 && step < 4) { g.below(2) } else { 2 + g.below(14) };
        match choice {
            0 => {
                let l = pick_len(g);
                ops.push(format!("cap {}", l));
                if kind.len_ok(l) || matches!(kind, Kind::F(_)) {
                    pool_lens.push(if let Kind::F(n) = kind { n } else { l });
                }
            }
            1 => {
                let l = pick_len(g).min(cap.max(32));
                let bits: Vec<bool> = (0..l).map(|_| g.bool()).collect();
                ops.push(format!("bits {}", bits_str(bits.into_iter())));
                if kind.len_ok(l) {
                    pool_lens.push(l);
                }
            }
            2 | 3 | 4 | 5 => {
                let r = g.below(have);
                let l = pool_lens[r];
                let i = match g.below(8) {
                    0 => l,
                    1 => l + 1,
                    2 => l.saturating_sub(1),
                    3 => 0,
                    4 => (l / 8) * 8,
                    _ => g.below(l + 1),
                };
                ops.push(format!("set {} {} {}", r, i, if g.below(3) == 0 { 0 } else { 1 }));
            }
            6 | 7 => {
                let r = g.below(have);
                let l = pool_lens[r];
                let n = match g.below(6) {
                    0 => 0,
                    1 => l,
                    2 => l + 1,
                    3 => 1,
                    4 => 8,
                    _ => g.below(l + 2),
                };
                ops.push(format!("shift {} {}", r, n));
            }
            8 => ops.push(format!("diffin {} {}", g.below(have), g.below(have))),
            9 => {
                let r = g.below(have);
                ops.push(format!("clone {}", r));
                pool_lens.push(pool_lens[r]);
            }
            10 => {
                let r = g.below(have);
                ops.push(format!("redec {}", r));
                pool_lens.push(pool_lens[r]);
            }
            11 => {
                let (r, s) = (g.below(have), g.below(have));
                ops.push(format!("union {} {}", r, s));
                pool_lens.push(pool_lens[r].max(pool_lens[s]));
            }
            12 => {
                let (r, s) = (g.below(have), g.below(have));
                ops.push(format!("inter {} {}", r, s));
                pool_lens.push(match kind {
                    Kind::V(_) => pool_lens[r].min(pool_lens[s]),
                    _ => pool_lens[r].max(pool_lens[s]),
                });
            }
            13 => {
                let (r, s) = (g.below(have), g.below(have));
                ops.push(format!("diff {} {}", r, s));
                pool_lens.push(pool_lens[r]);
            }
            14 => ops.push(format!("subset {} {}", g.below(have), g.below(have))),
            _ => ops.push(format!("eq {} {}", g.below(have), g.below(have))),
        }
        if pool_lens.len() > 7 {
            // keep pools small: later ops concentrate on recent values anyway
        }
    }
    ops
}

fn at(v: &[bool], i: usize) -> bool {
    v.get(i).copied().unwrap_or(false)
}

/// runs a history on the implementation and, in parallel, on plain boolean sequences
/// one history, guarded: a panic that escapes the per-operation guards (e.g. inside an observation of a
/// value that an earlier operation left malformed) is reported against C11 and does not end the run
fn run_history<B: BK>(ctx: &mut Ctx, ops: &[String]) {
    let r = catch_unwind(AssertUnwindSafe(|| run_history_inner::<B>(ctx, ops)));
    if r.is_err() {
        let ks = B::kind().s();
        ctx.out.r("C11", "bitops", false, &["history_panicked_outside_operation_guards", "bitops", &ks, &ops.join(";"), "?"]);
    }
}

fn run_history_inner<B: BK>(ctx: &mut Ctx, ops: &[String]) {
    let kind = B::kind();
    let ks = kind.s();
    let mut pool: Vec<B> = Vec::new();
    let mut spec: Vec<Vec<bool>> = Vec::new();
    let mut outs: Vec<String> = Vec::new();
    let hist = ops.join(";");
    for (step, op) in ops.iter().enumerate() {
        let f: Vec<&str> = op.split(' ').collect();
        let idx = |s: &str| s.parse::<usize>().unwrap();
        // (implementation output, spec output, property tag)
        let mut prop = "C11";
        let (io, so): (String, String) = match f[0] {
            "cap" | "bits" => {
                let bits: Vec<bool> = if f[0] == "cap" {
                    let n = idx(f[1]);
                    vec![false; if let Kind::F(k) = kind { k } else { n }]
                } else {
                    f[1][1..].chars().map(|c| c == '1').collect()
                };
                let want = if f[0] == "cap" { true } else { true };
                let _ = want;
                let r = catch_unwind(AssertUnwindSafe(|| {
                    if f[0] == "cap" {
                        B::new_n(idx(f[1]))
                    } else {
                        match B::new_n(bits.len()) {
                            Ok(mut b) => {
                                if b.len_() != bits.len() {
                                    return Err(());
                                }
                                for (i, v) in bits.iter().enumerate() {
                                    b.set_(i, *v)?;
                                }
                                Ok(b)
                            }
                            Err(_) => Err(()),
                        }
                    }
                }));
                prop = "C13";
                let spec_ok = if f[0] == "cap" { kind.len_ok(bits.len()) || matches!(kind, Kind::F(_)) } else { kind.len_ok(bits.len()) };
                match r {
                    Ok(Ok(b)) => {
                        let o = impl_obs(&b);
                        pool.push(b);
                        spec.push(bits.clone());
                        (o, if spec_ok { spec_obs(kind, &bits) } else { "err".into() })
                    }
                    Ok(Err(_)) => ("err".into(), if spec_ok { spec_obs(kind, &bits) } else { "err".into() }),
                    Err(_) => ("panic".into(), "no-panic".into()),
                }
            }
            "from" => {
                let b = crate::model::unhex(f[1]);
                let heap = step % 2 == 1;
                match catch_unwind(AssertUnwindSafe(|| if heap { B::from_bytes_heap_(&b) } else { B::from_bytes_(&b) })) {
                    Ok(Ok(x)) => {
                        let o = impl_obs(&x);
                        let bits = x.bits_();
                        pool.push(x);
                        let so = spec_obs(kind, &bits);
                        spec.push(bits);
                        (o, so)
                    }
                    Ok(Err(_)) => ("err".into(), "err".into()),
                    Err(_) => ("panic".into(), "no-panic".into()),
                }
            }
            "set" => {
                let (r, i, v) = (idx(f[1]), idx(f[2]), f[3] == "1");
                let res = catch_unwind(AssertUnwindSafe(|| pool[r].set_(i, v)));
                let sres = if i < spec[r].len() {
                    spec[r][i] = v;
                    "ok"
                } else {
                    "err"
                };
                let io = match res {
                    Ok(Ok(())) => format!("ok {}", impl_obs(&pool[r])),
                    Ok(Err(())) => format!("err {}", impl_obs(&pool[r])),
                    Err(_) => "panic".into(),
                };
                (io, format!("{} {}", sres, spec_obs(kind, &spec[r])))
            }
            "shift" => {
                let (r, n) = (idx(f[1]), idx(f[2]));
                let res = catch_unwind(AssertUnwindSafe(|| pool[r].shift_(n)));
                let l = spec[r].len();
                let sres = if n <= l {
                    let old = spec[r].clone();
                    for i in 0..l {
                        spec[r][i] = if i >= n { old[i - n] } else { false };
                    }
                    "ok"
                } else {
                    "err"
                };
                let io = match res {
                    Ok(Ok(())) => format!("ok {}", impl_obs(&pool[r])),
                    Ok(Err(())) => format!("err {}", impl_obs(&pool[r])),
                    Err(_) => "panic".into(),
                };
                (io, format!("{} {}", sres, spec_obs(kind, &spec[r])))
            }
            "diffin" => {
                let (r, s) = (idx(f[1]), idx(f[2]));
                let other = pool[s].clone();
                let res = catch_unwind(AssertUnwindSafe(|| pool[r].diffin_(&other)));
                let sb = spec[s].clone();
                for i in 0..spec[r].len() {
                    spec[r][i] = spec[r][i] && !at(&sb, i);
                }
                let io = match res {
                    Ok(()) => format!("ok {}", impl_obs(&pool[r])),
                    Err(_) => "panic".into(),
                };
                (io, format!("ok {}", spec_obs(kind, &spec[r])))
            }
            "clone" => {
                let r = idx(f[1]);
                // `Clone::clone_from` into a value of a different length must behave like `clone`
                for t in 0..pool.len() {
                    let mut tgt = pool[t].clone();
                    tgt.clone_from(&pool[r]);
                    let ok = tgt == pool[r] && impl_obs(&tgt) == impl_obs(&pool[r]);
                    ctx.out.r("C11", "bitops", ok, &["clone_from_equals_clone", "bitops", &ks, &hist, &step.to_string()]);
                }
                let c = pool[r].clone();
                let o = impl_obs(&c);
                pool.push(c);
                let sb = spec[r].clone();
                let so = spec_obs(kind, &sb);
                spec.push(sb);
                (o, so)
            }
            "redec" => {
                let r = idx(f[1]);
                let res = catch_unwind(AssertUnwindSafe(|| B::from_ssz_bytes(&pool[r].as_ssz_bytes())));
                let sb = spec[r].clone();
                let so = spec_obs(kind, &sb);
                match res {
                    Ok(Ok(x)) => {
                        let o = impl_obs(&x);
                        pool.push(x);
                        spec.push(sb);
                        (o, so)
                    }
                    Ok(Err(_)) => ("err".into(), so),
                    Err(_) => ("panic".into(), so),
                }
            }
            "union" | "inter" | "diff" => {
                prop = "C12";
                let (r, s) = (idx(f[1]), idx(f[2]));
                let res = catch_unwind(AssertUnwindSafe(|| match f[0] {
                    "union" => pool[r].union_(&pool[s]),
                    "inter" => pool[r].inter_(&pool[s]),
                    _ => Ok(pool[r].diff_(&pool[s])),
                }));
                let (la, lb) = (spec[r].len(), spec[s].len());
                let rl = match (f[0], kind) {
                    ("union", Kind::F(n)) | ("inter", Kind::F(n)) => n,
                    ("union", _) => la.max(lb),
                    ("inter", Kind::V(_)) => la.min(lb),
                    ("inter", _) => la.max(lb),
                    _ => la,
                };
                let sb: Vec<bool> = (0..rl)
                    .map(|i| match f[0] {
                        "union" => at(&spec[r], i) || at(&spec[s], i),
                        "inter" => at(&spec[r], i) && at(&spec[s], i),
                        _ => at(&spec[r], i) && !at(&spec[s], i),
                    })
                    .collect();
                let so = spec_obs(kind, &sb);
                match res {
                    Ok(Ok(x)) => {
                        let o = impl_obs(&x);
                        pool.push(x);
                        spec.push(sb);
                        (o, so)
                    }
                    Ok(Err(_)) => ("err".into(), so),
                    Err(_) => ("panic".into(), so),
                }
            }
            "subset" => {
                prop = "C12";
                let (r, s) = (idx(f[1]), idx(f[2]));
                let res = catch_unwind(AssertUnwindSafe(|| pool[r].subset_(&pool[s])));
                let want = (0..spec[r].len()).all(|i| !spec[r][i] || at(&spec[s], i));
                (res.map(|b| b.to_string()).unwrap_or("panic".into()), want.to_string())
            }
            "eq" => {
                let (r, s) = (idx(f[1]), idx(f[2]));
                let res = catch_unwind(AssertUnwindSafe(|| {
                    let e = pool[r] == pool[s];
                    let mut h1 = std::collections::hash_map::DefaultHasher::new();
                    let mut h2 = std::collections::hash_map::DefaultHasher::new();
                    pool[r].hash(&mut h1);
                    pool[s].hash(&mut h2);
                    (e, h1.finish() == h2.finish())
                }));
                let want = spec[r] == spec[s];
                match res {
                    Ok((e, h)) => {
                        // equal values must hash equally
                        ctx.out.r("C11", "bitops", !e || h, &["eq_implies_same_hash", "bitops", &ks, &hist, &step.to_string()]);
                        (e.to_string(), want.to_string())
                    }
                    Err(_) => ("panic".into(), want.to_string()),
                }
            }
            _ => ("bad-op".into(), "bad-op".into()),
        };
        if io != so {
            ctx.out.r(prop, "bitops", false, &["differs_from_boolean_sequence", "bitops", &ks, &hist, &step.to_string(), &io, &so]);
            // resynchronise the reference with what the implementation holds, so later steps are judged on their own
            if let (Some(last), true) = (pool.last(), pool.len() == spec.len()) {
                if let Ok(b) = catch_unwind(AssertUnwindSafe(|| last.bits_())) {
                    *spec.last_mut().unwrap() = b;
                }
            }
            if f[0] == "set" || f[0] == "shift" || f[0] == "diffin" {
                let r = idx(f[1]);
                if let Ok(b) = catch_unwind(AssertUnwindSafe(|| pool[r].bits_())) {
                    spec[r] = b;
                }
            }
            if pool.len() != spec.len() {
                // one side produced a value and the other did not: drop back to the common prefix
                let n = pool.len().min(spec.len());
                pool.truncate(n);
                spec.truncate(n);
                outs.push(io);
                break;
            }
        } else {
            ctx.out.r(prop, "bitops", true, &[]);
        }
        if let Some(last) = pool.last() {
            // whatever operation produced it, a value's encoding is the specified encoding of its bits (C03)
            let enc_ok = catch_unwind(AssertUnwindSafe(|| last.as_ssz_bytes() == spec_enc(kind, &last.bits_()) && last.ssz_bytes_len() == last.as_ssz_bytes().len())).unwrap_or(false);
            ctx.out.r("C03", "bitops", enc_ok, &["encoding_of_operation_result_is_spec_encoding", "bitops", &ks, &hist, &step.to_string()]);
            ctx.out.r("C07", "bitops", enc_ok, &["encoding_of_operation_result_is_spec_encoding", "bitops", &ks, &hist, &step.to_string()]);
            let okp = catch_unwind(AssertUnwindSafe(|| last.iter_protocol_())).unwrap_or(false);
            ctx.out.r("C11", "bitops", okp, &["iteration_protocol_agrees_with_boolean_sequence", "bitops", &ks, &hist, &step.to_string()]);
        }
        // C13: the behaviour's length invariant holds for everything in the pool
        if let Some(last) = pool.last() {
            ctx.out.r("C13", "bitops", kind.len_ok(last.len_()), &["length_bound", "bitops", &ks, &hist, &step.to_string()]);
            // the bound also holds for what the value's own encoding says it holds: decoding it gives the same length
            // C01 on values reached through operations: the encoding of the value decodes back to it
            let rt = catch_unwind(AssertUnwindSafe(|| matches!(B::from_ssz_bytes(&last.as_ssz_bytes()), Ok(x) if x == *last))).unwrap_or(false);
            ctx.out.r("C01", "bitops", rt, &["round_trip_of_operation_result", "bitops", &ks, &hist, &step.to_string()]);
            let re = catch_unwind(AssertUnwindSafe(|| B::from_ssz_bytes(&last.as_ssz_bytes()).map(|x| x.len_()).ok()));
            ctx.out.r("C13", "bitops", matches!(&re, Ok(Some(l)) if *l == last.len_() && kind.len_ok(*l)), &["encoding_carries_the_same_length", "bitops", &ks, &hist, &step.to_string()]);
            let sl = last.slice_();
            let l = last.len_();
            let minimal = sl.len() == std::cmp::max(1, (l + 7) / 8);
            let clean = (l..sl.len() * 8).all(|i| sl[i / 8] & (1 << (i % 8)) == 0);
            ctx.out.r(if prop == "C12" { "C12" } else { "C11" }, "bitops", minimal && clean, &["byte_view_minimal_and_clean", "bitops", &ks, &hist, &step.to_string()]);
        }
        outs.push(io);
    }
    let executed = outs.len();
    let hist_exec = ops[..executed].join(";");
    ctx.out.m("bitops", &outs.join(";"), &["bitops", &ks, &hist_exec]);
    ctx.out.bump_by(&format!("bitops.ops.{}", ks), executed as u64);
}

pub fn run_bitops<B: BK>(ctx: &mut Ctx) {
    let kind = B::kind();
    let mut h: u64 = 0x1234;
    for b in kind.s().bytes() {
        h = (h ^ b as u64).wrapping_mul(0x100000001b3);
    }
    let mut g = Rng::new(ctx.seed ^ h);
    let nh = if ctx.thorough { 120 } else { 12 };
    let cap = match kind {
        Kind::V(n) | Kind::F(n) => n,
        Kind::D => 32,
    };
    let n_ops = if cap > 300 { 16 } else { 40 };
    for _ in 0..nh {
        let ops = gen_ops(&mut g, kind, n_ops);
        run_history::<B>(ctx, &ops);
    }
    // operand pairs whose lengths straddle a byte / word boundary, for the larger capacities: the shorter operand ends
    // exactly at the boundary, the longer one has its only extra bit right behind it
    if let Kind::V(n) = kind {
        if n > 17 {
            for lb in [8usize, 16, 24, 32, 56, 64, 72, 120, 128, 136, 192, 256, 320, 512, 1024, 2048, 4088] {
                for extra in [1usize, 2, 8, 9] {
                    let la = lb + extra;
                    if la > n {
                        continue;
                    }
                    let full_b = vec![true; lb];
                    let sparse_b: Vec<bool> = (0..lb).map(|i| i % 3 != 1).collect();
                    for b in [full_b, sparse_b] {
                        let only_extra: Vec<bool> = (0..la).map(|i| i == lb).collect();
                        let prefix_plus: Vec<bool> = (0..la).map(|i| if i < lb { b[i] && i % 2 == 0 } else { i == lb }).collect();
                        let prefix_only: Vec<bool> = (0..la).map(|i| i < lb && b[i]).collect();
                        let last_extra: Vec<bool> = (0..la).map(|i| i == la - 1).collect();
                        for a in [only_extra, prefix_plus, prefix_only, last_extra] {
                            let ops = vec![
                                format!("bits {}", bits_str(a.iter().copied())),
                                format!("bits {}", bits_str(b.iter().copied())),
                                "subset 0 1".to_string(),
                                "subset 1 0".to_string(),
                                "union 0 1".to_string(),
                                "inter 0 1".to_string(),
                                "diff 0 1".to_string(),
                                "diff 1 0".to_string(),
                                "union 1 0".to_string(),
                                "inter 1 0".to_string(),
                                "subset 3 0".to_string(),
                                "subset 0 2".to_string(),
                                "eq 2 6".to_string(),
                            ];
                            run_history::<B>(ctx, &ops);
                        }
                    }
                }
            }
        }
    }
    // systematic operand pairs (C12): all length pairs for small capacities with a few patterns,
    // all bit patterns for lengths <= 4 (<= 5 in the thorough tier)
    if cap <= 17 || kind == Kind::D {
        let lens: Vec<usize> = match kind {
            Kind::V(n) => (0..=n).collect(),
            Kind::F(n) => vec![n],
            Kind::D => vec![8, 16, 24],
        };
        for &la in &lens {
            for &lb in &lens {
                let full = if ctx.thorough { 5 } else { 3 };
                let pats = |l: usize, g: &mut Rng| -> Vec<Vec<bool>> {
                    if l <= full {
                        (0..(1usize << l)).map(|m| (0..l).map(|i| m >> i & 1 == 1).collect()).collect()
                    } else {
                        vec![vec![true; l], (0..l).map(|i| i % 2 == 0).collect(), (0..l).map(|_| g.bool()).collect()]
                    }
                };
                for a in pats(la, &mut g) {
                    for b in pats(lb, &mut g) {
                        let ops = vec![
                            format!("bits {}", bits_str(a.iter().copied())),
                            format!("bits {}", bits_str(b.iter().copied())),
                            "union 0 1".to_string(),
                            "inter 0 1".to_string(),
                            "diff 0 1".to_string(),
                            "subset 0 1".to_string(),
                            "subset 4 0".to_string(),
                            "eq 0 1".to_string(),
                        ];
                        run_history::<B>(ctx, &ops);
                    }
                }
            }
        }
    }
}

// ---------------------------------------------------------------------------------------------
// bitbytes: byte-level API vs SSZ codec vs validity predicates (C13, C14)

fn byte_strings(g: &mut Rng, n: usize, thorough: bool) -> Vec<Vec<u8>> {
    let mut out: Vec<Vec<u8>> = vec![vec![]];
    for x in 0..=255u8 {
        out.push(vec![x]);
    }
    let step = if thorough { 3 } else { 17 };
    let mut a = 0usize;
    while a < 256 {
        for b in 0..=255u8 {
            out.push(vec![a as u8, b]);
        }
        a += step;
    }
    let nb = (n + 7) / 8;
    for len in nb.saturating_sub(1)..=nb + 2 {
        if len < 3 || len > 600 {
            continue;
        }
        for fill in [0u8, 0xff] {
            for last in [0u8, 1, 2, 0x7f, 0x80, 0xff, 1 << (n % 8), (1u16 << (n % 8)).wrapping_sub(1) as u8, ((1u16 << ((n % 8) + 1)) - 1) as u8] {
                for prev in [0u8, 0xff, 0x80] {
                    let mut v = vec![fill; len];
                    v[len - 1] = last;
                    v[len - 2] = prev;
                    out.push(v);
                }
            }
        }
        for _ in 0..(if thorough { 40 } else { 8 }) {
            out.push((0..len).map(|_| g.next() as u8).collect());
        }
    }
    // lengths around storage and word boundaries, whatever the capacity (for small capacities these are
    // over-long and must be rejected): a few fills with a delimiter-like, a full and a zero last byte
    for len in [3usize, 4, 5, 8, 9, 15, 16, 17, 31, 32, 33, 63, 64, 65, 127, 128, 129, 130, 255, 256, 257, 511, 512, 513] {
        for fill in [0u8, 0xff] {
            for last in [0u8, 1, 0x80, 0xff] {
                let mut v = vec![fill; len];
                v[len - 1] = last;
                out.push(v);
            }
        }
        let mut v: Vec<u8> = (0..len).map(|_| g.next() as u8).collect();
        v[len - 1] = 1;
        out.push(v);
    }
    out
}

pub fn run_bitbytes<B: BK>(ctx: &mut Ctx) {
    let kind = B::kind();
    let ks = kind.s();
    let n = match kind {
        Kind::V(n) | Kind::F(n) => n,
        Kind::D => 24,
    };
    let mut g = Rng::new(ctx.seed ^ 0xb17b ^ (n as u64) << 8);
    let mut seen = std::collections::HashSet::new();
    for b in byte_strings(&mut g, n, ctx.thorough) {
        if !seen.insert(b.clone()) {
            continue;
        }
        let hx = hex(&b);
        let r = catch_unwind(AssertUnwindSafe(|| B::from_bytes_(&b)));
        let s = match &r {
            Ok(Ok(x)) => format!("ok {} {}", bits_str(x.bits_().into_iter()), x.len_()),
            Ok(Err(_)) => "err".to_string(),
            Err(_) => "panic".to_string(),
        };
        ctx.out.m("bitbytes", &s, &["bf_from", &ks, &hx]);
        ctx.out.r("C05", "bitbytes", r.is_ok(), &["from_bytes_no_panic", "bf_from", &ks, &hx]);
        // accept set = the validity predicate of the property text, evaluated by the Lean Spec
        let accepted = matches!(&r, Ok(Ok(_)));
        match kind {
            Kind::V(nn) => ctx.out.o("C14", "bitbytes", &accepted.to_string(), &["spec_bitlist_valid", &nn.to_string(), &hx]),
            Kind::F(nn) => ctx.out.o("C14", "bitbytes", &accepted.to_string(), &["spec_bitvector_valid", &nn.to_string(), &hx]),
            Kind::D => ctx.out.r("C14", "bitbytes", accepted == !b.is_empty(), &["dynamic_accepts_nonempty", "bf_from", &ks, &hx]),
        }
        // the byte-level function and the SSZ decoder agree on acceptance and value
        let d = catch_unwind(AssertUnwindSafe(|| B::from_ssz_bytes(&b)));
        let same = match (&r, &d) {
            (Ok(Ok(x)), Ok(Ok(y))) => x == y,
            (Ok(Err(_)), Ok(Err(_))) => true,
            _ => false,
        };
        ctx.out.r("C14", "bitbytes", same, &["from_bytes_equals_ssz_decode", "bf_from", &ks, &hx]);
        if let Ok(Ok(x)) = &r {
            ctx.out.bump(&format!("bitbytes.{}.ok", ks));
            ctx.out.r("C13", "bitbytes", kind.len_ok(x.len_()), &["length_bound", "bf_from", &ks, &hx]);
            let enc = x.as_ssz_bytes();
            let into = x.clone().into_bytes_();
            ctx.out.r("C14", "bitbytes", enc == into && into == b, &["into_bytes_equals_ssz_encode_and_input", "bf_from", &ks, &hx]);
            ctx.out.r("C14", "bitbytes", x.ssz_bytes_len() == enc.len(), &["ssz_bytes_len", "bf_from", &ks, &hx]);
            // SSZ encoding through `ssz_append` onto non-empty buffers equals `into_bytes`
            let mut app_ok = true;
            for pre in [vec![0xA5u8], vec![0u8; 7], vec![0xffu8; 8]] {
                let mut buf = pre.clone();
                x.ssz_append(&mut buf);
                app_ok &= buf[..pre.len()] == pre[..] && buf[pre.len()..] == into[..];
            }
            ctx.out.r("C14", "bitbytes", app_ok, &["ssz_append_equals_into_bytes", "bf_from", &ks, &hx]);
            ctx.out.r("C10", "bitbytes", app_ok, &["ssz_append_equals_into_bytes", "bf_from", &ks, &hx]);
            let raw = x.clone().raw_();
            ctx.out.r("C14", "bitbytes", raw == x.slice_(), &["into_raw_bytes_is_slice", "bf_from", &ks, &hx]);
            let val = bits_str(x.bits_().into_iter());
            ctx.out.m("bitbytes", &format!("ok {}", hex(&into)), &["bf_into", &ks, &val]);
            if let Some(disp) = x.display_() {
                ctx.out.m("bitbytes", &disp, &["bf_display", &val]);
                ctx.out.r("C11", "bitbytes", disp == val[1..], &["display_is_bit_string", "bf_from", &ks, &hx]);
            }
        } else {
            ctx.out.bump(&format!("bitbytes.{}.err", ks));
        }
    }
    // constructors with requested lengths
    let nb8 = 8 * ((n + 7) / 8);
    let mut lens = vec![0, 1, n.saturating_sub(1), n, n + 1, nb8, nb8 + 1, 7, 8, 9, 16];
    // absurd requests must fail with an error, not overflow (lengths that are multiples of 8 are left out
    // for the dynamic behaviour: those are honest requests for an enormous allocation)
    lens.extend([usize::MAX, usize::MAX - 1, usize::MAX - 6, (1usize << 63) + 1, (1usize << 32) + 3]);
    lens.sort();
    lens.dedup();
    for l in lens {
        if l > 5000 && l < (1usize << 32) {
            continue;
        }
        let r = catch_unwind(AssertUnwindSafe(|| B::new_n(l)));
        let s = match &r {
            Ok(Ok(x)) => format!("ok {} {}", bits_str(x.bits_().into_iter()), x.len_()),
            Ok(Err(_)) => "err".into(),
            Err(_) => "panic".into(),
        };
        ctx.out.m("bitbytes", &s, &["bf_new", &ks, &l.to_string()]);
        let want_ok = match kind {
            Kind::V(nn) => l <= nn,
            Kind::F(_) => true,
            Kind::D => l > 0 && l % 8 == 0,
        };
        let good = match &r {
            Ok(Ok(x)) => want_ok && kind.len_ok(x.len_()) && x.is_zero_() && (matches!(kind, Kind::F(_)) || x.len_() == l) && x.is_empty_() == (x.len_() == 0),
            Ok(Err(_)) => !want_ok,
            Err(_) => false,
        };
        ctx.out.r("C13", "bitbytes", good, &["constructor_respects_bound", "bf_new", &ks, &l.to_string()]);
    }
}

pub fn run_withlen(ctx: &mut Ctx) {
    let mut g = Rng::new(ctx.seed ^ 0x771e);
    let mut cases: Vec<(Vec<u8>, usize)> = Vec::new();
    for nb in 0..=4usize {
        for _ in 0..(if ctx.thorough { 30 } else { 6 }) {
            let b: Vec<u8> = (0..nb).map(|_| g.byte()).collect();
            for l in [0, 1, 7, 8, 9, 8 * nb, 8 * nb + 1, (8 * nb).saturating_sub(1), (8 * nb).saturating_sub(8), 8 * nb + 8] {
                cases.push((b.clone(), l));
            }
        }
    }
    let mut seen = std::collections::HashSet::new();
    for (b, l) in cases {
        if !seen.insert((b.clone(), l)) {
            continue;
        }
        let r = catch_unwind(AssertUnwindSafe(|| BitVectorDynamic::from_bytes_with_len(SmallVec::from_slice(&b), l)));
        let s = match &r {
            Ok(Ok(x)) => format!("ok {} {}", bits_str(x.iter()), x.len()),
            Ok(Err(_)) => "err".into(),
            Err(_) => "panic".into(),
        };
        ctx.out.m("bitbytes", &s, &["bf_withlen", &hex(&b), &l.to_string()]);
        let want = !b.is_empty() && l == 8 * b.len();
        ctx.out.r("C14", "bitbytes", matches!(&r, Ok(Ok(_))) == want && r.is_ok(), &["from_bytes_with_len_accept_set", "bf_withlen", &hex(&b), &l.to_string()]);
        ctx.out.r("C13", "bitbytes", match &r { Ok(Ok(x)) => x.len() == l && l % 8 == 0 && l > 0, Ok(Err(_)) => true, Err(_) => false }, &["from_bytes_with_len_length", "bf_withlen", &hex(&b), &l.to_string()]);
        ctx.out.r("C05", "bitbytes", r.is_ok(), &["from_bytes_with_len_no_panic", "bf_withlen", &hex(&b), &l.to_string()]);
    }
}

/// `BitList<N>::resize::<M>` for fixed pairs (N, M)
pub fn run_resize<N: Unsigned + Clone, M: Unsigned + Clone>(ctx: &mut Ctx) {
    let (n, m) = (N::to_usize(), M::to_usize());
    ctx.out.r("C13", "bitbytes", BitList::<N>::max_len() == n && BitList::<M>::max_len() == m, &["max_len_is_capacity", "bf_resize", &n.to_string(), &m.to_string()]);
    let mut g = Rng::new(ctx.seed ^ 0x5e51 ^ ((n as u64) << 20) ^ m as u64);
    let mut lens = vec![0, 1, n / 2, n.saturating_sub(1), n];
    lens.retain(|l| *l <= n);
    lens.sort();
    lens.dedup();
    for l in lens {
        for pat in 0..3 {
            let bits: Vec<bool> = (0..l).map(|i| match pat { 0 => false, 1 => true, _ => { let _ = i; g.bool() } }).collect();
            let mut a = BitList::<N>::with_capacity(l).unwrap();
            for (i, v) in bits.iter().enumerate() {
                a.set(i, *v).unwrap();
            }
            let r = catch_unwind(AssertUnwindSafe(|| a.resize::<M>()));
            let s = match &r {
                Ok(Ok(x)) => format!("ok {} {}", bits_str(x.iter()), x.len()),
                Ok(Err(_)) => "err".into(),
                Err(_) => "panic".into(),
            };
            let val = bits_str(bits.iter().copied());
            ctx.out.m("bitbytes", &s, &["bf_resize", &n.to_string(), &m.to_string(), &val]);
            let good = match &r {
                Ok(Ok(x)) => {
                    n <= m && x.len() <= m && (0..x.len()).all(|i| x.get(i).unwrap() == at(&bits, i))
                }
                Ok(Err(_)) => n > m,
                Err(_) => false,
            };
            ctx.out.r("C13", "bitbytes", good, &["resize_preserves_set_bits_or_fails", "bf_resize", &n.to_string(), &m.to_string(), &val]);
        }
    }
}

/// capacities outside the catalogue and one very long input: only implementation-side oracles
pub fn run_bit_extremes(ctx: &mut Ctx) {
    use typenum::{Shleft, Sub1, U1, U1099511627776, U64};
    type CapMax = Sub1<Shleft<U1, U64>>; // usize::MAX
    fn small<N: Unsigned + Clone>(ctx: &mut Ctx, name: &str) {
        for b in [vec![], vec![0u8], vec![1], vec![0x1f], vec![0xff, 0x01], vec![0, 0, 0x80], vec![0xff; 9]] {
            let hx = hex(&b);
            let r1 = catch_unwind(AssertUnwindSafe(|| BitList::<N>::from_bytes(SmallVec::from_slice(&b))));
            let r2 = catch_unwind(AssertUnwindSafe(|| BitList::<N>::from_ssz_bytes(&b)));
            ctx.out.r("C05", "bitbytes", r1.is_ok() && r2.is_ok(), &["extreme_capacity_no_panic", "bit-extremes", name, &hx]);
            let same = match (&r1, &r2) {
                (Ok(Ok(x)), Ok(Ok(y))) => x == y,
                (Ok(Err(_)), Ok(Err(_))) => true,
                _ => false,
            };
            ctx.out.r("C14", "bitbytes", same, &["extreme_capacity_from_bytes_equals_ssz_decode", "bit-extremes", name, &hx]);
            // validity rule: non-empty, last byte non-zero, (highest set bit <= N is vacuous here)
            let want = !b.is_empty() && *b.last().unwrap() != 0;
            ctx.out.r("C14", "bitbytes", matches!(&r1, Ok(Ok(_))) == want, &["extreme_capacity_accept_set", "bit-extremes", name, &hx]);
            if let Ok(Ok(x)) = &r1 {
                let back = catch_unwind(AssertUnwindSafe(|| x.as_ssz_bytes()));
                ctx.out.r("C14", "bitbytes", matches!(&back, Ok(e) if *e == b), &["extreme_capacity_reencode", "bit-extremes", name, &hx]);
            }
        }
    }
    small::<U1099511627776>(ctx, "BL2^40");
    small::<CapMax>(ctx, "BLusizeMAX");
    small::<Sub1<CapMax>>(ctx, "BLusizeMAX-1");
    small::<Sub1<Shleft<U1, typenum::U63>>>(ctx, "BL2^63-1");
    small::<Shleft<U1, typenum::U63>>(ctx, "BL2^63");
    // bitvectors whose size is within a byte of usize::MAX (and other sizes no input can have): every input is
    // rejected with an error, metadata is max(1, ceil(N/8)) on both sides, nothing overflows
    fn fixed<N: Unsigned + Clone>(ctx: &mut Ctx, name: &str) {
        let n = N::to_usize();
        let want_len = std::cmp::max(1, n / 8 + (n % 8 != 0) as usize);
        let meta = catch_unwind(AssertUnwindSafe(|| {
            (<ssz::BitVector<N> as ssz::Encode>::is_ssz_fixed_len(), <ssz::BitVector<N> as ssz::Encode>::ssz_fixed_len(),
             <ssz::BitVector<N> as ssz::Decode>::is_ssz_fixed_len(), <ssz::BitVector<N> as ssz::Decode>::ssz_fixed_len())
        }));
        ctx.out.r("C05", "bitbytes", meta.is_ok(), &["extreme_bitvector_metadata_no_panic", "bit-extremes", name]);
        ctx.out.r("C14", "bitbytes", matches!(&meta, Ok((true, a, true, b)) if *a == want_len && *b == want_len), &["extreme_bitvector_fixed_len", "bit-extremes", name]);
        for b in [vec![], vec![0u8], vec![1], vec![0xff; 8], vec![0; 9], vec![0x5a; 32], vec![0; 4096]] {
            let hx = hex(&b);
            let r1 = catch_unwind(AssertUnwindSafe(|| ssz::BitVector::<N>::from_bytes(SmallVec::from_slice(&b)).map(|_| ())));
            let r2 = catch_unwind(AssertUnwindSafe(|| ssz::BitVector::<N>::from_ssz_bytes(&b).map(|_| ())));
            let r3 = catch_unwind(AssertUnwindSafe(|| <Vec<ssz::BitVector<N>> as ssz::Decode>::from_ssz_bytes(&b).map(|v| v.len())));
            let r4 = catch_unwind(AssertUnwindSafe(|| <(u8, ssz::BitVector<N>) as ssz::Decode>::from_ssz_bytes(&b).map(|_| ())));
            ctx.out.r("C05", "bitbytes", r1.is_ok() && r2.is_ok() && r3.is_ok() && r4.is_ok(), &["extreme_bitvector_no_panic", "bit-extremes", name, &hx]);
            // no input of these sizes has the required length
            ctx.out.r("C14", "bitbytes", matches!(&r1, Ok(Err(_))) && matches!(&r2, Ok(Err(_))), &["extreme_bitvector_rejects", "bit-extremes", name, &hx]);
            ctx.out.r("C14", "bitbytes", matches!(&r3, Ok(Err(_)) | Ok(Ok(0))) && (matches!(&r3, Ok(Ok(0))) == b.is_empty()) && matches!(&r4, Ok(Err(_))), &["extreme_bitvector_nested_rejects", "bit-extremes", name, &hx]);
        }
    }
    fixed::<CapMax>(ctx, "BVusizeMAX");
    fixed::<Sub1<CapMax>>(ctx, "BVusizeMAX-1");
    fixed::<Sub1<Sub1<CapMax>>>(ctx, "BVusizeMAX-2");
    fixed::<typenum::Diff<CapMax, typenum::U6>>(ctx, "BVusizeMAX-6");
    fixed::<typenum::Diff<CapMax, typenum::U7>>(ctx, "BVusizeMAX-7");
    fixed::<typenum::Diff<CapMax, typenum::U8>>(ctx, "BVusizeMAX-8");
    fixed::<Shleft<U1, typenum::U63>>(ctx, "BV2^63");
    fixed::<Sub1<Shleft<U1, typenum::U63>>>(ctx, "BV2^63-1");
    fixed::<U1099511627776>(ctx, "BV2^40");
    fixed::<typenum::Sum<U1099511627776, U1>>(ctx, "BV2^40+1");
    {
        // a bitlist whose length does not fit 32 bits: 2^29 + 1 bytes, delimiter in the last byte
        let n = (1usize << 29) + 1;
        let mut b = vec![0u8; n];
        b[n - 1] = 1;
        b[5] = 0x10;
        let r = catch_unwind(AssertUnwindSafe(|| BitList::<U1099511627776>::from_ssz_bytes(&b)));
        let ok = match &r {
            Ok(Ok(x)) => x.len() == 8 * (n - 1) && x.num_set_bits() == 1 && x.highest_set_bit() == Some(44) && x.get(44) == Ok(true),
            _ => false,
        };
        ctx.out.r("C14", "bitbytes", ok, &["huge_bitlist_accepted_with_right_length", "bit-extremes", "BL2^40", "2^29+1 bytes"]);
        ctx.out.r("C05", "bitbytes", r.is_ok(), &["huge_bitlist_no_panic", "bit-extremes", "BL2^40", "2^29+1 bytes"]);
    }
}

// ---------------------------------------------------------------------------------------------
// serde (C18)

/// a serializer that is NOT human readable and records what it is given (the serde form must not depend on it)
pub struct Rec(pub Option<String>);
#[derive(Debug)]
pub struct RecErr(String);
impl std::fmt::Display for RecErr {
    fn fmt(&self, f: &mut std::fmt::Formatter<'_>) -> std::fmt::Result { write!(f, "{}", self.0) }
}
impl std::error::Error for RecErr {}
impl serde::ser::Error for RecErr {
    fn custom<T: std::fmt::Display>(m: T) -> Self { RecErr(m.to_string()) }
}
macro_rules! rec_unsupported {
    ($($name:ident($t:ty)),*) => { $(fn $name(self, _v: $t) -> Result<(), RecErr> { self.0 = Some(format!("<{}>", stringify!($name))); Ok(()) })* };
}
impl<'a> serde::Serializer for &'a mut Rec {
    type Ok = ();
    type Error = RecErr;
    type SerializeSeq = serde::ser::Impossible<(), RecErr>;
    type SerializeTuple = serde::ser::Impossible<(), RecErr>;
    type SerializeTupleStruct = serde::ser::Impossible<(), RecErr>;
    type SerializeTupleVariant = serde::ser::Impossible<(), RecErr>;
    type SerializeMap = serde::ser::Impossible<(), RecErr>;
    type SerializeStruct = serde::ser::Impossible<(), RecErr>;
    type SerializeStructVariant = serde::ser::Impossible<(), RecErr>;
    fn is_human_readable(&self) -> bool { false }
    fn serialize_str(self, v: &str) -> Result<(), RecErr> { self.0 = Some(v.to_string()); Ok(()) }
    fn serialize_bytes(self, v: &[u8]) -> Result<(), RecErr> { self.0 = Some(format!("<bytes {}>", hex(v))); Ok(()) }
    rec_unsupported!(serialize_bool(bool), serialize_i8(i8), serialize_i16(i16), serialize_i32(i32), serialize_i64(i64),
        serialize_u8(u8), serialize_u16(u16), serialize_u32(u32), serialize_u64(u64), serialize_f32(f32), serialize_f64(f64), serialize_char(char));
    fn serialize_none(self) -> Result<(), RecErr> { self.0 = Some("<none>".into()); Ok(()) }
    fn serialize_some<T: ?Sized + serde::Serialize>(self, _v: &T) -> Result<(), RecErr> { self.0 = Some("<some>".into()); Ok(()) }
    fn serialize_unit(self) -> Result<(), RecErr> { self.0 = Some("<unit>".into()); Ok(()) }
    fn serialize_unit_struct(self, _n: &'static str) -> Result<(), RecErr> { self.0 = Some("<unit_struct>".into()); Ok(()) }
    fn serialize_unit_variant(self, _n: &'static str, _i: u32, _v: &'static str) -> Result<(), RecErr> { self.0 = Some("<unit_variant>".into()); Ok(()) }
    fn serialize_newtype_struct<T: ?Sized + serde::Serialize>(self, _n: &'static str, _v: &T) -> Result<(), RecErr> { self.0 = Some("<newtype>".into()); Ok(()) }
    fn serialize_newtype_variant<T: ?Sized + serde::Serialize>(self, _n: &'static str, _i: u32, _v: &'static str, _x: &T) -> Result<(), RecErr> { self.0 = Some("<newtype_variant>".into()); Ok(()) }
    fn serialize_seq(self, _l: Option<usize>) -> Result<Self::SerializeSeq, RecErr> { Err(RecErr("seq".into())) }
    fn serialize_tuple(self, _l: usize) -> Result<Self::SerializeTuple, RecErr> { Err(RecErr("tuple".into())) }
    fn serialize_tuple_struct(self, _n: &'static str, _l: usize) -> Result<Self::SerializeTupleStruct, RecErr> { Err(RecErr("tuple_struct".into())) }
    fn serialize_tuple_variant(self, _n: &'static str, _i: u32, _v: &'static str, _l: usize) -> Result<Self::SerializeTupleVariant, RecErr> { Err(RecErr("tuple_variant".into())) }
    fn serialize_map(self, _l: Option<usize>) -> Result<Self::SerializeMap, RecErr> { Err(RecErr("map".into())) }
    fn serialize_struct(self, _n: &'static str, _l: usize) -> Result<Self::SerializeStruct, RecErr> { Err(RecErr("struct".into())) }
    fn serialize_struct_variant(self, _n: &'static str, _i: u32, _v: &'static str, _l: usize) -> Result<Self::SerializeStructVariant, RecErr> { Err(RecErr("struct_variant".into())) }
}

pub fn run_serde<B: BK>(ctx: &mut Ctx) {
    let kind = B::kind();
    let ks = kind.s();
    let n = match kind {
        Kind::V(n) | Kind::F(n) => n,
        Kind::D => 16,
    };
    let mut g = Rng::new(ctx.seed ^ 0x5e4de ^ (n as u64) << 8);
    // values
    let nv = if ctx.thorough { 40 } else { 8 };
    let mut strings: Vec<String> = Vec::new();
    for k in 0..nv {
        let l = match kind {
            Kind::V(nn) => if k == 0 { 0 } else if k == 1 { nn } else { g.below(nn + 1) },
            Kind::F(nn) => nn,
            Kind::D => 8 * (1 + g.below(3)),
        };
        if l > 4000 {
            continue;
        }
        let Ok(mut x) = B::new_n(l) else { continue };
        for i in 0..x.len_() {
            let _ = x.set_(i, g.bool());
        }
        let val = bits_str(x.bits_().into_iter());
        let r = catch_unwind(AssertUnwindSafe(|| serde_json::to_value(&x)));
        let s = match &r {
            Ok(Ok(serde_json::Value::String(s))) => format!("ok {}", hex(s.as_bytes())),
            Ok(Ok(_)) => "not-a-string".into(),
            Ok(Err(_)) => "err".into(),
            Err(_) => "panic".into(),
        };
        ctx.out.m("serde", &s, &["serde_ser", &ks, &val]);
        if let Ok(Ok(serde_json::Value::String(st))) = &r {
            let want = format!("0x{}", hex(&x.as_ssz_bytes()));
            ctx.out.r("C18", "serde", *st == want, &["serialize_is_0x_hex_of_ssz", "serde_ser", &ks, &val]);
            // the same through a serializer that is not human readable, and through deserializers that hand out an
            // owned string or read from a reader (the form must not depend on the data format)
            let mut rec = Rec(None);
            let _ = serde::Serialize::serialize(&x, &mut rec);
            ctx.out.r("C18", "serde", rec.0.as_deref() == Some(want.as_str()), &["serialize_is_0x_hex_for_any_serializer", "serde_ser", &ks, &val]);
            let txt_esc = format!("\"\\u0030{}\"", &want[1..]);
            let back3: Result<B, _> = serde_json::from_str(&txt_esc);
            ctx.out.r("C18", "serde", matches!(&back3, Ok(y) if *y == x), &["deserialize_from_escaped_literal", "serde_ser", &ks, &val]);
            let back4: Result<B, _> = serde_json::from_reader(std::io::Cursor::new(format!("\"{}\"", want).into_bytes()));
            ctx.out.r("C18", "serde", matches!(&back4, Ok(y) if *y == x), &["deserialize_from_reader", "serde_ser", &ks, &val]);
            let back: Result<B, _> = serde_json::from_value(serde_json::Value::String(st.clone()));
            ctx.out.r("C18", "serde", matches!(&back, Ok(y) if *y == x), &["serde_roundtrip", "serde_ser", &ks, &val]);
            // through the text layer as well
            let txt = serde_json::to_string(&x).unwrap();
            let back2: Result<B, _> = serde_json::from_str(&txt);
            ctx.out.r("C18", "serde", matches!(&back2, Ok(y) if *y == x), &["serde_text_roundtrip", "serde_ser", &ks, &val]);
            strings.push(st.clone());
            // derived malformed strings
            strings.push(st.to_uppercase().replacen("0X", "0x", 1));
            strings.push(st.to_uppercase());
            strings.push(st[2..].to_string());
            strings.push(format!("{}0", st));
            strings.push(format!("{}00", st));
            strings.push(format!("{}g0", st));
            strings.push(format!(" {}", st));
            strings.push(format!("{} ", st));
            strings.push(format!("0x0x{}", &st[2..]));
            if st.len() > 3 {
                strings.push(st[..st.len() - 1].to_string());
                strings.push(st[..st.len() - 2].to_string());
                let mut c: Vec<char> = st.chars().collect();
                let i = 2 + g.below(c.len() - 2);
                c[i] = *g.pick(&['0', '1', 'f', 'F', 'a', 'A', 'g', 'x', ' ', 'é']);
                strings.push(c.into_iter().collect());
            }
        }
    }
    // every printable ASCII character (and a few others) at the two positions of the first and of the last byte
    // of one valid string: anything that is not a hex digit must be refused
    if let Some(st) = strings.iter().find(|s| s.len() >= 4 && s.starts_with("0x")).cloned() {
        let c: Vec<char> = st.chars().collect();
        let mut pos = vec![2usize, 3, c.len() - 2, c.len() - 1, 0, 1];
        pos.dedup();
        for p in pos {
            for ch in (0x20u8..0x7f).map(|b| b as char).chain(['\t', '\n', '\0', 'é', '０', 'Ａ']) {
                let mut d = c.clone();
                d[p] = ch;
                strings.push(d.into_iter().collect());
            }
        }
    }
    for s in ["", "0", "0x", "0X", "x", "0x0", "0x00", "0x01", "0xff", "0xFF", "0xfF", "00", "0x ", "0x0g", "0x+1", "0x-1", "0x+f", "0x1+", "0x 1", "0x1 ", "0x_1", "0x1_", "0x0x", "0x0X01", "+0x01", "0x00+1", "0xé", "0x0001", "0x0100", "1x00", "0x00ff00"] {
        strings.push(s.to_string());
    }
    // hex of arbitrary (valid and invalid) SSZ strings
    for _ in 0..(if ctx.thorough { 200 } else { 40 }) {
        let len = g.below((n + 7) / 8 + 3).min(40);
        let b = g.bytes(len);
        strings.push(format!("0x{}", hex(&b)));
    }
    let mut seen = std::collections::HashSet::new();
    let mut places: Vec<B> = Vec::new();
    for st in strings {
        if !seen.insert(st.clone()) {
            continue;
        }
        let r = catch_unwind(AssertUnwindSafe(|| serde_json::from_value::<B>(serde_json::Value::String(st.clone()))));
        let s = match &r {
            Ok(Ok(x)) => format!("ok {} {}", bits_str(x.bits_().into_iter()), x.len_()),
            Ok(Err(_)) => "err".into(),
            Err(_) => "panic".into(),
        };
        let sh = hex(st.as_bytes());
        ctx.out.m("serde", &s, &["serde_de", &ks, &sh]);
        // oracle: succeeds exactly when 0x-prefixed even-length hex of bytes the SSZ decoder accepts
        let body = st.strip_prefix("0x");
        let hexok = body.map(|h| h.len() % 2 == 0 && h.bytes().all(|c| c.is_ascii_hexdigit())).unwrap_or(false);
        let want: Option<B> = if hexok {
            let b = crate::model::unhex(&body.unwrap().to_lowercase());
            B::from_ssz_bytes(&b).ok()
        } else {
            None
        };
        let good = match (&r, &want) {
            (Ok(Ok(x)), Some(y)) => x == y,
            (Ok(Err(_)), None) => true,
            _ => false,
        };
        ctx.out.r("C18", "serde", good, &["deserialize_accepts_exactly_hex_of_valid_ssz", "serde_de", &ks, &sh]);
        // `Deserialize::deserialize_in_place` into existing values of other lengths: same verdict, same value
        for place0 in places.iter() {
            let mut place = place0.clone();
            let rp = catch_unwind(AssertUnwindSafe(|| <B as serde::Deserialize>::deserialize_in_place(serde_json::Value::String(st.clone()), &mut place).is_ok()));
            let okp = match (&rp, &r) {
                (Ok(true), Ok(Ok(y))) => place == *y && impl_obs(&place) == impl_obs(y) && place.as_ssz_bytes() == y.as_ssz_bytes(),
                (Ok(false), Ok(Err(_))) => true,
                _ => false,
            };
            ctx.out.r("C18", "serde", okp, &["deserialize_in_place_equals_deserialize", "serde_de", &ks, &sh]);
        }
        if let Ok(Ok(x)) = &r {
            if places.len() < 6 && places.iter().all(|p| p.len_() != x.len_() || p != x) {
                places.push(x.clone());
            }
        }
        if let Ok(Ok(x)) = &r {
            ctx.out.r("C13", "serde", kind.len_ok(x.len_()), &["length_bound", "serde_de", &ks, &sh]);
        }
    }
}

// ---------------------------------------------------------------------------------------------
// arb (C20)

pub fn run_arb<B: BK + for<'a> arbitrary::Arbitrary<'a>>(ctx: &mut Ctx) {
    let kind = B::kind();
    let ks = kind.s();
    let n = match kind {
        Kind::V(n) | Kind::F(n) => n,
        Kind::D => return,
    };
    let mut g = Rng::new(ctx.seed ^ 0xa4b ^ (n as u64) << 8);
    let nb = (n + 7) / 8;
    let mut inputs: Vec<Vec<u8>> = vec![vec![]];
    for x in 0..=255u8 {
        inputs.push(vec![x]);
    }
    for a in [0u8, 1, 2, 7, 8, 9, 255] {
        for b in 0..=255u8 {
            inputs.push(vec![a, b]);
        }
    }
    for l in 0..=(nb + 9).min(160) {
        inputs.push(vec![0; l]);
        inputs.push(vec![0xff; l]);
        let mut v = vec![0u8; l];
        if l > 0 {
            v[0] = 1;
        }
        inputs.push(v);
    }
    // bitlists: 8-byte little-endian size word followed by `size` bytes
    for size in [0usize, 1, 2, nb, nb + 1, n, n + 1] {
        for last in [0u8, 1, 0x80, 0xff] {
            let mut v = (size as u64).to_le_bytes().to_vec();
            let sz = size.min(n).min(200);
            if sz > 0 {
                v.extend(vec![0u8; sz - 1]);
                v.push(last);
            }
            inputs.push(v);
        }
    }
    // size word 0 (and other small words) followed by arbitrary bytes
    for w in [0u64, 1, 2, 3] {
        for tail in [vec![1u8], vec![0xff], vec![0, 1], vec![0x80, 0x01, 0xff], vec![0xff; 9]] {
            let mut v = w.to_le_bytes().to_vec();
            v.extend(tail);
            inputs.push(v);
        }
    }
    for _ in 0..(if ctx.thorough { 400 } else { 60 }) {
        let l = g.below(nb + 12).min(170);
        inputs.push((0..l).map(|_| g.next() as u8).collect());
        let mut v = ((g.below(nb + 2)) as u64).to_le_bytes().to_vec();
        let l2 = g.below(nb + 3).min(170);
        v.extend((0..l2).map(|_| g.byte()));
        inputs.push(v);
    }
    let mut seen = std::collections::HashSet::new();
    let mut successes = 0u64;
    for d in inputs {
        if !seen.insert(d.clone()) {
            continue;
        }
        let r = catch_unwind(AssertUnwindSafe(|| {
            let mut u = arbitrary::Unstructured::new(&d);
            B::arbitrary(&mut u)
        }));
        // the provided method used for the last field of derived types and by fuzz targets
        let r2 = catch_unwind(AssertUnwindSafe(|| B::arbitrary_take_rest(arbitrary::Unstructured::new(&d))));
        {
            let s2 = match &r2 {
                Ok(Ok(x)) => format!("ok {} {}", bits_str(x.bits_().into_iter()), x.len_()),
                Ok(Err(_)) => "err".into(),
                Err(_) => "panic".into(),
            };
            ctx.out.m("arb", &s2, &["arb", &ks, &hex(&d)]);
            ctx.out.r("C20", "arb", r2.is_ok(), &["arbitrary_take_rest_no_panic", "arb", &ks, &hex(&d)]);
            if let Ok(Ok(x)) = &r2 {
                let rt = catch_unwind(AssertUnwindSafe(|| B::from_ssz_bytes(&x.as_ssz_bytes())));
                let sl = x.slice_();
                let clean = sl.len() == std::cmp::max(1, (x.len_() + 7) / 8) && (x.len_()..sl.len() * 8).all(|i| sl[i / 8] & (1 << (i % 8)) == 0);
                let valid = kind.len_ok(x.len_()) && clean && matches!(&rt, Ok(Ok(y)) if y == x);
                ctx.out.r("C20", "arb", valid, &["arbitrary_take_rest_value_is_valid", "arb", &ks, &hex(&d)]);
                ctx.out.r("C13", "arb", kind.len_ok(x.len_()) && clean, &["arbitrary_take_rest_value_is_valid", "arb", &ks, &hex(&d)]);
            }
        }
        let s = match &r {
            Ok(Ok(x)) => format!("ok {} {}", bits_str(x.bits_().into_iter()), x.len_()),
            Ok(Err(_)) => "err".into(),
            Err(_) => "panic".into(),
        };
        let hx = hex(&d);
        ctx.out.m("arb", &s, &["arb", &ks, &hx]);
        ctx.out.r("C20", "arb", r.is_ok(), &["arbitrary_no_panic", "arb", &ks, &hx]);
        if let Ok(Ok(x)) = &r {
            successes += 1;
            let rt = catch_unwind(AssertUnwindSafe(|| B::from_ssz_bytes(&x.as_ssz_bytes())));
            let sl = x.slice_();
            let clean = sl.len() == std::cmp::max(1, (x.len_() + 7) / 8) && (x.len_()..sl.len() * 8).all(|i| sl[i / 8] & (1 << (i % 8)) == 0);
            let valid = kind.len_ok(x.len_()) && clean && matches!(&rt, Ok(Ok(y)) if y == x);
            ctx.out.r("C20", "arb", valid, &["arbitrary_value_is_valid", "arb", &ks, &hx]);
        }
    }
    if n >= 1 {
        ctx.out.r("C20", "arb", successes > 0, &["some_input_succeeds", "arb-reach", &ks]);
    }
    ctx.out.bump_by(&format!("arb.{}.ok", ks), successes);
}

/// capacities whose low 32 bits are zero (and other very large ones): generation must still be able to succeed.
/// Only inputs with a small size word are used (the generator allocates `min(size word, N)` bytes)
pub fn run_arb_extremes(ctx: &mut Ctx) {
    use typenum::{U1099511627776, U4294967296};
    fn one<N: Unsigned + Clone + 'static>(ctx: &mut Ctx, name: &str) {
        let mut any = false;
        for d in [vec![1u8, 0, 0, 0, 0, 0, 0, 0, 1], vec![1, 0, 0, 0, 0, 0, 0, 0, 3], vec![2, 0, 0, 0, 0, 0, 0, 0, 0xff, 1], vec![0u8; 8], vec![]] {
            let r = catch_unwind(AssertUnwindSafe(|| {
                let mut u = arbitrary::Unstructured::new(&d);
                <BitList<N> as arbitrary::Arbitrary>::arbitrary(&mut u)
            }));
            ctx.out.r("C20", "arb", r.is_ok(), &["arbitrary_no_panic", "arb-extreme", name, &hex(&d)]);
            if let Ok(Ok(x)) = &r {
                any = true;
                let rt = BitList::<N>::from_ssz_bytes(&x.as_ssz_bytes());
                ctx.out.r("C20", "arb", matches!(&rt, Ok(y) if y == x), &["arbitrary_value_is_valid", "arb-extreme", name, &hex(&d)]);
            }
        }
        ctx.out.r("C20", "arb", any, &["some_input_succeeds", "arb-extreme", name]);
    }
    one::<U4294967296>(ctx, "BL2^32");
    one::<U1099511627776>(ctx, "BL2^40");
    {
        use typenum::{Shleft, Sub1, U1, U63, U64};
        one::<Sub1<Shleft<U1, U64>>>(ctx, "BLusizeMAX");
        one::<Sub1<Sub1<Shleft<U1, U64>>>>(ctx, "BLusizeMAX-1");
        one::<typenum::Diff<Sub1<Shleft<U1, U64>>, typenum::U7>>(ctx, "BLusizeMAX-7");
        one::<Shleft<U1, U63>>(ctx, "BL2^63");
        one::<Sub1<Shleft<U1, U63>>>(ctx, "BL2^63-1");
        one::<typenum::U10000000000000000000>(ctx, "BL10^19");
    }
    // large bitvectors: generation needs exactly ceil(N/8) bytes and zero-fills what the input lacks, so a short
    // input must succeed whatever N is (sizes a generator can really allocate)
    fn big_vector<N: Unsigned + Clone + 'static>(ctx: &mut Ctx, name: &str) {
        let mut any = false;
        for d in [vec![], vec![0u8; 3], vec![0xffu8; 2]] {
            let r = catch_unwind(AssertUnwindSafe(|| {
                let mut u = arbitrary::Unstructured::new(&d);
                <ssz::BitVector<N> as arbitrary::Arbitrary>::arbitrary(&mut u)
            }));
            ctx.out.r("C20", "arb", r.is_ok(), &["arbitrary_no_panic", "arb-extreme", name, &hex(&d)]);
            if let Ok(Ok(x)) = &r {
                any = true;
                let okv = x.len() == N::to_usize() && x.num_set_bits() == d.iter().map(|b| b.count_ones() as usize).sum::<usize>();
                ctx.out.r("C20", "arb", okv, &["arbitrary_value_is_valid", "arb-extreme", name, &hex(&d)]);
            }
        }
        ctx.out.r("C20", "arb", any, &["some_input_succeeds", "arb-extreme", name]);
    }
    {
        use typenum::{Shleft, Sum, U1, U20, U24, U27, U28, U8};
        big_vector::<Shleft<U1, U20>>(ctx, "BV2^20");
        big_vector::<Sum<Shleft<U1, U24>, U8>>(ctx, "BV2^24+8");
        big_vector::<Sum<Shleft<U1, U27>, U8>>(ctx, "BV2^27+8");
        big_vector::<Shleft<U1, U28>>(ctx, "BV2^28");
    }
}

/// Calls `$f::<B>($ctx)` for every bitfield behaviour / capacity of the catalogue.
#[macro_export]
macro_rules! for_each_bitfield {
    ($f:ident, $ctx:expr) => {{
        use ssz::{BitList, BitVector, BitVectorDynamic};
        use typenum::*;
        type N1025 = Sum<U1024, U1>;
        type Cap2049 = Sum<U2048, U1>;
        $f::<BitList<U0>>($ctx); $f::<BitList<U1>>($ctx); $f::<BitList<U2>>($ctx); $f::<BitList<U7>>($ctx);
        $f::<BitList<U8>>($ctx); $f::<BitList<U9>>($ctx); $f::<BitList<U15>>($ctx); $f::<BitList<U16>>($ctx);
        $f::<BitList<U17>>($ctx); $f::<BitList<U31>>($ctx); $f::<BitList<U32>>($ctx); $f::<BitList<U33>>($ctx);
        $f::<BitList<U63>>($ctx); $f::<BitList<U64>>($ctx); $f::<BitList<U65>>($ctx); $f::<BitList<U127>>($ctx);
        $f::<BitList<U128>>($ctx); $f::<BitList<U129>>($ctx); $f::<BitList<U255>>($ctx); $f::<BitList<U256>>($ctx);
        $f::<BitList<U257>>($ctx); $f::<BitList<U1023>>($ctx); $f::<BitList<U1024>>($ctx); $f::<BitList<N1025>>($ctx);
        $f::<BitList<Cap2049>>($ctx); $f::<BitList<U4095>>($ctx);
        $f::<BitVector<U0>>($ctx); $f::<BitVector<U1>>($ctx); $f::<BitVector<U2>>($ctx); $f::<BitVector<U7>>($ctx);
        $f::<BitVector<U8>>($ctx); $f::<BitVector<U9>>($ctx); $f::<BitVector<U15>>($ctx); $f::<BitVector<U16>>($ctx);
        $f::<BitVector<U17>>($ctx); $f::<BitVector<U31>>($ctx); $f::<BitVector<U32>>($ctx); $f::<BitVector<U33>>($ctx);
        $f::<BitVector<U63>>($ctx); $f::<BitVector<U64>>($ctx); $f::<BitVector<U65>>($ctx); $f::<BitVector<U127>>($ctx);
        $f::<BitVector<U128>>($ctx); $f::<BitVector<U129>>($ctx); $f::<BitVector<U255>>($ctx); $f::<BitVector<U256>>($ctx);
        $f::<BitVector<U257>>($ctx); $f::<BitVector<U1023>>($ctx); $f::<BitVector<U1024>>($ctx); $f::<BitVector<N1025>>($ctx);
        $f::<BitVector<Cap2049>>($ctx); $f::<BitVector<U4095>>($ctx);
    }};
}
