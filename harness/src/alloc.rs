//! Counting global allocator (never refuses a request; records sizes) and the `alloc` group.
use crate::codec::Ctx;
use crate::model::{hex, Model};
use std::alloc::{GlobalAlloc, Layout, System};
use std::panic::{catch_unwind, AssertUnwindSafe};
use std::sync::atomic::{AtomicBool, AtomicUsize, Ordering};

pub struct Counting;

static ON: AtomicBool = AtomicBool::new(false);
static TOTAL: AtomicUsize = AtomicUsize::new(0);
static LIVE: AtomicUsize = AtomicUsize::new(0);
static PEAK: AtomicUsize = AtomicUsize::new(0);
static MAXREQ: AtomicUsize = AtomicUsize::new(0);

unsafe impl GlobalAlloc for Counting {
    unsafe fn alloc(&self, l: Layout) -> *mut u8 {
        if ON.load(Ordering::Relaxed) {
            TOTAL.fetch_add(l.size(), Ordering::Relaxed);
            let live = LIVE.fetch_add(l.size(), Ordering::Relaxed) + l.size();
            PEAK.fetch_max(live, Ordering::Relaxed);
            MAXREQ.fetch_max(l.size(), Ordering::Relaxed);
        }
        System.alloc(l)
    }
    unsafe fn dealloc(&self, p: *mut u8, l: Layout) {
        if ON.load(Ordering::Relaxed) {
            let _ = LIVE.fetch_update(Ordering::Relaxed, Ordering::Relaxed, |x| Some(x.saturating_sub(l.size())));
        }
        System.dealloc(p, l)
    }
    unsafe fn realloc(&self, p: *mut u8, l: Layout, new: usize) -> *mut u8 {
        if ON.load(Ordering::Relaxed) {
            TOTAL.fetch_add(new, Ordering::Relaxed);
            MAXREQ.fetch_max(new, Ordering::Relaxed);
            if new > l.size() {
                let live = LIVE.fetch_add(new - l.size(), Ordering::Relaxed) + (new - l.size());
                PEAK.fetch_max(live, Ordering::Relaxed);
            } else {
                let _ = LIVE.fetch_update(Ordering::Relaxed, Ordering::Relaxed, |x| Some(x.saturating_sub(l.size() - new)));
            }
        }
        System.realloc(p, l, new)
    }
}

pub struct Measure {
    pub total: usize,
    pub peak: usize,
    pub max_req: usize,
}

/// runs `f` with the counters on; `f` must not be re-entered
pub fn measure<R>(f: impl FnOnce() -> R) -> (R, Measure) {
    TOTAL.store(0, Ordering::Relaxed);
    LIVE.store(0, Ordering::Relaxed);
    PEAK.store(0, Ordering::Relaxed);
    MAXREQ.store(0, Ordering::Relaxed);
    ON.store(true, Ordering::Relaxed);
    let r = f();
    ON.store(false, Ordering::Relaxed);
    (r, Measure { total: TOTAL.load(Ordering::Relaxed), peak: PEAK.load(Ordering::Relaxed), max_req: MAXREQ.load(Ordering::Relaxed) })
}

/// side log: the case about to be executed, so that an abort that cannot be caught (allocation
/// failure, stack overflow) is attributed to a concrete input
pub fn note_case(s: &str) {
    if let Ok(p) = std::env::var("VERIF_CASE_LOG") {
        let _ = std::fs::write(p, s);
    }
}

fn adversarial(fixed_part: usize) -> Vec<Vec<u8>> {
    // short inputs whose offset words announce huge counts / far-away items
    let mut out = Vec::new();
    for first in [4u32, 8, 1 << 10, 1 << 20, 1 << 24, 1 << 30, u32::MAX - 3, u32::MAX] {
        for extra in [0usize, 1, 4, 12] {
            let mut b = first.to_le_bytes().to_vec();
            b.extend(vec![0u8; extra]);
            out.push(b.clone());
            // the same word after a plausible fixed part
            let mut c = vec![0u8; fixed_part.min(64)];
            c.extend_from_slice(&b);
            out.push(c);
            let mut d = vec![1u8];
            d.extend_from_slice(&b);
            out.push(d);
        }
    }
    out
}

pub fn run_alloc<T: Model>(ctx: &mut Ctx) {
    let d = T::desc();
    let name = T::rust_name();
    let mut inputs: Vec<Vec<u8>> = Vec::new();
    let nv = if ctx.thorough { 20 } else { 3 };
    for i in 0..nv {
        let v = T::gen(&mut ctx.rng, 1 + i % 5);
        if let Ok(e) = catch_unwind(AssertUnwindSafe(|| v.as_ssz_bytes())) {
            let muts = crate::codec::mutations(&mut ctx.rng, &e, false);
            let take = if ctx.thorough { 200 } else { 24 };
            let step = (muts.len() / take).max(1);
            inputs.extend(muts.into_iter().step_by(step));
            // every 4-byte window of a valid encoding replaced by a huge offset word
            if i < 2 {
                for w in 0..(e.len().min(96) / 1) {
                    if w + 4 <= e.len() {
                        for word in [0x0100_0000u32, 0x7fff_fff0] {
                            let mut v = e.clone();
                            v[w..w + 4].copy_from_slice(&word.to_le_bytes());
                            inputs.push(v);
                        }
                    }
                }
            }
            inputs.push(e);
        }
    }
    inputs.extend(adversarial(<T as ssz::Decode>::ssz_fixed_len()));
    // a long run of plausible small offsets / items
    for n in [64usize, 1024] {
        inputs.push((0..n).map(|i| (i % 7) as u8).collect());
        inputs.push(vec![4u8; n]);
    }
    let mut seen = std::collections::HashSet::new();
    for b in inputs {
        if !seen.insert(b.clone()) {
            continue;
        }
        let hx = hex(&b);
        note_case(&format!("alloc\t{}\t{}", d, hx));
        let (r, m) = measure(|| {
            let r = catch_unwind(AssertUnwindSafe(|| T::from_ssz_bytes(&b)));
            match r {
                Ok(Ok(v)) => {
                    drop(v);
                    0
                }
                Ok(Err(e)) => {
                    drop(e);
                    1
                }
                Err(_) => 2,
            }
        });
        // the real request total must stay below 16 * (cost model) + 2048
        ctx.out.emit("LE:C06", "alloc", &m.total.to_string(), &["alloc", &d, &hx]);
        // and, independent of the model, below a generous linear bound in the input length
        let coeff = 64 * (T::alloc_coeff() + 8);
        ctx.out.r("C06", "alloc", m.total <= coeff * b.len() + 4096 && m.max_req <= coeff * b.len() + 4096,
            &["linear_in_input", "dec", &d, &hx, &name, &format!("total={} max={} peak={}", m.total, m.max_req, m.peak)]);
        ctx.out.r("C05", "alloc", r != 2, &["no_panic", "dec", &d, &hx, &name]);
        ctx.out.bump(&format!("alloc.ratio.{}", if b.is_empty() { 0 } else { (m.total / b.len()).min(99) / 8 * 8 }));
    }
    note_case("");
}

/// types whose in-memory size is large compared with short inputs: a decoder must not reserve for them
/// before it has seen the bytes (only the allocation is measured, values are not printed)
pub fn run_alloc_large(ctx: &mut Ctx) {
    use ssz::{BitList, BitVector, Decode};
    use typenum::{U1048576, U65536};
    fn one<T: Decode>(ctx: &mut Ctx, desc: &str) {
        let inputs: Vec<Vec<u8>> = vec![vec![], vec![0], vec![1], vec![1, 2, 3], vec![0xff; 8], vec![0u8; 64], vec![4, 0, 0, 0, 1], vec![1, 0]];
        for b in inputs {
            let hx = hex(&b);
            note_case(&format!("alloc\t{}\t{}", desc, hx));
            let (_, m) = measure(|| {
                let r = catch_unwind(AssertUnwindSafe(|| T::from_ssz_bytes(&b)));
                drop(r);
            });
            ctx.out.emit("LE:C06", "alloc", &m.total.to_string(), &["alloc", desc, &hx]);
        }
    }
    one::<BitVector<U65536>>(ctx, "BV65536");
    one::<BitList<U65536>>(ctx, "BL65536");
    one::<BitVector<U1048576>>(ctx, "BV1048576");
    one::<Vec<BitVector<U65536>>>(ctx, "L(BV65536)");
    one::<Option<BitVector<U1048576>>>(ctx, "O(BV1048576)");
    one::<(u8, BitVector<U65536>)>(ctx, "T(U1,BV65536)");
    one::<Vec<[u8; 4096]>>(ctx, "L(X4096)");
    one::<Vec<alloy_primitives::Bloom>>(ctx, "L(X256)");
    note_case("");
}

/// a recursive type: nesting depth is chosen by the input. Peak live memory must stay linear in the
/// input length however deep the (valid) encoding nests
pub fn run_alloc_deep(ctx: &mut Ctx) {
    use ssz::{Decode, Encode};
    for depth in [4usize, 64, 512, 2048] {
        let h = std::thread::Builder::new().stack_size(1 << 30).spawn(move || {
            let mut v = ssz_node::Node { children: vec![] };
            for _ in 0..depth {
                v = ssz_node::Node { children: vec![v] };
            }
            let b = v.as_ssz_bytes();
            std::mem::forget(v); // dropping a deep chain recursively is not what is measured
            let (ok, m) = measure(|| {
                let r = catch_unwind(AssertUnwindSafe(|| ssz_node::Node::from_ssz_bytes(&b)));
                let ok = matches!(r, Ok(Ok(_)));
                std::mem::forget(r);
                ok
            });
            (b.len(), ok, m.peak, m.total)
        });
        match h.map(|t| t.join()) {
            Ok(Ok((len, ok, peak, total))) => {
                let tag = format!("depth={} len={} peak={} total={}", depth, len, peak, total);
                ctx.out.r("C06", "alloc", ok && peak <= 256 * len + 4096, &["deep_nesting_peak_linear", "alloc-deep", &tag]);
                ctx.out.r("C05", "alloc", ok, &["deep_nesting_decodes", "alloc-deep", &tag]);
            }
            _ => ctx.out.r("C05", "alloc", false, &["deep_nesting_thread_failed", "alloc-deep", &depth.to_string()]),
        }
    }
}

mod ssz_node {
    #[derive(ssz_derive::Encode, ssz_derive::Decode, Clone, PartialEq, Debug)]
    pub struct Node {
        pub children: Vec<Node>,
    }
}

/// over-limit list decoding does not reserve space for the announced items (C16)
pub fn run_alloc_listvar(ctx: &mut Ctx) {
    use crate::lowlevel::{Probe, VecC};
    // a generous limit must not replace the physical bound: short inputs announcing many items
    for first in [1u32 << 10, 1 << 16, 1 << 20, 1 << 24] {
        let n = (first / 4) as usize;
        for extra in [0usize, 1, 8] {
            let mut b = first.to_le_bytes().to_vec();
            b.extend(vec![0u8; extra]);
            for max in [n, n + 1, usize::MAX / 8] {
                let hx = hex(&b);
                note_case(&format!("listvar\t{}\tv\t{}", max, hx));
                let (res, m) = measure(|| {
                    let r = catch_unwind(AssertUnwindSafe(|| ssz::decode_list_of_variable_length_items::<Probe, VecC>(&b, Some(max))));
                    matches!(r, Ok(Err(_)))
                });
                ctx.out.r("C06", "alloc", res && m.total <= 1024, &["short_input_reserves_nothing", "listvar", &max.to_string(), "v", &hx, &format!("total={}", m.total)]);
                let (res2, m2) = measure(|| {
                    let r = catch_unwind(AssertUnwindSafe(|| ssz::decode_list_of_variable_length_items::<Probe, Vec<Probe>>(&b, Some(max))));
                    matches!(r, Ok(Err(_)))
                });
                ctx.out.r("C06", "alloc", res2 && m2.total <= 1024, &["short_input_reserves_nothing_vec", "listvar", &max.to_string(), "v", &hx, &format!("total={}", m2.total)]);
            }
        }
    }
    for first in [8u32, 12, 1 << 10, 1 << 20, 1 << 28] {
        let n = (first / 4) as usize;
        // a well-formed header needs first <= len: build `n` empty items when small, otherwise only the header word
        let mut b = Vec::new();
        if n <= 1024 {
            for _ in 0..n {
                b.extend_from_slice(&first.to_le_bytes());
            }
        } else {
            b.extend_from_slice(&first.to_le_bytes());
        }
        for max in [0usize, 1, n.saturating_sub(1)] {
            if max >= n {
                continue;
            }
            let hx = hex(&b);
            note_case(&format!("listvar\t{}\tv\t{}", max, hx));
            let (res, m) = measure(|| {
                let r = catch_unwind(AssertUnwindSafe(|| ssz::decode_list_of_variable_length_items::<Probe, VecC>(&b, Some(max))));
                matches!(r, Ok(Err(_)))
            });
            ctx.out.r("C16", "alloc", res && m.total <= 1024, &["over_limit_reserves_nothing", "listvar", &max.to_string(), "v", &hx, &format!("total={}", m.total)]);
            ctx.out.r("C06", "alloc", m.total <= 1024, &["over_limit_reserves_nothing", "listvar", &max.to_string(), "v", &hx, &format!("total={}", m.total)]);
        }
    }
    note_case("");
}
