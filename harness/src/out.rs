//! Output of the harness: one case per line,
//!   class \t group \t implementation-output \t request fields...
//! class `M`  : the request is evaluated by the Lean model and must equal the implementation output
//! class `O:Cxx`: the request is evaluated by the Lean *specification* functions (oracle for Cxx)
//! class `R:Cxx`: a property of Cxx evaluated on the implementation alone; output is `pass` or `fail ...`
use std::collections::BTreeMap;
use std::io::Write;

pub struct Out {
    w: std::io::BufWriter<std::io::Stdout>,
    pub counts: BTreeMap<String, u64>,
    pub samples: BTreeMap<String, Vec<String>>,
    pub dist: BTreeMap<String, u64>,
    /// when set, nothing is written; failing oracle names are collected instead (used by the shrinker)
    pub capture: Option<Vec<String>>,
    /// when set, lines that need the Lean model (classes M, O, LE) are dropped; R lines are kept
    pub capture_m: bool,
}

impl Out {
    pub fn new() -> Self {
        Out {
            w: std::io::BufWriter::with_capacity(1 << 20, std::io::stdout()),
            counts: BTreeMap::new(),
            samples: BTreeMap::new(),
            dist: BTreeMap::new(),
            capture: None,
            capture_m: false,
        }
    }
    pub fn emit(&mut self, class: &str, group: &str, impl_out: &str, req: &[&str]) {
        if let Some(c) = self.capture.as_mut() {
            if class.starts_with("R:") {
                c.push(req.first().map(|s| s.to_string()).unwrap_or_default());
            }
            return;
        }
        if self.capture_m && !class.starts_with("R:") {
            return;
        }
        let _ = write!(self.w, "{}\t{}\t{}", class, group, impl_out);
        for r in req {
            let _ = write!(self.w, "\t{}", r);
        }
        let _ = writeln!(self.w);
        *self.counts.entry(format!("{}/{}", class, group)).or_insert(0) += 1;
    }
    pub fn m(&mut self, group: &str, impl_out: &str, req: &[&str]) {
        self.emit("M", group, impl_out, req)
    }
    pub fn o(&mut self, prop: &str, group: &str, impl_out: &str, req: &[&str]) {
        self.emit(&format!("O:{}", prop), group, impl_out, req)
    }
    /// implementation-side oracle; `detail` describes the case so that it can be replayed
    pub fn r(&mut self, prop: &str, group: &str, pass: bool, detail: &[&str]) {
        let class = format!("R:{}", prop);
        if self.capture.is_some() && pass {
            return;
        }
        if pass {
            // passing oracle evaluations are only counted, not written
            *self.counts.entry(format!("{}/{}", class, group)).or_insert(0) += 1;
        } else {
            self.emit(&class, group, "fail", detail);
        }
    }
    pub fn bump(&mut self, key: &str) {
        *self.dist.entry(key.to_string()).or_insert(0) += 1;
    }
    pub fn bump_by(&mut self, key: &str, n: u64) {
        *self.dist.entry(key.to_string()).or_insert(0) += n;
    }
    pub fn finish(&mut self) {
        let mut s = String::from("{\"counts\":{");
        s.push_str(
            &self
                .counts
                .iter()
                .map(|(k, v)| format!("\"{}\":{}", k, v))
                .collect::<Vec<_>>()
                .join(","),
        );
        s.push_str("},\"dist\":{");
        s.push_str(
            &self
                .dist
                .iter()
                .map(|(k, v)| format!("\"{}\":{}", k.replace('\\', "/").replace('"', "'"), v))
                .collect::<Vec<_>>()
                .join(","),
        );
        s.push_str("}}");
        let _ = writeln!(self.w, "#STATS\t{}", s);
        let _ = self.w.flush();
    }
}
