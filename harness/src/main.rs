mod alloc;
mod bits;
mod catalogue;
mod codec;
#[cfg(feature = "derive_cat")]
mod derive;
#[cfg(feature = "derive_cat")]
mod derive_gen;
mod lowlevel;
mod model;
mod out;
mod rng;

use bits::{run_arb, run_bitbytes, run_bitops, run_serde};
use codec::Ctx;
use std::collections::HashSet;

#[global_allocator]
static GLOBAL: alloc::Counting = alloc::Counting;

fn run_type<T: model::Model>(ctx: &mut Ctx) {
    if let Some(t) = &ctx.only_type {
        if &T::desc() != t && &T::rust_name() != t {
            return;
        }
    }
    if !ctx.type_filter.is_empty() {
        let d = T::desc();
        if !ctx.type_filter.iter().any(|f| d.contains(f.as_str())) {
            return;
        }
    }
    if let Some(r) = ctx.replay.clone() {
        if r[0] == "shrink" && r.len() == 4 {
            // shrink <oracle> <desc> <hex>
            if r[2] == T::desc() && !ctx.replay_done {
                ctx.replay_done = true;
                let small = codec::shrink_dec::<T>(ctx, &r[1], &model::unhex(&r[3]));
                println!("{}", model::hex(&small));
            }
            return;
        }
        if r[0] == "dec" && r.len() == 3 {
            if r[1] == T::desc() && !ctx.replay_done {
                ctx.replay_done = true;
                println!("{} (as {})", codec::dec_str::<T>(&model::unhex(&r[2])), T::rust_name());
            }
            return;
        }
    }
    // every type draws from its own stream, so a single type can be replayed in isolation
    let mut h: u64 = 0xcbf29ce484222325;
    for b in T::rust_name().bytes() {
        h = (h ^ b as u64).wrapping_mul(0x100000001b3);
    }
    ctx.rng = rng::Rng::new(ctx.seed ^ h);
    if ctx.on("meta") {
        codec::run_meta::<T>(ctx);
    }
    if ctx.on("enc") || ctx.on("entry") {
        codec::run_enc::<T>(ctx);
    }
    if ctx.on("dec") {
        codec::run_dec::<T>(ctx);
    }
    if ctx.on("alloc") {
        alloc::run_alloc::<T>(ctx);
    }
}

fn main() {
    if std::env::var("VERIF_PANIC_VERBOSE").is_err() {
        std::panic::set_hook(Box::new(|_| {}));
    }
    let args: Vec<String> = std::env::args().collect();
    if args.iter().any(|a| a == "--thread-exit-probe") {
        codec::thread_exit_child();
        return;
    }
    let mut groups: HashSet<String> = HashSet::new();
    let mut thorough = false;
    let mut seed: u64 = 0;
    let mut only_type = None;
    let mut type_filter: Vec<String> = Vec::new();
    let mut replay: Option<String> = None;
    let mut i = 1;
    while i < args.len() {
        match args[i].as_str() {
            "--groups" => {
                i += 1;
                for g in args[i].split(',') {
                    groups.insert(g.to_string());
                }
            }
            "--tier" => {
                i += 1;
                thorough = args[i] == "thorough";
            }
            "--seed" => {
                i += 1;
                seed = args[i].parse().unwrap_or(0);
            }
            "--type-filter" => {
                i += 1;
                type_filter = args[i].split(',').map(|s| s.to_string()).collect();
            }
            "--replay" => {
                i += 1;
                replay = Some(args[i].clone());
            }
            "--type" => {
                i += 1;
                only_type = Some(args[i].clone());
            }
            _ => {}
        }
        i += 1;
    }
    let mut ctx = Ctx {
        out: out::Out::new(),
        rng: rng::Rng::new(seed),
        seed,
        thorough,
        groups,
        only_type,
        type_filter,
        replay: None,
        replay_done: false,
        corpus: Vec::new(),
    };
    if let Ok(dir) = std::env::var("VERIF_CORPUS") {
        if let Ok(rd) = std::fs::read_dir(&dir) {
            let mut files: Vec<_> = rd.filter_map(|e| e.ok()).map(|e| e.path()).filter(|p| p.extension().map(|x| x == "tsv").unwrap_or(false)).collect();
            files.sort();
            for f in files {
                if let Ok(txt) = std::fs::read_to_string(&f) {
                    for line in txt.lines() {
                        let c: Vec<&str> = line.split('\t').collect();
                        if c.len() == 3 && c[0] == "dec" {
                            ctx.corpus.push((c[1].to_string(), model::unhex(c[2])));
                        }
                    }
                }
            }
        }
    }
    if let Some(req) = replay {
        // re-evaluate one request on the implementation: `dec <desc> <hex>` etc.
        let fields: Vec<String> = req.split('\t').map(|s| s.to_string()).collect();
        ctx.replay = Some(fields.clone());
        ctx.groups = ["meta", "enc", "entry", "dec", "const", "offset", "union", "builder", "listvar"]
            .iter()
            .map(|s| s.to_string())
            .collect();
        if fields[0] == "shrink" && fields.len() == 4 {
            ctx.groups = ["dec"].iter().map(|s| s.to_string()).collect();
        } else if fields.len() >= 2 && ["dec", "enc", "len", "spec", "append", "meta"].contains(&fields[0].as_str()) {
            ctx.only_type = Some(fields[1].clone());
            ctx.groups = ["meta", "enc", "entry", "dec"].iter().map(|s| s.to_string()).collect();
        } else {
            lowlevel::replay(&fields);
            return;
        }
    }
    if ctx.on("const") {
        lowlevel::run_const(&mut ctx);
    }
    if ctx.on("offset") {
        lowlevel::run_offset(&mut ctx);
    }
    if ctx.on("union") {
        lowlevel::run_union(&mut ctx);
    }
    if ctx.on("builder") {
        lowlevel::run_builder(&mut ctx);
        lowlevel::run_builder_big(&mut ctx);
    }
    if ctx.on("listvar") {
        lowlevel::run_listvar(&mut ctx);
        lowlevel::run_tryfromiter(&mut ctx);
    }
    if ctx.on("bitops") {
        for_each_bitfield!(run_bitops, &mut ctx);
        bits::run_bitops::<ssz::BitVectorDynamic>(&mut ctx);
    }
    if ctx.on("bitbytes") {
        for_each_bitfield!(run_bitbytes, &mut ctx);
        bits::run_bitbytes::<ssz::BitVectorDynamic>(&mut ctx);
        bits::run_withlen(&mut ctx);
        bits::run_bit_extremes(&mut ctx);
        {
            use typenum::*;
            bits::run_resize::<U8, U8>(&mut ctx);
            bits::run_resize::<U8, U9>(&mut ctx);
            bits::run_resize::<U9, U8>(&mut ctx);
            bits::run_resize::<U0, U1>(&mut ctx);
            bits::run_resize::<U1, U0>(&mut ctx);
            bits::run_resize::<U7, U64>(&mut ctx);
            bits::run_resize::<U16, U17>(&mut ctx);
            bits::run_resize::<U17, U16>(&mut ctx);
            bits::run_resize::<U64, U1024>(&mut ctx);
            bits::run_resize::<U33, U33>(&mut ctx);
            bits::run_resize::<U16, U12>(&mut ctx);
            bits::run_resize::<U16, U9>(&mut ctx);
            bits::run_resize::<U8, U7>(&mut ctx);
            bits::run_resize::<U64, U63>(&mut ctx);
            bits::run_resize::<U1024, U1023>(&mut ctx);
            // pairs that need the same number of bytes, below and above the inline storage size
            bits::run_resize::<U2048, U2047>(&mut ctx);
            bits::run_resize::<U2047, U2048>(&mut ctx);
            bits::run_resize::<U2048, Diff<U2048, U7>>(&mut ctx);
            bits::run_resize::<U2048, Diff<U2048, U8>>(&mut ctx);
            bits::run_resize::<Sum<U1024, U8>, Sum<U1024, U1>>(&mut ctx);
            bits::run_resize::<Sum<U1024, U1>, Sum<U1024, U8>>(&mut ctx);
            bits::run_resize::<U4096, U4095>(&mut ctx);
            bits::run_resize::<U1024, U1017>(&mut ctx);
            bits::run_resize::<U128, U121>(&mut ctx);
            bits::run_resize::<U24, U17>(&mut ctx);
        }
    }
    if ctx.on("serde") {
        for_each_bitfield!(run_serde, &mut ctx);
        bits::run_serde::<ssz::BitVectorDynamic>(&mut ctx);
    }
    if ctx.on("arb") {
        bits::run_arb_extremes(&mut ctx);
        for_each_bitfield!(run_arb, &mut ctx);
    }
    if ctx.on("alloc") {
        alloc::run_alloc_listvar(&mut ctx);
        alloc::run_alloc_large(&mut ctx);
        alloc::run_alloc_deep(&mut ctx);
    }
    #[cfg(feature = "derive_cat")]
    {
        if ctx.on("derive") {
            use derive::run_derive;
            for_each_derived!(run_derive, &mut ctx);
            derive::run_derive_borrowed(&mut ctx);
        }
        if ctx.on("legacy") {
            derive::run_legacy(&mut ctx);
        }
    }
    #[cfg(not(feature = "derive_cat"))]
    {
        if ctx.on("derive") || ctx.on("legacy") {
            ctx.out.m("derive", "derive-catalogue-does-not-compile", &["accepts", "DS--()"]);
        }
    }
    if ctx.on("dec") && ctx.only_type.is_none() && ctx.replay.is_none() && (ctx.type_filter.is_empty() || ctx.type_filter.iter().any(|f| f == "S(" || f == "M(")) {
        codec::run_coarse_keys(&mut ctx);
    }
    if (ctx.on("entry") || ctx.on("enc") || ctx.on("dec")) && ctx.only_type.is_none() && ctx.replay.is_none() {
        codec::run_thread_exit(&mut ctx);
    }
    if ctx.on("meta") || ctx.on("enc") || ctx.on("entry") || ctx.on("dec") || ctx.on("alloc") {
        for_each_type!(run_type, &mut ctx);
    }
    ctx.out.finish();
}
