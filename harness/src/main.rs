mod catalogue;
mod codec;
mod model;
mod out;
mod rng;

use codec::Ctx;
use std::collections::HashSet;

fn run_type<T: model::Model>(ctx: &mut Ctx) {
    if let Some(t) = &ctx.only_type {
        if &T::desc() != t && &T::rust_name() != t {
            return;
        }
    }
    if ctx.on("meta") {
        codec::run_meta::<T>(ctx);
    }
    if ctx.on("enc") || ctx.on("entry") {
        codec::run_enc::<T>(ctx);
    }
    if ctx.on("dec") {
        codec::run_dec::<T>(ctx);
    }
}

fn main() {
    std::panic::set_hook(Box::new(|_| {}));
    let args: Vec<String> = std::env::args().collect();
    let mut groups: HashSet<String> = HashSet::new();
    let mut thorough = false;
    let mut seed: u64 = 0;
    let mut only_type = None;
    let mut i = 1;
    while i < args.len() {
        match args[i].as_str() {
            "--groups" => {
                i += 1;
                for g in args[i].split(',') {
                    groups.insert(g.to_string());
                }
            }
            "--tier" => {
                i += 1;
                thorough = args[i] == "thorough";
            }
            "--seed" => {
                i += 1;
                seed = args[i].parse().unwrap_or(0);
            }
            "--type" => {
                i += 1;
                only_type = Some(args[i].clone());
            }
            _ => {}
        }
        i += 1;
    }
    let mut ctx = Ctx { out: out::Out::new(), rng: rng::Rng::new(seed), thorough, groups, only_type };
    for_each_type!(run_type, &mut ctx);
    ctx.out.finish();
}
