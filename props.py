# property -> harness groups whose correspondence the property depends on (DESIGN.md §5.3)
PROPS = {
    "C09": {"groups": ["builder", "offset", "listvar"],
            "assumptions": ["inputs of 2^32 bytes or more are never executed on the implementation"]},
    "C10": {"groups": ["entry", "builder"],
            "assumptions": ["Arc<T>, &T and transparent wrappers have the schema of T in the model; that their impls forward is checked on the implementation only"]},
    "C15": {"groups": ["union", "const", "dec", "enc"], "extra": ["--type-filter", "N(,O("],
            "assumptions": ["compile-time rejection of 0 / >128 variants is checked by the reject crate (group `reject`, property C08)"]},
}
