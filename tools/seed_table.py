#!/usr/bin/env python3
"""Rewrites the table of DESIGN.md §13 (between the SEED-TABLE markers) from seeded/RESULTS.json and
seeded/<id>/meta.json, and prints a summary. Run after `./verif seeded`."""
import json, os, re
ROOT = os.path.dirname(os.path.dirname(os.path.abspath(__file__)))
res = {e["seed"]: e for e in json.load(open(os.path.join(ROOT, "seeded", "RESULTS.json")))}
rows, summ = [], {"total": 0, "target_cex": 0, "target_nfif": 0, "other_only": 0, "missed": 0}
missed, nfif_only, other_only = [], [], []
for sid in sorted(os.listdir(os.path.join(ROOT, "seeded"))):
    d = os.path.join(ROOT, "seeded", sid)
    if not os.path.isdir(d) or not os.path.exists(os.path.join(d, "meta.json")):
        continue
    meta = json.load(open(os.path.join(d, "meta.json")))
    e = res.get(sid)
    what = re.sub(r"\s+", " ", meta.get("what_changed", "")).replace("|", "\\|")
    what = what[:140] + ("…" if len(what) > 140 else "")
    if e is None:
        rows.append(f"| {sid} | (not run) | | {what} |")
        continue
    det = e["detected_by"]
    cex = sorted(p for p, k in det if k == "counterexample")
    nf = sorted(p for p, k in det if k != "counterexample")
    target = "C" + sid[1:3]
    summ["total"] += 1
    if target in cex:
        summ["target_cex"] += 1
    elif target in nf:
        summ["target_nfif"] += 1; nfif_only.append(sid)
    elif det:
        summ["other_only"] += 1; other_only.append(sid)
    else:
        summ["missed"] += 1; missed.append(sid)
    rows.append(f"| {sid} | {' '.join(cex) or '—'} | {' '.join(nf) or '—'} | {what} |")
table = "| seed | counterexample from | no-failing-input-found from | what was changed |\n|---|---|---|---|\n" + "\n".join(rows)
p = os.path.join(ROOT, "DESIGN.md")
s = open(p).read()
a, b = "<!-- SEED-TABLE-BEGIN -->", "<!-- SEED-TABLE-END -->"
if a in s and b in s:
    s = s[: s.index(a) + len(a)] + "\n" + table + "\n" + s[s.index(b):]
    open(p, "w").write(s)
print(summ, "missed:", missed, "target only nfif:", nfif_only, "only by other properties:", other_only)
