#!/bin/bash
# confirm_seed.sh <worktree> <outdir> <suffix: "" or "2"> <seed-id>
# Confirms a seeded change in a scratch worktree of /repo (never in /repo itself):
#   clean tree: demo passes; patched tree: whole existing suite passes, demo fails.
# On success copies patch/demo/meta to /verif/seeded/<seed-id>/ and records what was run.
set -u
WT=$1; OUT=$2; SFX=$3; ID=$4
export CARGO_NET_OFFLINE=true
cd "$WT" || exit 2
git checkout -q -- . ; git clean -fdq -e target
rm -f ssz/tests/demo.rs ssz_derive/tests/demo.rs
PATCH=$OUT/patch$SFX.diff; DEMO=$OUT/demo$SFX.rs; META=$OUT/meta$SFX.json
[ -f "$PATCH" ] && [ -f "$DEMO" ] || { echo "missing patch or demo"; exit 2; }
FEAT=""
grep -q "arbitrary" "$DEMO" && FEAT="--features arbitrary"
cp "$DEMO" ssz/tests/demo.rs
echo "== clean tree: demo must pass"
cargo test --offline -q -p ethereum_ssz --test demo $FEAT > /tmp/confirm3_$ID.clean.log 2>&1; RC_CLEAN=$?
echo "rc=$RC_CLEAN"
git apply "$PATCH" || { echo "patch does not apply"; rm -f ssz/tests/demo.rs; exit 2; }
echo "== patched tree: demo must fail"
cargo test --offline -q -p ethereum_ssz --test demo $FEAT > /tmp/confirm3_$ID.patched.log 2>&1; RC_PATCHED=$?
echo "rc=$RC_PATCHED"
rm -f ssz/tests/demo.rs
echo "== patched tree: existing suite must pass"
cargo test --workspace --offline --no-fail-fast > /tmp/confirm3_$ID.suite.log 2>&1; RC_SUITE=$?
PASSED=$(grep -E "^test result" /tmp/confirm3_$ID.suite.log | awk '{s+=$4} END {print s}')
FAILED=$(grep -E "^test result" /tmp/confirm3_$ID.suite.log | awk '{s+=$6} END {print s}')
echo "rc=$RC_SUITE passed=$PASSED failed=$FAILED"
git checkout -q -- . ; git clean -fdq -e target
if [ $RC_CLEAN -eq 0 ] && [ $RC_PATCHED -ne 0 ] && [ $RC_SUITE -eq 0 ] && [ "$FAILED" = "0" ]; then
  mkdir -p /verif/seeded/$ID
  cp "$PATCH" /verif/seeded/$ID/patch.diff; cp "$DEMO" /verif/seeded/$ID/demo.rs
  python3 - "$META" "$ID" "$PASSED" <<'PY'
import json,sys
meta=json.load(open(sys.argv[1])) if sys.argv[1] else {}
meta["id"]=sys.argv[2]
meta["confirmed"]={"clean_tree_demo":"pass","patched_tree_demo":"fail","patched_tree_existing_suite":f"{sys.argv[3]} passed, 0 failed (cargo test --workspace --offline, incl. doc tests)",
  "how":"tools/confirm_seed.sh in a scratch git worktree of /repo under /tmp/seed (removed afterwards)"}
json.dump(meta,open(f"/verif/seeded/{sys.argv[2]}/meta.json","w"),indent=1)
PY
  echo "CONFIRMED $ID"
else
  echo "NOT CONFIRMED $ID"; tail -5 /tmp/confirm3_$ID.patched.log; exit 1
fi
