import Lean
/-
  Axiom audit: `lake env lean --run Audit.lean SszProofs.C09 SszProofs.C15 ...`
  For every theorem declared in each named module prints one line
     <module> <theorem> <axiom> <axiom> ...
  The caller checks that every axiom set is a subset of {propext, Classical.choice, Quot.sound}.
-/
open Lean

instance : MonadEnv (StateM Environment) where
  getEnv := get
  modifyEnv f := modify f

def auditModule (env : Environment) (mod : Name) : IO Unit := do
  match env.getModuleIdx? mod with
  | none => IO.println s!"ERROR module-not-found {mod}"
  | some idx =>
    let names := env.constants.fold (init := #[]) fun acc n ci =>
      match ci with
      | .thmInfo _ => if env.getModuleIdxFor? n == some idx && !n.isInternal then acc.push n else acc
      | _ => acc
    let names := names.qsort (fun a b => a.toString < b.toString)
    for n in names do
      let axs : Array Name := (collectAxioms (m := StateM Environment) n).run' env
      let axs := axs.qsort (fun a b => a.toString < b.toString)
      IO.println s!"{mod} {n} {" ".intercalate (axs.toList.map toString)}"

def main (args : List String) : IO UInt32 := do
  initSearchPath (← findSysroot)
  let mods := args.map String.toName
  let env ← importModules (mods.toArray.map fun m => { module := m }) {}
  for m in mods do
    auditModule env m
  return 0
