import SszProofs.Lemmas.ListTrace
/-
  C16 — List length limits and fallible collections are enforced before work is done.
  Also the list-decoder facts used by C06 (`size_hint_backed`, `calls_bounded`, `calls_disjoint`).

  `listVarT f b maxLen c` is `decode_list_of_variable_length_items::<T, C>(b, maxLen)` with item decoder
  `f`, returning the result together with a trace: the slices handed to `f` in call order and the
  `size_hint` upper bound the collection `C` saw (`none`: the collection was never asked).
  `announced b` is the item count the input announces (first offset word / 4).
-/
set_option linter.unusedSimpArgs false
namespace Ssz.C16
open Ssz.LT

open Ssz

variable {α : Type} (f : Bytes → Res α) (b : Bytes)

/-! ### the length limit -/

/-- The limit is one comparison against the announced count, made before anything else happens
    to the items: over the limit the decoder returns an error with an empty trace, otherwise it
    is, result and trace, the unlimited decoder. -/
theorem limit_check (max : Nat) (c : Coll) :
    listVarT f b (some max) c =
      if (announced b).any (fun n => decide (n > max)) then (.err, {}) else listVarT f b none c := by
  rw [listVarT_header, listVarT_header, listHeader_limit]
  by_cases he : b.isEmpty = true
  · simp [he, announced]
  · simp only [he, Bool.false_eq_true, ↓reduceIte]
    by_cases hc : (announced b).any (fun n => decide (n > max)) = true
    · simp only [hc, ↓reduceIte]
    · simp only [hc, Bool.false_eq_true, ↓reduceIte]

theorem limit_check_plain (max : Nat) :
    listVar f b (some max) =
      if (announced b).any (fun n => decide (n > max)) then .err else listVar f b none := by
  rw [listVar_header, listVar_header, listHeader_limit]
  by_cases he : b.isEmpty = true
  · simp [he, announced]
  · simp only [he, Bool.false_eq_true, ↓reduceIte]
    by_cases hc : (announced b).any (fun n => decide (n > max)) = true
    · simp only [hc, ↓reduceIte]
    · simp only [hc, Bool.false_eq_true, ↓reduceIte]

/-- announced count over the limit: error, no item decoded (`calls = []`), collection never asked
    and nothing reserved (`sizeHint = none`), whatever the collection is -/
theorem over_limit_no_work {n max : Nat} (c : Coll) (ha : announced b = some n) (hn : n > max) :
    listVarT f b (some max) c = (.err, {}) := by
  rw [limit_check, ha]; simp [hn]

theorem over_limit_no_work_plain {n max : Nat} (ha : announced b = some n) (hn : n > max) :
    listVar f b (some max) = .err := by
  rw [limit_check_plain, ha]; simp [hn]

/-- within the limit (or nothing announced: empty input, fewer than four bytes) the limit changes
    nothing -/
theorem within_limit_same (max : Nat) (c : Coll) (h : ∀ n, announced b = some n → n ≤ max) :
    listVarT f b (some max) c = listVarT f b none c ∧ listVar f b (some max) = listVar f b none := by
  rw [limit_check, limit_check_plain]
  cases ha : announced b with
  | none => simp
  | some n =>
    have := h n ha
    simp only [Option.any_some, decide_eq_true_eq]
    rw [if_neg (by omega), if_neg (by omega)]
    exact ⟨rfl, rfl⟩

/-! ### collection kinds -/

/-- with `Vec` as the collection the traced model is the plain model, so every theorem about
    `listVar` (`listVar_sound`, `listVar_complete`, ...) transfers -/
theorem vec_trace_eq (m : Option Nat) : (listVarT f b m .vec).1 = listVar f b m := by
  rw [listVarT_header, listVar_header]
  by_cases he : b.isEmpty = true
  · simp [he]
  · simp only [he, Bool.false_eq_true, ↓reduceIte]
    cases listHeader b m with
    | none => rfl
    | some first => simp only [walkT]; exact goT_vec_fst f b first _ _ _ _

/-- a collection that refuses: always an error, and no item is ever decoded -/
theorem refusing_eq (m : Option Nat) : listVarT f b m .refusing = (.err, {}) := by
  rw [listVarT_header]
  by_cases he : b.isEmpty = true
  · simp [he]
  · simp only [he, Bool.false_eq_true, ↓reduceIte]
    cases listHeader b m <;> rfl

theorem refusing_is_error (m : Option Nat) :
    (∀ vs, (listVarT f b m .refusing).1 ≠ .ok vs) ∧ (listVarT f b m .refusing).1 ≠ .panic ∧
      (listVarT f b m .refusing).2.calls = [] := by
  rw [refusing_eq]
  exact ⟨fun vs h => (by cases h), fun h => (by cases h), rfl⟩

/-- a bounded collection that returns `ok` behaved exactly like `Vec`, trace included -/
theorem bounded_ok_eq_vec (m : Option Nat) (k : Nat) (vs : List α)
    (h : (listVarT f b m (.bounded k)).1 = .ok vs) :
    listVarT f b m (.bounded k) = listVarT f b m .vec ∧ vs.length ≤ k := by
  rw [listVarT_header] at h
  rw [listVarT_header, listVarT_header]
  by_cases he : b.isEmpty = true
  · simp only [he, ↓reduceIte, reduceCtorEq, Res.ok.injEq] at h
    subst h
    simp [he]
  · simp only [he, Bool.false_eq_true, ↓reduceIte] at h ⊢
    cases hh : listHeader b m with
    | none => rw [hh] at h; cases h
    | some first =>
      rw [hh] at h
      simp only [walkT] at h ⊢
      have hk := goT_ok_budget f b first _ _ _ _ _ _ h
      have heq := goT_budget_ge f b first (first / 4) (first / 4) first k [] hk
      rw [heq] at h ⊢
      rw [goT_vec_fst] at h
      have := go_length f b first _ _ _ _ h
      exact ⟨rfl, by omega⟩

/-- an `ok` result is the complete list, never a prefix -/
theorem bounded_ok_complete (m : Option Nat) (k : Nat) (vs : List α)
    (h : (listVarT f b m (.bounded k)).1 = .ok vs) :
    (listVarT f b m .vec).1 = .ok vs ∧ listVar f b m = .ok vs ∧ vs.length ≤ k := by
  obtain ⟨h1, h2⟩ := bounded_ok_eq_vec f b m k vs h
  rw [h1] at h
  exact ⟨h, by rw [← vec_trace_eq]; exact h, h2⟩

/-- more items than the collection takes: an error -/
theorem bounded_over_is_error (m : Option Nat) (k : Nat) (vs : List α)
    (h : listVar f b m = .ok vs) (hk : vs.length > k) :
    (listVarT f b m (.bounded k)).1 = .err := by
  rw [listVar_header] at h
  rw [listVarT_header]
  by_cases he : b.isEmpty = true
  · simp only [he, ↓reduceIte, Res.ok.injEq] at h
    subst h
    simp at hk
  · simp only [he, Bool.false_eq_true, ↓reduceIte] at h ⊢
    cases hh : listHeader b m with
    | none => rfl
    | some first =>
      rw [hh] at h
      simp only [walkT] at h ⊢
      have := go_length f b first _ _ _ _ h
      exact goT_over f b first _ _ _ _ _ vs h (by omega)

/-- a bounded collection never returns a truncated list: `ok` is the complete list of the plain
    decoder and fits; a complete list that does not fit is an error -/
theorem bounded_never_truncates (m : Option Nat) (k : Nat) :
    (∀ vs, (listVarT f b m (.bounded k)).1 = .ok vs →
      (listVarT f b m .vec).1 = .ok vs ∧ listVar f b m = .ok vs ∧ vs.length ≤ k) ∧
    (∀ vs, listVar f b m = .ok vs → vs.length > k → (listVarT f b m (.bounded k)).1 = .err) :=
  ⟨bounded_ok_complete f b m k, bounded_over_is_error f b m k⟩

/-- enough room: the bounded collection is indistinguishable from `Vec` -/
theorem bounded_fits_eq_vec (m : Option Nat) (k : Nat) (h : ∀ n, announced b = some n → n ≤ k) :
    listVarT f b m (.bounded k) = listVarT f b m .vec := by
  rw [listVarT_header, listVarT_header]
  by_cases he : b.isEmpty = true
  · simp [he]
  · simp only [he, Bool.false_eq_true, ↓reduceIte]
    cases hh : listHeader b m with
    | none => rfl
    | some first =>
      have := h _ (announced_of_header hh)
      simp only [walkT]
      rw [goT_budget_ge f b first (first / 4) (first / 4) first k [] this]

/-- exact characterisation of success with a bounded collection -/
theorem bounded_ok_iff (m : Option Nat) (k : Nat) (vs : List α) :
    (listVarT f b m (.bounded k)).1 = .ok vs ↔ listVar f b m = .ok vs ∧ vs.length ≤ k := by
  constructor
  · intro h
    obtain ⟨_, h2, h3⟩ := bounded_ok_complete f b m k vs h
    exact ⟨h2, h3⟩
  · rintro ⟨h1, h2⟩
    cases hr : (listVarT f b m (.bounded k)).1 with
    | ok vs' =>
      obtain ⟨_, h3, _⟩ := bounded_ok_complete f b m k vs' hr
      rw [h1] at h3
      exact h3.symm
    | err =>
      exfalso
      rw [listVar_header] at h1
      rw [listVarT_header] at hr
      by_cases he : b.isEmpty = true
      · simp [he] at hr
      · simp only [he, Bool.false_eq_true, ↓reduceIte] at h1 hr
        cases hh : listHeader b m with
        | none => rw [hh] at h1; cases h1
        | some first =>
          rw [hh] at h1 hr
          simp only [walkT] at h1 hr
          have hl := go_length f b first _ _ _ _ h1
          rw [goT_budget_ge f b first (first / 4) (first / 4) first k [] (by omega), goT_vec_fst, h1] at hr
          cases hr
    | panic =>
      exfalso
      rw [listVar_header] at h1
      rw [listVarT_header] at hr
      by_cases he : b.isEmpty = true
      · simp [he] at hr
      · simp only [he, Bool.false_eq_true, ↓reduceIte] at h1 hr
        cases hh : listHeader b m with
        | none => rw [hh] at h1; cases h1
        | some first =>
          rw [hh] at h1 hr
          simp only [walkT] at h1 hr
          rw [goT_panic f b first _ _ _ _ _ hr] at h1
          cases h1

/-- a refusing collection never introduces a panic -/
theorem bounded_no_new_panic (m : Option Nat) (k : Nat)
    (h : (listVarT f b m (.bounded k)).1 = .panic) : listVar f b m = .panic := by
  rw [listVarT_header] at h
  rw [listVar_header]
  by_cases he : b.isEmpty = true
  · simp [he] at h
  · simp only [he, Bool.false_eq_true, ↓reduceIte] at h ⊢
    cases hh : listHeader b m with
    | none => rw [hh] at h; cases h
    | some first =>
      rw [hh] at h
      simp only [walkT] at h ⊢
      exact goT_panic f b first _ _ _ _ _ h

/-- empty input: the empty collection, no item decoder call, `size_hint` of the empty iterator -/
theorem empty_input (m : Option Nat) :
    listVarT f [] m .vec = (.ok [], { calls := [], sizeHint := some 0 }) ∧
    (∀ k, listVarT f [] m (.bounded k) = (.ok [], { calls := [], sizeHint := some 0 })) ∧
    listVar f [] m = .ok [] :=
  ⟨rfl, fun _ => rfl, rfl⟩

/-! ### what the collection reserves and what the item decoder sees (used by C06) -/

/-- shape of the trace: either the collection was never asked, or it was asked with the
    empty iterator on empty input, or the header checks passed and the hint is the announced count -/
theorem size_hint_cases (m : Option Nat) (c : Coll) (n : Nat)
    (h : (listVarT f b m c).2.sizeHint = some n) :
    (b = [] ∧ n = 0) ∨ (announced b = some n ∧ 4 * n ≤ b.length ∧ ∀ max, m = some max → n ≤ max) := by
  rw [listVarT_header] at h
  by_cases he : b.isEmpty = true
  · left
    refine ⟨by simpa using he, ?_⟩
    simp only [he, ↓reduceIte] at h
    by_cases hc : c = .refusing
    · simp [hc] at h
    · simp only [hc, ↓reduceIte, Option.some.injEq] at h
      exact h.symm
  · right
    simp only [he, Bool.false_eq_true, ↓reduceIte] at h
    cases hh : listHeader b m with
    | none => rw [hh] at h; cases h
    | some first =>
      rw [hh] at h
      obtain ⟨_, h4, hmod, hl, hmax⟩ := listHeader_some hh
      have hn : n = first / 4 := by
        cases c with
        | refusing => simp [walkT] at h
        | vec => simp only [walkT, Option.some.injEq] at h; exact h.symm
        | bounded k => simp only [walkT, Option.some.injEq] at h; exact h.symm
      subst hn
      exact ⟨announced_of_header hh, by omega, hmax⟩

/-- what the collection is told to reserve is physically present in the input: every announced
    item has its four-byte offset word inside `b` (success and error paths alike) -/
theorem size_hint_backed (m : Option Nat) (c : Coll) (n : Nat)
    (h : (listVarT f b m c).2.sizeHint = some n) : 4 * n ≤ b.length := by
  rcases size_hint_cases f b m c n h with ⟨_, rfl⟩ | ⟨_, h2, _⟩
  · omega
  · exact h2

/-- ... and never exceeds the length limit -/
theorem size_hint_within_limit (max : Nat) (c : Coll) (n : Nat)
    (h : (listVarT f b (some max) c).2.sizeHint = some n) : n ≤ max := by
  rcases size_hint_cases f b (some max) c n h with ⟨_, rfl⟩ | ⟨_, _, h3⟩
  · omega
  · exact h3 max rfl

/-- the item decoder is called only after the header checks passed; then at most once per
    announced item, with consecutive slices of the body -/
theorem trace_core (m : Option Nat) (c : Coll) :
    (listVarT f b m c).2.calls = [] ∨
    ∃ first, listHeader b m = some first ∧ (listVarT f b m c).2.calls.length ≤ first / 4 ∧
      (listVarT f b m c).2.calls.flatten <+: b.drop first := by
  rw [listVarT_header]
  by_cases he : b.isEmpty = true
  · left
    simp only [he, ↓reduceIte]
    split <;> rfl
  · simp only [he, Bool.false_eq_true, ↓reduceIte]
    cases hh : listHeader b m with
    | none => left; rfl
    | some first =>
      cases c with
      | refusing => left; rfl
      | vec =>
        right
        obtain ⟨new, h1, h2, h3⟩ := goT_trace f b first (first / 4) (first / 4) first none [] (Nat.le_refl _)
        simp only [List.nil_append] at h1
        exact ⟨first, rfl, by simp only [walkT, h1]; exact h2, by simp only [walkT, h1]; exact h3⟩
      | bounded k =>
        right
        obtain ⟨new, h1, h2, h3⟩ := goT_trace f b first (first / 4) (first / 4) first (some k) [] (Nat.le_refl _)
        simp only [List.nil_append] at h1
        exact ⟨first, rfl, by simp only [walkT, h1]; exact h2, by simp only [walkT, h1]; exact h3⟩

/-- at most one item-decoder call per announced item; none when nothing is announced -/
theorem calls_bounded (m : Option Nat) (c : Coll) :
    (∀ n, announced b = some n → (listVarT f b m c).2.calls.length ≤ n) ∧
    (announced b = none → (listVarT f b m c).2.calls = []) ∧
    4 * (listVarT f b m c).2.calls.length ≤ b.length := by
  rcases trace_core f b m c with h | ⟨first, hh, h1, _⟩
  · rw [h]
    exact ⟨fun _ _ => Nat.zero_le _, fun _ => rfl, Nat.zero_le _⟩
  · have ha := announced_of_header hh
    obtain ⟨_, _, _, hl, _⟩ := listHeader_some hh
    refine ⟨?_, ?_, by omega⟩
    · intro n hn
      rw [ha] at hn
      injection hn with hn
      omega
    · intro hn
      rw [ha] at hn
      cases hn

/-- the slices handed to the item decoder are consecutive, non-overlapping slices of the body
    (the part of the input after the `4 * n` header bytes) -/
theorem calls_consecutive (m : Option Nat) (c : Coll) :
    (listVarT f b m c).2.calls.flatten <+: b.drop (4 * (announced b).getD 0) := by
  rcases trace_core f b m c with h | ⟨first, hh, _, h2⟩
  · rw [h]; simp
  · rw [announced_of_header hh]
    obtain ⟨_, _, hmod, _, _⟩ := listHeader_some hh
    have : 4 * (first / 4) = first := by omega
    simpa [this] using h2

/-- total work handed to the item decoder: four header bytes per call plus the slices themselves
    never exceed the input -/
theorem calls_disjoint (m : Option Nat) (c : Coll) :
    4 * (listVarT f b m c).2.calls.length + ((listVarT f b m c).2.calls.map List.length).sum ≤ b.length := by
  rcases trace_core f b m c with h | ⟨first, hh, h1, h2⟩
  · rw [h]; simp
  · obtain ⟨_, _, hmod, hl, _⟩ := listHeader_some hh
    have := h2.length_le
    rw [List.length_flatten, List.length_drop] at this
    omega

/-! ### examples -/

/-- three one-byte items `[1]`, `[2]`, `[3]` -/
def three : Bytes := [12,0,0,0, 13,0,0,0, 14,0,0,0, 1, 2, 3]

/-- the identity item decoder -/
def idDec : Bytes → Res Bytes := fun s => .ok s

example : announced three = some 3 := by decide
example : listVarT idDec three none .vec =
    (.ok [[1], [2], [3]], { calls := [[1], [2], [3]], sizeHint := some 3 }) := by decide
/-- limit 2 on a 3-item list: error, nothing decoded, nothing reserved -/
example : listVarT idDec three (some 2) .vec = (.err, {}) := by decide
example : listVar idDec three (some 2) = .err := by decide
/-- collection with room for one item: pulls the second item, refuses it, error (not `[[1]]`) -/
example : listVarT idDec three none (.bounded 1) =
    (.err, { calls := [[1], [2]], sizeHint := some 3 }) := by decide
example : listVarT idDec three none (.bounded 3) = listVarT idDec three none .vec := by decide
example : listVarT idDec three none .refusing = (.err, {}) := by decide

end Ssz.C16
