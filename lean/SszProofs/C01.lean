import SszProofs.Lemmas.RoundTrip
/-
  C01 — Round trip: decoding an encoding returns the original value.

  For every type of the algebra that is well formed (`Ty.wf`) and inside the property's claim
  (`Ty.rt`: no transparent enum, no list whose items have zero encoded length, key types of sets/maps
  have a modelled order), every well-typed value whose encoding is shorter than 2^32 bytes.
-/
set_option linter.unusedSimpArgs false
namespace Ssz.C01
open Ssz.RT
open Ssz

mutual
theorem roundtrip : ∀ (t : Ty) (v : Val), t.wf = true → t.rt = true → hasType t v = true →
    (encode t v).length < 2^32 → decode t (encode t v) = .ok v
  | .uint k, v, _, _, h, _ => by
      cases v with
      | uint n =>
        simp only [hasType, decide_eq_true_eq] at h
        simp [encode, sszAppend, decode, le_length, fromLE_le, Nat.mod_eq_of_lt h]
      | _ => simp [hasType] at h
  | .bool, v, _, _, h, _ => by
      cases v with
      | bool b => cases b <;> simp [encode, sszAppend, decode]
      | _ => simp [hasType] at h
  | .nonZeroUsize, v, _, _, h, _ => by
      cases v with
      | uint n =>
        simp only [hasType, Bool.and_eq_true, decide_eq_true_eq] at h
        have h2 : n % 256 ^ 8 = n := Nat.mod_eq_of_lt (by have : (256:Nat)^8 = 2^64 := by decide
                                                          omega)
        simp only [encode, sszAppend, decode, List.nil_append, le_length, if_true, fromLE_le, h2]
        rw [if_neg (by omega)]
      | _ => simp [hasType] at h
  | .bytesN n, v, _, _, h, _ => by
      cases v with
      | bytes l =>
        simp only [hasType, beq_iff_eq] at h
        simp [encode, sszAppend, decode, h]
      | _ => simp [hasType] at h
  | .byteList, v, _, _, h, _ => by
      cases v with
      | bytes l => simp [encode, sszAppend, decode]
      | _ => simp [hasType] at h
  | .tagEnum n, v, hw, _, h, _ => by
      cases v with
      | tag i =>
        simp only [hasType, decide_eq_true_eq] at h
        simp only [Ty.wf, Bool.and_eq_true, decide_eq_true_eq] at hw
        have := ofNat_toNat i (by omega)
        simp [encode, sszAppend, decode, this, h]
      | _ => simp [hasType] at h
  | .bitvector n, v, _, _, h, _ => by
      cases v with
      | bits l =>
        simp only [hasType] at h
        simp only [encode, sszAppend, decode, List.nil_append]
        exact bits_roundtrip (.fixed n) l (by simpa [BKind.lenOk] using h)
      | _ => simp [hasType] at h
  | .bitlist n, v, _, _, h, _ => by
      cases v with
      | bits l =>
        simp only [hasType] at h
        simp only [encode, sszAppend, decode, List.nil_append]
        exact bits_roundtrip (.variable n) l (by simpa [BKind.lenOk] using h)
      | _ => simp [hasType] at h
  | .bitvectorDyn, v, _, _, h, _ => by
      cases v with
      | bits l =>
        simp only [hasType] at h
        simp only [encode, sszAppend, decode, List.nil_append]
        exact bits_roundtrip .dynamic l (by simpa [BKind.lenOk] using h)
      | _ => simp [hasType] at h
  | .transparentEnum _, _, _, hr, _, _ => by simp [Ty.rt] at hr
  | .option t, v, hw, hr, h, hl => by
      cases v with
      | none => simp [encode, sszAppend, decode, splitUnionBytes, unionSelectorNew, MAX_UNION_SELECTOR]
      | some x =>
        simp only [hasType] at h
        simp only [Ty.wf] at hw
        simp only [Ty.rt] at hr
        rw [encode_option_some'] at hl ⊢
        have ih := roundtrip t x hw hr h (by simp at hl; omega)
        have hs : splitUnionBytes (1 :: encode t x) = some (1, encode t x) := by
          simp [splitUnionBytes, unionSelectorNew, MAX_UNION_SELECTOR]
        rw [decode]
        simp [hs, ih]
      | _ => simp [hasType] at h
  | .legacyOption t, v, hw, hr, h, hl => by
      cases v with
      | none =>
        have h0 : le 4 0 = [0, 0, 0, 0] := rfl
        simp [encode, sszAppend, decode, encodeLength, h0, fromLE]
      | some x =>
        simp only [hasType] at h
        simp only [Ty.wf] at hw
        simp only [Ty.rt] at hr
        rw [encode_legacy_some] at hl ⊢
        have h4 : (encodeLength 1).length = 4 := by simp [encodeLength, le_length]
        have ih := roundtrip t x hw hr h (by simp at hl; omega)
        rw [decode]
        simp only [List.length_append, h4, List.take_left' h4, List.drop_left' h4]
        rw [if_neg (by omega)]
        simp [encodeLength, fromLE_le, ih]
      | _ => simp [hasType] at h
  | .union ts, v, hw, hr, h, hl => by
      cases v with
      | union i x =>
        simp only [hasType] at h
        simp only [Ty.wf, Bool.and_eq_true, decide_eq_true_eq] at hw
        simp only [Ty.rt] at hr
        have hi := hasTypeNth_lt ts i x h
        rw [encode_union'] at hl ⊢
        rw [decode]
        simp only [split_selector i (by omega), ofNat_toNat i (by omega)]
        exact decodeNth_appendNth ts i i x hw.1.1 hr h (by simp at hl; omega)
      | _ => simp [hasType] at h
  | .list c t, v, hw, hr, h, hl => by
      cases v with
      | list vs =>
        simp only [hasType, Bool.and_eq_true] at h
        simp only [Ty.wf, Bool.and_eq_true] at hw
        simp only [Ty.rt, Bool.and_eq_true, Bool.not_eq_true'] at hr
        exact rt_list c t vs hr.1.2 h.1 (collect_sorted c t vs hr.2 h.1 (by simpa using h.2)) hl
          (fun x hx hlx => roundtrip t x hw.1 hr.1.1 (hasTypeAll_mem t vs h.1 x hx) hlx)
      | _ => simp [hasType] at h
  | .tuple ts, v, hw, hr, h, hl => by
      cases v with
      | tuple vs =>
        simp only [hasType] at h
        simp only [Ty.wf, Bool.and_eq_true] at hw
        simp only [Ty.rt] at hr
        exact rt_tuple ts vs h hl (decodeItems_encodeEach ts vs hw.1.1 hr h)
      | _ => simp [hasType] at h
  | .container ts, v, hw, hr, h, hl => by
      cases v with
      | tuple vs =>
        simp only [hasType] at h
        simp only [Ty.wf] at hw
        simp only [Ty.rt] at hr
        exact rt_container ts vs h hl (decodeItems_encodeEach ts vs hw hr h)
          (fun hf => decodeSplit_flatten ts vs hw hr hf h)
      | _ => simp [hasType] at h
/-- the builder path: `decode_next` for each field on the items the builder cut out -/
theorem decodeItems_encodeEach : ∀ (ts : List Ty) (vs : List Val), wfAll ts = true → rtAll ts = true →
    hasTypes ts vs = true → (encodeEach ts vs).flatten.length < 2^32 →
    decodeItems ts (encodeEach ts vs) = .ok vs
  | [], [], _, _, _, _ => by simp [encodeEach, decodeItems]
  | [], _ :: _, _, _, h, _ => by simp [hasTypes] at h
  | _ :: _, [], _, _, h, _ => by simp [hasTypes] at h
  | t :: ts, v :: vs, hw, hr, h, hl => by
      simp only [wfAll, Bool.and_eq_true] at hw
      simp only [rtAll, Bool.and_eq_true] at hr
      simp only [hasTypes, Bool.and_eq_true] at h
      simp only [encodeEach, List.flatten_cons, List.length_append] at hl
      have ih1 := roundtrip t v hw.1 hr.1 h.1 (by omega)
      have ih2 := decodeItems_encodeEach ts vs hw.2 hr.2 h.2 (by omega)
      simp only [encodeEach, decodeItems, ih1, ih2, Res.map_ok]
/-- the all-fixed derived container: `split_at` per field -/
theorem decodeSplit_flatten : ∀ (ts : List Ty) (vs : List Val), wfAll ts = true → rtAll ts = true →
    allFixed ts = true → hasTypes ts vs = true → (encodeEach ts vs).flatten.length < 2^32 →
    decodeSplit ts (encodeEach ts vs).flatten = .ok vs
  | [], [], _, _, _, _, _ => by simp [encodeEach, decodeSplit]
  | [], _ :: _, _, _, _, h, _ => by simp [hasTypes] at h
  | _ :: _, [], _, _, _, h, _ => by simp [hasTypes] at h
  | t :: ts, v :: vs, hw, hr, hf, h, hl => by
      simp only [wfAll, Bool.and_eq_true] at hw
      simp only [rtAll, Bool.and_eq_true] at hr
      simp only [allFixed, Bool.and_eq_true] at hf
      simp only [hasTypes, Bool.and_eq_true] at h
      simp only [encodeEach, List.flatten_cons, List.length_append] at hl
      have ih1 := roundtrip t v hw.1 hr.1 h.1 (by omega)
      have ih2 := decodeSplit_flatten ts vs hw.2 hr.2 hf.2 h.2 (by omega)
      have hlen := encode_fixed_length t v hf.1 h.1
      simp only [encodeEach, List.flatten_cons, decodeSplit, List.length_append]
      rw [if_neg (by omega), List.take_left' hlen, List.drop_left' hlen]
      simp only [ih1, ih2, Res.map_ok]
/-- the union body: the selected variant's decoder on the selected variant's encoding -/
theorem decodeNth_appendNth : ∀ (ts : List Ty) (i sel : Nat) (x : Val), wfAll ts = true → rtAll ts = true →
    hasTypeNth ts i x = true → (appendNth ts i x []).length < 2^32 →
    decodeNth ts i sel (appendNth ts i x []) = .ok (.union sel x)
  | [], _, _, _, _, _, h, _ => by simp [hasTypeNth] at h
  | t :: ts, 0, sel, x, hw, hr, h, hl => by
      simp only [wfAll, Bool.and_eq_true] at hw
      simp only [rtAll, Bool.and_eq_true] at hr
      simp only [hasTypeNth] at h
      simp only [appendNth] at hl ⊢
      have ih := roundtrip t x hw.1 hr.1 h hl
      simp only [encode] at ih
      simp only [decodeNth, ih, Res.map_ok]
  | t :: ts, i+1, sel, x, hw, hr, h, hl => by
      simp only [wfAll, Bool.and_eq_true] at hw
      simp only [rtAll, Bool.and_eq_true] at hr
      simp only [hasTypeNth] at h
      simp only [appendNth] at hl ⊢
      simp only [decodeNth]
      exact decodeNth_appendNth ts i sel x hw.2 hr.2 h hl
end

/-- the encoder is injective on well-typed values with short encodings -/
theorem encode_injective_on_typed (t : Ty) (v w : Val) (hw : t.wf = true) (hr : t.rt = true)
    (hv : hasType t v = true) (hw' : hasType t w = true) (hl : (encode t v).length < 2^32)
    (he : encode t v = encode t w) : v = w := by
  have h1 := roundtrip t v hw hr hv hl
  have h2 := roundtrip t w hw hr hw' (he ▸ hl)
  rw [he, h2] at h1
  injection h1 with h1
  exact h1.symm

/-! ### concrete instances -/

section Examples

/-- a three-field mixed container whose last field is an empty list -/
example :
    let t : Ty := .container [.uint 2, .list .vec (.uint 1), .list .vec (.uint 4)]
    let v : Val := .tuple [.uint 513, .list [.uint 7, .uint 9], .list []]
    decode t (encode t v) = .ok v := by
  intro t v
  refine roundtrip t v ?_ ?_ ?_ ?_
  · simp [t, Ty.wf, wfAll]
  · simp [t, Ty.rt, rtAll, keyTyOk, Ty.isFixed, Ty.fixedLen]
  · simp [t, v, hasType, hasTypes, hasTypeAll]
  · simp [t, v, encode, sszAppend, appendFields, appendSeq, appendAll, Enc.container, Enc.appendWith,
      Enc.finalize, Ty.isFixed, allFixed, sumFixedLen, Ty.fixedLen, le, encodeLength]

/-- a list of lists (variable-size items inside a variable-size list, one of them empty) -/
example :
    let t : Ty := .list .vec (.list .vec (.uint 2))
    let v : Val := .list [.list [.uint 1, .uint 2], .list [], .list [.uint 3]]
    decode t (encode t v) = .ok v := by
  intro t v
  refine roundtrip t v ?_ ?_ ?_ ?_
  · simp [t, Ty.wf]
  · simp [t, Ty.rt, keyTyOk, Ty.isFixed, Ty.fixedLen]
  · simp [t, v, hasType, hasTypeAll]
  · simp [t, v, encode, sszAppend, appendSeq, appendAll, Enc.container, Enc.appendWith,
      Enc.finalize, Ty.isFixed, le, encodeLength]

/-- a union whose selected variant is a list -/
example :
    let t : Ty := .union [.uint 1, .list .vec (.uint 2), .bool]
    let v : Val := .union 1 (.list [.uint 300])
    decode t (encode t v) = .ok v := by
  intro t v
  refine roundtrip t v ?_ ?_ ?_ ?_
  · simp [t, Ty.wf, wfAll]
  · simp [t, Ty.rt, rtAll, keyTyOk, Ty.isFixed, Ty.fixedLen]
  · simp [t, v, hasType, hasTypeNth, hasTypeAll]
  · simp [t, v, encode, sszAppend, appendNth, appendAll, Ty.isFixed, le]

/-- a set of `u16` given in ascending order -/
example :
    let t : Ty := .list .set (.uint 2)
    let v : Val := .list [.uint 1, .uint 5, .uint 9]
    decode t (encode t v) = .ok v := by
  intro t v
  refine roundtrip t v ?_ ?_ ?_ ?_
  · simp [t, Ty.wf]
  · simp [t, Ty.rt, keyTyOk, Ty.ordKey, Ty.isFixed, Ty.fixedLen]
  · simp [t, v, hasType, hasTypeAll, sortedBy, keyOf, Val.cmp, compare, compareOfLessAndEq]
  · simp [t, v, encode, sszAppend, appendAll, Ty.isFixed, le]

/-- a map `u8 → Vec<u8>` given in ascending key order; entries are variable-size pairs -/
example :
    let t : Ty := .list .map (.tuple [.uint 1, .list .vec (.uint 1)])
    let v : Val := .list [.tuple [.uint 3, .list []], .tuple [.uint 4, .list [.uint 1]]]
    decode t (encode t v) = .ok v := by
  intro t v
  refine roundtrip t v ?_ ?_ ?_ ?_
  · simp [t, Ty.wf, wfAll]
  · simp [t, Ty.rt, rtAll, keyTyOk, Ty.ordKey, Ty.isFixed, allFixed, Ty.fixedLen]
  · simp [t, v, hasType, hasTypes, hasTypeAll, sortedBy, keyOf, Val.cmp, compare, compareOfLessAndEq]
  · simp [t, v, encode, sszAppend, appendSeq, appendFields, appendAll, Enc.container, Enc.appendWith,
      Enc.finalize, Ty.isFixed, allFixed, sumFixedLen, Ty.fixedLen, le, encodeLength]

/-- injectivity instance: two typed `Option<u16>` values with the same encoding are equal -/
example (v w : Val) (hv : hasType (.option (.uint 2)) v = true) (hw : hasType (.option (.uint 2)) w = true)
    (hl : (encode (.option (.uint 2)) v).length < 2^32)
    (he : encode (.option (.uint 2)) v = encode (.option (.uint 2)) w) : v = w :=
  encode_injective_on_typed _ v w (by simp [Ty.wf]) (by simp [Ty.rt]) hv hw hl he

end Examples

end Ssz.C01
