import SszProofs.Lemmas.AllocLemmas
/-
  C06 — Decoding allocates memory at most linearly in the input length.

  `allocUnits t b` (SszModel/Alloc.lean) is the cost semantics of the allocation sites of
  `decode t b`. `allocA t` (slope) and `allocB t` (intercept) are constants of the type alone
  (SszProofs/Lemmas/AllocLemmas.lean). Main theorem: `allocUnits t b ≤ allocA t * b.length + allocB t`
  for every type and every byte string. `no_phantom_reservation` states, independently of the cost
  constants, that no count/offset field can make a collection reserve slots for items whose bytes
  are not in the input.
-/
set_option linter.unusedSimpArgs false
namespace Ssz.C06
open Ssz Ssz.AL

/-! ### sums over explicit lists of slices (plain list induction, item bound as a hypothesis) -/

theorem allocAll_le (t : Ty) (A B : Nat) (ih : ∀ c : Bytes, allocUnits t c ≤ A * c.length + B) :
    ∀ cs : List Bytes, allocAll t cs ≤ A * (cs.map List.length).sum + B * cs.length
  | [] => by simp [allocAll]
  | c :: cs => by
      have h1 := ih c
      have h2 := allocAll_le t A B ih cs
      simp only [allocAll, List.map_cons, List.sum_cons, List.length_cons, Nat.mul_add, Nat.mul_one]
      omega

/-- the list decoder, both paths -/
theorem list_le (c : CKind) (t : Ty) (b : Bytes)
    (ih : ∀ x : Bytes, allocUnits t x ≤ allocA t * x.length + allocB t) :
    allocUnits (.list c t) b ≤ (4 * t.slot + allocA t + allocB t) * b.length := by
  have hall := allocAll_le t _ _ ih
  rw [allocUnits]
  by_cases he : b.isEmpty = true
  · simp [he]
  · simp only [he, Bool.false_eq_true, if_false]
    by_cases hf : t.isFixed = true
    · simp only [hf, if_true]
      by_cases hz : t.fixedLen = 0
      · simp [hz]
      · simp only [hz, if_false]
        cases hc : chunks t.fixedLen b with
        | ok cs =>
          simp only
          exact list_bound _ _ _ _ _ _ _ _ (chunks_length (by omega) hc) (chunks_sum hc)
            (chunks_length (by omega) hc) (hall cs)
        | err => simp
        | panic => simp
    · simp only [hf, Bool.false_eq_true, if_false]
      have h1 := hint_le (decode t) b none .vec
      have h2 := C16.calls_disjoint (decode t) b none .vec
      exact list_bound _ _ _ _ _ _ _ _ (by omega) (by omega) (by omega) (hall _)

/-! ### the main theorem -/

mutual
/-- **C06**: for every type and every input, the allocation cost of `decode t b` is at most
    `allocA t * b.length + allocB t`, where `allocA`, `allocB` depend on the type only. -/
theorem alloc_linear : ∀ (t : Ty) (b : Bytes), allocUnits t b ≤ allocA t * b.length + allocB t
  | .uint _, b => by simp [allocUnits]
  | .bool, b => by simp [allocUnits]
  | .nonZeroUsize, b => by simp [allocUnits]
  | .bytesN _, b => by simp [allocUnits]
  | .tagEnum _, b => by simp [allocUnits]
  | .byteList, b => by simp [allocUnits, allocA, allocB]
  | .bitvector _, b => by simp [allocUnits, allocA, allocB]
  | .bitlist _, b => by simp [allocUnits, allocA, allocB]
  | .bitvectorDyn, b => by simp [allocUnits, allocA, allocB]
  | .list c t, b => by
      have := list_le c t b (fun x => alloc_linear t x)
      simp only [allocA, allocB]; omega
  | .option t, b => by
      have h := alloc_linear t (b.drop 1)
      have : allocA t * (b.drop 1).length ≤ allocA t * b.length := mul_mono _ (by simp)
      simp only [allocUnits, allocA, allocB]; omega
  | .legacyOption t, b => by
      have h := alloc_linear t (b.drop 4)
      have : allocA t * (b.drop 4).length ≤ allocA t * b.length := mul_mono _ (by simp)
      simp only [allocUnits, allocA, allocB]; omega
  | .tuple ts, b => by
      simp only [allocUnits, allocA, allocB]
      cases hb : build (regsOf ts) b with
      | ok items =>
        have h1 := allocItems_linear ts items
        have h2 : allocAs ts * (items.map List.length).sum ≤ allocAs ts * b.length :=
          mul_mono _ (build_items_sum hb)
        simp only; omega
      | err => simp only; omega
      | panic => simp only; omega
  | .container ts, b => by
      simp only [allocUnits, allocA, allocB]
      by_cases hf : allFixed ts = true
      · simp only [hf, if_true]
        have := allocSplit_linear ts b
        omega
      · simp only [hf, Bool.false_eq_true, if_false]
        cases hb : build (regsOf ts) b with
        | ok items =>
          have h1 := allocItems_linear ts items
          have h2 : allocAs ts * (items.map List.length).sum ≤ allocAs ts * b.length :=
            mul_mono _ (build_items_sum hb)
          simp only; omega
        | err => simp only; omega
        | panic => simp only; omega
  | .union ts, b => by
      cases b with
      | nil => simp [allocUnits]
      | cons s body =>
        have h1 := allocNth_linear ts s.toNat body
        have h2 : allocAs ts * body.length ≤ allocAs ts * (s :: body).length := mul_mono _ (by simp)
        simp only [allocUnits, allocA, allocB]; omega
  | .transparentEnum ts, b => by
      simp only [allocUnits, allocA, allocB]
      exact allocEvery_linear ts b
/-- the builder path: one item per field -/
theorem allocItems_linear : ∀ (ts : List Ty) (items : List Bytes),
    allocItems ts items ≤ allocAs ts * (items.map List.length).sum + allocBs ts
  | [], items => by simp [allocItems]
  | t :: ts, [] => by simp [allocItems]
  | t :: ts, it :: its => by
      have h1 := alloc_linear t it
      have h2 := allocItems_linear ts its
      have h3 := split_bound (allocA t) (allocAs ts) it.length (its.map List.length).sum
      simp only [allocItems, allocAs, allocBs, List.map_cons, List.sum_cons]; omega
/-- the `split_at` path of all-fixed containers -/
theorem allocSplit_linear : ∀ (ts : List Ty) (b : Bytes),
    allocSplit ts b ≤ allocAs ts * b.length + allocBs ts
  | [], b => by simp [allocSplit]
  | t :: ts, b => by
      have h1 := alloc_linear t (b.take t.fixedLen)
      have h2 := allocSplit_linear ts (b.drop t.fixedLen)
      have h3 := split_bound' (allocA t) (allocAs ts) (b.take t.fixedLen).length
        (b.drop t.fixedLen).length b.length (by simp only [List.length_take, List.length_drop]; omega)
      simp only [allocSplit, allocAs, allocBs]; omega
/-- the selected union variant -/
theorem allocNth_linear : ∀ (ts : List Ty) (i : Nat) (body : Bytes),
    allocNth ts i body ≤ allocAs ts * body.length + allocBs ts
  | [], i, body => by simp [allocNth]
  | t :: ts, 0, body => by
      have h1 := alloc_linear t body
      simp only [allocNth, allocAs, allocBs, Nat.add_mul]; omega
  | t :: ts, i+1, body => by
      have h1 := allocNth_linear ts i body
      simp only [allocNth, allocAs, allocBs, Nat.add_mul]; omega
/-- transparent enums try every variant on the whole input -/
theorem allocEvery_linear : ∀ (ts : List Ty) (b : Bytes),
    allocEvery ts b ≤ allocAs ts * b.length + allocBs ts
  | [], b => by simp [allocEvery]
  | t :: ts, b => by
      have h1 := alloc_linear t b
      have h2 := allocEvery_linear ts b
      simp only [allocEvery, allocAs, allocBs, Nat.add_mul]; omega
end

/-- companion for explicit lists of slices: `allocA t` per byte plus `allocB t` per slice -/
theorem allocAll_linear (t : Ty) (cs : List Bytes) :
    allocAll t cs ≤ allocA t * (cs.map List.length).sum + allocB t * cs.length :=
  allocAll_le t _ _ (alloc_linear t) cs

/-- lists have no intercept: the cost is proportional to the input length -/
theorem alloc_list_proportional (c : CKind) (t : Ty) (b : Bytes) :
    allocUnits (.list c t) b ≤ allocA (.list c t) * b.length := by
  have := list_le c t b (alloc_linear t)
  simpa only [allocA] using this

/-- empty input: nothing is requested -/
theorem alloc_zero_on_empty (c : CKind) (t : Ty) : allocUnits (.list c t) [] = 0 := by
  simp [allocUnits]

/-! ### no length / count / offset field reserves memory for absent items -/

/-- (1) offset-table path: the capacity handed to `Vec::with_capacity` (for any collection, any
    length limit, success and error paths alike) is at most a quarter of the input length, whatever
    the first offset word says. (2) chunk path: at most one item per input byte. -/
theorem no_phantom_reservation :
    (∀ {α : Type} (f : Bytes → Res α) (b : Bytes) (m : Option Nat) (c : Coll) (n : Nat),
      (listVarT f b m c).2.sizeHint = some n → 4 * n ≤ b.length) ∧
    (∀ (n : Nat) (b : Bytes) (cs : List Bytes), 0 < n → chunks n b = .ok cs → cs.length ≤ b.length) :=
  ⟨fun f b m c n h => C16.size_hint_backed f b m c n h, fun _ _ _ hn h => chunks_length hn h⟩

/-- the item decoder is never handed more than the input: four header bytes per call plus the
    slices themselves fit into `b` -/
theorem no_phantom_items {α : Type} (f : Bytes → Res α) (b : Bytes) (m : Option Nat) (c : Coll) :
    4 * (listVarT f b m c).2.calls.length + ((listVarT f b m c).2.calls.map List.length).sum ≤ b.length :=
  C16.calls_disjoint f b m c

/-- the fields a container/tuple decoder hands to its field decoders are disjoint pieces of the input -/
theorem no_phantom_fields (regs : List Reg) (b : Bytes) (items : List Bytes)
    (h : build regs b = .ok items) : (items.map List.length).sum ≤ b.length :=
  build_items_sum h

/-! ### examples -/

/-- a 4-byte input announcing 2^28 items (first offset 2^30) is rejected before any reservation -/
example {α : Type} (f : Bytes → Res α) : listVarT f [0,0,0,64] none .vec = (.err, {}) := by
  simp [listVarT, readOffset, fromLE, sanitizeOffset]
example {α : Type} (f : Bytes → Res α) : listVarT f [0,0,0,64,0] none .vec = (.err, {}) := by
  simp [listVarT, readOffset, fromLE, sanitizeOffset]
example : allocUnits (.list .vec .byteList) [0,0,0,64] = 0 := by
  simp [allocUnits, allocAll, Ty.isFixed, listVarT, readOffset, fromLE, sanitizeOffset]

/-- chunk path: two `u64` items, two 8-byte slots (factor 4: geometric growth of `collect`) -/
example : allocUnits (.list .vec (.uint 8)) [1,0,0,0,0,0,0,0, 2,0,0,0,0,0,0,0] = 64 := by
  simp [allocUnits, allocAll, Ty.isFixed, Ty.fixedLen, Ty.slot, chunks, chunksGo]
/-- offset-table path: two `Bytes` items `[1]`, `[2,3]`: two 32-byte slots plus the three copied bytes -/
example : allocUnits (.list .vec .byteList) [8,0,0,0, 9,0,0,0, 1, 2,3] = 259 := by
  have h : (listVarT (decode .byteList) [8,0,0,0, 9,0,0,0, 1, 2,3] none .vec).2
      = { calls := [[1],[2,3]], sizeHint := some 2 } := by
    simp [listVarT, listVarGoT, readOffset, fromLE, sanitizeOffset, decode]
  simp [allocUnits, allocAll, Ty.isFixed, Ty.slot, h]
/-- error path (second offset out of bounds): the two announced slots, backed by eight header
    bytes, are all that is reserved; no item is decoded -/
example : allocUnits (.list .vec .byteList) [8,0,0,0, 200,0,0,0, 1, 2,3] = 256 := by
  have h : (listVarT (decode .byteList) [8,0,0,0, 200,0,0,0, 1, 2,3] none .vec).2
      = { calls := [], sizeHint := some 2 } := by
    simp [listVarT, listVarGoT, readOffset, fromLE, sanitizeOffset, decode]
  simp [allocUnits, allocAll, Ty.isFixed, Ty.slot, h]
/-- builder path: `(u8, Bytes)` -/
example : allocUnits (.tuple [.uint 1, .byteList]) [7, 5,0,0,0, 1,2,3] = 3 := by
  simp [allocUnits, allocItems, spill, regsOf, Ty.reg, Ty.isFixed, Ty.fixedLen, build, registerAll,
    Builder.register, Builder.finalize, setSlices, readOffset, fromLE, sanitizeOffset]
/-- the constants for `Vec<Bytes>`: 129 units per input byte, no intercept -/
example : allocA (.list .vec .byteList) = 129 ∧ allocB (.list .vec .byteList) = 0 := by
  simp [allocA, allocB, Ty.slot]
example (b : Bytes) : allocUnits (.list .vec .byteList) b ≤ 129 * b.length := by
  have := alloc_linear (.list .vec .byteList) b
  simpa [allocA, allocB, Ty.slot] using this

end Ssz.C06
