import SszProofs.Lemmas.BitCore
import SszProofs.Lemmas.BitFacts
set_option linter.unusedSimpArgs false
set_option linter.unusedVariables false
/-
  C14 — the bitfield byte-level API (`from_bytes` / `into_bytes` of `BitList<N>`, `BitVector<N>`,
  `BitVectorDynamic`) agrees with the SSZ codec and its validity rules, for every capacity `N`
  (including 0, 1 and byte-boundary sizes) and every byte string.
-/
namespace Ssz.C14
open Ssz.BC
open Ssz

theorem eq_nil_or_snoc {α} (l : List α) : l = [] ∨ ∃ init last, l = init ++ [last] := by
  rcases List.eq_nil_or_concat l with h | ⟨i, x, h⟩
  · exact Or.inl h
  · exact Or.inr ⟨i, x, by rw [h, List.concat_eq_append]⟩

/-! ### bitlists -/

theorem bitlistValid_iff (N : Nat) (b : Bytes) :
    Spec.bitlistValid N b = true ↔
      ∃ init last, b = init ++ [last] ∧ last ≠ 0 ∧ 8 * init.length + last.toNat.log2 ≤ N := by
  unfold Spec.bitlistValid
  rcases eq_nil_or_snoc b with rfl | ⟨init, last, rfl⟩
  · simp
  · simp only [List.getLast?_append, List.getLast?_singleton, Option.some_or, List.length_append,
      List.length_cons, List.length_nil, Nat.zero_add, Nat.add_sub_cancel, Bool.and_eq_true, bne_iff_ne,
      ne_eq, decide_eq_true_eq]
    constructor
    · intro h; exact ⟨init, last, rfl, h.1, h.2⟩
    · rintro ⟨i', l', he, h1, h2⟩
      obtain ⟨rfl, hl⟩ := List.append_inj' he rfl
      injection hl with hl _
      subst hl
      exact ⟨h1, h2⟩

/-- what an accepted string looks like: the last byte is non-zero and its highest set bit is the
    delimiter, at position `len` -/
theorem accepted_last (N : Nat) (init : Bytes) (last : UInt8) (bf : BF)
    (h : BF.fromBytesV N (init ++ [last]) = .ok bf) :
    last ≠ 0 ∧ bf.len = 8 * init.length + last.toNat.log2 := by
  obtain ⟨hinv, hN, hl, hbits⟩ := (fromBytesV_ok_iff N _ bf).mp h
  have hlen : init.length = bf.len / 8 := by simpa using hl
  have hk : bf.len % 8 < 8 := Nat.mod_lt _ (by decide)
  have e : bf.len = 8 * init.length + bf.len % 8 := by omega
  have h1 : tb last (bf.len % 8) = true := by
    have := hbits bf.len
    rw [e, bit_snoc_last _ _ _ hk, ← e] at this
    simpa using this
  have h2 : ∀ j < 8, bf.len % 8 < j → tb last j = false := by
    intro j hj hlt
    have := hbits (8 * init.length + j)
    rw [bit_snoc_last _ _ _ hj, hinv.2 _ (by omega)] at this
    have hne : 8 * init.length + j ≠ bf.len := by omega
    simpa [hne] using this
  have hlog := log2_eq_of_tb last _ hk h1 h2
  refine ⟨?_, by omega⟩
  intro e0; subst e0; rw [tb_zero] at h1; cases h1

/-- `BitList<N>::from_bytes` accepts exactly: non-empty, last byte non-zero, highest set bit of the
    last byte at overall position at most `N` -/
theorem fromBytes_bitlist_ok_iff (N : Nat) (b : Bytes) :
    (∃ bf, BF.fromBytesV N b = .ok bf) ↔ Spec.bitlistValid N b = true := by
  rw [bitlistValid_iff]
  constructor
  · rintro ⟨bf, h⟩
    have hb : b ≠ [] := by
      intro e; subst e
      have := ((fromBytesV_ok_iff N _ bf).mp h).2.2.1
      simp at this
    rcases eq_nil_or_snoc b with rfl | ⟨init, last, rfl⟩
    · exact absurd rfl hb
    · obtain ⟨h1, h2⟩ := accepted_last N init last bf h
      exact ⟨init, last, rfl, h1, by rw [← h2]; exact ((fromBytesV_ok_iff N _ bf).mp h).2.1⟩
  · rintro ⟨init, last, rfl, hne, hN⟩
    have hlog := log2_lt last hne
    refine ⟨BF.ofBits ((List.range (8 * init.length + last.toNat.log2)).map (bit (init ++ [last]))), ?_⟩
    rw [fromBytesV_ok_iff]
    have hlen : (BF.ofBits ((List.range (8 * init.length + last.toNat.log2)).map
        (bit (init ++ [last])))).len = 8 * init.length + last.toNat.log2 := by
      rw [ofBits_len]; simp
    refine ⟨ofBits_inv _, by rw [hlen]; exact hN, by rw [hlen]; simp; omega, fun j => ?_⟩
    rw [hlen, ofBits_bit]
    by_cases hj : j < 8 * init.length + last.toNat.log2
    · have hne' : j ≠ 8 * init.length + last.toNat.log2 := by omega
      simp [hj, hne']
    · by_cases he : j = 8 * init.length + last.toNat.log2
      · subst he
        rw [bit_snoc_last _ _ _ hlog, tb_log2 last hne]; simp
      · have hnone : ((List.range (8 * init.length + last.toNat.log2)).map (bit (init ++ [last])))[j]? = none :=
          List.getElem?_eq_none (by simp; omega)
        rw [hnone]
        simp only [he, decide_false, Option.getD_none, Bool.or_self]
        by_cases hq : j / 8 < init.length + 1
        · have ej : j = 8 * init.length + (j - 8 * init.length) := by omega
          rw [ej, bit_snoc_last _ _ _ (by omega)]
          exact tb_above_log2 last hne _ (by omega)
        · exact bit_oob _ _ (by simp; omega)

/-- the value `from_bytes` returns: well formed, within capacity, its length is the position of the
    highest set bit of the last byte, and its bits are the bits of the string below that delimiter -/
theorem fromBytes_bitlist_value (N : Nat) (b : Bytes) (bf : BF) (h : BF.fromBytesV N b = .ok bf) :
    bf.Inv ∧ bf.len ≤ N ∧ b.length = bf.len / 8 + 1 ∧
    (∃ last, b.getLast? = some last ∧ last ≠ 0 ∧ bf.len = 8 * (b.length - 1) + last.toNat.log2) ∧
    bit b bf.len = true ∧ (∀ j, bf.len < j → bit b j = false) ∧
    bf.abs = Spec.bitsOf b bf.len := by
  obtain ⟨hinv, hN, hl, hbits⟩ := (fromBytesV_ok_iff N b bf).mp h
  refine ⟨hinv, hN, hl, ?_, by rw [hbits]; simp, ?_, ?_⟩
  · rcases eq_nil_or_snoc b with rfl | ⟨init, last, rfl⟩
    · simp at hl
    · obtain ⟨h1, h2⟩ := accepted_last N init last bf h
      exact ⟨last, by simp, h1, by simpa using h2⟩
  · intro j hj
    have hne : j ≠ bf.len := by omega
    rw [hbits, hinv.2 j (by omega)]; simp [hne]
  · rw [bitsOf_eq]
    apply List.ext_getElem
    · simp [abs_length]
    · intro n h1 h2
      have hn : n < bf.len := by simpa [abs_length] using h1
      have hne : n ≠ bf.len := by omega
      rw [abs_getElem]
      simp [hbits n, hne]

/-- closed form of `BitList<N>::from_bytes` -/
theorem fromBytes_bitlist_eq (N : Nat) (b : Bytes) :
    BF.fromBytesV N b =
      if Spec.bitlistValid N b = true then
        .ok (BF.ofBits (Spec.bitsOf b (8 * (b.length - 1) + (b.getLast?.getD 0).toNat.log2)))
      else .err := by
  by_cases hv : Spec.bitlistValid N b = true
  · rw [if_pos hv]
    obtain ⟨bf, h⟩ := (fromBytes_bitlist_ok_iff N b).mpr hv
    obtain ⟨hinv, _, _, ⟨last, hlast, _, hlen⟩, _, _, habs⟩ := fromBytes_bitlist_value N b bf h
    rw [h, hlast, Option.getD_some, ← hlen, ← habs, ofBits_of_abs bf hinv]
  · rw [if_neg hv]
    cases h : BF.fromBytesV N b with
    | err => rfl
    | panic => exact absurd h (fromBytesV_ne_panic N b)
    | ok bf => exact absurd ((fromBytes_bitlist_ok_iff N b).mp ⟨bf, h⟩) hv

theorem fromBytes_bitlist_no_panic (N : Nat) (b : Bytes) : BF.fromBytesV N b ≠ .panic :=
  fromBytesV_ne_panic N b

/-- `BitList::into_bytes` of a well-formed bitlist never panics and is the SSZ serialization:
    the bits followed by the delimiter bit, in `len / 8 + 1` bytes -/
theorem intoBytes_bitlist (bf : BF) (h : bf.Inv) :
    bf.intoBytesV = .ok (Spec.packBits (bf.abs ++ [true]) (bf.len / 8 + 1)) := by
  have hs := bits_spec_variable bf.len bf.abs (by rw [abs_length]; exact Nat.le_refl _)
  obtain ⟨b, hb, _⟩ := intoBytesV_spec bf h
  unfold bitsBytes at hs
  rw [ofBits_of_abs bf h, abs_length] at hs
  change (match bf.intoBytesV with | .ok b => b | _ => []) = _ at hs
  rw [hb] at hs ⊢
  simp only at hs
  rw [hs]

/-! ### bitvectors -/

theorem bitvectorValid_iff_inv (N : Nat) (b : Bytes) :
    Spec.bitvectorValid N b = true ↔ (⟨b, N⟩ : BF).Inv := by
  have hbit : ∀ i, (b.getD (i / 8) 0).toNat.testBit (i % 8) = bit b i := by
    intro i; simp [bit, tb, List.getD_eq_getElem?_getD]
  unfold Spec.bitvectorValid BF.Inv
  simp only [Bool.and_eq_true, beq_iff_eq, List.all_eq_true, List.mem_range, hbit, Bool.not_eq_true',
    bytesForBitLen]
  constructor
  · rintro ⟨h1, h2⟩
    refine ⟨h1, fun i hi => ?_⟩
    have hi' : N ≤ i := hi
    by_cases hq : i / 8 < b.length
    · have := h2 (i - N) (by omega)
      rwa [show N + (i - N) = i by omega] at this
    · exact bit_oob b i (by omega)
  · rintro ⟨h1, h2⟩
    exact ⟨h1, fun j _ => h2 (N + j) (Nat.le_add_right N j)⟩

/-- `BitVector<N>::from_bytes` accepts exactly the strings of `max 1 ⌈N/8⌉` bytes with no bit at or
    above `N` -/
theorem fromBytes_bitvector_ok_iff (N : Nat) (b : Bytes) :
    (∃ bf, BF.fromBytesF N b = some bf) ↔ Spec.bitvectorValid N b = true := by
  rw [bitvectorValid_iff_inv]
  unfold BF.fromBytesF
  constructor
  · rintro ⟨bf, h⟩; exact ((fromRawBytes_iff b N bf).mp h).2
  · intro h; exact ⟨⟨b, N⟩, (fromRawBytes_iff b N _).mpr ⟨rfl, h⟩⟩

theorem fromBytes_bitvector_value (N : Nat) (b : Bytes) (bf : BF) (h : BF.fromBytesF N b = some bf) :
    bf = ⟨b, N⟩ ∧ bf.Inv ∧ bf.abs = Spec.bitsOf b N := by
  obtain ⟨rfl, hinv⟩ := (fromRawBytes_iff b N bf).mp h
  exact ⟨rfl, hinv, abs_eq_bitsOf _⟩

/-- closed form of `BitVector<N>::from_bytes` -/
theorem fromBytes_bitvector_eq (N : Nat) (b : Bytes) :
    BF.fromBytesF N b = if Spec.bitvectorValid N b = true then some ⟨b, N⟩ else none := by
  by_cases hv : Spec.bitvectorValid N b = true
  · rw [if_pos hv]
    exact (fromRawBytes_iff b N _).mpr ⟨rfl, (bitvectorValid_iff_inv N b).mp hv⟩
  · rw [if_neg hv]
    cases h : BF.fromBytesF N b with
    | none => rfl
    | some bf => exact absurd ((fromBytes_bitvector_ok_iff N b).mp ⟨bf, h⟩) hv

/-- `BitVector::into_bytes` of a well-formed bitvector is the SSZ serialization -/
theorem intoBytes_bitvector (bf : BF) (h : bf.Inv) :
    bf.intoBytesF = Spec.packBits bf.abs (max 1 ((bf.len + 7) / 8)) := by
  have hs := bits_spec_fixed bf.len bf.abs (abs_length bf)
  unfold bitsBytes at hs
  rw [ofBits_of_abs bf h] at hs
  exact hs

/-! ### dynamic bitvectors -/

/-- `BitVectorDynamic::from_ssz_bytes` accepts exactly the non-empty strings -/
theorem decode_dynamic_ok_iff (b : Bytes) : (∃ bf, BF.decodeDyn b = some bf) ↔ b ≠ [] := by
  constructor
  · rintro ⟨bf, h⟩; exact ((decodeDyn_iff b bf).mp h).1
  · intro h; exact ⟨_, (decodeDyn_iff b _).mpr ⟨h, rfl⟩⟩

theorem decode_dynamic_value (b : Bytes) (bf : BF) (h : BF.decodeDyn b = some bf) :
    bf = ⟨b, 8 * b.length⟩ ∧ bf.Inv ∧ bf.abs = Spec.bitsOf b (8 * b.length) := by
  obtain ⟨hb, rfl⟩ := (decodeDyn_iff b bf).mp h
  rw [Nat.mul_comm 8]
  exact ⟨rfl, inv_full b hb, abs_eq_bitsOf _⟩

theorem decode_dynamic_eq (b : Bytes) :
    BF.decodeDyn b = if b = [] then none else some ⟨b, 8 * b.length⟩ := by
  by_cases hb : b = []
  · subst hb; rfl
  · rw [if_neg hb, Nat.mul_comm 8]
    exact (decodeDyn_iff b _).mpr ⟨hb, rfl⟩

/-- `BitVectorDynamic::from_bytes_with_len` accepts exactly non-empty strings with `len = 8 * bytes` -/
theorem fromBytesWithLen_ok_iff (b : Bytes) (n : Nat) :
    (∃ bf, BF.fromBytesWithLen b n = some bf) ↔ b ≠ [] ∧ n = 8 * b.length := by
  unfold BF.fromBytesWithLen
  by_cases hn : n = b.length * 8
  · subst hn
    rw [if_neg (by simp), fromRawBytes_full]
    by_cases hb : b = []
    · subst hb; simp
    · simp [hb, Nat.mul_comm]
  · rw [if_pos hn]
    constructor
    · rintro ⟨bf, h⟩; cases h
    · rintro ⟨_, h⟩; exact absurd (by omega) hn

theorem fromBytesWithLen_value (b : Bytes) (n : Nat) (bf : BF) (h : BF.fromBytesWithLen b n = some bf) :
    bf = ⟨b, 8 * b.length⟩ ∧ BF.decodeDyn b = some bf := by
  obtain ⟨hb, hn⟩ := (fromBytesWithLen_ok_iff b n).mp ⟨bf, h⟩
  unfold BF.fromBytesWithLen at h
  have hn' : n = b.length * 8 := by omega
  subst hn'
  rw [if_neg (by simp), fromRawBytes_full, if_neg hb] at h
  injection h with h
  subst h
  exact ⟨by rw [Nat.mul_comm], (decodeDyn_iff b _).mpr ⟨hb, rfl⟩⟩

/-- `into_bytes` of a well-formed dynamic bitvector is the SSZ serialization -/
theorem intoBytes_dynamic (bf : BF) (h : bf.Inv) (h0 : 0 < bf.len) (h8 : bf.len % 8 = 0) :
    bf.bytes = Spec.packBits bf.abs (bf.len / 8) := by
  have hs := bits_spec_dynamic bf.abs (by rw [abs_length]; exact h0) (by rw [abs_length]; exact h8)
  unfold bitsBytes at hs
  rw [ofBits_of_abs bf h, abs_length] at hs
  exact hs

/-! ### all three behaviours: no panic, and the two directions of the round trip -/

theorem fromBytes_no_panic (k : BKind) (b : Bytes) : BF.fromBytes k b ≠ .panic :=
  fromBytes_ne_panic k b

theorem intoBytes_no_panic (k : BKind) (bf : BF) (h : bf.Inv) : bf.intoBytes k ≠ .panic := by
  cases k with
  | «variable» N => exact intoBytesV_ne_panic bf h
  | fixed N => intro e; cases e
  | dynamic => intro e; cases e

/-- every accepted value is well formed and obeys the behaviour's length rule -/
theorem fromBytes_wf (k : BKind) (b : Bytes) (bf : BF) (h : BF.fromBytes k b = .ok bf) :
    bf.Inv ∧ k.lenOk bf.len = true :=
  ⟨(fromBytes_sound k b bf h).1, (fromBytes_sound k b bf h).2.1⟩

/-- re-encoding an accepted string gives it back -/
theorem intoBytes_fromBytes (k : BKind) (b : Bytes) (bf : BF) (h : BF.fromBytes k b = .ok bf) :
    bf.intoBytes k = .ok b :=
  (fromBytes_sound k b bf h).2.2

/-- every well-formed value is encoded to a string that is accepted, with the same value -/
theorem fromBytes_intoBytes (k : BKind) (bf : BF) (hinv : bf.Inv) (hk : k.lenOk bf.len = true) :
    ∃ b, bf.intoBytes k = .ok b ∧ BF.fromBytes k b = .ok bf :=
  fromBytes_complete k bf hinv hk

/-- accepted strings determine their value and vice versa -/
theorem fromBytes_injective (k : BKind) (b₁ b₂ : Bytes) (bf : BF)
    (h₁ : BF.fromBytes k b₁ = .ok bf) (h₂ : BF.fromBytes k b₂ = .ok bf) : b₁ = b₂ := by
  have e₁ := intoBytes_fromBytes k b₁ bf h₁
  have e₂ := intoBytes_fromBytes k b₂ bf h₂
  rw [e₁] at e₂
  injection e₂

/-! ### SSZ decode / encode of bitfield types are these functions (by definition of the model) -/

theorem decodeBits_def (k : BKind) (b : Bytes) :
    decodeBits k b = (BF.fromBytes k b).map fun bf => .bits bf.abs := rfl

theorem bitsBytes_def (k : BKind) (l : List Bool) :
    (BF.ofBits l).intoBytes k = .ok (bitsBytes k l) := by
  obtain ⟨b, hb⟩ := intoBytes_ofBits_ok k l
  unfold bitsBytes
  rw [hb]

theorem decode_bitfield (n : Nat) (b : Bytes) :
    decode (.bitlist n) b = decodeBits (.variable n) b ∧
    decode (.bitvector n) b = decodeBits (.fixed n) b ∧
    decode .bitvectorDyn b = decodeBits .dynamic b := by
  simp [decode]

theorem encode_bitfield (n : Nat) (l : List Bool) :
    encode (.bitlist n) (.bits l) = bitsBytes (.variable n) l ∧
    encode (.bitvector n) (.bits l) = bitsBytes (.fixed n) l ∧
    encode .bitvectorDyn (.bits l) = bitsBytes .dynamic l := by
  simp [encode, sszAppend]

/-- the byte-level `into_bytes` is the specification's `serialize` of the bits -/
theorem intoBytes_eq_ser (bf : BF) (h : bf.Inv) :
    (∀ N, bf.intoBytes (.variable N) = .ok (Spec.ser (.bitlist N) (.bits bf.abs))) ∧
    bf.intoBytes (.fixed bf.len) = .ok (Spec.ser (.bitvector bf.len) (.bits bf.abs)) ∧
    (0 < bf.len → bf.len % 8 = 0 → bf.intoBytes .dynamic = .ok (Spec.ser .bitvectorDyn (.bits bf.abs))) := by
  refine ⟨fun N => ?_, ?_, fun h0 h8 => ?_⟩
  · simp only [Spec.ser, abs_length]
    exact intoBytes_bitlist bf h
  · simp only [Spec.ser]
    exact congrArg Res.ok (intoBytes_bitvector bf h)
  · simp only [Spec.ser, abs_length]
    exact congrArg Res.ok (intoBytes_dynamic bf h h0 h8)

/-- the SSZ decoders accept exactly the valid strings (same sets as the byte-level API) -/
theorem decode_ok_iff (N : Nat) (b : Bytes) :
    ((∃ v, decode (.bitlist N) b = .ok v) ↔ Spec.bitlistValid N b = true) ∧
    ((∃ v, decode (.bitvector N) b = .ok v) ↔ Spec.bitvectorValid N b = true) ∧
    ((∃ v, decode .bitvectorDyn b = .ok v) ↔ b ≠ []) := by
  have key : ∀ k, (∃ v, decodeBits k b = .ok v) ↔ ∃ bf, BF.fromBytes k b = .ok bf := by
    intro k
    unfold decodeBits
    cases BF.fromBytes k b <;> simp
  obtain ⟨d1, d2, d3⟩ := decode_bitfield N b
  rw [d1, d2, d3, key, key, key]
  refine ⟨fromBytes_bitlist_ok_iff N b, ?_, ?_⟩
  · rw [← fromBytes_bitvector_ok_iff]
    show (∃ bf, Res.ofOption (BF.fromBytesF N b) = .ok bf) ↔ _
    simp only [resOfOption_ok_iff]
  · rw [← decode_dynamic_ok_iff]
    show (∃ bf, Res.ofOption (BF.decodeDyn b) = .ok bf) ↔ _
    simp only [resOfOption_ok_iff]

/-! ### instances -/

-- a 9-bit bitlist 1,0,1,0,1,0,1,0,1 with its delimiter at position 9
example : BF.fromBytesV 16 [0x55, 0x03] = .ok ⟨[0x55, 0x01], 9⟩ := by decide
example : (⟨[0x55, 0x01], 9⟩ : BF).intoBytesV = .ok [0x55, 0x03] := by decide
example : Spec.bitlistValid 16 [0x55, 0x03] = true := by decide
example : BF.fromBytesV 8 [0x55, 0x03] = .err := by decide          -- 9 bits exceed capacity 8
-- N = 0: the only accepted string is the lone delimiter
example : BF.fromBytesV 0 [0x01] = .ok ⟨[0x00], 0⟩ := by decide
example : BF.fromBytesV 0 [0x02] = .err := by decide
example : BF.fromBytesV 0 [0x00] = .err := by decide
example : BF.fromBytesV 0 [] = .err := by decide
-- N = 8: a full byte needs a second byte for the delimiter
example : BF.fromBytesV 8 [0xFF, 0x01] = .ok ⟨[0xFF], 8⟩ := by decide
example : BF.fromBytesV 8 [0xFF, 0x02] = .err := by decide
example : BF.fromBytesV 8 [0xFF, 0x00] = .err := by decide          -- zero last byte
example : BF.fromBytesV 8 [0xFF] = .ok ⟨[0x7F], 7⟩ := by decide
-- bitvectors
example : BF.fromBytesF 0 [0x00] = some ⟨[0x00], 0⟩ := by decide
example : BF.fromBytesF 0 [] = none := by decide
example : BF.fromBytesF 0 [0x01] = none := by decide
example : BF.fromBytesF 8 [0xAB] = some ⟨[0xAB], 8⟩ := by decide
example : BF.fromBytesF 8 [0xAB, 0x00] = none := by decide
example : BF.fromBytesF 9 [0xFF, 0x01] = some ⟨[0xFF, 0x01], 9⟩ := by decide
example : BF.fromBytesF 9 [0xFF, 0x02] = none := by decide
example : Spec.bitvectorValid 9 [0xFF, 0x02] = false := by decide
-- dynamic
example : BF.decodeDyn [0x12, 0x34] = some ⟨[0x12, 0x34], 16⟩ := by decide
example : BF.decodeDyn [] = none := by decide
example : BF.fromBytesWithLen [0x12] 7 = none := by decide

end Ssz.C14
