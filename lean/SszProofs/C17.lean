import SszProofs.Lemmas.Append
/-
  C17 — Legacy four-byte-selector Option codec is exact and strict.
  Model: the `.legacyOption t` arms of `sszAppend`, `bytesLen`, `decode` (legacy.rs,
  `four_byte_option_impl!`). All statements are relative to the inner type `t`.
-/
set_option linter.unusedSimpArgs false
namespace Ssz.C17


open Ssz

/-! ### selectors -/

theorem sel0 : encodeLength 0 = [0, 0, 0, 0] := by decide
theorem sel1 : encodeLength 1 = [1, 0, 0, 0] := by decide

/-- a four-byte string is determined by its little-endian value -/
theorem take4_eq (b : Bytes) (h : 4 ≤ b.length) : b.take 4 = le 4 (fromLE (b.take 4)) := by
  have hl : (b.take 4).length = 4 := by simp; omega
  have := le_fromLE (b.take 4)
  rw [hl] at this
  exact this.symm

/-! ### encoding -/

theorem encode_none (t : Ty) : encode (.legacyOption t) .none = [0, 0, 0, 0] := by
  simp only [encode, sszAppend, List.nil_append, sel0]

theorem encode_some (t : Ty) (v : Val) :
    encode (.legacyOption t) (.some v) = [1, 0, 0, 0] ++ encode t v := by
  simp only [encode, sszAppend, List.nil_append, sel1]
  rw [append_prefix]

/-- values that are not options contribute nothing (unreachable from Rust: the argument has type
    `Option<T>`) -/
theorem encode_other (t : Ty) (v : Val) (h1 : v ≠ .none) (h2 : ∀ x, v ≠ .some x) :
    encode (.legacyOption t) v = [] := by
  cases v <;> simp [encode, sszAppend] at h1 h2 ⊢

/-- `ssz_bytes_len` is the length of the encoding, given that `t`'s advertised fixed length
    (fixed-size `t`) resp. `t`'s own `ssz_bytes_len` (variable-size `t`) is exact for the payload -/
theorem bytesLen_exact (t : Ty) (v : Val)
    (hfix : ∀ x, v = .some x → t.isFixed = true → (encode t x).length = t.fixedLen)
    (hvar : ∀ x, v = .some x → t.isFixed = false → bytesLen t x = (encode t x).length) :
    bytesLen (.legacyOption t) v = (encode (.legacyOption t) v).length := by
  cases v with
  | none => simp [bytesLen, encode_none]
  | some x =>
    rw [encode_some]
    simp only [bytesLen, List.length_append, List.length_cons, List.length_nil]
    cases hf : t.isFixed with
    | true => simp only [↓reduceIte]; rw [hfix x rfl hf]; omega
    | false => simp only [Bool.false_eq_true, ↓reduceIte]; rw [hvar x rfl hf]; omega
  | _ => simp [bytesLen, encode, sszAppend]

theorem bytesLen_none (t : Ty) : bytesLen (.legacyOption t) .none = 4 := by simp [bytesLen]

/-! ### decoding -/

theorem decode_none (t : Ty) : decode (.legacyOption t) [0, 0, 0, 0] = .ok .none := by
  simp [decode, fromLE]

/-- decoding `[1,0,0,0] ++ body` is decoding `body` with `t` -/
theorem decode_some (t : Ty) (body : Bytes) :
    decode (.legacyOption t) ([1, 0, 0, 0] ++ body) = (decode t body).map .some := by
  rw [decode]
  simp [fromLE]
  omega

theorem roundtrip_none (t : Ty) :
    decode (.legacyOption t) (encode (.legacyOption t) .none) = .ok .none := by
  rw [encode_none, decode_none]

theorem roundtrip (t : Ty) (v : Val) (h : decode t (encode t v) = .ok v) :
    decode (.legacyOption t) (encode (.legacyOption t) (.some v)) = .ok (.some v) := by
  rw [encode_some, decode_some, h]; rfl

theorem rejects_short (t : Ty) (b : Bytes) (h : b.length < 4) : decode (.legacyOption t) b = .err := by
  simp [decode, h]

/-- every selector other than 0 and 1 (all `2^32 - 2` of them) is rejected -/
theorem rejects_selector (t : Ty) (b : Bytes) (_h : 4 ≤ b.length)
    (h0 : fromLE (b.take 4) ≠ 0) (h1 : fromLE (b.take 4) ≠ 1) : decode (.legacyOption t) b = .err := by
  simp [decode, h0, h1]

/-- selector 0 followed by anything: rejected -/
theorem rejects_none_trailing (t : Ty) (x : UInt8) (rest : Bytes) :
    decode (.legacyOption t) ([0, 0, 0, 0] ++ x :: rest) = .err := by
  simp [decode, fromLE]

/-- what an accepted input looks like -/
theorem decode_ok_cases (t : Ty) (b : Bytes) (v : Val) (h : decode (.legacyOption t) b = .ok v) :
    (b = [0, 0, 0, 0] ∧ v = .none) ∨
    (∃ body x, b = [1, 0, 0, 0] ++ body ∧ decode t body = .ok x ∧ v = .some x) := by
  rw [decode] at h
  by_cases hl : b.length < 4
  · simp [hl] at h
  · simp only [hl, ↓reduceIte] at h
    have hsplit : b = b.take 4 ++ b.drop 4 := (List.take_append_drop 4 b).symm
    have h4 := take4_eq b (by omega)
    by_cases h0 : fromLE (b.take 4) = 0
    · left
      simp only [h0, ↓reduceIte] at h
      by_cases he : (b.drop 4).isEmpty = true
      · simp only [he, ↓reduceIte, Res.ok.injEq] at h
        have hd : b.drop 4 = [] := by simpa using he
        rw [h0] at h4
        refine ⟨?_, h.symm⟩
        rw [hsplit, hd, h4]; decide
      · simp [he] at h
    · simp only [h0, ↓reduceIte] at h
      by_cases h1 : fromLE (b.take 4) = 1
      · right
        simp only [h1, ↓reduceIte] at h
        rw [h1] at h4
        cases hd : decode t (b.drop 4) with
        | ok x =>
          rw [hd] at h
          simp only [Res.map_ok, Res.ok.injEq] at h
          refine ⟨b.drop 4, x, ?_, hd, h.symm⟩
          have e : le 4 1 = [1, 0, 0, 0] := by decide
          rw [← e, ← h4]; exact hsplit
        | err => rw [hd] at h; cases h
        | panic => rw [hd] at h; cases h
      · simp [h1] at h

/-- strict: given that `t`'s decoder accepts only encodings of what it returns, so does the legacy
    option decoder; in particular `[0,0,0,0,x]` is rejected -/
theorem strict (t : Ty) (ht : ∀ b' v', decode t b' = .ok v' → encode t v' = b')
    (b : Bytes) (v : Val) (h : decode (.legacyOption t) b = .ok v) :
    encode (.legacyOption t) v = b := by
  rcases decode_ok_cases t b v h with ⟨rfl, rfl⟩ | ⟨body, x, rfl, hd, rfl⟩
  · exact encode_none t
  · rw [encode_some, ht body x hd]

/-- the decoder panics only if the inner decoder does -/
theorem decode_no_panic (t : Ty) (ht : ∀ s, decode t s ≠ .panic) (b : Bytes) :
    decode (.legacyOption t) b ≠ .panic := by
  rw [decode]
  by_cases hl : b.length < 4
  · simp [hl]
  · simp only [hl, ↓reduceIte]
    by_cases h0 : fromLE (b.take 4) = 0
    · simp only [h0, ↓reduceIte]
      split <;> simp
    · simp only [h0, ↓reduceIte]
      by_cases h1 : fromLE (b.take 4) = 1
      · simp only [h1, ↓reduceIte]
        cases hd : decode t (b.drop 4) with
        | ok x => simp
        | err => simp
        | panic => exact absurd hd (ht _)
      · simp [h1]

/-- the decoder returns only option values, and the payload is whatever `t`'s decoder returned -/
theorem decode_hasType (t : Ty) (ht : ∀ s x, decode t s = .ok x → hasType t x = true)
    (b : Bytes) (v : Val) (h : decode (.legacyOption t) b = .ok v) :
    hasType (.legacyOption t) v = true := by
  rcases decode_ok_cases t b v h with ⟨_, rfl⟩ | ⟨body, x, _, hd, rfl⟩
  · simp [hasType]
  · simp only [hasType]; exact ht body x hd

/-! ### as a field codec inside containers (`#[ssz(with = "module")]`) -/

/-- registers as a variable-size field ... -/
theorem isFixed_false (t : Ty) : Ty.isFixed (.legacyOption t) = false := by simp [Ty.isFixed]
/-- ... occupying one four-byte offset word in the fixed part -/
theorem fixedLen_four (t : Ty) : Ty.fixedLen (.legacyOption t) = 4 := by simp [Ty.fixedLen]
theorem reg_var (t : Ty) : Ty.reg (.legacyOption t) = .var := by simp [Ty.reg, Ty.isFixed]

/-! ### examples (legacy.rs tests) -/

example : decode (.legacyOption (.uint 2)) [0, 0, 0, 0, 7] = .err := by simp [decode, fromLE]
example : decode (.legacyOption (.uint 2)) [1, 0, 0, 0, 255, 255] = .ok (.some (.uint 65535)) := by
  simp [decode, fromLE]
example : encode (.legacyOption (.uint 2)) (.some (.uint 65535)) = [1, 0, 0, 0, 255, 255] := by
  rw [encode_some]; simp [encode, sszAppend, le]
example : encode (.legacyOption (.uint 2)) .none = [0, 0, 0, 0] := encode_none _
example : decode (.legacyOption (.uint 2)) [2, 0, 0, 0] = .err := by simp [decode, fromLE]
example : decode (.legacyOption (.uint 2)) [0, 0, 0] = .err := by simp [decode]

end Ssz.C17
