import SszProofs.Lemmas.ListVarProof
import SszModel.Spec
/-
  C09 — Container and list offset tables partition the input exactly.
  Statements only; the proofs are in `Lemmas/Key.lean`, `Lemmas/Key2.lean`, `Lemmas/ListVarProof.lean`.

  Reading guide. `regs` is an arbitrary registration sequence (`.fixed n` or `.var`), `build regs b`
  is the model of `SszDecoderBuilder::register_type_parameterized*` + `build`, returning the slices
  handed to the item decoders in order. `fpart regs items o` is the fixed region: each fixed item's
  bytes, and for each variable item the 4-byte little-endian word of its offset, the first being `o`
  and each later one the previous plus the length of the previous variable item; `vpart` is the
  concatenation of the variable items in order. So `b = fpart regs items (fixedSize regs) ++ vpart regs items`
  says precisely: first offset = end of the fixed part, offsets non-decreasing, last part ends at the
  last byte, every item receives exactly its own bytes in order.
-/
set_option linter.unusedSimpArgs false
namespace Ssz.C09
open Ssz

/-- success ⇒ the input is tiled by fixed parts, offset words and variable parts -/
theorem builder_sound (regs : List Reg) (b : Bytes) (items : List Bytes)
    (h : build regs b = .ok items) :
    b = fpart regs items (fixedSize regs) ++ vpart regs items ∧ itemsFit regs items = true := by
  have := build_sound regs b items h
  rw [encodeItems_eq] at this
  exact ⟨this.1.symm, this.2⟩

/-- every tiling is accepted, and the items come back unchanged -/
theorem builder_complete (regs : List Reg) (items : List Bytes)
    (hfit : itemsFit regs items = true)
    (hlen : (fpart regs items (fixedSize regs) ++ vpart regs items).length < 2^32) :
    build regs (fpart regs items (fixedSize regs) ++ vpart regs items) = .ok items := by
  rw [← encodeItems_eq] at hlen ⊢
  exact build_complete regs items hfit hlen

/-- the container encoder produces exactly that tiling -/
theorem encoder_layout (regs : List Reg) (items : List Bytes) :
    encodeItems regs items = fpart regs items (fixedSize regs) ++ vpart regs items :=
  encodeItems_eq regs items

/-- decoding is injective on item lists: two accepted inputs with the same slices are equal -/
theorem builder_injective (regs : List Reg) (b b' : Bytes) (items : List Bytes)
    (h : build regs b = .ok items) (h' : build regs b' = .ok items) : b = b' := by
  rw [(builder_sound regs b items h).1, (builder_sound regs b' items h').1]

/-- `decode_next_with` hands the callback the head of the queue and leaves the tail, whatever the callback
answers; in particular a refused item does not shift the ones after it. -/
theorem decodeNext_hands_head {α} (it : Bytes) (rest : List Bytes) (f : Bytes → Res α) :
    decodeNextWith (it :: rest) f = (match f it with | .ok a => .ok (a, queueAfter (it :: rest)) | .err => .err | .panic => .panic) := by
  simp only [decodeNextWith, queueAfter, List.tail_cons]
  cases f it <;> rfl

theorem handed_eq_take {α} (items : List Bytes) (fs : List (Bytes → Res α)) :
    handed items fs = items.take fs.length := by
  induction items generalizing fs with
  | nil => cases fs <;> simp [handed]
  | cons it rest ih => cases fs with
    | nil => simp [handed]
    | cons f fs => simp [handed, ih]

/-- one call per registered item: every item is handed to its own callback, in order -/
theorem handed_all {α} (items : List Bytes) (fs : List (Bytes → Res α)) (h : fs.length = items.length) :
    handed items fs = items := by
  rw [handed_eq_take, h, List.take_length]

example : handed [[1], [2, 3], []] [fun _ => (Res.err : Res Nat), fun _ => .ok 0, fun _ => .err] = [[1], [2, 3], []] := by
  simp [handed]

/-- lists of variable-size items: whatever is accepted is the offset-table encoding of the slices -/
theorem list_sound {α} (f : Bytes → Res α) (b : Bytes) (m : Option Nat) (vs : List α)
    (h : listVar f b m = .ok vs) :
    (b = [] ∧ vs = []) ∨
    ∃ items, items ≠ [] ∧ mapRes f items = .ok vs ∧
      b = hdr items (4 * items.length) ++ items.flatten ∧
      (∀ k, m = some k → items.length ≤ k) := by
  rcases listVar_sound f b m vs h with h | ⟨items, h1, h2, h3, h4⟩
  · exact Or.inl h
  · refine Or.inr ⟨items, h1, h2, ?_, h4⟩
    rw [← h3, encodeListVar_eq]

/-- every offset-table layout of a non-empty item list is accepted (subject to the limit) -/
theorem list_complete {α} (f : Bytes → Res α) (it : Bytes) (its : List Bytes) (m : Option Nat)
    (hlen : (encodeListVar (it :: its)).length < 2^32) :
    listVar f (encodeListVar (it :: its)) m =
      if m.any (fun k => decide (its.length + 1 > k)) then .err else mapRes f (it :: its) :=
  listVar_complete f it its m hlen

theorem list_empty {α} (f : Bytes → Res α) (m : Option Nat) : listVar f [] m = .ok [] := by
  simp [listVar]

/-! ### the 4-byte offset word is an exact little-endian bijection on [0, 2^32) -/

theorem offset_decode_encode (n : Nat) (h : n < 2^32) : readOffset (encodeLength n) = some n :=
  readOffset_encodeLength n h

theorem offset_encode_decode (b : Bytes) (h : b.length = 4) :
    readOffset b = some (fromLE b) ∧ encodeLength (fromLE b) = b ∧ fromLE b < 2^32 := by
  have hlt := fromLE_lt b
  rw [h] at hlt
  have h32 : (256 : Nat) ^ 4 = 2 ^ 32 := by decide
  rw [h32] at hlt
  refine ⟨?_, ?_, hlt⟩
  · unfold readOffset; simp [h, List.take_of_length_le (Nat.le_of_eq h)]
  · unfold encodeLength
    rw [Nat.mod_eq_of_lt hlt]
    have := le_fromLE b
    rwa [h] at this

theorem le_eq_uintBytes (k n : Nat) : le k n = Spec.uintBytes k n := by
  unfold Spec.uintBytes
  induction k generalizing n with
  | zero => simp [le]
  | succ k ih =>
    rw [List.range_succ_eq_map]
    simp only [le, List.map_cons, List.map_map, Nat.pow_zero, Nat.div_one]
    rw [ih]
    congr 1
    apply List.map_congr_left
    intro i _
    simp only [Function.comp, Nat.pow_succ, Nat.mul_comm (256 ^ i) 256, Nat.div_div_eq_div_mul]

/-- the offset word is the four little-endian base-256 digits of `n` -/
theorem offset_is_little_endian (n : Nat) (h : n < 2^32) :
    encodeLength n = [UInt8.ofNat (n % 256), UInt8.ofNat (n / 256 % 256),
                      UInt8.ofNat (n / 256 ^ 2 % 256), UInt8.ofNat (n / 256 ^ 3 % 256)] := by
  unfold encodeLength
  rw [Nat.mod_eq_of_lt h, le_eq_uintBytes]
  simp [Spec.uintBytes, List.range]
  simp [List.range.loop]

/-- with debug assertions the encoder refuses (panics on) every length that does not fit the offset word,
    and agrees with the release encoder on all others -/
theorem offset_debug_assert (n : Nat) :
    encodeLengthDbg n = if n < 2^32 then .ok (encodeLength n) else .panic := by
  unfold encodeLengthDbg MAX_LENGTH_VALUE
  by_cases h : n < 2^32
  · have : n ≤ 2^32 - 1 := by omega
    simp [h, this]
  · have : ¬ n ≤ 2^32 - 1 := by omega
    simp [h, this]

/-- without them the word silently wraps: the release encoder is NOT injective beyond 2^32 − 1
    (this is why C01/C03/C04 carry the hypothesis `length < 2^32`) -/
theorem offset_release_wraps (n : Nat) : encodeLength (n + 2^32) = encodeLength n := by
  unfold encodeLength
  have h : (n + 2 ^ 32) % 2 ^ 32 = n % 2 ^ 32 := Nat.add_mod_right n (2 ^ 32)
  rw [h]

/-! ### non-vacuity: a mixed container with an empty last item, a three-item list -/

example : build [.fixed 1, .var, .fixed 2, .var] [7, 11,0,0,0, 1,2, 12,0,0,0, 0xAA] = .ok [[7], [0xAA], [1,2], []] := by
  decide
example : listVar (fun s => Res.ok s) [12,0,0,0, 13,0,0,0, 13,0,0,0, 5] none = .ok [[5], [], []] := by
  decide

end Ssz.C09
