import SszProofs.Lemmas.SpecLayout
/-
  C03 — Encoding matches the SSZ wire format.

  `encode_eq_spec`: for every type of the algebra and every well-typed value whose serialization is
  shorter than 2^32 bytes, `encode t v` (the incremental `SszEncoder` model) equals `Spec.ser t v`
  (the reference serializer transcribed from the specification text, `SszModel/Spec.lean`).
  `encode_length_eq_spec` shows the two lengths agree unconditionally, so the size limit can be put
  on either side (`encode_eq_spec_of_encode_length`). The hypothesis `t.wf` of `encode_eq_spec` is not
  used by the proof; it is only needed to read a selector / tag byte back as the variant index
  (`union_selector_value`, `tagEnum_byte_value`).
  The proof: `enc_spec` by recursion over type and value; the list-level facts about `Spec.layout`
  are in `Lemmas/SpecLayout.lean`. The clauses of the property follow as separate theorems with examples.
  Interface facts used: `bits_spec_fixed/variable/dynamic` (BitFacts), `encode_fixed_length` (CodecFacts).
-/
set_option linter.unusedSimpArgs false
namespace Ssz.C03
open Ssz.SL
open Ssz

theorem encodeLength_zero : encodeLength 0 = Spec.uintBytes 4 0 := encodeLength_eq_uintBytes (by decide)
theorem encodeLength_one : encodeLength 1 = Spec.uintBytes 4 1 := encodeLength_eq_uintBytes (by decide)

mutual
theorem enc_spec : ∀ (t : Ty) (v : Val), hasType t v = true → (Spec.ser t v).length < 2^32 →
    encode t v = Spec.ser t v
  | .uint k, v, h, _ => by
      cases v <;> simp [hasType] at h
      simp [encode, sszAppend, Spec.ser, C09.le_eq_uintBytes]
  | .bool, v, h, _ => by
      cases v <;> simp [hasType] at h
      simp [encode, sszAppend, Spec.ser]
  | .nonZeroUsize, v, h, _ => by
      cases v <;> simp [hasType] at h
      simp [encode, sszAppend, Spec.ser, C09.le_eq_uintBytes]
  | .bytesN _, v, h, _ => by
      cases v <;> simp [hasType] at h
      simp [encode, sszAppend, Spec.ser]
  | .byteList, v, h, _ => by
      cases v <;> simp [hasType] at h
      simp [encode, sszAppend, Spec.ser]
  | .tagEnum _, v, h, _ => by
      cases v <;> simp [hasType] at h
      simp [encode, sszAppend, Spec.ser]
  | .bitvector n, v, h, _ => by
      cases v <;> simp [hasType] at h
      simp [encode, sszAppend, Spec.ser, bits_spec_fixed n _ h]
  | .bitlist n, v, h, _ => by
      cases v <;> simp [hasType] at h
      simp [encode, sszAppend, Spec.ser, bits_spec_variable n _ h]
  | .bitvectorDyn, v, h, _ => by
      cases v <;> simp [hasType] at h
      simp [encode, sszAppend, Spec.ser, bits_spec_dynamic _ h.1 h.2]
  | .option t, v, h, hl => by
      cases v <;> simp [hasType] at h
      · simp [encode, sszAppend, Spec.ser]
      · rename_i x
        simp only [Spec.ser, List.length_cons] at hl
        have ih := enc_spec t x h (by omega)
        simp only [encode, sszAppend, Spec.ser, List.nil_append]
        rw [append_prefix, ← encode, ih]; rfl
  | .legacyOption t, v, h, hl => by
      cases v <;> simp [hasType] at h
      · simp [encode, sszAppend, Spec.ser, encodeLength_zero]
      · rename_i x
        simp only [Spec.ser, List.length_append] at hl
        have ih := enc_spec t x h (by omega)
        simp only [encode, sszAppend, Spec.ser, List.nil_append]
        rw [append_prefix, ← encode, ih, encodeLength_one]
  | .list c t, v, h, hl => by
      cases v <;> simp [hasType] at h
      rename_i vs
      simp only [Spec.ser] at hl ⊢
      refine list_layout c t vs (encAll_spec t vs h.1 ?_) hl
      intro p hp
      have := part_length_le _ p hp
      rw [layout_length] at hl
      omega
  | .tuple ts, v, h, hl => by
      cases v <;> simp [hasType] at h
      rename_i vs
      simp only [Spec.ser] at hl ⊢
      simp only [encode, sszAppend]
      rw [appendFields_eq]
      refine container_layout ts vs h (encEach_spec ts vs h ?_) hl
      intro p hp
      have := part_length_le _ p hp
      rw [layout_length] at hl
      omega
  | .container ts, v, h, hl => by
      cases v <;> simp [hasType] at h
      rename_i vs
      simp only [Spec.ser] at hl ⊢
      simp only [encode, sszAppend]
      rw [appendFields_eq]
      refine container_layout ts vs h (encEach_spec ts vs h ?_) hl
      intro p hp
      have := part_length_le _ p hp
      rw [layout_length] at hl
      omega
  | .union ts, v, h, hl => by
      cases v <;> simp [hasType] at h
      rename_i i x
      simp only [Spec.ser, List.length_cons] at hl ⊢
      simp only [encode, sszAppend, List.nil_append]
      rw [appendNth_prefix, encNth_spec ts i x h (by omega)]; rfl
  | .transparentEnum ts, v, h, hl => by
      cases v <;> simp [hasType] at h
      rename_i i x
      simp only [Spec.ser] at hl ⊢
      simp only [encode, sszAppend]
      exact encNth_spec ts i x h hl
theorem encAll_spec (t : Ty) : ∀ (vs : List Val), hasTypeAll t vs = true →
    (∀ p ∈ Spec.serAll t vs, p.2.length < 2^32) → vs.map (encode t) = vs.map (Spec.ser t)
  | [], _, _ => rfl
  | v :: vs, h, hl => by
      simp only [hasTypeAll, Bool.and_eq_true] at h
      simp only [Spec.serAll, List.mem_cons, forall_eq_or_imp] at hl
      simp only [List.map_cons]
      rw [enc_spec t v h.1 hl.1, encAll_spec t vs h.2 hl.2]
theorem encEach_spec : ∀ (ts : List Ty) (vs : List Val), hasTypes ts vs = true →
    (∀ p ∈ Spec.serFields ts vs, p.2.length < 2^32) →
    encodeEach ts vs = (Spec.serFields ts vs).map (·.2)
  | [], vs, _, _ => by cases vs <;> simp [encodeEach, Spec.serFields]
  | _ :: _, [], h, _ => by simp [hasTypes] at h
  | t :: ts, v :: vs, h, hl => by
      simp only [hasTypes, Bool.and_eq_true] at h
      simp only [Spec.serFields, List.mem_cons, forall_eq_or_imp] at hl
      simp only [encodeEach, Spec.serFields, List.map_cons]
      rw [enc_spec t v h.1 hl.1, encEach_spec ts vs h.2 hl.2]
theorem encNth_spec : ∀ (ts : List Ty) (i : Nat) (v : Val), hasTypeNth ts i v = true →
    (Spec.serNth ts i v).length < 2^32 → appendNth ts i v [] = Spec.serNth ts i v
  | [], _, _, h, _ => by simp [hasTypeNth] at h
  | t :: _, 0, v, h, hl => by
      simp only [hasTypeNth] at h
      simp only [Spec.serNth] at hl
      simp only [appendNth, Spec.serNth]
      exact enc_spec t v h hl
  | _ :: ts, i+1, v, h, hl => by
      simp only [hasTypeNth] at h
      simp only [Spec.serNth] at hl
      simp only [appendNth, Spec.serNth]
      exact encNth_spec ts i v h hl
end

/-! ### the two byte strings have the same length whatever the offsets are -/

mutual
theorem enc_len : ∀ (t : Ty) (v : Val), hasType t v = true →
    (encode t v).length = (Spec.ser t v).length
  | .uint k, v, h => by
      cases v <;> simp [hasType] at h
      simp [encode, sszAppend, Spec.ser, C09.le_eq_uintBytes]
  | .bool, v, h => by
      cases v <;> simp [hasType] at h
      simp [encode, sszAppend, Spec.ser]
  | .nonZeroUsize, v, h => by
      cases v <;> simp [hasType] at h
      simp [encode, sszAppend, Spec.ser, C09.le_eq_uintBytes]
  | .bytesN _, v, h => by
      cases v <;> simp [hasType] at h
      simp [encode, sszAppend, Spec.ser]
  | .byteList, v, h => by
      cases v <;> simp [hasType] at h
      simp [encode, sszAppend, Spec.ser]
  | .tagEnum _, v, h => by
      cases v <;> simp [hasType] at h
      simp [encode, sszAppend, Spec.ser]
  | .bitvector n, v, h => by
      cases v <;> simp [hasType] at h
      simp [encode, sszAppend, Spec.ser, bits_spec_fixed n _ h]
  | .bitlist n, v, h => by
      cases v <;> simp [hasType] at h
      simp [encode, sszAppend, Spec.ser, bits_spec_variable n _ h]
  | .bitvectorDyn, v, h => by
      cases v <;> simp [hasType] at h
      simp [encode, sszAppend, Spec.ser, bits_spec_dynamic _ h.1 h.2]
  | .option t, v, h => by
      cases v <;> simp [hasType] at h
      · simp [encode, sszAppend, Spec.ser]
      · rename_i x
        have ih := enc_len t x h
        simp only [encode, sszAppend, Spec.ser, List.nil_append]
        rw [append_prefix, ← encode]; simp [ih]
  | .legacyOption t, v, h => by
      cases v <;> simp [hasType] at h
      · simp [encode, sszAppend, Spec.ser, encodeLength_zero]
      · rename_i x
        have ih := enc_len t x h
        simp only [encode, sszAppend, Spec.ser, List.nil_append]
        rw [append_prefix, ← encode, encodeLength_one]; simp [ih]
  | .list c t, v, h => by
      cases v <;> simp [hasType] at h
      rename_i vs
      simp only [Spec.ser]
      exact list_length c t vs (encAll_len t vs h.1)
  | .tuple ts, v, h => by
      cases v <;> simp [hasType] at h
      rename_i vs
      simp only [Spec.ser, encode, sszAppend]
      rw [appendFields_eq]
      exact container_length ts vs _ h (encEach_len ts vs h)
  | .container ts, v, h => by
      cases v <;> simp [hasType] at h
      rename_i vs
      simp only [Spec.ser, encode, sszAppend]
      rw [appendFields_eq]
      exact container_length ts vs _ h (encEach_len ts vs h)
  | .union ts, v, h => by
      cases v <;> simp [hasType] at h
      rename_i i x
      simp only [Spec.ser, encode, sszAppend, List.nil_append]
      rw [appendNth_prefix]; simp [encNth_len ts i x h]
  | .transparentEnum ts, v, h => by
      cases v <;> simp [hasType] at h
      rename_i i x
      simp only [Spec.ser, encode, sszAppend]
      exact encNth_len ts i x h
theorem encAll_len (t : Ty) : ∀ (vs : List Val), hasTypeAll t vs = true →
    vs.map (fun v => (encode t v).length) = vs.map (fun v => (Spec.ser t v).length)
  | [], _ => rfl
  | v :: vs, h => by
      simp only [hasTypeAll, Bool.and_eq_true] at h
      simp only [List.map_cons]
      rw [enc_len t v h.1, encAll_len t vs h.2]
theorem encEach_len : ∀ (ts : List Ty) (vs : List Val), hasTypes ts vs = true →
    (encodeEach ts vs).map List.length = (Spec.serFields ts vs).map (·.2.length)
  | [], vs, _ => by cases vs <;> simp [encodeEach, Spec.serFields]
  | _ :: _, [], h => by simp [hasTypes] at h
  | t :: ts, v :: vs, h => by
      simp only [hasTypes, Bool.and_eq_true] at h
      simp only [encodeEach, Spec.serFields, List.map_cons]
      rw [enc_len t v h.1, encEach_len ts vs h.2]
theorem encNth_len : ∀ (ts : List Ty) (i : Nat) (v : Val), hasTypeNth ts i v = true →
    (appendNth ts i v []).length = (Spec.serNth ts i v).length
  | [], _, _, h => by simp [hasTypeNth] at h
  | t :: _, 0, v, h => by
      simp only [hasTypeNth] at h
      simp only [appendNth, Spec.serNth]
      exact enc_len t v h
  | _ :: ts, i+1, v, h => by
      simp only [hasTypeNth] at h
      simp only [appendNth, Spec.serNth]
      exact encNth_len ts i v h
end

/-! ## C03 — the property -/

/-- **C03.** For every type of the algebra and every well-typed value, the bytes the encoder
    produces are the serialization the SSZ specification defines for the value's schema, provided
    the serialization is shorter than `2^32` bytes (the specification writes offsets as `uint32`;
    the encoder writes `offset mod 2^32` in release builds and panics in debug builds). -/
theorem encode_eq_spec (t : Ty) (v : Val) (_hwf : t.wf = true) (ht : hasType t v = true)
    (hlen : (Spec.ser t v).length < 2^32) : encode t v = Spec.ser t v :=
  enc_spec t v ht hlen

/-- the encoder's output and the reference serialization always have the same length -/
theorem encode_length_eq_spec (t : Ty) (v : Val) (ht : hasType t v = true) :
    (encode t v).length = (Spec.ser t v).length :=
  enc_len t v ht

/-- the same with the size limit stated on what the encoder actually produced -/
theorem encode_eq_spec_of_encode_length (t : Ty) (v : Val) (ht : hasType t v = true)
    (hlen : (encode t v).length < 2^32) : encode t v = Spec.ser t v :=
  enc_spec t v ht (by rw [← enc_len t v ht]; exact hlen)

/-- `ssz_append` into a non-empty buffer appends exactly the reference serialization -/
theorem sszAppend_eq_spec (t : Ty) (v : Val) (buf : Bytes) (ht : hasType t v = true)
    (hlen : (Spec.ser t v).length < 2^32) : sszAppend t v buf = buf ++ Spec.ser t v := by
  rw [append_prefix, ← encode, enc_spec t v ht hlen]

/-! ## the clauses of the property, one readable theorem each -/

/-! ### little-endian fixed-width integers -/

theorem uint_little_endian (k n : Nat) : encode (.uint k) (.uint n) = Spec.uintBytes k n := by
  simp [encode, sszAppend, C09.le_eq_uintBytes]

/-- byte `i` of the encoding is digit `i` of `n` in base 256, least significant first -/
theorem uint_byte (k n i : Nat) (h : i < k) :
    (encode (.uint k) (.uint n))[i]? = some (UInt8.ofNat (n / 256 ^ i % 256)) := by
  simp [uint_little_endian, Spec.uintBytes, h]

example : encode (.uint 4) (.uint 0x01020304) = [4, 3, 2, 1] := by
  simp only [encode, sszAppend]; decide
example : Spec.uintBytes 4 0x01020304 = [4, 3, 2, 1] := by decide

/-! ### booleans -/

theorem bool_zero_one (b : Bool) : encode .bool (.bool b) = [if b then 1 else 0] := by
  simp [encode, sszAppend]

example : encode .bool (.bool true) = [1] ∧ encode .bool (.bool false) = [0] := by
  simp [bool_zero_one]

/-! ### `Option<T>` is `Union[None, T]`: selector 0 and nothing, selector 1 and the value -/

theorem option_none (t : Ty) : encode (.option t) .none = [0] := by
  simp [encode, sszAppend]

theorem option_some (t : Ty) (v : Val) : encode (.option t) (.some v) = 1 :: encode t v := by
  simp only [encode, sszAppend, List.nil_append]
  rw [append_prefix]; rfl

/-- `Some(v)` is encoded like variant 1 of a derived union whose second variant holds a `T` -/
theorem option_some_eq_union (w t : Ty) (v : Val) :
    encode (.option t) (.some v) = encode (.union [w, t]) (.union 1 v) := by
  rw [option_some]
  simp only [encode, sszAppend, appendNth, List.nil_append]
  rw [append_prefix t v [UInt8.ofNat 1]]; rfl

example : encode (.option (.uint 2)) (.some (.uint 258)) = [1, 2, 1] := by
  simp only [option_some, encode, sszAppend]; decide
example : encode (.option (.uint 2)) .none = [0] := option_none _

/-! ### `usize` and `NonZeroUsize` are `uint64` -/

theorem usize_uint64 (n : Nat) : encode (.uint 8) (.uint n) = Spec.uintBytes 8 n :=
  uint_little_endian 8 n

theorem nonZeroUsize_uint64 (n : Nat) : encode .nonZeroUsize (.uint n) = Spec.uintBytes 8 n := by
  simp [encode, sszAppend, C09.le_eq_uintBytes]

theorem nonZeroUsize_eq_usize (n : Nat) : encode .nonZeroUsize (.uint n) = encode (.uint 8) (.uint n) := by
  rw [usize_uint64, nonZeroUsize_uint64]

example : encode .nonZeroUsize (.uint 513) = [1, 2, 0, 0, 0, 0, 0, 0] := by
  simp only [encode, sszAppend]; decide

/-! ### a tag enum is a `uint8` -/

theorem tagEnum_one_byte (n i : Nat) : encode (.tagEnum n) (.tag i) = [UInt8.ofNat i] := by
  simp [encode, sszAppend]

theorem tagEnum_uint8 (n i : Nat) : encode (.tagEnum n) (.tag i) = Spec.uintBytes 1 i := by
  rw [tagEnum_one_byte]
  simp [Spec.uintBytes, List.range, List.range.loop]
  apply UInt8.toNat_inj.mp; simp

/-- for a well-formed tag enum the byte is the variant index itself (no wrap-around) -/
theorem tagEnum_byte_value (n i : Nat) (hwf : (Ty.tagEnum n).wf = true)
    (ht : hasType (.tagEnum n) (.tag i) = true) : (UInt8.ofNat i).toNat = i := by
  simp [Ty.wf] at hwf
  simp [hasType] at ht
  simp [UInt8.toNat_ofNat']; omega

example : encode (.tagEnum 3) (.tag 2) = [2] := by simp [tagEnum_one_byte]

/-! ### derived unions: a one-byte selector, then the variant's value -/

theorem appendNth_getElem (ts : List Ty) (i : Nat) (t : Ty) (v : Val) (buf : Bytes)
    (h : ts[i]? = some t) : appendNth ts i v buf = sszAppend t v buf := by
  induction ts generalizing i with
  | nil => simp at h
  | cons u us ih =>
    cases i with
    | zero => simp at h; subst h; simp [appendNth]
    | succ i => simp at h; simp only [appendNth]; exact ih i h

theorem hasTypeNth_lt (ts : List Ty) (i : Nat) (v : Val) (h : hasTypeNth ts i v = true) :
    i < ts.length := by
  induction ts generalizing i with
  | nil => simp [hasTypeNth] at h
  | cons u us ih =>
    cases i with
    | zero => simp
    | succ i => simp only [hasTypeNth] at h; have := ih i h; simp; omega

theorem union_selector (ts : List Ty) (i : Nat) (t : Ty) (v : Val) (h : ts[i]? = some t) :
    encode (.union ts) (.union i v) = UInt8.ofNat i :: encode t v := by
  simp only [encode, sszAppend, List.nil_append]
  rw [appendNth_getElem ts i t v _ h, append_prefix]; rfl

/-- for a well-formed union the selector byte is the variant index, at most 127 -/
theorem union_selector_value (ts : List Ty) (i : Nat) (v : Val) (hwf : (Ty.union ts).wf = true)
    (ht : hasType (.union ts) (.union i v) = true) :
    (UInt8.ofNat i).toNat = i ∧ i ≤ MAX_UNION_SELECTOR := by
  simp [Ty.wf] at hwf
  simp only [hasType] at ht
  have := hasTypeNth_lt ts i v ht
  simp [UInt8.toNat_ofNat', MAX_UNION_SELECTOR]; omega

example : encode (.union [.uint 1, .byteList]) (.union 1 (.bytes [7, 8])) = [1, 7, 8] := by
  rw [union_selector _ 1 .byteList _ (by simp)]; simp [encode, sszAppend]

/-! ### transparent enums (and wrappers) are their inner value

`Arc<T>`, `&T` and `#[ssz(struct_behaviour = "transparent")]` structs have no constructor of their
own in `Ty`: their schema *is* the inner type's, so there is nothing to state for them. -/

theorem transparentEnum_inner (ts : List Ty) (i : Nat) (t : Ty) (v : Val) (h : ts[i]? = some t) :
    encode (.transparentEnum ts) (.union i v) = encode t v := by
  simp only [encode, sszAppend]
  exact appendNth_getElem ts i t v _ h

example : encode (.transparentEnum [.byteList, .list .vec (.uint 2)]) (.union 0 (.bytes [7, 8])) = [7, 8] := by
  rw [transparentEnum_inner _ 0 .byteList _ (by simp)]; simp [encode, sszAppend]

/-! ### byte arrays -/

theorem bytes_verbatim (n : Nat) (l : Bytes) :
    encode (.bytesN n) (.bytes l) = l ∧ encode .byteList (.bytes l) = l := by
  simp [encode, sszAppend]

/-! ### bitvectors LSB-first with zero padding, bitlists with a single delimiter bit -/

theorem bitvector_lsb_first (n : Nat) (l : List Bool) (h : l.length = n) :
    encode (.bitvector n) (.bits l) = Spec.packBits l (max 1 ((n + 7) / 8)) := by
  simp [encode, sszAppend, bits_spec_fixed n l h]

theorem bitlist_delimiter (n : Nat) (l : List Bool) (h : l.length ≤ n) :
    encode (.bitlist n) (.bits l) = Spec.packBits (l ++ [true]) (l.length / 8 + 1) := by
  simp [encode, sszAppend, bits_spec_variable n l h]

theorem bitvectorDyn_lsb_first (l : List Bool) (h0 : 0 < l.length) (h8 : l.length % 8 = 0) :
    encode .bitvectorDyn (.bits l) = Spec.packBits l (l.length / 8) := by
  simp [encode, sszAppend, bits_spec_dynamic l h0 h8]

example : Spec.packBits ([true, false, true] ++ [true]) (3 / 8 + 1) = [0b1101] := by decide

/-! ### containers: fixed parts and 4-byte offsets, then the variable parts in field order -/

theorem container_wire (ts : List Ty) (vs : List Val) (ht : hasTypes ts vs = true)
    (hlen : (Spec.layout (Spec.serFields ts vs)).length < 2^32) :
    encode (.container ts) (.tuple vs) = Spec.layout (Spec.serFields ts vs) ∧
    encode (.tuple ts) (.tuple vs) = Spec.layout (Spec.serFields ts vs) := by
  constructor
  · have := enc_spec (.container ts) (.tuple vs) (by simpa [hasType] using ht) (by simpa [Spec.ser] using hlen)
    simpa [Spec.ser] using this
  · have := enc_spec (.tuple ts) (.tuple vs) (by simpa [hasType] using ht) (by simpa [Spec.ser] using hlen)
    simpa [Spec.ser] using this

/-- the recursive reading of `Spec.layout`: offsets start at the size of the fixed region and each
    advances by the length of the variable part before it; they are relative to the start of the
    container because `lfixLen` counts from its first byte -/
theorem layout_unfolded (parts : List (Bool × Bytes)) :
    Spec.layout parts = lfix parts (lfixLen parts) ++ lvar parts := layout_eq parts

example : encode (.container [.uint 1, .byteList, .uint 2, .byteList])
    (.tuple [.uint 7, .bytes [0xAA], .uint 0x0201, .bytes []]) = [7, 11,0,0,0, 1,2, 12,0,0,0, 0xAA] := by
  simp [encode, sszAppend, appendFields, Enc.container, Enc.appendWith, Enc.finalize, encodeLength, le,
    sumFixedLen, Ty.isFixed, Ty.fixedLen]
example : Spec.layout [(false, [7]), (true, [0xAA]), (false, [1, 2]), (true, [])]
    = [7, 11,0,0,0, 1,2, 12,0,0,0, 0xAA] := by
  simp only [layout_eq]; decide

/-! ### lists: plain concatenation or offset table -/

theorem list_fixed_concat (c : CKind) (t : Ty) (vs : List Val) (hf : t.isFixed = true) :
    encode (.list c t) (.list vs) = (vs.map (encode t)).flatten := by
  simp only [encode, sszAppend, hf, ↓reduceIte]
  exact appendAll_eq_flatten t vs

theorem list_variable_offsets (c : CKind) (t : Ty) (vs : List Val) (hf : t.isFixed = false) :
    encode (.list c t) (.list vs)
      = hdr (vs.map (encode t)) (4 * vs.length) ++ (vs.map (encode t)).flatten := by
  simp only [encode, sszAppend, hf, Bool.false_eq_true, ↓reduceIte]
  rw [appendSeq_eq, go_eq]
  have hl : vs.length = (vs.map (encode t)).length := by simp
  rw [hl, fpart_var, vpart_var]
  simp [Enc.container, Nat.mul_comm]

theorem list_wire (c : CKind) (t : Ty) (vs : List Val) (ht : hasType (.list c t) (.list vs) = true)
    (hlen : (Spec.ser (.list c t) (.list vs)).length < 2^32) :
    encode (.list c t) (.list vs) = Spec.layout (vs.map fun v => (Spec.isVariable t, Spec.ser t v)) := by
  rw [enc_spec _ _ ht hlen, Spec.ser, serAll_eq_map]

example : encode (.list .vec .byteList) (.list [.bytes [5], .bytes [], .bytes []])
    = [12,0,0,0, 13,0,0,0, 13,0,0,0, 5] := by
  simp [encode, sszAppend, appendSeq, Enc.container, Enc.appendWith, Enc.finalize, encodeLength, le, Ty.isFixed]

/-! ### maps and sets are lists of entries in ascending key order -/

theorem sortedBy_adjacent (c : CKind) : ∀ (vs : List Val), sortedBy c vs = true →
    ∀ i (h : i + 1 < vs.length), Val.cmp (keyOf c vs[i]) (keyOf c vs[i+1]) = .lt
  | [], _, i, h => by simp at h
  | [_], _, i, h => by simp at h
  | x :: y :: rest, hs, i, h => by
      simp only [sortedBy, Bool.and_eq_true, beq_iff_eq] at hs
      cases i with
      | zero => simpa using hs.1
      | succ i =>
        have := sortedBy_adjacent c (y :: rest) hs.2 i (by simpa using h)
        simpa using this

/-- A `BTreeSet<T>` / `BTreeMap<K, V>` value is encoded exactly like the `Vec` of its entries (a map
    entry being the 2-field container `(K, V)`), the entries appear on the wire in the order of the
    value's entry list, and that order is strictly ascending by key (`Ord` of the element for sets,
    of `K` for maps). -/
theorem set_map_ascending (c : CKind) (t : Ty) (vs : List Val) (hc : c ≠ .vec)
    (ht : hasType (.list c t) (.list vs) = true)
    (hlen : (Spec.ser (.list c t) (.list vs)).length < 2^32) :
    encode (.list c t) (.list vs) = encode (.list .vec t) (.list vs) ∧
    encode (.list c t) (.list vs) = Spec.layout (vs.map fun v => (Spec.isVariable t, Spec.ser t v)) ∧
    ∀ i (h : i + 1 < vs.length), Val.cmp (keyOf c vs[i]) (keyOf c vs[i+1]) = .lt := by
  refine ⟨by simp [encode, sszAppend], list_wire c t vs ht hlen, ?_⟩
  simp only [hasType, Bool.and_eq_true, Bool.or_eq_true, beq_iff_eq] at ht
  exact sortedBy_adjacent c vs (ht.2.resolve_left hc)

/-- a map entry is the container of key and value -/
theorem map_entry_container (k w : Ty) (a b : Val) :
    Spec.ser (.tuple [k, w]) (.tuple [a, b])
      = Spec.layout [(Spec.isVariable k, Spec.ser k a), (Spec.isVariable w, Spec.ser w b)] := by
  simp [Spec.ser, Spec.serFields]

example : hasType (.list .map (.tuple [.uint 1, .uint 2])) (.list [.tuple [.uint 1, .uint 9], .tuple [.uint 3, .uint 7]]) = true := by
  simp [hasType, hasTypeAll, hasTypes, sortedBy, keyOf, Val.cmp]; decide
example : encode (.list .map (.tuple [.uint 1, .uint 2])) (.list [.tuple [.uint 1, .uint 9], .tuple [.uint 3, .uint 7]])
    = [1, 9,0, 3, 7,0] := by
  simp [encode, sszAppend, appendAll, appendFields, Enc.container, Enc.appendWith, Enc.finalize, le,
    sumFixedLen, Ty.isFixed, allFixed, Ty.fixedLen]
/-- an entry list out of key order is not a value of the map type -/
example : hasType (.list .map (.tuple [.uint 1, .uint 2])) (.list [.tuple [.uint 3, .uint 7], .tuple [.uint 1, .uint 9]]) = false := by
  simp [hasType, hasTypeAll, hasTypes, sortedBy, keyOf, Val.cmp]; decide

/-! ### legacy four-byte option -/

theorem legacyOption_none (t : Ty) : encode (.legacyOption t) .none = Spec.uintBytes 4 0 := by
  simp [encode, sszAppend, encodeLength_zero]

theorem legacyOption_some (t : Ty) (v : Val) :
    encode (.legacyOption t) (.some v) = Spec.uintBytes 4 1 ++ encode t v := by
  simp only [encode, sszAppend, List.nil_append]
  rw [append_prefix, encodeLength_one]

/-! ### a complete worked instance of `encode_eq_spec` -/

example : encode (.container [.uint 2, .option .bool, .list .vec (.uint 2)])
      (.tuple [.uint 513, .some (.bool true), .list [.uint 1, .uint 2]])
    = Spec.ser (.container [.uint 2, .option .bool, .list .vec (.uint 2)])
      (.tuple [.uint 513, .some (.bool true), .list [.uint 1, .uint 2]]) := by
  apply encode_eq_spec
  · simp [Ty.wf, wfAll]
  · simp [hasType, hasTypes, hasTypeAll]
  · rw [← encode_length_eq_spec _ _ (by simp [hasType, hasTypes, hasTypeAll])]
    simp [encode, sszAppend, appendFields, appendAll, Enc.container, Enc.appendWith, Enc.finalize,
      encodeLength, le, sumFixedLen, Ty.isFixed, Ty.fixedLen]

end Ssz.C03
