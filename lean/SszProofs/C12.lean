import SszProofs.Lemmas.BitOps
set_option linter.unusedSimpArgs false
set_option linter.unusedVariables false
/-
  C12 — union, intersection, difference and the subset test return exactly the element-wise result
  on the operands' bits for every pair of operands, treating missing positions of a shorter operand
  as false (`l.getD i false`). Result lengths: bitlists — the longer operand for union, the shorter
  for intersection and the left operand for difference; dynamic bitvectors — the longer operand for
  union and intersection; bitvectors — N. The results are themselves valid bitfields of the same
  type (`Inv` and `k.lenOk`), and no operation errs or panics on valid operands.
-/
namespace Ssz.C12
open Ssz Ssz.BC Ssz.Ops

/-! ### the specification on boolean sequences -/

/-- element-wise combination of two bit sequences on `n` positions, missing positions false -/
def zipBits (f : Bool → Bool → Bool) (x y : List Bool) (n : Nat) : List Bool :=
  (List.range n).map fun i => f (x.getD i false) (y.getD i false)

theorem zipBits_length (f : Bool → Bool → Bool) (x y : List Bool) (n : Nat) :
    (zipBits f x y n).length = n := by simp [zipBits]

/-! ### union -/

/-- `union`, all behaviours: succeeds, valid result of the same type, length of the longer operand,
    element-wise `||` -/
theorem union_correct (k : BKind) (a b : BF) (ha : a.Inv) (hb : b.Inv)
    (hka : k.lenOk a.len = true) (hkb : k.lenOk b.len = true) :
    ∃ r, unionK k a b = .ok r ∧ r.Inv ∧ k.lenOk r.len = true ∧ r.len = max a.len b.len ∧
      r.abs = zipBits (· || ·) a.abs b.abs (max a.len b.len) ∧
      ∀ i, r.abs.getD i false = (a.abs.getD i false || b.abs.getD i false) := by
  obtain ⟨r, h1, h2, h3, h4, h5⟩ := unionK_spec k a b ha hb hka hkb
  refine ⟨r, h1, h2, h3, h4, ?_, union_getD a b r h4 h5⟩
  rw [h5, h4]; rfl

theorem union_no_panic (k : BKind) (a b : BF) (ha : a.Inv) (hb : b.Inv)
    (hka : k.lenOk a.len = true) (hkb : k.lenOk b.len = true) :
    unionK k a b ≠ .panic ∧ unionK k a b ≠ .err := by
  obtain ⟨r, h1, _⟩ := unionK_spec k a b ha hb hka hkb
  rw [h1]; exact ⟨fun e => (by cases e), fun e => (by cases e)⟩

/-- bitlists: `union` has the length of the longer operand -/
theorem union_bitlist (N : Nat) (a b : BF) (ha : a.Inv) (hb : b.Inv) (haN : a.len ≤ N) (hbN : b.len ≤ N) :
    ∃ r, BF.unionV N a b = .ok r ∧ r.Inv ∧ r.len ≤ N ∧ r.len = max a.len b.len ∧
      r.abs = zipBits (· || ·) a.abs b.abs (max a.len b.len) := by
  obtain ⟨r, h1, h2, h3, h4, h5, _⟩ := union_correct (.variable N) a b ha hb
    ((lenOk_variable _ _).mpr haN) ((lenOk_variable _ _).mpr hbN)
  exact ⟨r, h1, h2, (lenOk_variable _ _).mp h3, h4, h5⟩

/-- bitvectors: `union` has length `N` -/
theorem union_bitvector (N : Nat) (a b : BF) (ha : a.Inv) (hb : b.Inv) (haN : a.len = N) (hbN : b.len = N) :
    (BF.unionF N a b).Inv ∧ (BF.unionF N a b).len = N ∧
      (BF.unionF N a b).abs = zipBits (· || ·) a.abs b.abs N :=
  unionF_spec N a b ha hb haN hbN

/-- dynamic bitvectors: `union` has the length of the longer operand -/
theorem union_dynamic (a b : BF) (ha : a.Inv) (hb : b.Inv)
    (hka : BKind.dynamic.lenOk a.len = true) (hkb : BKind.dynamic.lenOk b.len = true) :
    ∃ r, BF.unionD a b = some r ∧ r.Inv ∧ BKind.dynamic.lenOk r.len = true ∧
      r.len = max a.len b.len ∧ r.abs = zipBits (· || ·) a.abs b.abs (max a.len b.len) := by
  obtain ⟨r, h1, h2, h3, h4⟩ := unionD_spec a b ha hb ((lenOk_dynamic _).mp hka) ((lenOk_dynamic _).mp hkb)
  refine ⟨r, h1, h2, by rw [h3]; exact lenOk_max _ _ _ hka hkb, h3, ?_⟩
  rw [h4, h3]; rfl

/-! ### intersection -/

/-- `intersection`, all behaviours: succeeds (in particular the unguarded indexing of the source
    cannot panic on valid operands), valid result of the same type, element-wise `&&`; the length
    is the shorter operand for bitlists (and `N` for bitvectors), the LONGER one for dynamic -/
theorem intersection_correct (k : BKind) (a b : BF) (ha : a.Inv) (hb : b.Inv)
    (hka : k.lenOk a.len = true) (hkb : k.lenOk b.len = true) :
    ∃ r, interK k a b = .ok r ∧ r.Inv ∧ k.lenOk r.len = true ∧ r.len = interLen k a.len b.len ∧
      r.abs = zipBits (· && ·) a.abs b.abs (interLen k a.len b.len) ∧
      ∀ i, r.abs.getD i false = (a.abs.getD i false && b.abs.getD i false) := by
  obtain ⟨r, h1, h2, h3, h4, h5⟩ := interK_spec k a b ha hb hka hkb
  refine ⟨r, h1, h2, h3, h4, ?_, inter_getD a b r (by rw [h4]; exact interLen_ge_min _ _ _) h5⟩
  rw [h5, h4]; rfl

theorem intersection_no_panic (k : BKind) (a b : BF) (ha : a.Inv) (hb : b.Inv)
    (hka : k.lenOk a.len = true) (hkb : k.lenOk b.len = true) :
    interK k a b ≠ .panic ∧ interK k a b ≠ .err := by
  obtain ⟨r, h1, _⟩ := interK_spec k a b ha hb hka hkb
  rw [h1]; exact ⟨fun e => (by cases e), fun e => (by cases e)⟩

theorem interLen_bitlist (N m n : Nat) : interLen (.variable N) m n = min m n := rfl
theorem interLen_bitvector (N : Nat) : interLen (.fixed N) N N = N := Nat.min_self N
theorem interLen_dynamic (m n : Nat) : interLen .dynamic m n = max m n := rfl

/-- bitlists: `intersection` has the length of the shorter operand -/
theorem intersection_bitlist (N : Nat) (a b : BF) (ha : a.Inv) (hb : b.Inv) (haN : a.len ≤ N)
    (hbN : b.len ≤ N) :
    ∃ r, BF.intersectionV N a b = .ok r ∧ r.Inv ∧ r.len ≤ N ∧ r.len = min a.len b.len ∧
      r.abs = zipBits (· && ·) a.abs b.abs (min a.len b.len) := by
  obtain ⟨r, h1, h2, h3, h4, h5, _⟩ := intersection_correct (.variable N) a b ha hb
    ((lenOk_variable _ _).mpr haN) ((lenOk_variable _ _).mpr hbN)
  exact ⟨r, h1, h2, (lenOk_variable _ _).mp h3, h4, h5⟩

/-- bitvectors: `intersection` has length `N` -/
theorem intersection_bitvector (N : Nat) (a b : BF) (ha : a.Inv) (hb : b.Inv) (haN : a.len = N)
    (hbN : b.len = N) :
    ∃ r, BF.intersectionF N a b = .ok r ∧ r.Inv ∧ r.len = N ∧
      r.abs = zipBits (· && ·) a.abs b.abs N :=
  intersectionF_spec N a b ha hb haN hbN

/-- dynamic bitvectors: `intersection` has the length of the LONGER operand (the tail is clear) -/
theorem intersection_dynamic (a b : BF) (ha : a.Inv) (hb : b.Inv)
    (hka : BKind.dynamic.lenOk a.len = true) (hkb : BKind.dynamic.lenOk b.len = true) :
    ∃ r, BF.intersectionD a b = some r ∧ r.Inv ∧ BKind.dynamic.lenOk r.len = true ∧
      r.len = max a.len b.len ∧ r.abs = zipBits (· && ·) a.abs b.abs (max a.len b.len) := by
  obtain ⟨r, h1, h2, h3, h4⟩ := intersectionD_spec a b ha hb ((lenOk_dynamic _).mp hka)
    ((lenOk_dynamic _).mp hkb)
  refine ⟨r, h1, h2, by rw [h3]; exact lenOk_max _ _ _ hka hkb, h3, ?_⟩
  rw [h4, h3]; rfl

/-! ### difference -/

/-- `difference` (all behaviours share the code): valid result of the same type, length of the
    LEFT operand whatever the right operand's length, element-wise `a ∧ ¬b` -/
theorem difference_correct (k : BKind) (a b : BF) (ha : a.Inv) (hb : b.Inv)
    (hka : k.lenOk a.len = true) :
    (a.difference b).Inv ∧ k.lenOk (a.difference b).len = true ∧ (a.difference b).len = a.len ∧
      (a.difference b).abs = zipBits (fun x y => x && !y) a.abs b.abs a.len ∧
      ∀ i, (a.difference b).abs.getD i false = (a.abs.getD i false && !(b.abs.getD i false)) := by
  obtain ⟨h1, h2, h3⟩ := difference_spec a b ha hb
  exact ⟨h1, by rw [h2]; exact hka, h2, h3, difference_getD a b ha hb⟩

/-- `difference_inplace` leaves in the receiver exactly what `difference` returns -/
theorem differenceInplace_correct (k : BKind) (a b : BF) (ha : a.Inv) (hb : b.Inv)
    (hka : k.lenOk a.len = true) :
    a.differenceInplace b = a.difference b ∧
    (a.differenceInplace b).Inv ∧ k.lenOk (a.differenceInplace b).len = true ∧
      (a.differenceInplace b).len = a.len ∧
      (a.differenceInplace b).abs = zipBits (fun x y => x && !y) a.abs b.abs a.len :=
  ⟨rfl, (difference_correct k a b ha hb hka).1, (difference_correct k a b ha hb hka).2.1,
    rfl, (difference_correct k a b ha hb hka).2.2.2.1⟩

/-! ### subset test -/

/-- `is_subset`: every set position of `a` is a set position of `b`; positions that `b` does not
    have count as clear, positions that `a` does not have impose nothing -/
theorem isSubset_correct (a b : BF) (ha : a.Inv) (hb : b.Inv) :
    a.isSubset b = true ↔ ∀ i, a.abs.getD i false = true → b.abs.getD i false = true :=
  isSubset_iff a b ha hb

/-- `is_subset` is "the difference is empty" on the bit level -/
theorem isSubset_iff_difference (a b : BF) (ha : a.Inv) (hb : b.Inv) :
    a.isSubset b = true ↔ ∀ i, (a.abs.getD i false && !(b.abs.getD i false)) = false := by
  rw [isSubset_correct a b ha hb]
  constructor
  · intro h i
    cases hi : a.abs.getD i false with
    | false => rfl
    | true => rw [h i hi]; rfl
  · intro h i hi
    have := h i
    rw [hi] at this
    simpa using this

/-- the subset test agrees with the other operations: `a ⊆ b` iff `a ∩ b` has `a`'s bits -/
theorem isSubset_iff_inter (k : BKind) (a b r : BF) (ha : a.Inv) (hb : b.Inv)
    (hka : k.lenOk a.len = true) (hkb : k.lenOk b.len = true) (hr : interK k a b = .ok r) :
    a.isSubset b = true ↔ ∀ i, r.abs.getD i false = a.abs.getD i false := by
  obtain ⟨r', h1, _, _, _, _, h6⟩ := intersection_correct k a b ha hb hka hkb
  rw [h1] at hr; injection hr with hr; subst hr
  rw [isSubset_correct a b ha hb]
  constructor
  · intro h i
    rw [h6 i]
    cases hi : a.abs.getD i false with
    | false => rfl
    | true => rw [h i hi]; rfl
  · intro h i hi
    have := h i
    rw [h6 i, hi] at this
    simpa using this

/-! ### examples -/

/-- 3-bit bitlist `101` and 9-bit bitlist `110000001` (capacity 16) -/
def a3 : BF := ⟨[0x05], 3⟩
def b9 : BF := ⟨[0x03, 0x01], 9⟩

example : a3.abs = [true, false, true] := by decide
example : b9.abs = [true, true, false, false, false, false, false, false, true] := by decide
example : a3.invB = true ∧ b9.invB = true := by decide
example : unionK (.variable 16) a3 b9 = .ok ⟨[0x07, 0x01], 9⟩ := by decide
example : unionK (.variable 16) b9 a3 = .ok ⟨[0x07, 0x01], 9⟩ := by decide
example : interK (.variable 16) a3 b9 = .ok ⟨[0x01], 3⟩ := by decide
example : interK (.variable 16) b9 a3 = .ok ⟨[0x01], 3⟩ := by decide
example : a3.difference b9 = ⟨[0x04], 3⟩ := by decide
example : b9.difference a3 = ⟨[0x02, 0x01], 9⟩ := by decide
example : a3.isSubset b9 = false := by decide
example : (⟨[0x01], 3⟩ : BF).isSubset b9 = true := by decide
example : b9.isSubset (⟨[0x03], 2⟩ : BF) = false := by decide          -- bit 8 is missing on the right
/-- without the invariant (one byte for nine bits) the indexing of `intersection` does panic -/
example : interK (.variable 16) ⟨[0x05], 9⟩ b9 = .panic := by decide

/-- dynamic bitvectors of 8 and 16 bits: both results have 16 bits -/
def d8 : BF := ⟨[0x0F], 8⟩
def d16 : BF := ⟨[0xF3, 0x01], 16⟩
example : unionK .dynamic d8 d16 = .ok ⟨[0xFF, 0x01], 16⟩ := by decide
example : interK .dynamic d8 d16 = .ok ⟨[0x03, 0x00], 16⟩ := by decide
example : interK .dynamic d16 d8 = .ok ⟨[0x03, 0x00], 16⟩ := by decide
example : d8.difference d16 = ⟨[0x0C], 8⟩ := by decide
example : d16.difference d8 = ⟨[0xF0, 0x01], 16⟩ := by decide

/-- bitvectors of 9 bits -/
example : unionK (.fixed 9) ⟨[0x05, 0x00], 9⟩ b9 = .ok ⟨[0x07, 0x01], 9⟩ := by decide
example : interK (.fixed 9) ⟨[0x05, 0x01], 9⟩ b9 = .ok ⟨[0x01, 0x01], 9⟩ := by decide

end Ssz.C12
