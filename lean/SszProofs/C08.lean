import SszProofs.Lemmas.DeriveLemmas
import SszProofs.C01
import SszProofs.C02
import SszProofs.C03
import SszProofs.C05
import SszProofs.C07
import SszProofs.C15
/-
  C08 — Derived codecs implement the SSZ schema of the type definition.

  `SszModel/Derive.lean` models the front end of `ssz_derive` (which definitions expand, which
  fields take part, which schema results); the code the macro generates for that schema is the
  `Ty.container` / `Ty.union` / `Ty.tagEnum` / `Ty.transparentEnum` arms of `Codec.lean`. This file
  states, for every definition:
    1. selectors are the declaration indices `0 .. n-1`, for `1 ≤ n ≤ 128` variants only;
    2. the macro accepts exactly the definitions that have an SSZ meaning (`HasSszMeaning`);
    3. the schema: live fields in declaration order / the single live field / variant types;
    4. generated encoder = reference serializer `Spec.ser` of that schema;
    5. generated decoder = decoder of that schema, then `Default` for the skipped fields;
    6. round trip (skipped fields come back as defaults);
    7. union / tag selectors on the wire;   8. transparent enums;   9. size metadata;
   10. worked examples.
-/
set_option linter.unusedSimpArgs false
namespace Ssz.C08
open Ssz.Drv
open Ssz

/-! ## 1. union selectors -/

theorem selectors_eq (n : Nat) :
    computeUnionSelectors n = if 1 ≤ n ∧ n ≤ 128 then some (List.range n) else none := by
  unfold computeUnionSelectors MAX_UNION_SELECTOR
  by_cases h0 : n = 0
  · simp [h0]
  · by_cases h1 : n > 256
    · rw [if_neg h0, if_pos h1, if_neg (by omega)]
    · by_cases h2 : n - 1 > 127
      · rw [if_neg h0, if_neg h1, if_pos h2, if_neg (by omega)]
      · rw [if_neg h0, if_neg h1, if_neg h2, if_pos (by omega)]

/-- `compute_union_selectors(n)` succeeds, with the selectors `0, 1, .., n-1`, exactly for
    `1 ≤ n ≤ 128` -/
theorem selectors_are_indices (n : Nat) :
    computeUnionSelectors n = some (List.range n) ↔ 1 ≤ n ∧ n ≤ 128 := by
  rw [selectors_eq]
  by_cases h : 1 ≤ n ∧ n ≤ 128
  · simp [h]
  · simp [h]

/-- ... and is a compile-time panic exactly for `0` and for more than `128` variants -/
theorem selectors_none_iff (n : Nat) : computeUnionSelectors n = none ↔ n = 0 ∨ n > 128 := by
  rw [selectors_eq]
  by_cases h : 1 ≤ n ∧ n ≤ 128
  · simp [h]; omega
  · simp [h]; omega

/-- whenever selectors are produced they are the declaration indices -/
theorem selectors_some (n : Nat) (l : List Nat) (h : computeUnionSelectors n = some l) :
    l = List.range n ∧ ∀ i (hi : i < l.length), l[i] = i := by
  rw [selectors_eq] at h
  by_cases hn : 1 ≤ n ∧ n ≤ 128
  · rw [if_pos hn] at h
    injection h with h
    subst h
    exact ⟨rfl, fun i hi => by simp⟩
  · rw [if_neg hn] at h; cases h

example : computeUnionSelectors 0 = none := by decide
example : computeUnionSelectors 129 = none := by decide
example : computeUnionSelectors 257 = none := by decide
example : computeUnionSelectors 1 = some [0] := by decide
example : computeUnionSelectors 128 = some (List.range 128) := (selectors_are_indices 128).mpr (by omega)

/-! ## 2. which definitions are accepted -/

/-- A definition has an SSZ meaning (written from the property text and the macro's module
    documentation, not from the macro's code):

    * a `struct` carries no `enum_behaviour`, each field has at most one `#[ssz(..)]` attribute, and
      - `container` (the default): every field is named;
      - `transparent`: exactly one field lacks `skip_deserializing`;
    * an `enum` carries no `struct_behaviour` and declares one of
      - `union`: every variant has exactly one unnamed field; 1 to 128 variants;
      - `tag`: every variant is a unit variant (no fields, not written `V()` or `V {}`); 1 to 128 variants;
      - `transparent`: every variant has exactly one unnamed field. -/
def HasSszMeaning : Def → Prop
  | .struct_ beh hasEnumAttr fields =>
      hasEnumAttr = false ∧ (∀ f ∈ fields, f.attrs ≤ 1) ∧
      (match beh with
       | none => ∀ f ∈ fields, f.named = true
       | some .container => ∀ f ∈ fields, f.named = true
       | some .transparent => ExactlyOne (fun f => f.skipDe = false) fields
       | some .invalid => False)
  | .enum_ beh hasStructAttr variants =>
      hasStructAttr = false ∧
      (match beh with
       | some .union =>
           (∀ v ∈ variants, v.fields.length = 1 ∧ v.named = false) ∧
             1 ≤ variants.length ∧ variants.length ≤ 128
       | some .tag => (∀ v ∈ variants, v.fields = [] ∧ v.named = false ∧ v.parens = false) ∧
             1 ≤ variants.length ∧ variants.length ≤ 128
       | some .transparent => ∀ v ∈ variants, v.fields.length = 1 ∧ v.named = false
       | some .invalid => False
       | none => False)

/-- the tuple struct whose only field is skipped: `Encode` alone would expand, `Decode` does not -/
example : acceptsEncode (.struct_ none false [{ ty := .uint 1, named := false, skipSer := true }]) = true ∧
    accepts (.struct_ none false [{ ty := .uint 1, named := false, skipSer := true }]) = false := by
  decide

theorem liveDe_length_one_iff (fields : List Field) :
    ((liveDe fields).length == 1) = true ↔ ExactlyOne (fun f => f.skipDe = false) fields := by
  unfold liveDe
  rw [beq_iff_eq, filter_length_one_iff]
  exact ExactlyOne.congr (fun f => by simp) fields

/-- both derives expand exactly for the definitions that have an SSZ meaning -/
theorem accepts_iff (d : Def) : accepts d = true ↔ HasSszMeaning d := by
  cases d with
  | struct_ beh e fields =>
    have hcont : (!e && fields.all (fun f => decide (f.attrs ≤ 1)) &&
          (liveSer fields).all (fun f => f.named) &&
        (!e && fields.all (fun f => decide (f.attrs ≤ 1)) && fields.all (fun f => f.named))) = true ↔
        e = false ∧ (∀ f ∈ fields, f.attrs ≤ 1) ∧ ∀ f ∈ fields, f.named = true := by
      simp only [Bool.and_eq_true, Bool.not_eq_true', List.all_eq_true, decide_eq_true_eq, liveSer,
        List.mem_filter]
      constructor
      · rintro ⟨_, ⟨h1, h2⟩, h3⟩; exact ⟨h1, h2, h3⟩
      · rintro ⟨h1, h2, h3⟩; exact ⟨⟨⟨h1, h2⟩, fun f hf => h3 f hf.1⟩, ⟨h1, h2⟩, h3⟩
    cases beh with
    | none => simpa only [accepts, acceptsEncode, acceptsDecode, HasSszMeaning] using hcont
    | some b =>
      cases b with
      | container => simpa only [accepts, acceptsEncode, acceptsDecode, HasSszMeaning] using hcont
      | transparent =>
        simp only [accepts, acceptsEncode, acceptsDecode, HasSszMeaning, Bool.and_eq_true,
          Bool.not_eq_true', List.all_eq_true, decide_eq_true_eq, liveDe_length_one_iff]
        constructor
        · rintro ⟨⟨⟨h1, h2⟩, h3⟩, _⟩; exact ⟨h1, h2, h3⟩
        · rintro ⟨h1, h2, h3⟩; exact ⟨⟨⟨h1, h2⟩, h3⟩, ⟨h1, h2⟩, h3⟩
      | invalid => simp [accepts, acceptsEncode, HasSszMeaning]
  | enum_ beh s variants =>
    cases beh with
    | none => simp [accepts, acceptsEncode, HasSszMeaning]
    | some b =>
      cases b with
      | union =>
        simp only [accepts, acceptsEncode, acceptsDecode, HasSszMeaning, Bool.and_eq_true,
          Bool.not_eq_true', List.all_eq_true, beq_iff_eq, selectors_isSome]
        constructor
        · rintro ⟨⟨h1, h2, h3⟩, _⟩; exact ⟨h1, h2, h3⟩
        · rintro ⟨h1, h2, h3⟩; exact ⟨⟨h1, h2, h3⟩, h1, h2, h3⟩
      | tag =>
        simp only [accepts, acceptsEncode, acceptsDecode, HasSszMeaning, Bool.and_eq_true,
          Bool.not_eq_true', List.all_eq_true, List.isEmpty_iff, selectors_isSome]
        constructor
        · rintro ⟨⟨h1, h2, h3⟩, _⟩
          exact ⟨h1, fun v hv => ⟨((h2 v hv).1).1, ((h2 v hv).1).2, (h2 v hv).2⟩, h3⟩
        · rintro ⟨h1, h2, h3⟩
          have h2' : ∀ v ∈ variants, (v.fields = [] ∧ v.named = false) ∧ v.parens = false :=
            fun v hv => ⟨⟨(h2 v hv).1, (h2 v hv).2.1⟩, (h2 v hv).2.2⟩
          exact ⟨⟨h1, h2', h3⟩, h1, h2', h3⟩
      | transparent =>
        simp only [accepts, acceptsEncode, acceptsDecode, HasSszMeaning, Bool.and_eq_true,
          Bool.not_eq_true', List.all_eq_true, beq_iff_eq]
        constructor
        · rintro ⟨⟨h1, h2⟩, _⟩; exact ⟨h1, h2⟩
        · rintro ⟨h1, h2⟩; exact ⟨⟨h1, h2⟩, h1, h2⟩
      | invalid => simp [accepts, acceptsEncode, HasSszMeaning]

/-! ### rejected and accepted definitions named in the property -/

/-- a union needs at least one variant -/
theorem rejects_zero_variant_union (s : Bool) : accepts (.enum_ (some .union) s []) = false := by
  cases s <;> rfl

/-- a union (and a tag enum) with more than 128 variants is rejected -/
theorem rejects_large_union (s : Bool) (variants : List Variant) (h : variants.length > 128) :
    accepts (.enum_ (some .union) s variants) = false ∧
    accepts (.enum_ (some .tag) s variants) = false := by
  constructor <;>
  · rw [Bool.eq_false_iff]
    intro hacc
    have := (accepts_iff _).mp hacc
    simp only [HasSszMeaning] at this
    omega

/-- 1 to 128 single-field variants are accepted -/
theorem accepts_union (variants : List Variant) (h1 : 1 ≤ variants.length) (h2 : variants.length ≤ 128)
    (hv : ∀ v ∈ variants, v.fields.length = 1 ∧ v.named = false) :
    accepts (.enum_ (some .union) false variants) = true :=
  (accepts_iff _).mpr ⟨rfl, hv, h1, h2⟩

/-- a transparent struct needs exactly one field without `skip_deserializing` -/
theorem transparent_struct_iff (e : Bool) (fields : List Field) :
    accepts (.struct_ (some .transparent) e fields) = true ↔
      e = false ∧ (∀ f ∈ fields, f.attrs ≤ 1) ∧ (liveDe fields).length = 1 := by
  rw [accepts_iff]
  simp only [HasSszMeaning, ← liveDe_length_one_iff, beq_iff_eq]

theorem rejects_transparent_struct (e : Bool) (fields : List Field) (h : (liveDe fields).length ≠ 1) :
    accepts (.struct_ (some .transparent) e fields) = false := by
  rw [Bool.eq_false_iff]
  intro hacc
  exact h ((transparent_struct_iff e fields).mp hacc).2.2

/-- an enum without `enum_behaviour` is rejected, whatever its variants -/
theorem rejects_enum_without_behaviour (s : Bool) (variants : List Variant) :
    accepts (.enum_ none s variants) = false := by
  rw [Bool.eq_false_iff]
  intro hacc
  exact ((accepts_iff _).mp hacc).2

/-- an unknown behaviour string is rejected -/
theorem rejects_invalid_behaviour (s : Bool) (variants : List Variant) (e : Bool) (fields : List Field) :
    accepts (.enum_ (some .invalid) s variants) = false ∧
    accepts (.struct_ (some .invalid) e fields) = false := by
  constructor
  · rw [Bool.eq_false_iff]
    intro hacc
    exact ((accepts_iff _).mp hacc).2
  · rw [Bool.eq_false_iff]
    intro hacc
    exact ((accepts_iff _).mp hacc).2.2

/-- `enum_behaviour` on a struct, `struct_behaviour` on an enum -/
theorem rejects_wrong_attribute (b : Option StructBeh) (fields : List Field) (b' : Option EnumBeh)
    (variants : List Variant) :
    accepts (.struct_ b true fields) = false ∧ accepts (.enum_ b' true variants) = false := by
  constructor <;>
  · rw [Bool.eq_false_iff]
    intro hacc
    have := ((accepts_iff _).mp hacc).1
    cases this

/-- two `#[ssz(..)]` attributes on one field -/
theorem rejects_double_attribute (b : Option StructBeh) (e : Bool) (fields : List Field) (f : Field)
    (hf : f ∈ fields) (h : f.attrs > 1) : accepts (.struct_ b e fields) = false := by
  rw [Bool.eq_false_iff]
  intro hacc
  have := ((accepts_iff _).mp hacc).2.1 f hf
  omega

/-- a container with an unnamed field (a tuple struct), even a skipped one -/
theorem rejects_unnamed_container_field (e : Bool) (fields : List Field) (f : Field)
    (hf : f ∈ fields) (h : f.named = false) :
    accepts (.struct_ none e fields) = false ∧ accepts (.struct_ (some .container) e fields) = false := by
  constructor <;>
  · rw [Bool.eq_false_iff]
    intro hacc
    have := ((accepts_iff _).mp hacc).2.2 f hf
    rw [h] at this; cases this

def mkVariants (n : Nat) : List Variant := List.replicate n { fields := [.uint 1] }

example : accepts (.enum_ (some .union) false []) = false := rfl
example : accepts (.enum_ (some .union) false (mkVariants 129)) = false :=
  (rejects_large_union _ _ (by simp only [mkVariants, List.length_replicate]; omega)).1
example : accepts (.enum_ (some .union) false (mkVariants 257)) = false :=
  (rejects_large_union _ _ (by simp only [mkVariants, List.length_replicate]; omega)).1
example : accepts (.enum_ (some .union) false (mkVariants 128)) = true :=
  accepts_union _ (by simp only [mkVariants, List.length_replicate]; omega)
    (by simp only [mkVariants, List.length_replicate]; omega)
    (by intro v hv; simp [mkVariants] at hv; subst hv; simp)
example : accepts (.enum_ (some .union) false (mkVariants 1)) = true := by decide
example : accepts (.enum_ (some .tag) false (List.replicate 129 { fields := [] })) = false :=
  (rejects_large_union _ _ (by simp only [List.length_replicate]; omega)).2
/-- transparent struct with no live field -/
example : accepts (.struct_ (some .transparent) false [{ ty := .uint 1, skipSer := true, skipDe := true }]) = false := by
  decide
/-- transparent struct with two live fields -/
example : accepts (.struct_ (some .transparent) false [{ ty := .uint 1 }, { ty := .byteList }]) = false := by decide
example : accepts (.struct_ (some .transparent) false [{ ty := .uint 1 }]) = true := by decide
example : accepts (.enum_ none false [{ fields := [.uint 1] }]) = false := by decide
example : accepts (.struct_ (some .container) true [{ ty := .uint 1 }]) = false := by decide
example : accepts (.enum_ (some .union) true [{ fields := [.uint 1] }]) = false := by decide
/-- union variant with two fields, or with a named field -/
example : accepts (.enum_ (some .union) false [{ fields := [.uint 1, .uint 1] }]) = false := by decide
example : accepts (.enum_ (some .union) false [{ fields := [.uint 1], named := true }]) = false := by decide
/-- tag variants written `V {}` or `V()` are not unit variants: the generated pattern does not type-check -/
example : accepts (.enum_ (some .tag) false [{ fields := [], named := true }]) = false := by decide
example : accepts (.enum_ (some .tag) false [{ fields := [], parens := true }]) = false := by decide
/-- tag variant with a field -/
example : accepts (.enum_ (some .tag) false [{ fields := [] }, { fields := [.uint 1] }]) = false := by decide

/-! ## 3. the schema of a definition -/

/-- containers: the fields without `skip_serializing`, in declaration order -/
theorem encSchema_container (b : Option StructBeh) (e : Bool) (fields : List Field)
    (hb : b ≠ some .transparent) :
    encSchema (.struct_ b e fields) = .container ((fields.filter (fun f => !f.skipSer)).map (·.ty)) := by
  cases b with
  | none => rfl
  | some x => cases x <;> first | rfl | exact absurd rfl hb

/-- ... and for the decoder the fields without `skip_deserializing` -/
theorem decSchema_container (b : Option StructBeh) (e : Bool) (fields : List Field)
    (hb : b ≠ some .transparent) :
    decSchema (.struct_ b e fields) = .container ((fields.filter (fun f => !f.skipDe)).map (·.ty)) := by
  cases b with
  | none => rfl
  | some x => cases x <;> first | rfl | exact absurd rfl hb

/-- the container schema keeps the declaration order: it is a sublist of all field types -/
theorem container_schema_sublist (fields : List Field) :
    ((liveSer fields).map (·.ty)).Sublist (fields.map (·.ty)) ∧
    ((liveDe fields).map (·.ty)).Sublist (fields.map (·.ty)) :=
  ⟨List.Sublist.map _ List.filter_sublist, List.Sublist.map _ List.filter_sublist⟩

/-- without skipped fields the schema is the container of all field types -/
theorem encSchema_container_noskip (b : Option StructBeh) (e : Bool) (fields : List Field)
    (hb : b ≠ some .transparent) (h : ∀ f ∈ fields, f.skipSer = false) :
    encSchema (.struct_ b e fields) = .container (fields.map (·.ty)) := by
  rw [encSchema_container b e fields hb, List.filter_eq_self.mpr (fun f hf => by simp [h f hf])]

/-- an accepted transparent struct has the schema of its single live field, for both directions -/
theorem transparent_schema (e : Bool) (fields : List Field)
    (hacc : accepts (.struct_ (some .transparent) e fields) = true) :
    ∃ f, liveDe fields = [f] ∧ encSchema (.struct_ (some .transparent) e fields) = f.ty ∧
      decSchema (.struct_ (some .transparent) e fields) = f.ty := by
  have hl := ((transparent_struct_iff e fields).mp hacc).2.2
  match hlive : liveDe fields, hl with
  | [f], _ => exact ⟨f, rfl, by simp [encSchema, hlive], by simp [decSchema, hlive]⟩

/-- the same, in terms of the declaration: `pre.., f, post..` with everything but `f` skipped -/
theorem transparent_schema_decl (e : Bool) (pre post : List Field) (f : Field) (hf : f.skipDe = false)
    (hpre : ∀ g ∈ pre, g.skipDe = true) (hpost : ∀ g ∈ post, g.skipDe = true) :
    encSchema (.struct_ (some .transparent) e (pre ++ f :: post)) = f.ty ∧
    decSchema (.struct_ (some .transparent) e (pre ++ f :: post)) = f.ty := by
  have : liveDe (pre ++ f :: post) = [f] :=
    filter_of_exactlyOne _ pre post f (by simp [hf]) (fun g hg => by simp [hpre g hg])
      (fun g hg => by simp [hpost g hg])
  simp [encSchema, decSchema, this]

/-- when a field is skipped either in both directions or in none, the two schemas coincide -/
def skipsAgree : Def → Prop
  | .struct_ _ _ fields => ∀ f ∈ fields, f.skipSer = f.skipDe
  | .enum_ _ _ _ => True

theorem schemas_agree (d : Def) (h : skipsAgree d) : encSchema d = decSchema d := by
  cases d with
  | struct_ b e fields =>
    have hl := liveSer_eq_liveDe fields h
    cases b with
    | none => simp only [encSchema, decSchema, hl]
    | some x => cases x <;> simp only [encSchema, decSchema, hl]
  | enum_ b s vs =>
    cases b with
    | none => rfl
    | some x => cases x <;> rfl

/-- the schemas differ when the skip attributes differ -/
example : encSchema (.struct_ none false [{ ty := .uint 1, skipSer := true }]) = .container [] ∧
    decSchema (.struct_ none false [{ ty := .uint 1, skipSer := true }]) = .container [.uint 1] := by
  constructor <;> rfl

theorem encSchema_union (s : Bool) (vs : List Variant) :
    encSchema (.enum_ (some .union) s vs) = .union (vs.map variantTy) ∧
    decSchema (.enum_ (some .union) s vs) = .union (vs.map variantTy) := ⟨rfl, rfl⟩

theorem encSchema_tag (s : Bool) (vs : List Variant) :
    encSchema (.enum_ (some .tag) s vs) = .tagEnum vs.length ∧
    decSchema (.enum_ (some .tag) s vs) = .tagEnum vs.length := ⟨rfl, rfl⟩

theorem encSchema_transparentEnum (s : Bool) (vs : List Variant) :
    encSchema (.enum_ (some .transparent) s vs) = .transparentEnum (vs.map variantTy) ∧
    decSchema (.enum_ (some .transparent) s vs) = .transparentEnum (vs.map variantTy) := ⟨rfl, rfl⟩

/-- in accepted union / transparent enums `variantTy` is the variant's one field -/
theorem variantTy_spec (v : Variant) (h : v.fields.length = 1) : v.fields = [variantTy v] := by
  match hf : v.fields, h with
  | [t], _ => simp [variantTy, hf]

theorem variant_types (b : EnumBeh) (s : Bool) (vs : List Variant) (hb : b = .union ∨ b = .transparent)
    (hacc : accepts (.enum_ (some b) s vs) = true) : ∀ v ∈ vs, v.fields = [variantTy v] := by
  intro v hv
  have h := (accepts_iff _).mp hacc
  rcases hb with rfl | rfl
  · exact variantTy_spec v (h.2.1 v hv).1
  · exact variantTy_spec v (h.2 v hv).1

/-- the `i`-th variant type of the schema is the `i`-th declared variant -/
theorem variantTy_getElem (vs : List Variant) (i : Nat) (v : Variant) (h : vs[i]? = some v) :
    (vs.map variantTy)[i]? = some (variantTy v) := by
  simp [h]

/-! ## 4. the generated encoder is the reference serializer of the schema -/

/-- what the generated `ssz_append` of a container does: the schema's encoder on the live fields -/
theorem genEncode_container (b : Option StructBeh) (e : Bool) (fields : List Field) (vs : List Val)
    (hb : b ≠ some .transparent) :
    genEncode (.struct_ b e fields) (.tuple vs) =
      encode (encSchema (.struct_ b e fields)) (.tuple (projectSer fields vs)) := by
  cases b with
  | none => rfl
  | some x => cases x <;> first | rfl | exact absurd rfl hb

theorem genEncode_transparent (e : Bool) (fields : List Field) (vs : List Val) (x : Val)
    (hx : projectDe fields vs = [x]) :
    genEncode (.struct_ (some .transparent) e fields) (.tuple vs) =
      encode (encSchema (.struct_ (some .transparent) e fields)) x := by
  simp only [genEncode, hx]

theorem genEncode_enum (b : Option EnumBeh) (s : Bool) (variants : List Variant) (v : Val) :
    genEncode (.enum_ b s variants) v = encode (encSchema (.enum_ b s variants)) v := by
  cases v <;> rfl

/-- **containers.** On the tuple of ALL field values whose live part is well typed, the generated
    encoder produces the reference serialization of the schema applied to the live part. -/
theorem derive_encode (b : Option StructBeh) (e : Bool) (fields : List Field) (vs : List Val)
    (hb : b ≠ some .transparent)
    (ht : hasTypes ((liveSer fields).map (·.ty)) (projectSer fields vs) = true)
    (hl : (Spec.ser (encSchema (.struct_ b e fields)) (.tuple (projectSer fields vs))).length < 2^32) :
    genEncode (.struct_ b e fields) (.tuple vs) =
      Spec.ser (encSchema (.struct_ b e fields)) (.tuple (projectSer fields vs)) := by
  rw [genEncode_container b e fields vs hb]
  refine C03.enc_spec _ _ ?_ hl
  rw [encSchema_container b e fields hb]
  simpa only [hasType, liveSer] using ht

/-- the same with the size limit on the produced bytes -/
theorem derive_encode_of_length (b : Option StructBeh) (e : Bool) (fields : List Field) (vs : List Val)
    (hb : b ≠ some .transparent)
    (ht : hasTypes ((liveSer fields).map (·.ty)) (projectSer fields vs) = true)
    (hl : (genEncode (.struct_ b e fields) (.tuple vs)).length < 2^32) :
    genEncode (.struct_ b e fields) (.tuple vs) =
      Spec.ser (encSchema (.struct_ b e fields)) (.tuple (projectSer fields vs)) := by
  rw [genEncode_container b e fields vs hb] at hl ⊢
  refine C03.encode_eq_spec_of_encode_length _ _ ?_ hl
  rw [encSchema_container b e fields hb]
  simpa only [hasType, liveSer] using ht

/-- the literal form through `C03.encode_eq_spec` (which asks for a well-formed schema) -/
theorem derive_encode_wf (b : Option StructBeh) (e : Bool) (fields : List Field) (vs : List Val)
    (hacc : accepts (.struct_ b e fields) = true) (hb : b ≠ some .transparent)
    (hwf : (encSchema (.struct_ b e fields)).wf = true)
    (ht : hasTypes ((liveSer fields).map (·.ty)) (projectSer fields vs) = true)
    (hl : (Spec.ser (encSchema (.struct_ b e fields)) (.tuple (projectSer fields vs))).length < 2^32) :
    genEncode (.struct_ b e fields) (.tuple vs) =
      Spec.ser (encSchema (.struct_ b e fields)) (.tuple (projectSer fields vs)) := by
  have _ := hacc
  rw [genEncode_container b e fields vs hb]
  refine C03.encode_eq_spec _ _ hwf ?_ hl
  rw [encSchema_container b e fields hb]
  simpa only [hasType, liveSer] using ht

/-- with a value for every field, an accepted transparent struct has exactly one live value -/
theorem projectDe_single (e : Bool) (fields : List Field) (vs : List Val)
    (hacc : accepts (.struct_ (some .transparent) e fields) = true) (hlen : vs.length = fields.length) :
    ∃ x, projectDe fields vs = [x] := by
  have h1 := ((transparent_struct_iff e fields).mp hacc).2.2
  have h2 := projectDe_length fields vs hlen
  rw [h1] at h2
  match hp : projectDe fields vs, h2 with
  | [x], _ => exact ⟨x, rfl⟩

theorem projectDe_skipped_prefix : ∀ (pre : List Field) (vpre : List Val) (fs : List Field) (vs : List Val),
    (∀ g ∈ pre, g.skipDe = true) → vpre.length = pre.length →
    projectDe (pre ++ fs) (vpre ++ vs) = projectDe fs vs
  | [], [], fs, vs, _, _ => rfl
  | [], _ :: _, _, _, _, h => by simp at h
  | _ :: _, [], _, _, _, h => by simp at h
  | g :: pre, w :: vpre, fs, vs, hs, h => by
      have hg := hs g (by simp)
      simp only [List.cons_append, projectDe, hg, if_true]
      exact projectDe_skipped_prefix pre vpre fs vs (fun g' hg' => hs g' (by simp [hg'])) (by simpa using h)

theorem projectDe_all_skipped : ∀ (fs : List Field) (vs : List Val), (∀ g ∈ fs, g.skipDe = true) →
    projectDe fs vs = []
  | [], vs, _ => by simp [projectDe]
  | _ :: _, [], _ => by simp [projectDe]
  | g :: fs, v :: vs, hs => by
      have hg := hs g (by simp)
      simp only [projectDe, hg, if_true]
      exact projectDe_all_skipped fs vs (fun g' hg' => hs g' (by simp [hg']))

/-- in terms of the declaration: the live value is the one at the live field's position -/
theorem projectDe_decl (pre post : List Field) (f : Field) (vpre vpost : List Val) (x : Val)
    (hf : f.skipDe = false) (hpre : ∀ g ∈ pre, g.skipDe = true) (hpost : ∀ g ∈ post, g.skipDe = true)
    (hlen : vpre.length = pre.length) :
    projectDe (pre ++ f :: post) (vpre ++ x :: vpost) = [x] := by
  rw [projectDe_skipped_prefix pre vpre _ _ hpre hlen]
  simp [projectDe, hf, projectDe_all_skipped post vpost hpost]

/-- **transparent structs.** The generated encoder is the reference serializer of the single live
    field's type applied to that field's value. -/
theorem derive_encode_transparent (e : Bool) (fields : List Field) (vs : List Val) (x : Val)
    (hx : projectDe fields vs = [x])
    (ht : hasType (encSchema (.struct_ (some .transparent) e fields)) x = true)
    (hl : (Spec.ser (encSchema (.struct_ (some .transparent) e fields)) x).length < 2^32) :
    genEncode (.struct_ (some .transparent) e fields) (.tuple vs) =
      Spec.ser (encSchema (.struct_ (some .transparent) e fields)) x := by
  rw [genEncode_transparent e fields vs x hx]
  exact C03.enc_spec _ _ ht hl

/-- ... spelled out on the declaration `pre.., f, post..` and the value `vpre.., x, vpost..` -/
theorem derive_encode_transparent_decl (e : Bool) (pre post : List Field) (f : Field)
    (vpre vpost : List Val) (x : Val)
    (hf : f.skipDe = false) (hpre : ∀ g ∈ pre, g.skipDe = true) (hpost : ∀ g ∈ post, g.skipDe = true)
    (hlen : vpre.length = pre.length) (ht : hasType f.ty x = true) (hl : (Spec.ser f.ty x).length < 2^32) :
    genEncode (.struct_ (some .transparent) e (pre ++ f :: post)) (.tuple (vpre ++ x :: vpost)) =
      Spec.ser f.ty x := by
  have hs := (transparent_schema_decl e pre post f hf hpre hpost).1
  have := derive_encode_transparent e (pre ++ f :: post) (vpre ++ x :: vpost) x
    (projectDe_decl pre post f vpre vpost x hf hpre hpost hlen) (by rw [hs]; exact ht) (by rw [hs]; exact hl)
  rw [this, hs]

/-- **enums.** The generated encoder is the reference serializer of the enum's schema. -/
theorem derive_encode_enum (b : Option EnumBeh) (s : Bool) (variants : List Variant) (v : Val)
    (ht : hasType (encSchema (.enum_ b s variants)) v = true)
    (hl : (Spec.ser (encSchema (.enum_ b s variants)) v).length < 2^32) :
    genEncode (.enum_ b s variants) v = Spec.ser (encSchema (.enum_ b s variants)) v := by
  rw [genEncode_enum]
  exact C03.enc_spec _ _ ht hl

/-- skipped fields do not influence the bytes: only the live part of the value is looked at -/
theorem skipped_fields_ignored (b : Option StructBeh) (e : Bool) (fields : List Field) (vs vs' : List Val)
    (hb : b ≠ some .transparent) (h : projectSer fields vs = projectSer fields vs') :
    genEncode (.struct_ b e fields) (.tuple vs) = genEncode (.struct_ b e fields) (.tuple vs') := by
  rw [genEncode_container b e fields vs hb, genEncode_container b e fields vs' hb, h]

theorem skipped_fields_ignored_transparent (e : Bool) (fields : List Field) (vs vs' : List Val)
    (h : projectDe fields vs = projectDe fields vs') :
    genEncode (.struct_ (some .transparent) e fields) (.tuple vs) =
      genEncode (.struct_ (some .transparent) e fields) (.tuple vs') := by
  simp only [genEncode, h]

/-- overwriting the value of a `skip_serializing` field leaves the live part unchanged -/
theorem projectSer_set_skipped : ∀ (fields : List Field) (vs : List Val) (i : Nat) (f : Field) (w : Val),
    fields[i]? = some f → f.skipSer = true → projectSer fields (vs.set i w) = projectSer fields vs
  | [], vs, i, f, w, hi, _ => by simp at hi
  | _ :: _, [], i, f, w, _, _ => by simp
  | g :: fields, v :: vs, 0, f, w, hi, hs => by
      simp only [List.getElem?_cons_zero, Option.some.injEq] at hi
      subst hi
      simp [projectSer, hs]
  | g :: fields, v :: vs, i + 1, f, w, hi, hs => by
      simp only [List.getElem?_cons_succ] at hi
      simp only [List.set_cons_succ, projectSer, projectSer_set_skipped fields vs i f w hi hs]

/-- ... hence so does the encoding -/
theorem skipped_field_value_irrelevant (b : Option StructBeh) (e : Bool) (fields : List Field)
    (vs : List Val) (i : Nat) (f : Field) (w : Val) (hb : b ≠ some .transparent)
    (hi : fields[i]? = some f) (hs : f.skipSer = true) :
    genEncode (.struct_ b e fields) (.tuple (vs.set i w)) = genEncode (.struct_ b e fields) (.tuple vs) :=
  skipped_fields_ignored b e fields _ _ hb (projectSer_set_skipped fields vs i f w hi hs)

/-! ## 5. the generated decoder is the schema's decoder followed by defaulting -/

/-- what the generated `from_ssz_bytes` does with the decoded schema value: put `Default::default()`
    into the `skip_deserializing` fields -/
def fill : Def → Val → Val
  | .struct_ (some .transparent) _ fields, x => .tuple (fillDefaults fields [x])
  | .struct_ _ _ fields, .tuple vs => .tuple (fillDefaults fields vs)
  | _, x => x

theorem fill_container (b : Option StructBeh) (e : Bool) (fields : List Field) (xs : List Val)
    (hb : b ≠ some .transparent) :
    fill (.struct_ b e fields) (.tuple xs) = .tuple (fillDefaults fields xs) := by
  cases b with
  | none => rfl
  | some x => cases x <;> first | rfl | exact absurd rfl hb

theorem fill_transparent (e : Bool) (fields : List Field) (x : Val) :
    fill (.struct_ (some .transparent) e fields) x = .tuple (fillDefaults fields [x]) := by
  cases x <;> rfl

theorem fill_enum (b : Option EnumBeh) (s : Bool) (variants : List Variant) (v : Val) :
    fill (.enum_ b s variants) v = v := by
  cases v <;> rfl

/-- **the decoder.** -/
theorem derive_decode (d : Def) (b : Bytes) : genDecode d b = (decode (decSchema d) b).map (fill d) := by
  cases d with
  | struct_ beh e fields =>
    cases beh with
    | none => exact res_map_congr _ (fun v => by cases v <;> rfl)
    | some x =>
      cases x with
      | container => exact res_map_congr _ (fun v => by cases v <;> rfl)
      | invalid => exact res_map_congr _ (fun v => by cases v <;> rfl)
      | transparent => exact res_map_congr _ (fun v => by cases v <;> rfl)
  | enum_ beh s variants =>
    have : fill (.enum_ beh s variants) = fun x => x := funext (fill_enum beh s variants)
    simp only [genDecode, this, res_map_id]

/-- decoding untrusted bytes with a derived decoder never panics -/
theorem genDecode_no_panic (d : Def) (b : Bytes) : genDecode d b ≠ .panic := by
  rw [derive_decode]
  exact res_map_ne_panic _ _ (C05.decode_no_panic _ _)

/-- **containers.** An accepted input is one the schema's decoder accepts; it yields one value per
    live field, and the result is those values with defaults filled in. -/
theorem derive_decode_container (b : Option StructBeh) (e : Bool) (fields : List Field) (bs : Bytes)
    (v : Val) (hb : b ≠ some .transparent) (h : genDecode (.struct_ b e fields) bs = .ok v) :
    ∃ xs, decode (decSchema (.struct_ b e fields)) bs = .ok (.tuple xs) ∧
      xs.length = (liveDe fields).length ∧ v = .tuple (fillDefaults fields xs) := by
  rw [derive_decode] at h
  obtain ⟨w, hw, rfl⟩ := (res_map_ok_iff _ _ _).mp h
  have hw' := hw
  rw [decSchema_container b e fields hb] at hw'
  obtain ⟨xs, rfl, hlen⟩ := decode_container_shape _ _ _ hw'
  refine ⟨xs, hw, ?_, fill_container b e fields xs hb⟩
  simpa [liveDe] using hlen

/-- conversely every input the schema accepts is accepted, with that result -/
theorem derive_decode_container_complete (b : Option StructBeh) (e : Bool) (fields : List Field)
    (bs : Bytes) (xs : List Val) (hb : b ≠ some .transparent)
    (h : decode (decSchema (.struct_ b e fields)) bs = .ok (.tuple xs)) :
    genDecode (.struct_ b e fields) bs = .ok (.tuple (fillDefaults fields xs)) := by
  rw [derive_decode, h, Res.map_ok, fill_container b e fields xs hb]

/-- errors are exactly the schema decoder's errors -/
theorem derive_decode_err (d : Def) (bs : Bytes) :
    genDecode d bs = .err ↔ decode (decSchema d) bs = .err := by
  rw [derive_decode]
  cases decode (decSchema d) bs <;> simp

/-- the decoded struct: all fields present, its live part is what the schema decoder returned, and
    it is that live part with defaults filled in -/
theorem decoded_live_part (b : Option StructBeh) (e : Bool) (fields : List Field) (bs : Bytes)
    (vs : List Val) (hb : b ≠ some .transparent)
    (h : genDecode (.struct_ b e fields) bs = .ok (.tuple vs)) :
    vs.length = fields.length ∧
    decode (decSchema (.struct_ b e fields)) bs = .ok (.tuple (projectDe fields vs)) ∧
    vs = fillDefaults fields (projectDe fields vs) := by
  obtain ⟨xs, hd, hlen, hv⟩ := derive_decode_container b e fields bs _ hb h
  injection hv with hv
  subst hv
  rw [projectDe_fillDefaults fields xs hlen]
  exact ⟨fillDefaults_length fields xs hlen, hd, rfl⟩

/-- every `skip_deserializing` field of the decoded struct holds `Default::default()` -/
theorem decoded_skipped_default (b : Option StructBeh) (e : Bool) (fields : List Field) (bs : Bytes)
    (vs : List Val) (hb : b ≠ some .transparent)
    (h : genDecode (.struct_ b e fields) bs = .ok (.tuple vs))
    (i : Nat) (f : Field) (hi : fields[i]? = some f) (hs : f.skipDe = true) :
    vs[i]? = some f.ty.default := by
  obtain ⟨xs, _, hlen, hv⟩ := derive_decode_container b e fields bs _ hb h
  injection hv with hv
  subst hv
  exact fillDefaults_skipped fields xs i f hlen hi hs

/-- for strict schemas (C02) the live part is well typed and re-encodes to the input -/
theorem decoded_canonical (b : Option StructBeh) (e : Bool) (fields : List Field) (bs : Bytes)
    (vs : List Val) (hb : b ≠ some .transparent)
    (hs : (decSchema (.struct_ b e fields)).strict = true)
    (h : genDecode (.struct_ b e fields) bs = .ok (.tuple vs)) :
    hasTypes ((liveDe fields).map (·.ty)) (projectDe fields vs) = true ∧
    encode (decSchema (.struct_ b e fields)) (.tuple (projectDe fields vs)) = bs := by
  obtain ⟨_, hd, _⟩ := decoded_live_part b e fields bs vs hb h
  refine ⟨?_, C02.canonical _ _ _ hs hd⟩
  have := C02.decode_wellTyped _ _ _ hs hd
  rw [decSchema_container b e fields hb] at this
  simpa only [hasType, liveDe] using this

/-- if moreover the skip attributes agree, the generated encoder maps the decoded struct back to
    the input bytes -/
theorem decoded_reencodes (b : Option StructBeh) (e : Bool) (fields : List Field) (bs : Bytes)
    (vs : List Val) (hb : b ≠ some .transparent) (hag : ∀ f ∈ fields, f.skipSer = f.skipDe)
    (hs : (decSchema (.struct_ b e fields)).strict = true)
    (h : genDecode (.struct_ b e fields) bs = .ok (.tuple vs)) :
    genEncode (.struct_ b e fields) (.tuple vs) = bs := by
  rw [genEncode_container b e fields vs hb, schemas_agree (.struct_ b e fields) hag,
    projectSer_eq_projectDe fields vs hag]
  exact (decoded_canonical b e fields bs vs hb hs h).2

/-- **transparent structs.** The decoder is the live field's decoder; the other fields default. -/
theorem derive_decode_transparent (e : Bool) (fields : List Field) (bs : Bytes) (v : Val)
    (hacc : accepts (.struct_ (some .transparent) e fields) = true)
    (h : genDecode (.struct_ (some .transparent) e fields) bs = .ok v) :
    ∃ f x, liveDe fields = [f] ∧ decode f.ty bs = .ok x ∧ v = .tuple (fillDefaults fields [x]) ∧
      (fillDefaults fields [x]).length = fields.length ∧ projectDe fields (fillDefaults fields [x]) = [x] ∧
      ∀ (i : Nat) (g : Field), fields[i]? = some g → g.skipDe = true → (fillDefaults fields [x])[i]? = some g.ty.default := by
  obtain ⟨f, hlive, _, hdec⟩ := transparent_schema e fields hacc
  rw [derive_decode, hdec] at h
  obtain ⟨x, hx, rfl⟩ := (res_map_ok_iff _ _ _).mp h
  have hlen : [x].length = (liveDe fields).length := by simp [hlive]
  exact ⟨f, x, hlive, hx, fill_transparent e fields x, fillDefaults_length fields [x] hlen,
    projectDe_fillDefaults fields [x] hlen, fun i g hi hs => fillDefaults_skipped fields [x] i g hlen hi hs⟩

theorem derive_decode_transparent_complete (e : Bool) (fields : List Field) (bs : Bytes) (x : Val)
    (h : decode (decSchema (.struct_ (some .transparent) e fields)) bs = .ok x) :
    genDecode (.struct_ (some .transparent) e fields) bs = .ok (.tuple (fillDefaults fields [x])) := by
  rw [derive_decode, h, Res.map_ok, fill_transparent]

/-- **enums.** The decoder is the schema's decoder. -/
theorem derive_decode_enum (b : Option EnumBeh) (s : Bool) (variants : List Variant) (bs : Bytes) :
    genDecode (.enum_ b s variants) bs = decode (decSchema (.enum_ b s variants)) bs := rfl

/-! ## 6. round trip -/

/-- **containers.** When the skip attributes agree, decoding an encoding returns the original with
    the skipped fields replaced by their defaults. -/
theorem derive_roundtrip (b : Option StructBeh) (e : Bool) (fields : List Field) (vs : List Val)
    (hb : b ≠ some .transparent) (hag : ∀ f ∈ fields, f.skipSer = f.skipDe)
    (hwf : (encSchema (.struct_ b e fields)).wf = true) (hrt : (encSchema (.struct_ b e fields)).rt = true)
    (ht : hasTypes ((liveSer fields).map (·.ty)) (projectSer fields vs) = true)
    (hl : (genEncode (.struct_ b e fields) (.tuple vs)).length < 2^32) :
    genDecode (.struct_ b e fields) (genEncode (.struct_ b e fields) (.tuple vs)) =
      .ok (.tuple (fillDefaults fields (projectDe fields vs))) := by
  have hty : hasType (encSchema (.struct_ b e fields)) (.tuple (projectSer fields vs)) = true := by
    rw [encSchema_container b e fields hb]
    simpa only [hasType, liveSer] using ht
  rw [genEncode_container b e fields vs hb] at hl ⊢
  have hrt' := C01.roundtrip _ _ hwf hrt hty hl
  rw [derive_decode, ← schemas_agree (.struct_ b e fields) hag, hrt', Res.map_ok,
    fill_container b e fields _ hb, projectSer_eq_projectDe fields vs hag]

/-- without skipped fields the round trip is the identity -/
theorem derive_roundtrip_noskip (b : Option StructBeh) (e : Bool) (fields : List Field) (vs : List Val)
    (hb : b ≠ some .transparent) (hns : ∀ f ∈ fields, f.skipSer = false ∧ f.skipDe = false)
    (hlen : vs.length = fields.length)
    (hwf : (encSchema (.struct_ b e fields)).wf = true) (hrt : (encSchema (.struct_ b e fields)).rt = true)
    (ht : hasTypes ((liveSer fields).map (·.ty)) (projectSer fields vs) = true)
    (hl : (genEncode (.struct_ b e fields) (.tuple vs)).length < 2^32) :
    genDecode (.struct_ b e fields) (genEncode (.struct_ b e fields) (.tuple vs)) = .ok (.tuple vs) := by
  rw [derive_roundtrip b e fields vs hb (fun f hf => by rw [(hns f hf).1, (hns f hf).2]) hwf hrt ht hl]
  have h := fillDefaults_noskip fields vs (fun f hf => (hns f hf).2) hlen
  rw [h.2, h.1]

/-- the round trip loses exactly the skipped fields: a second round trip changes nothing more -/
theorem derive_roundtrip_live (fields : List Field) (vs : List Val) (hlen : vs.length = fields.length) :
    projectDe fields (fillDefaults fields (projectDe fields vs)) = projectDe fields vs :=
  projectDe_fillDefaults fields _ (projectDe_length fields vs hlen)

/-- **transparent structs.** -/
theorem derive_roundtrip_transparent (e : Bool) (fields : List Field) (vs : List Val) (x : Val)
    (hx : projectDe fields vs = [x])
    (hwf : (encSchema (.struct_ (some .transparent) e fields)).wf = true)
    (hrt : (encSchema (.struct_ (some .transparent) e fields)).rt = true)
    (ht : hasType (encSchema (.struct_ (some .transparent) e fields)) x = true)
    (hl : (genEncode (.struct_ (some .transparent) e fields) (.tuple vs)).length < 2^32) :
    genDecode (.struct_ (some .transparent) e fields)
        (genEncode (.struct_ (some .transparent) e fields) (.tuple vs)) =
      .ok (.tuple (fillDefaults fields (projectDe fields vs))) := by
  rw [genEncode_transparent e fields vs x hx] at hl ⊢
  have hrt' := C01.roundtrip _ _ hwf hrt ht hl
  have hsch : decSchema (.struct_ (some .transparent) e fields) =
      encSchema (.struct_ (some .transparent) e fields) := rfl
  rw [derive_decode, hsch, hrt', Res.map_ok, fill_transparent, hx]

/-- **enums** (union and tag behaviours; transparent enums are outside `Ty.rt`). -/
theorem derive_roundtrip_enum (b : Option EnumBeh) (s : Bool) (variants : List Variant) (v : Val)
    (hwf : (encSchema (.enum_ b s variants)).wf = true) (hrt : (encSchema (.enum_ b s variants)).rt = true)
    (ht : hasType (encSchema (.enum_ b s variants)) v = true)
    (hl : (genEncode (.enum_ b s variants) v).length < 2^32) :
    genDecode (.enum_ b s variants) (genEncode (.enum_ b s variants) v) = .ok v := by
  rw [genEncode_enum] at hl ⊢
  rw [derive_decode_enum, ← schemas_agree (.enum_ b s variants) trivial]
  exact C01.roundtrip _ _ hwf hrt ht hl

/-- the schema of an accepted union is well formed as soon as the variant types are -/
theorem union_schema_wf (s : Bool) (variants : List Variant)
    (hacc : accepts (.enum_ (some .union) s variants) = true)
    (hw : ∀ v ∈ variants, (variantTy v).wf = true) :
    (encSchema (.enum_ (some .union) s variants)).wf = true := by
  have h := (accepts_iff _).mp hacc
  simp only [HasSszMeaning] at h
  simp only [encSchema, Ty.wf, Bool.and_eq_true, decide_eq_true_eq, List.length_map]
  refine ⟨⟨(wfAll_iff _).mpr ?_, h.2.2.1⟩, h.2.2.2⟩
  intro t ht
  obtain ⟨v, hv, rfl⟩ := List.mem_map.mp ht
  exact hw v hv

theorem union_schema_rt (s : Bool) (variants : List Variant)
    (hr : ∀ v ∈ variants, (variantTy v).rt = true) :
    (encSchema (.enum_ (some .union) s variants)).rt = true := by
  simp only [encSchema, Ty.rt]
  refine (rtAll_iff _).mpr ?_
  intro t ht
  obtain ⟨v, hv, rfl⟩ := List.mem_map.mp ht
  exact hr v hv

/-- the schema of an accepted tag enum is well formed and in the round-trip fragment -/
theorem tag_schema_wf (s : Bool) (variants : List Variant)
    (hacc : accepts (.enum_ (some .tag) s variants) = true) :
    (encSchema (.enum_ (some .tag) s variants)).wf = true ∧
    (encSchema (.enum_ (some .tag) s variants)).rt = true := by
  have h := (accepts_iff _).mp hacc
  simp only [HasSszMeaning] at h
  simp [encSchema, Ty.wf, Ty.rt, h.2.2.1, h.2.2.2]

/-- accepted union: variant `i` with a well-typed value comes back unchanged -/
theorem derive_roundtrip_union (s : Bool) (variants : List Variant) (i : Nat) (var : Variant) (x : Val)
    (hacc : accepts (.enum_ (some .union) s variants) = true)
    (hw : ∀ v ∈ variants, (variantTy v).wf = true) (hr : ∀ v ∈ variants, (variantTy v).rt = true)
    (hi : variants[i]? = some var) (ht : hasType (variantTy var) x = true)
    (hl : (encode (variantTy var) x).length + 1 < 2^32) :
    genDecode (.enum_ (some .union) s variants) (genEncode (.enum_ (some .union) s variants) (.union i x)) =
      .ok (.union i x) := by
  have hget := variantTy_getElem variants i var hi
  refine derive_roundtrip_enum _ s variants _ (union_schema_wf s variants hacc hw)
    (union_schema_rt s variants hr) ?_ ?_
  · simp only [encSchema, hasType]
    rw [hasTypeNth_get _ i _ x hget]; exact ht
  · rw [genEncode_enum]
    simp only [encSchema]
    rw [C15.encode_union _ i x _ hget]
    simpa using hl

/-- accepted tag enum: every declared variant comes back unchanged -/
theorem derive_roundtrip_tag (s : Bool) (variants : List Variant) (i : Nat)
    (hacc : accepts (.enum_ (some .tag) s variants) = true) (hi : i < variants.length) :
    genDecode (.enum_ (some .tag) s variants) (genEncode (.enum_ (some .tag) s variants) (.tag i)) =
      .ok (.tag i) := by
  obtain ⟨hwf, hrt⟩ := tag_schema_wf s variants hacc
  refine derive_roundtrip_enum _ s variants _ hwf hrt ?_ ?_
  · simpa [encSchema, hasType] using hi
  · simp [genEncode_enum, encSchema, encode, sszAppend]

/-! ## 7. selectors are declaration indices -/

/-- union encoder: the byte `i`, then variant `i`'s value -/
theorem union_encode (s : Bool) (variants : List Variant) (i : Nat) (var : Variant) (v : Val)
    (hi : variants[i]? = some var) :
    genEncode (.enum_ (some .union) s variants) (.union i v) =
      UInt8.ofNat i :: encode (variantTy var) v := by
  rw [genEncode_enum]
  exact C15.encode_union _ i v _ (variantTy_getElem variants i var hi)

/-- ... and in an accepted definition that byte's value is `i` itself (no wrap-around) -/
theorem union_selector_byte (s : Bool) (variants : List Variant) (i : Nat)
    (hacc : accepts (.enum_ (some .union) s variants) = true) (hi : i < variants.length) :
    (UInt8.ofNat i).toNat = i ∧ i ≤ 127 := by
  have h := (accepts_iff _).mp hacc
  simp only [HasSszMeaning] at h
  exact ⟨ofNat_toNat_small i (by omega), by omega⟩

/-- reference form: selector byte, then the reference serialization of the variant's value -/
theorem union_encode_spec (s : Bool) (variants : List Variant) (i : Nat) (var : Variant) (v : Val)
    (hi : variants[i]? = some var) :
    Spec.ser (encSchema (.enum_ (some .union) s variants)) (.union i v) =
      UInt8.ofNat i :: Spec.ser (variantTy var) v := by
  simp only [encSchema, Spec.ser]
  rw [serNth_get _ i _ v (variantTy_getElem variants i var hi)]

/-- union decoder, completely: selector above 127 or not naming a variant → `Err`; otherwise the
    named variant's decoder on the rest -/
theorem union_decode (s : Bool) (variants : List Variant) (sel : UInt8) (body : Bytes) :
    genDecode (.enum_ (some .union) s variants) (sel :: body) =
      if sel.toNat ≤ 127 then
        match variants[sel.toNat]? with
        | some var => (decode (variantTy var) body).map (.union sel.toNat)
        | none => .err
      else .err := by
  rw [derive_decode_enum]
  simp only [decSchema, decode, C15.split_cons]
  by_cases h : sel.toNat ≤ 127
  · simp only [h, if_true]
    rw [decodeNth_eq, List.getElem?_map]
    cases variants[sel.toNat]? <;> rfl
  · simp only [h, if_false]

theorem union_decode_empty (s : Bool) (variants : List Variant) :
    genDecode (.enum_ (some .union) s variants) [] = .err := by
  rw [derive_decode_enum]
  exact C15.decode_union_empty _

/-- an accepted selector names a declared variant and is at most 127 -/
theorem union_decode_selector (s : Bool) (variants : List Variant) (sel : UInt8) (body : Bytes) (v : Val)
    (h : genDecode (.enum_ (some .union) s variants) (sel :: body) = .ok v) :
    sel.toNat < variants.length ∧ sel.toNat ≤ 127 := by
  rw [derive_decode_enum] at h
  simpa [decSchema] using C15.decode_union_selector _ sel body v h

/-- ... and the result is that variant, decoded from the remaining bytes -/
theorem union_decode_value (s : Bool) (variants : List Variant) (sel : UInt8) (body : Bytes) (v : Val)
    (h : genDecode (.enum_ (some .union) s variants) (sel :: body) = .ok v) :
    ∃ var x, variants[sel.toNat]? = some var ∧ decode (variantTy var) body = .ok x ∧
      v = .union sel.toNat x := by
  rw [derive_decode_enum] at h
  obtain ⟨t, x, ht, hd, hv⟩ := C15.decode_union_value _ sel body v h
  rw [List.getElem?_map] at ht
  cases hvar : variants[sel.toNat]? with
  | none => rw [hvar] at ht; cases ht
  | some var =>
    rw [hvar] at ht
    simp only [Option.map_some, Option.some.injEq] at ht
    subst ht
    exact ⟨var, x, rfl, hd, hv⟩

/-- tag encoder: the single byte `i` -/
theorem tag_encode (s : Bool) (variants : List Variant) (i : Nat) :
    genEncode (.enum_ (some .tag) s variants) (.tag i) = [UInt8.ofNat i] := by
  simp [genEncode_enum, encSchema, encode, sszAppend]

theorem tag_selector_byte (s : Bool) (variants : List Variant) (i : Nat)
    (hacc : accepts (.enum_ (some .tag) s variants) = true) (hi : i < variants.length) :
    (UInt8.ofNat i).toNat = i := by
  have h := (accepts_iff _).mp hacc
  simp only [HasSszMeaning] at h
  exact ofNat_toNat_small i (by omega)

/-- tag decoder: accepts exactly the one-byte inputs below the number of variants -/
theorem tag_decode_iff (s : Bool) (variants : List Variant) (bs : Bytes) (v : Val) :
    genDecode (.enum_ (some .tag) s variants) bs = .ok v ↔
      ∃ sel : UInt8, bs = [sel] ∧ sel.toNat < variants.length ∧ v = .tag sel.toNat := by
  rw [derive_decode_enum]
  simp only [decSchema]
  match bs with
  | [] => simp [decode]
  | [x] =>
    by_cases h : x.toNat < variants.length
    · simp [decode, h, eq_comm]
    · simp [decode, h]
  | _ :: _ :: _ => simp [decode]

theorem tag_decode_err (s : Bool) (variants : List Variant) (bs : Bytes)
    (h : ∀ sel : UInt8, bs = [sel] → variants.length ≤ sel.toNat) :
    genDecode (.enum_ (some .tag) s variants) bs = .err := by
  cases hd : genDecode (.enum_ (some .tag) s variants) bs with
  | err => rfl
  | panic => exact absurd hd (genDecode_no_panic _ _)
  | ok v =>
    obtain ⟨sel, hb, hlt, _⟩ := (tag_decode_iff s variants bs v).mp hd
    have := h sel hb
    omega

/-! ## 8. transparent enums -/

/-- encoder: the inner value's encoding, nothing else -/
theorem transparentEnum_encode (s : Bool) (variants : List Variant) (i : Nat) (var : Variant) (v : Val)
    (hi : variants[i]? = some var) :
    genEncode (.enum_ (some .transparent) s variants) (.union i v) = encode (variantTy var) v := by
  rw [genEncode_enum]
  exact C03.transparentEnum_inner _ i _ v (variantTy_getElem variants i var hi)

/-- decoder of the schema: variant `i` is returned exactly when `i`'s decoder accepts and every
    earlier variant's decoder returns `Err` -/
theorem transparentEnum_decode_iff (ts : List Ty) (b : Bytes) (w : Val) :
    decode (.transparentEnum ts) b = .ok w ↔
      ∃ i t v, ts[i]? = some t ∧ decode t b = .ok v ∧ w = .union i v ∧
        ∀ j tj, j < i → ts[j]? = some tj → decode tj b = .err := by
  simp only [decode]
  rw [decodeFirst_ok_iff]
  simp only [Nat.zero_add]

theorem transparentEnum_decode (ts : List Ty) (b : Bytes) (i : Nat) (v : Val)
    (h : decode (.transparentEnum ts) b = .ok (.union i v)) :
    ∃ t, ts[i]? = some t ∧ decode t b = .ok v ∧ ∀ j tj, j < i → ts[j]? = some tj → decode tj b = .err := by
  obtain ⟨i', t, v', hi, hd, hw, hprev⟩ := (transparentEnum_decode_iff ts b _).mp h
  injection hw with h1 h2
  subst h1; subst h2
  exact ⟨t, hi, hd, hprev⟩

/-- the decoder only ever returns `.union i v` values -/
theorem transparentEnum_decode_shape (ts : List Ty) (b : Bytes) (w : Val)
    (h : decode (.transparentEnum ts) b = .ok w) : ∃ i v, w = .union i v := by
  obtain ⟨i, _, v, _, _, hw, _⟩ := (transparentEnum_decode_iff ts b w).mp h
  exact ⟨i, v, hw⟩

/-- the derived decoder of a transparent enum, on the declaration -/
theorem derive_decode_transparentEnum (s : Bool) (variants : List Variant) (bs : Bytes) (w : Val) :
    genDecode (.enum_ (some .transparent) s variants) bs = .ok w ↔
      ∃ i var v, variants[i]? = some var ∧ decode (variantTy var) bs = .ok v ∧ w = .union i v ∧
        ∀ j vj, j < i → variants[j]? = some vj → decode (variantTy vj) bs = .err := by
  rw [derive_decode_enum]
  simp only [decSchema]
  rw [transparentEnum_decode_iff]
  constructor
  · rintro ⟨i, t, v, hi, hd, hw, hprev⟩
    rw [List.getElem?_map] at hi
    cases hvar : variants[i]? with
    | none => rw [hvar] at hi; cases hi
    | some var =>
      rw [hvar] at hi
      simp only [Option.map_some, Option.some.injEq] at hi
      subst hi
      exact ⟨i, var, v, hvar, hd, hw, fun j vj hj hvj => hprev j _ hj (variantTy_getElem variants j vj hvj)⟩
  · rintro ⟨i, var, v, hi, hd, hw, hprev⟩
    refine ⟨i, variantTy var, v, variantTy_getElem variants i var hi, hd, hw, ?_⟩
    intro j tj hj htj
    rw [List.getElem?_map] at htj
    cases hvar : variants[j]? with
    | none => rw [hvar] at htj; cases htj
    | some vj =>
      rw [hvar] at htj
      simp only [Option.map_some, Option.some.injEq] at htj
      subst htj
      exact hprev j vj hj hvar

/-- why transparent enums are outside the round-trip property: an earlier variant may accept the
    bytes of a later one -/
example :
    let d : Def := .enum_ (some .transparent) false [{ fields := [.byteList] }, { fields := [.list .vec (.uint 1)] }]
    accepts d = true ∧ genEncode d (.union 1 (.list [.uint 7])) = [7] ∧
      genDecode d [7] = .ok (.union 0 (.bytes [7])) := by
  refine ⟨by decide, ?_, ?_⟩
  · simp [genEncode, encSchema, variantTy, encode, sszAppend, appendNth, appendAll, Ty.isFixed, le]
  · simp [genDecode, decSchema, variantTy, decode, decodeFirst]

/-! ## 9. size metadata of derived definitions -/

/-- a derived container is fixed-size iff all its live fields are -/
theorem container_isFixed (b : Option StructBeh) (e : Bool) (fields : List Field)
    (hb : b ≠ some .transparent) :
    (encSchema (.struct_ b e fields)).isFixed = (liveSer fields).all (·.ty.isFixed) ∧
    (decSchema (.struct_ b e fields)).isFixed = (liveDe fields).all (·.ty.isFixed) := by
  rw [encSchema_container b e fields hb, decSchema_container b e fields hb]
  simp [Ty.isFixed, allFixed_eq_all, liveSer, liveDe, List.all_map, Function.comp_def]

/-- ... its fixed length is then the sum of the live fields' fixed lengths -/
theorem container_fixedLen (b : Option StructBeh) (e : Bool) (fields : List Field)
    (hb : b ≠ some .transparent) (hf : (encSchema (.struct_ b e fields)).isFixed = true) :
    (encSchema (.struct_ b e fields)).fixedLen = ((liveSer fields).map (·.ty.fixedLen)).sum := by
  rw [encSchema_container b e fields hb] at hf ⊢
  simp only [Ty.isFixed] at hf
  simp [Ty.fixedLen, hf, sumFixedLen_eq_sum, liveSer, Function.comp_def]

theorem container_fixedLen_dec (b : Option StructBeh) (e : Bool) (fields : List Field)
    (hb : b ≠ some .transparent) (hf : (decSchema (.struct_ b e fields)).isFixed = true) :
    (decSchema (.struct_ b e fields)).fixedLen = ((liveDe fields).map (·.ty.fixedLen)).sum := by
  rw [decSchema_container b e fields hb] at hf ⊢
  simp only [Ty.isFixed] at hf
  simp [Ty.fixedLen, hf, sumFixedLen_eq_sum, liveDe, Function.comp_def]

/-- ... and one offset word when some live field is variable-size -/
theorem container_fixedLen_variable (b : Option StructBeh) (e : Bool) (fields : List Field)
    (hf : (encSchema (.struct_ b e fields)).isFixed = false) :
    (encSchema (.struct_ b e fields)).fixedLen = 4 :=
  C07.variable_fixedLen _ hf

/-- a struct all of whose fields are skipped (in particular the empty struct) is fixed-size of
    length 0 -/
theorem all_skipped_metadata (b : Option StructBeh) (e : Bool) (fields : List Field)
    (hb : b ≠ some .transparent) (hall : ∀ f ∈ fields, f.skipSer = true) :
    encSchema (.struct_ b e fields) = .container [] ∧
    (encSchema (.struct_ b e fields)).isFixed = true ∧ (encSchema (.struct_ b e fields)).fixedLen = 0 := by
  have : fields.filter (fun f => !f.skipSer) = [] :=
    filter_eq_nil_of_forall _ _ (fun f hf => by simp [hall f hf])
  rw [encSchema_container b e fields hb, this]
  simp [Ty.isFixed, Ty.fixedLen, allFixed, sumFixedLen]

theorem empty_struct_metadata (b : Option StructBeh) (e : Bool) (hb : b ≠ some .transparent) :
    (encSchema (.struct_ b e [])).isFixed = true ∧ (encSchema (.struct_ b e [])).fixedLen = 0 ∧
    genEncode (.struct_ b e []) (.tuple []) = [] := by
  have h := all_skipped_metadata b e [] hb (by simp)
  refine ⟨h.2.1, h.2.2, ?_⟩
  rw [genEncode_container b e [] [] hb, h.1]
  simp [projectSer, encode, sszAppend, appendFields, Enc.container, Enc.finalize, sumFixedLen]

/-- a transparent struct has the metadata of its single live field -/
theorem transparent_struct_metadata (e : Bool) (fields : List Field)
    (hacc : accepts (.struct_ (some .transparent) e fields) = true) :
    ∃ f, liveDe fields = [f] ∧
      (encSchema (.struct_ (some .transparent) e fields)).isFixed = f.ty.isFixed ∧
      (encSchema (.struct_ (some .transparent) e fields)).fixedLen = f.ty.fixedLen := by
  obtain ⟨f, h1, h2, _⟩ := transparent_schema e fields hacc
  exact ⟨f, h1, by rw [h2], by rw [h2]⟩

/-- unions and transparent enums are variable-size (one offset word in a parent container) -/
theorem union_metadata (s : Bool) (variants : List Variant) :
    (encSchema (.enum_ (some .union) s variants)).isFixed = false ∧
    (encSchema (.enum_ (some .union) s variants)).fixedLen = 4 := by
  simp [encSchema, Ty.isFixed, Ty.fixedLen]

theorem transparentEnum_metadata (s : Bool) (variants : List Variant) :
    (encSchema (.enum_ (some .transparent) s variants)).isFixed = false ∧
    (encSchema (.enum_ (some .transparent) s variants)).fixedLen = 4 := by
  simp [encSchema, Ty.isFixed, Ty.fixedLen]

/-- tag enums are fixed-size of one byte -/
theorem tag_metadata (s : Bool) (variants : List Variant) :
    (encSchema (.enum_ (some .tag) s variants)).isFixed = true ∧
    (encSchema (.enum_ (some .tag) s variants)).fixedLen = 1 := by
  simp [encSchema, Ty.isFixed, Ty.fixedLen]

/-- the metadata is truthful: a fixed-size derived container always encodes to its fixed length -/
theorem derived_fixed_length (b : Option StructBeh) (e : Bool) (fields : List Field) (vs : List Val)
    (hb : b ≠ some .transparent) (hf : (encSchema (.struct_ b e fields)).isFixed = true)
    (ht : hasTypes ((liveSer fields).map (·.ty)) (projectSer fields vs) = true) :
    (genEncode (.struct_ b e fields) (.tuple vs)).length = (encSchema (.struct_ b e fields)).fixedLen := by
  rw [genEncode_container b e fields vs hb]
  refine C07.fixed_len_exact _ _ hf ?_
  rw [encSchema_container b e fields hb]
  simpa only [hasType, liveSer] using ht

/-- ... and a fixed-size derived decoder accepts only inputs of its fixed length -/
theorem derived_fixed_decode_len (d : Def) (bs : Bytes) (v : Val) (hf : (decSchema d).isFixed = true)
    (h : genDecode d bs = .ok v) : bs.length = (decSchema d).fixedLen := by
  rw [derive_decode] at h
  obtain ⟨w, hw, _⟩ := (res_map_ok_iff _ _ _).mp h
  exact C07.fixed_decode_len _ _ _ hf hw

/-! ## 10. worked examples -/

section Examples

/-- `struct A { a: Vec<u8>, #[ssz(skip_serializing, skip_deserializing)] cache: u64, b: Bytes }` -/
def exContainer : Def :=
  .struct_ none false
    [{ ty := .list .vec (.uint 1) }, { ty := .uint 8, skipSer := true, skipDe := true, attrs := 1 }, { ty := .byteList }]

def exContainerVal : List Val := [.list [.uint 1, .uint 2], .uint 99, .bytes [7]]

example : accepts exContainer = true := by decide
example : HasSszMeaning exContainer := (accepts_iff _).mp (by decide)
example : encSchema exContainer = .container [.list .vec (.uint 1), .byteList] := rfl
example : decSchema exContainer = .container [.list .vec (.uint 1), .byteList] := rfl
example : skipsAgree exContainer := by simp [skipsAgree, exContainer]

/-- the bytes: two offsets (8 and 10), then the two variable parts; the skipped `99` is absent -/
theorem exContainer_bytes :
    genEncode exContainer (.tuple exContainerVal) = [8, 0, 0, 0, 10, 0, 0, 0, 1, 2, 7] := by
  simp [exContainer, exContainerVal, genEncode, encSchema, liveSer, projectSer, encode, sszAppend,
    appendFields, appendAll, Enc.container, Enc.appendWith, Enc.finalize, Ty.isFixed, sumFixedLen,
    Ty.fixedLen, le, encodeLength]

/-- ... equal to the reference serialization of the schema (instance of `derive_encode_of_length`) -/
example : genEncode exContainer (.tuple exContainerVal) =
    Spec.ser (.container [.list .vec (.uint 1), .byteList]) (.tuple [.list [.uint 1, .uint 2], .bytes [7]]) := by
  refine derive_encode_of_length none false _ exContainerVal (by simp) ?_ ?_
  · simp [exContainerVal, liveSer, projectSer, hasTypes, hasType, hasTypeAll]
  · have := exContainer_bytes
    unfold exContainer at this
    rw [this]; decide

/-- ... and decoding it gives the original with the skipped field defaulted (instance of
    `derive_roundtrip`) -/
example : genDecode exContainer (genEncode exContainer (.tuple exContainerVal)) =
    .ok (.tuple [.list [.uint 1, .uint 2], .uint 0, .bytes [7]]) := by
  have h := derive_roundtrip none false
    [{ ty := .list .vec (.uint 1) }, { ty := .uint 8, skipSer := true, skipDe := true, attrs := 1 }, { ty := .byteList }]
    exContainerVal (by simp) (by simp)
    (by simp [encSchema, liveSer, Ty.wf, wfAll])
    (by simp [encSchema, liveSer, Ty.rt, rtAll, keyTyOk, Ty.isFixed, Ty.fixedLen])
    (by simp [exContainerVal, liveSer, projectSer, hasTypes, hasType, hasTypeAll])
    (by have := exContainer_bytes
        unfold exContainer at this
        rw [this]; decide)
  simpa [exContainer, exContainerVal, projectDe, fillDefaults, Ty.default] using h

/-- changing the skipped field's value does not change the bytes -/
example (w : Val) : genEncode exContainer (.tuple [.list [.uint 1, .uint 2], w, .bytes [7]]) =
    genEncode exContainer (.tuple exContainerVal) :=
  skipped_fields_ignored none false _ _ _ (by simp) (by simp [exContainerVal, projectSer])

/-- `struct W(#[ssz(skip_serializing, skip_deserializing)] u8, Bytes)` with
    `#[ssz(struct_behaviour = "transparent")]` -/
def exWrapper : Def :=
  .struct_ (some .transparent) false
    [{ ty := .uint 1, named := false, skipSer := true, skipDe := true, attrs := 1 }, { ty := .byteList, named := false }]

example : accepts exWrapper = true := by decide
example : encSchema exWrapper = .byteList ∧ decSchema exWrapper = .byteList := ⟨rfl, rfl⟩
example : genEncode exWrapper (.tuple [.uint 99, .bytes [42]]) = [42] := by
  simp [exWrapper, genEncode, projectDe, encSchema, liveDe, encode, sszAppend]
example : genEncode exWrapper (.tuple [.uint 99, .bytes [42]]) = Spec.ser .byteList (.bytes [42]) :=
  derive_encode_transparent_decl false [{ ty := .uint 1, named := false, skipSer := true, skipDe := true, attrs := 1 }] []
    { ty := .byteList, named := false } [.uint 99] [] (.bytes [42]) rfl (by simp) (by simp) rfl
    (by simp [hasType]) (by simp [Spec.ser])
example : genDecode exWrapper [42] = .ok (.tuple [.uint 0, .bytes [42]]) := by
  simp [exWrapper, genDecode, decSchema, liveDe, decode, fillDefaults, Ty.default]
example : genDecode exWrapper (genEncode exWrapper (.tuple [.uint 99, .bytes [42]])) =
    .ok (.tuple [.uint 0, .bytes [42]]) := by
  have h := derive_roundtrip_transparent false
    [{ ty := .uint 1, named := false, skipSer := true, skipDe := true, attrs := 1 }, { ty := .byteList, named := false }]
    [.uint 99, .bytes [42]] (.bytes [42]) (by simp [projectDe])
    (by simp [encSchema, liveDe, Ty.wf]) (by simp [encSchema, liveDe, Ty.rt])
    (by simp [encSchema, liveDe, hasType])
    (by simp [genEncode, projectDe, encSchema, liveDe, encode, sszAppend])
  simpa [exWrapper, projectDe, fillDefaults, Ty.default] using h

/-- `enum U { A(u8), B(Vec<u16>), C(bool) }` with `#[ssz(enum_behaviour = "union")]` -/
def exUnion : Def :=
  .enum_ (some .union) false [{ fields := [.uint 1] }, { fields := [.list .vec (.uint 2)] }, { fields := [.bool] }]

example : accepts exUnion = true := by decide
example : encSchema exUnion = .union [.uint 1, .list .vec (.uint 2), .bool] := rfl
example : genEncode exUnion (.union 1 (.list [.uint 300])) = [1, 44, 1] := by
  rw [exUnion, union_encode false _ 1 { fields := [.list .vec (.uint 2)] } _ (by simp)]
  simp [variantTy, encode, sszAppend, appendAll, Ty.isFixed, le]
example : genDecode exUnion (genEncode exUnion (.union 1 (.list [.uint 300]))) = .ok (.union 1 (.list [.uint 300])) :=
  derive_roundtrip_union false _ 1 { fields := [.list .vec (.uint 2)] } _ (by decide)
    (by intro v hv; simp at hv; rcases hv with rfl | rfl | rfl <;> simp [variantTy, Ty.wf])
    (by intro v hv; simp at hv
        rcases hv with rfl | rfl | rfl <;> simp [variantTy, Ty.rt, keyTyOk, Ty.isFixed, Ty.fixedLen])
    (by simp) (by simp [variantTy, hasType, hasTypeAll])
    (by simp [variantTy, encode, sszAppend, appendAll, Ty.isFixed, le])
/-- selector 3 names no variant, selector 128 is reserved -/
example (body : Bytes) : genDecode exUnion (3 :: body) = .err := by
  rw [exUnion, union_decode]; simp
example (body : Bytes) : genDecode exUnion (128 :: body) = .err := by
  rw [exUnion, union_decode]; simp

/-- `enum T { A, B, C }` with `#[ssz(enum_behaviour = "tag")]` -/
def exTag : Def := .enum_ (some .tag) false [{ fields := [] }, { fields := [] }, { fields := [] }]

example : accepts exTag = true := by decide
example : genEncode exTag (.tag 2) = [2] := tag_encode _ _ 2
example : genDecode exTag [2] = .ok (.tag 2) := (tag_decode_iff _ _ _ _).mpr ⟨2, rfl, by decide, rfl⟩
example : genDecode exTag [3] = .err := tag_decode_err _ _ _ (by intro sel h; simp at h; subst h; decide)
example : genDecode exTag [] = .err := tag_decode_err _ _ _ (by intro sel h; simp at h)

end Examples

/-! ## 11. defaults of skipped fields are values of the field's type -/

mutual
/-- types whose Rust counterpart has a `Default` the model knows: everything except `NonZeroUsize`
    (no `Default`), unions / transparent enums over nothing, and tag enums without variants -/
def defaultable : Ty → Bool
  | .nonZeroUsize => false
  | .tagEnum n => 0 < n
  | .tuple ts => defaultableAll ts
  | .container ts => defaultableAll ts
  | .union ts => (match ts with | t :: _ => defaultable t | [] => false)
  | .transparentEnum ts => (match ts with | t :: _ => defaultable t | [] => false)
  | .bitvectorDyn => false      -- `Bitfield<Dynamic>` has no `Default` either
  | _ => true
def defaultableAll : List Ty → Bool
  | [] => true
  | t :: ts => defaultable t && defaultableAll ts
end

mutual
/-- the value a skipped field is initialised with is a well-typed value of the field's schema, so a decoded
    struct is well typed in all its fields, not only the live ones -/
theorem default_hasType : ∀ (t : Ty), defaultable t = true → hasType t t.default = true
  | .uint k, _ => by simp [Ty.default, hasType]; exact Nat.pow_pos (by decide)
  | .bool, _ => by simp [Ty.default, hasType]
  | .nonZeroUsize, h => by simp [defaultable] at h
  | .bytesN n, _ => by simp [Ty.default, hasType]
  | .byteList, _ => by simp [Ty.default, hasType]
  | .list c t, _ => by simp [Ty.default, hasType, hasTypeAll, sortedBy]
  | .option t, _ => by simp [Ty.default, hasType]
  | .legacyOption t, _ => by simp [Ty.default, hasType]
  | .tuple ts, h => by
      simp only [defaultable] at h
      simp only [Ty.default, hasType]
      exact defaults_hasTypes ts h
  | .container ts, h => by
      simp only [defaultable] at h
      simp only [Ty.default, hasType]
      exact defaults_hasTypes ts h
  | .union [], h => by simp [defaultable] at h
  | .union (t :: ts), h => by
      simp only [defaultable] at h
      simp only [Ty.default, hasType, hasTypeNth]
      exact default_hasType t h
  | .tagEnum n, h => by
      simp only [defaultable, decide_eq_true_eq] at h
      simp [Ty.default, hasType, h]
  | .transparentEnum [], h => by simp [defaultable] at h
  | .transparentEnum (t :: ts), h => by
      simp only [defaultable] at h
      simp only [Ty.default, hasType, hasTypeNth]
      exact default_hasType t h
  | .bitvector n, _ => by simp [Ty.default, hasType]
  | .bitlist n, _ => by simp [Ty.default, hasType]
  | .bitvectorDyn, h => by simp [defaultable] at h
theorem defaults_hasTypes : ∀ (ts : List Ty), defaultableAll ts = true → hasTypes ts (defaults ts) = true
  | [], _ => by simp [defaults, hasTypes]
  | t :: ts, h => by
      simp only [defaultableAll, Bool.and_eq_true] at h
      simp only [defaults, hasTypes, Bool.and_eq_true]
      exact ⟨default_hasType t h.1, defaults_hasTypes ts h.2⟩
end

end Ssz.C08
