import SszModel.Serde
import SszProofs.Lemmas.BitOps
import SszProofs.C14
set_option linter.unusedSimpArgs false
set_option linter.unusedVariables false
/-
  C13 — a bitlist with capacity N never holds more than N bits, a bitvector of size N always exactly
  N, a dynamic bitvector always a positive multiple of 8 bits, whichever way it is obtained:
  constructors, byte-level constructors, SSZ or serde decoding, set operations, resizing. A request
  beyond the bound fails with an error instead of truncating or growing, and resizing a bitlist to
  a capacity at least as large preserves exactly its set bits while resizing to a smaller capacity
  fails.
-/
namespace Ssz.C13
open Ssz Ssz.BC Ssz.Ops

/-- a valid value of behaviour `k`: well-formed bytes and a length obeying the behaviour's rule -/
def Valid (k : BKind) (bf : BF) : Prop := bf.Inv ∧ k.lenOk bf.len = true

/-- what the rule says per behaviour -/
theorem valid_bitlist (N : Nat) (bf : BF) : Valid (.variable N) bf ↔ bf.Inv ∧ bf.len ≤ N := by
  unfold Valid; rw [lenOk_variable]
theorem valid_bitvector (N : Nat) (bf : BF) : Valid (.fixed N) bf ↔ bf.Inv ∧ bf.len = N := by
  unfold Valid; rw [lenOk_fixed]
theorem valid_dynamic (bf : BF) : Valid .dynamic bf ↔ bf.Inv ∧ 0 < bf.len ∧ bf.len % 8 = 0 := by
  unfold Valid; rw [lenOk_dynamic]

/-! ### every way of obtaining a value yields a valid one -/

/-- `with_capacity(n)` / `new()` / `new(n)` -/
theorem newOf_valid (k : BKind) (n : Nat) (bf : BF) (h : newOf k n = some bf) : Valid k bf :=
  ⟨(newOf_spec k n bf h).1, (newOf_spec k n bf h).2.1⟩

/-- construction from a bit string by `set`: succeeds exactly for admissible lengths, and then
    holds exactly those bits -/
theorem ofBitsK_valid (k : BKind) (l : List Bool) (bf : BF) (h : ofBitsK k l = some bf) :
    Valid k bf ∧ bf.abs = l := by
  obtain ⟨h1, h2, h3, h4⟩ := ofBitsK_spec k l bf h
  exact ⟨⟨h2, by rw [h4]; exact h1⟩, h3⟩

theorem ofBitsK_ok_iff (k : BKind) (l : List Bool) :
    (∃ bf, ofBitsK k l = some bf) ↔ k.lenOk l.length = true := ofBitsK_some_iff k l

/-- `from_bytes` / `from_ssz_bytes` -/
theorem fromBytes_valid (k : BKind) (b : Bytes) (bf : BF) (h : BF.fromBytes k b = .ok bf) :
    Valid k bf :=
  ⟨(fromBytes_sound k b bf h).1, (fromBytes_sound k b bf h).2.1⟩

/-- `BitVectorDynamic::from_bytes_with_len` -/
theorem fromBytesWithLen_valid (b : Bytes) (n : Nat) (bf : BF) (h : BF.fromBytesWithLen b n = some bf) :
    Valid .dynamic bf ∧ bf.len = n := by
  obtain ⟨hb, hn⟩ := (C14.fromBytesWithLen_ok_iff b n).mp ⟨bf, h⟩
  obtain ⟨hv, hd⟩ := C14.fromBytesWithLen_value b n bf h
  have hs := fromBytes_sound .dynamic b bf (by show Res.ofOption (BF.decodeDyn b) = .ok bf; rw [hd]; rfl)
  refine ⟨⟨hs.1, hs.2.1⟩, ?_⟩
  rw [hv, hn]

/-- serde `Deserialize` (prefixed hex string, then `from_ssz_bytes`) -/
theorem deserialize_valid (k : BKind) (s : Bytes) (bf : BF) (h : BF.deserialize k s = .ok bf) :
    Valid k bf := by
  unfold BF.deserialize at h
  cases hd : hexDecodePrefixed s with
  | none => rw [hd] at h; cases h
  | some b => rw [hd] at h; exact fromBytes_valid k b bf h

theorem deserialize_no_panic (k : BKind) (s : Bytes) : BF.deserialize k s ≠ .panic := by
  unfold BF.deserialize
  cases hd : hexDecodePrefixed s with
  | none => intro e; cases e
  | some b => exact fromBytes_ne_panic k b

/-- `union` -/
theorem union_valid (k : BKind) (a b : BF) (ha : Valid k a) (hb : Valid k b) :
    ∃ r, unionK k a b = .ok r ∧ Valid k r := by
  obtain ⟨r, h1, h2, h3, _⟩ := unionK_spec k a b ha.1 hb.1 ha.2 hb.2
  exact ⟨r, h1, h2, h3⟩

/-- `intersection` -/
theorem intersection_valid (k : BKind) (a b : BF) (ha : Valid k a) (hb : Valid k b) :
    ∃ r, interK k a b = .ok r ∧ Valid k r := by
  obtain ⟨r, h1, h2, h3, _⟩ := interK_spec k a b ha.1 hb.1 ha.2 hb.2
  exact ⟨r, h1, h2, h3⟩

/-- `difference`: the right operand only has to be well formed -/
theorem difference_valid (k : BKind) (a b : BF) (ha : Valid k a) (hb : b.Inv) :
    Valid k (a.difference b) := by
  obtain ⟨h1, h2, _⟩ := difference_spec a b ha.1 hb
  exact ⟨h1, by rw [h2]; exact ha.2⟩

/-- `difference_inplace` -/
theorem differenceInplace_valid (k : BKind) (a b : BF) (ha : Valid k a) (hb : b.Inv) :
    Valid k (a.differenceInplace b) := difference_valid k a b ha hb

/-- `set`: succeeds exactly below `len`, keeps the length -/
theorem set_valid (k : BKind) (bf bf' : BF) (i : Nat) (v : Bool) (h : Valid k bf)
    (hs : bf.set i v = some bf') : Valid k bf' ∧ bf'.len = bf.len := by
  obtain ⟨h1, h2, _⟩ := set_inv bf bf' h.1 i v hs
  exact ⟨⟨h1, by rw [h2]; exact h.2⟩, h2⟩

/-- `shift_up`: keeps the length, never panics -/
theorem shiftUp_valid (k : BKind) (bf r : BF) (n : Nat) (h : Valid k bf) (hs : bf.shiftUp n = .ok r) :
    Valid k r ∧ r.len = bf.len := by
  have hn : n ≤ bf.len := by
    apply Classical.byContradiction
    intro hc
    rw [shiftUp_err bf n (by omega)] at hs; cases hs
  obtain ⟨r', h1, h2, h3, _⟩ := shiftUp_ok bf h.1 n hn
  rw [h1] at hs; injection hs with hs; subst hs
  exact ⟨⟨h2, by rw [h3]; exact h.2⟩, h3⟩

theorem shiftUp_no_panic (bf : BF) (n : Nat) (h : bf.Inv) : bf.shiftUp n ≠ .panic := by
  by_cases hn : n ≤ bf.len
  · obtain ⟨r, h1, _⟩ := shiftUp_ok bf h n hn
    rw [h1]; intro e; cases e
  · rw [shiftUp_err bf n (by omega)]; intro e; cases e

/-- `BitList<N>::resize::<M>()`: the result is a bitlist of capacity `M` (in fact of `M` bits) -/
theorem resize_valid (N M : Nat) (bf r : BF) (h : Valid (.variable N) bf)
    (hr : BF.resize N M bf = some r) : Valid (.variable M) r ∧ r.len = M := by
  have hN := (lenOk_variable _ _).mp h.2
  have hNM : N ≤ M := by
    apply Classical.byContradiction
    intro hc
    rw [resize_err N M bf (by omega)] at hr; cases hr
  obtain ⟨r', h1, h2, h3, _⟩ := resize_ok N M bf h.1 hN hNM
  rw [h1] at hr; injection hr with hr; subst hr
  exact ⟨⟨h2, (lenOk_variable _ _).mpr (by omega)⟩, h3⟩

/-! ### the bounds, per behaviour -/

/-- a bitlist of capacity `N` obtained from any constructor or decoder holds at most `N` bits -/
theorem bitlist_le (N : Nat) (bf : BF)
    (h : (∃ n, newOf (.variable N) n = some bf) ∨ (∃ l, ofBitsK (.variable N) l = some bf) ∨
      (∃ b, BF.fromBytes (.variable N) b = .ok bf) ∨ (∃ s, BF.deserialize (.variable N) s = .ok bf)) :
    bf.Inv ∧ bf.len ≤ N := by
  rw [← valid_bitlist]
  rcases h with ⟨n, h⟩ | ⟨l, h⟩ | ⟨b, h⟩ | ⟨s, h⟩
  · exact newOf_valid _ n bf h
  · exact (ofBitsK_valid _ l bf h).1
  · exact fromBytes_valid _ b bf h
  · exact deserialize_valid _ s bf h

/-- a bitvector of size `N` obtained from any constructor or decoder holds exactly `N` bits -/
theorem bitvector_eq (N : Nat) (bf : BF)
    (h : (∃ n, newOf (.fixed N) n = some bf) ∨ (∃ l, ofBitsK (.fixed N) l = some bf) ∨
      (∃ b, BF.fromBytes (.fixed N) b = .ok bf) ∨ (∃ s, BF.deserialize (.fixed N) s = .ok bf)) :
    bf.Inv ∧ bf.len = N := by
  rw [← valid_bitvector]
  rcases h with ⟨n, h⟩ | ⟨l, h⟩ | ⟨b, h⟩ | ⟨s, h⟩
  · exact newOf_valid _ n bf h
  · exact (ofBitsK_valid _ l bf h).1
  · exact fromBytes_valid _ b bf h
  · exact deserialize_valid _ s bf h

/-- a dynamic bitvector obtained from any constructor or decoder holds a positive multiple of 8 bits -/
theorem dynamic_mul8 (bf : BF)
    (h : (∃ n, newOf .dynamic n = some bf) ∨ (∃ l, ofBitsK .dynamic l = some bf) ∨
      (∃ b, BF.fromBytes .dynamic b = .ok bf) ∨ (∃ s, BF.deserialize .dynamic s = .ok bf) ∨
      (∃ b n, BF.fromBytesWithLen b n = some bf)) :
    bf.Inv ∧ 0 < bf.len ∧ bf.len % 8 = 0 := by
  rw [← valid_dynamic]
  rcases h with ⟨n, h⟩ | ⟨l, h⟩ | ⟨b, h⟩ | ⟨s, h⟩ | ⟨b, n, h⟩
  · exact newOf_valid _ n bf h
  · exact (ofBitsK_valid _ l bf h).1
  · exact fromBytes_valid _ b bf h
  · exact deserialize_valid _ s bf h
  · exact (fromBytesWithLen_valid b n bf h).1

/-! ### a request beyond the bound is an error: no truncation, no growth -/

/-- `BitList::with_capacity(n)` fails exactly for `n > N` -/
theorem withCapacity_none (N n : Nat) : BF.withCapacity N n = none ↔ n > N :=
  withCapacity_none_iff N n

/-- and otherwise gives exactly `n` clear bits -/
theorem withCapacity_some (N n : Nat) (hn : n ≤ N) :
    ∃ bf, BF.withCapacity N n = some bf ∧ bf.Inv ∧ bf.len = n ∧ bf.abs = List.replicate n false := by
  obtain ⟨bf, h⟩ := (withCapacity_some_iff N n).mpr hn
  obtain ⟨_, h1, h2, h3⟩ := withCapacity_spec N n bf h
  exact ⟨bf, h, h1, h2, h3⟩

/-- `BitVectorDynamic::new(len)` fails exactly for 0 and non-multiples of 8 -/
theorem newDyn_none (len : Nat) : BF.newDyn len = none ↔ len = 0 ∨ len % 8 ≠ 0 :=
  newDyn_none_iff len

theorem newDyn_some (len : Nat) (h0 : 0 < len) (h8 : len % 8 = 0) :
    ∃ bf, BF.newDyn len = some bf ∧ bf.Inv ∧ bf.len = len ∧ bf.abs = List.replicate len false := by
  obtain ⟨bf, h⟩ := (newDyn_some_iff len).mpr ⟨h0, h8⟩
  obtain ⟨_, h1, h2, h3⟩ := newDyn_spec len bf h
  exact ⟨bf, h, h1, h2, h3⟩

/-- a bit string whose length breaks the rule is refused by the `set`-based constructor -/
theorem ofBitsK_none (k : BKind) (l : List Bool) (h : k.lenOk l.length = false) : ofBitsK k l = none := by
  cases ho : ofBitsK k l with
  | none => rfl
  | some bf =>
    have := (ofBitsK_some_iff k l).mp ⟨bf, ho⟩
    rw [h] at this; cases this

/-- `set` at or beyond `len` fails, whatever the capacity: a bitfield never grows by `set` -/
theorem set_beyond (bf : BF) (i : Nat) (v : Bool) (hi : bf.len ≤ i) : bf.set i v = none :=
  set_err bf i v hi

/-- `get` at or beyond `len` fails -/
theorem get_beyond (bf : BF) (i : Nat) (hi : bf.len ≤ i) : bf.get i = none := get_none bf i hi

/-- `shift_up` by more than `len` fails -/
theorem shiftUp_beyond (bf : BF) (n : Nat) (hn : bf.len < n) : bf.shiftUp n = .err :=
  shiftUp_err bf n hn

/-- `from_bytes` of a bitlist refuses a delimiter bit above position `N` -/
theorem fromBytes_delimiter_above (N : Nat) (b : Bytes) (len : Nat) (hh : highestSetBit b = some len)
    (hN : N < len) : BF.fromBytes (.variable N) b = .err := by
  show BF.fromBytesV N b = .err
  rcases fromBytesV_eval N b with ⟨he, _⟩ | ⟨len', _, _, hh', _, hle, _⟩
  · exact he
  · rw [hh] at hh'; injection hh' with hh'; omega

/-- the encoding of a well-formed bitlist with more than `N` bits is refused at capacity `N`
    (it is not truncated) -/
theorem fromBytes_too_long (N : Nat) (bf : BF) (b : Bytes) (h : bf.Inv) (hN : N < bf.len)
    (hb : bf.intoBytes (.variable N) = .ok b) : BF.fromBytes (.variable N) b = .err := by
  obtain ⟨b', hb', _, hbits⟩ := intoBytesV_spec bf h
  have : b' = b := by
    have : bf.intoBytesV = .ok b := hb
    rw [hb'] at this; injection this
  subst this
  apply fromBytes_delimiter_above N b' bf.len _ hN
  rw [highestSetBit_some_iff]
  refine ⟨by rw [hbits]; simp, fun j hj => ?_⟩
  rw [hbits, h.2 j (by omega)]
  have : j ≠ bf.len := by omega
  simp [this]

/-- whatever `from_bytes` accepts at capacity `N` has at most `N` bits, and the delimiter sits at `len` -/
theorem fromBytes_bitlist_le (N : Nat) (b : Bytes) (bf : BF) (h : BF.fromBytes (.variable N) b = .ok bf) :
    bf.len ≤ N ∧ highestSetBit b = some bf.len := by
  obtain ⟨hinv, hN, _, hbits⟩ := (fromBytesV_ok_iff N b bf).mp h
  refine ⟨hN, ?_⟩
  rw [highestSetBit_some_iff]
  refine ⟨by rw [hbits]; simp, fun j hj => ?_⟩
  rw [hbits, hinv.2 j (by omega)]
  have : j ≠ bf.len := by omega
  simp [this]

/-- `from_bytes` of a bitvector refuses every byte string that is not exactly the `N`-bit layout -/
theorem fromBytes_bitvector_len (N : Nat) (b : Bytes) (bf : BF) (h : BF.fromBytes (.fixed N) b = .ok bf) :
    bf.len = N ∧ b.length = bytesForBitLen N ∧ bf.bytes = b := by
  have h' : fromRawBytes b N = some bf := (resOfOption_ok_iff _ _).mp h
  obtain ⟨rfl, hinv⟩ := (fromRawBytes_iff _ _ _).mp h'
  exact ⟨rfl, hinv.1, rfl⟩

/-! ### resizing -/

/-- resizing a bitlist to a capacity at least as large: `M` bits, exactly the same set bits;
    to a smaller capacity: an error -/
theorem resize_correct (N M : Nat) (bf : BF) (h : Valid (.variable N) bf) :
    (N ≤ M → ∃ r, BF.resize N M bf = some r ∧ Valid (.variable M) r ∧ r.len = M ∧
      (∀ i, r.abs.getD i false = bf.abs.getD i false) ∧
      r.abs = bf.abs ++ List.replicate (M - bf.len) false ∧ r.numSetBits = bf.numSetBits) ∧
    (N > M → BF.resize N M bf = none) := by
  have hN := (lenOk_variable _ _).mp h.2
  refine ⟨fun hNM => ?_, resize_err N M bf⟩
  obtain ⟨r, h1, h2, h3, h4⟩ := resize_ok N M bf h.1 hN hNM
  have habs := resize_abs N M bf r h.1 hN h1
  refine ⟨r, h1, ⟨h2, (lenOk_variable _ _).mpr (by omega)⟩, h3, h4, habs, ?_⟩
  rw [numSetBits_eq r h2, numSetBits_eq bf h.1, habs, List.filter_append]
  have : (List.replicate (M - bf.len) false).filter id = [] := by
    apply List.filter_eq_nil_iff.mpr
    intro x hx
    rw [(List.mem_replicate.mp hx).2]; decide
  rw [this, List.append_nil]

theorem resize_none_iff (N M : Nat) (bf : BF) (h : Valid (.variable N) bf) :
    BF.resize N M bf = none ↔ N > M := by
  constructor
  · intro hn
    apply Classical.byContradiction
    intro hc
    obtain ⟨r, h1, _⟩ := (resize_correct N M bf h).1 (by omega)
    rw [h1] at hn; cases hn
  · exact resize_err N M bf

/-! ### examples -/

example : BF.withCapacity 8 8 = some ⟨[0x00], 8⟩ := by decide
example : BF.withCapacity 8 9 = none := by decide
example : BF.withCapacity 0 0 = some ⟨[0x00], 0⟩ := by decide
example : BF.withCapacity 0 1 = none := by decide
example : BF.newDyn 16 = some ⟨[0x00, 0x00], 16⟩ := by decide
example : BF.newDyn 0 = none := by decide
example : BF.newDyn 12 = none := by decide
example : ofBitsK (.variable 2) [true, false, true] = none := by decide
example : ofBitsK (.variable 3) [true, false, true] = some ⟨[0x05], 3⟩ := by decide
example : ofBitsK (.fixed 4) [true, false, true] = none := by decide
example : ofBitsK .dynamic [true, false, true] = none := by decide
example : (⟨[0x05], 3⟩ : BF).set 3 true = none := by decide
example : (⟨[0x05], 3⟩ : BF).shiftUp 4 = .err := by decide
example : (⟨[0x05], 3⟩ : BF).shiftUp 1 = .ok ⟨[0x02], 3⟩ := by decide   -- the top bit falls off
example : BF.resize 8 16 ⟨[0x05], 3⟩ = some ⟨[0x05, 0x00], 16⟩ := by decide
example : BF.resize 8 8 ⟨[0x05], 3⟩ = some ⟨[0x05], 8⟩ := by decide
example : BF.resize 16 8 ⟨[0x05], 3⟩ = none := by decide                -- even though 3 ≤ 8
example : BF.fromBytes (.variable 16) [0x55, 0x03] = .ok ⟨[0x55, 0x01], 9⟩ := by decide
example : BF.fromBytes (.variable 8) [0x55, 0x03] = .err := by decide   -- delimiter at 9 > 8
example : BF.fromBytes (.fixed 9) [0xFF, 0x02] = .err := by decide      -- a bit at position 9
example : BF.fromBytes (.fixed 9) [0xFF] = .err := by decide
example : BF.fromBytes .dynamic [] = .err := by decide
example : BF.fromBytesWithLen [0x12] 7 = none := by decide
example : BF.fromBytesWithLen [0x12] 8 = some ⟨[0x12], 8⟩ := by decide
/-- serde: `"0x5503"` -/
example : BF.deserialize (.variable 16) [48, 120, 53, 53, 48, 51] = .ok ⟨[0x55, 0x01], 9⟩ := by decide
example : BF.deserialize (.variable 8) [48, 120, 53, 53, 48, 51] = .err := by decide
example : BF.deserialize (.fixed 9) [48, 120, 53, 53, 48, 51] = .err := by decide
example : BF.deserialize .dynamic [48, 120, 53, 53, 48, 51] = .ok ⟨[0x55, 0x03], 16⟩ := by decide
example : BF.deserialize .dynamic [48, 120] = .err := by decide

end Ssz.C13
