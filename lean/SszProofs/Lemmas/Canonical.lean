import SszProofs.Lemmas.Preds
import SszProofs.Lemmas.Append
import SszProofs.Lemmas.ListVarProof
import SszProofs.Lemmas.CodecFacts
import SszProofs.Lemmas.BitFacts
/-
  Helper lemmas for C02 (canonical decoding). Nothing here recurses over `Ty`; the recursion is in
  `SszProofs/C02.lean`.
-/
set_option linter.unusedSimpArgs false
namespace Ssz.Canon
/-! ### registrations of a field list -/

theorem fixedLen_of_not_fixed (t : Ty) (h : t.isFixed = false) : t.fixedLen = 4 := by
  cases t <;> simp [Ty.isFixed, Ty.fixedLen] at h ⊢ <;> simp [h]

theorem reg_size (t : Ty) : t.reg.size = t.fixedLen := by
  unfold Ty.reg
  cases h : t.isFixed <;> simp [Reg.size, fixedLen_of_not_fixed, h]

theorem fixedSize_regsOf : ∀ ts : List Ty, fixedSize (regsOf ts) = sumFixedLen ts
  | [] => by simp [regsOf, fixedSize, sumFixedLen]
  | t :: ts => by simp [regsOf, fixedSize, sumFixedLen, reg_size, fixedSize_regsOf ts]

/-- the struct/tuple encoder is the item-level encoder run on the encoded fields -/
theorem encode_fields (ts : List Ty) (vs : List Val) :
    (appendFields ts vs (Enc.container [] (sumFixedLen ts))).finalize
      = encodeItems (regsOf ts) (encodeEach ts vs) := by
  rw [appendFields_eq, encodeItems_eq, go_eq, fixedSize_regsOf]
  simp [Enc.container]

theorem encode_tuple (ts : List Ty) (vs : List Val) :
    encode (.tuple ts) (.tuple vs) = encodeItems (regsOf ts) (encodeEach ts vs) := by
  simp only [encode, sszAppend]; exact encode_fields ts vs

theorem encode_container (ts : List Ty) (vs : List Val) :
    encode (.container ts) (.tuple vs) = encodeItems (regsOf ts) (encodeEach ts vs) := by
  simp only [encode, sszAppend]; exact encode_fields ts vs

theorem itemsFit_cons (t : Ty) (ts : List Ty) (it : Bytes) (its : List Bytes)
    (h : itemsFit (regsOf (t :: ts)) (it :: its) = true) : itemsFit (regsOf ts) its = true := by
  simp only [regsOf] at h
  cases hr : t.reg <;> rw [hr] at h <;> simp [itemsFit] at h
  · exact h.2
  · exact h

theorem itemsFit_nil (items : List Bytes) (h : itemsFit (regsOf []) items = true) : items = [] := by
  cases items <;> simp [regsOf, itemsFit] at h ⊢

/-! ### sequences -/

theorem mapRes_cons_ok {α β} (f : α → Res β) (a : α) (as : List α) (vs : List β)
    (h : mapRes f (a :: as) = .ok vs) : ∃ v vs', f a = .ok v ∧ mapRes f as = .ok vs' ∧ vs = v :: vs' := by
  simp only [mapRes] at h
  cases hf : f a with
  | ok v =>
    rw [hf] at h
    cases hm : mapRes f as with
    | ok vs' => rw [hm] at h; simp at h; exact ⟨v, vs', rfl, rfl, h.symm⟩
    | err => rw [hm] at h; simp at h
    | panic => rw [hm] at h; simp at h
  | err => rw [hf] at h; simp at h
  | panic => rw [hf] at h; simp at h

/-- item-wise canonicity lifts to `iter.map(decode).collect()` -/
theorem mapRes_canon (t : Ty)
    (h : ∀ c v, decode t c = .ok v → encode t v = c ∧ hasType t v = true) :
    ∀ (cs : List Bytes) (vs : List Val), mapRes (decode t) cs = .ok vs →
      vs.map (encode t) = cs ∧ hasTypeAll t vs = true
  | [], vs, hm => by simp [mapRes] at hm; subst hm; simp [hasTypeAll]
  | c :: cs, vs, hm => by
      obtain ⟨v, vs', h1, h2, h3⟩ := mapRes_cons_ok _ _ _ _ hm
      subst h3
      obtain ⟨e1, e2⟩ := h c v h1
      obtain ⟨e3, e4⟩ := mapRes_canon t h cs vs' h2
      simp [hasTypeAll, e1, e2, e3, e4]

theorem chunksGo_flatten (n : Nat) (hn : 0 < n) : ∀ (fuel : Nat) (b : Bytes), b.length ≤ fuel →
    (chunksGo n b fuel).flatten = b
  | 0, b, h => by
      have : b = [] := List.length_eq_zero_iff.mp (by omega)
      subst this; simp [chunksGo]
  | fuel+1, b, h => by
      simp only [chunksGo]
      cases b with
      | nil => simp
      | cons x xs =>
        simp only [List.isEmpty_cons, Bool.false_eq_true, if_false, List.flatten_cons]
        rw [chunksGo_flatten n hn fuel _ (by simp at h ⊢; omega), List.take_append_drop]

theorem chunks_flatten (n : Nat) (b : Bytes) (cs : List Bytes) (h : chunks n b = .ok cs) :
    cs.flatten = b := by
  unfold chunks at h
  by_cases hn : n = 0
  · simp [hn] at h
  · simp [hn] at h; subst h
    exact chunksGo_flatten n (by omega) _ _ (Nat.le_refl _)

theorem appendAll_eq (t : Ty) : ∀ vs : List Val, appendAll t vs [] = (vs.map (encode t)).flatten
  | [] => by simp [appendAll]
  | v :: vs => by
      simp only [appendAll, List.map_cons, List.flatten_cons]
      rw [appendAll_prefix, appendAll_eq t vs]; rfl

theorem encode_list_fixed (c : CKind) (t : Ty) (vs : List Val) (h : t.isFixed = true) :
    encode (.list c t) (.list vs) = (vs.map (encode t)).flatten := by
  simp only [encode, sszAppend, h, if_true]; exact appendAll_eq t vs

theorem encode_list_var (c : CKind) (t : Ty) (vs : List Val) (h : t.isFixed = false) :
    encode (.list c t) (.list vs) = encodeListVar (vs.map (encode t)) := by
  simp only [encode, sszAppend, h, Bool.false_eq_true, if_false]
  rw [appendSeq_eq, go_eq]
  simp only [encodeListVar, encodeItems_eq, List.length_map, fixedSize_var, Enc.container]
  simp [Nat.mul_comm]

/-! ### small byte facts -/

theorem pow_256_8 : (256 : Nat) ^ 8 = 2 ^ 64 := by decide

theorem le_take4 (b : Bytes) (h : 4 ≤ b.length) : le 4 (fromLE (b.take 4)) = b.take 4 := by
  have := le_fromLE (b.take 4)
  rwa [List.length_take, Nat.min_eq_left h] at this

end Ssz.Canon