import SszModel.Spec
import SszProofs.Lemmas.BitCore
set_option linter.unusedSimpArgs false
set_option linter.unusedVariables false
/-
  Facts about the SSZ codec of bitfield values that the codec-level theorems use.
  The statements are the fixed interface; the proofs rest on the bitfield lemma library `BitCore`.
-/
namespace Ssz
open Ssz.BC
theorem ofBits_bytes_length (l : List Bool) : (BF.ofBits l).bytes.length = bytesForBitLen l.length := by
  exact ofBits_bytes_length' l
theorem ofBits_abs (l : List Bool) : (BF.ofBits l).abs = l := by exact ofBits_abs' l
theorem ofBits_inv (l : List Bool) : (BF.ofBits l).Inv := by exact ofBits_inv' l
theorem ofBits_len (l : List Bool) : (BF.ofBits l).len = l.length := by exact ofBits_len' l

/-- `into_bytes` never takes a panic branch on a bitfield built from bits -/
theorem intoBytes_ofBits_ok (k : BKind) (l : List Bool) : ∃ b, (BF.ofBits l).intoBytes k = .ok b := by
  cases k with
  | «variable» N =>
    obtain ⟨b, hb, _⟩ := intoBytesV_spec (BF.ofBits l) (ofBits_inv' l)
    exact ⟨b, hb⟩
  | fixed N => exact ⟨_, rfl⟩
  | dynamic => exact ⟨_, rfl⟩

theorem bits_roundtrip (k : BKind) (l : List Bool) (h : k.lenOk l.length = true) :
    decodeBits k (bitsBytes k l) = .ok (.bits l) := by
  obtain ⟨b, hb, hd⟩ := fromBytes_complete k (BF.ofBits l) (ofBits_inv' l) (by rw [ofBits_len']; exact h)
  unfold decodeBits bitsBytes
  rw [hb]
  simp only [hd, Res.map_ok, ofBits_abs']

theorem bits_canonical (k : BKind) (b : Bytes) (v : Val) (h : decodeBits k b = .ok v) :
    ∃ l, v = .bits l ∧ k.lenOk l.length = true ∧ bitsBytes k l = b := by
  unfold decodeBits at h
  cases hf : BF.fromBytes k b with
  | err => rw [hf] at h; cases h
  | panic => rw [hf] at h; cases h
  | ok bf =>
    rw [hf] at h
    simp only [Res.map_ok, Res.ok.injEq] at h
    obtain ⟨hinv, hk, hb⟩ := fromBytes_sound k b bf hf
    refine ⟨bf.abs, h.symm, by rw [abs_length]; exact hk, ?_⟩
    unfold bitsBytes
    rw [ofBits_of_abs bf hinv, hb]

theorem bits_no_panic (k : BKind) (b : Bytes) : decodeBits k b ≠ .panic := by
  unfold decodeBits
  have := fromBytes_ne_panic k b
  cases hf : BF.fromBytes k b with
  | err => intro e; cases e
  | panic => exact absurd hf this
  | ok bf => intro e; cases e

theorem bits_spec_fixed (n : Nat) (l : List Bool) (h : l.length = n) :
    bitsBytes (.fixed n) l = Spec.packBits l (max 1 ((n + 7) / 8)) := by
  subst h
  show (BF.ofBits l).bytes = _
  refine eq_packBits _ _ (max 1 ((l.length + 7) / 8)) (ofBits_bytes_length' l) ?_
  intro j
  rw [ofBits_bit]
  by_cases hq : j / 8 < max 1 ((l.length + 7) / 8)
  · rw [if_pos hq]
  · rw [if_neg hq, List.getElem?_eq_none (by omega)]; rfl
theorem bits_spec_variable (n : Nat) (l : List Bool) (h : l.length ≤ n) :
    bitsBytes (.variable n) l = Spec.packBits (l ++ [true]) (l.length / 8 + 1) := by
  obtain ⟨b, hb, hl, hbits⟩ := intoBytesV_spec (BF.ofBits l) (ofBits_inv' l)
  rw [ofBits_len'] at hl
  have : bitsBytes (.variable n) l = b := by
    unfold bitsBytes
    show (match (BF.ofBits l).intoBytesV with | .ok b => b | _ => []) = b
    rw [hb]
  rw [this]
  apply eq_packBits _ _ _ hl
  intro j
  rw [hbits j, ofBits_bit, ofBits_len']
  by_cases hj : j < l.length
  · have hq : j / 8 < l.length / 8 + 1 := by omega
    have hne : j ≠ l.length := by omega
    rw [if_pos hq, List.getElem?_append_left hj]
    simp [hne]
  · by_cases he : j = l.length
    · subst he
      have hq : l.length / 8 < l.length / 8 + 1 := by omega
      rw [if_pos hq]
      simp
    · have h1 : l[j]? = none := List.getElem?_eq_none (by omega)
      have h2 : (l ++ [true])[j]? = none := List.getElem?_eq_none (by simp; omega)
      rw [h1, h2]
      simp [he]
theorem bits_spec_dynamic (l : List Bool) (h0 : 0 < l.length) (h8 : l.length % 8 = 0) :
    bitsBytes .dynamic l = Spec.packBits l (l.length / 8) := by
  show (BF.ofBits l).bytes = _
  have hm : bytesForBitLen l.length = l.length / 8 := by unfold bytesForBitLen; omega
  apply eq_packBits _ _ _ (by rw [ofBits_bytes_length' l, hm])
  intro j
  rw [ofBits_bit]
  by_cases hq : j / 8 < l.length / 8
  · rw [if_pos hq]
  · rw [if_neg hq, List.getElem?_eq_none (by omega)]; rfl

theorem bitsBytes_length_fixed (n : Nat) (l : List Bool) (h : l.length = n) :
    (bitsBytes (.fixed n) l).length = bytesForBitLen n := by
  subst h
  exact ofBits_bytes_length' l

/-- a fixed-size bitvector decoder only accepts inputs of the advertised length -/
theorem decodeBits_fixed_length (n : Nat) (b : Bytes) (v : Val) (h : decodeBits (.fixed n) b = .ok v) :
    b.length = bytesForBitLen n := by
  unfold decodeBits at h
  cases hf : BF.fromBytes (.fixed n) b with
  | err => rw [hf] at h; cases h
  | panic => rw [hf] at h; cases h
  | ok bf =>
    have h' : fromRawBytes b n = some bf := (resOfOption_ok_iff _ _).mp hf
    exact ((fromRawBytes_iff _ _ _).mp h').2.1

end Ssz
