import SszProofs.Lemmas.Preds
/-
  `Val.cmp` (the model of Rust's `Ord` on key values) restricted to the well-typed values of one
  key type (`Ty.ordKey`) is a strict total order; `insertBy` / `collect` (the model of
  `BTreeSet::from_iter` / `BTreeMap::from_iter`) produce strictly ascending entry lists, are the
  identity on strictly ascending lists, and contain exactly the listed entries that are not
  followed by an entry with an equal key.

  `Val.cmp` has a catch-all `| _, _ => .eq` for mismatched constructors, hence all statements
  except reflexivity are typed.
-/
set_option linter.unusedSimpArgs false
namespace Ssz.Ord
/-! ### lexicographic combination of `Ordering`s -/

theorem lex_antisymm (o o' r r' : Ordering) (h1 : o = .lt ↔ o' = .gt) (h2 : o' = .lt ↔ o = .gt)
    (h3 : r = .lt ↔ r' = .gt) : (o.then r = .lt ↔ o'.then r' = .gt) := by
  cases o <;> cases o' <;> simp_all [Ordering.then]

theorem lex_trans (o1 o2 o3 r1 r2 r3 : Ordering) (ht : o1 = .lt → o2 = .lt → o3 = .lt)
    (e1 : o1 = .eq → o2 = o3) (e2 : o2 = .eq → o1 = o3) (hr : r1 = .lt → r2 = .lt → r3 = .lt) :
    o1.then r1 = .lt → o2.then r2 = .lt → o3.then r3 = .lt := by
  cases o1 <;> cases o2 <;> cases o3 <;> simp [Ordering.then] at ht e1 e2 ⊢ <;> first | exact hr | (intros; assumption)

theorem lex_eq (o r : Ordering) : o.then r = .eq ↔ o = .eq ∧ r = .eq := by
  cases o <;> simp [Ordering.then]

/-! ### byte strings -/

theorem cmpBytes_cons (a : UInt8) (as : Bytes) (b : UInt8) (bs : Bytes) :
    cmpBytes (a :: as) (b :: bs) = (compare a.toNat b.toNat).then (cmpBytes as bs) := by
  simp only [cmpBytes]; cases compare a.toNat b.toNat <;> rfl

theorem cmpBytes_refl : ∀ a : Bytes, cmpBytes a a = .eq
  | [] => by simp [cmpBytes]
  | a :: as => by rw [cmpBytes_cons, lex_eq]; exact ⟨by simp, cmpBytes_refl as⟩

theorem cmpBytes_eq : ∀ a b : Bytes, cmpBytes a b = .eq → a = b
  | [], [] => by simp
  | [], _ :: _ => by simp [cmpBytes]
  | _ :: _, [] => by simp [cmpBytes]
  | a :: as, b :: bs => by
      rw [cmpBytes_cons, lex_eq]
      intro ⟨h1, h2⟩
      rw [Nat.compare_eq_eq] at h1
      rw [UInt8.toNat_inj.mp h1, cmpBytes_eq as bs h2]

theorem cmpBytes_antisymm : ∀ a b : Bytes, cmpBytes a b = .lt ↔ cmpBytes b a = .gt
  | [], [] => by simp [cmpBytes]
  | [], _ :: _ => by simp [cmpBytes]
  | _ :: _, [] => by simp [cmpBytes]
  | a :: as, b :: bs => by
      rw [cmpBytes_cons, cmpBytes_cons]
      apply lex_antisymm
      · rw [Nat.compare_eq_lt, Nat.compare_eq_gt]
      · rw [Nat.compare_eq_lt, Nat.compare_eq_gt]
      · exact cmpBytes_antisymm as bs

theorem cmpBytes_trans : ∀ a b c : Bytes, cmpBytes a b = .lt → cmpBytes b c = .lt → cmpBytes a c = .lt
  | [], [], _ => by simp [cmpBytes]
  | [], _ :: _, [] => by simp [cmpBytes]
  | [], _ :: _, _ :: _ => by simp [cmpBytes]
  | _ :: _, [], _ => by simp [cmpBytes]
  | _ :: _, _ :: _, [] => by simp [cmpBytes]
  | a :: as, b :: bs, c :: cs => by
      rw [cmpBytes_cons, cmpBytes_cons, cmpBytes_cons]
      apply lex_trans
      · simp only [Nat.compare_eq_lt]; omega
      · rw [Nat.compare_eq_eq]; intro h; rw [h]
      · rw [Nat.compare_eq_eq]; intro h; rw [h]
      · exact cmpBytes_trans as bs cs

/-! ### `Val.cmp` -/

theorem cmpList_cons (a : Val) (as : List Val) (b : Val) (bs : List Val) :
    Val.cmpList (a :: as) (b :: bs) = (Val.cmp a b).then (Val.cmpList as bs) := by
  simp only [Val.cmpList]; cases Val.cmp a b <;> rfl

mutual
/-- reflexivity holds for every value, well-typed or not -/
theorem cmp_refl : ∀ a : Val, Val.cmp a a = .eq
  | .uint _ => by simp [Val.cmp]
  | .bool _ => by simp [Val.cmp]
  | .bytes l => by simp [Val.cmp, cmpBytes_refl]
  | .list l => by simp only [Val.cmp]; exact cmpList_refl l
  | .none => by simp [Val.cmp]
  | .some v => by simp only [Val.cmp]; exact cmp_refl v
  | .tuple l => by simp only [Val.cmp]; exact cmpList_refl l
  | .union i v => by simp [Val.cmp, cmp_refl v]
  | .tag _ => by simp [Val.cmp]
  | .bits _ => by simp [Val.cmp]
theorem cmpList_refl : ∀ l : List Val, Val.cmpList l l = .eq
  | [] => by simp [Val.cmpList]
  | a :: as => by rw [cmpList_cons, lex_eq]; exact ⟨cmp_refl a, cmpList_refl as⟩
end

/-! #### canonical forms of well-typed key values -/

theorem uint_of_hasType {k : Nat} {a : Val} (h : hasType (.uint k) a = true) : ∃ n, a = .uint n := by
  cases a <;> simp [hasType] at h; exact ⟨_, rfl⟩
theorem uint_of_hasType_nz {a : Val} (h : hasType .nonZeroUsize a = true) : ∃ n, a = .uint n := by
  cases a <;> simp [hasType] at h; exact ⟨_, rfl⟩
theorem bool_of_hasType {a : Val} (h : hasType .bool a = true) : ∃ x, a = .bool x := by
  cases a <;> simp [hasType] at h; exact ⟨_, rfl⟩
theorem bytes_of_hasType_n {n : Nat} {a : Val} (h : hasType (.bytesN n) a = true) : ∃ l, a = .bytes l := by
  cases a <;> simp [hasType] at h; exact ⟨_, rfl⟩
theorem bytes_of_hasType {a : Val} (h : hasType .byteList a = true) : ∃ l, a = .bytes l := by
  cases a <;> simp [hasType] at h; exact ⟨_, rfl⟩
theorem list_of_hasType {c : CKind} {t : Ty} {a : Val} (h : hasType (.list c t) a = true) :
    ∃ vs, a = .list vs ∧ hasTypeAll t vs = true := by
  cases a <;> simp [hasType] at h; exact ⟨_, rfl, h.1⟩
theorem option_of_hasType {t : Ty} {a : Val} (h : hasType (.option t) a = true) :
    a = .none ∨ ∃ x, a = .some x ∧ hasType t x = true := by
  cases a <;> simp [hasType] at h
  · exact .inl rfl
  · exact .inr ⟨_, rfl, h⟩
theorem tuple_of_hasType {ts : List Ty} {a : Val} (h : hasType (.tuple ts) a = true) :
    ∃ vs, a = .tuple vs ∧ hasTypes ts vs = true := by
  cases a <;> simp [hasType] at h; exact ⟨_, rfl, h⟩

/-! #### homogeneous lists (`Vec<T>` keys), relative to the element order -/

theorem cmpList_eq_of (t : Ty)
    (h : ∀ a b, hasType t a = true → hasType t b = true → Val.cmp a b = .eq → a = b) :
    ∀ as bs, hasTypeAll t as = true → hasTypeAll t bs = true → Val.cmpList as bs = .eq → as = bs
  | [], [], _, _ => by simp
  | [], _ :: _, _, _ => by simp [Val.cmpList]
  | _ :: _, [], _, _ => by simp [Val.cmpList]
  | a :: as, b :: bs, ha, hb => by
      simp only [hasTypeAll, Bool.and_eq_true] at ha hb
      rw [cmpList_cons, lex_eq]
      intro ⟨h1, h2⟩
      rw [h a b ha.1 hb.1 h1, cmpList_eq_of t h as bs ha.2 hb.2 h2]

theorem cmpList_antisymm_of (t : Ty)
    (h : ∀ a b, hasType t a = true → hasType t b = true → (Val.cmp a b = .lt ↔ Val.cmp b a = .gt)) :
    ∀ as bs, hasTypeAll t as = true → hasTypeAll t bs = true →
      (Val.cmpList as bs = .lt ↔ Val.cmpList bs as = .gt)
  | [], [], _, _ => by simp [Val.cmpList]
  | [], _ :: _, _, _ => by simp [Val.cmpList]
  | _ :: _, [], _, _ => by simp [Val.cmpList]
  | a :: as, b :: bs, ha, hb => by
      simp only [hasTypeAll, Bool.and_eq_true] at ha hb
      rw [cmpList_cons, cmpList_cons]
      exact lex_antisymm _ _ _ _ (h a b ha.1 hb.1) (h b a hb.1 ha.1)
        (cmpList_antisymm_of t h as bs ha.2 hb.2)

theorem cmpList_trans_of (t : Ty)
    (he : ∀ a b, hasType t a = true → hasType t b = true → Val.cmp a b = .eq → a = b)
    (h : ∀ a b c, hasType t a = true → hasType t b = true → hasType t c = true →
      Val.cmp a b = .lt → Val.cmp b c = .lt → Val.cmp a c = .lt) :
    ∀ as bs cs, hasTypeAll t as = true → hasTypeAll t bs = true → hasTypeAll t cs = true →
      Val.cmpList as bs = .lt → Val.cmpList bs cs = .lt → Val.cmpList as cs = .lt
  | [], [], _, _, _, _ => by simp [Val.cmpList]
  | [], _ :: _, [], _, _, _ => by simp [Val.cmpList]
  | [], _ :: _, _ :: _, _, _, _ => by simp [Val.cmpList]
  | _ :: _, [], _, _, _, _ => by simp [Val.cmpList]
  | _ :: _, _ :: _, [], _, _, _ => by simp [Val.cmpList]
  | a :: as, b :: bs, c :: cs, ha, hb, hc => by
      simp only [hasTypeAll, Bool.and_eq_true] at ha hb hc
      rw [cmpList_cons, cmpList_cons, cmpList_cons]
      apply lex_trans
      · exact h a b c ha.1 hb.1 hc.1
      · intro e; rw [he a b ha.1 hb.1 e]
      · intro e; rw [he b c hb.1 hc.1 e]
      · exact cmpList_trans_of t he h as bs cs ha.2 hb.2 hc.2

/-! #### `cmp a b = .eq → a = b` -/

mutual
theorem cmp_eq : ∀ (t : Ty), t.ordKey = true → ∀ a b : Val, hasType t a = true → hasType t b = true →
    Val.cmp a b = .eq → a = b
  | .uint _, _, a, b, ha, hb => by
      obtain ⟨x, rfl⟩ := uint_of_hasType ha; obtain ⟨y, rfl⟩ := uint_of_hasType hb
      simp only [Val.cmp, Nat.compare_eq_eq]; intro h; rw [h]
  | .nonZeroUsize, _, a, b, ha, hb => by
      obtain ⟨x, rfl⟩ := uint_of_hasType_nz ha; obtain ⟨y, rfl⟩ := uint_of_hasType_nz hb
      simp only [Val.cmp, Nat.compare_eq_eq]; intro h; rw [h]
  | .bool, _, a, b, ha, hb => by
      obtain ⟨x, rfl⟩ := bool_of_hasType ha; obtain ⟨y, rfl⟩ := bool_of_hasType hb
      cases x <;> cases y <;> simp [Val.cmp, Nat.compare_eq_eq]
  | .bytesN _, _, a, b, ha, hb => by
      obtain ⟨x, rfl⟩ := bytes_of_hasType_n ha; obtain ⟨y, rfl⟩ := bytes_of_hasType_n hb
      simp only [Val.cmp]; intro h; rw [cmpBytes_eq _ _ h]
  | .byteList, _, a, b, ha, hb => by
      obtain ⟨x, rfl⟩ := bytes_of_hasType ha; obtain ⟨y, rfl⟩ := bytes_of_hasType hb
      simp only [Val.cmp]; intro h; rw [cmpBytes_eq _ _ h]
  | .list c t, hk, a, b, ha, hb => by
      simp only [Ty.ordKey, Bool.and_eq_true] at hk
      obtain ⟨x, rfl, hx⟩ := list_of_hasType ha; obtain ⟨y, rfl, hy⟩ := list_of_hasType hb
      simp only [Val.cmp]; intro h
      rw [cmpList_eq_of t (cmp_eq t hk.2) _ _ hx hy h]
  | .option t, hk, a, b, ha, hb => by
      simp only [Ty.ordKey] at hk
      rcases option_of_hasType ha with rfl | ⟨x, rfl, hx⟩ <;>
        rcases option_of_hasType hb with rfl | ⟨y, rfl, hy⟩ <;> simp [Val.cmp]
      exact cmp_eq t hk _ _ hx hy
  | .tuple ts, hk, a, b, ha, hb => by
      simp only [Ty.ordKey] at hk
      obtain ⟨x, rfl, hx⟩ := tuple_of_hasType ha; obtain ⟨y, rfl, hy⟩ := tuple_of_hasType hb
      simp only [Val.cmp]; intro h
      rw [cmp_eq_types ts hk _ _ hx hy h]
  | .container _, hk, _, _, _, _ => by simp [Ty.ordKey] at hk
  | .union _, hk, _, _, _, _ => by simp [Ty.ordKey] at hk
  | .tagEnum _, hk, _, _, _, _ => by simp [Ty.ordKey] at hk
  | .transparentEnum _, hk, _, _, _, _ => by simp [Ty.ordKey] at hk
  | .bitvector _, hk, _, _, _, _ => by simp [Ty.ordKey] at hk
  | .bitlist _, hk, _, _, _, _ => by simp [Ty.ordKey] at hk
  | .bitvectorDyn, hk, _, _, _, _ => by simp [Ty.ordKey] at hk
  | .legacyOption _, hk, _, _, _, _ => by simp [Ty.ordKey] at hk
theorem cmp_eq_types : ∀ (ts : List Ty), ordKeyAll ts = true → ∀ as bs : List Val,
    hasTypes ts as = true → hasTypes ts bs = true → Val.cmpList as bs = .eq → as = bs
  | [], _, as, bs, ha, hb => by
      cases as <;> cases bs <;> simp [hasTypes] at ha hb; simp
  | t :: ts, hk, as, bs, ha, hb => by
      simp only [ordKeyAll, Bool.and_eq_true] at hk
      cases as <;> cases bs <;> simp [hasTypes] at ha hb
      rw [cmpList_cons, lex_eq]
      intro ⟨h1, h2⟩
      rw [cmp_eq t hk.1 _ _ ha.1 hb.1 h1, cmp_eq_types ts hk.2 _ _ ha.2 hb.2 h2]
end

/-- `Val.cmp a b = .eq ↔ a = b` on the well-typed values of a key type -/
theorem cmp_refl_iff (t : Ty) (hk : t.ordKey = true) (a b : Val) (ha : hasType t a = true)
    (hb : hasType t b = true) : Val.cmp a b = .eq ↔ a = b :=
  ⟨cmp_eq t hk a b ha hb, fun h => h ▸ cmp_refl a⟩

/-! #### `cmp a b = .lt ↔ cmp b a = .gt` -/

mutual
theorem cmp_antisymm : ∀ (t : Ty), t.ordKey = true → ∀ a b : Val, hasType t a = true →
    hasType t b = true → (Val.cmp a b = .lt ↔ Val.cmp b a = .gt)
  | .uint _, _, a, b, ha, hb => by
      obtain ⟨x, rfl⟩ := uint_of_hasType ha; obtain ⟨y, rfl⟩ := uint_of_hasType hb
      simp only [Val.cmp, Nat.compare_eq_lt, Nat.compare_eq_gt]
  | .nonZeroUsize, _, a, b, ha, hb => by
      obtain ⟨x, rfl⟩ := uint_of_hasType_nz ha; obtain ⟨y, rfl⟩ := uint_of_hasType_nz hb
      simp only [Val.cmp, Nat.compare_eq_lt, Nat.compare_eq_gt]
  | .bool, _, a, b, ha, hb => by
      obtain ⟨x, rfl⟩ := bool_of_hasType ha; obtain ⟨y, rfl⟩ := bool_of_hasType hb
      simp only [Val.cmp, Nat.compare_eq_lt, Nat.compare_eq_gt]
  | .bytesN _, _, a, b, ha, hb => by
      obtain ⟨x, rfl⟩ := bytes_of_hasType_n ha; obtain ⟨y, rfl⟩ := bytes_of_hasType_n hb
      simp only [Val.cmp]; exact cmpBytes_antisymm _ _
  | .byteList, _, a, b, ha, hb => by
      obtain ⟨x, rfl⟩ := bytes_of_hasType ha; obtain ⟨y, rfl⟩ := bytes_of_hasType hb
      simp only [Val.cmp]; exact cmpBytes_antisymm _ _
  | .list c t, hk, a, b, ha, hb => by
      simp only [Ty.ordKey, Bool.and_eq_true] at hk
      obtain ⟨x, rfl, hx⟩ := list_of_hasType ha; obtain ⟨y, rfl, hy⟩ := list_of_hasType hb
      simp only [Val.cmp]
      exact cmpList_antisymm_of t (cmp_antisymm t hk.2) _ _ hx hy
  | .option t, hk, a, b, ha, hb => by
      simp only [Ty.ordKey] at hk
      rcases option_of_hasType ha with rfl | ⟨x, rfl, hx⟩ <;>
        rcases option_of_hasType hb with rfl | ⟨y, rfl, hy⟩ <;> simp [Val.cmp]
      exact cmp_antisymm t hk _ _ hx hy
  | .tuple ts, hk, a, b, ha, hb => by
      simp only [Ty.ordKey] at hk
      obtain ⟨x, rfl, hx⟩ := tuple_of_hasType ha; obtain ⟨y, rfl, hy⟩ := tuple_of_hasType hb
      simp only [Val.cmp]
      exact cmp_antisymm_types ts hk _ _ hx hy
  | .container _, hk, _, _, _, _ => by simp [Ty.ordKey] at hk
  | .union _, hk, _, _, _, _ => by simp [Ty.ordKey] at hk
  | .tagEnum _, hk, _, _, _, _ => by simp [Ty.ordKey] at hk
  | .transparentEnum _, hk, _, _, _, _ => by simp [Ty.ordKey] at hk
  | .bitvector _, hk, _, _, _, _ => by simp [Ty.ordKey] at hk
  | .bitlist _, hk, _, _, _, _ => by simp [Ty.ordKey] at hk
  | .bitvectorDyn, hk, _, _, _, _ => by simp [Ty.ordKey] at hk
  | .legacyOption _, hk, _, _, _, _ => by simp [Ty.ordKey] at hk
theorem cmp_antisymm_types : ∀ (ts : List Ty), ordKeyAll ts = true → ∀ as bs : List Val,
    hasTypes ts as = true → hasTypes ts bs = true →
    (Val.cmpList as bs = .lt ↔ Val.cmpList bs as = .gt)
  | [], _, as, bs, ha, hb => by
      cases as <;> cases bs <;> simp [hasTypes] at ha hb; simp [Val.cmpList]
  | t :: ts, hk, as, bs, ha, hb => by
      simp only [ordKeyAll, Bool.and_eq_true] at hk
      cases as <;> cases bs <;> simp [hasTypes] at ha hb
      rw [cmpList_cons, cmpList_cons]
      exact lex_antisymm _ _ _ _ (cmp_antisymm t hk.1 _ _ ha.1 hb.1) (cmp_antisymm t hk.1 _ _ hb.1 ha.1)
        (cmp_antisymm_types ts hk.2 _ _ ha.2 hb.2)
end

/-! #### transitivity -/

mutual
theorem cmp_trans : ∀ (t : Ty), t.ordKey = true → ∀ a b c : Val, hasType t a = true →
    hasType t b = true → hasType t c = true →
    Val.cmp a b = .lt → Val.cmp b c = .lt → Val.cmp a c = .lt
  | .uint _, _, a, b, c, ha, hb, hc => by
      obtain ⟨x, rfl⟩ := uint_of_hasType ha; obtain ⟨y, rfl⟩ := uint_of_hasType hb
      obtain ⟨z, rfl⟩ := uint_of_hasType hc
      simp only [Val.cmp, Nat.compare_eq_lt]; omega
  | .nonZeroUsize, _, a, b, c, ha, hb, hc => by
      obtain ⟨x, rfl⟩ := uint_of_hasType_nz ha; obtain ⟨y, rfl⟩ := uint_of_hasType_nz hb
      obtain ⟨z, rfl⟩ := uint_of_hasType_nz hc
      simp only [Val.cmp, Nat.compare_eq_lt]; omega
  | .bool, _, a, b, c, ha, hb, hc => by
      obtain ⟨x, rfl⟩ := bool_of_hasType ha; obtain ⟨y, rfl⟩ := bool_of_hasType hb
      obtain ⟨z, rfl⟩ := bool_of_hasType hc
      simp only [Val.cmp, Nat.compare_eq_lt]; omega
  | .bytesN _, _, a, b, c, ha, hb, hc => by
      obtain ⟨x, rfl⟩ := bytes_of_hasType_n ha; obtain ⟨y, rfl⟩ := bytes_of_hasType_n hb
      obtain ⟨z, rfl⟩ := bytes_of_hasType_n hc
      simp only [Val.cmp]; exact cmpBytes_trans _ _ _
  | .byteList, _, a, b, c, ha, hb, hc => by
      obtain ⟨x, rfl⟩ := bytes_of_hasType ha; obtain ⟨y, rfl⟩ := bytes_of_hasType hb
      obtain ⟨z, rfl⟩ := bytes_of_hasType hc
      simp only [Val.cmp]; exact cmpBytes_trans _ _ _
  | .list k t, hk, a, b, c, ha, hb, hc => by
      simp only [Ty.ordKey, Bool.and_eq_true] at hk
      obtain ⟨x, rfl, hx⟩ := list_of_hasType ha; obtain ⟨y, rfl, hy⟩ := list_of_hasType hb
      obtain ⟨z, rfl, hz⟩ := list_of_hasType hc
      simp only [Val.cmp]
      exact cmpList_trans_of t (cmp_eq t hk.2) (cmp_trans t hk.2) _ _ _ hx hy hz
  | .option t, hk, a, b, c, ha, hb, hc => by
      simp only [Ty.ordKey] at hk
      rcases option_of_hasType ha with rfl | ⟨x, rfl, hx⟩ <;>
        rcases option_of_hasType hb with rfl | ⟨y, rfl, hy⟩ <;>
        rcases option_of_hasType hc with rfl | ⟨z, rfl, hz⟩ <;> simp [Val.cmp]
      exact cmp_trans t hk _ _ _ hx hy hz
  | .tuple ts, hk, a, b, c, ha, hb, hc => by
      simp only [Ty.ordKey] at hk
      obtain ⟨x, rfl, hx⟩ := tuple_of_hasType ha; obtain ⟨y, rfl, hy⟩ := tuple_of_hasType hb
      obtain ⟨z, rfl, hz⟩ := tuple_of_hasType hc
      simp only [Val.cmp]
      exact cmp_trans_types ts hk _ _ _ hx hy hz
  | .container _, hk, _, _, _, _, _, _ => by simp [Ty.ordKey] at hk
  | .union _, hk, _, _, _, _, _, _ => by simp [Ty.ordKey] at hk
  | .tagEnum _, hk, _, _, _, _, _, _ => by simp [Ty.ordKey] at hk
  | .transparentEnum _, hk, _, _, _, _, _, _ => by simp [Ty.ordKey] at hk
  | .bitvector _, hk, _, _, _, _, _, _ => by simp [Ty.ordKey] at hk
  | .bitlist _, hk, _, _, _, _, _, _ => by simp [Ty.ordKey] at hk
  | .bitvectorDyn, hk, _, _, _, _, _, _ => by simp [Ty.ordKey] at hk
  | .legacyOption _, hk, _, _, _, _, _, _ => by simp [Ty.ordKey] at hk
theorem cmp_trans_types : ∀ (ts : List Ty), ordKeyAll ts = true → ∀ as bs cs : List Val,
    hasTypes ts as = true → hasTypes ts bs = true → hasTypes ts cs = true →
    Val.cmpList as bs = .lt → Val.cmpList bs cs = .lt → Val.cmpList as cs = .lt
  | [], _, as, bs, cs, ha, hb, hc => by
      cases as <;> cases bs <;> cases cs <;> simp [hasTypes] at ha hb hc; simp [Val.cmpList]
  | t :: ts, hk, as, bs, cs, ha, hb, hc => by
      simp only [ordKeyAll, Bool.and_eq_true] at hk
      cases as <;> cases bs <;> cases cs <;> simp [hasTypes] at ha hb hc
      rw [cmpList_cons, cmpList_cons, cmpList_cons]
      apply lex_trans
      · exact cmp_trans t hk.1 _ _ _ ha.1 hb.1 hc.1
      · intro e; rw [cmp_eq t hk.1 _ _ ha.1 hb.1 e]
      · intro e; rw [cmp_eq t hk.1 _ _ hb.1 hc.1 e]
      · exact cmp_trans_types ts hk.2 _ _ _ ha.2 hb.2 hc.2
end

/-- `.gt` is the mirror image of `.lt` -/
theorem cmp_gt_iff (t : Ty) (hk : t.ordKey = true) (a b : Val) (ha : hasType t a = true)
    (hb : hasType t b = true) : Val.cmp a b = .gt ↔ Val.cmp b a = .lt :=
  (cmp_antisymm t hk b a hb ha).symm

/-! ### keys of collection entries -/

/-- the key type of a collection kind: the entry type for sets, the first component for maps -/
def keyTy : CKind → Ty → Ty
  | .map, .tuple [k, _] => k
  | _, t => t

/-- comparison of two entries by key (what `insertBy` and `sortedBy` look at) -/
def kcmp (c : CKind) (x y : Val) : Ordering := Val.cmp (keyOf c x) (keyOf c y)

theorem keyTyOk_map {t : Ty} (h : keyTyOk .map t = true) : ∃ k v, t = .tuple [k, v] ∧ k.ordKey = true := by
  unfold keyTyOk at h
  split at h
  · rename_i hc; cases hc
  · rename_i hc; cases hc
  · exact ⟨_, _, rfl, h⟩
  · simp at h

theorem pair_of_hasType {k v : Ty} {x : Val} (h : hasType (.tuple [k, v]) x = true) :
    ∃ a b, x = .tuple [a, b] ∧ hasType k a = true ∧ hasType v b = true := by
  obtain ⟨vs, rfl, hv⟩ := tuple_of_hasType h
  match vs, hv with
  | [a, b], hv => simp [hasTypes] at hv; exact ⟨a, b, rfl, hv⟩
  | [], hv => simp [hasTypes] at hv
  | [_], hv => simp [hasTypes] at hv
  | _ :: _ :: _ :: _, hv => simp [hasTypes] at hv

/-- keys of well-typed entries are well-typed values of the key type, whose order is modelled -/
theorem keyOf_typed (c : CKind) (t : Ty) (hc : c ≠ .vec) (hk : keyTyOk c t = true) :
    (keyTy c t).ordKey = true ∧ ∀ x, hasType t x = true → hasType (keyTy c t) (keyOf c x) = true := by
  cases c with
  | vec => exact absurd rfl hc
  | set =>
    refine ⟨by simpa [keyTy, keyTyOk] using hk, fun x hx => ?_⟩
    simpa [keyTy, keyOf] using hx
  | map =>
    obtain ⟨k, v, rfl, hk'⟩ := keyTyOk_map hk
    refine ⟨by simpa [keyTy] using hk', fun x hx => ?_⟩
    obtain ⟨a, b, rfl, ha, _⟩ := pair_of_hasType hx
    simpa [keyTy, keyOf] using ha

theorem kcmp_refl (c : CKind) (x : Val) : kcmp c x x = .eq := cmp_refl _

section typed
variable (c : CKind) (t : Ty) (hc : c ≠ .vec) (hk : keyTyOk c t = true)
include hc hk

theorem kcmp_eq_iff {x y : Val} (hx : hasType t x = true) (hy : hasType t y = true) :
    kcmp c x y = .eq ↔ keyOf c x = keyOf c y :=
  have h := keyOf_typed c t hc hk
  cmp_refl_iff _ h.1 _ _ (h.2 x hx) (h.2 y hy)

theorem kcmp_antisymm {x y : Val} (hx : hasType t x = true) (hy : hasType t y = true) :
    kcmp c x y = .lt ↔ kcmp c y x = .gt :=
  have h := keyOf_typed c t hc hk
  cmp_antisymm _ h.1 _ _ (h.2 x hx) (h.2 y hy)

theorem kcmp_trans {x y z : Val} (hx : hasType t x = true) (hy : hasType t y = true)
    (hz : hasType t z = true) : kcmp c x y = .lt → kcmp c y z = .lt → kcmp c x z = .lt :=
  have h := keyOf_typed c t hc hk
  cmp_trans _ h.1 _ _ _ (h.2 x hx) (h.2 y hy) (h.2 z hz)

omit hc hk in
theorem hasTypeAll_iff (l : List Val) : hasTypeAll t l = true ↔ ∀ z ∈ l, hasType t z = true := by
  induction l with
  | nil => simp [hasTypeAll]
  | cons a l ih => simp [hasTypeAll, ih]

/-! ### strictly ascending entry lists -/

omit hc hk in
theorem sortedBy_cons_cons (x y : Val) (l : List Val) :
    sortedBy c (x :: y :: l) = (kcmp c x y == .lt && sortedBy c (y :: l)) := rfl

omit hc hk in
theorem sortedBy_tail {x : Val} {l : List Val} (h : sortedBy c (x :: l) = true) : sortedBy c l = true := by
  cases l with
  | nil => rfl
  | cons y l => rw [sortedBy_cons_cons] at h; simp at h; exact h.2

omit hc hk in
theorem sortedBy_of_head_lt {x : Val} {l : List Val} (h : ∀ z ∈ l, kcmp c x z = .lt)
    (hs : sortedBy c l = true) : sortedBy c (x :: l) = true := by
  cases l with
  | nil => rfl
  | cons y l => rw [sortedBy_cons_cons]; simp [h y, hs]

/-- the head of a strictly ascending list is below every other entry -/
theorem sortedBy_head_lt : ∀ (l : List Val) (x : Val), hasType t x = true →
    (∀ z ∈ l, hasType t z = true) → sortedBy c (x :: l) = true → ∀ z ∈ l, kcmp c x z = .lt
  | [], _, _, _, _ => by simp
  | y :: l, x, hx, hl, hs => by
      rw [sortedBy_cons_cons] at hs
      simp only [Bool.and_eq_true, beq_iff_eq] at hs
      intro z hz
      rcases List.mem_cons.mp hz with rfl | hz
      · exact hs.1
      · have hy := hl y (by simp)
        have := sortedBy_head_lt l y hy (fun w hw => hl w (by simp [hw])) hs.2 z hz
        exact kcmp_trans c t hc hk hx hy (hl z (by simp [hz])) hs.1 this

theorem sortedBy_cons_iff {x : Val} {l : List Val} (hx : hasType t x = true)
    (hl : ∀ z ∈ l, hasType t z = true) :
    sortedBy c (x :: l) = true ↔ (∀ z ∈ l, kcmp c x z = .lt) ∧ sortedBy c l = true :=
  ⟨fun h => ⟨sortedBy_head_lt c t hc hk l x hx hl h, sortedBy_tail c h⟩,
   fun h => sortedBy_of_head_lt c h.1 h.2⟩

theorem sortedBy_prefix : ∀ (l1 l2 : List Val), (∀ z ∈ l1 ++ l2, hasType t z = true) →
    sortedBy c (l1 ++ l2) = true → sortedBy c l1 = true
  | [], _, _, _ => rfl
  | x :: l1, l2, hl, hs => by
      have hx := hl x (by simp)
      have hl' : ∀ z ∈ l1 ++ l2, hasType t z = true := fun z hz => hl z (by simp [List.mem_append.mp hz])
      rw [List.cons_append, sortedBy_cons_iff c t hc hk hx hl'] at hs
      rw [sortedBy_cons_iff c t hc hk hx (fun z hz => hl' z (by simp [hz]))]
      exact ⟨fun z hz => hs.1 z (by simp [hz]), sortedBy_prefix l1 l2 hl' hs.2⟩

/-- in a strictly ascending list every key occurs once -/
theorem sortedBy_key_unique : ∀ (l : List Val), (∀ z ∈ l, hasType t z = true) → sortedBy c l = true →
    ∀ x ∈ l, ∀ y ∈ l, keyOf c x = keyOf c y → x = y
  | [], _, _, _, hx, _, _, _ => by simp at hx
  | a :: l, hl, hs, x, hx, y, hy, he => by
      have ha := hl a (by simp)
      have hl' : ∀ z ∈ l, hasType t z = true := fun z hz => hl z (by simp [hz])
      rw [sortedBy_cons_iff c t hc hk ha hl'] at hs
      have hex : kcmp c x y = .eq := (kcmp_eq_iff c t hc hk (hl x hx) (hl y hy)).mpr he
      have hey : kcmp c y x = .eq := (kcmp_eq_iff c t hc hk (hl y hy) (hl x hx)).mpr he.symm
      rcases List.mem_cons.mp hx with rfl | hx' <;> rcases List.mem_cons.mp hy with rfl | hy'
      · rfl
      · rw [hs.1 y hy'] at hex; cases hex
      · rw [hs.1 x hx'] at hey; cases hey
      · exact sortedBy_key_unique l hl' hs.2 x hx' y hy' he

/-! ### `insertBy` -/

omit hc hk in
theorem mem_insertBy_sub (x : Val) : ∀ (l : List Val) (e : Val), e ∈ insertBy c x l → e = x ∨ e ∈ l
  | [], e, h => by simpa [insertBy] using h
  | y :: l, e, h => by
      unfold insertBy at h
      cases hxy : Val.cmp (keyOf c x) (keyOf c y) <;> rw [hxy] at h <;> simp only [List.mem_cons] at h ⊢
      · exact h
      · rcases h with h | h
        · exact .inl h
        · exact .inr (.inr h)
      · rcases h with h | h
        · exact .inr (.inl h)
        · rcases mem_insertBy_sub x l e h with h | h
          · exact .inl h
          · exact .inr (.inr h)

omit hc hk in
theorem insertBy_typed {x : Val} {l : List Val} (hx : hasType t x = true)
    (hl : ∀ z ∈ l, hasType t z = true) : ∀ z ∈ insertBy c x l, hasType t z = true := by
  intro z hz
  rcases mem_insertBy_sub c x l z hz with rfl | h
  · exact hx
  · exact hl z h

/-- inserting into a strictly ascending list keeps it strictly ascending -/
theorem insertBy_sorted (x : Val) (hx : hasType t x = true) : ∀ (l : List Val),
    (∀ z ∈ l, hasType t z = true) → sortedBy c l = true → sortedBy c (insertBy c x l) = true
  | [], _, _ => rfl
  | y :: l, hl, hs => by
      have hy := hl y (by simp)
      have hl' : ∀ z ∈ l, hasType t z = true := fun z hz => hl z (by simp [hz])
      have hs' := (sortedBy_cons_iff c t hc hk hy hl').mp hs
      unfold insertBy
      cases hxy : Val.cmp (keyOf c x) (keyOf c y) <;> simp only
      · -- x below y
        rw [sortedBy_cons_iff c t hc hk hx hl]
        refine ⟨fun z hz => ?_, hs⟩
        rcases List.mem_cons.mp hz with rfl | hz
        · exact hxy
        · exact kcmp_trans c t hc hk hx hy (hl' z hz) hxy (hs'.1 z hz)
      · -- equal keys: x replaces y
        rw [sortedBy_cons_iff c t hc hk hx hl']
        refine ⟨fun z hz => ?_, hs'.2⟩
        have := (kcmp_eq_iff c t hc hk hx hy).mp hxy
        have h2 := hs'.1 z hz
        unfold kcmp at h2 ⊢; rw [this]; exact h2
      · -- x above y
        have hi := insertBy_typed c t hx hl'
        rw [sortedBy_cons_iff c t hc hk hy hi]
        refine ⟨fun z hz => ?_, insertBy_sorted x hx l hl' hs'.2⟩
        rcases mem_insertBy_sub c x l z hz with rfl | hz
        · exact (kcmp_antisymm c t hc hk hy hx).mpr hxy
        · exact hs'.1 z hz

/-- the entries after an insertion: the new entry and the old ones with a different key -/
theorem mem_insertBy_iff (x : Val) (hx : hasType t x = true) : ∀ (l : List Val),
    (∀ z ∈ l, hasType t z = true) → sortedBy c l = true →
    ∀ e, e ∈ insertBy c x l ↔ e = x ∨ (e ∈ l ∧ keyOf c e ≠ keyOf c x)
  | [], _, _, e => by simp [insertBy]
  | y :: l, hl, hs, e => by
      have hy := hl y (by simp)
      have hl' : ∀ z ∈ l, hasType t z = true := fun z hz => hl z (by simp [hz])
      have hs' := (sortedBy_cons_iff c t hc hk hy hl').mp hs
      have ne_of_gt : ∀ z, hasType t z = true → kcmp c x z = .lt → keyOf c z ≠ keyOf c x := by
        intro z hz h he
        have := (kcmp_eq_iff c t hc hk hx hz).mpr he.symm
        rw [h] at this; cases this
      unfold insertBy
      cases hxy : Val.cmp (keyOf c x) (keyOf c y) <;> simp only [List.mem_cons]
      · -- x below everything
        constructor
        · rintro (h | h | h)
          · exact .inl h
          · subst h; exact .inr ⟨.inl rfl, ne_of_gt e hy hxy⟩
          · exact .inr ⟨.inr h, ne_of_gt e (hl' e h)
              (kcmp_trans c t hc hk hx hy (hl' e h) hxy (hs'.1 e h))⟩
        · rintro (h | ⟨h | h, _⟩)
          · exact .inl h
          · exact .inr (.inl h)
          · exact .inr (.inr h)
      · -- x replaces y
        have hke := (kcmp_eq_iff c t hc hk hx hy).mp hxy
        constructor
        · rintro (h | h)
          · exact .inl h
          · refine .inr ⟨.inr h, ne_of_gt e (hl' e h) ?_⟩
            have h2 := hs'.1 e h
            unfold kcmp at h2 ⊢; rw [hke]; exact h2
        · rintro (h | ⟨h | h, hne⟩)
          · exact .inl h
          · subst h; exact absurd hke.symm hne
          · exact .inr h
      · -- x goes further back
        have hyx : kcmp c y x = .lt := (kcmp_antisymm c t hc hk hy hx).mpr hxy
        rw [mem_insertBy_iff x hx l hl' hs'.2 e]
        constructor
        · rintro (h | h | ⟨h, hne⟩)
          · subst h
            refine .inr ⟨.inl rfl, fun he => ?_⟩
            have := (kcmp_eq_iff c t hc hk hy hx).mpr he
            rw [hyx] at this; cases this
          · exact .inl h
          · exact .inr ⟨.inr h, hne⟩
        · rintro (h | ⟨h | h, hne⟩)
          · exact .inr (.inl h)
          · exact .inl h
          · exact .inr (.inr ⟨h, hne⟩)

/-- an entry above all entries of a strictly ascending list is appended -/
theorem insertBy_append (x : Val) : ∀ (l : List Val), (∀ z ∈ l ++ [x], hasType t z = true) →
    sortedBy c (l ++ [x]) = true → insertBy c x l = l ++ [x]
  | [], _, _ => rfl
  | y :: l, hl, hs => by
      have hy := hl y (by simp)
      have hx := hl x (by simp)
      have hl' : ∀ z ∈ l ++ [x], hasType t z = true := fun z hz => hl z (List.mem_cons_of_mem _ hz)
      rw [List.cons_append, sortedBy_cons_iff c t hc hk hy hl'] at hs
      have hyx : kcmp c x y = .gt := (kcmp_antisymm c t hc hk hy hx).mp (hs.1 x (by simp))
      unfold kcmp at hyx
      unfold insertBy
      rw [hyx]; simp only
      rw [insertBy_append x l hl' hs.2]; rfl

/-! ### `collect` -/

omit hc hk in
theorem collect_vec (vs : List Val) : collect .vec vs = vs := by simp [collect]

omit hk in
theorem collect_eq_foldl (vs : List Val) :
    collect c vs = vs.foldl (fun acc x => insertBy c x acc) [] := by
  cases c with
  | vec => exact absurd rfl hc
  | set => simp [collect]
  | map => simp [collect]

omit hc hk in
theorem collect_nil : collect c [] = [] := by cases c <;> simp [collect]

omit hk in
/-- collecting one more entry is one insertion -/
theorem collect_append_singleton (vs : List Val) (x : Val) :
    collect c (vs ++ [x]) = insertBy c x (collect c vs) := by
  rw [collect_eq_foldl c hc, collect_eq_foldl c hc, List.foldl_append]; rfl

theorem foldl_insert_sorted : ∀ (vs acc : List Val), (∀ z ∈ vs, hasType t z = true) →
    (∀ z ∈ acc, hasType t z = true) → sortedBy c acc = true →
    sortedBy c (vs.foldl (fun acc x => insertBy c x acc) acc) = true ∧
    ∀ z ∈ vs.foldl (fun acc x => insertBy c x acc) acc, hasType t z = true
  | [], acc, _, ha, hs => ⟨hs, ha⟩
  | v :: vs, acc, hv, ha, hs => by
      have hv0 := hv v (by simp)
      exact foldl_insert_sorted vs (insertBy c v acc) (fun z hz => hv z (by simp [hz]))
        (insertBy_typed c t hv0 ha) (insertBy_sorted c t hc hk v hv0 acc ha hs)

theorem foldl_insert_of_sorted : ∀ (vs acc : List Val), (∀ z ∈ acc ++ vs, hasType t z = true) →
    sortedBy c (acc ++ vs) = true → vs.foldl (fun acc x => insertBy c x acc) acc = acc ++ vs
  | [], acc, _, _ => by simp
  | v :: vs, acc, hl, hs => by
      have e : acc ++ v :: vs = (acc ++ [v]) ++ vs := by simp
      rw [e] at hl hs
      have h1 : ∀ z ∈ acc ++ [v], hasType t z = true := fun z hz => hl z (List.mem_append_left _ hz)
      have := insertBy_append c t hc hk v acc h1 (sortedBy_prefix c t hc hk _ _ hl hs)
      rw [List.foldl_cons, this, foldl_insert_of_sorted vs (acc ++ [v]) hl hs, e]

/-- the entries after a run of insertions: every listed entry that is not followed by an entry with
    the same key, and the old entries whose key is not listed -/
theorem mem_foldl_insert_iff : ∀ (vs acc : List Val), (∀ z ∈ vs, hasType t z = true) →
    (∀ z ∈ acc, hasType t z = true) → sortedBy c acc = true → ∀ e,
    e ∈ vs.foldl (fun acc x => insertBy c x acc) acc ↔
      (∃ l1 l2, vs = l1 ++ e :: l2 ∧ ∀ y ∈ l2, keyOf c y ≠ keyOf c e) ∨
      (e ∈ acc ∧ ∀ y ∈ vs, keyOf c y ≠ keyOf c e)
  | [], acc, _, _, _, e => by simp
  | v :: vs, acc, hv, ha, hs, e => by
      have hv0 := hv v (by simp)
      rw [List.foldl_cons, mem_foldl_insert_iff vs (insertBy c v acc) (fun z hz => hv z (by simp [hz]))
        (insertBy_typed c t hv0 ha) (insertBy_sorted c t hc hk v hv0 acc ha hs) e,
        mem_insertBy_iff c t hc hk v hv0 acc ha hs e]
      constructor
      · rintro (⟨l1, l2, rfl, h⟩ | ⟨rfl | ⟨h1, h2⟩, h3⟩)
        · exact .inl ⟨v :: l1, l2, rfl, h⟩
        · exact .inl ⟨[], vs, rfl, h3⟩
        · refine .inr ⟨h1, fun y hy => ?_⟩
          rcases List.mem_cons.mp hy with rfl | hy
          · exact fun h => h2 h.symm
          · exact h3 y hy
      · rintro (⟨l1, l2, he, h⟩ | ⟨h1, h2⟩)
        · cases l1 with
          | nil =>
            simp only [List.nil_append, List.cons.injEq] at he
            obtain ⟨rfl, rfl⟩ := he
            exact .inr ⟨.inl rfl, h⟩
          | cons a l1 =>
            simp only [List.cons_append, List.cons.injEq] at he
            exact .inl ⟨l1, l2, he.2, h⟩
        · exact .inr ⟨.inr ⟨h1, fun h => h2 v (by simp) h.symm⟩, fun y hy => h2 y (by simp [hy])⟩

end typed

/-- collected entries are well-typed and strictly ascending by key -/
theorem collect_is_sorted (c : CKind) (t : Ty) (vs : List Val) (hc : c ≠ .vec)
    (hk : keyTyOk c t = true) (ht : hasTypeAll t vs = true) : sortedBy c (collect c vs) = true := by
  rw [collect_eq_foldl c hc]
  exact (foldl_insert_sorted c t hc hk vs [] ((hasTypeAll_iff t vs).mp ht) (by simp) rfl).1

theorem collect_typed (c : CKind) (t : Ty) (vs : List Val) (hk : keyTyOk c t = true)
    (ht : hasTypeAll t vs = true) : hasTypeAll t (collect c vs) = true := by
  by_cases hc : c = .vec
  · subst hc; rw [collect_vec]; exact ht
  · rw [collect_eq_foldl c hc, hasTypeAll_iff]
    exact (foldl_insert_sorted c t hc hk vs [] ((hasTypeAll_iff t vs).mp ht) (by simp) rfl).2

/-- what a decoded set / map value satisfies -/
theorem collect_hasType (c : CKind) (t : Ty) (vs : List Val) (hk : keyTyOk c t = true)
    (ht : hasTypeAll t vs = true) : hasType (.list c t) (.list (collect c vs)) = true := by
  simp only [hasType, Bool.and_eq_true, Bool.or_eq_true, beq_iff_eq]
  refine ⟨collect_typed c t vs hk ht, ?_⟩
  by_cases hc : c = .vec
  · exact .inl hc
  · exact .inr (collect_is_sorted c t vs hc hk ht)

/-- `collect` keeps exactly the listed entries that are not followed by an entry with the same key
    (a later duplicate key replaces an earlier one) -/
theorem mem_collect_iff (c : CKind) (t : Ty) (vs : List Val) (hc : c ≠ .vec)
    (hk : keyTyOk c t = true) (ht : hasTypeAll t vs = true) (e : Val) :
    e ∈ collect c vs ↔ ∃ l1 l2, vs = l1 ++ e :: l2 ∧ ∀ y ∈ l2, keyOf c y ≠ keyOf c e := by
  rw [collect_eq_foldl c hc,
    mem_foldl_insert_iff c t hc hk vs [] ((hasTypeAll_iff t vs).mp ht) (by simp) rfl e]
  simp

/-- collecting a strictly ascending entry list gives the list back -/
theorem collect_of_sorted (c : CKind) (t : Ty) (vs : List Val) (hk : keyTyOk c t = true)
    (ht : hasTypeAll t vs = true) (hs : (c == .vec || sortedBy c vs) = true) : collect c vs = vs := by
  by_cases hc : c = .vec
  · subst hc; exact collect_vec vs
  · have hs' : sortedBy c vs = true := by simpa [hc] using hs
    rw [collect_eq_foldl c hc]
    simpa using foldl_insert_of_sorted c t hc hk vs [] (by simpa using (hasTypeAll_iff t vs).mp ht)
      (by simpa using hs')

theorem collect_idem (c : CKind) (t : Ty) (vs : List Val) (hk : keyTyOk c t = true)
    (ht : hasTypeAll t vs = true) : collect c (collect c vs) = collect c vs := by
  have h := collect_hasType c t vs hk ht
  simp only [hasType, Bool.and_eq_true] at h
  exact collect_of_sorted c t _ hk h.1 h.2

end Ssz.Ord