import SszProofs.Lemmas.Preds
import SszProofs.Lemmas.Order
/-
  INTERFACE (statement fixed); the proof is `collect_of_sorted` of the C19 lemma library
  (`SszProofs/Lemmas/Order.lean`).
-/
namespace Ssz
open Ssz.Ord
/-- collecting an already strictly ascending entry list (what `hasType` demands of set / map values)
    gives the list back -/
theorem collect_sorted (c : CKind) (t : Ty) (vs : List Val) (hk : keyTyOk c t = true)
    (ht : hasTypeAll t vs = true) (hs : (c == .vec || sortedBy c vs) = true) : collect c vs = vs :=
  collect_of_sorted c t vs hk ht hs

end Ssz
