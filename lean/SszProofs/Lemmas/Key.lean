import SszModel.Builder
import SszProofs.Lemmas.Offset
set_option linter.unusedSimpArgs false
namespace Ssz

def Reg.size : Reg → Nat | .fixed n => n | .var => 4
def fixedSize : List Reg → Nat
  | [] => 0
  | r :: rs => r.size + fixedSize rs

/-! ### encoder side, functional form -/
def fpart : List Reg → List Bytes → Nat → Bytes
  | .fixed _ :: rs, it :: its, o => it ++ fpart rs its o
  | .var :: rs, it :: its, o => encodeLength o ++ fpart rs its (o + it.length)
  | _, _, _ => []
def vpart : List Reg → List Bytes → Bytes
  | .fixed _ :: rs, _ :: its => vpart rs its
  | .var :: rs, it :: its => it ++ vpart rs its
  | _, _ => []

theorem go_eq (rs : List Reg) (its : List Bytes) (e : Enc) :
    (encodeItemsGo rs its e).finalize
      = e.buf ++ fpart rs its (e.offset + e.var.length) ++ (e.var ++ vpart rs its) := by
  induction rs generalizing its e with
  | nil => simp [encodeItemsGo, Enc.finalize, fpart, vpart]
  | cons r rs ih =>
    cases its with
    | nil => cases r <;> simp [encodeItemsGo, Enc.finalize, fpart, vpart]
    | cons it its =>
      cases r with
      | fixed n => simp [encodeItemsGo, Enc.append, ih, fpart, vpart]
      | var => simp [encodeItemsGo, Enc.append, ih, fpart, vpart, Nat.add_assoc]

theorem fixedSize_eq (rs : List Reg) :
    (rs.map fun | .fixed n => n | .var => 4).sum = fixedSize rs := by
  induction rs with
  | nil => rfl
  | cons r rs ih => cases r <;> simp [fixedSize, Reg.size, ih]

theorem encodeItems_eq (rs : List Reg) (its : List Bytes) :
    encodeItems rs its = fpart rs its (fixedSize rs) ++ vpart rs its := by
  unfold encodeItems
  rw [go_eq]
  simp only [List.nil_append, List.length_nil, Nat.add_zero]
  exact congrArg (fun k => fpart rs its k ++ vpart rs its) (fixedSize_eq rs)


/-! ### decoder side -/
def Shape : List Reg → List Bytes → List (Nat × Nat) → Nat → Prop
  | [], [], [], _ => True
  | .fixed n :: S, it :: its, offs, base => it.length = n ∧ Shape S its offs (base+1)
  | .var :: S, it :: its, (p, _) :: offs, base => it = [] ∧ p = base ∧ Shape S its offs (base+1)
  | _, _, _, _ => False

def fpartD : List Reg → List Bytes → List Nat → Bytes
  | .fixed _ :: S, it :: its, os => it ++ fpartD S its os
  | .var :: S, _ :: its, o :: os => le 4 o ++ fpartD S its os
  | _, _, _ => []

def Chain : Option Nat → List Nat → Nat → Prop
  | _, [], _ => True
  | prev, o :: os, len => (∀ p, prev = some p → p ≤ o) ∧ o ≤ len ∧ o < 2^32 ∧ Chain (some o) os len

theorem fromLE_lt (x : Bytes) : fromLE x < 256 ^ x.length := by
  induction x with
  | nil => simp [fromLE]
  | cons b bs ih =>
    simp only [fromLE, List.length_cons, Nat.pow_succ]
    have := b.toNat_lt
    omega

theorem le_fromLE (x : Bytes) : le x.length (fromLE x) = x := by
  induction x with
  | nil => rfl
  | cons b bs ih =>
    simp only [List.length_cons, le, fromLE]
    have hb := b.toNat_lt
    have h1 : (b.toNat + 256 * fromLE bs) % 256 = b.toNat := by omega
    have h2 : (b.toNat + 256 * fromLE bs) / 256 = fromLE bs := by omega
    rw [h1, h2, ih]
    simp

theorem readOffset_some {b : Bytes} {o : Nat} (h : readOffset b = some o) :
    4 ≤ b.length ∧ le 4 o = b.take 4 ∧ o < 2^32 := by
  unfold readOffset at h
  split at h
  · injection h with h
    subst h
    rename_i hl
    have hlen : (b.take 4).length = 4 := by simp; omega
    refine ⟨hl, ?_, ?_⟩
    · have := le_fromLE (b.take 4); rw [hlen] at this; exact this
    · have := fromLE_lt (b.take 4); rw [hlen] at this; simpa using this
  · cases h

theorem sanitize_none_some {off : Nat} {prev : Option Nat} {len o : Nat}
    (h : sanitizeOffset off prev len none = some o) :
    o = off ∧ off ≤ len ∧ (∀ p, prev = some p → p ≤ off) := by
  unfold sanitizeOffset at h
  simp only [Option.any_none, Bool.false_eq_true, ↓reduceIte, Bool.and_false] at h
  split at h
  · cases h
  · split at h
    · cases h
    · injection h with h
      rename_i h1 h2
      refine ⟨h.symm, by omega, ?_⟩
      intro p hp
      subst hp
      simp at h2
      omega


theorem take_add_drop (b : Bytes) (i n m : Nat) :
    (b.drop i).take (n + m) = (b.drop i).take n ++ (b.drop (i + n)).take m := by
  rw [List.take_add, List.drop_drop]

theorem registerAll_sound : ∀ (S : List Reg) (s s' : Builder),
    registerAll s S = .ok s' → s.idx ≤ s.bytes.length →
    ∃ its offs, s'.bytes = s.bytes ∧ s'.idx = s.idx + fixedSize S ∧ s'.idx ≤ s.bytes.length ∧
      s'.items = s.items ++ its ∧ s'.offsets = s.offsets ++ offs ∧
      Shape S its offs s.items.length ∧
      (s.bytes.drop s.idx).take (fixedSize S) = fpartD S its (offs.map (·.2)) ∧
      Chain (s.offsets.getLast?.map (·.2)) (offs.map (·.2)) s.bytes.length
  | [], s, s', h, hidx => by
      simp only [registerAll] at h
      injection h with h
      subst h
      exact ⟨[], [], rfl, by simp [fixedSize], hidx, by simp, by simp, by simp [Shape], by simp [fixedSize, fpartD], by simp [Chain]⟩
  | .fixed n :: S, s, s', h, hidx => by
      simp only [registerAll, Builder.register] at h
      split at h
      · rename_i s₁ hreg
        split at hreg
        · rename_i hle
          injection hreg with hreg
          subst hreg
          obtain ⟨its, offs, hb, hi, hil, hit, hof, hsh, hfp, hch⟩ := registerAll_sound S _ s' h (by simpa using hle)
          simp only at hb hi hil hit hof hsh hfp hch
          refine ⟨(s.bytes.drop s.idx).take n :: its, offs, hb, ?_, hil, ?_, hof, ?_, ?_, hch⟩
          · simp [hi, fixedSize, Reg.size, Nat.add_assoc]
          · simp [hit]
          · simp only [Shape]
            refine ⟨?_, ?_⟩
            · simp; omega
            · simpa using hsh
          · simp only [fixedSize, Reg.size, fpartD, take_add_drop, hfp]
        · cases hreg
      · cases h
      · cases h
  | .var :: S, s, s', h, hidx => by
      simp only [registerAll, Builder.register] at h
      split at h
      · rename_i s₁ hreg
        split at hreg
        · cases hreg
        · split at hreg
          · cases hreg
          · rename_i off hro
            split at hreg
            · cases hreg
            · rename_i off' hsan
              injection hreg with hreg
              subst hreg
              obtain ⟨hl4, hle4, hlt⟩ := readOffset_some hro
              obtain ⟨heq, hlen, hprev⟩ := sanitize_none_some hsan
              subst heq
              have hidx' : s.idx + 4 ≤ s.bytes.length := by simp at hl4; omega
              obtain ⟨its, offs, hb, hi, hil, hit, hof, hsh, hfp, hch⟩ := registerAll_sound S _ s' h (by simpa using hidx')
              simp only at hb hi hil hit hof hsh hfp hch
              refine ⟨[] :: its, (s.items.length, off') :: offs, hb, ?_, hil, ?_, ?_, ?_, ?_, ?_⟩
              · simp [hi, fixedSize, Reg.size, Nat.add_assoc]
              · simp [hit]
              · simp [hof]
              · simp only [Shape, true_and]
                simpa using hsh
              · simp only [fixedSize, Reg.size, List.map_cons, fpartD, take_add_drop, hfp, hle4]
              · simp only [List.map_cons, Chain]
                refine ⟨hprev, hlen, hlt, ?_⟩
                simpa using hch
      · cases h
      · cases h


/-! ### finalize -/
def fill (b : Bytes) : List Reg → List Bytes → List Nat → List Bytes
  | .fixed _ :: S, it :: its, os => it :: fill b S its os
  | .var :: S, _ :: its, [o] => b.drop o :: fill b S its []
  | .var :: S, _ :: its, o :: o' :: os => (b.drop o).take (o' - o) :: fill b S its (o' :: os)
  | _, _, _ => []

theorem fill_nil (b : Bytes) : ∀ (S : List Reg) (its : List Bytes) (base : Nat),
    Shape S its [] base → fill b S its [] = its
  | [], [], _, _ => by simp [fill]
  | [], _ :: _, _, h => by simp [Shape] at h
  | .fixed n :: S, [], _, h => by simp [Shape] at h
  | .fixed n :: S, it :: its, base, h => by
      simp only [Shape] at h
      simp [fill, fill_nil b S its (base+1) h.2]
  | .var :: S, [], _, h => by simp [Shape] at h
  | .var :: S, _ :: _, _, h => by simp [Shape] at h

theorem setSlices_fill (b : Bytes) : ∀ (S : List Reg) (its : List Bytes) (offs : List (Nat × Nat)) (pre : List Bytes),
    Shape S its offs pre.length → setSlices b offs (pre ++ its) = pre ++ fill b S its (offs.map (·.2))
  | [], [], [], pre, _ => by simp [setSlices, fill]
  | [], [], _ :: _, _, h => by simp [Shape] at h
  | [], _ :: _, _, _, h => by simp [Shape] at h
  | .fixed n :: S, [], _, _, h => by simp [Shape] at h
  | .fixed n :: S, it :: its, offs, pre, h => by
      simp only [Shape] at h
      have := setSlices_fill b S its offs (pre ++ [it]) (by simpa using h.2)
      simp only [List.append_assoc, List.singleton_append] at this
      simp [fill, this]
  | .var :: S, [], _, _, h => by simp [Shape] at h
  | .var :: S, _ :: _, [], _, h => by simp [Shape] at h
  | .var :: S, it :: its, [(p, o)], pre, h => by
      simp only [Shape] at h
      obtain ⟨hit, hp, hsh⟩ := h
      subst hit hp
      simp [setSlices, fill, fill_nil b S its _ hsh]
  | .var :: S, it :: its, (p, o) :: (p', o') :: offs, pre, h => by
      simp only [Shape] at h
      obtain ⟨hit, hp, hsh⟩ := h
      subst hit hp
      have := setSlices_fill b S its ((p', o') :: offs) (pre ++ [(b.drop o).take (o' - o)]) (by simpa using hsh)
      simp only [List.append_assoc, List.singleton_append] at this
      simp [setSlices, fill, this]


/-! ### assembly -/
theorem encodeLength_lt {o : Nat} (h : o < 2^32) : encodeLength o = le 4 o := by
  simp [encodeLength, Nat.mod_eq_of_lt h]

theorem novar (b : Bytes) : ∀ (S : List Reg) (its : List Bytes) (base o : Nat),
    Shape S its [] base → fpart S its o = fpartD S its [] ∧ vpart S its = [] ∧ itemsFit S its = true
  | [], [], _, _, _ => by simp [fpart, fpartD, vpart, itemsFit]
  | [], _ :: _, _, _, h => by simp [Shape] at h
  | .fixed n :: S, [], _, _, h => by simp [Shape] at h
  | .fixed n :: S, it :: its, base, o, h => by
      simp only [Shape] at h
      obtain ⟨h1, h2, h3⟩ := novar b S its (base+1) o h.2
      simp [fpart, fpartD, vpart, itemsFit, h1, h2, h3, h.1]
  | .var :: S, [], _, _, h => by simp [Shape] at h
  | .var :: S, _ :: _, _, _, h => by simp [Shape] at h

/-- with remaining offsets `o :: os`, the encoder's running offset must be `o` -/
theorem enc_fill (b : Bytes) : ∀ (S : List Reg) (its : List Bytes) (offs : List (Nat × Nat)) (base : Nat) (prev : Option Nat) (o : Nat) (os : List Nat),
    Shape S its offs base → offs.map (·.2) = o :: os → Chain prev (o :: os) b.length →
    fpart S (fill b S its (o :: os)) o = fpartD S its (o :: os) ∧
    vpart S (fill b S its (o :: os)) = b.drop o ∧
    itemsFit S (fill b S its (o :: os)) = true
  | [], [], [], _, _, _, _, _, h, _ => by simp at h
  | [], [], _ :: _, _, _, _, _, h, _, _ => by simp [Shape] at h
  | [], _ :: _, _, _, _, _, _, h, _, _ => by simp [Shape] at h
  | .fixed n :: S, [], _, _, _, _, _, h, _, _ => by simp [Shape] at h
  | .fixed n :: S, it :: its, offs, base, prev, o, os, h, hm, hc => by
      simp only [Shape] at h
      obtain ⟨h1, h2, h3⟩ := enc_fill b S its offs (base+1) prev o os h.2 hm hc
      simp [fpart, fpartD, vpart, itemsFit, fill, h1, h2, h3, h.1]
  | .var :: S, [], _, _, _, _, _, h, _, _ => by simp [Shape] at h
  | .var :: S, _ :: _, [], _, _, _, _, h, _, _ => by simp [Shape] at h
  | .var :: S, it :: its, [(p, o₁)], base, prev, o, os, h, hm, hc => by
      simp only [Shape] at h
      simp only [List.map_cons, List.map_nil, List.cons.injEq] at hm
      obtain ⟨rfl, rfl⟩ := hm
      simp only [Chain] at hc
      obtain ⟨h1, h2, h3⟩ := novar b S its (base+1) (o₁ + (b.length - o₁)) h.2.2
      simp [fpart, fpartD, vpart, itemsFit, fill, fill_nil b S its _ h.2.2, h1, h2, h3, encodeLength_lt hc.2.2.1]
  | .var :: S, it :: its, (p, o₁) :: (p', o₂) :: offs, base, prev, o, os, h, hm, hc => by
      simp only [Shape] at h
      simp only [List.map_cons, List.cons.injEq] at hm
      obtain ⟨rfl, rfl⟩ := hm
      simp only [Chain] at hc
      obtain ⟨_, _, hlt, hle12, hle2, hlt2, hc'⟩ := hc
      have hle12 : o₁ ≤ o₂ := hle12 o₁ rfl
      have hlen : ((b.drop o₁).take (o₂ - o₁)).length = o₂ - o₁ := by simp; omega
      obtain ⟨h1, h2, h3⟩ := enc_fill b S its ((p', o₂) :: offs) (base+1) (some o₁) o₂ (offs.map (·.2)) h.2.2 (by simp)
        (by simp only [Chain]; exact ⟨fun p hp => by cases hp; exact hle12, hle2, hlt2, hc'⟩)
      have hcur : o₁ + (o₂ - o₁) = o₂ := by omega
      simp only [fill, fpart, fpartD, vpart, itemsFit, hlen, hcur, h1, h2, h3, encodeLength_lt hlt, List.map_cons]
      refine ⟨trivial, ?_, trivial⟩
      have : b.drop o₂ = (b.drop o₁).drop (o₂ - o₁) := by rw [List.drop_drop]; congr 1; omega
      rw [this, List.take_append_drop]

theorem build_sound (regs : List Reg) (b : Bytes) (items : List Bytes)
    (h : build regs b = .ok items) : encodeItems regs items = b ∧ itemsFit regs items = true := by
  unfold build at h
  split at h
  · rename_i s' hreg
    obtain ⟨its, offs, hb, hi, hil, hit, hof, hsh, hfp, hch⟩ := registerAll_sound regs _ s' hreg (by simp)
    simp only [List.nil_append, List.length_nil, List.drop_zero, Nat.zero_add, List.getLast?_nil, Option.map_none] at hb hi hil hit hof hsh hfp hch
    rw [encodeItems_eq]
    unfold Builder.finalize at h
    rw [hof, hit, hb, hi] at h
    cases offs with
    | nil =>
      simp only [bne_iff_ne, ne_eq, ite_not] at h
      split at h
      · rename_i hlen
        injection h with h
        subst h
        obtain ⟨h1, h2, h3⟩ := novar b regs its 0 (fixedSize regs) hsh
        refine ⟨?_, h3⟩
        simp only [List.map_nil] at hfp
        rw [h1, h2, ← hfp, List.append_nil, hlen, List.take_length]
      · cases h
    | cons po offs' =>
      obtain ⟨p, o⟩ := po
      simp only at h
      split at h
      · cases h
      · split at h
        · cases h
        · rename_i h1 h2
          have ho : o = fixedSize regs := by omega
          injection h with h
          have hsf := setSlices_fill b regs its ((p, o) :: offs') [] (by simpa using hsh)
          simp only [List.nil_append, List.map_cons] at hsf
          rw [hsf] at h
          subst h
          obtain ⟨e1, e2, e3⟩ := enc_fill b regs its ((p, o) :: offs') 0 none o (offs'.map (·.2)) hsh (by simp) (by simpa using hch)
          refine ⟨?_, e3⟩
          rw [← ho, e1, e2]
          simp only [List.map_cons] at hfp
          rw [← hfp, ← ho, List.take_append_drop]
  · cases h
  · cases h

end Ssz
