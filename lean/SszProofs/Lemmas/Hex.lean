import SszModel.Serde
set_option linter.unusedSimpArgs false
set_option linter.unusedVariables false
/-
  Facts about the hex codec of `SszModel/Serde.lean` (`hex::encode` / `hex::decode` 0.4.3 and the
  `0x`-prefixed wrappers of `ethereum_serde_utils` 0.8.1). Strings are UTF-8 byte lists.
-/
namespace Ssz.Hex
open Ssz

/-- `0-9`, `a-f` or `A-F` -/
def isHexDigit (c : UInt8) : Bool :=
  (decide (48 ≤ c.toNat) && decide (c.toNat ≤ 57)) ||
  (decide (97 ≤ c.toNat) && decide (c.toNat ≤ 102)) ||
  (decide (65 ≤ c.toNat) && decide (c.toNat ≤ 70))

/-- `0-9` or `a-f` -/
def isLowerHexDigit (c : UInt8) : Bool :=
  (decide (48 ≤ c.toNat) && decide (c.toNat ≤ 57)) ||
  (decide (97 ≤ c.toNat) && decide (c.toNat ≤ 102))

theorem isHexDigit_of_lower (c : UInt8) (h : isLowerHexDigit c = true) : isHexDigit c = true := by
  unfold isHexDigit; unfold isLowerHexDigit at h; rw [h]; rfl

/-! ### single digits -/

theorem hexVal_digit : ∀ n < 16, hexVal (hexDigitLower n) = some n := by decide +kernel

theorem digit_lower : ∀ n < 16, isLowerHexDigit (hexDigitLower n) = true := by decide +kernel

theorem hexVal_isSome_iff (c : UInt8) : (∃ x, hexVal c = some x) ↔ isHexDigit c = true := by
  unfold hexVal isHexDigit
  by_cases h1 : 48 ≤ c.toNat ∧ c.toNat ≤ 57
  · rw [if_pos h1]; simp [h1.1, h1.2]
  · rw [if_neg h1]
    by_cases h2 : 97 ≤ c.toNat ∧ c.toNat ≤ 102
    · rw [if_pos h2]; simp [h2.1, h2.2]
    · rw [if_neg h2]
      by_cases h3 : 65 ≤ c.toNat ∧ c.toNat ≤ 70
      · rw [if_pos h3]; simp [h3.1, h3.2]
      · rw [if_neg h3]
        simp only [reduceCtorEq, exists_false, false_iff, Bool.or_eq_true, Bool.and_eq_true,
          decide_eq_true_eq, not_or]
        exact ⟨⟨h1, h2⟩, h3⟩

theorem hexVal_none_iff (c : UInt8) : hexVal c = none ↔ isHexDigit c = false := by
  have := hexVal_isSome_iff c
  cases hv : hexVal c with
  | none =>
    rw [hv] at this
    cases hd : isHexDigit c with
    | false => simp
    | true => exact absurd (this.mpr hd) (by simp)
  | some x =>
    rw [hv] at this
    have : isHexDigit c = true := this.mp ⟨x, rfl⟩
    simp [this]

theorem hexVal_lt (c : UInt8) (x : Nat) (h : hexVal c = some x) : x < 16 := by
  unfold hexVal at h
  by_cases h1 : 48 ≤ c.toNat ∧ c.toNat ≤ 57
  · rw [if_pos h1] at h; injection h with h; omega
  · rw [if_neg h1] at h
    by_cases h2 : 97 ≤ c.toNat ∧ c.toNat ≤ 102
    · rw [if_pos h2] at h; injection h with h; omega
    · rw [if_neg h2] at h
      by_cases h3 : 65 ≤ c.toNat ∧ c.toNat ≤ 70
      · rw [if_pos h3] at h; injection h with h; omega
      · rw [if_neg h3] at h; cases h

/-- the two digits written for a byte read back as that byte -/
theorem byte_roundtrip (x : UInt8) :
    hexVal (hexDigitLower (x.toNat / 16)) = some (x.toNat / 16) ∧
    hexVal (hexDigitLower (x.toNat % 16)) = some (x.toNat % 16) ∧
    UInt8.ofNat (x.toNat / 16 * 16 + x.toNat % 16) = x := by
  have hx : x.toNat < 256 := x.toNat_lt
  refine ⟨hexVal_digit _ (by omega), hexVal_digit _ (by omega), ?_⟩
  have : x.toNat / 16 * 16 + x.toNat % 16 = x.toNat := by omega
  rw [this]; simp

/-- the same as a table over all 256 bytes (checked by the kernel) -/
theorem byte_roundtrip_table : ∀ a < 256,
    hexDecode (hexEncode [UInt8.ofNat a]) = some [UInt8.ofNat a] := by decide +kernel

/-! ### `hex::encode` -/

@[simp] theorem hexEncode_nil : hexEncode [] = [] := rfl
@[simp] theorem hexEncode_cons (x : UInt8) (xs : Bytes) :
    hexEncode (x :: xs) = hexDigitLower (x.toNat / 16) :: hexDigitLower (x.toNat % 16) :: hexEncode xs := rfl

theorem hexEncode_length (b : Bytes) : (hexEncode b).length = 2 * b.length := by
  induction b with
  | nil => rfl
  | cons x xs ih => simp only [hexEncode_cons, List.length_cons, ih]; omega

theorem hexEncode_chars (b : Bytes) : ∀ c ∈ hexEncode b, isLowerHexDigit c = true := by
  induction b with
  | nil => intro c hc; cases hc
  | cons x xs ih =>
    intro c hc
    have hx : x.toNat < 256 := x.toNat_lt
    simp only [hexEncode_cons, List.mem_cons] at hc
    rcases hc with rfl | rfl | hc
    · exact digit_lower _ (by omega)
    · exact digit_lower _ (by omega)
    · exact ih c hc

theorem hexEncode_append (a b : Bytes) : hexEncode (a ++ b) = hexEncode a ++ hexEncode b := by
  induction a with
  | nil => rfl
  | cons x xs ih => simp only [List.cons_append, hexEncode_cons, ih]

/-! ### `hex::decode` -/

@[simp] theorem hexDecode_nil : hexDecode [] = some [] := rfl
@[simp] theorem hexDecode_single (a : UInt8) : hexDecode [a] = none := rfl

theorem hexDecode_cons2 (a b : UInt8) (rest : Bytes) :
    hexDecode (a :: b :: rest) =
      match hexVal a, hexVal b, hexDecode rest with
      | some x, some y, some r => some (UInt8.ofNat (x * 16 + y) :: r)
      | _, _, _ => none := by
  rw [hexDecode]
  cases hexVal a <;> cases hexVal b <;> cases hexDecode rest <;> rfl

theorem hexDecode_cons2_some (a b : UInt8) (rest : Bytes) (x y : Nat) (r : Bytes)
    (ha : hexVal a = some x) (hb : hexVal b = some y) (hr : hexDecode rest = some r) :
    hexDecode (a :: b :: rest) = some (UInt8.ofNat (x * 16 + y) :: r) := by
  rw [hexDecode_cons2, ha, hb, hr]

/-- inversion of one decoding step -/
theorem hexDecode_cons2_inv (a b : UInt8) (rest out : Bytes) (h : hexDecode (a :: b :: rest) = some out) :
    ∃ x y r, hexVal a = some x ∧ hexVal b = some y ∧ hexDecode rest = some r ∧
      out = UInt8.ofNat (x * 16 + y) :: r := by
  rw [hexDecode_cons2] at h
  cases ha : hexVal a with
  | none => rw [ha] at h; cases h
  | some x =>
    cases hb : hexVal b with
    | none => rw [ha, hb] at h; cases h
    | some y =>
      cases hr : hexDecode rest with
      | none => rw [ha, hb, hr] at h; cases h
      | some r =>
        rw [ha, hb, hr] at h
        injection h with h
        exact ⟨x, y, r, rfl, rfl, rfl, h.symm⟩

theorem hexDecode_hexEncode (b : Bytes) : hexDecode (hexEncode b) = some b := by
  induction b with
  | nil => rfl
  | cons x xs ih =>
    obtain ⟨h1, h2, h3⟩ := byte_roundtrip x
    rw [hexEncode_cons, hexDecode_cons2_some _ _ _ _ _ _ h1 h2 ih, h3]

theorem hexDecode_length : ∀ (s b : Bytes), hexDecode s = some b → b.length * 2 = s.length
  | [], b, h => by
    rw [hexDecode_nil] at h; injection h with h; subst h; rfl
  | [_], b, h => by rw [hexDecode_single] at h; cases h
  | a :: c :: rest, b, h => by
    obtain ⟨x, y, r, _, _, hr, rfl⟩ := hexDecode_cons2_inv a c rest b h
    have := hexDecode_length rest r hr
    simp only [List.length_cons]; omega

theorem hexDecode_some_iff : ∀ (s : Bytes),
    (∃ b, hexDecode s = some b) ↔ s.length % 2 = 0 ∧ ∀ c ∈ s, isHexDigit c = true
  | [] => by simp
  | [a] => by simp
  | a :: c :: rest => by
    have ih := hexDecode_some_iff rest
    constructor
    · rintro ⟨b, h⟩
      obtain ⟨x, y, r, ha, hc, hr, _⟩ := hexDecode_cons2_inv a c rest b h
      obtain ⟨hl, hd⟩ := ih.mp ⟨r, hr⟩
      refine ⟨by simp only [List.length_cons]; omega, ?_⟩
      intro d hdm
      simp only [List.mem_cons] at hdm
      rcases hdm with rfl | rfl | hdm
      · exact (hexVal_isSome_iff _).mp ⟨x, ha⟩
      · exact (hexVal_isSome_iff _).mp ⟨y, hc⟩
      · exact hd d hdm
    · rintro ⟨hl, hd⟩
      obtain ⟨x, ha⟩ := (hexVal_isSome_iff a).mpr (hd a (by simp))
      obtain ⟨y, hc⟩ := (hexVal_isSome_iff c).mpr (hd c (by simp))
      obtain ⟨r, hr⟩ := ih.mpr ⟨by simp only [List.length_cons] at hl; omega,
        fun d hdm => hd d (by simp [hdm])⟩
      exact ⟨_, hexDecode_cons2_some a c rest x y r ha hc hr⟩

theorem hexDecode_none_iff (s : Bytes) :
    hexDecode s = none ↔ s.length % 2 = 1 ∨ ∃ c ∈ s, isHexDigit c = false := by
  have h := hexDecode_some_iff s
  cases hd : hexDecode s with
  | some b =>
    obtain ⟨h1, h2⟩ := h.mp ⟨b, hd⟩
    simp only [reduceCtorEq, false_iff, not_or, not_exists, not_and, Bool.not_eq_false]
    exact ⟨by omega, h2⟩
  | none =>
    simp only [true_iff]
    rw [hd] at h
    by_cases hl : s.length % 2 = 1
    · exact Or.inl hl
    · right
      apply Classical.byContradiction
      intro hn
      have : ∀ c ∈ s, isHexDigit c = true := by
        intro c hc
        cases hcd : isHexDigit c with
        | true => rfl
        | false => exact absurd ⟨c, hc, hcd⟩ hn
      obtain ⟨b, hb⟩ := h.mpr ⟨by omega, this⟩
      cases hb

/-- `hex::decode` is a function of the digit values only: case does not matter. Two strings with
    the same digit values decode alike. -/
theorem hexDecode_congr : ∀ (s t : Bytes), s.map hexVal = t.map hexVal → hexDecode s = hexDecode t
  | [], t, h => by
    cases t with
    | nil => rfl
    | cons _ _ => simp at h
  | [a], t, h => by
    cases t with
    | nil => simp at h
    | cons b t' =>
      cases t' with
      | nil => rfl
      | cons _ _ => simp at h
  | a :: c :: rest, t, h => by
    cases t with
    | nil => simp at h
    | cons a' t' =>
      cases t' with
      | nil => simp at h
      | cons c' rest' =>
        simp only [List.map_cons, List.cons.injEq] at h
        rw [hexDecode_cons2, hexDecode_cons2, h.1, h.2.1, hexDecode_congr rest rest' h.2.2]

theorem lower_digit_unique : ∀ a < 256, isLowerHexDigit (UInt8.ofNat a) = true →
    (hexVal (UInt8.ofNat a)).map hexDigitLower = some (UInt8.ofNat a) := by decide +kernel

theorem lower_digit_unique' (c : UInt8) (x : Nat) (hl : isLowerHexDigit c = true) (h : hexVal c = some x) :
    hexDigitLower x = c := by
  have := lower_digit_unique c.toNat c.toNat_lt (by simpa using hl)
  simp only [UInt8.ofNat_toNat, h, Option.map_some, Option.some.injEq] at this
  exact this

/-- the only all-lowercase string that decodes to `b` is `hexEncode b`: the serialized form is the
    canonical lowercase representative -/
theorem hexDecode_lower_unique : ∀ (s b : Bytes), hexDecode s = some b →
    (∀ c ∈ s, isLowerHexDigit c = true) → s = hexEncode b
  | [], b, h, _ => by
    rw [hexDecode_nil] at h; injection h with h; subst h; rfl
  | [_], b, h, _ => by rw [hexDecode_single] at h; cases h
  | a :: c :: rest, b, h, hl => by
    obtain ⟨x, y, r, ha, hc, hr, rfl⟩ := hexDecode_cons2_inv a c rest b h
    have ih := hexDecode_lower_unique rest r hr (fun d hd => hl d (by simp [hd]))
    have hx := hexVal_lt a x ha
    have hy := hexVal_lt c y hc
    have e : (UInt8.ofNat (x * 16 + y)).toNat = x * 16 + y := by
      rw [UInt8.toNat_ofNat']; omega
    rw [hexEncode_cons, e, ← ih,
      show (x * 16 + y) / 16 = x by omega, show (x * 16 + y) % 16 = y by omega,
      lower_digit_unique' a x (hl a (by simp)) ha, lower_digit_unique' c y (hl c (by simp)) hc]

/-! ### the `0x`-prefixed forms -/

theorem hexEncodePrefixed_eq (b : Bytes) : hexEncodePrefixed b = [48, 120] ++ hexEncode b := rfl

theorem hexDecodePrefixed_prefix (h : Bytes) : hexDecodePrefixed ([48, 120] ++ h) = hexDecode h := rfl

theorem hexDecodePrefixed_some_iff (s b : Bytes) :
    hexDecodePrefixed s = some b ↔ ∃ h, s = [48, 120] ++ h ∧ hexDecode h = some b := by
  constructor
  · intro hs
    unfold hexDecodePrefixed at hs
    split at hs
    · exact ⟨_, rfl, hs⟩
    · cases hs
  · rintro ⟨h, rfl, hd⟩
    rw [hexDecodePrefixed_prefix, hd]

theorem hexDecodePrefixed_none_of_prefix (s : Bytes) (h : s.take 2 ≠ [48, 120]) :
    hexDecodePrefixed s = none := by
  cases hd : hexDecodePrefixed s with
  | none => rfl
  | some b =>
    obtain ⟨t, rfl, _⟩ := (hexDecodePrefixed_some_iff s b).mp hd
    exact absurd rfl h

theorem hexDecodePrefixed_hexEncodePrefixed (b : Bytes) :
    hexDecodePrefixed (hexEncodePrefixed b) = some b := by
  rw [hexEncodePrefixed_eq, hexDecodePrefixed_prefix, hexDecode_hexEncode]

end Ssz.Hex
