import SszProofs.Lemmas.Append
import SszProofs.Lemmas.Key2
import SszProofs.Lemmas.ListVarProof
import SszProofs.Lemmas.Preds
import SszProofs.Lemmas.CodecFacts
import SszProofs.Lemmas.OrderFacts
import SszProofs.Lemmas.BitFacts
/-
  Helper lemmas for C01 (round trip). Everything here is non-recursive over `Ty`: each lemma about a
  composite type takes the round-trip statement for its components as a hypothesis (`ih`), so that the
  mutual recursion in `C01.lean` stays small.
-/
set_option linter.unusedSimpArgs false
namespace Ssz.RT
/-! ### generic list facts -/

theorem mem_length_le_flatten {α} : ∀ (l : List (List α)) (x : List α), x ∈ l → x.length ≤ l.flatten.length
  | [], _, h => by simp at h
  | y :: l, x, h => by
      simp only [List.mem_cons] at h
      simp only [List.flatten_cons, List.length_append]
      cases h with
      | inl h => subst h; omega
      | inr h => have := mem_length_le_flatten l x h; omega

theorem mapRes_map_ok {α β} (f : α → Res β) (g : β → α) : ∀ (vs : List β),
    (∀ v ∈ vs, f (g v) = .ok v) → mapRes f (vs.map g) = .ok vs
  | [], _ => by simp [mapRes]
  | v :: vs, h => by
      have h1 := h v (by simp)
      have h2 := mapRes_map_ok f g vs (fun w hw => h w (by simp [hw]))
      simp only [List.map_cons, mapRes, h1, h2]

theorem chunksGo_flatten (n : Nat) (hn : 0 < n) : ∀ (bl : List Bytes) (fuel : Nat),
    (∀ b ∈ bl, b.length = n) → bl.length ≤ fuel → chunksGo n bl.flatten fuel = bl
  | [], fuel, _, _ => by cases fuel <;> simp [chunksGo]
  | b :: bl, 0, _, hf => by simp at hf
  | b :: bl, fuel+1, hb, hf => by
      have hbl : b.length = n := hb b (by simp)
      have hne : (b ++ bl.flatten).isEmpty = false := by
        cases b with
        | nil => simp at hbl; omega
        | cons _ _ => rfl
      simp only [List.flatten_cons, chunksGo, hne, Bool.false_eq_true, ↓reduceIte]
      rw [List.take_left' hbl, List.drop_left' hbl]
      rw [chunksGo_flatten n hn bl fuel (fun x hx => hb x (by simp [hx])) (by simpa using hf)]

theorem length_le_flatten (n : Nat) (hn : 0 < n) : ∀ (bl : List Bytes),
    (∀ b ∈ bl, b.length = n) → bl.length ≤ bl.flatten.length
  | [], _ => by simp
  | b :: bl, hb => by
      have hbl : b.length = n := hb b (by simp)
      have := length_le_flatten n hn bl (fun x hx => hb x (by simp [hx]))
      simp only [List.length_cons, List.flatten_cons, List.length_append]
      omega

theorem chunks_flatten (n : Nat) (hn : 0 < n) (bl : List Bytes) (hb : ∀ b ∈ bl, b.length = n) :
    chunks n bl.flatten = .ok bl := by
  unfold chunks
  rw [if_neg (by omega)]
  rw [chunksGo_flatten n hn bl _ hb (length_le_flatten n hn bl hb)]

/-! ### `fixedLen` / registrations -/

theorem fixedLen_of_not_fixed (t : Ty) (h : t.isFixed = false) : t.fixedLen = 4 := by
  cases t <;> simp_all [Ty.isFixed, Ty.fixedLen]

theorem reg_size (t : Ty) : t.reg.size = t.fixedLen := by
  unfold Ty.reg
  cases h : t.isFixed
  · simp [Reg.size, fixedLen_of_not_fixed t h]
  · simp [Reg.size]

theorem fixedSize_regsOf (ts : List Ty) : fixedSize (regsOf ts) = sumFixedLen ts := by
  induction ts with
  | nil => simp [regsOf, fixedSize, sumFixedLen]
  | cons t ts ih => simp [regsOf, fixedSize, sumFixedLen, reg_size, ih]

/-! ### shape of the encodings -/

theorem hasTypeAll_mem (t : Ty) : ∀ (vs : List Val), hasTypeAll t vs = true → ∀ v ∈ vs, hasType t v = true
  | [], _, v, hv => by simp at hv
  | w :: vs, h, v, hv => by
      simp only [hasTypeAll, Bool.and_eq_true] at h
      simp only [List.mem_cons] at hv
      cases hv with
      | inl e => subst e; exact h.1
      | inr e => exact hasTypeAll_mem t vs h.2 v e

theorem appendAll_flatten (t : Ty) (vs : List Val) :
    appendAll t vs [] = (vs.map (encode t)).flatten := by
  induction vs with
  | nil => simp [appendAll]
  | cons v vs ih =>
    simp only [appendAll, List.map_cons, List.flatten_cons]
    rw [appendAll_prefix, ih]; rfl

theorem encode_list (c : CKind) (t : Ty) (vs : List Val) :
    encode (.list c t) (.list vs) =
      if t.isFixed then (vs.map (encode t)).flatten else encodeListVar (vs.map (encode t)) := by
  simp only [encode, sszAppend]
  split
  · exact appendAll_flatten t vs
  · rw [appendSeq_eq, go_eq]
    simp [encodeListVar, encodeItems_eq, Enc.container, fixedSize_var, Nat.mul_comm]

theorem encode_fields (ts : List Ty) (vs : List Val) :
    (appendFields ts vs (Enc.container [] (sumFixedLen ts))).finalize
      = encodeItems (regsOf ts) (encodeEach ts vs) := by
  rw [appendFields_eq, go_eq, encodeItems_eq, fixedSize_regsOf]; simp [Enc.container]

theorem encode_tuple (ts : List Ty) (vs : List Val) :
    encode (.tuple ts) (.tuple vs) = encodeItems (regsOf ts) (encodeEach ts vs) := by
  simp only [encode, sszAppend]; exact encode_fields ts vs

theorem encode_container (ts : List Ty) (vs : List Val) :
    encode (.container ts) (.tuple vs) = encodeItems (regsOf ts) (encodeEach ts vs) := by
  simp only [encode, sszAppend]; exact encode_fields ts vs

theorem encode_option_some' (t : Ty) (v : Val) : encode (.option t) (.some v) = 1 :: encode t v := by
  simp only [encode, sszAppend]
  rw [append_prefix]; simp

theorem encode_legacy_some (t : Ty) (v : Val) :
    encode (.legacyOption t) (.some v) = encodeLength 1 ++ encode t v := by
  simp only [encode, sszAppend]
  rw [append_prefix]; simp

theorem encode_union' (ts : List Ty) (i : Nat) (v : Val) :
    encode (.union ts) (.union i v) = UInt8.ofNat i :: appendNth ts i v [] := by
  simp only [encode, sszAppend]
  rw [appendNth_prefix]; simp

theorem itemsFit_encodeEach (ts : List Ty) (vs : List Val) (h : hasTypes ts vs = true) :
    itemsFit (regsOf ts) (encodeEach ts vs) = true := by
  induction ts generalizing vs with
  | nil => cases vs <;> simp_all [hasTypes, regsOf, encodeEach, itemsFit]
  | cons t ts ih =>
    cases vs with
    | nil => simp [hasTypes] at h
    | cons v vs =>
      simp only [hasTypes, Bool.and_eq_true] at h
      simp only [regsOf, encodeEach]
      unfold Ty.reg
      cases hf : t.isFixed
      · simp [itemsFit, ih vs h.2]
      · simp [itemsFit, ih vs h.2, encode_fixed_length t v hf h.1]

theorem items_le_parts : ∀ (S : List Reg) (its : List Bytes) (o : Nat), itemsFit S its = true →
    its.flatten.length ≤ (fpart S its o).length + (vpart S its).length
  | [], [], _, _ => by simp
  | [], _ :: _, _, h => by simp [itemsFit] at h
  | .fixed n :: S, [], _, h => by simp [itemsFit] at h
  | .fixed n :: S, it :: its, o, h => by
      simp only [itemsFit, Bool.and_eq_true, beq_iff_eq] at h
      have := items_le_parts S its o h.2
      simp only [fpart, vpart, List.flatten_cons, List.length_append]
      omega
  | .var :: S, [], _, h => by simp [itemsFit] at h
  | .var :: S, it :: its, o, h => by
      simp only [itemsFit] at h
      have := items_le_parts S its (o + it.length) h
      simp only [fpart, vpart, List.flatten_cons, List.length_append]
      omega

theorem items_le_encodeItems (S : List Reg) (its : List Bytes) (h : itemsFit S its = true) :
    its.flatten.length ≤ (encodeItems S its).length := by
  rw [encodeItems_eq, List.length_append]
  exact items_le_parts S its _ h

theorem allFixed_parts (ts : List Ty) (hf : allFixed ts = true) (vs : List Val) (o : Nat) :
    fpart (regsOf ts) (encodeEach ts vs) o = (encodeEach ts vs).flatten ∧
    vpart (regsOf ts) (encodeEach ts vs) = [] := by
  induction ts generalizing vs with
  | nil => cases vs <;> simp [regsOf, encodeEach, fpart, vpart]
  | cons t ts ih =>
    simp only [allFixed, Bool.and_eq_true] at hf
    cases vs with
    | nil => simp [regsOf, encodeEach, fpart, vpart, Ty.reg, hf.1]
    | cons v vs =>
      obtain ⟨h1, h2⟩ := ih hf.2 vs
      simp [regsOf, encodeEach, fpart, vpart, Ty.reg, hf.1, h1, h2]

theorem encodeItems_allFixed (ts : List Ty) (hf : allFixed ts = true) (vs : List Val) :
    encodeItems (regsOf ts) (encodeEach ts vs) = (encodeEach ts vs).flatten := by
  rw [encodeItems_eq]
  obtain ⟨h1, h2⟩ := allFixed_parts ts hf vs (fixedSize (regsOf ts))
  rw [h1, h2, List.append_nil]

theorem flatten_allFixed_length (ts : List Ty) (hf : allFixed ts = true) (vs : List Val)
    (h : hasTypes ts vs = true) : (encodeEach ts vs).flatten.length = sumFixedLen ts := by
  have := fpart_length (regsOf ts) (encodeEach ts vs) 0 (itemsFit_encodeEach ts vs h)
  rw [(allFixed_parts ts hf vs 0).1, fixedSize_regsOf] at this
  exact this

/-! ### byte-level facts -/

theorem ofNat_toNat (i : Nat) (h : i < 256) : (UInt8.ofNat i).toNat = i := by
  simp [UInt8.toNat_ofNat']; omega

theorem split_selector (i : Nat) (h : i < 128) (body : Bytes) :
    splitUnionBytes (UInt8.ofNat i :: body) = some (UInt8.ofNat i, body) := by
  have := ofNat_toNat i (by omega)
  simp only [splitUnionBytes, unionSelectorNew, MAX_UNION_SELECTOR, this]
  rw [if_pos (by omega)]

theorem hasTypeNth_lt : ∀ (ts : List Ty) (i : Nat) (v : Val), hasTypeNth ts i v = true → i < ts.length
  | [], _, _, h => by simp [hasTypeNth] at h
  | _ :: _, 0, _, _ => by simp
  | _ :: ts, i+1, v, h => by
      simp only [hasTypeNth] at h
      have := hasTypeNth_lt ts i v h
      simp; omega

/-! ### one lemma per composite constructor, the components' round trip being a hypothesis -/

theorem encode_list_item_le (c : CKind) (t : Ty) (vs : List Val) (v : Val) (hv : v ∈ vs) :
    (encode t v).length ≤ (encode (.list c t) (.list vs)).length := by
  have hmem : encode t v ∈ vs.map (encode t) := List.mem_map.2 ⟨v, hv, rfl⟩
  have := mem_length_le_flatten _ _ hmem
  rw [encode_list]
  split
  · exact this
  · rw [encodeListVar_eq, List.length_append]; omega

theorem encodeListVar_cons_ne (it : Bytes) (its : List Bytes) : (encodeListVar (it :: its)).isEmpty = false := by
  have : 4 ≤ (encodeListVar (it :: its)).length := by
    rw [encodeListVar_eq]
    simp [hdr, encodeLength, le_length]
  cases h : encodeListVar (it :: its) with
  | nil => rw [h] at this; simp at this
  | cons _ _ => rfl

theorem rt_list (c : CKind) (t : Ty) (vs : List Val)
    (hz : (t.isFixed && t.fixedLen == 0) = false)
    (hall : hasTypeAll t vs = true) (hcol : collect c vs = vs)
    (hl : (encode (.list c t) (.list vs)).length < 2^32)
    (ih : ∀ v ∈ vs, (encode t v).length < 2^32 → decode t (encode t v) = .ok v) :
    decode (.list c t) (encode (.list c t) (.list vs)) = .ok (.list vs) := by
  have ih' : ∀ v ∈ vs, decode t (encode t v) = .ok v := fun v hv =>
    ih v hv (Nat.lt_of_le_of_lt (encode_list_item_le c t vs v hv) hl)
  have hm := mapRes_map_ok (decode t) (encode t) vs ih'
  rw [encode_list] at hl ⊢
  cases vs with
  | nil => simp [decode, encodeListVar, encodeItems, encodeItemsGo, Enc.finalize]
  | cons v vs =>
    cases hf : t.isFixed
    · simp only [hf, Bool.false_eq_true, if_false, List.map_cons] at hl hm ⊢
      rw [decode]
      simp only [encodeListVar_cons_ne, hf, Bool.false_eq_true, if_false]
      rw [listVar_complete _ _ _ _ hl]
      simp [hm, hcol]
    · simp only [hf, Bool.true_and, beq_eq_false_iff_ne, ne_eq] at hz
      simp only [hf, if_true] at hl hm ⊢
      have hlen : ∀ b ∈ (v :: vs).map (encode t), b.length = t.fixedLen := by
        intro b hb
        obtain ⟨w, hw, rfl⟩ := List.mem_map.1 hb
        exact encode_fixed_length t w hf (hasTypeAll_mem t _ hall w hw)
      have hne : ((v :: vs).map (encode t)).flatten.isEmpty = false := by
        have h1 := hlen (encode t v) (by simp)
        cases he : encode t v with
        | nil => rw [he] at h1; simp at h1; omega
        | cons _ _ => simp [he]
      rw [decode]
      simp only [hne, hf, hz, Bool.false_eq_true, if_false, if_true]
      rw [chunks_flatten _ (by omega) _ hlen]
      simp only [hm, Res.map_ok, hcol]

theorem rt_build (ts : List Ty) (vs : List Val) (h : hasTypes ts vs = true)
    (hl : (encodeItems (regsOf ts) (encodeEach ts vs)).length < 2^32)
    (ih : (encodeEach ts vs).flatten.length < 2^32 → decodeItems ts (encodeEach ts vs) = .ok vs) :
    (match build (regsOf ts) (encodeItems (regsOf ts) (encodeEach ts vs)) with
      | .ok items => (decodeItems ts items).map Val.tuple
      | .err => .err
      | .panic => .panic) = .ok (.tuple vs) := by
  have hfit := itemsFit_encodeEach ts vs h
  rw [build_complete _ _ hfit hl]
  simp only
  rw [ih (Nat.lt_of_le_of_lt (items_le_encodeItems _ _ hfit) hl)]
  rfl

theorem rt_tuple (ts : List Ty) (vs : List Val) (h : hasTypes ts vs = true)
    (hl : (encode (.tuple ts) (.tuple vs)).length < 2^32)
    (ih : (encodeEach ts vs).flatten.length < 2^32 → decodeItems ts (encodeEach ts vs) = .ok vs) :
    decode (.tuple ts) (encode (.tuple ts) (.tuple vs)) = .ok (.tuple vs) := by
  rw [encode_tuple] at hl ⊢
  rw [decode]
  exact rt_build ts vs h hl ih

theorem rt_container (ts : List Ty) (vs : List Val) (h : hasTypes ts vs = true)
    (hl : (encode (.container ts) (.tuple vs)).length < 2^32)
    (ih : (encodeEach ts vs).flatten.length < 2^32 → decodeItems ts (encodeEach ts vs) = .ok vs)
    (ihs : allFixed ts = true → (encodeEach ts vs).flatten.length < 2^32 →
      decodeSplit ts (encodeEach ts vs).flatten = .ok vs) :
    decode (.container ts) (encode (.container ts) (.tuple vs)) = .ok (.tuple vs) := by
  rw [encode_container] at hl ⊢
  rw [decode]
  cases hf : allFixed ts
  · simp only [Bool.false_eq_true, if_false]
    exact rt_build ts vs h hl ih
  · rw [encodeItems_allFixed ts hf] at hl ⊢
    simp only [if_true, flatten_allFixed_length ts hf vs h, ne_eq, not_true_eq_false, if_false]
    rw [ihs hf hl]; rfl

end Ssz.RT