import SszModel.Spec
set_option linter.unusedSimpArgs false
set_option linter.unusedVariables false
/-
  Bitfield lemma library: byte-level facts (`byteGet`, `byteSet`, `rawMask`, `log2`), the bit view
  `bit`/`BF.abs`/`BF.Inv`, `BF.get`/`BF.set`, `fromRawBytes`, `highestSetBit`, `BF.ofBits`,
  `BF.intoBytesV`/`BF.fromBytesV`, `Spec.packBits`.
-/
namespace Ssz.BC
/-! ### single bytes -/

theorem byteGet_eq : ∀ a < 256, ∀ k < 8, byteGet (UInt8.ofNat a) k = tb (UInt8.ofNat a) k := by
  decide +kernel
theorem tb_one_shl : ∀ k < 8, ∀ j < 8, tb ((1 : UInt8) <<< UInt8.ofNat k) j = decide (j = k) := by
  decide +kernel
theorem tb_not : ∀ a < 256, ∀ j < 8, tb (~~~ UInt8.ofNat a) j = !tb (UInt8.ofNat a) j := by
  decide +kernel
theorem tb_or (x y : UInt8) (j : Nat) : tb (x ||| y) j = (tb x j || tb y j) := by
  simp [tb, UInt8.toNat_or, Nat.testBit_or]
theorem tb_and (x y : UInt8) (j : Nat) : tb (x &&& y) j = (tb x j && tb y j) := by
  simp [tb, UInt8.toNat_and, Nat.testBit_and]

theorem tb_ge (x : UInt8) (j : Nat) (h : 8 ≤ j) : tb x j = false := by
  unfold tb
  apply Nat.testBit_lt_two_pow
  have := x.toNat_lt
  calc x.toNat < 2^8 := this
    _ ≤ 2^j := Nat.pow_le_pow_right (by decide) h

theorem tb_zero (k : Nat) : tb 0 k = false := by simp [tb]

theorem u8_ofNat_toNat (x : UInt8) : UInt8.ofNat x.toNat = x := by simp

theorem byteGet_eq' (x : UInt8) (k : Nat) (hk : k < 8) : byteGet x k = tb x k := by
  have := byteGet_eq x.toNat x.toNat_lt k hk
  rwa [u8_ofNat_toNat] at this
theorem byteSet_tb' (x : UInt8) (k j : Nat) (v : Bool) (hk : k < 8) (hj : j < 8) :
    tb (byteSet x k v) j = if j = k then v else tb x j := by
  unfold byteSet
  cases v with
  | true =>
    rw [if_pos rfl, tb_or, tb_one_shl k hk j hj]
    by_cases h : j = k <;> simp [h]
  | false =>
    have hn := tb_not ((1 : UInt8) <<< UInt8.ofNat k).toNat (UInt8.toNat_lt _) j hj
    rw [u8_ofNat_toNat] at hn
    rw [if_neg (by decide), tb_and, hn, tb_one_shl k hk j hj]
    by_cases h : j = k <;> simp [h]

/-- a byte is determined by its eight bits -/
theorem byte_ext (x y : UInt8) (h : ∀ k < 8, tb x k = tb y k) : x = y := by
  apply UInt8.toNat_inj.mp
  apply Nat.eq_of_testBit_eq
  intro k
  by_cases hk : k < 8
  · exact h k hk
  · have h1 := tb_ge x k (by omega)
    have h2 := tb_ge y k (by omega)
    unfold tb at h1 h2
    rw [h1, h2]

theorem zero_of_bits' (x : UInt8) (h : ∀ k < 8, tb x k = false) : x = 0 :=
  byte_ext x 0 (fun k hk => by rw [h k hk, tb_zero])

theorem u8_pos_iff_ne_zero (x : UInt8) : x > 0 ↔ x ≠ 0 := by
  constructor
  · intro h e; subst e; exact absurd h (by decide)
  · intro h
    have : x.toNat ≠ 0 := fun e => h (UInt8.toNat_inj.mp (by simpa using e))
    exact UInt8.lt_iff_toNat_lt.mpr (by simpa using Nat.pos_of_ne_zero this)

/-- position of the most significant set bit of a non-zero byte -/
theorem log2_spec : ∀ a < 256, a ≠ 0 →
    a.log2 < 8 ∧ Nat.testBit a a.log2 = true ∧ ∀ k < 8, a.log2 < k → Nat.testBit a k = false := by
  decide +kernel

theorem log2_lt (x : UInt8) (h : x ≠ 0) : x.toNat.log2 < 8 :=
  (log2_spec x.toNat x.toNat_lt (fun e => h (UInt8.toNat_inj.mp (by simpa using e)))).1
theorem tb_log2 (x : UInt8) (h : x ≠ 0) : tb x x.toNat.log2 = true :=
  (log2_spec x.toNat x.toNat_lt (fun e => h (UInt8.toNat_inj.mp (by simpa using e)))).2.1
theorem tb_above_log2 (x : UInt8) (h : x ≠ 0) (k : Nat) (hk : x.toNat.log2 < k) : tb x k = false := by
  by_cases h8 : k < 8
  · exact (log2_spec x.toNat x.toNat_lt (fun e => h (UInt8.toNat_inj.mp (by simpa using e)))).2.2 k h8 hk
  · exact tb_ge x k (by omega)
theorem log2_eq_of_tb (x : UInt8) (k : Nat) (hk : k < 8) (h1 : tb x k = true)
    (h2 : ∀ j < 8, k < j → tb x j = false) : x.toNat.log2 = k := by
  have hx : x ≠ 0 := by intro e; subst e; rw [tb_zero] at h1; cases h1
  have hl := log2_lt x hx
  have a1 : ¬ k < x.toNat.log2 := fun c => by
    have := h2 _ hl c; rw [tb_log2 x hx] at this; cases this
  have a2 : ¬ x.toNat.log2 < k := fun c => by
    have := tb_above_log2 x hx k c; rw [h1] at this; cases this
  omega

/-! ### the bit view of a byte string -/

theorem bit_oob (bs : Bytes) (i : Nat) (h : bs.length ≤ i / 8) : bit bs i = false := by
  unfold bit
  rw [List.getElem?_eq_none h]
  simp [tb]

theorem bit_eq_getElem (bs : Bytes) (i : Nat) (h : i / 8 < bs.length) :
    bit bs i = tb bs[i / 8] (i % 8) := by
  unfold bit
  rw [List.getElem?_eq_getElem h]; rfl

/-- bit `8 * q + k` is bit `k` of byte `q` -/
theorem bit_mul_add (bs : Bytes) (q k : Nat) (hk : k < 8) :
    bit bs (8 * q + k) = tb (bs[q]?.getD 0) k := by
  unfold bit
  have e1 : (8 * q + k) / 8 = q := by omega
  have e2 : (8 * q + k) % 8 = k := by omega
  rw [e1, e2]

/-- byte strings of equal length with equal bits are equal -/
theorem bytes_ext (a b : Bytes) (hl : a.length = b.length) (h : ∀ j, bit a j = bit b j) : a = b := by
  apply List.ext_getElem hl
  intro q h1 h2
  apply byte_ext
  intro k hk
  have := h (8 * q + k)
  rw [bit_mul_add _ _ _ hk, bit_mul_add _ _ _ hk, List.getElem?_eq_getElem h1,
    List.getElem?_eq_getElem h2] at this
  simpa using this

theorem bit_append_left (a b : Bytes) (j : Nat) (h : j / 8 < a.length) : bit (a ++ b) j = bit a j := by
  unfold bit
  rw [List.getElem?_append_left h]

theorem bit_replicate_zero (n j : Nat) : bit (List.replicate n 0) j = false := by
  unfold bit
  by_cases h : j / 8 < n
  · simp [List.getElem?_replicate, h, tb]
  · simp [List.getElem?_replicate, h, tb]

theorem bit_append_zeros (a : Bytes) (n j : Nat) : bit (a ++ List.replicate n 0) j = bit a j := by
  by_cases h : j / 8 < a.length
  · exact bit_append_left _ _ _ h
  · rw [bit_oob a j (by omega)]
    unfold bit
    rw [List.getElem?_append_right (by omega)]
    exact bit_replicate_zero n (8 * (j / 8 - a.length) + j % 8) ▸ (by
      unfold bit
      have e1 : (8 * (j / 8 - a.length) + j % 8) / 8 = j / 8 - a.length := by omega
      have e2 : (8 * (j / 8 - a.length) + j % 8) % 8 = j % 8 := by omega
      rw [e1, e2])

theorem bit_take (a : Bytes) (m j : Nat) : bit (a.take m) j = if j / 8 < m then bit a j else false := by
  unfold bit
  by_cases h : j / 8 < m
  · simp [h, List.getElem?_take]
  · simp [h, List.getElem?_take, tb]

theorem bit_nil (j : Nat) : bit [] j = false := by simp [bit, tb]

theorem bitsOf_eq (b : Bytes) (n : Nat) : Spec.bitsOf b n = (List.range n).map (bit b) := by
  unfold Spec.bitsOf bit tb
  simp [List.getD_eq_getElem?_getD]

theorem abs_length (bf : BF) : bf.abs.length = bf.len := by simp [BF.abs]

theorem abs_getElem (bf : BF) (i : Nat) (h : i < bf.abs.length) : bf.abs[i] = bit bf.bytes i := by
  simp [BF.abs]

theorem abs_eq_bitsOf (bf : BF) : bf.abs = Spec.bitsOf bf.bytes bf.len := by
  rw [bitsOf_eq]; rfl

/-- two well-formed bitfields with the same bits are equal -/
theorem inv_ext (a b : BF) (ha : a.Inv) (hb : b.Inv) (h : a.abs = b.abs) : a = b := by
  have hl : a.len = b.len := by
    have := congrArg List.length h
    simpa [abs_length] using this
  have hbytes : a.bytes = b.bytes := by
    apply bytes_ext
    · rw [ha.1, hb.1, hl]
    · intro j
      by_cases hj : j < a.len
      · have h1 : j < a.abs.length := by rw [abs_length]; exact hj
        have h2 : j < b.abs.length := by rw [abs_length]; omega
        have : a.abs[j] = b.abs[j] := by simp only [h]
        rwa [abs_getElem, abs_getElem] at this
      · rw [ha.2 j (by omega), hb.2 j (by omega)]
  cases a; cases b
  simp only at hl hbytes
  subst hl; subst hbytes; rfl

/-! ### `get` / `set` -/

theorem inv_index (bf : BF) (h : bf.Inv) (i : Nat) (hi : i < bf.len) : i / 8 < bf.bytes.length := by
  rw [h.1]; unfold bytesForBitLen; omega

theorem get_eq (bf : BF) (h : bf.Inv) (i : Nat) (hi : i < bf.len) : bf.get i = some (bit bf.bytes i) := by
  have hidx := inv_index bf h i hi
  unfold BF.get bit
  simp [hi, List.getElem?_eq_getElem hidx, byteGet_eq' _ _ (Nat.mod_lt i (by decide))]

theorem get_oob (bf : BF) (i : Nat) (hi : bf.len ≤ i) : bf.get i = none := by
  unfold BF.get; simp [Nat.not_lt.mpr hi]

/-- bits of a byte string after overwriting bit `i` (no invariant needed, only an index in range) -/
theorem bit_set_byte (bs : Bytes) (i : Nat) (v : Bool) (hidx : i / 8 < bs.length) (j : Nat) :
    bit (bs.set (i / 8) (byteSet bs[i / 8] (i % 8) v)) j = if j = i then v else bit bs j := by
  unfold bit
  by_cases hq : j / 8 = i / 8
  · rw [hq]
    simp only [List.getElem?_set_self hidx, Option.getD_some, List.getElem?_eq_getElem hidx]
    rw [byteSet_tb' _ _ _ _ (Nat.mod_lt i (by decide)) (Nat.mod_lt j (by decide))]
    by_cases hji : j = i
    · simp [hji]
    · have : j % 8 ≠ i % 8 := by omega
      simp [hji, this]
  · have hji : j ≠ i := by intro e; subst e; exact hq rfl
    simp [List.getElem?_set_ne (Ne.symm hq), hji]

/-- `set` with an index below `len` whose byte exists (weaker than `Inv`) -/
theorem set_spec_idx (bf : BF) (i : Nat) (v : Bool) (hi : i < bf.len) (hidx : i / 8 < bf.bytes.length) :
    ∃ bf', bf.set i v = some bf' ∧ bf'.len = bf.len ∧ bf'.bytes.length = bf.bytes.length ∧
      (∀ j, bit bf'.bytes j = if j = i then v else bit bf.bytes j) := by
  refine ⟨{ bf with bytes := bf.bytes.set (i / 8) (byteSet bf.bytes[i / 8] (i % 8) v) }, ?_, rfl, ?_,
    bit_set_byte bf.bytes i v hidx⟩
  · unfold BF.set
    simp [hi, List.getElem?_eq_getElem hidx]
  · simp

theorem set_spec (bf : BF) (h : bf.Inv) (i : Nat) (v : Bool) (hi : i < bf.len) :
    ∃ bf', bf.set i v = some bf' ∧ bf'.len = bf.len ∧ bf'.bytes.length = bf.bytes.length ∧
      (∀ j, bit bf'.bytes j = if j = i then v else bit bf.bytes j) ∧ bf'.Inv := by
  obtain ⟨bf', hs, hl, hbl, hb⟩ := set_spec_idx bf i v hi (inv_index bf h i hi)
  refine ⟨bf', hs, hl, hbl, hb, ?_, ?_⟩
  · rw [hbl, hl]; exact h.1
  · intro j hj
    rw [hb j]
    have : j ≠ i := by omega
    simp [this, h.2 j (by omega)]

/-- `set` preserves the invariant, acts as `List.set` on the bits and keeps the byte length -/
theorem set_abs (bf : BF) (h : bf.Inv) (i : Nat) (v : Bool) (hi : i < bf.len) :
    ∃ bf', bf.set i v = some bf' ∧ bf'.Inv ∧ bf'.abs = bf.abs.set i v ∧ bf'.len = bf.len ∧
      bf'.bytes.length = bf.bytes.length := by
  obtain ⟨bf', hs, hl, hbl, hb, hinv⟩ := set_spec bf h i v hi
  refine ⟨bf', hs, hinv, ?_, hl, hbl⟩
  apply List.ext_getElem
  · simp [BF.abs, hl]
  · intro n h1 h2
    simp only [BF.abs, List.getElem_map, List.getElem_range, List.getElem_set]
    rw [hb n]
    by_cases hn : n = i
    · simp [hn]
    · have : i ≠ n := fun e => hn e.symm
      simp [hn, this]

theorem set_oob (bf : BF) (i : Nat) (v : Bool) (hi : bf.len ≤ i) : bf.set i v = none := by
  unfold BF.set; simp [Nat.not_lt.mpr hi]


/-! ### `from_raw_bytes` accepts exactly the byte strings satisfying the invariant -/

theorem tb_rawMask : ∀ r < 8, ∀ k < 8, tb (rawMask r) k = (decide (r = 0) || decide (k < r)) := by
  decide +kernel
theorem rawMask_mod (n : Nat) : rawMask n = rawMask (n % 8) := by
  simp [rawMask, Nat.mod_mod]

theorem tb_not' (y : UInt8) (j : Nat) (hj : j < 8) : tb (~~~y) j = !tb y j := by
  have hn := tb_not y.toNat y.toNat_lt j hj
  rwa [u8_ofNat_toNat] at hn

theorem mask_spec' (x : UInt8) (n : Nat) :
    ((x &&& ~~~(rawMask n)) = 0) ↔ (∀ k < 8, (n % 8 ≠ 0 ∧ n % 8 ≤ k) → tb x k = false) := by
  rw [rawMask_mod]
  have hr := Nat.mod_lt n (show 8 > 0 by decide)
  constructor
  · intro h k hk ⟨h1, h2⟩
    have := congrArg (fun y => tb y k) h
    simp only [tb_and, tb_not' _ _ hk, tb_rawMask _ hr _ hk, tb_zero] at this
    have e1 : decide (n % 8 = 0) = false := by simp [h1]
    have e2 : decide (k < n % 8) = false := by simp; omega
    rw [e1, e2] at this
    simpa using this
  · intro h
    apply zero_of_bits'
    intro k hk
    rw [tb_and, tb_not' _ _ hk, tb_rawMask _ hr _ hk]
    by_cases c : n % 8 ≠ 0 ∧ n % 8 ≤ k
    · rw [h k hk c]; rfl
    · have : (decide (n % 8 = 0) || decide (k < n % 8)) = true := by simp; omega
      rw [this]; simp

theorem fromRawBytes_iff (bytes : Bytes) (n : Nat) (bf : BF) :
    fromRawBytes bytes n = some bf ↔ bf = ⟨bytes, n⟩ ∧ (⟨bytes, n⟩ : BF).Inv := by
  unfold fromRawBytes BF.Inv
  by_cases h0 : n = 0
  · subst h0
    simp only [↓reduceIte, bytesForBitLen, Nat.zero_add, Nat.zero_le, forall_const]
    constructor
    · intro h
      split at h
      · rename_i hb
        injection h with h
        subst hb
        refine ⟨h.symm, by decide, ?_⟩
        intro i
        unfold bit
        cases hi : i / 8 with
        | zero => simp [tb]
        | succ j => simp [tb]
      · cases h
    · rintro ⟨rfl, hl, hbits⟩
      have hl1 : bytes.length = 1 := by simpa using hl
      match bytes, hl1 with
      | [x], _ =>
        have : x = 0 := zero_of_bits' x (fun k hk => by
          have := hbits k
          unfold bit at this
          have e1 : k / 8 = 0 := by omega
          have e2 : k % 8 = k := by omega
          simpa [e1, e2] using this)
        subst this
        simp
  · simp only [h0, ↓reduceIte, ne_eq]
    by_cases hl : bytes.length = bytesForBitLen n
    · simp only [hl, not_true_eq_false, ↓reduceIte, true_and]
      have hpos : 0 < bytes.length := by rw [hl]; unfold bytesForBitLen; omega
      have hlen : bytes.length = (n + 7) / 8 := by rw [hl]; unfold bytesForBitLen; omega
      have hlast : bytes.getLast? = some bytes[bytes.length - 1] := by
        rw [List.getLast?_eq_getElem?, List.getElem?_eq_getElem (by omega)]
      simp only [hlast]
      have key : ((bytes[bytes.length - 1] &&& ~~~(rawMask n)) = 0) ↔ ∀ i, n ≤ i → bit bytes i = false := by
        rw [mask_spec']
        constructor
        · intro h i hi
          by_cases hq : bytes.length ≤ i / 8
          · exact bit_oob bytes i hq
          · have hq' : i / 8 = bytes.length - 1 := by omega
            unfold bit
            rw [hq', List.getElem?_eq_getElem (by omega)]
            simp only [Option.getD_some]
            exact h (i % 8) (Nat.mod_lt i (by decide)) ⟨by omega, by omega⟩
        · intro h k hk ⟨hr, hrk⟩
          have := h (8 * (bytes.length - 1) + k) (by omega)
          unfold bit at this
          have e1 : (8 * (bytes.length - 1) + k) / 8 = bytes.length - 1 := by omega
          have e2 : (8 * (bytes.length - 1) + k) % 8 = k := by omega
          rw [e1, e2, List.getElem?_eq_getElem (by omega)] at this
          simpa using this
      constructor
      · intro h
        split at h
        · rename_i hm
          injection h with h
          exact ⟨h.symm, key.mp hm⟩
        · cases h
      · rintro ⟨rfl, hb⟩
        rw [if_pos (key.mpr hb)]
    · simp [hl]

theorem fromRawBytes_of_inv (bf : BF) (h : bf.Inv) : fromRawBytes bf.bytes bf.len = some bf :=
  (fromRawBytes_iff bf.bytes bf.len bf).mpr ⟨rfl, h⟩

/-- a non-empty byte string read as `8 * length` bits is always well formed -/
theorem inv_full (b : Bytes) (h : b ≠ []) : (⟨b, b.length * 8⟩ : BF).Inv := by
  have hpos : 0 < b.length := List.length_pos_iff.mpr h
  refine ⟨?_, ?_⟩
  · show b.length = bytesForBitLen (b.length * 8)
    unfold bytesForBitLen; omega
  · intro i hi
    have hi' : b.length * 8 ≤ i := hi
    exact bit_oob b i (by omega)

theorem fromRawBytes_full (b : Bytes) :
    fromRawBytes b (b.length * 8) = if b = [] then none else some ⟨b, b.length * 8⟩ := by
  by_cases h : b = []
  · subst h; simp [fromRawBytes]
  · rw [if_neg h]
    exact (fromRawBytes_iff _ _ _).mpr ⟨rfl, inv_full b h⟩

/-! ### `highest_set_bit` -/

theorem highestSetBit_nil : highestSetBit [] = none := rfl

theorem highestSetBit_snoc (bs : Bytes) (x : UInt8) :
    highestSetBit (bs ++ [x]) =
      if x ≠ 0 then some (8 * bs.length + x.toNat.log2) else highestSetBit bs := by
  unfold highestSetBit
  simp only [List.reverse_append, List.reverse_cons, List.reverse_nil, List.nil_append,
    List.singleton_append, List.length_append, List.length_cons, List.length_nil, highestSetBitGo]
  by_cases hx : x ≠ 0
  · have hl := log2_lt x hx
    rw [if_pos ((u8_pos_iff_ne_zero x).mpr hx), if_pos hx]
    unfold lz
    congr 1
    omega
  · rw [if_neg (fun h => hx ((u8_pos_iff_ne_zero x).mp h)), if_neg hx]
    simp

theorem bit_snoc_last (bs : Bytes) (x : UInt8) (k : Nat) (hk : k < 8) :
    bit (bs ++ [x]) (8 * bs.length + k) = tb x k := by
  rw [bit_mul_add _ _ _ hk]
  simp

theorem bit_snoc_lt (bs : Bytes) (x : UInt8) (j : Nat) (h : j / 8 < bs.length) :
    bit (bs ++ [x]) j = bit bs j := bit_append_left _ _ _ h

/-- with a zero last byte, the bits are those of the prefix -/
theorem bit_snoc_zero (bs : Bytes) (j : Nat) : bit (bs ++ [0]) j = bit bs j :=
  bit_append_zeros bs 1 j

theorem highestSetBit_spec (bs : Bytes) :
    (∀ i, highestSetBit bs = some i →
        bit bs i = true ∧ (∀ j, i < j → bit bs j = false) ∧ i < 8 * bs.length) ∧
    (highestSetBit bs = none → ∀ j, bit bs j = false) := by
  suffices H : ∀ r : Bytes, (∀ i, highestSetBit r.reverse = some i →
        bit r.reverse i = true ∧ (∀ j, i < j → bit r.reverse j = false) ∧ i < 8 * r.reverse.length) ∧
      (highestSetBit r.reverse = none → ∀ j, bit r.reverse j = false) by
    simpa using H bs.reverse
  intro r
  induction r with
  | nil => exact ⟨fun i h => by simp [highestSetBit_nil] at h, fun _ j => bit_nil j⟩
  | cons x r ih =>
    rw [List.reverse_cons, highestSetBit_snoc]
    by_cases hx : x ≠ 0
    · rw [if_pos hx]
      refine ⟨?_, fun h => by cases h⟩
      intro i hi
      injection hi with hi
      subst hi
      have hl := log2_lt x hx
      refine ⟨?_, ?_, ?_⟩
      · rw [bit_snoc_last _ _ _ hl]; exact tb_log2 x hx
      · intro j hj
        by_cases hq : j / 8 < r.reverse.length + 1
        · have e : j = 8 * r.reverse.length + (j - 8 * r.reverse.length) := by omega
          rw [e, bit_snoc_last _ _ _ (by omega)]
          exact tb_above_log2 x hx _ (by omega)
        · exact bit_oob _ _ (by simp only [List.length_append, List.length_cons, List.length_nil]; omega)
      · simp only [List.length_append, List.length_cons, List.length_nil]; omega
    · have hx0 : x = 0 := Classical.not_not.mp hx
      subst hx0
      rw [if_neg hx]
      refine ⟨?_, ?_⟩
      · intro i hi
        obtain ⟨h1, h2, h3⟩ := ih.1 i hi
        refine ⟨by rw [bit_snoc_zero]; exact h1, fun j hj => by rw [bit_snoc_zero]; exact h2 j hj, ?_⟩
        simp at h3 ⊢; omega
      · intro hn j
        rw [bit_snoc_zero]; exact ih.2 hn j

/-- `highest_set_bit = Some(i)`: bit `i` is set, every higher bit is clear, `i` is in range -/
theorem highestSetBit_some (bs : Bytes) (i : Nat) (h : highestSetBit bs = some i) :
    bit bs i = true ∧ (∀ j, i < j → bit bs j = false) ∧ i < 8 * bs.length :=
  (highestSetBit_spec bs).1 i h

theorem highestSetBit_some_iff (bs : Bytes) (i : Nat) :
    highestSetBit bs = some i ↔ bit bs i = true ∧ ∀ j, i < j → bit bs j = false := by
  constructor
  · intro h
    exact ⟨(highestSetBit_some bs i h).1, (highestSetBit_some bs i h).2.1⟩
  · rintro ⟨h1, h2⟩
    cases hh : highestSetBit bs with
    | none => rw [(highestSetBit_spec bs).2 hh i] at h1; cases h1
    | some k =>
      obtain ⟨k1, k2, _⟩ := highestSetBit_some bs k hh
      by_cases hlt : i < k
      · rw [h2 k hlt] at k1; cases k1
      · by_cases hgt : k < i
        · rw [k2 i hgt] at h1; cases h1
        · have : k = i := by omega
          rw [this]

theorem highestSetBit_none_iff_bits (bs : Bytes) : highestSetBit bs = none ↔ ∀ j, bit bs j = false := by
  constructor
  · exact (highestSetBit_spec bs).2
  · intro h
    cases hh : highestSetBit bs with
    | none => rfl
    | some k => exact absurd (highestSetBit_some bs k hh).1 (by rw [h k]; decide)

theorem all_zero_iff_bits (bs : Bytes) : (∀ x ∈ bs, x = 0) ↔ ∀ j, bit bs j = false := by
  constructor
  · intro h j
    unfold bit
    cases hq : bs[j / 8]? with
    | none => simp [tb]
    | some x =>
      have := h x (List.mem_of_getElem? hq)
      subst this
      simp [tb]
  · intro h x hx
    obtain ⟨q, hq, rfl⟩ := List.getElem_of_mem hx
    apply zero_of_bits'
    intro k hk
    have := h (8 * q + k)
    rw [bit_mul_add _ _ _ hk, List.getElem?_eq_getElem hq] at this
    simpa using this

/-- `highest_set_bit = None` exactly for all-zero byte strings -/
theorem highestSetBit_none_iff (bs : Bytes) : highestSetBit bs = none ↔ ∀ x ∈ bs, x = 0 := by
  rw [highestSetBit_none_iff_bits, all_zero_iff_bits]


/-! ### `BF.ofBits` -/

theorem inv_zeros (n : Nat) : (⟨List.replicate (bytesForBitLen n) 0, n⟩ : BF).Inv :=
  ⟨by simp, fun i _ => bit_replicate_zero _ _⟩

theorem ofBitsGo_spec (l : List Bool) : ∀ (i : Nat) (bf : BF), bf.Inv → i + l.length ≤ bf.len →
    (BF.ofBitsGo l i bf).Inv ∧ (BF.ofBitsGo l i bf).len = bf.len ∧
    (BF.ofBitsGo l i bf).bytes.length = bf.bytes.length ∧
    ∀ j, bit (BF.ofBitsGo l i bf).bytes j =
      if i ≤ j ∧ j < i + l.length then l[j - i]?.getD false else bit bf.bytes j := by
  induction l with
  | nil =>
    intro i bf h _
    refine ⟨h, rfl, rfl, fun j => ?_⟩
    have : ¬ (i ≤ j ∧ j < i + ([] : List Bool).length) := by simp
    rw [if_neg this]; rfl
  | cons b bs ih =>
    intro i bf h hl
    simp only [List.length_cons] at hl
    obtain ⟨bf', hs, hlen, hbl, hb, hinv⟩ := set_spec bf h i b (by omega)
    simp only [BF.ofBitsGo, hs, Option.getD_some]
    obtain ⟨i1, i2, i3, i4⟩ := ih (i + 1) bf' hinv (by omega)
    refine ⟨i1, by rw [i2, hlen], by rw [i3, hbl], fun j => ?_⟩
    rw [i4 j, hb j]
    by_cases hji : j = i
    · subst hji
      have h1 : ¬ (j + 1 ≤ j ∧ j < j + 1 + bs.length) := by omega
      have h2 : j ≤ j ∧ j < j + (b :: bs).length := by simp
      rw [if_neg h1, if_pos h2]; simp
    · by_cases hr : i + 1 ≤ j ∧ j < i + 1 + bs.length
      · have h2 : i ≤ j ∧ j < i + (b :: bs).length := by simp only [List.length_cons]; omega
        rw [if_pos hr, if_pos h2]
        have e : j - i = (j - (i + 1)) + 1 := by omega
        rw [e, List.getElem?_cons_succ]
      · have h2 : ¬ (i ≤ j ∧ j < i + (b :: bs).length) := by simp only [List.length_cons]; omega
        rw [if_neg hr, if_neg h2, if_neg hji]

theorem ofBits_spec (l : List Bool) :
    (BF.ofBits l).Inv ∧ (BF.ofBits l).len = l.length ∧
    (BF.ofBits l).bytes.length = bytesForBitLen l.length ∧
    ∀ j, bit (BF.ofBits l).bytes j = l[j]?.getD false := by
  obtain ⟨h1, h2, h3, h4⟩ := ofBitsGo_spec l 0 ⟨List.replicate (bytesForBitLen l.length) 0, l.length⟩
    (inv_zeros _) (by simp)
  refine ⟨h1, h2, by simpa [BF.ofBits] using h3, fun j => ?_⟩
  show bit (BF.ofBitsGo l 0 _).bytes j = _
  rw [h4 j]
  by_cases hj : j < l.length
  · simp [hj]
  · simp [hj, bit_replicate_zero]

theorem ofBits_inv' (l : List Bool) : (BF.ofBits l).Inv := (ofBits_spec l).1
theorem ofBits_len' (l : List Bool) : (BF.ofBits l).len = l.length := (ofBits_spec l).2.1
theorem ofBits_bytes_length' (l : List Bool) : (BF.ofBits l).bytes.length = bytesForBitLen l.length :=
  (ofBits_spec l).2.2.1
theorem ofBits_bit (l : List Bool) (j : Nat) : bit (BF.ofBits l).bytes j = l[j]?.getD false :=
  (ofBits_spec l).2.2.2 j

theorem ofBits_abs' (l : List Bool) : (BF.ofBits l).abs = l := by
  apply List.ext_getElem
  · rw [abs_length, ofBits_len']
  · intro n h1 h2
    rw [abs_getElem, ofBits_bit, List.getElem?_eq_getElem h2]; rfl

/-- a well-formed bitfield is rebuilt from its bits -/
theorem ofBits_of_abs (bf : BF) (h : bf.Inv) : BF.ofBits bf.abs = bf :=
  inv_ext _ _ (ofBits_inv' _) h (ofBits_abs' _)

/-! ### `BitList::into_bytes` / `BitList::from_bytes` through the bit view -/

theorem bytesForBitLen_succ (n : Nat) : bytesForBitLen (n + 1) = n / 8 + 1 := by
  unfold bytesForBitLen; omega

theorem bytesForBitLen_le (n : Nat) : bytesForBitLen n ≤ n / 8 + 1 := by
  unfold bytesForBitLen; omega

/-- `into_bytes` of a well-formed bitlist: `len / 8 + 1` bytes, the bits plus the delimiter -/
theorem intoBytesV_spec (bf : BF) (h : bf.Inv) :
    ∃ b, bf.intoBytesV = .ok b ∧ b.length = bf.len / 8 + 1 ∧
      ∀ j, bit b j = (decide (j = bf.len) || bit bf.bytes j) := by
  have hle : bf.bytes.length ≤ bf.len / 8 + 1 := by rw [h.1]; exact bytesForBitLen_le _
  have hr : resizeZero bf.bytes (bytesForBitLen (bf.len + 1)) =
      bf.bytes ++ List.replicate (bf.len / 8 + 1 - bf.bytes.length) 0 := by
    unfold resizeZero
    rw [bytesForBitLen_succ, List.take_of_length_le hle]
  have hinv : (⟨bf.bytes ++ List.replicate (bf.len / 8 + 1 - bf.bytes.length) 0, bf.len + 1⟩ : BF).Inv := by
    refine ⟨?_, ?_⟩
    · show (bf.bytes ++ List.replicate (bf.len / 8 + 1 - bf.bytes.length) 0).length = bytesForBitLen (bf.len + 1)
      rw [bytesForBitLen_succ, List.length_append, List.length_replicate]; omega
    · intro i hi
      have hi' : bf.len + 1 ≤ i := hi
      show bit (bf.bytes ++ List.replicate _ 0) i = false
      rw [bit_append_zeros]; exact h.2 i (by omega)
  obtain ⟨b', hs, hlen, hbl, hb, _⟩ := set_spec _ hinv bf.len true (Nat.lt_succ_self _)
  refine ⟨b'.bytes, ?_, ?_, ?_⟩
  · unfold BF.intoBytesV
    simp only [hr, fromRawBytes_of_inv _ hinv, hs]
  · rw [hbl]
    show (bf.bytes ++ List.replicate (bf.len / 8 + 1 - bf.bytes.length) 0).length = _
    rw [List.length_append, List.length_replicate]; omega
  · intro j
    rw [hb j]
    show (if j = bf.len then true else bit (bf.bytes ++ List.replicate _ 0) j) = _
    rw [bit_append_zeros]
    by_cases hj : j = bf.len <;> simp [hj]

theorem intoBytesV_ne_panic (bf : BF) (h : bf.Inv) : bf.intoBytesV ≠ .panic := by
  obtain ⟨b, hb, _⟩ := intoBytesV_spec bf h
  rw [hb]; intro e; cases e

/-- `from_bytes` evaluated: the only branches are `Err` and the final `from_raw_bytes` -/
theorem fromBytesV_eval (N : Nat) (b : Bytes) :
    (BF.fromBytesV N b = .err ∧
      (b = [] ∨ ∀ len, highestSetBit b = some len → ¬ (len / 8 + 1 = b.length ∧ len ≤ N))) ∨
    ∃ len cleared, b ≠ [] ∧ highestSetBit b = some len ∧ len / 8 + 1 = b.length ∧ len ≤ N ∧
      cleared.length = b.length ∧ (∀ j, bit cleared j = if j = len then false else bit b j) ∧
      BF.fromBytesV N b = Res.ofOption (fromRawBytes (cleared.take (bytesForBitLen len)) len) := by
  unfold BF.fromBytesV
  rw [fromRawBytes_full]
  by_cases hb : b = []
  · left; rw [if_pos hb]; exact ⟨rfl, Or.inl hb⟩
  · rw [if_neg hb]
    simp only [BF.highestSetBit]
    cases hh : highestSetBit b with
    | none => left; exact ⟨rfl, Or.inr (fun len h => by cases h)⟩
    | some len =>
      simp only
      by_cases h1 : len / 8 + 1 ≠ b.length
      · left; rw [if_pos h1]
        exact ⟨rfl, Or.inr (fun l h => by injection h with h; subst h; exact fun hc => h1 hc.1)⟩
      · rw [if_neg h1]
        have h1' : len / 8 + 1 = b.length := Classical.not_not.mp h1
        by_cases h2 : len ≤ N
        · rw [if_pos h2]
          obtain ⟨c, hs, _, hbl, hbits, _⟩ := set_spec ⟨b, b.length * 8⟩ (inv_full b hb) len false
            (by show len < b.length * 8; omega)
          right
          refine ⟨len, c.bytes, hb, rfl, h1', h2, hbl, hbits, ?_⟩
          rw [hs]
        · left; rw [if_neg h2]
          exact ⟨rfl, Or.inr (fun l h => by injection h with h; subst h; exact fun hc => h2 hc.2)⟩

theorem fromBytesV_ne_panic (N : Nat) (b : Bytes) : BF.fromBytesV N b ≠ .panic := by
  rcases fromBytesV_eval N b with ⟨h, _⟩ | ⟨len, c, _, _, _, _, _, _, h⟩
  · rw [h]; intro e; cases e
  · rw [h]
    cases fromRawBytes (c.take (bytesForBitLen len)) len <;> (intro e; cases e)

/-- `from_bytes` accepts `b` with result `bf` exactly when `b` is `bf`'s bits followed by the
    delimiter bit, in `len / 8 + 1` bytes -/
theorem fromBytesV_ok_iff (N : Nat) (b : Bytes) (bf : BF) :
    BF.fromBytesV N b = .ok bf ↔
      bf.Inv ∧ bf.len ≤ N ∧ b.length = bf.len / 8 + 1 ∧
        ∀ j, bit b j = (decide (j = bf.len) || bit bf.bytes j) := by
  constructor
  · intro h
    rcases fromBytesV_eval N b with ⟨he, _⟩ | ⟨len, c, hb, hh, h1, h2, hcl, hc, he⟩
    · rw [he] at h; cases h
    · rw [he] at h
      cases hf : fromRawBytes (c.take (bytesForBitLen len)) len with
      | none => rw [hf] at h; cases h
      | some bf' =>
        rw [hf] at h
        have hbf : bf' = bf := by simpa [Res.ofOption] using h
        subst hbf
        obtain ⟨rfl, hinv⟩ := (fromRawBytes_iff _ _ _).mp hf
        obtain ⟨t1, t2, t3⟩ := highestSetBit_some b len hh
        refine ⟨hinv, h2, h1.symm, fun j => ?_⟩
        show bit b j = (decide (j = len) || bit (c.take (bytesForBitLen len)) j)
        rw [bit_take, hc j]
        by_cases hj : j = len
        · subst hj; simp [t1]
        · by_cases hq : j / 8 < bytesForBitLen len
          · simp [hj, hq]
          · have : len < j := by unfold bytesForBitLen at hq; omega
            simp [hj, hq, t2 j this]
  · rintro ⟨hinv, hN, hl, hbits⟩
    have hb : b ≠ [] := by intro e; subst e; simp at hl
    have hh : highestSetBit b = some bf.len := by
      rw [highestSetBit_some_iff]
      refine ⟨by rw [hbits]; simp, fun j hj => ?_⟩
      rw [hbits, hinv.2 j (by omega)]
      have : j ≠ bf.len := by omega
      simp [this]
    rcases fromBytesV_eval N b with ⟨_, he⟩ | ⟨len, c, _, hh', h1, h2, hcl, hc, he⟩
    · exfalso
      rcases he with he | he
      · exact hb he
      · exact he bf.len hh ⟨hl.symm, hN⟩
    · rw [hh] at hh'
      injection hh' with hh'
      subst hh'
      rw [he]
      have : c.take (bytesForBitLen bf.len) = bf.bytes := by
        apply bytes_ext
        · rw [List.length_take, hcl, hinv.1, hl]
          have := bytesForBitLen_le bf.len; omega
        · intro j
          rw [bit_take, hc j]
          by_cases hq : j / 8 < bytesForBitLen bf.len
          · rw [if_pos hq]
            by_cases hj : j = bf.len
            · rw [if_pos hj, hj, hinv.2 _ (Nat.le_refl _)]
            · rw [if_neg hj, hbits j]; simp [hj]
          · rw [if_neg hq, bit_oob bf.bytes j (by rw [hinv.1]; omega)]
      rw [this, fromRawBytes_of_inv bf hinv]; rfl


/-! ### `Spec.packBits` -/

theorem tb_sum8 : ∀ b0 b1 b2 b3 b4 b5 b6 b7 : Bool, ∀ k < 8,
    tb (UInt8.ofNat ((if b0 = true then 2 ^ 0 else 0) + ((if b1 = true then 2 ^ 1 else 0) +
      ((if b2 = true then 2 ^ 2 else 0) + ((if b3 = true then 2 ^ 3 else 0) +
      ((if b4 = true then 2 ^ 4 else 0) + ((if b5 = true then 2 ^ 5 else 0) +
      ((if b6 = true then 2 ^ 6 else 0) + ((if b7 = true then 2 ^ 7 else 0) + 0))))))))) k =
      [b0, b1, b2, b3, b4, b5, b6, b7][k]?.getD false := by
  decide +kernel

theorem tb_byteOf (g : Nat → Bool) (k : Nat) (hk : k < 8) :
    tb (UInt8.ofNat (((List.range 8).map fun k => if g k then 2 ^ k else 0).sum)) k = g k := by
  have hr : List.range 8 = [0, 1, 2, 3, 4, 5, 6, 7] := by decide
  rw [hr]
  simp only [List.map_cons, List.map_nil, List.sum_cons, List.sum_nil]
  rw [tb_sum8 (g 0) (g 1) (g 2) (g 3) (g 4) (g 5) (g 6) (g 7) k hk]
  match k, hk with
  | 0, _ => rfl
  | 1, _ => rfl
  | 2, _ => rfl
  | 3, _ => rfl
  | 4, _ => rfl
  | 5, _ => rfl
  | 6, _ => rfl
  | 7, _ => rfl

theorem packBits_length (l : List Bool) (m : Nat) : (Spec.packBits l m).length = m := by
  simp [Spec.packBits]

theorem bit_packBits (l : List Bool) (m j : Nat) :
    bit (Spec.packBits l m) j = if j / 8 < m then l[j]?.getD false else false := by
  by_cases h : j / 8 < m
  · rw [if_pos h, bit_eq_getElem _ _ (by rw [packBits_length]; exact h)]
    simp only [Spec.packBits, List.getElem_map, List.getElem_range]
    rw [tb_byteOf (fun k => l.getD (8 * (j / 8) + k) false) _ (Nat.mod_lt j (by decide))]
    have : 8 * (j / 8) + j % 8 = j := by omega
    simp only [this, List.getD_eq_getElem?_getD]
  · rw [if_neg h]
    exact bit_oob _ _ (by rw [packBits_length]; omega)

/-- a byte string is the packing of its own bits -/
theorem eq_packBits (b : Bytes) (l : List Bool) (m : Nat) (hl : b.length = m)
    (h : ∀ j, bit b j = if j / 8 < m then l[j]?.getD false else false) : b = Spec.packBits l m := by
  apply bytes_ext
  · rw [packBits_length, hl]
  · intro j; rw [h j, bit_packBits]

/-! ### the three behaviours together (`BKind`) -/

theorem fromBytes_ne_panic (k : BKind) (b : Bytes) : BF.fromBytes k b ≠ .panic := by
  cases k with
  | «variable» N => exact fromBytesV_ne_panic N b
  | fixed N =>
    show Res.ofOption (BF.fromBytesF N b) ≠ .panic
    cases BF.fromBytesF N b <;> (intro e; cases e)
  | dynamic =>
    show Res.ofOption (BF.decodeDyn b) ≠ .panic
    cases BF.decodeDyn b <;> (intro e; cases e)

theorem resOfOption_ok_iff {α} (o : Option α) (a : α) : Res.ofOption o = .ok a ↔ o = some a := by
  cases o <;> simp [Res.ofOption]

theorem decodeDyn_iff (b : Bytes) (bf : BF) :
    BF.decodeDyn b = some bf ↔ b ≠ [] ∧ bf = ⟨b, b.length * 8⟩ := by
  unfold BF.decodeDyn
  rw [fromRawBytes_full]
  by_cases hb : b = []
  · subst hb; simp
  · have : b.isEmpty = false := by cases b <;> simp_all
    simp only [this, hb, if_false, Bool.false_eq_true, ↓reduceIte, ne_eq, not_false_eq_true, true_and,
      Option.some.injEq]
    exact eq_comm

/-- whatever `from_bytes` accepts is well formed, respects the behaviour's length rule and is
    re-encoded by `into_bytes` to the same byte string -/
theorem fromBytes_sound (k : BKind) (b : Bytes) (bf : BF) (h : BF.fromBytes k b = .ok bf) :
    bf.Inv ∧ k.lenOk bf.len = true ∧ bf.intoBytes k = .ok b := by
  cases k with
  | «variable» N =>
    obtain ⟨hinv, hN, hl, hbits⟩ := (fromBytesV_ok_iff N b bf).mp h
    refine ⟨hinv, by simpa [BKind.lenOk] using hN, ?_⟩
    obtain ⟨b', hb', hl', hbits'⟩ := intoBytesV_spec bf hinv
    show bf.intoBytesV = .ok b
    rw [hb']
    congr 1
    exact bytes_ext _ _ (by rw [hl, hl']) (fun j => by rw [hbits, hbits'])
  | fixed N =>
    have h' : fromRawBytes b N = some bf := (resOfOption_ok_iff _ _).mp h
    obtain ⟨rfl, hinv⟩ := (fromRawBytes_iff _ _ _).mp h'
    exact ⟨hinv, by simp [BKind.lenOk], rfl⟩
  | dynamic =>
    have h' : BF.decodeDyn b = some bf := (resOfOption_ok_iff _ _).mp h
    obtain ⟨hb, rfl⟩ := (decodeDyn_iff b bf).mp h'
    have hpos : 0 < b.length := List.length_pos_iff.mpr hb
    refine ⟨inv_full b hb, ?_, rfl⟩
    simp [BKind.lenOk]; omega

/-- every well-formed bitfield obeying the length rule is encoded, and decoded back to itself -/
theorem fromBytes_complete (k : BKind) (bf : BF) (hinv : bf.Inv) (hk : k.lenOk bf.len = true) :
    ∃ b, bf.intoBytes k = .ok b ∧ BF.fromBytes k b = .ok bf := by
  cases k with
  | «variable» N =>
    obtain ⟨b, hb, hl, hbits⟩ := intoBytesV_spec bf hinv
    refine ⟨b, hb, ?_⟩
    exact (fromBytesV_ok_iff N b bf).mpr ⟨hinv, by simpa [BKind.lenOk] using hk, hl, hbits⟩
  | fixed N =>
    refine ⟨bf.bytes, rfl, ?_⟩
    have : bf.len = N := by simpa [BKind.lenOk] using hk
    show Res.ofOption (fromRawBytes bf.bytes N) = .ok bf
    rw [← this, fromRawBytes_of_inv bf hinv]; rfl
  | dynamic =>
    refine ⟨bf.bytes, rfl, ?_⟩
    have hk' : 0 < bf.len ∧ bf.len % 8 = 0 := by simpa [BKind.lenOk] using hk
    have hlen : bf.bytes.length * 8 = bf.len := by
      rw [hinv.1]; unfold bytesForBitLen; omega
    have hne : bf.bytes ≠ [] := by
      intro e; rw [e] at hlen; simp at hlen; omega
    show Res.ofOption (BF.decodeDyn bf.bytes) = .ok bf
    rw [(decodeDyn_iff bf.bytes ⟨bf.bytes, bf.bytes.length * 8⟩).mpr ⟨hne, rfl⟩, hlen]; rfl

end Ssz.BC