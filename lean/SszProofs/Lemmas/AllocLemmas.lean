import SszModel.Alloc
import SszProofs.Lemmas.Key
import SszProofs.C16
/-
  Helper lemmas for C06 (allocation is linear in the input length):
  the two type-only constants `allocA` (slope) / `allocB` (intercept), arithmetic glue,
  "the pieces handed to the item decoders are disjoint pieces of the input" for the three ways the
  decoders cut their input (`chunks`, the builder, the offset-table walk).
-/
set_option linter.unusedSimpArgs false
namespace Ssz.AL
open Ssz

/-! ### the constants -/

mutual
/-- slope: allocation units per input byte -/
def allocA : Ty → Nat
  | .byteList => 1
  | .bitvector _ => 1
  | .bitlist _ => 1
  | .bitvectorDyn => 1
  | .list _ t => 4 * t.slot + allocA t + allocB t
  | .option t => allocA t
  | .legacyOption t => allocA t
  | .tuple ts => allocAs ts
  | .container ts => allocAs ts
  | .union ts => allocAs ts
  | .transparentEnum ts => allocAs ts
  | .uint _ => 0
  | .bool => 0
  | .nonZeroUsize => 0
  | .bytesN _ => 0
  | .tagEnum _ => 0
def allocAs : List Ty → Nat
  | [] => 0
  | t :: ts => allocA t + allocAs ts
/-- intercept: allocation units independent of the input length (spill of the builder's inline vectors) -/
def allocB : Ty → Nat
  | .list _ _ => 0
  | .option t => allocB t
  | .legacyOption t => allocB t
  | .tuple ts => spill ts.length + allocBs ts
  | .container ts => spill ts.length + allocBs ts
  | .union ts => allocBs ts
  | .transparentEnum ts => allocBs ts
  | .byteList => 0
  | .bitvector _ => 0
  | .bitlist _ => 0
  | .bitvectorDyn => 0
  | .uint _ => 0
  | .bool => 0
  | .nonZeroUsize => 0
  | .bytesN _ => 0
  | .tagEnum _ => 0
def allocBs : List Ty → Nat
  | [] => 0
  | t :: ts => allocB t + allocBs ts
end

/-! ### arithmetic glue (products of variables are atoms for `omega`) -/

theorem mul_mono (a : Nat) {x y : Nat} (h : x ≤ y) : a * x ≤ a * y := Nat.mul_le_mul_left a h

/-- two pieces of a whole, each with its own slope -/
theorem split_bound (a c x y : Nat) : a * x + c * y ≤ (a + c) * (x + y) := by
  rw [Nat.add_mul, Nat.mul_add, Nat.mul_add]; omega

theorem split_bound' (a c x y L : Nat) (h : x + y ≤ L) : a * x + c * y ≤ (a + c) * L :=
  Nat.le_trans (split_bound a c x y) (mul_mono _ h)

/-- `k` slots of size `S`, `n` item decoder calls on `s` bytes in total, all bounded by `L` -/
theorem list_bound (S A B k s n L X : Nat) (hk : k ≤ L) (hs : s ≤ L) (hn : n ≤ L)
    (h : X ≤ A * s + B * n) : 4 * k * S + X ≤ (4 * S + A + B) * L := by
  have h1 : 4 * k * S ≤ 4 * S * L := by
    rw [Nat.mul_right_comm]; exact mul_mono _ hk
  have h2 : A * s ≤ A * L := mul_mono _ hs
  have h3 : B * n ≤ B * L := mul_mono _ hn
  rw [Nat.add_mul, Nat.add_mul]; omega

/-! ### `chunks`: at most one chunk per input byte, the chunks are pieces of the input -/

theorem chunksGo_length (n : Nat) (hn : 0 < n) : ∀ (fuel : Nat) (b : Bytes),
    (chunksGo n b fuel).length ≤ b.length
  | 0, b => by simp [chunksGo]
  | fuel+1, b => by
      simp only [chunksGo]
      cases b with
      | nil => simp
      | cons x xs =>
        simp only [List.isEmpty_cons, Bool.false_eq_true, if_false, List.length_cons]
        have := chunksGo_length n hn fuel ((x :: xs).drop n)
        simp only [List.length_drop, List.length_cons] at this
        omega

theorem chunksGo_sum (n : Nat) : ∀ (fuel : Nat) (b : Bytes),
    ((chunksGo n b fuel).map List.length).sum ≤ b.length
  | 0, b => by simp [chunksGo]
  | fuel+1, b => by
      simp only [chunksGo]
      cases b with
      | nil => simp
      | cons x xs =>
        simp only [List.isEmpty_cons, Bool.false_eq_true, if_false, List.map_cons, List.sum_cons,
          List.length_take]
        have := chunksGo_sum n fuel ((x :: xs).drop n)
        simp only [List.length_drop] at this
        omega

theorem chunks_length {n : Nat} (hn : 0 < n) {b : Bytes} {cs : List Bytes}
    (h : chunks n b = .ok cs) : cs.length ≤ b.length := by
  unfold chunks at h
  rw [if_neg (by omega)] at h
  injection h with h; subst h
  exact chunksGo_length n hn _ _

theorem chunks_sum {n : Nat} {b : Bytes} {cs : List Bytes}
    (h : chunks n b = .ok cs) : (cs.map List.length).sum ≤ b.length := by
  unfold chunks at h
  by_cases hn : n = 0
  · simp [hn] at h
  · rw [if_neg hn] at h
    injection h with h; subst h
    exact chunksGo_sum n _ _

/-! ### the builder: the items are disjoint pieces of the input -/

theorem parts_sum : ∀ (regs : List Reg) (items : List Bytes) (o : Nat), itemsFit regs items = true →
    (items.map List.length).sum ≤ (fpart regs items o).length + (vpart regs items).length
  | [], [], _, _ => by simp
  | [], _ :: _, _, h => by simp [itemsFit] at h
  | .fixed n :: rs, [], _, h => by simp [itemsFit] at h
  | .var :: rs, [], _, h => by simp [itemsFit] at h
  | .fixed n :: rs, it :: its, o, h => by
      simp only [itemsFit, Bool.and_eq_true] at h
      have := parts_sum rs its o h.2
      simp only [fpart, vpart, List.map_cons, List.sum_cons, List.length_append]
      omega
  | .var :: rs, it :: its, o, h => by
      simp only [itemsFit] at h
      have := parts_sum rs its (o + it.length) h
      simp only [fpart, vpart, List.map_cons, List.sum_cons, List.length_append]
      omega

theorem build_items_sum {regs : List Reg} {b : Bytes} {items : List Bytes}
    (h : build regs b = .ok items) : (items.map List.length).sum ≤ b.length := by
  obtain ⟨he, hf⟩ := build_sound regs b items h
  have := parts_sum regs items (fixedSize regs) hf
  rw [← he, encodeItems_eq, List.length_append]
  exact this

/-! ### the offset-table walk -/

theorem hint_le {α} (f : Bytes → Res α) (b : Bytes) (m : Option Nat) (c : Coll) :
    4 * ((listVarT f b m c).2.sizeHint.getD 0) ≤ b.length := by
  cases h : (listVarT f b m c).2.sizeHint with
  | none => simp
  | some n => simpa using C16.size_hint_backed f b m c n h

end Ssz.AL
