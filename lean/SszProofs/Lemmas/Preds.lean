import SszModel.Codec
/-
  Predicates on the type algebra used as hypotheses of the property theorems. They state exactly
  the exclusions the properties themselves make (C01: transparent enums and lists of zero-length
  items; C02: ordered maps/sets and transparent enums) plus the side condition that key types of
  ordered collections have a modelled `Ord`.
-/
namespace Ssz

mutual
/-- types whose Rust `Ord` is modelled by `Val.cmp` (usable as set elements / map keys) -/
def Ty.ordKey : Ty → Bool
  | .uint _ => true
  | .bool => true
  | .nonZeroUsize => true
  | .bytesN _ => true
  | .byteList => true
  | .list c t => c == .vec && t.ordKey
  | .option t => t.ordKey
  | .tuple ts => ordKeyAll ts
  | _ => false
def ordKeyAll : List Ty → Bool
  | [] => true
  | t :: ts => t.ordKey && ordKeyAll ts
end

/-- key type of a collection kind: the element for sets, the first component for maps -/
def keyTyOk : CKind → Ty → Bool
  | .vec, _ => true
  | .set, t => t.ordKey
  | .map, .tuple [k, _] => k.ordKey
  | .map, _ => false

mutual
/-- C01 is claimed for `t`: no transparent enum and no list of zero-length items anywhere inside -/
def Ty.rt : Ty → Bool
  | .list c t => t.rt && !(t.isFixed && t.fixedLen == 0) && keyTyOk c t
  | .option t => t.rt
  | .tuple ts => rtAll ts
  | .container ts => rtAll ts
  | .union ts => rtAll ts
  | .transparentEnum _ => false
  | .legacyOption t => t.rt
  | _ => true
def rtAll : List Ty → Bool
  | [] => true
  | t :: ts => t.rt && rtAll ts
end

mutual
/-- C02 is claimed for `t`: no ordered map/set and no transparent enum anywhere inside -/
def Ty.strict : Ty → Bool
  | .list c t => c == .vec && t.strict
  | .option t => t.strict
  | .tuple ts => strictAll ts
  | .container ts => strictAll ts
  | .union ts => strictAll ts
  | .transparentEnum _ => false
  | .legacyOption t => t.strict
  | _ => true
def strictAll : List Ty → Bool
  | [] => true
  | t :: ts => t.strict && strictAll ts
end

end Ssz
