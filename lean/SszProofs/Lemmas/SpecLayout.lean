import SszProofs.C09
import SszProofs.Lemmas.CodecFacts
import SszProofs.Lemmas.BitFacts
import SszModel.Spec
/-
  Helper lemmas for C03: the `fixed_parts / variable_offsets / variable_parts` construction of the
  specification (`Spec.layout`) in recursive form (`lfix`, `lvar`, `lfixLen`), and its agreement with
  the functional form of the incremental encoder (`fpart`, `vpart`, `fixedSize` of `Key.lean`).
-/
set_option linter.unusedSimpArgs false
namespace Ssz.SL
/-! ### `Spec.layout` in recursive form -/

/-- fixed region of the layout: the bytes of a fixed part, the offset word of a variable part; `o` is
    the offset of the next variable part -/
def lfix : List (Bool × Bytes) → Nat → Bytes
  | [], _ => []
  | (true, b) :: ps, o => Spec.uintBytes 4 o ++ lfix ps (o + b.length)
  | (false, b) :: ps, o => b ++ lfix ps o

/-- variable region: the variable parts in order -/
def lvar : List (Bool × Bytes) → Bytes
  | [] => []
  | (true, b) :: ps => b ++ lvar ps
  | (false, _) :: ps => lvar ps

/-- `sum(fixed_lengths)` -/
def lfixLen : List (Bool × Bytes) → Nat
  | [] => 0
  | (true, _) :: ps => 4 + lfixLen ps
  | (false, b) :: ps => b.length + lfixLen ps

theorem uintBytes_length (k n : Nat) : (Spec.uintBytes k n).length = k := by
  simp [Spec.uintBytes]

theorem layout_fixed_aux (parts : List (Bool × Bytes)) (base : Nat) :
    ((parts.zip ((List.range parts.length).map fun i =>
        base + ((parts.map fun p => if p.1 then p.2.length else 0).take i).sum)).map
      fun po => if po.1.1 then Spec.uintBytes 4 po.2 else po.1.2).flatten = lfix parts base := by
  induction parts generalizing base with
  | nil => simp [lfix]
  | cons p ps ih =>
    obtain ⟨f, b⟩ := p
    rw [List.length_cons, List.range_succ_eq_map]
    cases f
    · simp only [List.map_cons, List.map_map, List.zip_cons_cons, List.take_zero, List.sum_nil,
        Nat.add_zero, Bool.false_eq_true, ↓reduceIte, List.flatten_cons, lfix]
      congr 1
      rw [← ih base]
      congr 3
      apply List.map_congr_left
      intro i _
      simp [Function.comp]
    · simp only [List.map_cons, List.map_map, List.zip_cons_cons, List.take_zero, List.sum_nil,
        Nat.add_zero, ↓reduceIte, List.flatten_cons, lfix]
      congr 1
      rw [← ih (base + b.length)]
      congr 3
      apply List.map_congr_left
      intro i _
      simp [Function.comp, Nat.add_assoc]

theorem layout_var_aux (parts : List (Bool × Bytes)) :
    (parts.map fun p => if p.1 then p.2 else []).flatten = lvar parts := by
  induction parts with
  | nil => simp [lvar]
  | cons p ps ih => obtain ⟨f, b⟩ := p; cases f <;> simp [lvar, ih]

theorem layout_len_aux (parts : List (Bool × Bytes)) :
    (parts.map fun p => if p.1 then 4 else p.2.length).sum = lfixLen parts := by
  induction parts with
  | nil => simp [lfixLen]
  | cons p ps ih => obtain ⟨f, b⟩ := p; cases f <;> simp [lfixLen, ih]

/-- the specification's layout, as a recursion over the parts -/
theorem layout_eq (parts : List (Bool × Bytes)) :
    Spec.layout parts = lfix parts (lfixLen parts) ++ lvar parts := by
  unfold Spec.layout
  simp only [layout_len_aux, layout_var_aux, layout_fixed_aux]

theorem lfix_length (parts : List (Bool × Bytes)) (o : Nat) : (lfix parts o).length = lfixLen parts := by
  induction parts generalizing o with
  | nil => simp [lfix, lfixLen]
  | cons p ps ih => obtain ⟨f, b⟩ := p; cases f <;> simp [lfix, lfixLen, ih, uintBytes_length]

theorem layout_length (parts : List (Bool × Bytes)) :
    (Spec.layout parts).length = lfixLen parts + (lvar parts).length := by
  rw [layout_eq, List.length_append, lfix_length]

/-- every part is a piece of the layout, hence not longer -/
theorem part_length_le (parts : List (Bool × Bytes)) (p : Bool × Bytes) (h : p ∈ parts) :
    p.2.length ≤ lfixLen parts + (lvar parts).length := by
  induction parts with
  | nil => cases h
  | cons q qs ih =>
    obtain ⟨f, b⟩ := q
    rcases List.mem_cons.mp h with rfl | h
    · cases f <;> simp [lfixLen, lvar] <;> omega
    · have := ih h
      cases f <;> simp [lfixLen, lvar] <;> omega

/-! ### `is_variable_size` of the specification is the negation of `is_ssz_fixed_len` -/

mutual
theorem specIsVariable_eq : ∀ t : Ty, Spec.isVariable t = !t.isFixed
  | .uint _ => by simp [Spec.isVariable, Ty.isFixed]
  | .bool => by simp [Spec.isVariable, Ty.isFixed]
  | .nonZeroUsize => by simp [Spec.isVariable, Ty.isFixed]
  | .bytesN _ => by simp [Spec.isVariable, Ty.isFixed]
  | .byteList => by simp [Spec.isVariable, Ty.isFixed]
  | .list _ _ => by simp [Spec.isVariable, Ty.isFixed]
  | .option _ => by simp [Spec.isVariable, Ty.isFixed]
  | .tuple ts => by simp [Spec.isVariable, Ty.isFixed, specAnyVariable_eq ts]
  | .container ts => by simp [Spec.isVariable, Ty.isFixed, specAnyVariable_eq ts]
  | .union _ => by simp [Spec.isVariable, Ty.isFixed]
  | .tagEnum _ => by simp [Spec.isVariable, Ty.isFixed]
  | .transparentEnum _ => by simp [Spec.isVariable, Ty.isFixed]
  | .bitvector _ => by simp [Spec.isVariable, Ty.isFixed]
  | .bitlist _ => by simp [Spec.isVariable, Ty.isFixed]
  | .bitvectorDyn => by simp [Spec.isVariable, Ty.isFixed]
  | .legacyOption _ => by simp [Spec.isVariable, Ty.isFixed]
theorem specAnyVariable_eq : ∀ ts : List Ty, Spec.anyVariable ts = !allFixed ts
  | [] => by simp [Spec.anyVariable, allFixed]
  | t :: ts => by simp [Spec.anyVariable, allFixed, specIsVariable_eq t, specAnyVariable_eq ts]
end

/-! ### the encoder's bookkeeping numbers -/

theorem fixedLen_of_not_isFixed (t : Ty) (h : t.isFixed = false) : t.fixedLen = 4 := by
  cases t <;> simp [Ty.isFixed, Ty.fixedLen] at h ⊢ <;> simp [h]

theorem reg_size_eq_fixedLen (t : Ty) : t.reg.size = t.fixedLen := by
  unfold Ty.reg
  cases h : t.isFixed
  · simp [Reg.size, fixedLen_of_not_isFixed t h]
  · simp [Reg.size]

theorem sumFixedLen_eq_fixedSize (ts : List Ty) : sumFixedLen ts = fixedSize (regsOf ts) := by
  induction ts with
  | nil => simp [sumFixedLen, regsOf, fixedSize]
  | cons t ts ih => simp [sumFixedLen, regsOf, fixedSize, reg_size_eq_fixedLen, ih]

theorem encodeLength_eq_uintBytes {o : Nat} (h : o < 2^32) : encodeLength o = Spec.uintBytes 4 o := by
  rw [encodeLength_lt h, C09.le_eq_uintBytes]

/-! ### containers and tuples: the incremental encoder writes the specification's layout -/

theorem fields_layout (ts : List Ty) : ∀ (vs : List Val) (o : Nat),
    hasTypes ts vs = true → encodeEach ts vs = (Spec.serFields ts vs).map (·.2) →
    o + (lvar (Spec.serFields ts vs)).length < 2^32 →
    fpart (regsOf ts) (encodeEach ts vs) o = lfix (Spec.serFields ts vs) o ∧
    vpart (regsOf ts) (encodeEach ts vs) = lvar (Spec.serFields ts vs) ∧
    fixedSize (regsOf ts) = lfixLen (Spec.serFields ts vs) := by
  induction ts with
  | nil => intro vs o _ _ _; simp [regsOf, fpart, vpart, fixedSize, Spec.serFields, lfix, lvar, lfixLen]
  | cons t ts ih =>
    intro vs o ht he ho
    cases vs with
    | nil => simp [hasTypes] at ht
    | cons v vs =>
      simp only [hasTypes, Bool.and_eq_true] at ht
      simp only [encodeEach, Spec.serFields, List.map_cons, List.cons.injEq] at he
      obtain ⟨he1, he2⟩ := he
      simp only [regsOf, encodeEach, Spec.serFields, specIsVariable_eq, Ty.reg]
      cases hf : t.isFixed
      · simp only [Bool.not_false, lvar, List.length_append] at ho ⊢
        simp only [Spec.serFields, specIsVariable_eq, hf, Bool.not_false, lvar, List.length_append] at ho
        obtain ⟨h1, h2, h3⟩ := ih vs (o + (Spec.ser t v).length) ht.2 he2 (by omega)
        have hlt : o < 2^32 := by omega
        simp [fpart, vpart, fixedSize, lfix, lfixLen, Reg.size, he1, h1, h2, h3,
          encodeLength_eq_uintBytes hlt]
      · simp only [Spec.serFields, specIsVariable_eq, hf, Bool.not_true, lvar] at ho
        obtain ⟨h1, h2, h3⟩ := ih vs o ht.2 he2 ho
        have hl := encode_fixed_length t v hf ht.1
        rw [he1] at hl
        simp [fpart, vpart, fixedSize, lfix, lvar, lfixLen, Reg.size, he1, h1, h2, h3, hl]

theorem container_layout (ts : List Ty) (vs : List Val) (ht : hasTypes ts vs = true)
    (he : encodeEach ts vs = (Spec.serFields ts vs).map (·.2))
    (hlen : (Spec.layout (Spec.serFields ts vs)).length < 2^32) :
    (encodeItemsGo (regsOf ts) (encodeEach ts vs) (Enc.container [] (sumFixedLen ts))).finalize
      = Spec.layout (Spec.serFields ts vs) := by
  rw [layout_length] at hlen
  rw [go_eq, layout_eq, sumFixedLen_eq_fixedSize]
  have h3 := (fields_layout ts vs 0 ht he (by omega)).2.2
  obtain ⟨h1, h2, _⟩ := fields_layout ts vs (fixedSize (regsOf ts)) ht he (by omega)
  rw [h3] at h1
  simp [Enc.container, h1, h2, h3]

/-! ### lists: homogeneous parts -/

theorem serAll_eq_map (t : Ty) (vs : List Val) :
    Spec.serAll t vs = vs.map fun v => (Spec.isVariable t, Spec.ser t v) := by
  induction vs with
  | nil => simp [Spec.serAll]
  | cons v vs ih => simp [Spec.serAll, ih]

theorem lfix_allVar (items : List Bytes) (o : Nat) (h : o + items.flatten.length < 2^32) :
    lfix (items.map fun b => (true, b)) o = hdr items o := by
  induction items generalizing o with
  | nil => simp [lfix, hdr]
  | cons it its ih =>
    simp only [List.flatten_cons, List.length_append] at h
    have hlt : o < 2^32 := by omega
    simp only [List.map_cons, lfix, hdr, encodeLength_eq_uintBytes hlt]
    rw [ih (o + it.length) (by omega)]

theorem lvar_allVar (items : List Bytes) : lvar (items.map fun b => (true, b)) = items.flatten := by
  induction items with
  | nil => simp [lvar]
  | cons it its ih => simp [lvar, ih]

theorem lfixLen_allVar (items : List Bytes) : lfixLen (items.map fun b => (true, b)) = 4 * items.length := by
  induction items with
  | nil => simp [lfixLen]
  | cons it its ih => simp [lfixLen, ih]; omega

theorem lfix_allFixed (items : List Bytes) (o : Nat) :
    lfix (items.map fun b => (false, b)) o = items.flatten := by
  induction items with
  | nil => simp [lfix]
  | cons it its ih => simp [lfix, ih]

theorem lvar_allFixed (items : List Bytes) : lvar (items.map fun b => (false, b)) = [] := by
  induction items with
  | nil => simp [lvar]
  | cons it its ih => simp [lvar, ih]

/-- a list of fixed-size items is the concatenation of the items -/
theorem layout_allFixed (items : List Bytes) :
    Spec.layout (items.map fun b => (false, b)) = items.flatten := by
  rw [layout_eq, lfix_allFixed, lvar_allFixed, List.append_nil]

/-- a list of variable-size items is the offset table followed by the items -/
theorem layout_allVar (items : List Bytes)
    (h : (Spec.layout (items.map fun b => (true, b))).length < 2^32) :
    Spec.layout (items.map fun b => (true, b)) = hdr items (4 * items.length) ++ items.flatten := by
  rw [layout_length, lfixLen_allVar, lvar_allVar] at h
  rw [layout_eq, lfixLen_allVar, lvar_allVar, lfix_allVar _ _ h]

theorem appendAll_eq_flatten (t : Ty) (vs : List Val) :
    appendAll t vs [] = (vs.map (encode t)).flatten := by
  induction vs with
  | nil => simp [appendAll]
  | cons v vs ih =>
    simp only [appendAll, List.map_cons, List.flatten_cons]
    rw [appendAll_prefix, ih]; rfl

theorem list_layout (c : CKind) (t : Ty) (vs : List Val)
    (he : vs.map (encode t) = vs.map (Spec.ser t))
    (hlen : (Spec.layout (Spec.serAll t vs)).length < 2^32) :
    encode (.list c t) (.list vs) = Spec.layout (Spec.serAll t vs) := by
  have hs : Spec.serAll t vs = (vs.map (Spec.ser t)).map fun b => (Spec.isVariable t, b) := by
    rw [serAll_eq_map]; simp
  rw [hs, specIsVariable_eq] at hlen ⊢
  unfold encode
  simp only [sszAppend]
  cases hf : t.isFixed
  · simp only [hf, Bool.not_false, Bool.false_eq_true, ↓reduceIte] at hlen ⊢
    rw [layout_allVar _ hlen, appendSeq_eq, go_eq, he]
    have hl : vs.length = (vs.map (Spec.ser t)).length := by simp
    rw [hl, fpart_var, vpart_var]
    simp [Enc.container, Nat.mul_comm]
  · simp only [hf, Bool.not_true, ↓reduceIte] at hlen ⊢
    rw [layout_allFixed, appendAll_eq_flatten, he]

/-! ### lengths agree whatever the offsets are (used to move the `< 2^32` hypothesis between
    the encoder's output and the reference serialization) -/

theorem fields_length (ts : List Ty) : ∀ (vs : List Val) (o : Nat),
    hasTypes ts vs = true →
    (encodeEach ts vs).map List.length = (Spec.serFields ts vs).map (·.2.length) →
    (fpart (regsOf ts) (encodeEach ts vs) o).length = lfixLen (Spec.serFields ts vs) ∧
    (vpart (regsOf ts) (encodeEach ts vs)).length = (lvar (Spec.serFields ts vs)).length := by
  induction ts with
  | nil => intro vs o _ _; simp [regsOf, fpart, vpart, Spec.serFields, lvar, lfixLen]
  | cons t ts ih =>
    intro vs o ht he
    cases vs with
    | nil => simp [hasTypes] at ht
    | cons v vs =>
      simp only [hasTypes, Bool.and_eq_true] at ht
      simp only [encodeEach, Spec.serFields, List.map_cons, List.cons.injEq] at he
      obtain ⟨he1, he2⟩ := he
      simp only [regsOf, encodeEach, Spec.serFields, specIsVariable_eq, Ty.reg]
      cases hf : t.isFixed
      · obtain ⟨h1, h2⟩ := ih vs (o + (Spec.ser t v).length) ht.2 he2
        simp [fpart, vpart, lvar, lfixLen, he1, h1, h2, encodeLength, le_length]
      · obtain ⟨h1, h2⟩ := ih vs o ht.2 he2
        simp [fpart, vpart, lvar, lfixLen, he1, h1, h2]

theorem container_length (ts : List Ty) (vs : List Val) (n : Nat) (ht : hasTypes ts vs = true)
    (he : (encodeEach ts vs).map List.length = (Spec.serFields ts vs).map (·.2.length)) :
    (encodeItemsGo (regsOf ts) (encodeEach ts vs) (Enc.container [] n)).finalize.length
      = (Spec.layout (Spec.serFields ts vs)).length := by
  rw [go_eq, layout_length]
  obtain ⟨h1, h2⟩ := fields_length ts vs n ht he
  simp [Enc.container] at h1 ⊢
  rw [h1, h2]

theorem list_length (c : CKind) (t : Ty) (vs : List Val)
    (he : vs.map (fun v => (encode t v).length) = vs.map (fun v => (Spec.ser t v).length)) :
    (encode (.list c t) (.list vs)).length = (Spec.layout (Spec.serAll t vs)).length := by
  have hs : Spec.serAll t vs = (vs.map (Spec.ser t)).map fun b => (Spec.isVariable t, b) := by
    rw [serAll_eq_map]; simp
  have he' : (vs.map (encode t)).map List.length = (vs.map (Spec.ser t)).map List.length := by
    simpa [Function.comp] using he
  rw [hs, specIsVariable_eq, layout_length]
  unfold encode
  simp only [sszAppend]
  cases hf : t.isFixed
  · simp only [Bool.not_false, Bool.false_eq_true, ↓reduceIte]
    rw [lfixLen_allVar, lvar_allVar, appendSeq_eq, go_eq]
    have hl : vs.length = (vs.map (encode t)).length := by simp
    rw [hl, fpart_var, vpart_var]
    simp only [Enc.container, List.nil_append, List.length_append, hdr_length, List.length_flatten, he']
    simp
  · simp only [Bool.not_true, ↓reduceIte]
    rw [← lfix_length _ 0, lfix_allFixed, lvar_allFixed, appendAll_eq_flatten]
    simp only [List.length_flatten, he', List.length_nil, Nat.add_zero]

end Ssz.SL