import SszProofs.Lemmas.Key
set_option linter.unusedSimpArgs false
namespace Ssz

def ph : List Reg → List Bytes → List Bytes
  | .fixed _ :: S, it :: its => it :: ph S its
  | .var :: S, _ :: its => [] :: ph S its
  | _, _ => []
def offsOf : List Reg → List Bytes → Nat → Nat → List (Nat × Nat)
  | .fixed _ :: S, _ :: its, cur, base => offsOf S its cur (base+1)
  | .var :: S, it :: its, cur, base => (base, cur) :: offsOf S its (cur + it.length) (base+1)
  | _, _, _, _ => []

theorem fpart_length : ∀ (S : List Reg) (its : List Bytes) (cur : Nat),
    itemsFit S its = true → (fpart S its cur).length = fixedSize S
  | [], [], _, _ => by simp [fpart, fixedSize]
  | [], _ :: _, _, h => by simp [itemsFit] at h
  | .fixed n :: S, [], _, h => by simp [itemsFit] at h
  | .fixed n :: S, it :: its, cur, h => by
      simp only [itemsFit, Bool.and_eq_true, beq_iff_eq] at h
      simp [fpart, fixedSize, Reg.size, h.1, fpart_length S its cur h.2]
  | .var :: S, [], _, h => by simp [itemsFit] at h
  | .var :: S, it :: its, cur, h => by
      simp only [itemsFit] at h
      simp [fpart, fixedSize, Reg.size, encodeLength, le_length, fpart_length S its _ h]

theorem shape_ph : ∀ (S : List Reg) (its : List Bytes) (cur base : Nat),
    itemsFit S its = true → Shape S (ph S its) (offsOf S its cur base) base
  | [], [], _, _, _ => by simp [ph, offsOf, Shape]
  | [], _ :: _, _, _, h => by simp [itemsFit] at h
  | .fixed n :: S, [], _, _, h => by simp [itemsFit] at h
  | .fixed n :: S, it :: its, cur, base, h => by
      simp only [itemsFit, Bool.and_eq_true, beq_iff_eq] at h
      simp only [ph, offsOf, Shape]
      exact ⟨h.1, shape_ph S its cur (base+1) h.2⟩
  | .var :: S, [], _, _, h => by simp [itemsFit] at h
  | .var :: S, it :: its, cur, base, h => by
      simp only [itemsFit] at h
      simp only [ph, offsOf, Shape, true_and]
      exact shape_ph S its _ (base+1) h

theorem readOffset_encodeLength' (cur : Nat) (rest : Bytes) (h : cur < 2^32) :
    readOffset (encodeLength cur ++ rest) = some cur := by
  have hl : (encodeLength cur).length = 4 := by simp [encodeLength, le_length]
  unfold readOffset
  rw [if_pos (by simp [hl])]
  rw [List.take_left' hl]
  simp [encodeLength, fromLE_le, Nat.mod_eq_of_lt h]

theorem sanitize_ok (cur : Nat) (prev : Option Nat) (len : Nat) (h1 : cur ≤ len)
    (h2 : ∀ p, prev = some p → p ≤ cur) : sanitizeOffset cur prev len none = some cur := by
  unfold sanitizeOffset
  simp only [Option.any_none, Bool.false_eq_true, ↓reduceIte, Bool.and_false]
  rw [if_neg (by omega)]
  rw [if_neg]
  cases prev with
  | none => simp
  | some p => have := h2 p rfl; simp; omega

theorem registerAll_complete (b : Bytes) (hb : b.length < 2^32) : ∀ (S : List Reg) (its : List Bytes) (s : Builder) (cur : Nat),
    s.bytes = b → itemsFit S its = true →
    (b.drop s.idx).take (fixedSize S) = fpart S its cur →
    s.idx + fixedSize S ≤ b.length →
    cur + (vpart S its).length ≤ b.length →
    (∀ p, s.offsets.getLast?.map (·.2) = some p → p ≤ cur) →
    registerAll s S = .ok { bytes := b, items := s.items ++ ph S its,
                            offsets := s.offsets ++ offsOf S its cur s.items.length,
                            idx := s.idx + fixedSize S }
  | [], [], s, cur, hsb, _, _, _, _, _ => by
      subst hsb
      simp [registerAll, ph, offsOf, fixedSize]
  | [], _ :: _, _, _, _, h, _, _, _, _ => by simp [itemsFit] at h
  | .fixed n :: S, [], _, _, _, h, _, _, _, _ => by simp [itemsFit] at h
  | .fixed n :: S, it :: its, s, cur, hsb, hfit, hfp, hidx, hv, hprev => by
      simp only [itemsFit, Bool.and_eq_true, beq_iff_eq] at hfit
      simp only [fixedSize, Reg.size, fpart, take_add_drop] at hfp hidx
      have hl : ((b.drop s.idx).take n).length = n := by simp; omega
      have hsplit := List.append_inj hfp (by rw [hl, hfit.1])
      simp only [registerAll, Builder.register, hsb]
      rw [if_pos (by omega)]
      simp only
      have := registerAll_complete b hb S its
        { s with idx := s.idx + n, items := s.items ++ [(b.drop s.idx).take n] } cur hsb hfit.2
        hsplit.2 (by simp; omega) (by simpa [vpart] using hv) (by simpa using hprev)
      simp only [hsb] at this
      rw [this]
      simp [ph, offsOf, fixedSize, Reg.size, hsplit.1, Nat.add_assoc]
  | .var :: S, [], _, _, _, h, _, _, _, _ => by simp [itemsFit] at h
  | .var :: S, it :: its, s, cur, hsb, hfit, hfp, hidx, hv, hprev => by
      simp only [itemsFit] at hfit
      simp only [fixedSize, Reg.size, fpart, take_add_drop, vpart, List.length_append] at hfp hidx hv
      have hl4 : (encodeLength cur).length = 4 := by simp [encodeLength, le_length]
      have hl : ((b.drop s.idx).take 4).length = 4 := by simp; omega
      have hsplit := List.append_inj hfp (by rw [hl, hl4])
      have hcur : cur < 2^32 := by omega
      have hro : readOffset (b.drop s.idx) = some cur := by
        have : b.drop s.idx = encodeLength cur ++ (b.drop s.idx).drop 4 := by
          rw [← hsplit.1, List.take_append_drop]
        rw [this]; exact readOffset_encodeLength' cur _ hcur
      simp only [registerAll, Builder.register, hsb]
      rw [if_neg (by omega)]
      simp only [hro, sanitize_ok cur _ b.length (by omega) hprev]
      have := registerAll_complete b hb S its
        { s with offsets := s.offsets ++ [(s.items.length, cur)], items := s.items ++ [[]], idx := s.idx + 4 }
        (cur + it.length) hsb hfit hsplit.2 (by simp; omega) (by omega) (by simp)
      simp only [hsb] at this
      rw [this]
      simp [ph, offsOf, fixedSize, Reg.size, Nat.add_assoc]


theorem novar_ph (b : Bytes) : ∀ (S : List Reg) (its : List Bytes) (cur base : Nat),
    itemsFit S its = true → offsOf S its cur base = [] →
    vpart S its = [] ∧ ph S its = its
  | [], [], _, _, _, _ => by simp [vpart, ph]
  | [], _ :: _, _, _, h, _ => by simp [itemsFit] at h
  | .fixed n :: S, [], _, _, h, _ => by simp [itemsFit] at h
  | .fixed n :: S, it :: its, cur, base, h, ho => by
      simp only [itemsFit, Bool.and_eq_true, beq_iff_eq] at h
      simp only [offsOf] at ho
      obtain ⟨h1, h2⟩ := novar_ph b S its cur (base+1) h.2 ho
      simp [vpart, ph, h1, h2]
  | .var :: S, [], _, _, h, _ => by simp [itemsFit] at h
  | .var :: S, _ :: _, _, _, _, ho => by simp [offsOf] at ho

theorem offsOf_head : ∀ (S : List Reg) (its : List Bytes) (cur base : Nat) (p o : Nat) (rest : List (Nat × Nat)),
    offsOf S its cur base = (p, o) :: rest → o = cur
  | [], _, _, _, _, _, _, h => by simp [offsOf] at h
  | .fixed n :: S, [], _, _, _, _, _, h => by simp [offsOf] at h
  | .fixed n :: S, it :: its, cur, base, p, o, rest, h => by
      simp only [offsOf] at h
      exact offsOf_head S its cur (base+1) p o rest h
  | .var :: S, [], _, _, _, _, _, h => by simp [offsOf] at h
  | .var :: S, it :: its, cur, base, p, o, rest, h => by
      simp only [offsOf, List.cons.injEq, Prod.mk.injEq] at h
      exact h.1.2.symm

theorem fill_ph (b : Bytes) : ∀ (S : List Reg) (its : List Bytes) (cur base : Nat),
    itemsFit S its = true → b.drop cur = vpart S its →
    fill b S (ph S its) ((offsOf S its cur base).map (·.2)) = its
  | [], [], _, _, _, _ => by simp [fill, ph]
  | [], _ :: _, _, _, h, _ => by simp [itemsFit] at h
  | .fixed n :: S, [], _, _, h, _ => by simp [itemsFit] at h
  | .fixed n :: S, it :: its, cur, base, h, hd => by
      simp only [itemsFit, Bool.and_eq_true, beq_iff_eq] at h
      simp only [vpart] at hd
      simp [fill, ph, offsOf, fill_ph b S its cur (base+1) h.2 hd]
  | .var :: S, [], _, _, h, _ => by simp [itemsFit] at h
  | .var :: S, it :: its, cur, base, h, hd => by
      simp only [itemsFit] at h
      simp only [vpart] at hd
      simp only [ph, offsOf, List.map_cons]
      cases hrest : offsOf S its (cur + it.length) (base+1) with
      | nil =>
        obtain ⟨h1, h2⟩ := novar_ph b S its _ _ h hrest
        have hsh := shape_ph S its (cur + it.length) (base+1) h
        rw [hrest] at hsh
        rw [h2] at hsh
        simp only [List.map_nil, fill, h2, fill_nil b S its _ hsh]
        rw [hd, h1, List.append_nil]
      | cons po rest =>
        obtain ⟨p, o⟩ := po
        have ho := offsOf_head S its _ _ p o rest hrest
        subst ho
        have hd' : b.drop (cur + it.length) = vpart S its := by
          rw [← List.drop_drop, hd, List.drop_left']; rfl
        have ih := fill_ph b S its (cur + it.length) (base+1) h hd'
        rw [hrest] at ih
        simp only [List.map_cons] at ih
        simp only [List.map_cons, fill, ih, Nat.add_sub_cancel_left]
        rw [hd, List.take_left']; rfl

theorem build_complete (regs : List Reg) (items : List Bytes)
    (hfit : itemsFit regs items = true) (hlen : (encodeItems regs items).length < 2^32) :
    build regs (encodeItems regs items) = .ok items := by
  have hfl := fpart_length regs items (fixedSize regs) hfit
  generalize hb : encodeItems regs items = b at hlen
  rw [encodeItems_eq] at hb
  have hbl : b.length = fixedSize regs + (vpart regs items).length := by rw [← hb]; simp [hfl]
  have htake : b.take (fixedSize regs) = fpart regs items (fixedSize regs) := by
    rw [← hb, List.take_left' hfl]
  have hdrop : b.drop (fixedSize regs) = vpart regs items := by
    rw [← hb, List.drop_left' hfl]
  have hreg := registerAll_complete b hlen regs items { bytes := b } (fixedSize regs) rfl hfit
    (by simpa using htake) (by simp; omega) (by omega) (by simp)
  unfold build
  rw [hreg]
  simp only [List.nil_append, List.length_nil, Nat.zero_add]
  unfold Builder.finalize
  simp only
  cases hoffs : offsOf regs items (fixedSize regs) 0 with
  | nil =>
    obtain ⟨h1, h2⟩ := novar_ph b regs items _ _ hfit hoffs
    simp only [h2]
    rw [if_neg]
    simp only [bne_iff_ne, ne_eq, Decidable.not_not]
    rw [hbl, h1]; simp
  | cons po rest =>
    obtain ⟨p, o⟩ := po
    have ho := offsOf_head regs items _ _ p o rest hoffs
    subst ho
    simp only [Nat.lt_irrefl, ↓reduceIte, gt_iff_lt]
    have hsh := shape_ph regs items (fixedSize regs) 0 hfit
    have hsf := setSlices_fill b regs (ph regs items) (offsOf regs items (fixedSize regs) 0) [] (by simpa using hsh)
    simp only [List.nil_append] at hsf
    rw [← hoffs, hsf, fill_ph b regs items (fixedSize regs) 0 hfit hdrop]

theorem register_ok_idx (s s₁ : Builder) (r : Reg) (h : s.register r = .ok s₁) :
    s₁.bytes = s.bytes ∧ s₁.idx ≤ s₁.bytes.length := by
  cases r with
  | fixed n =>
    simp only [Builder.register] at h
    split at h
    · injection h with h; subst h; exact ⟨rfl, by assumption⟩
    · cases h
  | var =>
    simp only [Builder.register] at h
    split at h
    · cases h
    · split at h
      · cases h
      · rename_i off hro
        split at h
        · cases h
        · injection h with h
          subst h
          have := (readOffset_some hro).1
          simp at this
          exact ⟨rfl, by simp; omega⟩

theorem registerAll_no_panic : ∀ (S : List Reg) (s : Builder),
    s.idx ≤ s.bytes.length → registerAll s S ≠ .panic
  | [], s, _ => by simp [registerAll]
  | r :: S, s, hidx => by
      simp only [registerAll]
      split
      · rename_i s₁ hreg
        exact registerAll_no_panic S s₁ (register_ok_idx s s₁ r hreg).2
      · simp
      · rename_i hreg
        cases r with
        | fixed n =>
          simp only [Builder.register] at hreg
          split at hreg <;> cases hreg
        | var =>
          simp only [Builder.register] at hreg
          split at hreg
          · omega
          · split at hreg
            · cases hreg
            · split at hreg <;> cases hreg

theorem build_no_panic (regs : List Reg) (b : Bytes) : build regs b ≠ .panic := by
  unfold build
  split
  · rename_i s _
    unfold Builder.finalize
    split
    · split
      · simp
      · split <;> simp
    · split <;> simp
  · simp
  · rename_i h
    exact absurd h (registerAll_no_panic regs _ (by simp))

end Ssz
