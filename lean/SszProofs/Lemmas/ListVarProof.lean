import SszModel.ListDecode
import SszProofs.Lemmas.Key2
set_option linter.unusedSimpArgs false
namespace Ssz

/-- header words the list encoder writes for `items` when the first of them starts at `o` -/
def hdr : List Bytes → Nat → Bytes
  | [], _ => []
  | it :: its, o => encodeLength o ++ hdr its (o + it.length)

theorem fpart_var (items : List Bytes) (o : Nat) :
    fpart (List.replicate items.length .var) items o = hdr items o := by
  induction items generalizing o with
  | nil => simp [fpart, hdr]
  | cons it its ih => simp [List.replicate_succ, fpart, hdr, ih]

theorem vpart_var (items : List Bytes) :
    vpart (List.replicate items.length .var) items = items.flatten := by
  induction items with
  | nil => simp [vpart]
  | cons it its ih => simp [List.replicate_succ, vpart, ih]

theorem fixedSize_var (n : Nat) : fixedSize (List.replicate n .var) = 4 * n := by
  induction n with
  | zero => simp [fixedSize]
  | succ n ih => simp [List.replicate_succ, fixedSize, Reg.size, ih]; omega

theorem encodeListVar_eq (items : List Bytes) :
    encodeListVar items = hdr items (4 * items.length) ++ items.flatten := by
  simp [encodeListVar, encodeItems_eq, fpart_var, vpart_var, fixedSize_var]

theorem hdr_length (items : List Bytes) (o : Nat) : (hdr items o).length = 4 * items.length := by
  induction items generalizing o with
  | nil => simp [hdr]
  | cons it its ih => simp [hdr, ih, encodeLength, le_length]; omega

theorem sanitize_some_some {off prev len first o : Nat}
    (h : sanitizeOffset off (some prev) len (some first) = some o) :
    o = off ∧ off ≤ len ∧ prev ≤ off ∧ first ≤ off := by
  unfold sanitizeOffset at h
  simp only [Option.any_some, decide_eq_true_eq, Option.isNone_some, Bool.false_and,
    Bool.false_eq_true, ↓reduceIte] at h
  split at h
  · cases h
  · split at h
    · cases h
    · split at h
      · cases h
      · injection h with h
        exact ⟨h.symm, by omega, by omega, by omega⟩

/-- soundness of the offset walk -/
theorem go_sound {α} (f : Bytes → Res α) (b : Bytes) (first n : Nat) (hn : 4 * n ≤ b.length) :
    ∀ (r : Nat) (offset : Nat) (vs : List α), r + 1 ≤ n →
    listVarGo f b first n (r+1) offset = .ok vs →
    ∃ it its, mapRes f (it :: its) = .ok vs ∧ its.length = r ∧ b.drop offset = it ++ its.flatten ∧
      (b.drop (4 * (n - r))).take (4 * r) = hdr its (offset + it.length)
  | 0, offset, vs, hr, h => by
      simp only [listVarGo, Nat.sub_zero, beq_self_eq_true, ↓reduceIte] at h
      split at h
      · split at h
        · rename_i v hv
          injection h with h
          subst h
          exact ⟨b.drop offset, [], by simp [mapRes, hv], rfl, by simp, by simp [hdr]⟩
        · cases h
        · cases h
      · cases h
  | r+1, offset, vs, hr, h => by
      have hi : (n - (r+1) == n) = false := by
        simp only [beq_eq_false_iff_ne, ne_eq]; omega
      rw [listVarGo] at h
      simp only [hi, Bool.false_eq_true, ↓reduceIte] at h
      split at h
      · cases h
      · split at h
        · cases h
        · rename_i next hro
          split at h
          · cases h
          · rename_i off' hsan
            obtain ⟨rfl, hle, hprev, _⟩ := sanitize_some_some hsan
            split at h
            · split at h
              · rename_i v hv
                split at h
                · rename_i vs' hrec
                  injection h with h
                  subst h
                  obtain ⟨it, its, hm, hl, hd, hh⟩ := go_sound f b first n hn r off' vs' (by omega) hrec
                  obtain ⟨hl4, hle4, hlt⟩ := readOffset_some hro
                  refine ⟨(b.drop offset).take (off' - offset), it :: its, ?_, by simp [hl], ?_, ?_⟩
                  · simp only [mapRes, hv]
                    simp only [mapRes] at hm
                    rw [hm]
                  · have : b.drop off' = (b.drop offset).drop (off' - offset) := by
                      rw [List.drop_drop]; congr 1; omega
                    rw [List.flatten_cons, ← hd, this, List.take_append_drop]
                  · have hlen : ((b.drop offset).take (off' - offset)).length = off' - offset := by
                      simp; omega
                    have hcur : offset + (off' - offset) = off' := by omega
                    simp only [hdr, hlen, hcur, encodeLength_lt hlt, hle4]
                    have e1 : 4 * (r + 1) = 4 + 4 * r := by omega
                    have e2 : 4 * (n - (r+1)) + 4 = 4 * (n - r) := by omega
                    rw [e1, take_add_drop, e2, hh]
                    congr 1
                    simp [Nat.mul_comm]
                · cases h
                · cases h
              · cases h
              · cases h
            · cases h


theorem mapRes_length {α β} (f : α → Res β) : ∀ (l : List α) (vs : List β), mapRes f l = .ok vs → vs.length = l.length
  | [], vs, h => by simp [mapRes] at h; subst h; rfl
  | a :: as, vs, h => by
      simp only [mapRes] at h
      split at h
      · split at h
        · injection h with h; subst h
          rename_i bs hb
          simp [mapRes_length f as bs hb]
        · cases h
        · cases h
      · cases h
      · cases h

theorem listVar_sound {α} (f : Bytes → Res α) (b : Bytes) (m : Option Nat) (vs : List α)
    (h : listVar f b m = .ok vs) :
    (b = [] ∧ vs = []) ∨
    ∃ items, items ≠ [] ∧ mapRes f items = .ok vs ∧ encodeListVar items = b ∧
      (∀ k, m = some k → items.length ≤ k) := by
  unfold listVar at h
  split at h
  · left
    rename_i he
    injection h with h
    exact ⟨by simpa using he, h.symm⟩
  · right
    split at h
    · cases h
    · rename_i first hro
      split at h
      · cases h
      · rename_i o hsan
        split at h
        · cases h
        · rename_i hmod
          simp only [bne_iff_ne, ne_eq, Bool.or_eq_true, decide_eq_true_eq, not_or, Decidable.not_not, Nat.not_lt] at hmod
          dsimp only at h
          split at h
          · cases h
          · rename_i hmax
            obtain ⟨hl4, hle4, hlt⟩ := readOffset_some hro
            have hfl : first ≤ b.length := by
              unfold sanitizeOffset at hsan
              simp only [Option.any_some, Nat.lt_irrefl, decide_false, Bool.false_eq_true, ↓reduceIte,
                Option.isNone_none, bne_self_eq_false, Bool.and_false, Option.any_none] at hsan
              split at hsan
              · cases hsan
              · omega
            have hn : 4 * (first / 4) = first := by omega
            have hn1 : first / 4 - 1 + 1 = first / 4 := by omega
            rw [← hn1] at h
            obtain ⟨it, its, hm, hl, hd, hh⟩ := go_sound f b first (first / 4 - 1 + 1) (by omega) (first / 4 - 1) first vs (by omega) h
            refine ⟨it :: its, by simp, hm, ?_, ?_⟩
            · rw [encodeListVar_eq]
              simp only [List.length_cons, hl, hn1, hn, hdr, List.flatten_cons, encodeLength_lt hlt, hle4]
              have e : first / 4 - 1 + 1 - (first / 4 - 1) = 1 := by omega
              rw [e] at hh
              rw [← hh, ← hd]
              have e2 : first = 4 + 4 * (first / 4 - 1) := by omega
              have : b.drop first = (b.drop (4 * 1)).drop (4 * (first / 4 - 1)) := by
                rw [List.drop_drop]; congr 1
              rw [this, List.append_assoc, List.take_append_drop, List.take_append_drop]
            · intro k hk
              subst hk
              simp only [Option.any_some, decide_eq_true_eq, Nat.not_lt] at hmax
              simp [hl]; omega


theorem sanitize_ok2 (cur prev len first : Nat) (h1 : cur ≤ len) (h2 : prev ≤ cur) (h3 : first ≤ cur) :
    sanitizeOffset cur (some prev) len (some first) = some cur := by
  unfold sanitizeOffset
  simp only [Option.any_some, decide_eq_true_eq, Option.isNone_some, Bool.false_and, Bool.false_eq_true, ↓reduceIte]
  rw [if_neg (by omega), if_neg (by omega), if_neg (by omega)]

theorem go_complete {α} (f : Bytes → Res α) (b : Bytes) (first n : Nat) (hn : 4 * n ≤ b.length)
    (hb : b.length < 2^32) :
    ∀ (its : List Bytes) (it : Bytes) (offset : Nat), its.length + 1 ≤ n → first ≤ offset →
    b.drop offset = it ++ its.flatten → offset ≤ b.length →
    (b.drop (4 * (n - its.length))).take (4 * its.length) = hdr its (offset + it.length) →
    listVarGo f b first n (its.length + 1) offset = mapRes f (it :: its)
  | [], it, offset, _, _, hd, hol, _ => by
      simp only [List.length_nil, Nat.zero_add, listVarGo, Nat.sub_zero, beq_self_eq_true, ↓reduceIte, hol, mapRes]
      simp only [List.flatten_nil, List.append_nil] at hd
      rw [hd]
      cases f it <;> rfl
  | it2 :: its, it, offset, hr, hfo, hd, hol, hh => by
      have hlenb : offset + it.length ≤ b.length := by
        have := congrArg List.length hd
        simp at this; omega
      have hi : (n - (its.length + 1) == n) = false := by
        simp only [beq_eq_false_iff_ne, ne_eq]; simp at hr; omega
      simp only [List.length_cons] at hr hh ⊢
      rw [listVarGo]
      simp only [hi, Bool.false_eq_true, ↓reduceIte]
      have e1 : 4 * (its.length + 1) = 4 + 4 * its.length := by omega
      rw [e1, take_add_drop] at hh
      simp only [hdr] at hh
      have hl4 : (encodeLength (offset + it.length)).length = 4 := by simp [encodeLength, le_length]
      have hlt : ((b.drop (4 * (n - (its.length + 1)))).take 4).length = 4 := by simp; omega
      have hsplit := List.append_inj hh (by rw [hlt, hl4])
      have hro : readOffset (b.drop (4 * (n - (its.length + 1)))) = some (offset + it.length) := by
        have : b.drop (4 * (n - (its.length + 1))) = encodeLength (offset + it.length) ++ (b.drop (4 * (n - (its.length + 1)))).drop 4 := by
          rw [← hsplit.1, List.take_append_drop]
        rw [this]; exact readOffset_encodeLength' _ _ (by omega)
      rw [if_neg (by omega)]
      have emul : (n - (its.length + 1)) * 4 = 4 * (n - (its.length + 1)) := Nat.mul_comm _ _
      simp only [emul, hro, sanitize_ok2 (offset + it.length) offset b.length first hlenb (by omega) (by omega)]
      rw [if_pos ⟨by omega, hlenb⟩]
      have hslice : (b.drop offset).take (offset + it.length - offset) = it := by
        rw [hd, Nat.add_sub_cancel_left, List.take_left']; rfl
      have hd' : b.drop (offset + it.length) = it2 ++ its.flatten := by
        rw [← List.drop_drop, hd, List.drop_left']; simp
        rfl
      have e2 : 4 * (n - (its.length + 1)) + 4 = 4 * (n - its.length) := by omega
      rw [e2] at hsplit
      have ih := go_complete f b first n hn hb its it2 (offset + it.length) (by omega) (by omega) hd' hlenb hsplit.2
      rw [hslice, ih]
      conv => rhs; rw [mapRes]
      cases f it with
      | ok v => cases mapRes f (it2 :: its) <;> rfl
      | err => rfl
      | panic => rfl

theorem listVar_complete {α} (f : Bytes → Res α) (it : Bytes) (its : List Bytes) (m : Option Nat)
    (hlen : (encodeListVar (it :: its)).length < 2^32) :
    listVar f (encodeListVar (it :: its)) m =
      if m.any (fun k => decide (its.length + 1 > k)) then .err else mapRes f (it :: its) := by
  generalize hb : encodeListVar (it :: its) = b at hlen
  rw [encodeListVar_eq] at hb
  simp only [List.length_cons, hdr, List.flatten_cons] at hb
  have hl4 : (encodeLength (4 * (its.length + 1))).length = 4 := by simp [encodeLength, le_length]
  have hhl := hdr_length its (4 * (its.length + 1) + it.length)
  have hbl : b.length = 4 * (its.length + 1) + (it.length + its.flatten.length) := by
    rw [← hb]; simp [hl4, hhl]; omega
  have hfirst : 4 * (its.length + 1) < 2^32 := by omega
  have hro : readOffset b = some (4 * (its.length + 1)) := by
    rw [← hb, List.append_assoc]; exact readOffset_encodeLength' _ _ hfirst
  have hne : b.isEmpty = false := by
    cases b with
    | nil => simp at hbl; omega
    | cons _ _ => rfl
  have hd : b.drop (4 * (its.length + 1)) = it ++ its.flatten := by
    rw [← hb, List.drop_left']; simp [hl4, hhl]; omega
  have hh : (b.drop (4 * (its.length + 1 - its.length))).take (4 * its.length) = hdr its (4 * (its.length + 1) + it.length) := by
    have : its.length + 1 - its.length = 1 := by omega
    rw [this, ← hb, List.append_assoc, List.drop_left' (by simpa using hl4), List.take_left' hhl]
  unfold listVar
  simp only [hne, Bool.false_eq_true, ↓reduceIte, hro]
  have hsan : sanitizeOffset (4 * (its.length + 1)) none b.length (some (4 * (its.length + 1))) = some (4 * (its.length + 1)) := by
    unfold sanitizeOffset
    simp
    omega
  simp only [hsan]
  have hmod : (4 * (its.length + 1) % 4 != 0 || decide (4 * (its.length + 1) < 4)) = false := by
    simp; omega
  have hdiv : 4 * (its.length + 1) / 4 = its.length + 1 := by omega
  simp only [hmod, Bool.false_eq_true, ↓reduceIte, hdiv]
  split
  · rfl
  · exact go_complete f b (4 * (its.length + 1)) (its.length + 1) (by omega) hlen its it (4 * (its.length + 1)) (by omega) (by omega) hd (by omega) hh

end Ssz
