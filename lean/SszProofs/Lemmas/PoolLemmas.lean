import SszModel.BitPool
import SszProofs.Lemmas.BitCore
import SszProofs.Lemmas.BitOps
import SszProofs.C13
import SszProofs.C14
set_option linter.unusedSimpArgs false
set_option linter.unusedVariables false
/-
  Helper lemmas for the bitfield pool machine (C11): bookkeeping of pools (`map abs`, `set`,
  membership), closed forms of the operations of `BPool.step` as functions of `BF.abs`, and the
  remaining observations (`highest_set_bit`, `is_zero`, `is_subset`, `Hash`) as total functions of
  the boolean sequence.
-/
namespace Ssz.Pool
open Ssz Ssz.BC Ssz.Ops Ssz.C13

/-! ### pools -/

theorem getElem?_map_abs (pool : List BF) (r : Nat) :
    (pool.map BF.abs)[r]? = (pool[r]?).map BF.abs := by
  rw [List.getElem?_map]

theorem mem_of_get {α} (pool : List α) (r : Nat) (x : α) (h : pool[r]? = some x) : x ∈ pool :=
  List.mem_of_getElem? h

theorem forall_mem_set {α} (P : α → Prop) (pool : List α) (r : Nat) (x : α)
    (hp : ∀ y ∈ pool, P y) (hx : P x) : ∀ y ∈ pool.set r x, P y := by
  intro y hy
  rcases List.mem_or_eq_of_mem_set hy with h | h
  · exact hp y h
  · rw [h]; exact hx

theorem forall_mem_append_one {α} (P : α → Prop) (pool : List α) (x : α)
    (hp : ∀ y ∈ pool, P y) (hx : P x) : ∀ y ∈ pool ++ [x], P y := by
  intro y hy
  rcases List.mem_append.mp hy with h | h
  · exact hp y h
  · rw [List.mem_singleton.mp h]; exact hx

theorem map_abs_set (pool : List BF) (r : Nat) (bf : BF) :
    (pool.set r bf).map BF.abs = (pool.map BF.abs).set r bf.abs := by
  rw [List.map_set]

theorem map_abs_push (pool : List BF) (bf : BF) :
    (pool ++ [bf]).map BF.abs = pool.map BF.abs ++ [bf.abs] := by
  rw [List.map_append]; rfl

/-! ### the index of the last `true` of a boolean sequence -/

/-- index of the last `true`, `none` when there is none -/
def lastTrue : List Bool → Option Nat
  | [] => none
  | b :: bs => match lastTrue bs with
    | some i => some (i + 1)
    | none => if b then some 0 else none

theorem getD_cons_all (b : Bool) (bs : List Bool) :
    (∀ i, (b :: bs).getD i false = false) ↔ b = false ∧ ∀ i, bs.getD i false = false := by
  constructor
  · intro h
    exact ⟨by simpa using h 0, fun i => by simpa using h (i + 1)⟩
  · rintro ⟨h0, h1⟩ i
    cases i with
    | zero => simpa using h0
    | succ i => simpa using h1 i

theorem lastTrue_none_iff : ∀ (l : List Bool), lastTrue l = none ↔ ∀ i, l.getD i false = false
  | [] => by simp [lastTrue]
  | b :: bs => by
    rw [getD_cons_all, ← lastTrue_none_iff bs]
    simp only [lastTrue]
    cases h : lastTrue bs with
    | some m => simp
    | none => cases b <;> simp

theorem lastTrue_some_iff : ∀ (l : List Bool) (i : Nat),
    lastTrue l = some i ↔ l.getD i false = true ∧ ∀ j, i < j → l.getD j false = false
  | [], i => by simp [lastTrue]
  | b :: bs, i => by
    simp only [lastTrue]
    cases h : lastTrue bs with
    | some m =>
      have ih := (lastTrue_some_iff bs m).mp h
      constructor
      · intro e
        injection e with e
        subst e
        refine ⟨by simpa using ih.1, fun j hj => ?_⟩
        cases j with
        | zero => omega
        | succ j => simpa using ih.2 j (by omega)
      · rintro ⟨h1, h2⟩
        cases i with
        | zero =>
          exfalso
          have : ∀ j, bs.getD j false = false := fun j => by simpa using h2 (j + 1) (by omega)
          rw [(lastTrue_none_iff bs).mpr this] at h
          cases h
        | succ i =>
          have : lastTrue bs = some i :=
            (lastTrue_some_iff bs i).mpr ⟨by simpa using h1, fun j hj => by
              simpa using h2 (j + 1) (by omega)⟩
          rw [this] at h
          injection h with h
          rw [h]
    | none =>
      have hz := (lastTrue_none_iff bs).mp h
      constructor
      · intro e
        cases b with
        | false => simp at e
        | true =>
          simp at e
          subst e
          refine ⟨by simp, fun j hj => ?_⟩
          cases j with
          | zero => omega
          | succ j => simpa using hz j
      · rintro ⟨h1, h2⟩
        cases i with
        | zero =>
          have : b = true := by simpa using h1
          subst this; rfl
        | succ i =>
          have := hz i
          simp only [List.getD_cons_succ] at h1
          rw [this] at h1
          cases h1

theorem lastTrue_lt (l : List Bool) (i : Nat) (h : lastTrue l = some i) : i < l.length := by
  have := ((lastTrue_some_iff l i).mp h).1
  apply Classical.byContradiction
  intro hc
  rw [List.getD_eq_getElem?_getD, List.getElem?_eq_none (by omega)] at this
  cases this

/-- `highest_set_bit()` is the index of the last `true` of the sequence -/
theorem highestSetBit_eq_lastTrue (bf : BF) (h : bf.Inv) : bf.highestSetBit = lastTrue bf.abs := by
  cases hl : lastTrue bf.abs with
  | none => exact (highestSetBit_none_iff_abs bf h).mpr ((lastTrue_none_iff _).mp hl)
  | some i => exact (highestSetBit_some_iff_abs bf h i).mpr ((lastTrue_some_iff _ i).mp hl)

/-! ### Boolean observations as total functions of the sequence -/

theorem all_not_iff (l : List Bool) : l.all (fun b => !b) = true ↔ ∀ i, l.getD i false = false := by
  rw [List.all_eq_true]
  constructor
  · intro h i
    by_cases hi : i < l.length
    · rw [List.getD_eq_getElem?_getD, List.getElem?_eq_getElem hi]
      have := h l[i] (List.getElem_mem hi)
      simpa using this
    · rw [List.getD_eq_getElem?_getD, List.getElem?_eq_none (by omega)]; rfl
  · intro h x hx
    obtain ⟨i, hi, rfl⟩ := List.getElem_of_mem hx
    have := h i
    rw [List.getD_eq_getElem?_getD, List.getElem?_eq_getElem hi] at this
    simpa using this

/-- `is_zero()` as a Boolean function of the sequence -/
theorem isZero_eq_all (bf : BF) (h : bf.Inv) : bf.isZero = bf.abs.all (fun b => !b) := by
  rw [Bool.eq_iff_iff, isZero_iff bf h, all_not_iff]

/-- the subset test on sequences: every `true` of `a` is matched in `b` (missing = false) -/
def subsetSeq (a b : List Bool) : Bool :=
  (List.range a.length).all fun i => !(a.getD i false) || b.getD i false

theorem subsetSeq_iff (a b : List Bool) :
    subsetSeq a b = true ↔ ∀ i, a.getD i false = true → b.getD i false = true := by
  unfold subsetSeq
  rw [List.all_eq_true]
  constructor
  · intro h i hi
    by_cases hlt : i < a.length
    · have := h i (List.mem_range.mpr hlt)
      rw [hi] at this
      simpa using this
    · rw [List.getD_eq_getElem?_getD, List.getElem?_eq_none (by omega)] at hi
      cases hi
  · intro h i _
    cases hi : a.getD i false with
    | false => rfl
    | true => rw [h i hi]; rfl

theorem isSubset_eq (a b : BF) (ha : a.Inv) (hb : b.Inv) : a.isSubset b = subsetSeq a.abs b.abs := by
  rw [Bool.eq_iff_iff, isSubset_iff a b ha hb, subsetSeq_iff]

/-- derived `PartialEq` on `{bytes, len}` decides equality of the sequences -/
theorem decide_eq_abs (a b : BF) (ha : a.Inv) (hb : b.Inv) :
    decide (a = b) = decide (a.abs = b.abs) := by
  rw [Bool.eq_iff_iff]
  simp only [decide_eq_true_eq]
  exact eq_iff_abs a b ha hb

/-- what `Hash` feeds the hasher is a function of the sequence -/
theorem hashInput_eq (bf : BF) (h : bf.Inv) :
    bf.hashInput = (Spec.packBits bf.abs (bytesForBitLen bf.abs.length), bf.abs.length) := by
  unfold BF.hashInput
  rw [abs_length, ← bytes_eq_packBits bf h]

/-! ### closed forms of the pool operations -/

/-- `from_ssz_bytes(as_ssz_bytes(x))` gives `x` back, for every valid `x` -/
theorem redec_ok (k : BKind) (bf : BF) (h : Valid k bf) :
    ((bf.intoBytes k).bind fun b => BF.fromBytes k b) = .ok bf := by
  obtain ⟨b, h1, h2⟩ := fromBytes_complete k bf h.1 h.2
  rw [h1]
  exact h2

/-- `from_bytes` of a bitlist in terms of the SSZ validity predicate and the bits of the string -/
theorem fromBytes_variable (N : Nat) (b : Bytes) :
    BF.fromBytes (.variable N) b =
      if Spec.bitlistValid N b = true then
        .ok (BF.ofBits (Spec.bitsOf b (8 * (b.length - 1) + (b.getLast?.getD 0).toNat.log2)))
      else .err := C14.fromBytes_bitlist_eq N b

theorem fromBytes_fixed (N : Nat) (b : Bytes) :
    BF.fromBytes (.fixed N) b = if Spec.bitvectorValid N b = true then .ok ⟨b, N⟩ else .err := by
  show Res.ofOption (BF.fromBytesF N b) = _
  rw [C14.fromBytes_bitvector_eq]
  by_cases hv : Spec.bitvectorValid N b = true
  · rw [if_pos hv, if_pos hv]; rfl
  · rw [if_neg hv, if_neg hv]; rfl

theorem fromBytes_dynamic (b : Bytes) :
    BF.fromBytes .dynamic b = if b = [] then .err else .ok ⟨b, 8 * b.length⟩ := by
  show Res.ofOption (BF.decodeDyn b) = _
  rw [C14.decode_dynamic_eq]
  by_cases hb : b = []
  · rw [if_pos hb, if_pos hb]; rfl
  · rw [if_neg hb, if_neg hb]; rfl

theorem abs_mk_bitsOf (b : Bytes) (n : Nat) : (⟨b, n⟩ : BF).abs = Spec.bitsOf b n :=
  abs_eq_bitsOf _

/-- `set` as a total description -/
theorem set_cases (bf : BF) (h : bf.Inv) (i : Nat) (v : Bool) :
    (i < bf.len ∧ ∃ bf', bf.set i v = some bf' ∧ bf'.Inv ∧ bf'.len = bf.len ∧ bf'.abs = bf.abs.set i v) ∨
    (bf.len ≤ i ∧ bf.set i v = none) := by
  by_cases hi : i < bf.len
  · exact Or.inl ⟨hi, set_ok bf h i v hi⟩
  · exact Or.inr ⟨by omega, set_err bf i v (by omega)⟩

/-- `shift_up` as a total description -/
theorem shiftUp_cases (bf : BF) (h : bf.Inv) (n : Nat) :
    (n ≤ bf.len ∧ ∃ r, bf.shiftUp n = .ok r ∧ r.Inv ∧ r.len = bf.len ∧
      r.abs = (List.range bf.len).map (fun i => if i < n then false else bf.abs.getD (i - n) false)) ∨
    (bf.len < n ∧ bf.shiftUp n = .err) := by
  by_cases hn : n ≤ bf.len
  · exact Or.inl ⟨hn, shiftUp_ok bf h n hn⟩
  · exact Or.inr ⟨by omega, shiftUp_err bf n (by omega)⟩

/-- shifting up, seen on sequences: `n` clear positions in front, the top `n` positions fall off -/
theorem shift_eq_take (l : List Bool) (n : Nat) (hn : n ≤ l.length) :
    (List.range l.length).map (fun i => if i < n then false else l.getD (i - n) false) =
      (List.replicate n false ++ l).take l.length := by
  apply List.ext_getElem
  · simp
  · intro i h1 h2
    have hi : i < l.length := by simpa using h1
    simp only [List.getElem_map, List.getElem_range, List.getElem_take]
    by_cases c : i < n
    · rw [if_pos c, List.getElem_append_left (by simpa using c)]; simp
    · rw [if_neg c, List.getElem_append_right (by simpa using c)]
      simp only [List.length_replicate]
      rw [List.getD_eq_getElem?_getD, List.getElem?_eq_getElem (by omega)]
      rfl

end Ssz.Pool
