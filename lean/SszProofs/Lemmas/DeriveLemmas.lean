import SszModel.Derive
import SszModel.Spec
import SszProofs.Lemmas.Preds
/-
  Helper lemmas for property C08 (derived codecs implement the schema of the type definition):
  list facts about `liveSer` / `liveDe` / `projectSer` / `projectDe` / `fillDefaults`, the shape of
  what `decode (.container ts)` returns, `decodeFirst`, and the size metadata of field lists.
-/
set_option linter.unusedSimpArgs false
namespace Ssz.Drv
open Ssz

/-! ### `Res` -/

theorem res_map_id {α} (r : Res α) : r.map (fun x => x) = r := by cases r <;> rfl

theorem res_map_congr {α β} {f g : α → β} (r : Res α) (h : ∀ x, f x = g x) : r.map f = r.map g := by
  cases r with
  | ok a => simp [h a]
  | err => rfl
  | panic => rfl

theorem res_map_ok_iff {α β} (f : α → β) (r : Res α) (y : β) :
    r.map f = .ok y ↔ ∃ x, r = .ok x ∧ y = f x := by
  cases r with
  | ok a => simp [eq_comm]
  | err => simp
  | panic => simp

theorem res_map_ne_panic {α β} (f : α → β) (r : Res α) (h : r ≠ .panic) : r.map f ≠ .panic := by
  cases r with
  | ok a => simp
  | err => simp
  | panic => exact absurd rfl h

/-! ### exactly one element of a list satisfies a predicate -/

/-- `l` has exactly one element with `p`, located between `pre` and `post` -/
def ExactlyOne {α} (p : α → Prop) (l : List α) : Prop :=
  ∃ pre x post, l = pre ++ x :: post ∧ p x ∧ (∀ y ∈ pre, ¬ p y) ∧ (∀ y ∈ post, ¬ p y)

theorem ExactlyOne.congr {α} {p q : α → Prop} (h : ∀ x, p x ↔ q x) (l : List α) :
    ExactlyOne p l ↔ ExactlyOne q l := by
  have : p = q := funext fun x => propext (h x)
  rw [this]

theorem filter_eq_nil_of_forall {α} (p : α → Bool) (l : List α) (h : ∀ y ∈ l, p y = false) :
    l.filter p = [] := by
  induction l with
  | nil => rfl
  | cons a l ih =>
    have ha := h a (by simp)
    simp only [List.filter_cons, ha]
    exact ih (fun y hy => h y (by simp [hy]))

theorem filter_length_one_iff {α} (p : α → Bool) (l : List α) :
    (l.filter p).length = 1 ↔ ExactlyOne (fun x => p x = true) l := by
  induction l with
  | nil =>
    simp only [List.filter_nil, List.length_nil]
    constructor
    · intro h; omega
    · rintro ⟨pre, x, post, h, _⟩
      cases pre <;> simp at h
  | cons a l ih =>
    by_cases ha : p a = true
    · simp only [List.filter_cons, ha, if_true, List.length_cons]
      constructor
      · intro h
        have hl : (l.filter p).length = 0 := by omega
        have hnil : l.filter p = [] := List.eq_nil_of_length_eq_zero hl
        refine ⟨[], a, l, rfl, ha, by simp, ?_⟩
        intro y hy hpy
        have : y ∈ l.filter p := List.mem_filter.mpr ⟨hy, hpy⟩
        rw [hnil] at this; cases this
      · rintro ⟨pre, x, post, h, hx, hpre, hpost⟩
        cases pre with
        | nil =>
          simp only [List.nil_append, List.cons.injEq] at h
          obtain ⟨rfl, rfl⟩ := h
          rw [filter_eq_nil_of_forall p l (fun y hy => by simpa using hpost y hy)]
          rfl
        | cons b pre =>
          simp only [List.cons_append, List.cons.injEq] at h
          obtain ⟨rfl, _⟩ := h
          exact absurd ha (hpre a (by simp))
    · have ha' : p a = false := by simpa using ha
      simp only [List.filter_cons, ha', Bool.false_eq_true, if_false]
      rw [ih]
      constructor
      · rintro ⟨pre, x, post, h, hx, hpre, hpost⟩
        refine ⟨a :: pre, x, post, by simp [h], hx, ?_, hpost⟩
        intro y hy
        rcases List.mem_cons.mp hy with rfl | hy
        · simpa using ha'
        · exact hpre y hy
      · rintro ⟨pre, x, post, h, hx, hpre, hpost⟩
        cases pre with
        | nil =>
          simp only [List.nil_append, List.cons.injEq] at h
          obtain ⟨rfl, rfl⟩ := h
          exact absurd hx ha
        | cons b pre =>
          simp only [List.cons_append, List.cons.injEq] at h
          obtain ⟨rfl, rfl⟩ := h
          exact ⟨pre, x, post, rfl, hx, fun y hy => hpre y (by simp [hy]), hpost⟩

theorem filter_of_exactlyOne {α} (p : α → Bool) (pre post : List α) (x : α) (hx : p x = true)
    (hpre : ∀ y ∈ pre, p y = false) (hpost : ∀ y ∈ post, p y = false) :
    (pre ++ x :: post).filter p = [x] := by
  rw [List.filter_append, List.filter_cons, filter_eq_nil_of_forall p pre hpre,
    filter_eq_nil_of_forall p post hpost]
  simp [hx]

/-! ### `computeUnionSelectors` -/

theorem selectors_isSome (n : Nat) : (computeUnionSelectors n).isSome = true ↔ 1 ≤ n ∧ n ≤ 128 := by
  unfold computeUnionSelectors MAX_UNION_SELECTOR
  by_cases h0 : n = 0
  · simp [h0]
  · by_cases h1 : n > 256
    · simp [h0, h1]; omega
    · by_cases h2 : n - 1 > 127
      · simp [h0, h1, h2]; omega
      · simp [h0, h1, h2]; omega

/-! ### live fields and projections -/

theorem liveSer_eq_liveDe (fs : List Field) (h : ∀ f ∈ fs, f.skipSer = f.skipDe) :
    liveSer fs = liveDe fs := by
  unfold liveSer liveDe
  apply List.filter_congr
  intro f hf
  rw [h f hf]

theorem projectSer_eq_projectDe : ∀ (fs : List Field) (vs : List Val),
    (∀ f ∈ fs, f.skipSer = f.skipDe) → projectSer fs vs = projectDe fs vs
  | [], vs, _ => by simp [projectSer, projectDe]
  | _ :: _, [], _ => by simp [projectSer, projectDe]
  | f :: fs, v :: vs, h => by
      have hf := h f (by simp)
      have ih := projectSer_eq_projectDe fs vs (fun g hg => h g (by simp [hg]))
      simp only [projectSer, projectDe, hf, ih]

theorem liveDe_cons (f : Field) (fs : List Field) :
    liveDe (f :: fs) = if f.skipDe then liveDe fs else f :: liveDe fs := by
  unfold liveDe
  cases h : f.skipDe <;> simp [List.filter_cons, h]

theorem liveSer_cons (f : Field) (fs : List Field) :
    liveSer (f :: fs) = if f.skipSer then liveSer fs else f :: liveSer fs := by
  unfold liveSer
  cases h : f.skipSer <;> simp [List.filter_cons, h]

/-- with a value for every field the projection has one value per live field -/
theorem projectDe_length : ∀ (fs : List Field) (vs : List Val), vs.length = fs.length →
    (projectDe fs vs).length = (liveDe fs).length
  | [], [], _ => by simp [projectDe, liveDe]
  | [], _ :: _, h => by simp at h
  | _ :: _, [], h => by simp at h
  | f :: fs, v :: vs, h => by
      have ih := projectDe_length fs vs (by simpa using h)
      rw [liveDe_cons]
      cases hf : f.skipDe <;> simp [projectDe, hf, ih]

theorem projectSer_length : ∀ (fs : List Field) (vs : List Val), vs.length = fs.length →
    (projectSer fs vs).length = (liveSer fs).length
  | [], [], _ => by simp [projectSer, liveSer]
  | [], _ :: _, h => by simp at h
  | _ :: _, [], h => by simp at h
  | f :: fs, v :: vs, h => by
      have ih := projectSer_length fs vs (by simpa using h)
      rw [liveSer_cons]
      cases hf : f.skipSer <;> simp [projectSer, hf, ih]

/-- the decoder's field list has one entry per declared field -/
theorem fillDefaults_length : ∀ (fs : List Field) (xs : List Val), xs.length = (liveDe fs).length →
    (fillDefaults fs xs).length = fs.length
  | [], xs, _ => by simp [fillDefaults]
  | f :: fs, xs, h => by
      rw [liveDe_cons] at h
      cases hf : f.skipDe with
      | true =>
        simp only [hf, if_true] at h
        simp [fillDefaults, hf, fillDefaults_length fs xs h]
      | false =>
        simp only [hf, Bool.false_eq_true, if_false, List.length_cons] at h
        cases xs with
        | nil => simp at h
        | cons x xs =>
          simp [fillDefaults, hf, fillDefaults_length fs xs (by simpa using h)]

/-- reading the live fields back out of what the decoder built gives the decoded values -/
theorem projectDe_fillDefaults : ∀ (fs : List Field) (xs : List Val), xs.length = (liveDe fs).length →
    projectDe fs (fillDefaults fs xs) = xs
  | [], xs, h => by
      cases xs with
      | nil => simp [fillDefaults, projectDe]
      | cons x xs => simp [liveDe] at h
  | f :: fs, xs, h => by
      rw [liveDe_cons] at h
      cases hf : f.skipDe with
      | true =>
        simp only [hf, if_true] at h
        simp [fillDefaults, projectDe, hf, projectDe_fillDefaults fs xs h]
      | false =>
        simp only [hf, Bool.false_eq_true, if_false, List.length_cons] at h
        cases xs with
        | nil => simp at h
        | cons x xs =>
          simp [fillDefaults, projectDe, hf, projectDe_fillDefaults fs xs (by simpa using h)]

/-- every `skip_deserializing` field holds its type's `Default` -/
theorem fillDefaults_skipped : ∀ (fs : List Field) (xs : List Val) (i : Nat) (f : Field),
    xs.length = (liveDe fs).length → fs[i]? = some f → f.skipDe = true →
    (fillDefaults fs xs)[i]? = some f.ty.default
  | [], xs, i, f, _, hi, _ => by simp at hi
  | g :: fs, xs, i, f, h, hi, hs => by
      rw [liveDe_cons] at h
      cases hg : g.skipDe with
      | true =>
        simp only [hg, if_true] at h
        cases i with
        | zero =>
          simp only [List.getElem?_cons_zero, Option.some.injEq] at hi
          subst hi
          simp [fillDefaults, hg]
        | succ i =>
          simp only [List.getElem?_cons_succ] at hi
          simp [fillDefaults, hg, fillDefaults_skipped fs xs i f h hi hs]
      | false =>
        simp only [hg, Bool.false_eq_true, if_false, List.length_cons] at h
        cases xs with
        | nil => simp at h
        | cons x xs =>
          cases i with
          | zero =>
            simp only [List.getElem?_cons_zero, Option.some.injEq] at hi
            subst hi
            rw [hs] at hg; cases hg
          | succ i =>
            simp only [List.getElem?_cons_succ] at hi
            simp [fillDefaults, hg, fillDefaults_skipped fs xs i f (by simpa using h) hi hs]

/-- without skipped fields nothing is replaced -/
theorem fillDefaults_noskip : ∀ (fs : List Field) (vs : List Val), (∀ f ∈ fs, f.skipDe = false) →
    vs.length = fs.length → fillDefaults fs vs = vs ∧ projectDe fs vs = vs
  | [], [], _, _ => by simp [fillDefaults, projectDe]
  | [], _ :: _, _, h => by simp at h
  | _ :: _, [], _, h => by simp at h
  | f :: fs, v :: vs, hs, h => by
      have hf := hs f (by simp)
      have ih := fillDefaults_noskip fs vs (fun g hg => hs g (by simp [hg])) (by simpa using h)
      simp [fillDefaults, projectDe, hf, ih.1, ih.2]

/-- filling and projecting again is idempotent on the decoder's side -/
theorem fillDefaults_projectDe_fill (fs : List Field) (xs : List Val)
    (h : xs.length = (liveDe fs).length) :
    fillDefaults fs (projectDe fs (fillDefaults fs xs)) = fillDefaults fs xs := by
  rw [projectDe_fillDefaults fs xs h]

/-! ### typed tuples have the right number of components -/

theorem hasTypes_length : ∀ (ts : List Ty) (vs : List Val), hasTypes ts vs = true → vs.length = ts.length
  | [], [], _ => rfl
  | [], _ :: _, h => by simp [hasTypes] at h
  | _ :: _, [], h => by simp [hasTypes] at h
  | t :: ts, v :: vs, h => by
      simp only [hasTypes, Bool.and_eq_true] at h
      simp [hasTypes_length ts vs h.2]

/-! ### what `decode (.container ts)` returns -/

theorem decodeItems_length : ∀ (ts : List Ty) (items : List Bytes) (vs : List Val),
    decodeItems ts items = .ok vs → vs.length = ts.length
  | [], items, vs, h => by simp [decodeItems] at h; subst h; rfl
  | _ :: _, [], vs, h => by simp [decodeItems] at h
  | t :: ts, it :: its, vs, h => by
      simp only [decodeItems] at h
      cases hd : decode t it with
      | ok v =>
        rw [hd] at h
        simp only at h
        obtain ⟨ws, hw, rfl⟩ := (res_map_ok_iff _ _ _).mp h
        simp [decodeItems_length ts its ws hw]
      | err => rw [hd] at h; simp at h
      | panic => rw [hd] at h; simp at h

theorem decodeSplit_length : ∀ (ts : List Ty) (b : Bytes) (vs : List Val),
    decodeSplit ts b = .ok vs → vs.length = ts.length
  | [], b, vs, h => by simp [decodeSplit] at h; subst h; rfl
  | t :: ts, b, vs, h => by
      simp only [decodeSplit] at h
      by_cases hl : t.fixedLen > b.length
      · simp [hl] at h
      · simp only [hl, if_false] at h
        cases hd : decode t (b.take t.fixedLen) with
        | ok v =>
          rw [hd] at h
          simp only at h
          obtain ⟨ws, hw, rfl⟩ := (res_map_ok_iff _ _ _).mp h
          simp [decodeSplit_length ts _ ws hw]
        | err => rw [hd] at h; simp at h
        | panic => rw [hd] at h; simp at h

/-- a container decoder returns a tuple with one component per field -/
theorem decode_container_shape (ts : List Ty) (b : Bytes) (v : Val)
    (h : decode (.container ts) b = .ok v) : ∃ xs, v = .tuple xs ∧ xs.length = ts.length := by
  simp only [decode] at h
  by_cases hf : allFixed ts = true
  · simp only [hf, if_true] at h
    by_cases hl : b.length ≠ sumFixedLen ts
    · simp [hl] at h
    · simp only [hl, if_false] at h
      obtain ⟨xs, hx, rfl⟩ := (res_map_ok_iff _ _ _).mp h
      exact ⟨xs, rfl, decodeSplit_length ts b xs hx⟩
  · simp only [hf, Bool.false_eq_true, if_false] at h
    cases hb : build (regsOf ts) b with
    | ok items =>
      rw [hb] at h
      simp only at h
      obtain ⟨xs, hx, rfl⟩ := (res_map_ok_iff _ _ _).mp h
      exact ⟨xs, rfl, decodeItems_length ts items xs hx⟩
    | err => rw [hb] at h; simp at h
    | panic => rw [hb] at h; simp at h

/-! ### transparent enums: the first variant that accepts -/

/-- `decodeFirst` returns variant `k + i` exactly when variant `i`'s decoder accepts and all
    earlier ones return `Err` -/
theorem decodeFirst_ok_iff : ∀ (ts : List Ty) (k : Nat) (b : Bytes) (w : Val),
    decodeFirst ts k b = .ok w ↔
      ∃ i t v, ts[i]? = some t ∧ decode t b = .ok v ∧ w = .union (k + i) v ∧
        ∀ j tj, j < i → ts[j]? = some tj → decode tj b = .err
  | [], k, b, w => by simp [decodeFirst]
  | t :: ts, k, b, w => by
      simp only [decodeFirst]
      cases hd : decode t b with
      | ok v =>
        simp only
        constructor
        · intro h
          injection h with h
          exact ⟨0, t, v, by simp, hd, by simp [h], by intro j tj hj; omega⟩
        · rintro ⟨i, t', v', hi, hd', hw, hprev⟩
          cases i with
          | zero =>
            simp only [List.getElem?_cons_zero, Option.some.injEq] at hi
            subst hi
            rw [hd] at hd'; injection hd' with hd'
            subst hd'; simp [hw]
          | succ i =>
            have := hprev 0 t (by omega) (by simp)
            rw [hd] at this; cases this
      | err =>
        simp only
        rw [decodeFirst_ok_iff ts (k + 1) b w]
        constructor
        · rintro ⟨i, t', v', hi, hd', hw, hprev⟩
          refine ⟨i + 1, t', v', by simpa using hi, hd', by rw [hw]; congr 1; omega, ?_⟩
          intro j tj hj hjt
          cases j with
          | zero => simp at hjt; subst hjt; exact hd
          | succ j => exact hprev j tj (by omega) (by simpa using hjt)
        · rintro ⟨i, t', v', hi, hd', hw, hprev⟩
          cases i with
          | zero =>
            simp only [List.getElem?_cons_zero, Option.some.injEq] at hi
            subst hi
            rw [hd] at hd'; cases hd'
          | succ i =>
            refine ⟨i, t', v', by simpa using hi, hd', by rw [hw]; congr 1; omega, ?_⟩
            intro j tj hj hjt
            exact hprev (j + 1) tj (by omega) (by simpa using hjt)
      | panic =>
        simp only
        constructor
        · intro h; cases h
        · rintro ⟨i, t', v', hi, hd', hw, hprev⟩
          cases i with
          | zero =>
            simp only [List.getElem?_cons_zero, Option.some.injEq] at hi
            subst hi
            rw [hd] at hd'; cases hd'
          | succ i =>
            have := hprev 0 t (by omega) (by simp)
            rw [hd] at this; cases this

/-! ### size metadata of field lists -/

theorem allFixed_eq_all : ∀ (ts : List Ty), allFixed ts = ts.all (·.isFixed)
  | [] => by simp [allFixed]
  | t :: ts => by simp [allFixed, allFixed_eq_all ts]

theorem sumFixedLen_eq_sum : ∀ (ts : List Ty), sumFixedLen ts = (ts.map (·.fixedLen)).sum
  | [] => by simp [sumFixedLen]
  | t :: ts => by simp [sumFixedLen, sumFixedLen_eq_sum ts]

/-! ### well-formedness of the schema of an enum definition -/

theorem wfAll_iff : ∀ (ts : List Ty), wfAll ts = true ↔ ∀ t ∈ ts, t.wf = true
  | [] => by simp [wfAll]
  | t :: ts => by simp [wfAll, wfAll_iff ts]

theorem rtAll_iff : ∀ (ts : List Ty), rtAll ts = true ↔ ∀ t ∈ ts, t.rt = true
  | [] => by simp [rtAll]
  | t :: ts => by simp [rtAll, rtAll_iff ts]

theorem strictAll_iff : ∀ (ts : List Ty), strictAll ts = true ↔ ∀ t ∈ ts, t.strict = true
  | [] => by simp [strictAll]
  | t :: ts => by simp [strictAll, strictAll_iff ts]

/-- a byte below 128 is its own index -/
theorem ofNat_toNat_small (i : Nat) (h : i < 256) : (UInt8.ofNat i).toNat = i := by
  simp [UInt8.toNat_ofNat, Nat.mod_eq_of_lt h]

/-! ### indexed access into variant lists -/

theorem hasTypeNth_get : ∀ (ts : List Ty) (i : Nat) (t : Ty) (v : Val), ts[i]? = some t →
    hasTypeNth ts i v = hasType t v
  | [], i, t, v, h => by simp at h
  | t' :: ts, 0, t, v, h => by simp at h; subst h; simp [hasTypeNth]
  | t' :: ts, i + 1, t, v, h => by
      simp only [hasTypeNth]
      exact hasTypeNth_get ts i t v (by simpa using h)

/-- `match selector { i => Tᵢ::from_ssz_bytes(body).map(Vᵢ), _ => Err }` -/
theorem decodeNth_eq : ∀ (ts : List Ty) (i sel : Nat) (body : Bytes),
    decodeNth ts i sel body =
      match ts[i]? with
      | some t => (decode t body).map (.union sel)
      | none => .err
  | [], i, sel, body => by simp [decodeNth]
  | t :: ts, 0, sel, body => by simp [decodeNth]
  | t :: ts, i + 1, sel, body => by
      simp only [decodeNth, List.getElem?_cons_succ]
      exact decodeNth_eq ts i sel body

theorem serNth_get : ∀ (ts : List Ty) (i : Nat) (t : Ty) (v : Val), ts[i]? = some t →
    Spec.serNth ts i v = Spec.ser t v
  | [], i, t, v, h => by simp at h
  | t' :: ts, 0, t, v, h => by simp at h; subst h; simp [Spec.serNth]
  | t' :: ts, i + 1, t, v, h => by
      simp only [Spec.serNth]
      exact serNth_get ts i t v (by simpa using h)

end Ssz.Drv
