import SszModel.BitPool
import SszProofs.Lemmas.BitCore
set_option linter.unusedSimpArgs false
set_option linter.unusedVariables false
/-
  Per-operation refinement lemmas for the bitfield model (`SszModel/Bitfield.lean`, `BitPool.lean`):
  every operation on well-formed bitfields (`BF.Inv`) is described as a function of the boolean
  sequence `BF.abs`, "missing positions are false" being `l.getD i false`.
-/
namespace Ssz.Ops
open Ssz Ssz.BC

/-! ### the bit view: `abs.getD`, building `Inv`/`abs` from a bit description -/

theorem getD_abs (bf : BF) (i : Nat) :
    bf.abs.getD i false = (decide (i < bf.len) && bit bf.bytes i) := by
  unfold BF.abs
  by_cases h : i < bf.len
  · simp [List.getD_eq_getElem?_getD, h]
  · simp [List.getD_eq_getElem?_getD, h]

/-- under the invariant the bit view and the byte view agree at every position -/
theorem getD_abs_inv (bf : BF) (h : bf.Inv) (i : Nat) : bf.abs.getD i false = bit bf.bytes i := by
  rw [getD_abs]
  by_cases hi : i < bf.len
  · simp [hi]
  · simp [hi, h.2 i (by omega)]

theorem getD_abs_oob (bf : BF) (i : Nat) (hi : bf.len ≤ i) : bf.abs.getD i false = false := by
  rw [getD_abs]; simp; omega

theorem getElem?_abs_inv (bf : BF) (h : bf.Inv) (i : Nat) : bf.abs[i]?.getD false = bit bf.bytes i := by
  rw [← List.getD_eq_getElem?_getD]; exact getD_abs_inv bf h i

theorem bytesForBitLen_mono {m n : Nat} (h : m ≤ n) : bytesForBitLen m ≤ bytesForBitLen n := by
  unfold bytesForBitLen; omega
theorem lt_bytesForBitLen {j n : Nat} (h : j < n) : j / 8 < bytesForBitLen n := by
  unfold bytesForBitLen; omega
theorem le_of_not_lt_bytesForBitLen {j n : Nat} (h : ¬ j / 8 < bytesForBitLen n) : n ≤ j := by
  unfold bytesForBitLen at h; omega
theorem bytesForBitLen_pos (n : Nat) : 0 < bytesForBitLen n := by
  unfold bytesForBitLen; omega

/-- a byte string of minimal length whose bits are `f` below `n` and clear from `n` on is a
    well-formed bitfield with bits `f` -/
theorem mk_inv_abs (bytes : Bytes) (n : Nat) (f : Nat → Bool)
    (hl : bytes.length = bytesForBitLen n) (hb : ∀ j, bit bytes j = (decide (j < n) && f j)) :
    (⟨bytes, n⟩ : BF).Inv ∧ (⟨bytes, n⟩ : BF).abs = (List.range n).map f := by
  refine ⟨⟨hl, ?_⟩, ?_⟩
  · intro i hi
    have hi' : n ≤ i := hi
    show bit bytes i = false
    rw [hb]; simp; omega
  · unfold BF.abs
    apply List.map_congr_left
    intro i hi
    have : i < n := List.mem_range.mp hi
    show bit bytes i = f i
    rw [hb]; simp [this]

theorem getD_map_range (n : Nat) (f : Nat → Bool) (i : Nat) :
    ((List.range n).map f).getD i false = (decide (i < n) && f i) := by
  by_cases h : i < n
  · simp [List.getD_eq_getElem?_getD, h]
  · simp [List.getD_eq_getElem?_getD, h]

/-! ### constructors -/

theorem newFixed_inv (N : Nat) : (BF.newFixed N).Inv := inv_zeros N
theorem newFixed_len (N : Nat) : (BF.newFixed N).len = N := rfl
theorem newFixed_bit (N j : Nat) : bit (BF.newFixed N).bytes j = false := bit_replicate_zero _ _
theorem newFixed_abs (N : Nat) : (BF.newFixed N).abs = List.replicate N false := by
  apply List.ext_getElem
  · simp [abs_length, newFixed_len]
  · intro i h1 h2
    rw [abs_getElem, newFixed_bit]; simp
theorem newFixed_getD (N i : Nat) : (BF.newFixed N).abs.getD i false = false := by
  rw [getD_abs, newFixed_bit]; simp

/-- `BitVector::new()`: well formed, `N` bits, all clear -/
theorem newFixed_spec (N : Nat) :
    (BF.newFixed N).Inv ∧ (BF.newFixed N).len = N ∧ (BF.newFixed N).abs = List.replicate N false :=
  ⟨newFixed_inv N, rfl, newFixed_abs N⟩

theorem withCapacity_eq (N n : Nat) (bf : BF) :
    BF.withCapacity N n = some bf ↔ n ≤ N ∧ bf = BF.newFixed n := by
  unfold BF.withCapacity BF.newFixed
  by_cases h : n ≤ N
  · simp [h, eq_comm]
  · simp [h]

/-- `BitList::with_capacity(n)` succeeds exactly for `n ≤ N` -/
theorem withCapacity_some_iff (N n : Nat) : (∃ bf, BF.withCapacity N n = some bf) ↔ n ≤ N := by
  constructor
  · rintro ⟨bf, h⟩; exact ((withCapacity_eq N n bf).mp h).1
  · intro h; exact ⟨_, (withCapacity_eq N n _).mpr ⟨h, rfl⟩⟩

theorem withCapacity_none_iff (N n : Nat) : BF.withCapacity N n = none ↔ N < n := by
  unfold BF.withCapacity
  by_cases h : n ≤ N
  · simp [h]
  · simp [h]; omega

theorem withCapacity_spec (N n : Nat) (bf : BF) (h : BF.withCapacity N n = some bf) :
    n ≤ N ∧ bf.Inv ∧ bf.len = n ∧ bf.abs = List.replicate n false := by
  obtain ⟨h1, rfl⟩ := (withCapacity_eq N n bf).mp h
  exact ⟨h1, newFixed_inv n, rfl, newFixed_abs n⟩

theorem newDyn_eq (len : Nat) (bf : BF) :
    BF.newDyn len = some bf ↔ (0 < len ∧ len % 8 = 0) ∧ bf = BF.newFixed len := by
  unfold BF.newDyn BF.newFixed
  by_cases h0 : len = 0
  · simp [h0]
  · by_cases h8 : len % 8 = 0
    · simp [h0, h8, eq_comm, Nat.pos_of_ne_zero h0]
    · simp [h0, h8]

/-- `BitVectorDynamic::new(len)` succeeds exactly for positive multiples of 8 -/
theorem newDyn_some_iff (len : Nat) : (∃ bf, BF.newDyn len = some bf) ↔ 0 < len ∧ len % 8 = 0 := by
  constructor
  · rintro ⟨bf, h⟩; exact ((newDyn_eq len bf).mp h).1
  · intro h; exact ⟨_, (newDyn_eq len _).mpr ⟨h, rfl⟩⟩

theorem newDyn_none_iff (len : Nat) : BF.newDyn len = none ↔ len = 0 ∨ len % 8 ≠ 0 := by
  unfold BF.newDyn
  by_cases h0 : len = 0
  · simp [h0]
  · by_cases h8 : len % 8 = 0
    · simp [h0, h8]
    · simp [h0, h8]

theorem newDyn_spec (len : Nat) (bf : BF) (h : BF.newDyn len = some bf) :
    (0 < len ∧ len % 8 = 0) ∧ bf.Inv ∧ bf.len = len ∧ bf.abs = List.replicate len false := by
  obtain ⟨h1, rfl⟩ := (newDyn_eq len bf).mp h
  exact ⟨h1, newFixed_inv len, rfl, newFixed_abs len⟩

/-! ### observations -/

theorem iterGo_eq (bf : BF) (h : bf.Inv) : ∀ (fuel i : Nat), bf.len - i < fuel →
    BF.iterGo bf fuel i = (List.range' i (bf.len - i)).map (bit bf.bytes) := by
  intro fuel
  induction fuel with
  | zero => intro i hi; omega
  | succ fuel ih =>
    intro i hi
    by_cases hlt : i < bf.len
    · have e : bf.len - i = (bf.len - (i + 1)) + 1 := by omega
      rw [BF.iterGo, get_eq bf h i hlt]
      simp only
      rw [ih (i + 1) (by omega), e, List.range'_succ]
      simp
    · have e : bf.len - i = 0 := by omega
      rw [BF.iterGo, get_oob bf i (by omega), e]
      simp

/-- `iter()` yields exactly the bits -/
theorem iter_eq_abs (bf : BF) (h : bf.Inv) : bf.iter = bf.abs := by
  unfold BF.iter
  rw [iterGo_eq bf h _ 0 (by omega)]
  simp [BF.abs, List.range_eq_range']

/-- `get(i)` is `abs[i]?` -/
theorem get_eq_abs (bf : BF) (h : bf.Inv) (i : Nat) : bf.get i = bf.abs[i]? := by
  by_cases hi : i < bf.len
  · rw [get_eq bf h i hi, List.getElem?_eq_getElem (by rw [abs_length]; exact hi), abs_getElem]
  · rw [get_oob bf i (by omega), List.getElem?_eq_none (by rw [abs_length]; omega)]

theorem get_some (bf : BF) (h : bf.Inv) (i : Nat) (hi : i < bf.len) :
    bf.get i = some (bf.abs.getD i false) := by
  rw [get_eq bf h i hi, getD_abs_inv bf h]

theorem get_none (bf : BF) (i : Nat) (hi : bf.len ≤ i) : bf.get i = none := get_oob bf i hi

theorem isZero_iff_bits (bf : BF) : bf.isZero = true ↔ ∀ j, bit bf.bytes j = false := by
  unfold BF.isZero
  rw [← all_zero_iff_bits]
  simp

/-- `is_zero()` holds exactly when every bit is clear -/
theorem isZero_iff (bf : BF) (h : bf.Inv) : bf.isZero = true ↔ ∀ i, bf.abs.getD i false = false := by
  rw [isZero_iff_bits]
  constructor
  · intro hz i; rw [getD_abs_inv bf h]; exact hz i
  · intro hz j; rw [← getD_abs_inv bf h]; exact hz j

theorem isZero_iff_replicate (bf : BF) (h : bf.Inv) :
    bf.isZero = true ↔ bf.abs = List.replicate bf.len false := by
  rw [isZero_iff bf h]
  constructor
  · intro hz
    apply List.ext_getElem
    · simp [abs_length]
    · intro i h1 h2
      have := hz i
      rw [List.getD_eq_getElem?_getD, List.getElem?_eq_getElem h1] at this
      simpa using this
  · intro he i
    rw [he, List.getD_eq_getElem?_getD]
    by_cases hi : i < bf.len
    · simp [hi]
    · simp [hi]

/-! ### `num_set_bits` -/

/-- the one-byte table: `count_ones` counts the set bits among the eight positions -/
theorem countOnes_eq (x : UInt8) : countOnes x = ((List.range 8).filter (tb x)).length := rfl

theorem filter_range_add (p : Nat → Bool) (a b : Nat) :
    ((List.range (a + b)).filter p).length =
      ((List.range a).filter p).length + ((List.range b).filter (fun k => p (a + k))).length := by
  rw [List.range_add, List.filter_append, List.length_append, List.filter_map, List.length_map]
  rfl

theorem filter_range_false (p : Nat → Bool) (a b : Nat) (h : ∀ k, a ≤ k → p k = false) :
    ((List.range (a + b)).filter p).length = ((List.range a).filter p).length := by
  rw [filter_range_add]
  have : (List.range b).filter (fun k => p (a + k)) = [] := by
    apply List.filter_eq_nil_iff.mpr
    intro k _
    simp [h (a + k) (by omega)]
  rw [this]; rfl

theorem filter_congr_range (p q : Nat → Bool) (n : Nat) (h : ∀ k < n, p k = q k) :
    (List.range n).filter p = (List.range n).filter q := by
  apply List.filter_congr
  intro k hk
  exact h k (List.mem_range.mp hk)

/-- summing `count_ones` over the bytes counts the set bit positions of the byte string -/
theorem sum_countOnes (bs : Bytes) :
    (bs.map countOnes).sum = ((List.range (8 * bs.length)).filter (bit bs)).length := by
  suffices H : ∀ r : Bytes, (r.reverse.map countOnes).sum =
      ((List.range (8 * r.reverse.length)).filter (bit r.reverse)).length by
    simpa using H bs.reverse
  intro r
  induction r with
  | nil => simp
  | cons x r ih =>
    rw [List.reverse_cons, List.map_append, List.sum_append, ih]
    simp only [List.map_cons, List.map_nil, List.sum_cons, List.sum_nil, Nat.add_zero,
      List.length_append, List.length_cons, List.length_nil, Nat.zero_add]
    rw [Nat.mul_add, Nat.mul_one, filter_range_add, countOnes_eq]
    congr 1
    · congr 1
      apply filter_congr_range
      intro k hk
      exact (bit_snoc_lt _ _ _ (by omega)).symm
    · congr 1
      apply filter_congr_range
      intro k hk
      exact (bit_snoc_last _ _ _ hk).symm

/-- `num_set_bits()` is the number of `true` entries -/
theorem numSetBits_eq (bf : BF) (h : bf.Inv) : bf.numSetBits = (bf.abs.filter id).length := by
  unfold BF.numSetBits
  rw [sum_countOnes]
  have hle : bf.len ≤ 8 * bf.bytes.length := by rw [h.1]; unfold bytesForBitLen; omega
  obtain ⟨d, hd⟩ : ∃ d, 8 * bf.bytes.length = bf.len + d := ⟨_, (Nat.add_sub_cancel' hle).symm⟩
  rw [hd, filter_range_false _ _ _ h.2]
  unfold BF.abs
  rw [List.filter_map, List.length_map]
  rfl

/-! ### `highest_set_bit` -/

/-- `highest_set_bit() = Some(i)`: `i` is the largest index holding a `true` -/
theorem highestSetBit_some_iff_abs (bf : BF) (h : bf.Inv) (i : Nat) :
    bf.highestSetBit = some i ↔
      bf.abs.getD i false = true ∧ ∀ j, i < j → bf.abs.getD j false = false := by
  unfold BF.highestSetBit
  rw [highestSetBit_some_iff, getD_abs_inv bf h]
  constructor
  · rintro ⟨h1, h2⟩; exact ⟨h1, fun j hj => by rw [getD_abs_inv bf h]; exact h2 j hj⟩
  · rintro ⟨h1, h2⟩; exact ⟨h1, fun j hj => by rw [← getD_abs_inv bf h]; exact h2 j hj⟩

theorem highestSetBit_lt (bf : BF) (h : bf.Inv) (i : Nat) (hs : bf.highestSetBit = some i) :
    i < bf.len ∧ bf.abs[i]? = some true := by
  have h1 := ((highestSetBit_some_iff_abs bf h i).mp hs).1
  have hlt : i < bf.len := by
    apply Classical.byContradiction
    intro hc
    rw [getD_abs_oob bf i (by omega)] at h1
    cases h1
  refine ⟨hlt, ?_⟩
  have hl : i < bf.abs.length := by rw [abs_length]; exact hlt
  rw [List.getD_eq_getElem?_getD, List.getElem?_eq_getElem hl] at h1
  rw [List.getElem?_eq_getElem hl]
  simpa using h1

/-- `highest_set_bit() = None` exactly when every bit is clear -/
theorem highestSetBit_none_iff_abs (bf : BF) (h : bf.Inv) :
    bf.highestSetBit = none ↔ ∀ i, bf.abs.getD i false = false := by
  unfold BF.highestSetBit
  rw [highestSetBit_none_iff_bits]
  constructor
  · intro hz i; rw [getD_abs_inv bf h]; exact hz i
  · intro hz j; rw [← getD_abs_inv bf h]; exact hz j

/-! ### equality and the exposed byte view -/

/-- `==` (derived on `{bytes, len}`) coincides with equality of the bit sequences -/
theorem eq_iff_abs (a b : BF) (ha : a.Inv) (hb : b.Inv) : a = b ↔ a.abs = b.abs :=
  ⟨fun h => by rw [h], inv_ext a b ha hb⟩

/-- `as_slice()` is the packing of the bits into the minimal number of bytes -/
theorem bytes_eq_packBits (bf : BF) (h : bf.Inv) :
    bf.bytes = Spec.packBits bf.abs (bytesForBitLen bf.len) := by
  apply eq_packBits _ _ _ h.1
  intro j
  rw [getElem?_abs_inv bf h]
  by_cases hj : j / 8 < bytesForBitLen bf.len
  · rw [if_pos hj]
  · rw [if_neg hj]; exact bit_oob _ _ (by rw [h.1]; omega)

theorem bytes_length (bf : BF) (h : bf.Inv) : bf.bytes.length = bytesForBitLen bf.len := h.1
theorem bytes_bit_oob (bf : BF) (h : bf.Inv) (i : Nat) (hi : bf.len ≤ i) : bit bf.bytes i = false :=
  h.2 i hi

/-! ### `set` -/

/-- successful `set(i, v)`: the bit sequence with position `i` replaced -/
theorem set_ok (bf : BF) (h : bf.Inv) (i : Nat) (v : Bool) (hi : i < bf.len) :
    ∃ bf', bf.set i v = some bf' ∧ bf'.Inv ∧ bf'.len = bf.len ∧ bf'.abs = bf.abs.set i v := by
  obtain ⟨bf', h1, h2, h3, h4, _⟩ := set_abs bf h i v hi
  exact ⟨bf', h1, h2, h4, h3⟩

/-- `set` out of bounds fails (and the model returns no new state: the receiver is unchanged) -/
theorem set_err (bf : BF) (i : Nat) (v : Bool) (hi : bf.len ≤ i) : bf.set i v = none :=
  set_oob bf i v hi

theorem set_some_iff (bf : BF) (h : bf.Inv) (i : Nat) (v : Bool) :
    (∃ bf', bf.set i v = some bf') ↔ i < bf.len := by
  constructor
  · rintro ⟨bf', hs⟩
    apply Classical.byContradiction
    intro hc
    rw [set_oob bf i v (by omega)] at hs; cases hs
  · intro hi
    obtain ⟨bf', hs, _⟩ := set_ok bf h i v hi
    exact ⟨bf', hs⟩

/-- whatever `set` returns is well formed with the same length -/
theorem set_inv (bf bf' : BF) (h : bf.Inv) (i : Nat) (v : Bool) (hs : bf.set i v = some bf') :
    bf'.Inv ∧ bf'.len = bf.len ∧ bf'.abs = bf.abs.set i v := by
  have hi : i < bf.len := (set_some_iff bf h i v).mp ⟨bf', hs⟩
  obtain ⟨r, hr, h1, h2, h3⟩ := set_ok bf h i v hi
  rw [hr] at hs; injection hs with hs; subst hs
  exact ⟨h1, h2, h3⟩

/-! ### `difference_inplace`, `difference`, `is_subset` -/

theorem and_not_zero (x : UInt8) : x &&& ~~~(0 : UInt8) = x := by
  apply byte_ext
  intro k hk
  rw [tb_and, tb_not' _ _ hk, tb_zero]; simp

theorem diffBytes_length : ∀ (a b : Bytes), (diffBytes a b).length = a.length
  | [], [] => rfl
  | [], _ :: _ => rfl
  | _ :: _, [] => rfl
  | x :: a, y :: b => by simp [diffBytes, diffBytes_length a b]

theorem diffBytes_getElem? : ∀ (a b : Bytes) (q : Nat),
    (diffBytes a b)[q]?.getD 0 = (a[q]?.getD 0) &&& ~~~(b[q]?.getD 0)
  | [], [], q => by simp [diffBytes]
  | [], _ :: _, q => by simp [diffBytes]
  | x :: a, [], q => by simp [diffBytes, and_not_zero]
  | x :: a, y :: b, 0 => by simp [diffBytes]
  | x :: a, y :: b, q + 1 => by simp [diffBytes, diffBytes_getElem? a b q]

theorem bit_diffBytes (a b : Bytes) (j : Nat) : bit (diffBytes a b) j = (bit a j && !bit b j) := by
  unfold bit
  rw [diffBytes_getElem?, tb_and, tb_not' _ _ (Nat.mod_lt j (by decide))]

theorem difference_eq (a b : BF) : a.difference b = a.differenceInplace b := rfl

theorem differenceInplace_len (a b : BF) : (a.differenceInplace b).len = a.len := rfl

theorem differenceInplace_bit (a b : BF) (j : Nat) :
    bit (a.differenceInplace b).bytes j = (bit a.bytes j && !bit b.bytes j) := bit_diffBytes _ _ j

/-- `difference_inplace`: element-wise `a ∧ ¬b` on the receiver's length, whatever the lengths -/
theorem differenceInplace_spec (a b : BF) (ha : a.Inv) (hb : b.Inv) :
    (a.differenceInplace b).Inv ∧ (a.differenceInplace b).len = a.len ∧
    (a.differenceInplace b).abs =
      (List.range a.len).map (fun i => a.abs.getD i false && !(b.abs.getD i false)) := by
  have := mk_inv_abs (diffBytes a.bytes b.bytes) a.len
    (fun i => a.abs.getD i false && !(b.abs.getD i false))
    (by rw [diffBytes_length, ha.1])
    (fun j => by
      rw [bit_diffBytes, getD_abs_inv a ha, getD_abs_inv b hb]
      by_cases hj : j < a.len
      · simp [hj]
      · simp [hj, ha.2 j (by omega)])
  exact ⟨this.1, rfl, this.2⟩

theorem difference_spec (a b : BF) (ha : a.Inv) (hb : b.Inv) :
    (a.difference b).Inv ∧ (a.difference b).len = a.len ∧
    (a.difference b).abs =
      (List.range a.len).map (fun i => a.abs.getD i false && !(b.abs.getD i false)) :=
  differenceInplace_spec a b ha hb

theorem difference_getD (a b : BF) (ha : a.Inv) (hb : b.Inv) (i : Nat) :
    (a.difference b).abs.getD i false = (a.abs.getD i false && !(b.abs.getD i false)) := by
  rw [(difference_spec a b ha hb).2.2, getD_map_range]
  by_cases hi : i < a.len
  · simp [hi]
  · rw [getD_abs_oob a i (by omega)]; simp [hi]

/-- `is_subset`: every set bit of `a` is set in `b` (missing positions of `b` count as clear) -/
theorem isSubset_iff (a b : BF) (ha : a.Inv) (hb : b.Inv) :
    a.isSubset b = true ↔ ∀ i, a.abs.getD i false = true → b.abs.getD i false = true := by
  unfold BF.isSubset
  rw [isZero_iff _ (difference_spec a b ha hb).1]
  constructor
  · intro h i hi
    have := h i
    rw [difference_getD a b ha hb, hi] at this
    simpa using this
  · intro h i
    rw [difference_getD a b ha hb]
    cases hi : a.abs.getD i false with
    | false => rfl
    | true => rw [h i hi]; rfl

/-! ### byte-wise `|` and `&` -/

theorem orBytesGet_length (n : Nat) (a b : Bytes) : (orBytesGet n a b).length = n := by
  simp [orBytesGet]
theorem andBytesGet_length (n : Nat) (a b : Bytes) : (andBytesGet n a b).length = n := by
  simp [andBytesGet]

theorem bit_orBytesGet (n : Nat) (a b : Bytes) (j : Nat) :
    bit (orBytesGet n a b) j = if j / 8 < n then (bit a j || bit b j) else false := by
  by_cases h : j / 8 < n
  · rw [if_pos h, bit_eq_getElem _ _ (by rw [orBytesGet_length]; exact h)]
    simp only [orBytesGet, List.getElem_map, List.getElem_range]
    rw [tb_or]; rfl
  · rw [if_neg h]; exact bit_oob _ _ (by rw [orBytesGet_length]; omega)

theorem bit_andBytesGet (n : Nat) (a b : Bytes) (j : Nat) :
    bit (andBytesGet n a b) j = if j / 8 < n then (bit a j && bit b j) else false := by
  by_cases h : j / 8 < n
  · rw [if_pos h, bit_eq_getElem _ _ (by rw [andBytesGet_length]; exact h)]
    simp only [andBytesGet, List.getElem_map, List.getElem_range]
    rw [tb_and]; rfl
  · rw [if_neg h]; exact bit_oob _ _ (by rw [andBytesGet_length]; omega)

theorem mapRes_ok_map {α β} (f : α → Res β) (g : α → β) :
    ∀ (l : List α), (∀ x ∈ l, f x = .ok (g x)) → mapRes f l = .ok (l.map g)
  | [], _ => rfl
  | x :: xs, h => by
    have h1 := h x (List.mem_cons_self)
    have h2 := mapRes_ok_map f g xs (fun y hy => h y (List.mem_cons_of_mem _ hy))
    simp only [mapRes, h1, h2, List.map_cons]

/-- the indexing loop of `intersection` does not panic when both operands have at least `n` bytes,
    and then computes the same bytes as the `get(i).unwrap_or(0)` variant -/
theorem andBytesIdx_ok (n : Nat) (a b : Bytes) (ha : n ≤ a.length) (hb : n ≤ b.length) :
    andBytesIdx n a b = .ok (andBytesGet n a b) := by
  unfold andBytesIdx andBytesGet
  apply mapRes_ok_map
  intro i hi
  have hi' : i < n := List.mem_range.mp hi
  rw [List.getElem?_eq_getElem (show i < a.length by omega),
    List.getElem?_eq_getElem (show i < b.length by omega)]
  rfl

/-- an operand shorter than the result makes the indexing loop panic -/
theorem andBytesIdx_panic (n : Nat) (a b : Bytes) (h : a.length < n ∨ b.length < n) :
    andBytesIdx n a b = .panic := by
  unfold andBytesIdx
  have key : ∀ (l : List Nat) (f : Nat → Res UInt8), (∃ i ∈ l, f i = .panic) →
      (∀ i ∈ l, f i ≠ .err) → mapRes f l = .panic := by
    intro l f
    induction l with
    | nil => rintro ⟨i, hi, _⟩; cases hi
    | cons x xs ih =>
      intro hex hne
      simp only [mapRes]
      cases hx : f x with
      | panic => rfl
      | err => exact absurd hx (hne x List.mem_cons_self)
      | ok y =>
        obtain ⟨i, hi, hp⟩ := hex
        have : i ∈ xs := by
          rcases List.mem_cons.mp hi with e | e
          · subst e; rw [hx] at hp; cases hp
          · exact e
        rw [ih ⟨i, this, hp⟩ (fun j hj => hne j (List.mem_cons_of_mem _ hj))]
  apply key
  · rcases h with h | h
    · refine ⟨a.length, List.mem_range.mpr h, ?_⟩
      rw [List.getElem?_eq_none (Nat.le_refl _)]
    · refine ⟨b.length, List.mem_range.mpr h, ?_⟩
      rw [List.getElem?_eq_none (Nat.le_refl b.length)]
      cases a[b.length]? <;> rfl
  · intro i _
    cases a[i]? <;> cases b[i]? <;> (intro e; cases e)

/-- the result of a byte-wise union written on `n ≥ both lengths` bits -/
theorem or_result (a b : BF) (n : Nat) (ha : a.Inv) (hb : b.Inv) (han : a.len ≤ n) (hbn : b.len ≤ n) :
    (⟨orBytesGet (bytesForBitLen n) a.bytes b.bytes, n⟩ : BF).Inv ∧
    (⟨orBytesGet (bytesForBitLen n) a.bytes b.bytes, n⟩ : BF).abs =
      (List.range n).map (fun i => a.abs.getD i false || b.abs.getD i false) := by
  apply mk_inv_abs _ _ _ (orBytesGet_length _ _ _)
  intro j
  rw [bit_orBytesGet, getD_abs_inv a ha, getD_abs_inv b hb]
  by_cases hj : j < n
  · simp [hj, lt_bytesForBitLen hj]
  · have h1 := ha.2 j (by omega)
    have h2 := hb.2 j (by omega)
    simp [hj, h1, h2]

/-- the result of a byte-wise intersection written on `n` bits, `n` at least one of the lengths -/
theorem and_result (a b : BF) (n : Nat) (ha : a.Inv) (hb : b.Inv) (hn : a.len ≤ n ∨ b.len ≤ n) :
    (⟨andBytesGet (bytesForBitLen n) a.bytes b.bytes, n⟩ : BF).Inv ∧
    (⟨andBytesGet (bytesForBitLen n) a.bytes b.bytes, n⟩ : BF).abs =
      (List.range n).map (fun i => a.abs.getD i false && b.abs.getD i false) := by
  apply mk_inv_abs _ _ _ (andBytesGet_length _ _ _)
  intro j
  rw [bit_andBytesGet, getD_abs_inv a ha, getD_abs_inv b hb]
  by_cases hj : j < n
  · simp [hj, lt_bytesForBitLen hj]
  · have h1 : (bit a.bytes j && bit b.bytes j) = false := by
      rcases hn with hn | hn
      · rw [ha.2 j (by omega)]; rfl
      · rw [hb.2 j (by omega)]; simp
    simp [hj, h1]

/-! ### union / intersection per behaviour -/

/-- `BitList::union`: never panics, length of the longer operand, element-wise `||` -/
theorem unionV_spec (N : Nat) (a b : BF) (ha : a.Inv) (hb : b.Inv) (haN : a.len ≤ N) (hbN : b.len ≤ N) :
    ∃ r, BF.unionV N a b = .ok r ∧ r.Inv ∧ r.len = max a.len b.len ∧
      r.abs = (List.range r.len).map (fun i => a.abs.getD i false || b.abs.getD i false) := by
  have hw := (withCapacity_eq N (max a.len b.len) _).mpr ⟨by omega, rfl⟩
  have hr := or_result a b (max a.len b.len) ha hb (by omega) (by omega)
  refine ⟨_, ?_, hr.1, rfl, hr.2⟩
  unfold BF.unionV
  rw [hw]
  simp [BF.newFixed]

/-- `BitList::intersection`: the invariant rules out the indexing panic; length of the shorter
    operand, element-wise `&&` -/
theorem intersectionV_spec (N : Nat) (a b : BF) (ha : a.Inv) (hb : b.Inv) (haN : a.len ≤ N)
    (hbN : b.len ≤ N) :
    ∃ r, BF.intersectionV N a b = .ok r ∧ r.Inv ∧ r.len = min a.len b.len ∧
      r.abs = (List.range r.len).map (fun i => a.abs.getD i false && b.abs.getD i false) := by
  have hw := (withCapacity_eq N (min a.len b.len) _).mpr ⟨by omega, rfl⟩
  have hr := and_result a b (min a.len b.len) ha hb (by omega)
  refine ⟨_, ?_, hr.1, rfl, hr.2⟩
  unfold BF.intersectionV
  rw [hw]
  simp only [BF.newFixed, List.length_replicate]
  rw [andBytesIdx_ok _ _ _ (by rw [ha.1]; exact bytesForBitLen_mono (by omega))
    (by rw [hb.1]; exact bytesForBitLen_mono (by omega))]
  rfl

/-- `BitVector::union` -/
theorem unionF_spec (N : Nat) (a b : BF) (ha : a.Inv) (hb : b.Inv) (haN : a.len = N) (hbN : b.len = N) :
    (BF.unionF N a b).Inv ∧ (BF.unionF N a b).len = N ∧
    (BF.unionF N a b).abs = (List.range N).map (fun i => a.abs.getD i false || b.abs.getD i false) := by
  have hr := or_result a b N ha hb (by omega) (by omega)
  have e : BF.unionF N a b = ⟨orBytesGet (bytesForBitLen N) a.bytes b.bytes, N⟩ := by
    simp [BF.unionF, BF.newFixed]
  rw [e]
  exact ⟨hr.1, rfl, hr.2⟩

/-- `BitVector::intersection`: no panic for two operands of the type's length -/
theorem intersectionF_spec (N : Nat) (a b : BF) (ha : a.Inv) (hb : b.Inv) (haN : a.len = N)
    (hbN : b.len = N) :
    ∃ r, BF.intersectionF N a b = .ok r ∧ r.Inv ∧ r.len = N ∧
      r.abs = (List.range N).map (fun i => a.abs.getD i false && b.abs.getD i false) := by
  have hr := and_result a b N ha hb (by omega)
  refine ⟨_, ?_, hr.1, rfl, hr.2⟩
  unfold BF.intersectionF
  simp only [BF.newFixed, List.length_replicate]
  rw [andBytesIdx_ok _ _ _ (by rw [ha.1, haN]; exact Nat.le_refl _) (by rw [hb.1, hbN]; exact Nat.le_refl _)]
  rfl

theorem max_lenOk_dyn {m n : Nat} (hm : 0 < m ∧ m % 8 = 0) (hn : 0 < n ∧ n % 8 = 0) :
    0 < max m n ∧ max m n % 8 = 0 := by
  rcases Nat.le_total m n with h | h
  · rw [Nat.max_eq_right h]; exact hn
  · rw [Nat.max_eq_left h]; exact hm

/-- `BitVectorDynamic::union`: length of the longer operand -/
theorem unionD_spec (a b : BF) (ha : a.Inv) (hb : b.Inv) (hal : 0 < a.len ∧ a.len % 8 = 0)
    (hbl : 0 < b.len ∧ b.len % 8 = 0) :
    ∃ r, BF.unionD a b = some r ∧ r.Inv ∧ r.len = max a.len b.len ∧
      r.abs = (List.range r.len).map (fun i => a.abs.getD i false || b.abs.getD i false) := by
  have hw := (newDyn_eq (max a.len b.len) _).mpr ⟨max_lenOk_dyn hal hbl, rfl⟩
  have hr := or_result a b (max a.len b.len) ha hb (by omega) (by omega)
  refine ⟨_, ?_, hr.1, rfl, hr.2⟩
  unfold BF.unionD
  rw [hw]
  simp [BF.newFixed]

/-- `BitVectorDynamic::intersection`: length of the LONGER operand, the tail being clear -/
theorem intersectionD_spec (a b : BF) (ha : a.Inv) (hb : b.Inv) (hal : 0 < a.len ∧ a.len % 8 = 0)
    (hbl : 0 < b.len ∧ b.len % 8 = 0) :
    ∃ r, BF.intersectionD a b = some r ∧ r.Inv ∧ r.len = max a.len b.len ∧
      r.abs = (List.range r.len).map (fun i => a.abs.getD i false && b.abs.getD i false) := by
  have hw := (newDyn_eq (max a.len b.len) _).mpr ⟨max_lenOk_dyn hal hbl, rfl⟩
  have hr := and_result a b (max a.len b.len) ha hb (by omega)
  refine ⟨_, ?_, hr.1, rfl, hr.2⟩
  unfold BF.intersectionD
  rw [hw]
  simp [BF.newFixed]

/-! ### `shift_up` -/

/-- the index list of the first loop, `(n..n+m).rev()` -/
theorem desc_succ (m n : Nat) :
    (List.range (m + 1)).reverse.map (· + n) = (m + n) :: (List.range m).reverse.map (· + n) := by
  rw [List.range_succ, List.reverse_append]
  rfl

/-- loop invariant of the first loop of `shift_up`: having processed the indices `L-1 … m+n`,
    positions `≥ m+n` hold the shifted values and positions below are untouched; the loop then
    finishes the indices `m+n-1 … n` -/
theorem shiftLoop1_spec (orig : Bytes) (L n : Nat) : ∀ (m : Nat) (cur : BF), cur.Inv → cur.len = L →
    m + n ≤ L →
    (∀ t, bit cur.bytes t = if m + n ≤ t ∧ t < L then bit orig (t - n) else bit orig t) →
    ∃ r, shiftLoop1 n ((List.range m).reverse.map (· + n)) cur = some r ∧ r.Inv ∧ r.len = L ∧
      ∀ t, bit r.bytes t = if n ≤ t ∧ t < L then bit orig (t - n) else bit orig t := by
  intro m
  induction m with
  | zero =>
    intro cur hinv hl _ hb
    refine ⟨cur, rfl, hinv, hl, fun t => ?_⟩
    rw [hb t]; simp
  | succ m ih =>
    intro cur hinv hl hm hb
    rw [desc_succ]
    have e : m + n - n = m := by omega
    have hg : cur.get m = some (bit orig m) := by
      rw [get_eq cur hinv m (by omega), hb m]
      have : ¬ (m + 1 + n ≤ m ∧ m < L) := by omega
      rw [if_neg this]
    obtain ⟨c', hs, hl', _, hb', hinv'⟩ := set_spec cur hinv (m + n) (bit orig m) (by omega)
    simp only [shiftLoop1, e, hg, hs]
    apply ih c' hinv' (by rw [hl', hl]) (by omega)
    intro t
    rw [hb' t, hb t]
    by_cases ht : t = m + n
    · subst ht
      have : m + n ≤ m + n ∧ m + n < L := by omega
      rw [if_pos rfl, if_pos this, e]
    · rw [if_neg ht]
      by_cases c : m + 1 + n ≤ t ∧ t < L
      · rw [if_pos c, if_pos (by omega)]
      · rw [if_neg c, if_neg (by omega)]

/-- loop invariant of the second loop: clears the positions `s … s+c-1`, never panics -/
theorem shiftLoop2_spec : ∀ (c s : Nat) (cur : BF), cur.Inv → s + c ≤ cur.len →
    ∃ r, shiftLoop2 (List.range' s c) cur = .ok r ∧ r.Inv ∧ r.len = cur.len ∧
      ∀ t, bit r.bytes t = if s ≤ t ∧ t < s + c then false else bit cur.bytes t := by
  intro c
  induction c with
  | zero =>
    intro s cur hinv _
    refine ⟨cur, rfl, hinv, rfl, fun t => ?_⟩
    rw [if_neg (by omega)]
  | succ c ih =>
    intro s cur hinv hs
    obtain ⟨c', hset, hl', _, hb', hinv'⟩ := set_spec cur hinv s false (by omega)
    obtain ⟨r, hr, hri, hrl, hrb⟩ := ih (s + 1) c' hinv' (by rw [hl']; omega)
    refine ⟨r, ?_, hri, by rw [hrl, hl'], fun t => ?_⟩
    · rw [List.range'_succ]
      simp only [shiftLoop2, hset, hr]
    · rw [hrb t, hb' t]
      by_cases ht : t = s
      · subst ht
        rw [if_neg (by omega), if_pos rfl, if_pos (by omega)]
      · rw [if_neg ht]
        by_cases c1 : s + 1 ≤ t ∧ t < s + 1 + c
        · rw [if_pos c1, if_pos (by omega)]
        · rw [if_neg c1, if_neg (by omega)]

/-- `shift_up(n)` for `n ≤ len`: no error, no panic, same length, bits moved up by `n` and the low
    `n` positions cleared -/
theorem shiftUp_ok (bf : BF) (h : bf.Inv) (n : Nat) (hn : n ≤ bf.len) :
    ∃ r, bf.shiftUp n = .ok r ∧ r.Inv ∧ r.len = bf.len ∧
      r.abs = (List.range bf.len).map (fun i => if i < n then false else bf.abs.getD (i - n) false) := by
  obtain ⟨r1, h1, i1, l1, b1⟩ := shiftLoop1_spec bf.bytes bf.len n (bf.len - n) bf h rfl (by omega)
    (fun t => by rw [if_neg (by omega)])
  obtain ⟨r2, h2, i2, l2, b2⟩ := shiftLoop2_spec n 0 r1 i1 (by omega)
  refine ⟨r2, ?_, i2, by rw [l2, l1], ?_⟩
  · unfold BF.shiftUp
    rw [if_pos hn, h1]
    simp only
    rw [List.range_eq_range', h2]
  · have hb : ∀ j, bit r2.bytes j =
        (decide (j < bf.len) && (fun i => if i < n then false else bf.abs.getD (i - n) false) j) := by
      intro j
      rw [b2 j, b1 j]
      simp only [getD_abs_inv bf h]
      by_cases hj : j < n
      · rw [if_pos (by omega), if_pos hj]; simp
      · rw [if_neg (by omega), if_neg hj]
        by_cases hL : j < bf.len
        · rw [if_pos (by omega)]; simp [hL]
        · rw [if_neg (by omega), h.2 j (by omega)]; simp [hL]
    have hlen : r2.len = bf.len := by rw [l2, l1]
    have := mk_inv_abs r2.bytes bf.len _ (by rw [i2.1, hlen]) hb
    have e : r2 = ⟨r2.bytes, bf.len⟩ := by cases r2; simp only at hlen; subst hlen; rfl
    rw [e]; exact this.2

/-- `shift_up(n)` for `n > len` is an error -/
theorem shiftUp_err (bf : BF) (n : Nat) (hn : bf.len < n) : bf.shiftUp n = .err := by
  unfold BF.shiftUp
  rw [if_neg (by omega)]

theorem shiftUp_spec (bf : BF) (h : bf.Inv) (n : Nat) :
    (n ≤ bf.len → ∃ r, bf.shiftUp n = .ok r ∧ r.Inv ∧ r.len = bf.len ∧
      r.abs = (List.range bf.len).map (fun i => if i < n then false else bf.abs.getD (i - n) false)) ∧
    (n > bf.len → bf.shiftUp n = .err) :=
  ⟨shiftUp_ok bf h n, shiftUp_err bf n⟩

/-! ### `set` loops: `setAll`, `resizeLoop`; `ofBitsK`, `newOf`, `resize` -/

theorem resizeLoop_eq_setAll : ∀ (l : List Bool) (i : Nat) (r : BF), resizeLoop l i r = setAll l i r
  | [], _, _ => rfl
  | b :: bs, i, r => by
    simp only [resizeLoop, setAll]
    cases r.set i b with
    | none => rfl
    | some r' => exact resizeLoop_eq_setAll bs (i + 1) r'

/-- in range, the `set` loop succeeds and is the total loop `ofBitsGo` -/
theorem setAll_eq_ofBitsGo : ∀ (l : List Bool) (i : Nat) (bf : BF), bf.Inv → i + l.length ≤ bf.len →
    setAll l i bf = some (BF.ofBitsGo l i bf)
  | [], _, _, _, _ => rfl
  | b :: bs, i, bf, h, hl => by
    simp only [List.length_cons] at hl
    obtain ⟨bf', hs, hlen, _, _, hinv⟩ := set_spec bf h i b (by omega)
    simp only [setAll, BF.ofBitsGo, hs, Option.getD_some]
    exact setAll_eq_ofBitsGo bs (i + 1) bf' hinv (by omega)

/-- writing the bits `l` from position 0 into a zeroed field of `n ≥ |l|` bits -/
theorem setAll_zeros (l : List Bool) (n : Nat) (hl : l.length ≤ n) :
    ∃ r, setAll l 0 (BF.newFixed n) = some r ∧ r.Inv ∧ r.len = n ∧
      ∀ j, bit r.bytes j = l[j]?.getD false := by
  have hz := newFixed_inv n
  have hle : 0 + l.length ≤ (BF.newFixed n).len := by simpa [newFixed_len] using hl
  obtain ⟨h1, h2, _, h4⟩ := ofBitsGo_spec l 0 (BF.newFixed n) hz hle
  refine ⟨_, setAll_eq_ofBitsGo l 0 _ hz hle, h1, h2, fun j => ?_⟩
  rw [h4 j, newFixed_bit]
  by_cases hj : j < l.length
  · simp [hj]
  · simp [hj]

theorem setAll_zeros_abs (l : List Bool) (r : BF) (h : setAll l 0 (BF.newFixed l.length) = some r) :
    r = BF.ofBits l := by
  rw [setAll_eq_ofBitsGo l 0 _ (newFixed_inv _) (by simp [newFixed_len])] at h
  injection h with h
  exact h.symm

theorem newOf_eq (k : BKind) (n : Nat) (bf : BF) :
    newOf k n = some bf ↔
      match k with
      | .variable N => n ≤ N ∧ bf = BF.newFixed n
      | .fixed N => bf = BF.newFixed N
      | .dynamic => (0 < n ∧ n % 8 = 0) ∧ bf = BF.newFixed n := by
  cases k with
  | «variable» N => exact withCapacity_eq N n bf
  | fixed N => simp [newOf, eq_comm]
  | dynamic => exact newDyn_eq n bf

/-- `new`/`with_capacity` of any behaviour: a well-formed all-clear field whose length obeys the
    behaviour's rule -/
theorem newOf_spec (k : BKind) (n : Nat) (bf : BF) (h : newOf k n = some bf) :
    bf.Inv ∧ k.lenOk bf.len = true ∧ bf.abs = List.replicate bf.len false := by
  have := (newOf_eq k n bf).mp h
  cases k with
  | «variable» N =>
    obtain ⟨h1, rfl⟩ := this
    exact ⟨newFixed_inv n, decide_eq_true h1, newFixed_abs n⟩
  | fixed N =>
    simp only at this; subst this
    exact ⟨newFixed_inv N, by simp [BKind.lenOk, newFixed_len], newFixed_abs N⟩
  | dynamic =>
    obtain ⟨h1, rfl⟩ := this
    exact ⟨newFixed_inv n, by simpa [BKind.lenOk, newFixed_len] using h1, newFixed_abs n⟩

/-- for the requested length obeying the rule, `new` succeeds with that length -/
theorem newOf_ok (k : BKind) (n : Nat) (h : k.lenOk n = true) : newOf k n = some (BF.newFixed n) := by
  apply (newOf_eq k n _).mpr
  cases k with
  | «variable» N => exact ⟨by simpa [BKind.lenOk] using h, rfl⟩
  | fixed N =>
    have : n = N := by simpa [BKind.lenOk] using h
    subst this; rfl
  | dynamic => exact ⟨by simpa [BKind.lenOk] using h, rfl⟩

theorem ofBitsK_eq (k : BKind) (l : List Bool) (bf : BF) :
    ofBitsK k l = some bf ↔ k.lenOk l.length = true ∧ bf = BF.ofBits l := by
  by_cases hk : k.lenOk l.length = true
  · have hn := newOf_ok k l.length hk
    unfold ofBitsK
    rw [hn]
    simp only [newFixed_len, bne_self_eq_false, Bool.false_eq_true, ↓reduceIte, hk, true_and]
    rw [setAll_eq_ofBitsGo l 0 _ (newFixed_inv _) (by simp [newFixed_len])]
    constructor
    · intro h; injection h with h; exact h.symm
    · intro h; rw [h]; rfl
  · constructor
    · intro h
      exfalso
      unfold ofBitsK at h
      cases hn : newOf k l.length with
      | none => rw [hn] at h; cases h
      | some z =>
        rw [hn] at h
        simp only at h
        by_cases hz : z.len = l.length
        · have := (newOf_spec k l.length z hn).2.1
          rw [hz] at this
          exact hk this
        · have : (z.len != l.length) = true := by simpa using hz
          rw [if_pos this] at h; cases h
    · rintro ⟨h, _⟩; exact absurd h hk

/-- building a value from a bit string succeeds exactly when its length obeys the behaviour's rule -/
theorem ofBitsK_some_iff (k : BKind) (l : List Bool) :
    (∃ bf, ofBitsK k l = some bf) ↔ k.lenOk l.length = true := by
  constructor
  · rintro ⟨bf, h⟩; exact ((ofBitsK_eq k l bf).mp h).1
  · intro h; exact ⟨_, (ofBitsK_eq k l _).mpr ⟨h, rfl⟩⟩

theorem ofBitsK_spec (k : BKind) (l : List Bool) (bf : BF) (h : ofBitsK k l = some bf) :
    k.lenOk l.length = true ∧ bf.Inv ∧ bf.abs = l ∧ bf.len = l.length := by
  obtain ⟨h1, rfl⟩ := (ofBitsK_eq k l bf).mp h
  exact ⟨h1, ofBits_inv' l, ofBits_abs' l, ofBits_len' l⟩

/-- `BitList<N>::resize::<M>()` with `N ≤ M`: a bitlist of `M` bits with exactly the same set bits -/
theorem resize_ok (N M : Nat) (bf : BF) (h : bf.Inv) (hN : bf.len ≤ N) (hNM : N ≤ M) :
    ∃ r, BF.resize N M bf = some r ∧ r.Inv ∧ r.len = M ∧
      ∀ i, r.abs.getD i false = bf.abs.getD i false := by
  obtain ⟨r, hr, hi, hl, hb⟩ := setAll_zeros bf.abs M (by rw [abs_length]; omega)
  refine ⟨r, ?_, hi, hl, fun i => ?_⟩
  · unfold BF.resize
    rw [if_neg (by omega), (withCapacity_eq M M _).mpr ⟨Nat.le_refl _, rfl⟩]
    simp only
    rw [resizeLoop_eq_setAll, iter_eq_abs bf h, hr]
  · rw [getD_abs_inv r hi, hb i, List.getD_eq_getElem?_getD]

/-- resizing to a smaller capacity fails -/
theorem resize_err (N M : Nat) (bf : BF) (hNM : M < N) : BF.resize N M bf = none := by
  unfold BF.resize
  rw [if_pos hNM]

theorem resize_spec (N M : Nat) (bf : BF) (h : bf.Inv) (hN : bf.len ≤ N) :
    (N ≤ M → ∃ r, BF.resize N M bf = some r ∧ r.Inv ∧ r.len = M ∧
      ∀ i, r.abs.getD i false = bf.abs.getD i false) ∧
    (N > M → BF.resize N M bf = none) :=
  ⟨resize_ok N M bf h hN, resize_err N M bf⟩

/-- the resized bitlist as a sequence: the old bits followed by clear positions -/
theorem resize_abs (N M : Nat) (bf r : BF) (h : bf.Inv) (hN : bf.len ≤ N)
    (hr : BF.resize N M bf = some r) :
    r.abs = bf.abs ++ List.replicate (M - bf.len) false := by
  have hNM : N ≤ M := by
    apply Classical.byContradiction
    intro hc
    rw [resize_err N M bf (by omega)] at hr; cases hr
  obtain ⟨r', hr', hi, hl, hb⟩ := resize_ok N M bf h hN hNM
  rw [hr'] at hr; injection hr with hr; subst hr
  apply List.ext_getElem
  · simp [abs_length, hl]; omega
  · intro i h1 h2
    have := hb i
    rw [List.getD_eq_getElem?_getD, List.getD_eq_getElem?_getD, List.getElem?_eq_getElem h1] at this
    simp only [Option.getD_some] at this
    rw [this]
    by_cases hi' : i < bf.abs.length
    · rw [List.getElem_append_left hi', List.getElem?_eq_getElem hi']; rfl
    · rw [List.getElem_append_right (by omega), List.getElem?_eq_none (by omega)]
      simp

/-! ### the three behaviours together: `unionK`, `interK` -/

theorem lenOk_variable (N l : Nat) : (BKind.variable N).lenOk l = true ↔ l ≤ N := by
  simp [BKind.lenOk]
theorem lenOk_fixed (N l : Nat) : (BKind.fixed N).lenOk l = true ↔ l = N := by
  simp [BKind.lenOk]
theorem lenOk_dynamic (l : Nat) : BKind.dynamic.lenOk l = true ↔ 0 < l ∧ l % 8 = 0 := by
  simp [BKind.lenOk]

/-- the length rule is closed under `max` and `min` of two admissible lengths -/
theorem lenOk_max (k : BKind) (m n : Nat) (hm : k.lenOk m = true) (hn : k.lenOk n = true) :
    k.lenOk (max m n) = true := by
  rcases Nat.le_total m n with h | h
  · rw [Nat.max_eq_right h]; exact hn
  · rw [Nat.max_eq_left h]; exact hm
theorem lenOk_min (k : BKind) (m n : Nat) (hm : k.lenOk m = true) (hn : k.lenOk n = true) :
    k.lenOk (min m n) = true := by
  rcases Nat.le_total m n with h | h
  · rw [Nat.min_eq_left h]; exact hm
  · rw [Nat.min_eq_right h]; exact hn

/-- result length of `intersection`: the shorter operand, except for dynamic bitvectors -/
def interLen : BKind → Nat → Nat → Nat
  | .dynamic, m, n => max m n
  | _, m, n => min m n

/-- `union` of any behaviour: no error, no panic, a valid value of the same behaviour, as long as
    the longer operand, element-wise `||` with missing positions false -/
theorem unionK_spec (k : BKind) (a b : BF) (ha : a.Inv) (hb : b.Inv)
    (hka : k.lenOk a.len = true) (hkb : k.lenOk b.len = true) :
    ∃ r, unionK k a b = .ok r ∧ r.Inv ∧ k.lenOk r.len = true ∧ r.len = max a.len b.len ∧
      r.abs = (List.range r.len).map (fun i => a.abs.getD i false || b.abs.getD i false) := by
  cases k with
  | «variable» N =>
    obtain ⟨r, h1, h2, h3, h4⟩ := unionV_spec N a b ha hb ((lenOk_variable _ _).mp hka)
      ((lenOk_variable _ _).mp hkb)
    exact ⟨r, h1, h2, by rw [h3]; exact lenOk_max _ _ _ hka hkb, h3, h4⟩
  | fixed N =>
    have e1 := (lenOk_fixed _ _).mp hka
    have e2 := (lenOk_fixed _ _).mp hkb
    obtain ⟨h2, h3, h4⟩ := unionF_spec N a b ha hb e1 e2
    refine ⟨_, rfl, h2, by rw [h3]; exact (lenOk_fixed _ _).mpr rfl, by rw [h3, e1, e2, Nat.max_self], ?_⟩
    rw [h3]; exact h4
  | dynamic =>
    obtain ⟨r, h1, h2, h3, h4⟩ := unionD_spec a b ha hb ((lenOk_dynamic _).mp hka)
      ((lenOk_dynamic _).mp hkb)
    refine ⟨r, ?_, h2, by rw [h3]; exact lenOk_max _ _ _ hka hkb, h3, h4⟩
    show Res.ofOption (BF.unionD a b) = .ok r
    rw [h1]; rfl

/-- `intersection` of any behaviour: no error, NO PANIC, a valid value of the same behaviour;
    element-wise `&&` with missing positions false -/
theorem interK_spec (k : BKind) (a b : BF) (ha : a.Inv) (hb : b.Inv)
    (hka : k.lenOk a.len = true) (hkb : k.lenOk b.len = true) :
    ∃ r, interK k a b = .ok r ∧ r.Inv ∧ k.lenOk r.len = true ∧ r.len = interLen k a.len b.len ∧
      r.abs = (List.range r.len).map (fun i => a.abs.getD i false && b.abs.getD i false) := by
  cases k with
  | «variable» N =>
    obtain ⟨r, h1, h2, h3, h4⟩ := intersectionV_spec N a b ha hb ((lenOk_variable _ _).mp hka)
      ((lenOk_variable _ _).mp hkb)
    exact ⟨r, h1, h2, by rw [h3]; exact lenOk_min _ _ _ hka hkb, h3, h4⟩
  | fixed N =>
    have e1 := (lenOk_fixed _ _).mp hka
    have e2 := (lenOk_fixed _ _).mp hkb
    obtain ⟨r, h1, h2, h3, h4⟩ := intersectionF_spec N a b ha hb e1 e2
    refine ⟨r, h1, h2, by rw [h3]; exact (lenOk_fixed _ _).mpr rfl, ?_, ?_⟩
    · show r.len = min a.len b.len
      rw [h3, e1, e2, Nat.min_self]
    · rw [h3]; exact h4
  | dynamic =>
    obtain ⟨r, h1, h2, h3, h4⟩ := intersectionD_spec a b ha hb ((lenOk_dynamic _).mp hka)
      ((lenOk_dynamic _).mp hkb)
    refine ⟨r, ?_, h2, by rw [h3]; exact lenOk_max _ _ _ hka hkb, h3, h4⟩
    show Res.ofOption (BF.intersectionD a b) = .ok r
    rw [h1]; rfl

/-- position-wise form of the union result, valid at every index -/
theorem union_getD (a b r : BF) (hl : r.len = max a.len b.len)
    (habs : r.abs = (List.range r.len).map (fun i => a.abs.getD i false || b.abs.getD i false))
    (i : Nat) : r.abs.getD i false = (a.abs.getD i false || b.abs.getD i false) := by
  rw [habs, getD_map_range]
  by_cases hi : i < r.len
  · simp [hi]
  · rw [getD_abs_oob a i (by omega), getD_abs_oob b i (by omega)]; simp [hi]

/-- position-wise form of the intersection result, valid at every index -/
theorem inter_getD (a b r : BF) (hl : min a.len b.len ≤ r.len)
    (habs : r.abs = (List.range r.len).map (fun i => a.abs.getD i false && b.abs.getD i false))
    (i : Nat) : r.abs.getD i false = (a.abs.getD i false && b.abs.getD i false) := by
  rw [habs, getD_map_range]
  by_cases hi : i < r.len
  · simp [hi]
  · have : a.len ≤ i ∨ b.len ≤ i := by omega
    rcases this with h | h
    · rw [getD_abs_oob a i h]; simp [hi]
    · rw [getD_abs_oob b i h]; simp [hi]

theorem interLen_ge_min (k : BKind) (m n : Nat) : min m n ≤ interLen k m n := by
  cases k <;> simp only [interLen] <;> omega

end Ssz.Ops
