import SszModel.Codec
import SszProofs.Lemmas.Key
/-
  `ssz_append` only ever appends: `sszAppend t v buf = buf ++ encode t v`, for every type, value
  (well-typed or not) and buffer; the container encoder driven through closures equals the
  encoder driven with already-encoded items.
-/
namespace Ssz

def encodeEach : List Ty → List Val → List Bytes
  | t :: ts, v :: vs => encode t v :: encodeEach ts vs
  | _, _ => []

def isFixedReg (r : Reg) : Bool := match r with | .fixed _ => true | .var => false

theorem reg_isFixed (t : Ty) : isFixedReg t.reg = t.isFixed := by
  unfold Ty.reg; cases h : t.isFixed <;> simp [isFixedReg]

theorem encodeItemsGo_cons (r : Reg) (rs : List Reg) (it : Bytes) (its : List Bytes) (e : Enc) :
    encodeItemsGo (r :: rs) (it :: its) e = encodeItemsGo rs its (e.append (isFixedReg r) it) := by
  cases r <;> rfl

theorem appendWith_eq (e : Enc) (fx : Bool) (f : Bytes → Bytes) (item : Bytes)
    (h : ∀ buf, f buf = buf ++ item) : e.appendWith fx f = e.append fx item := by
  unfold Enc.appendWith Enc.append; simp [h]

mutual
theorem append_prefix : ∀ (t : Ty) (v : Val) (buf : Bytes), sszAppend t v buf = buf ++ sszAppend t v []
  | .uint k, v, buf => by cases v <;> simp [sszAppend]
  | .bool, v, buf => by cases v <;> simp [sszAppend]
  | .nonZeroUsize, v, buf => by cases v <;> simp [sszAppend]
  | .bytesN _, v, buf => by cases v <;> simp [sszAppend]
  | .byteList, v, buf => by cases v <;> simp [sszAppend]
  | .tagEnum _, v, buf => by cases v <;> simp [sszAppend]
  | .bitvector _, v, buf => by cases v <;> simp [sszAppend]
  | .bitlist _, v, buf => by cases v <;> simp [sszAppend]
  | .bitvectorDyn, v, buf => by cases v <;> simp [sszAppend]
  | .option t, v, buf => by
      cases v <;> simp [sszAppend]
      rename_i x
      rw [append_prefix t x (buf ++ [1]), append_prefix t x [1]]; simp
  | .legacyOption t, v, buf => by
      cases v <;> simp [sszAppend]
      rename_i x
      rw [append_prefix t x (buf ++ encodeLength 1), append_prefix t x (encodeLength 1)]; simp
  | .list c t, v, buf => by
      cases v <;> simp [sszAppend]
      rename_i vs
      split
      · exact appendAll_prefix t vs buf
      · rw [appendSeq_eq t vs, appendSeq_eq t vs]
        simp [Enc.container, go_eq]
  | .tuple ts, v, buf => by
      cases v <;> simp [sszAppend]
      rename_i vs
      rw [appendFields_eq ts vs, appendFields_eq ts vs]
      simp [Enc.container, go_eq]
  | .container ts, v, buf => by
      cases v <;> simp [sszAppend]
      rename_i vs
      rw [appendFields_eq ts vs, appendFields_eq ts vs]
      simp [Enc.container, go_eq]
  | .union ts, v, buf => by
      cases v <;> simp [sszAppend]
      rename_i i x
      rw [appendNth_prefix ts i x (buf ++ [UInt8.ofNat i]), appendNth_prefix ts i x [UInt8.ofNat i]]; simp
  | .transparentEnum ts, v, buf => by
      cases v <;> simp [sszAppend]
      rename_i i x
      exact appendNth_prefix ts i x buf
theorem appendAll_prefix (t : Ty) : ∀ (vs : List Val) (buf : Bytes), appendAll t vs buf = buf ++ appendAll t vs []
  | [], buf => by simp [appendAll]
  | v :: vs, buf => by
      simp only [appendAll]
      rw [appendAll_prefix t vs (sszAppend t v buf), appendAll_prefix t vs (sszAppend t v []), append_prefix t v buf]
      simp
theorem appendSeq_eq (t : Ty) : ∀ (vs : List Val) (e : Enc),
    appendSeq t vs e = encodeItemsGo (List.replicate vs.length .var) (vs.map (encode t)) e
  | [], e => by simp [appendSeq, encodeItemsGo]
  | v :: vs, e => by
      simp only [appendSeq, List.length_cons, List.replicate_succ, List.map_cons, encodeItemsGo]
      rw [appendWith_eq e false (sszAppend t v) (encode t v) (fun buf => append_prefix t v buf)]
      exact appendSeq_eq t vs _
theorem appendFields_eq : ∀ (ts : List Ty) (vs : List Val) (e : Enc),
    appendFields ts vs e = encodeItemsGo (regsOf ts) (encodeEach ts vs) e
  | [], vs, e => by cases vs <;> simp [appendFields, regsOf, encodeEach, encodeItemsGo]
  | t :: ts, [], e => by simp [appendFields, regsOf, encodeEach, encodeItemsGo]
  | t :: ts, v :: vs, e => by
      simp only [appendFields, regsOf, encodeEach, encodeItemsGo_cons, reg_isFixed]
      rw [appendWith_eq e t.isFixed (sszAppend t v) (encode t v) (fun buf => append_prefix t v buf)]
      exact appendFields_eq ts vs _
theorem appendNth_prefix : ∀ (ts : List Ty) (i : Nat) (v : Val) (buf : Bytes),
    appendNth ts i v buf = buf ++ appendNth ts i v []
  | [], i, v, buf => by simp [appendNth]
  | t :: ts, 0, v, buf => by simp only [appendNth]; exact append_prefix t v buf
  | t :: ts, i+1, v, buf => by simp only [appendNth]; exact appendNth_prefix ts i v buf
end

end Ssz
