import SszModel.Offset
namespace Ssz

theorem le_length (k n : Nat) : (le k n).length = k := by
  induction k generalizing n with
  | zero => rfl
  | succ k ih => simp [le, ih]

theorem fromLE_le (k n : Nat) : fromLE (le k n) = n % 256^k := by
  induction k generalizing n with
  | zero => simp [le, fromLE, Nat.mod_one]
  | succ k ih =>
    simp only [le, fromLE, ih]
    have h : (UInt8.ofNat (n % 256)).toNat = n % 256 := by
      simp [UInt8.toNat_ofNat']
    rw [h, Nat.pow_succ, Nat.mul_comm (256^k) 256, Nat.mod_mul]

theorem readOffset_encodeLength (n : Nat) (h : n < 2^32) : readOffset (encodeLength n) = some n := by
  unfold readOffset encodeLength
  have hl : (le 4 (n % 2^32)).length = 4 := le_length _ _
  simp only [hl, ge_iff_le, Nat.le_refl, ↓reduceIte]
  rw [List.take_of_length_le (by omega)]
  rw [fromLE_le]
  congr 1
  omega

end Ssz
