import SszModel.ListDecode
import SszProofs.Lemmas.ListVarProof
/-
  Facts about the traced list decoder `listVarT` (C16, and the list-decoder side of C06):
  what the item decoder is called with, what the collection is told to reserve, and how the
  three collection kinds relate to the plain decoder `listVar`.
-/
set_option linter.unusedSimpArgs false
namespace Ssz.LT
/-- the item count the input announces: a quarter of the first offset word -/
def announced (b : Bytes) : Option Nat :=
  if b.isEmpty then none else (readOffset b).map (· / 4)

/-- all checks made before the first item is looked at; `some first` when they pass -/
def listHeader (b : Bytes) (m : Option Nat) : Option Nat :=
  match readOffset b with
  | none => none
  | some first =>
    match sanitizeOffset first none b.length (some first) with
    | none => none
    | some _ =>
      if first % 4 != 0 || first < 4 then none
      else if m.any (fun k => decide (first / 4 > k)) then none
      else some first

/-- one step of the offset walk: the slice handed to the item decoder and the offset afterwards -/
def nextSlice (b : Bytes) (first n r offset : Nat) : Res (Bytes × Nat) :=
  if n - r == n then
    if offset ≤ b.length then .ok (b.drop offset, offset) else .err
  else if (n - r) * 4 > b.length then .panic
  else match readOffset (b.drop ((n - r) * 4)) with
    | none => .err
    | some next =>
      match sanitizeOffset next (some offset) b.length (some first) with
      | none => .err
      | some offset' =>
        if offset ≤ offset' ∧ offset' ≤ b.length then
          .ok ((b.drop offset).take (offset' - offset), offset')
        else .err

/-- what the collection does with an item it has just pulled -/
def pullT {α} (budget : Option Nat) (tr : List Bytes) (s : Bytes) (v : α)
    (rec : Option Nat → List Bytes → Res (List α) × List Bytes) : Res (List α) × List Bytes :=
  match budget with
  | some 0 => (.err, tr ++ [s])
  | _ => ((rec (budget.map (· - 1)) (tr ++ [s])).1.map (v :: ·), (rec (budget.map (· - 1)) (tr ++ [s])).2)

/-! ### unfolding lemmas -/

theorem listVarGo_succ {α} (f : Bytes → Res α) (b : Bytes) (first n r offset : Nat) :
    listVarGo f b first n (r+1) offset =
      match nextSlice b first n r offset with
      | .ok (s, o') => (match f s with
          | .ok v => (listVarGo f b first n r o').map (v :: ·)
          | .err => .err
          | .panic => .panic)
      | .err => .err
      | .panic => .panic := by
  rw [listVarGo]
  unfold nextSlice
  by_cases h1 : (n - r == n) = true
  · simp only [h1, ↓reduceIte]
    by_cases h2 : offset ≤ b.length
    · simp only [h2, ↓reduceIte]
      cases f (b.drop offset) with
      | ok v => simp only []; cases listVarGo f b first n r offset <;> rfl
      | err => rfl
      | panic => rfl
    · simp only [h2, ↓reduceIte]
  · simp only [h1, Bool.false_eq_true, ↓reduceIte]
    by_cases h2 : (n - r) * 4 > b.length
    · simp only [h2, ↓reduceIte]
    · simp only [h2, ↓reduceIte]
      cases readOffset (b.drop ((n - r) * 4)) with
      | none => rfl
      | some next =>
        simp only []
        cases sanitizeOffset next (some offset) b.length (some first) with
        | none => rfl
        | some o' =>
          simp only []
          by_cases h3 : offset ≤ o' ∧ o' ≤ b.length
          · simp only [h3, and_self, ↓reduceIte]
            cases f ((b.drop offset).take (o' - offset)) with
            | ok v => simp only []; cases listVarGo f b first n r o' <;> rfl
            | err => rfl
            | panic => rfl
          · simp only [h3, ↓reduceIte]

theorem listVarGoT_succ {α} (f : Bytes → Res α) (b : Bytes) (first n r offset : Nat)
    (budget : Option Nat) (tr : List Bytes) :
    listVarGoT f b first n (r+1) offset budget tr =
      match nextSlice b first n r offset with
      | .ok (s, o') => (match f s with
          | .ok v => pullT budget tr s v (listVarGoT f b first n r o')
          | .err => (.err, tr ++ [s])
          | .panic => (.panic, tr ++ [s]))
      | .err => (.err, tr)
      | .panic => (.panic, tr) := by
  have key : ∀ (s : Bytes) (o' : Nat),
      (match f s with
        | .ok v =>
          (match budget with
           | some 0 => ((.err : Res (List α)), tr ++ [s])
           | _ =>
            let (res, tr') := listVarGoT f b first n r o' (budget.map (· - 1)) (tr ++ [s])
            (match res with | .ok vs => (.ok (v :: vs), tr') | .err => (.err, tr') | .panic => (.panic, tr')))
        | .err => (.err, tr ++ [s])
        | .panic => (.panic, tr ++ [s])) =
      (match f s with
        | .ok v => pullT budget tr s v (listVarGoT f b first n r o')
        | .err => (.err, tr ++ [s])
        | .panic => (.panic, tr ++ [s])) := by
    intro s o'
    cases f s with
    | err => rfl
    | panic => rfl
    | ok v =>
      simp only [pullT]
      cases budget with
      | none =>
        simp only [Option.map_none]
        cases (listVarGoT f b first n r o' none (tr ++ [s])) with
        | mk res tr' => cases res <;> rfl
      | some k =>
        cases k with
        | zero => rfl
        | succ k =>
          simp only [Option.map_some]
          cases (listVarGoT f b first n r o' (some (k + 1 - 1)) (tr ++ [s])) with
          | mk res tr' => cases res <;> rfl
  rw [listVarGoT]
  unfold nextSlice
  by_cases h1 : (n - r == n) = true
  · simp only [h1, ↓reduceIte]
    by_cases h2 : offset ≤ b.length
    · simp only [h2, ↓reduceIte]
      exact key _ _
    · simp only [h2, ↓reduceIte]
  · simp only [h1, Bool.false_eq_true, ↓reduceIte]
    by_cases h2 : (n - r) * 4 > b.length
    · simp only [h2, ↓reduceIte]
    · simp only [h2, ↓reduceIte]
      cases readOffset (b.drop ((n - r) * 4)) with
      | none => rfl
      | some next =>
        simp only []
        cases sanitizeOffset next (some offset) b.length (some first) with
        | none => rfl
        | some o' =>
          simp only []
          by_cases h3 : offset ≤ o' ∧ o' ≤ b.length
          · simp only [h3, and_self, ↓reduceIte]
            exact key _ _
          · simp only [h3, ↓reduceIte]


/-! ### the walk: plain vs traced, budgets -/

theorem goT_vec_fst {α} (f : Bytes → Res α) (b : Bytes) (first n : Nat) :
    ∀ (r off : Nat) (tr : List Bytes),
    (listVarGoT f b first n r off none tr).1 = listVarGo f b first n r off
  | 0, off, tr => by simp [listVarGoT, listVarGo]
  | r+1, off, tr => by
    rw [listVarGoT_succ, listVarGo_succ]
    cases nextSlice b first n r off with
    | err => rfl
    | panic => rfl
    | ok p =>
      obtain ⟨s, o'⟩ := p
      simp only []
      cases f s with
      | err => rfl
      | panic => rfl
      | ok v => simp only [pullT, Option.map_none]; rw [goT_vec_fst f b first n r]

theorem map_cons_ok {α} {v : α} {r : Res (List α)} {vs : List α}
    (h : r.map (v :: ·) = .ok vs) : ∃ vs', r = .ok vs' ∧ vs = v :: vs' := by
  cases r with
  | ok x => simp only [Res.map_ok, Res.ok.injEq] at h; exact ⟨x, rfl, h.symm⟩
  | err => cases h
  | panic => cases h

theorem go_length {α} (f : Bytes → Res α) (b : Bytes) (first n : Nat) :
    ∀ (r off : Nat) (vs : List α), listVarGo f b first n r off = .ok vs → vs.length = r
  | 0, off, vs, h => by simp [listVarGo] at h; subst h; rfl
  | r+1, off, vs, h => by
    rw [listVarGo_succ] at h
    cases hn : nextSlice b first n r off with
    | err => rw [hn] at h; cases h
    | panic => rw [hn] at h; cases h
    | ok p =>
      obtain ⟨s, o'⟩ := p
      rw [hn] at h
      simp only [] at h
      cases hf : f s with
      | err => rw [hf] at h; cases h
      | panic => rw [hf] at h; cases h
      | ok v =>
        rw [hf] at h
        obtain ⟨vs', h1, rfl⟩ := map_cons_ok h
        simp [go_length f b first n r o' vs' h1]

/-- a collection with room for all remaining items behaves exactly like `Vec` -/
theorem goT_budget_ge {α} (f : Bytes → Res α) (b : Bytes) (first n : Nat) :
    ∀ (r off k : Nat) (tr : List Bytes), r ≤ k →
    listVarGoT f b first n r off (some k) tr = listVarGoT f b first n r off none tr
  | 0, off, k, tr, _ => by simp [listVarGoT]
  | r+1, off, k, tr, hk => by
    rw [listVarGoT_succ, listVarGoT_succ]
    cases nextSlice b first n r off with
    | err => rfl
    | panic => rfl
    | ok p =>
      obtain ⟨s, o'⟩ := p
      simp only []
      cases f s with
      | err => rfl
      | panic => rfl
      | ok v =>
        cases k with
        | zero => omega
        | succ k =>
          simp only [pullT, Option.map_none, Option.map_some, Nat.add_sub_cancel]
          rw [goT_budget_ge f b first n r o' k _ (by omega)]

/-- an `ok` from a bounded collection means every announced item fitted -/
theorem goT_ok_budget {α} (f : Bytes → Res α) (b : Bytes) (first n : Nat) :
    ∀ (r off k : Nat) (tr : List Bytes) (vs : List α),
    (listVarGoT f b first n r off (some k) tr).1 = .ok vs → r ≤ k
  | 0, off, k, tr, vs, _ => Nat.zero_le _
  | r+1, off, k, tr, vs, h => by
    rw [listVarGoT_succ] at h
    cases hn : nextSlice b first n r off with
    | err => rw [hn] at h; cases h
    | panic => rw [hn] at h; cases h
    | ok p =>
      obtain ⟨s, o'⟩ := p
      rw [hn] at h
      simp only [] at h
      cases hf : f s with
      | err => rw [hf] at h; cases h
      | panic => rw [hf] at h; cases h
      | ok v =>
        rw [hf] at h
        cases k with
        | zero => simp [pullT] at h
        | succ k =>
          simp only [pullT, Option.map_some, Nat.add_sub_cancel] at h
          obtain ⟨vs', h1, _⟩ := map_cons_ok h
          have := goT_ok_budget f b first n r o' k _ vs' h1
          omega

/-- more items than the collection takes: an error (not a prefix, not a panic) -/
theorem goT_over {α} (f : Bytes → Res α) (b : Bytes) (first n : Nat) :
    ∀ (r off k : Nat) (tr : List Bytes) (vs : List α),
    listVarGo f b first n r off = .ok vs → k < r →
    (listVarGoT f b first n r off (some k) tr).1 = .err
  | 0, off, k, tr, vs, _, hk => by omega
  | r+1, off, k, tr, vs, h, hk => by
    rw [listVarGo_succ] at h
    rw [listVarGoT_succ]
    cases hn : nextSlice b first n r off with
    | err => rfl
    | panic => rw [hn] at h; cases h
    | ok p =>
      obtain ⟨s, o'⟩ := p
      rw [hn] at h
      simp only [] at h ⊢
      cases hf : f s with
      | err => rfl
      | panic => rw [hf] at h; cases h
      | ok v =>
        rw [hf] at h
        obtain ⟨vs', h1, _⟩ := map_cons_ok h
        cases k with
        | zero => simp [pullT]
        | succ k =>
          simp only [pullT, Option.map_some, Nat.add_sub_cancel]
          rw [goT_over f b first n r o' k _ vs' h1 (by omega)]
          rfl

/-- a refusing collection never turns a non-panicking decode into a panic -/
theorem goT_panic {α} (f : Bytes → Res α) (b : Bytes) (first n : Nat) :
    ∀ (r off : Nat) (bud : Option Nat) (tr : List Bytes),
    (listVarGoT f b first n r off bud tr).1 = .panic → listVarGo f b first n r off = .panic
  | 0, off, bud, tr, h => by simp [listVarGoT] at h
  | r+1, off, bud, tr, h => by
    rw [listVarGoT_succ] at h
    rw [listVarGo_succ]
    cases hn : nextSlice b first n r off with
    | err => rw [hn] at h; cases h
    | panic => rfl
    | ok p =>
      obtain ⟨s, o'⟩ := p
      rw [hn] at h
      simp only [] at h ⊢
      cases hf : f s with
      | err => rw [hf] at h; cases h
      | panic => rfl
      | ok v =>
        rw [hf] at h
        simp only []
        have key : ∀ bud', ((listVarGoT f b first n r o' bud' (tr ++ [s])).1.map (v :: ·)) = .panic →
            (listVarGo f b first n r o').map (v :: ·) = .panic := by
          intro bud' h'
          cases hrec : (listVarGoT f b first n r o' bud' (tr ++ [s])).1 with
          | ok x => rw [hrec] at h'; cases h'
          | err => rw [hrec] at h'; cases h'
          | panic => rw [goT_panic f b first n r o' bud' _ hrec]; rfl
        cases bud with
        | none => exact key _ (by simpa [pullT] using h)
        | some k =>
          cases k with
          | zero => simp [pullT] at h
          | succ k => exact key _ (by simpa [pullT] using h)

/-! ### the trace: at most one call per announced item, consecutive slices of the body -/

theorem nextSlice_ok {b : Bytes} {first n r offset : Nat} {s : Bytes} {o' : Nat} (hr : r + 1 ≤ n)
    (h : nextSlice b first n r offset = .ok (s, o')) :
    (r = 0 ∧ s = b.drop offset) ∨
    (offset ≤ o' ∧ o' ≤ b.length ∧ s = (b.drop offset).take (o' - offset)) := by
  unfold nextSlice at h
  by_cases h1 : (n - r == n) = true
  · simp only [h1, ↓reduceIte] at h
    have hr0 : r = 0 := by
      simp only [beq_iff_eq] at h1; omega
    by_cases h2 : offset ≤ b.length
    · simp only [h2, ↓reduceIte, Res.ok.injEq, Prod.mk.injEq] at h
      exact Or.inl ⟨hr0, h.1.symm⟩
    · simp only [h2, ↓reduceIte] at h; cases h
  · simp only [h1, Bool.false_eq_true, ↓reduceIte] at h
    by_cases h2 : (n - r) * 4 > b.length
    · simp only [h2, ↓reduceIte] at h; cases h
    · simp only [h2, ↓reduceIte] at h
      cases hro : readOffset (b.drop ((n - r) * 4)) with
      | none => rw [hro] at h; cases h
      | some next =>
        rw [hro] at h
        simp only [] at h
        cases hs : sanitizeOffset next (some offset) b.length (some first) with
        | none => rw [hs] at h; cases h
        | some o2 =>
          rw [hs] at h
          simp only [] at h
          by_cases h3 : offset ≤ o2 ∧ o2 ≤ b.length
          · simp only [h3, and_self, ↓reduceIte, Res.ok.injEq, Prod.mk.injEq] at h
            obtain ⟨rfl, rfl⟩ := h
            exact Or.inr ⟨h3.1, h3.2, rfl⟩
          · simp only [h3, ↓reduceIte] at h; cases h

theorem nextSlice_prefix {b : Bytes} {first n r offset : Nat} {s : Bytes} {o' : Nat} (hr : r + 1 ≤ n)
    (h : nextSlice b first n r offset = .ok (s, o')) (new : List Bytes) (hl : new.length ≤ r)
    (hp : new.flatten <+: b.drop o') : (s :: new).flatten <+: b.drop offset := by
  rcases nextSlice_ok hr h with ⟨hr0, hs⟩ | ⟨h1, h2, hs⟩
  · subst hr0
    have : new = [] := List.eq_nil_of_length_eq_zero (by omega)
    subst this
    simp [hs]
  · have hsplit : b.drop offset = s ++ b.drop o' := by
      have : b.drop o' = (b.drop offset).drop (o' - offset) := by
        rw [List.drop_drop]; congr 1; omega
      rw [hs, this, List.take_append_drop]
    rw [List.flatten_cons, hsplit]
    exact (List.prefix_append_right_inj s).2 hp

/-- the walk appends at most `r` slices to the trace, and they are consecutive slices of the
    input starting at `offset` -/
theorem goT_trace {α} (f : Bytes → Res α) (b : Bytes) (first n : Nat) :
    ∀ (r off : Nat) (bud : Option Nat) (tr : List Bytes), r ≤ n →
    ∃ new, (listVarGoT f b first n r off bud tr).2 = tr ++ new ∧ new.length ≤ r ∧
      new.flatten <+: b.drop off
  | 0, off, bud, tr, _ => ⟨[], by simp [listVarGoT]⟩
  | r+1, off, bud, tr, hr => by
    rw [listVarGoT_succ]
    cases hn : nextSlice b first n r off with
    | err => exact ⟨[], by simp⟩
    | panic => exact ⟨[], by simp⟩
    | ok p =>
      obtain ⟨s, o'⟩ := p
      simp only []
      have one : ([s] : List Bytes).flatten <+: b.drop off :=
        nextSlice_prefix hr hn [] (Nat.zero_le _) (by simp)
      cases hf : f s with
      | err => exact ⟨[s], rfl, by simp, one⟩
      | panic => exact ⟨[s], rfl, by simp, one⟩
      | ok v =>
        simp only []
        have key : ∀ bud', ∃ new, (listVarGoT f b first n r o' bud' (tr ++ [s])).2 = tr ++ new ∧
            new.length ≤ r + 1 ∧ new.flatten <+: b.drop off := by
          intro bud'
          obtain ⟨new, h1, h2, h3⟩ := goT_trace f b first n r o' bud' (tr ++ [s]) (by omega)
          exact ⟨s :: new, by rw [h1]; simp, by simp; omega, nextSlice_prefix hr hn new h2 h3⟩
        cases bud with
        | none => simpa [pullT] using key none
        | some k =>
          cases k with
          | zero => exact ⟨[s], by simp [pullT], by simp, one⟩
          | succ k => simpa [pullT] using key (some k)


/-! ### the header checks -/

theorem listVar_header {α} (f : Bytes → Res α) (b : Bytes) (m : Option Nat) :
    listVar f b m =
      if b.isEmpty then .ok []
      else match listHeader b m with
        | none => .err
        | some first => listVarGo f b first (first / 4) (first / 4) first := by
  unfold listVar listHeader
  by_cases he : b.isEmpty = true
  · simp only [he, ↓reduceIte]
  · simp only [he, Bool.false_eq_true, ↓reduceIte]
    cases readOffset b with
    | none => rfl
    | some first =>
      simp only []
      cases sanitizeOffset first none b.length (some first) with
      | none => rfl
      | some o =>
        simp only []
        by_cases h1 : (first % 4 != 0 || decide (first < 4)) = true
        · simp only [h1, ↓reduceIte]
        · simp only [h1, Bool.false_eq_true, ↓reduceIte]
          by_cases h2 : (m.any fun k => decide (first / 4 > k)) = true
          · simp only [h2, ↓reduceIte]
          · simp only [h2, Bool.false_eq_true, ↓reduceIte]

/-- result and trace of the walk for a collection kind, once the header checks have passed -/
def walkT {α} (f : Bytes → Res α) (b : Bytes) (first : Nat) : Coll → Res (List α) × Trace
  | .refusing => (.err, {})
  | .vec =>
      ((listVarGoT f b first (first / 4) (first / 4) first none []).1,
       { calls := (listVarGoT f b first (first / 4) (first / 4) first none []).2,
         sizeHint := some (first / 4) })
  | .bounded k =>
      ((listVarGoT f b first (first / 4) (first / 4) first (some k) []).1,
       { calls := (listVarGoT f b first (first / 4) (first / 4) first (some k) []).2,
         sizeHint := some (first / 4) })

theorem listVarT_header {α} (f : Bytes → Res α) (b : Bytes) (m : Option Nat) (c : Coll) :
    listVarT f b m c =
      if b.isEmpty then (if c = .refusing then (.err, {}) else (.ok [], { sizeHint := some 0 }))
      else match listHeader b m with
        | none => (.err, {})
        | some first => walkT f b first c := by
  unfold listVarT listHeader
  by_cases he : b.isEmpty = true
  · simp only [he, ↓reduceIte]
    cases c <;> simp
  · simp only [he, Bool.false_eq_true, ↓reduceIte]
    cases readOffset b with
    | none => rfl
    | some first =>
      simp only []
      cases sanitizeOffset first none b.length (some first) with
      | none => rfl
      | some o =>
        simp only []
        by_cases h1 : (first % 4 != 0 || decide (first < 4)) = true
        · simp only [h1, ↓reduceIte]
        · simp only [h1, Bool.false_eq_true, ↓reduceIte]
          by_cases h2 : (m.any fun k => decide (first / 4 > k)) = true
          · simp only [h2, ↓reduceIte]
          · simp only [h2, Bool.false_eq_true, ↓reduceIte]
            cases c <;> rfl

theorem listHeader_some {b : Bytes} {m : Option Nat} {first : Nat} (h : listHeader b m = some first) :
    readOffset b = some first ∧ 4 ≤ first ∧ first % 4 = 0 ∧ first ≤ b.length ∧
      (∀ k, m = some k → first / 4 ≤ k) := by
  unfold listHeader at h
  cases hro : readOffset b with
  | none => rw [hro] at h; cases h
  | some fst =>
    rw [hro] at h
    simp only [] at h
    cases hs : sanitizeOffset fst none b.length (some fst) with
    | none => rw [hs] at h; cases h
    | some o =>
      rw [hs] at h
      simp only [] at h
      by_cases h1 : (fst % 4 != 0 || decide (fst < 4)) = true
      · simp only [h1, ↓reduceIte] at h; cases h
      · simp only [h1, Bool.false_eq_true, ↓reduceIte] at h
        by_cases h2 : (m.any fun k => decide (fst / 4 > k)) = true
        · simp only [h2, ↓reduceIte] at h; cases h
        · simp only [h2, Bool.false_eq_true, ↓reduceIte, Option.some.injEq] at h
          subst h
          simp only [bne_iff_ne, ne_eq, Bool.or_eq_true, decide_eq_true_eq, not_or,
            Decidable.not_not, Nat.not_lt] at h1
          have hfl : fst ≤ b.length := by
            unfold sanitizeOffset at hs
            simp only [Option.any_some, Nat.lt_irrefl, decide_false, Bool.false_eq_true, ↓reduceIte,
              Option.isNone_none, bne_self_eq_false, Bool.and_false, Option.any_none] at hs
            split at hs
            · cases hs
            · omega
          refine ⟨rfl, h1.2, h1.1, hfl, ?_⟩
          intro k hk
          subst hk
          simpa using h2

theorem announced_of_header {b : Bytes} {m : Option Nat} {first : Nat} (h : listHeader b m = some first) :
    announced b = some (first / 4) := by
  obtain ⟨hro, h4, _, hl, _⟩ := listHeader_some h
  have : b.isEmpty = false := by
    cases b with
    | nil => simp at hl; omega
    | cons _ _ => rfl
  simp [announced, this, hro]

/-- the length limit only adds one comparison against the announced count -/
theorem listHeader_limit (b : Bytes) (max : Nat) :
    listHeader b (some max) =
      if (announced b).any (fun n => decide (n > max)) then none else listHeader b none := by
  unfold listHeader announced
  by_cases he : b.isEmpty = true
  · have : b = [] := by simpa using he
    subst this
    simp [readOffset]
  · simp only [he, Bool.false_eq_true, ↓reduceIte]
    cases readOffset b with
    | none => simp
    | some first =>
      simp only [Option.map_some, Option.any_some, Option.any_none]
      cases sanitizeOffset first none b.length (some first) with
      | none => simp
      | some o =>
        simp only []
        by_cases h1 : (first % 4 != 0 || decide (first < 4)) = true
        · simp only [h1, ↓reduceIte]; simp
        · simp only [h1, Bool.false_eq_true, ↓reduceIte]

end Ssz.LT