import SszProofs.Lemmas.Preds
import SszProofs.Lemmas.Append
import SszProofs.Lemmas.Key2
import SszProofs.Lemmas.ListVarProof
import SszProofs.Lemmas.BitFacts
/-
  Size facts of the codec (lemma library of property C07). Helper lemmas live in `namespace Ssz.Size`
  (so that they cannot clash with helpers of files importing this one); the two interface theorems
  are in `namespace Ssz`.
  `encode_fixed_length` / `decode_fixed_length` are the two statements other proofs rely on; the rest
  are the helper lemmas: the variable-size placeholder length, the length of a container encoding as
  a sum over its fields, the length of a list encoding as a sum over its items.
-/
set_option linter.unusedSimpArgs false
namespace Ssz.Size

/-! ### `fixedLen` of variable-size types, registrations -/

/-- `ssz_fixed_len()` of a variable-size type is `BYTES_PER_LENGTH_OFFSET` -/
theorem variable_fixedLen (t : Ty) (h : t.isFixed = false) : t.fixedLen = 4 := by
  cases t <;> simp [Ty.isFixed, Ty.fixedLen] at h ⊢ <;> simp [h]

/-- the registration of a type occupies `ssz_fixed_len()` bytes of the fixed part, whatever the type -/
theorem reg_size (t : Ty) : t.reg.size = t.fixedLen := by
  unfold Ty.reg
  cases h : t.isFixed
  · simp [Reg.size, variable_fixedLen t h]
  · simp [Reg.size]

/-- the fixed part of a container is as long as the sum of the `ssz_fixed_len()` of its fields -/
theorem fixedSize_regsOf (ts : List Ty) : fixedSize (regsOf ts) = sumFixedLen ts := by
  induction ts with
  | nil => simp [regsOf, fixedSize, sumFixedLen]
  | cons t ts ih => simp [regsOf, fixedSize, sumFixedLen, reg_size, ih]

theorem encodeLength_length (n : Nat) : (encodeLength n).length = 4 := by
  simp [encodeLength, le_length]

/-! ### length of a container / tuple encoding as a sum over the fields -/

/-- per-field contribution to the encoding: the field itself when fixed-size, otherwise a four-byte
    offset word plus the field -/
def encLenFields : List Ty → List Val → Nat
  | t :: ts, v :: vs =>
      (if t.isFixed then (encode t v).length else 4 + (encode t v).length) + encLenFields ts vs
  | _, _ => 0

theorem fpart_vpart_length : ∀ (ts : List Ty) (vs : List Val) (o : Nat),
    (fpart (regsOf ts) (encodeEach ts vs) o).length + (vpart (regsOf ts) (encodeEach ts vs)).length
      = encLenFields ts vs
  | [], vs, o => by cases vs <;> simp [regsOf, encodeEach, fpart, vpart, encLenFields]
  | t :: ts, [], o => by cases h : t.isFixed <;> simp [regsOf, Ty.reg, h, encodeEach, fpart, vpart, encLenFields]
  | t :: ts, v :: vs, o => by
      cases h : t.isFixed
      · have ih := fpart_vpart_length ts vs (o + (encode t v).length)
        simp only [regsOf, Ty.reg, h, encodeEach, fpart, vpart, encLenFields, List.length_append,
          encodeLength_length, Bool.false_eq_true, ↓reduceIte]
        omega
      · have ih := fpart_vpart_length ts vs o
        simp only [regsOf, Ty.reg, h, encodeEach, fpart, vpart, encLenFields, List.length_append,
          ↓reduceIte]
        omega

theorem encode_tuple_length (ts : List Ty) (vs : List Val) :
    (encode (.tuple ts) (.tuple vs)).length = encLenFields ts vs := by
  simp only [encode, sszAppend]
  rw [appendFields_eq, go_eq]
  simp only [Enc.container, List.nil_append, List.length_append]
  exact fpart_vpart_length ts vs _

theorem encode_container_length (ts : List Ty) (vs : List Val) :
    (encode (.container ts) (.tuple vs)).length = encLenFields ts vs := by
  simp only [encode, sszAppend]
  rw [appendFields_eq, go_eq]
  simp only [Enc.container, List.nil_append, List.length_append]
  exact fpart_vpart_length ts vs _

/-! ### length of a list encoding as a sum over the items -/

def sumLens (l : List Bytes) : Nat := (l.map List.length).sum

theorem flatten_length_sumLens (l : List Bytes) : l.flatten.length = sumLens l := by
  simp [sumLens, List.length_flatten]

theorem appendAll_eq (t : Ty) : ∀ (vs : List Val) (buf : Bytes),
    appendAll t vs buf = buf ++ (vs.map (encode t)).flatten
  | [], buf => by simp [appendAll]
  | v :: vs, buf => by
      simp only [appendAll, List.map_cons, List.flatten_cons]
      rw [appendAll_eq t vs, append_prefix t v buf]
      simp [encode]

/-- list of fixed-size items: the items one after the other -/
theorem encode_listFixed_length (c : CKind) (t : Ty) (vs : List Val) (h : t.isFixed = true) :
    (encode (.list c t) (.list vs)).length = sumLens (vs.map (encode t)) := by
  simp only [encode, sszAppend, h, ↓reduceIte]
  rw [appendAll_eq, List.nil_append, flatten_length_sumLens]

/-- list of variable-size items: one offset word per item, then the items -/
theorem encode_listVar_length (c : CKind) (t : Ty) (vs : List Val) (h : t.isFixed = false) :
    (encode (.list c t) (.list vs)).length = sumLens (vs.map (encode t)) + 4 * vs.length := by
  simp only [encode, sszAppend, h, Bool.false_eq_true, ↓reduceIte]
  rw [appendSeq_eq, go_eq]
  have hl : vs.length = (vs.map (encode t)).length := by simp
  rw [hl, fpart_var, vpart_var]
  simp only [Enc.container, List.nil_append, List.length_append, hdr_length, flatten_length_sumLens]
  omega

theorem sumLens_const (n : Nat) : ∀ (l : List Bytes), (∀ x ∈ l, x.length = n) → sumLens l = n * l.length
  | [], _ => by simp [sumLens]
  | x :: xs, h => by
      have ih := sumLens_const n xs (fun y hy => h y (List.mem_cons_of_mem _ hy))
      have hx := h x (List.mem_cons_self ..)
      simp only [sumLens, List.map_cons, List.sum_cons, List.length_cons] at ih ⊢
      rw [ih, hx, Nat.mul_succ]; omega

/-! ### fixed-size types: the encoder -/

mutual
theorem encode_fixed_length_aux : ∀ (t : Ty) (v : Val), t.isFixed = true → hasType t v = true →
    (encode t v).length = t.fixedLen
  | .uint k, v, _, ht => by
      cases v <;> simp [hasType] at ht
      simp [encode, sszAppend, le_length, Ty.fixedLen]
  | .bool, v, _, ht => by
      cases v <;> simp [hasType] at ht
      simp [encode, sszAppend, Ty.fixedLen]
  | .nonZeroUsize, v, _, ht => by
      cases v <;> simp [hasType] at ht
      simp [encode, sszAppend, le_length, Ty.fixedLen]
  | .bytesN n, v, _, ht => by
      cases v <;> simp [hasType] at ht
      simp [encode, sszAppend, Ty.fixedLen, ht]
  | .tagEnum n, v, _, ht => by
      cases v <;> simp [hasType] at ht
      simp [encode, sszAppend, Ty.fixedLen]
  | .bitvector n, v, _, ht => by
      cases v <;> simp [hasType] at ht
      simp [encode, sszAppend, Ty.fixedLen, bitsBytes_length_fixed _ _ ht]
  | .tuple ts, v, hf, ht => by
      cases v <;> simp [hasType] at ht
      rename_i vs
      simp only [Ty.isFixed] at hf
      rw [encode_tuple_length, encLenFields_fixed ts vs hf ht]
      simp [Ty.fixedLen, hf]
  | .container ts, v, hf, ht => by
      cases v <;> simp [hasType] at ht
      rename_i vs
      simp only [Ty.isFixed] at hf
      rw [encode_container_length, encLenFields_fixed ts vs hf ht]
      simp [Ty.fixedLen, hf]
  | .byteList, _, hf, _ => by simp [Ty.isFixed] at hf
  | .list _ _, _, hf, _ => by simp [Ty.isFixed] at hf
  | .option _, _, hf, _ => by simp [Ty.isFixed] at hf
  | .union _, _, hf, _ => by simp [Ty.isFixed] at hf
  | .transparentEnum _, _, hf, _ => by simp [Ty.isFixed] at hf
  | .bitlist _, _, hf, _ => by simp [Ty.isFixed] at hf
  | .bitvectorDyn, _, hf, _ => by simp [Ty.isFixed] at hf
  | .legacyOption _, _, hf, _ => by simp [Ty.isFixed] at hf
/-- all fields fixed-size: no offset words, the encoding has the advertised total length -/
theorem encLenFields_fixed : ∀ (ts : List Ty) (vs : List Val), allFixed ts = true → hasTypes ts vs = true →
    encLenFields ts vs = sumFixedLen ts
  | [], [], _, _ => by simp [encLenFields, sumFixedLen]
  | [], _ :: _, _, ht => by simp [hasTypes] at ht
  | _ :: _, [], _, ht => by simp [hasTypes] at ht
  | t :: ts, v :: vs, hf, ht => by
      simp only [allFixed, Bool.and_eq_true] at hf
      simp only [hasTypes, Bool.and_eq_true] at ht
      simp only [encLenFields, sumFixedLen, hf.1, ↓reduceIte]
      rw [encode_fixed_length_aux t v hf.1 ht.1, encLenFields_fixed ts vs hf.2 ht.2]
end

/-! ### fixed-size types: the decoder -/

theorem vpart_allFixed : ∀ (ts : List Ty) (its : List Bytes), allFixed ts = true →
    vpart (regsOf ts) its = []
  | [], its, _ => by cases its <;> simp [regsOf, vpart]
  | t :: ts, [], hf => by
      simp only [allFixed, Bool.and_eq_true] at hf
      simp [regsOf, Ty.reg, hf.1, vpart]
  | t :: ts, it :: its, hf => by
      simp only [allFixed, Bool.and_eq_true] at hf
      simp [regsOf, Ty.reg, hf.1, vpart, vpart_allFixed ts its hf.2]

/-- the builder driven with fixed-size registrations only accepts exactly the sum of their lengths -/
theorem build_allFixed_length (ts : List Ty) (b : Bytes) (items : List Bytes)
    (hf : allFixed ts = true) (h : build (regsOf ts) b = .ok items) : b.length = sumFixedLen ts := by
  obtain ⟨he, hfit⟩ := build_sound _ _ _ h
  rw [encodeItems_eq, vpart_allFixed ts items hf, List.append_nil] at he
  rw [← he, fpart_length _ _ _ hfit, fixedSize_regsOf]

end Ssz.Size

namespace Ssz
open Size

/-- every well-typed value of a fixed-size type encodes to exactly the advertised length -/
theorem encode_fixed_length (t : Ty) (v : Val) (hf : t.isFixed = true) (ht : hasType t v = true) :
    (encode t v).length = t.fixedLen := encode_fixed_length_aux t v hf ht

/-- the decoder of a fixed-size type accepts only inputs of the advertised length -/
theorem decode_fixed_length (t : Ty) (b : Bytes) (v : Val) (hf : t.isFixed = true)
    (h : decode t b = .ok v) : b.length = t.fixedLen := by
  cases t with
  | uint k =>
      simp only [decode] at h
      by_cases hk : b.length = k
      · simpa [Ty.fixedLen] using hk
      · simp [hk] at h
  | bool =>
      match b, h with
      | [], h => simp [decode] at h
      | [_], _ => simp [Ty.fixedLen]
      | _ :: _ :: _, h => simp [decode] at h
  | nonZeroUsize =>
      simp only [decode] at h
      by_cases hk : b.length = 8
      · simpa [Ty.fixedLen] using hk
      · simp [hk] at h
  | bytesN n =>
      simp only [decode] at h
      by_cases hk : b.length = n
      · simpa [Ty.fixedLen] using hk
      · simp [hk] at h
  | tagEnum n =>
      match b, h with
      | [], h => simp [decode] at h
      | [_], _ => simp [Ty.fixedLen]
      | _ :: _ :: _, h => simp [decode] at h
  | bitvector n =>
      simp only [decode] at h
      simpa [Ty.fixedLen] using decodeBits_fixed_length n b v h
  | tuple ts =>
      simp only [Ty.isFixed] at hf
      simp only [decode] at h
      cases hb : build (regsOf ts) b with
      | ok items => simp [Ty.fixedLen, hf, build_allFixed_length ts b items hf hb]
      | err => rw [hb] at h; simp at h
      | panic => rw [hb] at h; simp at h
  | container ts =>
      simp only [Ty.isFixed] at hf
      simp only [decode, hf, ↓reduceIte] at h
      by_cases hk : b.length = sumFixedLen ts
      · simpa [Ty.fixedLen, hf] using hk
      · simp [hk] at h
  | byteList => simp [Ty.isFixed] at hf
  | list _ _ => simp [Ty.isFixed] at hf
  | option _ => simp [Ty.isFixed] at hf
  | union _ => simp [Ty.isFixed] at hf
  | transparentEnum _ => simp [Ty.isFixed] at hf
  | bitlist _ => simp [Ty.isFixed] at hf
  | bitvectorDyn => simp [Ty.isFixed] at hf
  | legacyOption _ => simp [Ty.isFixed] at hf

end Ssz
