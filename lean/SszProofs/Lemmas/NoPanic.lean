import SszModel.Codec
import SszProofs.Lemmas.ListVarProof
/-
  Helper lemmas for C05 (no panic on untrusted input).

  In the model every Rust panic site is an explicit `.panic` result, so "never panics" is the
  statement that `.panic` is unreachable.  This file proves it for the generic pieces
  (`mapRes`, `chunks`, `listVar`, `listVarT`, the builder protocol) and then for `decode` over the
  whole type algebra, by recursion over `Ty`.

  The byte-parsing helpers `readOffset`, `splitUnionBytes`, `sanitizeOffset`, `unionSelectorNew`
  (Offset.lean) return `Option`: they have no panic outcome by their type, nothing to prove.
-/
set_option linter.unusedSimpArgs false
namespace Ssz.NP
/-! ### generic combinators -/

theorem Res.map_ne_panic {α β} (f : α → β) (r : Res α) (h : r ≠ .panic) : r.map f ≠ .panic := by
  cases r with
  | ok a => simp [Res.map]
  | err => simp [Res.map]
  | panic => exact absurd rfl h

theorem Res.ne_panic_of_map {α β} (f : α → β) (r : Res α) (h : r.map f ≠ .panic) : r ≠ .panic := by
  intro hr; rw [hr] at h; exact h rfl

theorem Res.ofOption_ne_panic {α} (o : Option α) : Res.ofOption o ≠ .panic := by
  cases o <;> simp [Res.ofOption]

theorem mapRes_no_panic {α β} (f : α → Res β) (hf : ∀ a, f a ≠ .panic) :
    ∀ l : List α, mapRes f l ≠ .panic
  | [] => by simp [mapRes]
  | a :: as => by
      have ih := mapRes_no_panic f hf as
      have ha := hf a
      simp only [mapRes]
      cases hfa : f a with
      | ok v =>
        cases hm : mapRes f as with
        | ok vs => simp
        | err => simp
        | panic => exact absurd hm ih
      | err => simp
      | panic => exact absurd hfa ha

/-- `slice.chunks(n)` panics exactly for `n = 0` -/
theorem chunks_no_panic (n : Nat) (b : Bytes) (hn : n ≠ 0) : chunks n b ≠ .panic := by
  simp [chunks, hn]

theorem chunks_zero_panic (b : Bytes) : chunks 0 b = .panic := by simp [chunks]

/-! ### variable-length list decoding, any limit -/

/-- a successful `sanitizeOffset` never returns more than the slice length -/
theorem sanitize_le_len {off : Nat} {prev : Option Nat} {len : Nat} {nf : Option Nat} {o : Nat}
    (h : sanitizeOffset off prev len nf = some o) : o = off ∧ off ≤ len := by
  unfold sanitizeOffset at h
  split at h
  · cases h
  · split at h
    · cases h
    · split at h
      · cases h
      · split at h
        · cases h
        · injection h with h; exact ⟨h.symm, by omega⟩

/-- the offset walk never indexes outside the slice as long as the offset table (`4 * n` bytes)
    lies inside it, whatever the item decoder returns (short of panicking itself) -/
theorem listVarGo_no_panic {α} (f : Bytes → Res α) (hf : ∀ s, f s ≠ .panic) (b : Bytes)
    (first n : Nat) (hn : 4 * n ≤ b.length) :
    ∀ (r offset : Nat), listVarGo f b first n r offset ≠ .panic
  | 0, offset => by simp [listVarGo]
  | r+1, offset => by
      rw [listVarGo]
      by_cases hi : (n - r == n) = true
      · simp only [hi, ↓reduceIte]
        by_cases ho : offset ≤ b.length
        · simp only [ho, ↓reduceIte]
          cases hv : f (b.drop offset) with
          | ok v =>
            simp only
            cases hrec : listVarGo f b first n r offset with
            | ok vs => simp
            | err => simp
            | panic => exact absurd hrec (listVarGo_no_panic f hf b first n hn r offset)
          | err => simp
          | panic => exact absurd hv (hf _)
        · simp [ho]
      · have hlt : n - r < n := by
          have : n - r ≠ n := by simpa using hi
          omega
        have hidx : ¬ ((n - r) * 4 > b.length) := by omega
        simp only [hi, Bool.false_eq_true, ↓reduceIte, hidx]
        cases hro : readOffset (b.drop ((n - r) * 4)) with
        | none => simp
        | some next =>
          simp only
          cases hs : sanitizeOffset next (some offset) b.length (some first) with
          | none => simp
          | some off' =>
            simp only
            by_cases hc : offset ≤ off' ∧ off' ≤ b.length
            · simp only [hc, and_self, ↓reduceIte]
              cases hv : f ((b.drop offset).take (off' - offset)) with
              | ok v =>
                simp only
                cases hrec : listVarGo f b first n r off' with
                | ok vs => simp
                | err => simp
                | panic => exact absurd hrec (listVarGo_no_panic f hf b first n hn r off')
              | err => simp
              | panic => exact absurd hv (hf _)
            · simp [hc]

theorem listVar_no_panic {α} (f : Bytes → Res α) (hf : ∀ s, f s ≠ .panic) (b : Bytes)
    (m : Option Nat) : listVar f b m ≠ .panic := by
  unfold listVar
  by_cases he : b.isEmpty = true
  · simp [he]
  · simp only [he, Bool.false_eq_true, ↓reduceIte]
    cases hro : readOffset b with
    | none => simp
    | some first =>
      simp only
      cases hs : sanitizeOffset first none b.length (some first) with
      | none => simp
      | some o =>
        simp only
        have hle := (sanitize_le_len hs).2
        by_cases h4 : (first % 4 != 0 || first < 4) = true
        · simp [h4]
        · simp only [h4, Bool.false_eq_true, ↓reduceIte]
          by_cases hm : (m.any fun m => decide (first / 4 > m)) = true
          · simp [hm]
          · simp only [hm, Bool.false_eq_true, ↓reduceIte]
            exact listVarGo_no_panic f hf b first (first / 4) (by omega) _ _

/-- traced walk: same argument, for every budget and accumulated trace -/
theorem listVarGoT_no_panic {α} (f : Bytes → Res α) (hf : ∀ s, f s ≠ .panic) (b : Bytes)
    (first n : Nat) (hn : 4 * n ≤ b.length) :
    ∀ (r offset : Nat) (budget : Option Nat) (tr : List Bytes),
      (listVarGoT f b first n r offset budget tr).1 ≠ .panic
  | 0, offset, budget, tr => by simp [listVarGoT]
  | r+1, offset, budget, tr => by
      have cont : ∀ (slice : Bytes) (off' : Nat),
          (match f slice with
            | .ok v =>
              (match budget with
               | some 0 => ((.err : Res (List α)), tr ++ [slice])
               | _ =>
                let (res, tr') := listVarGoT f b first n r off' (budget.map (· - 1)) (tr ++ [slice])
                (match res with | .ok vs => (.ok (v :: vs), tr') | .err => (.err, tr') | .panic => (.panic, tr')))
            | .err => (.err, tr ++ [slice])
            | .panic => (.panic, tr ++ [slice])).1 ≠ .panic := by
        intro slice off'
        cases hv : f slice with
        | ok v =>
          simp only
          have ih := listVarGoT_no_panic f hf b first n hn r off' (budget.map (· - 1)) (tr ++ [slice])
          cases budget with
          | none =>
            simp only
            revert ih
            cases listVarGoT f b first n r off' (Option.map (· - 1) none) (tr ++ [slice]) with
            | mk res tr' => cases res <;> simp
          | some k =>
            cases k with
            | zero => simp
            | succ k =>
              simp only
              revert ih
              cases listVarGoT f b first n r off' (Option.map (· - 1) (some (k+1))) (tr ++ [slice]) with
              | mk res tr' => cases res <;> simp
        | err => simp
        | panic => exact absurd hv (hf _)
      rw [listVarGoT]
      by_cases hi : (n - r == n) = true
      · simp only [hi, ↓reduceIte]
        by_cases ho : offset ≤ b.length
        · simp only [ho, ↓reduceIte]
          exact cont _ _
        · simp [ho]
      · have hlt : n - r < n := by
          have : n - r ≠ n := by simpa using hi
          omega
        have hidx : ¬ ((n - r) * 4 > b.length) := by omega
        simp only [hi, Bool.false_eq_true, ↓reduceIte, hidx]
        cases hro : readOffset (b.drop ((n - r) * 4)) with
        | none => simp
        | some next =>
          simp only
          cases hs : sanitizeOffset next (some offset) b.length (some first) with
          | none => simp
          | some off' =>
            simp only
            by_cases hc : offset ≤ off' ∧ off' ≤ b.length
            · simp only [hc, and_self, ↓reduceIte]
              exact cont _ _
            · simp [hc]

theorem listVarT_no_panic {α} (f : Bytes → Res α) (hf : ∀ s, f s ≠ .panic) (b : Bytes)
    (m : Option Nat) (c : Coll) : (listVarT f b m c).1 ≠ .panic := by
  unfold listVarT
  by_cases he : b.isEmpty = true
  · simp only [he, ↓reduceIte]
    cases c <;> simp
  · simp only [he, Bool.false_eq_true, ↓reduceIte]
    cases hro : readOffset b with
    | none => simp
    | some first =>
      simp only
      cases hs : sanitizeOffset first none b.length (some first) with
      | none => simp
      | some o =>
        simp only
        have hle := (sanitize_le_len hs).2
        by_cases h4 : (first % 4 != 0 || first < 4) = true
        · simp [h4]
        · simp only [h4, Bool.false_eq_true, ↓reduceIte]
          by_cases hm : (m.any fun m => decide (first / 4 > m)) = true
          · simp [hm]
          · simp only [hm, Bool.false_eq_true, ↓reduceIte]
            have hn : 4 * (first / 4) ≤ b.length := by omega
            cases c with
            | refusing => simp
            | vec =>
              simp only
              exact listVarGoT_no_panic f hf b first (first / 4) hn _ _ _ _
            | bounded k =>
              simp only
              exact listVarGoT_no_panic f hf b first (first / 4) hn _ _ _ _

/-! ### the decoder builder, used as documented -/

/-- `decoder.decode_next_with(f)?` once per item function, in order: the documented way to consume
    an `SszDecoder` (`items.remove(0)` panics when called more often than items were registered) -/
def decodeAllWith {α} : List (Bytes → Res α) → List Bytes → Res (List α)
  | [], _ => .ok []
  | f :: fs, items => match decodeNextWith items f with
    | .ok (a, rest) => (decodeAllWith fs rest).map (a :: ·)
    | .err => .err
    | .panic => .panic

theorem itemsFit_length : ∀ (regs : List Reg) (items : List Bytes),
    itemsFit regs items = true → items.length = regs.length
  | [], [], _ => rfl
  | [], _ :: _, h => by simp [itemsFit] at h
  | .fixed n :: rs, [], h => by simp [itemsFit] at h
  | .var :: rs, [], h => by simp [itemsFit] at h
  | .fixed n :: rs, it :: its, h => by
      simp only [itemsFit, Bool.and_eq_true] at h
      simp [itemsFit_length rs its h.2]
  | .var :: rs, it :: its, h => by
      simp only [itemsFit] at h
      simp [itemsFit_length rs its h]

theorem build_length (regs : List Reg) (b : Bytes) (items : List Bytes)
    (h : build regs b = .ok items) : items.length = regs.length :=
  itemsFit_length regs items (build_sound regs b items h).2

theorem decodeNextWith_no_panic {α} (items : List Bytes) (f : Bytes → Res α)
    (hne : items ≠ []) (hf : ∀ s, f s ≠ .panic) : decodeNextWith items f ≠ .panic := by
  cases items with
  | nil => exact absurd rfl hne
  | cons it rest =>
    simp only [decodeNextWith]
    cases hv : f it with
    | ok a => simp
    | err => simp
    | panic => exact absurd hv (hf it)

theorem decodeAllWith_no_panic {α} : ∀ (fs : List (Bytes → Res α)) (items : List Bytes),
    fs.length ≤ items.length → (∀ f ∈ fs, ∀ s, f s ≠ .panic) → decodeAllWith fs items ≠ .panic
  | [], items, _, _ => by simp [decodeAllWith]
  | f :: fs, [], hl, _ => by simp at hl
  | f :: fs, it :: rest, hl, hf => by
      simp only [decodeAllWith, decodeNextWith]
      cases hv : f it with
      | ok a =>
        simp only
        exact Res.map_ne_panic _ _ (decodeAllWith_no_panic fs rest (by simpa using hl)
          (fun g hg => hf g (List.mem_cons_of_mem _ hg)))
      | err => simp
      | panic => exact absurd hv (hf f (List.mem_cons_self) it)

/-- calling `decode_next_with` once more than items were registered does panic -/
theorem decodeAllWith_overrun {α} (f : Bytes → Res α) : decodeAllWith [f] [] = .panic := rfl

/-! ### bitfield byte constructors -/

theorem fromRawBytes_some {bytes : Bytes} {n : Nat} {bf : BF} (h : fromRawBytes bytes n = some bf) :
    bf.bytes = bytes ∧ bf.len = n := by
  unfold fromRawBytes at h
  split at h
  · split at h
    · injection h with h; subst h; simp [*]
    · cases h
  · split at h
    · cases h
    · split at h
      · cases h
      · split at h
        · injection h with h; subst h; simp
        · cases h

/-- `BitList::from_bytes`: the `expect("Bit has been confirmed to exist")` cannot fire, because the
    preceding test `len / 8 + 1 == bytes.len()` puts bit `len` inside the byte array.
    Proven directly (does not go through the interface file). -/
theorem fromBytesV_no_panic (N : Nat) (b : Bytes) : BF.fromBytesV N b ≠ .panic := by
  unfold BF.fromBytesV
  cases hraw : fromRawBytes b (b.length * 8) with
  | none => simp
  | some init =>
    obtain ⟨hb, hl⟩ := fromRawBytes_some hraw
    simp only
    cases hh : init.highestSetBit with
    | none => simp
    | some len =>
      simp only
      by_cases hlen : len / 8 + 1 ≠ b.length
      · simp [hlen]
      · simp only [hlen, ↓reduceIte]
        by_cases hN : len ≤ N
        · simp only [hN, ↓reduceIte]
          have hlt : len < init.len := by rw [hl]; omega
          have hidx : len / 8 < init.bytes.length := by rw [hb]; omega
          have hset : ∃ c, init.set len false = some c := by
            unfold BF.set
            simp only [hlt, ↓reduceIte]
            rw [List.getElem?_eq_getElem hidx]
            exact ⟨_, rfl⟩
          obtain ⟨c, hc⟩ := hset
          rw [hc]
          exact Res.ofOption_ne_panic _
        · simp [hN]

/-- `from_bytes` of all three behaviours (bitlist, bitvector, dynamic bitvector), proven directly -/
theorem fromBytes_no_panic (k : BKind) (b : Bytes) : BF.fromBytes k b ≠ .panic := by
  match k with
  | .variable N => exact fromBytesV_no_panic N b
  | .fixed N => exact Res.ofOption_ne_panic _
  | .dynamic => exact Res.ofOption_ne_panic _

/-- SSZ decoding of a bitfield value: direct counterpart of the interface lemma `bits_no_panic`
    (same statement), so that `decode_ne_panic` below does not depend on the still unproven interface file -/
theorem decodeBits_ne_panic (k : BKind) (b : Bytes) : decodeBits k b ≠ .panic :=
  Res.map_ne_panic _ _ (fromBytes_no_panic k b)

/-! ### `decode`, for every type -/

theorem regsOf_length : ∀ ts : List Ty, (regsOf ts).length = ts.length
  | [] => rfl
  | _ :: ts => by simp [regsOf, regsOf_length ts]

mutual
theorem decode_ne_panic : ∀ (t : Ty) (b : Bytes), decode t b ≠ .panic
  | .uint k, b => by simp only [decode]; split <;> simp
  | .bool, b => by
      simp only [decode]
      split
      · split
        · simp
        · split <;> simp
      · simp
  | .nonZeroUsize, b => by
      simp only [decode]
      split
      · split <;> simp
      · simp
  | .bytesN n, b => by simp only [decode]; split <;> simp
  | .byteList, b => by simp [decode]
  | .tagEnum n, b => by
      simp only [decode]
      split
      · split <;> simp
      · simp
  | .bitvector n, b => by simp only [decode]; exact decodeBits_ne_panic _ b
  | .bitlist n, b => by simp only [decode]; exact decodeBits_ne_panic _ b
  | .bitvectorDyn, b => by simp only [decode]; exact decodeBits_ne_panic _ b
  | .option t, b => by
      simp only [decode]
      cases splitUnionBytes b with
      | none => simp
      | some p =>
        obtain ⟨s, body⟩ := p
        simp only
        split
        · split <;> simp
        · split
          · exact Res.map_ne_panic _ _ (decode_ne_panic t body)
          · simp
  | .legacyOption t, b => by
      simp only [decode]
      split
      · simp
      · split
        · split <;> simp
        · split
          · exact Res.map_ne_panic _ _ (decode_ne_panic t _)
          · simp
  | .list c t, b => by
      simp only [decode]
      split
      · simp
      · split
        · split
          · simp
          · rename_i hz
            have hc := chunks_no_panic t.fixedLen b hz
            cases hch : chunks t.fixedLen b with
            | ok cs =>
              simp only
              exact Res.map_ne_panic _ _ (mapRes_no_panic (decode t) (fun s => decode_ne_panic t s) cs)
            | err => simp
            | panic => exact absurd hch hc
        · exact Res.map_ne_panic _ _ (listVar_no_panic (decode t) (fun s => decode_ne_panic t s) b none)
  | .tuple ts, b => by
      simp only [decode]
      cases hb : build (regsOf ts) b with
      | ok items =>
        simp only
        have hl := build_length _ _ _ hb
        rw [regsOf_length] at hl
        exact Res.map_ne_panic _ _ (decodeItems_no_panic ts items hl)
      | err => simp
      | panic => exact absurd hb (build_no_panic _ _)
  | .container ts, b => by
      simp only [decode]
      split
      · split
        · simp
        · rename_i hlen
          have hlen' : sumFixedLen ts ≤ b.length := by
            have : b.length = sumFixedLen ts := by simpa using hlen
            omega
          exact Res.map_ne_panic _ _ (decodeSplit_no_panic ts b hlen')
      · cases hb : build (regsOf ts) b with
        | ok items =>
          simp only
          have hl := build_length _ _ _ hb
          rw [regsOf_length] at hl
          exact Res.map_ne_panic _ _ (decodeItems_no_panic ts items hl)
        | err => simp
        | panic => exact absurd hb (build_no_panic _ _)
  | .union ts, b => by
      simp only [decode]
      cases splitUnionBytes b with
      | none => simp
      | some p =>
        obtain ⟨s, body⟩ := p
        exact decodeNth_no_panic ts _ _ body
  | .transparentEnum ts, b => by
      simp only [decode]
      exact decodeFirst_no_panic ts 0 b
/-- `decode_next` is called once per field and the builder produced one item per field -/
theorem decodeItems_no_panic : ∀ (ts : List Ty) (items : List Bytes),
    items.length = ts.length → decodeItems ts items ≠ .panic
  | [], items, _ => by simp [decodeItems]
  | t :: ts, [], h => by simp at h
  | t :: ts, it :: its, h => by
      simp only [decodeItems]
      cases hd : decode t it with
      | ok v =>
        simp only
        exact Res.map_ne_panic _ _ (decodeItems_no_panic ts its (by simpa using h))
      | err => simp
      | panic => exact absurd hd (decode_ne_panic t it)
/-- `split_at(len)` stays in range because the total length was checked beforehand -/
theorem decodeSplit_no_panic : ∀ (ts : List Ty) (b : Bytes),
    sumFixedLen ts ≤ b.length → decodeSplit ts b ≠ .panic
  | [], b, _ => by simp [decodeSplit]
  | t :: ts, b, h => by
      simp only [sumFixedLen] at h
      have hle : ¬ (t.fixedLen > b.length) := by omega
      simp only [decodeSplit, hle, ↓reduceIte]
      cases hd : decode t (b.take t.fixedLen) with
      | ok v =>
        simp only
        exact Res.map_ne_panic _ _ (decodeSplit_no_panic ts (b.drop t.fixedLen) (by simp; omega))
      | err => simp
      | panic => exact absurd hd (decode_ne_panic t _)
theorem decodeNth_no_panic : ∀ (ts : List Ty) (i sel : Nat) (body : Bytes),
    decodeNth ts i sel body ≠ .panic
  | [], i, sel, body => by simp [decodeNth]
  | t :: ts, 0, sel, body => by
      simp only [decodeNth]
      exact Res.map_ne_panic _ _ (decode_ne_panic t body)
  | t :: ts, i+1, sel, body => by
      simp only [decodeNth]
      exact decodeNth_no_panic ts i sel body
theorem decodeFirst_no_panic : ∀ (ts : List Ty) (i : Nat) (b : Bytes),
    decodeFirst ts i b ≠ .panic
  | [], i, b => by simp [decodeFirst]
  | t :: ts, i, b => by
      simp only [decodeFirst]
      cases hd : decode t b with
      | ok v => simp
      | err => exact decodeFirst_no_panic ts (i+1) b
      | panic => exact absurd hd (decode_ne_panic t b)
end

end Ssz.NP