import SszProofs.Lemmas.OrderFacts
import SszProofs.C10
/-
  C19 — Ordered maps and sets encode as sorted entry lists and decode by collection.

  `Ty.list c t` with `c = .set` is `BTreeSet<T>`, with `c = .map` and `t = .tuple [K, V]` it is
  `BTreeMap<K, V>`; the value of such a type is the entry list in ascending key order (`hasType`
  demands `sortedBy c`). `collect c` models `FromIterator` of the target collection.

  The round trip / fixed point statements are RELATIVE to the codec of the plain entry list
  (`Vec<T>`, `c = .vec`), which is the subject of C01: they take the plain list round trip as a
  hypothesis and add what is specific to ordered collections.
-/
set_option linter.unusedSimpArgs false
namespace Ssz.C19
open Ssz.Ord
open Ssz

/-! ### encoding -/

/-- a set / map encodes exactly as the SSZ list of its entries, in the order of the value ... -/
theorem encode_as_list (c : CKind) (t : Ty) (vs : List Val) :
    encode (.list c t) (.list vs) = encode (.list .vec t) (.list vs) := by
  simp [encode, sszAppend]

theorem append_as_list (c : CKind) (t : Ty) (vs : List Val) (buf : Bytes) :
    sszAppend (.list c t) (.list vs) buf = sszAppend (.list .vec t) (.list vs) buf := by
  simp [sszAppend]

theorem bytesLen_as_list (c : CKind) (t : Ty) (vs : List Val) :
    bytesLen (.list c t) (.list vs) = bytesLen (.list .vec t) (.list vs) := by
  simp [bytesLen]

/-- ... which for a set / map value is strictly ascending by key -/
theorem entries_ascending (c : CKind) (t : Ty) (vs : List Val)
    (h : hasType (.list c t) (.list vs) = true) (hc : c ≠ .vec) : sortedBy c vs = true := by
  simp only [hasType, Bool.and_eq_true, Bool.or_eq_true, beq_iff_eq] at h
  rcases h.2 with h | h
  · exact absurd h hc
  · exact h

theorem entries_typed (c : CKind) (t : Ty) (vs : List Val)
    (h : hasType (.list c t) (.list vs) = true) : hasTypeAll t vs = true := by
  simp only [hasType, Bool.and_eq_true] at h; exact h.1

/-- in a set / map value every key occurs once -/
theorem keys_unique (c : CKind) (t : Ty) (vs : List Val) (hk : keyTyOk c t = true) (hc : c ≠ .vec)
    (h : hasType (.list c t) (.list vs) = true) :
    ∀ x ∈ vs, ∀ y ∈ vs, keyOf c x = keyOf c y → x = y :=
  sortedBy_key_unique c t hc hk vs ((hasTypeAll_iff t vs).mp (entries_typed c t vs h))
    (entries_ascending c t vs h hc)

/-- each map entry is encoded as the two-field container `(key, value)` -/
theorem map_entry_container (k v : Ty) (a b : Val) :
    encode (.tuple [k, v]) (.tuple [a, b]) = encode (.container [k, v]) (.tuple [a, b]) :=
  C10.tuple_eq_container [k, v] [a, b]

theorem entry_append_eq (ts : List Ty) (x : Val) (buf : Bytes) :
    sszAppend (.tuple ts) x buf = sszAppend (.container ts) x buf := by
  cases x <;> simp [sszAppend]

theorem appendAll_congr (t t' : Ty) (h : ∀ x buf, sszAppend t x buf = sszAppend t' x buf) :
    ∀ (vs : List Val) (buf : Bytes), appendAll t vs buf = appendAll t' vs buf
  | [], buf => by simp [appendAll]
  | v :: vs, buf => by simp only [appendAll, h]; exact appendAll_congr t t' h vs _

theorem appendSeq_congr (t t' : Ty) (h : ∀ x buf, sszAppend t x buf = sszAppend t' x buf) :
    ∀ (vs : List Val) (e : Enc), appendSeq t vs e = appendSeq t' vs e
  | [], e => by simp [appendSeq]
  | v :: vs, e => by
      have : sszAppend t v = sszAppend t' v := funext (h v)
      simp only [appendSeq, this]; exact appendSeq_congr t t' h vs _

/-- a map encodes exactly as the SSZ list of `(key, value)` containers -/
theorem map_as_container_list (k v : Ty) (vs : List Val) :
    encode (.list .map (.tuple [k, v])) (.list vs) = encode (.list .vec (.container [k, v])) (.list vs) := by
  simp only [encode, sszAppend, Ty.isFixed]
  rw [appendAll_congr _ _ (entry_append_eq [k, v]), appendSeq_congr _ _ (entry_append_eq [k, v])]
  rfl

/-! ### decoding -/

/-- decoding a set / map is decoding the plain entry list and collecting: the same inputs are
    accepted, rejected (malformed list or malformed entry) and (never, see C04) panic -/
theorem decode_by_collection (c : CKind) (t : Ty) (b : Bytes) :
    decode (.list c t) b = (decode (.list .vec t) b).map
      (fun v => match v with | .list es => .list (collect c es) | x => x) := by
  simp only [decode, collect_vec]
  by_cases hb : b.isEmpty = true
  · simp [hb, collect_nil]
  · simp only [hb, if_false, Bool.false_eq_true]
    by_cases hf : t.isFixed = true
    · simp only [hf, if_true]
      by_cases hz : t.fixedLen = 0
      · simp [hz]
      · simp only [hz, if_false]
        cases chunks t.fixedLen b with
        | ok cs => cases hm : mapRes (decode t) cs <;> simp [hm]
        | err => simp
        | panic => simp
    · simp only [hf, if_false, Bool.false_eq_true]
      cases listVar (decode t) b none <;> simp

/-- the plain list decoder returns lists -/
theorem decode_vec_is_list (t : Ty) (b : Bytes) (v : Val) (h : decode (.list .vec t) b = .ok v) :
    ∃ es, v = .list es := by
  simp only [decode] at h
  by_cases hb : b.isEmpty = true
  · simp [hb] at h; exact ⟨_, h.symm⟩
  · simp only [hb, if_false, Bool.false_eq_true] at h
    by_cases hf : t.isFixed = true
    · simp only [hf, if_true] at h
      by_cases hz : t.fixedLen = 0
      · simp [hz] at h
      · simp only [hz, if_false] at h
        cases hc : chunks t.fixedLen b with
        | ok cs =>
          rw [hc] at h
          cases hm : mapRes (decode t) cs <;> simp [hm] at h
          exact ⟨_, h.symm⟩
        | err => rw [hc] at h; simp at h
        | panic => rw [hc] at h; simp at h
    · simp only [hf, if_false, Bool.false_eq_true] at h
      cases hm : listVar (decode t) b none <;> rw [hm] at h <;> simp at h
      exact ⟨_, h.symm⟩

/-- what is accepted is a well-formed entry list, and the result is the collection of its entries -/
theorem decode_ok_iff (c : CKind) (t : Ty) (b : Bytes) (m : Val) :
    decode (.list c t) b = .ok m ↔
      ∃ es, decode (.list .vec t) b = .ok (.list es) ∧ m = .list (collect c es) := by
  rw [decode_by_collection]
  cases hd : decode (.list .vec t) b with
  | ok v =>
    obtain ⟨es, rfl⟩ := decode_vec_is_list t b v hd
    simp only [Res.map_ok, Res.ok.injEq, Val.list.injEq]
    constructor
    · intro h; exact ⟨es, rfl, h.symm⟩
    · rintro ⟨es', h, rfl⟩; rw [h]
  | err => simp
  | panic => simp

/-- malformed lists or entries are rejected: exactly when the plain list decoder rejects them -/
theorem decode_err_iff (c : CKind) (t : Ty) (b : Bytes) :
    decode (.list c t) b = .err ↔ decode (.list .vec t) b = .err := by
  rw [decode_by_collection]; cases decode (.list .vec t) b <;> simp

theorem decode_panic_iff (c : CKind) (t : Ty) (b : Bytes) :
    decode (.list c t) b = .panic ↔ decode (.list .vec t) b = .panic := by
  rw [decode_by_collection]; cases decode (.list .vec t) b <;> simp

/-- the decoded collection contains exactly the listed entries that are not followed by an entry
    with the same key: a later duplicate key replaces an earlier one -/
theorem decode_collects (c : CKind) (t : Ty) (hc : c ≠ .vec) (hk : keyTyOk c t = true) (b : Bytes)
    (es : List Val) (hd : decode (.list .vec t) b = .ok (.list es)) (hty : hasTypeAll t es = true) :
    ∃ ms, decode (.list c t) b = .ok (.list ms) ∧ hasType (.list c t) (.list ms) = true ∧
      ∀ e, e ∈ ms ↔ ∃ l1 l2, es = l1 ++ e :: l2 ∧ ∀ y ∈ l2, keyOf c y ≠ keyOf c e :=
  ⟨collect c es, (decode_ok_iff c t b _).mpr ⟨es, hd, rfl⟩, collect_hasType c t es hk hty,
    mem_collect_iff c t es hc hk hty⟩

/-- for maps: after collecting `es` followed by `(k, v)`, the key `k` is bound to `v` and to nothing
    else, and all other keys are bound as in `es` alone -/
theorem collect_last_wins (kt vt : Ty) (hk : kt.ordKey = true) (es : List Val)
    (hes : hasTypeAll (.tuple [kt, vt]) es = true) (k v : Val)
    (hkv : hasType (.tuple [kt, vt]) (.tuple [k, v]) = true) :
    .tuple [k, v] ∈ collect .map (es ++ [.tuple [k, v]]) ∧
    (∀ e ∈ collect .map (es ++ [.tuple [k, v]]), keyOf .map e = k → e = .tuple [k, v]) ∧
    (∀ e, keyOf .map e ≠ k → (e ∈ collect .map (es ++ [.tuple [k, v]]) ↔ e ∈ collect .map es)) := by
  have hc : CKind.map ≠ .vec := by decide
  have hk' : keyTyOk .map (.tuple [kt, vt]) = true := by simpa [keyTyOk] using hk
  have hm := mem_insertBy_iff .map _ hc hk' (.tuple [k, v]) hkv (collect .map es)
    ((hasTypeAll_iff _ _).mp (collect_typed .map _ es hk' hes)) (collect_is_sorted .map _ es hc hk' hes)
  rw [collect_append_singleton .map hc]
  have hkey : keyOf .map (.tuple [k, v]) = k := by simp [keyOf]
  rw [hkey] at hm
  refine ⟨(hm _).mpr (.inl rfl), fun e he hek => ?_, fun e hek => ?_⟩
  · rcases (hm e).mp he with h | ⟨_, h⟩
    · exact h
    · exact absurd hek h
  · rw [hm e]
    constructor
    · rintro (rfl | ⟨h, _⟩)
      · exact absurd hkey hek
      · exact h
    · exact fun h => .inr ⟨h, hek⟩

/-- same for sets: the later of two equal elements is kept (they are equal, so this is invisible) -/
theorem collect_set_mem (t : Ty) (hk : t.ordKey = true) (es : List Val) (hes : hasTypeAll t es = true)
    (e : Val) : e ∈ collect .set es ↔ e ∈ es := by
  have hc : CKind.set ≠ .vec := by decide
  rw [mem_collect_iff .set t es hc (by simpa [keyTyOk] using hk) hes e]
  constructor
  · rintro ⟨l1, l2, rfl, _⟩; simp
  · intro h
    -- take the last occurrence
    induction es with
    | nil => simp at h
    | cons a es ih =>
      simp only [hasTypeAll, Bool.and_eq_true] at hes
      by_cases h' : e ∈ es
      · obtain ⟨l1, l2, rfl, hl⟩ := ih hes.2 h'
        exact ⟨a :: l1, l2, rfl, hl⟩
      · have : e = a := by simpa [h'] using h
        subst this
        refine ⟨[], es, rfl, fun y hy he => h' ?_⟩
        have : y = e := by simpa [keyOf] using he
        exact this ▸ hy

/-! ### Any comparison of entries (keys whose `Ord` is coarser than their encoding)

`collect` is the instance of `collectCmp` for the structural order on keys. The two facts below need no assumption on
the comparison at all: the result never contains an entry that was not listed (in particular no mixture of one
entry's key with another entry's value), and the last listed entry is always present as it was listed. -/

theorem insertBy_eq_insertByCmp (c : CKind) (x : Val) (l : List Val) :
    insertBy c x l = insertByCmp (fun a b => Val.cmp (keyOf c a) (keyOf c b)) x l := by
  induction l with
  | nil => rfl
  | cons y ys ih => simp only [insertBy, insertByCmp]; split <;> simp_all

theorem collect_eq_collectCmp (c : CKind) (hc : c ≠ .vec) (vs : List Val) :
    collect c vs = collectCmp (fun a b => Val.cmp (keyOf c a) (keyOf c b)) vs := by
  have h : ∀ (acc : List Val), vs.foldl (fun acc x => insertBy c x acc) acc
      = vs.foldl (fun acc x => insertByCmp (fun a b => Val.cmp (keyOf c a) (keyOf c b)) x acc) acc := by
    induction vs with
    | nil => intro acc; rfl
    | cons v vs ih => intro acc; simp only [List.foldl_cons, insertBy_eq_insertByCmp, ih]
  cases c with
  | vec => exact absurd rfl hc
  | set => simpa [collect, collectCmp] using h []
  | map => simpa [collect, collectCmp] using h []

theorem mem_insertByCmp (cmp : Val → Val → Ordering) (x e : Val) (l : List Val)
    (h : e ∈ insertByCmp cmp x l) : e = x ∨ e ∈ l := by
  induction l with
  | nil => simp [insertByCmp] at h; exact Or.inl h
  | cons y ys ih =>
    simp only [insertByCmp] at h
    split at h
    · simp only [List.mem_cons] at h ⊢; rcases h with h | h | h <;> simp [h]
    · simp only [List.mem_cons] at h ⊢; rcases h with h | h <;> simp [h]
    · simp only [List.mem_cons] at h ⊢
      rcases h with h | h
      · simp [h]
      · rcases ih h with h | h <;> simp [h]

theorem self_mem_insertByCmp (cmp : Val → Val → Ordering) (x : Val) (l : List Val) :
    x ∈ insertByCmp cmp x l := by
  induction l with
  | nil => simp [insertByCmp]
  | cons y ys ih => simp only [insertByCmp]; split <;> simp [ih]

private theorem foldl_subset (cmp : Val → Val → Ordering) (vs acc : List Val) (e : Val)
    (h : e ∈ vs.foldl (fun acc x => insertByCmp cmp x acc) acc) : e ∈ acc ∨ e ∈ vs := by
  induction vs generalizing acc with
  | nil => exact Or.inl h
  | cons v vs ih =>
    rcases ih _ h with h | h
    · rcases mem_insertByCmp cmp v e acc h with h | h
      · exact Or.inr (by simp [h])
      · exact Or.inl h
    · exact Or.inr (List.mem_cons_of_mem _ h)

/-- no entry is invented: whatever the comparison, every collected entry is one of the listed entries -/
theorem collectCmp_subset (cmp : Val → Val → Ordering) (vs : List Val) (e : Val)
    (h : e ∈ collectCmp cmp vs) : e ∈ vs := by
  rcases foldl_subset cmp vs [] e h with h | h
  · simp at h
  · exact h

/-- the last listed entry is present exactly as listed, whatever came before it -/
theorem collectCmp_last_mem (cmp : Val → Val → Ordering) (vs : List Val) (x : Val) :
    x ∈ collectCmp cmp (vs ++ [x]) := by
  simp only [collectCmp, List.foldl_append, List.foldl_cons, List.foldl_nil]
  exact self_mem_insertByCmp cmp x _

/-- two entries that compare equal: the later one replaces the earlier one as a whole -/
theorem collectCmp_pair_eq (cmp : Val → Val → Ordering) (a b : Val) (h : cmp b a = .eq) :
    collectCmp cmp [a, b] = [b] := by
  simp [collectCmp, insertByCmp, h]

example : collectCmp (fun a b => match a, b with
    | .tuple [.uint i, _], .tuple [.uint j, _] => compare i j
    | _, _ => .eq) [.tuple [.uint 1, .bytes [1]], .tuple [.uint 0, .bytes []], .tuple [.uint 1, .bytes [2, 2]]]
    = [.tuple [.uint 0, .bytes []], .tuple [.uint 1, .bytes [2, 2]]] := by
  simp [collectCmp, insertByCmp, compare, compareOfLessAndEq]


theorem collect_idempotent (c : CKind) (t : Ty) (vs : List Val) (hk : keyTyOk c t = true)
    (ht : hasTypeAll t vs = true) : collect c (collect c vs) = collect c vs :=
  collect_idem c t vs hk ht

/-! ### round trip and fixed point, relative to the plain entry list codec -/

/-- re-encoding any decoded collection and decoding again returns the same collection -/
theorem reencode_fixed_point (c : CKind) (t : Ty) (hk : keyTyOk c t = true)
    (hrt : ∀ es, hasTypeAll t es = true →
      decode (.list .vec t) (encode (.list .vec t) (.list es)) = .ok (.list es))
    (b : Bytes) (m : Val) (hd : decode (.list c t) b = .ok m)
    (hty : ∀ es, decode (.list .vec t) b = .ok (.list es) → hasTypeAll t es = true) :
    decode (.list c t) (encode (.list c t) m) = .ok m := by
  obtain ⟨es, hes, rfl⟩ := (decode_ok_iff c t b m).mp hd
  have ht := hty es hes
  rw [encode_as_list, decode_by_collection, hrt _ (collect_typed c t es hk ht)]
  simp only [Res.map_ok, collect_idempotent c t es hk ht]

/-- the decoded collection is a value of the set / map type (canonical: strictly ascending) -/
theorem decode_canonical (c : CKind) (t : Ty) (hk : keyTyOk c t = true) (b : Bytes) (m : Val)
    (hd : decode (.list c t) b = .ok m)
    (hty : ∀ es, decode (.list .vec t) b = .ok (.list es) → hasTypeAll t es = true) :
    hasType (.list c t) m = true := by
  obtain ⟨es, hes, rfl⟩ := (decode_ok_iff c t b m).mp hd
  exact collect_hasType c t es hk (hty es hes)

/-- decoding the encoding of a set / map returns it -/
theorem roundtrip (c : CKind) (t : Ty) (vs : List Val) (hk : keyTyOk c t = true)
    (hv : hasType (.list c t) (.list vs) = true)
    (hrt : decode (.list .vec t) (encode (.list .vec t) (.list vs)) = .ok (.list vs)) :
    decode (.list c t) (encode (.list c t) (.list vs)) = .ok (.list vs) := by
  simp only [hasType, Bool.and_eq_true] at hv
  rw [encode_as_list, decode_by_collection, hrt]
  simp only [Res.map_ok, collect_sorted c t vs hk hv.1 hv.2]

/-- the form with the general plain list round trip as hypothesis -/
theorem roundtrip' (c : CKind) (t : Ty) (hk : keyTyOk c t = true)
    (hrt : ∀ es, hasTypeAll t es = true →
      decode (.list .vec t) (encode (.list .vec t) (.list es)) = .ok (.list es))
    (vs : List Val) (hv : hasType (.list c t) (.list vs) = true) :
    decode (.list c t) (encode (.list c t) (.list vs)) = .ok (.list vs) :=
  roundtrip c t vs hk hv (hrt vs (entries_typed c t vs hv))

/-! ### examples -/

/-- entries `[(0,1),(3,9),(0,2)]` collect to `[(0,2),(3,9)]` -/
example : collect .map [.tuple [.uint 0, .uint 1], .tuple [.uint 3, .uint 9], .tuple [.uint 0, .uint 2]]
    = [.tuple [.uint 0, .uint 2], .tuple [.uint 3, .uint 9]] := by
  simp [collect, insertBy, keyOf, Val.cmp, Nat.compare_eq_ite_lt]

/-- an unsorted entry list with a duplicate collects to the ascending set -/
example : collect .set [.uint 3, .uint 1, .uint 3, .uint 2] = [.uint 1, .uint 2, .uint 3] := by
  simp [collect, insertBy, keyOf, Val.cmp, Nat.compare_eq_ite_lt]

/-- `BTreeSet<u16>`: `{1, 2, 3}` encodes as the list `[1, 2, 3]` -/
example : encode (.list .set (.uint 2)) (.list [.uint 1, .uint 2, .uint 3]) = [1,0, 2,0, 3,0] := by
  simp [encode, sszAppend, appendAll, Ty.isFixed, le]

/-- unsorted entries with a duplicate decode to the set -/
example : decode (.list .set (.uint 2)) [3,0, 1,0, 3,0, 2,0] = .ok (.list [.uint 1, .uint 2, .uint 3]) := by
  simp [decode, chunks, chunksGo, mapRes, collect, insertBy, keyOf, Val.cmp, Nat.compare_eq_ite_lt, fromLE, Ty.isFixed, Ty.fixedLen]

/-- re-encoding that decoded set gives the canonical bytes, a fixed point of decode ∘ encode -/
example : decode (.list .set (.uint 2)) (encode (.list .set (.uint 2)) (.list [.uint 1, .uint 2, .uint 3]))
    = .ok (.list [.uint 1, .uint 2, .uint 3]) := by
  simp [encode, sszAppend, appendAll, le, decode, chunks, chunksGo, mapRes, collect, insertBy, keyOf, Val.cmp, Nat.compare_eq_ite_lt,
    fromLE, Ty.isFixed, Ty.fixedLen]

/-- a malformed entry (one byte short) is rejected -/
example : decode (.list .set (.uint 2)) [3,0, 1,0, 3] = .err := by
  simp [decode, chunks, chunksGo, mapRes, collect, fromLE, Ty.isFixed, Ty.fixedLen]

/-- an unsorted list is not a set value -/
example : hasType (.list .set (.uint 2)) (.list [.uint 3, .uint 1]) = false := by
  simp [hasType, hasTypeAll, sortedBy, keyOf, Val.cmp, Nat.compare_eq_ite_lt]
example : hasType (.list .set (.uint 2)) (.list [.uint 1, .uint 3]) = true := by
  simp [hasType, hasTypeAll, sortedBy, keyOf, Val.cmp, Nat.compare_eq_ite_lt]

/-- `BTreeMap<u8, u16>`: entries are 3-byte `(key, value)` containers in ascending key order -/
example : encode (.list .map (.tuple [.uint 1, .uint 2])) (.list [.tuple [.uint 0, .uint 2], .tuple [.uint 3, .uint 9]])
    = [0, 2,0, 3, 9,0] := by
  simp [encode, sszAppend, appendAll, appendFields, Enc.container, Enc.appendWith, Enc.finalize, sumFixedLen,
    allFixed, Ty.isFixed, Ty.fixedLen, le]

private theorem build3 (a b c : UInt8) : build [.fixed 1, .fixed 2] [a, b, c] = .ok [[a], [b, c]] := by
  simp [build, registerAll, Builder.register, Builder.finalize]

/-- unsorted map entries with a duplicate key: the later `(0, 2)` replaces `(0, 1)` -/
example : decode (.list .map (.tuple [.uint 1, .uint 2])) [0, 1,0, 3, 9,0, 0, 2,0]
    = .ok (.list [.tuple [.uint 0, .uint 2], .tuple [.uint 3, .uint 9]]) := by
  simp [decode, chunks, chunksGo, mapRes, decodeItems, regsOf, Ty.reg, build3, collect, insertBy, keyOf, Val.cmp, Nat.compare_eq_ite_lt,
    fromLE, allFixed, sumFixedLen, Ty.isFixed, Ty.fixedLen]

/-- a trailing partial entry is rejected -/
example : decode (.list .map (.tuple [.uint 1, .uint 2])) [0, 1,0, 3, 9] = .err := by
  have : build [.fixed 1, .fixed 2] [3, 9] = .err := by decide
  simp [decode, chunks, chunksGo, mapRes, decodeItems, regsOf, Ty.reg, build3, this, collect, fromLE, allFixed,
    sumFixedLen, Ty.isFixed, Ty.fixedLen]

end Ssz.C19
