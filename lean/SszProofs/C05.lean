import SszProofs.Lemmas.NoPanic
/-
  C05 — Decoding untrusted bytes never panics or aborts.

  Reading guide. Every modelled Rust function that contains a panic site (slice indexing,
  `split_at`, `chunks(0)`, `Vec::remove(0)`, `expect`, `unreachable!`) returns
  `Res α = ok a | err | panic`, the panic site being an explicit `.panic` branch. "Never panics" is
  therefore the statement `… ≠ .panic`, for ALL inputs and, for `decode`, for ALL types of the
  algebra `Ty` — no well-formedness hypothesis (`Ty.wf`) is needed, in particular not for
  zero-length item types (`bytesN 0`, `uint 0`, `container []`, tuples of those).

  Functions returning `Option` cannot panic by their type; that covers the public helpers
  `readOffset` (`read_offset`), `sanitizeOffset` (`sanitize_offset`), `splitUnionBytes`
  (`split_union_bytes`), `unionSelectorNew`, and the bitfield byte constructors
  `BF.fromBytesF` (`BitVector::from_bytes`), `BF.fromBytesWithLen`
  (`BitVectorDynamic::from_bytes_with_len`), `BF.decodeDyn` (`BitVectorDynamic::from_ssz_bytes`),
  `fromRawBytes` (`Bitfield::from_raw_bytes`). Nothing is stated for them; the `example`s at the
  end of the file merely record their types.

  Proofs are in `Lemmas/NoPanic.lean`, `Lemmas/Key.lean` (`build_sound`), `Lemmas/Key2.lean`
  (`build_no_panic`).
-/
set_option linter.unusedSimpArgs false
namespace Ssz.C05
open Ssz.NP

open Ssz

/-! ### `from_ssz_bytes` of every type -/

/-- for every type and every byte string, decoding returns a value or an error -/
theorem decode_no_panic (t : Ty) (b : Bytes) : decode t b ≠ .panic :=
  decode_ne_panic t b

/-- the same, as a dichotomy -/
theorem decode_total (t : Ty) (b : Bytes) : (∃ v, decode t b = .ok v) ∨ decode t b = .err := by
  cases h : decode t b with
  | ok v => exact .inl ⟨v, rfl⟩
  | err => exact .inr rfl
  | panic => exact absurd h (decode_no_panic t b)

/-- the field loop of tuples and mixed containers: one `decode_next` per field, on the items the
    builder produced for exactly these fields -/
theorem decodeItems_after_build (ts : List Ty) (b : Bytes) (items : List Bytes)
    (h : build (regsOf ts) b = .ok items) : decodeItems ts items ≠ .panic :=
  decodeItems_no_panic ts items (by rw [build_length _ _ _ h, regsOf_length])

/-- the `split_at` loop of all-fixed derived containers, after the length check -/
theorem decodeSplit_after_check (ts : List Ty) (b : Bytes) (h : b.length = sumFixedLen ts) :
    decodeSplit ts b ≠ .panic :=
  decodeSplit_no_panic ts b (by omega)

/-- without the length check the `split_at` loop does panic (so the check is what excludes it) -/
example : decodeSplit [.uint 8] [1, 2, 3] = .panic := by simp [decodeSplit, Ty.fixedLen]
/-- without the builder's item count the `remove(0)` loop does panic -/
example : decodeItems [.bool] [] = .panic := by simp [decodeItems]

/-! ### variable-length list decoding, any limit, any target collection -/

/-- `decode_list_of_variable_length_items(bytes, max_len)`; `f` is the item decoder -/
theorem listVar_no_panic {α} (f : Bytes → Res α) (hf : ∀ s, f s ≠ .panic) (b : Bytes)
    (m : Option Nat) : listVar f b m ≠ .panic :=
  Ssz.NP.listVar_no_panic f hf b m

/-- the traced version used for the `try_from_iter` properties, for every collection kind -/
theorem listVarT_no_panic {α} (f : Bytes → Res α) (hf : ∀ s, f s ≠ .panic) (b : Bytes)
    (m : Option Nat) (c : Coll) : (listVarT f b m c).1 ≠ .panic :=
  Ssz.NP.listVarT_no_panic f hf b m c

/-- instantiated with the item decoder of any type -/
theorem listVar_decode_no_panic (t : Ty) (b : Bytes) (m : Option Nat) (c : Coll) :
    listVar (decode t) b m ≠ .panic ∧ (listVarT (decode t) b m c).1 ≠ .panic :=
  ⟨listVar_no_panic _ (decode_no_panic t) b m, listVarT_no_panic _ (decode_no_panic t) b m c⟩

/-- fixed-size items: `chunks` is only reached with a non-zero item length -/
theorem chunks_no_panic (n : Nat) (b : Bytes) (hn : n ≠ 0) : chunks n b ≠ .panic :=
  Ssz.NP.chunks_no_panic n b hn

/-- … and `chunks(0)` is a real panic site, which `decode` guards with `ZeroLengthItem` -/
example (b : Bytes) : chunks 0 b = .panic := chunks_zero_panic b

/-! ### the decoder builder, used as documented -/

/-- Register the item kinds in order stopping at the first error, `build`, then call
    `decode_next_with` exactly once per registered item (`decodeAllWith`, defined in
    `Lemmas/NoPanic.lean`), with item functions that do not panic themselves:
    neither phase panics. -/
theorem builder_protocol_no_panic (regs : List Reg) (b : Bytes) :
    build regs b ≠ .panic ∧
    ∀ items, build regs b = .ok items →
      ∀ {α} (fs : List (Bytes → Res α)), fs.length = regs.length →
        (∀ f ∈ fs, ∀ s, f s ≠ .panic) → decodeAllWith fs items ≠ .panic := by
  refine ⟨build_no_panic regs b, ?_⟩
  intro items h α fs hl hf
  exact decodeAllWith_no_panic fs items (by rw [build_length regs b items h, hl]; exact Nat.le_refl _) hf

/-- registration alone (any prefix of the protocol) does not panic either -/
theorem registerAll_no_panic (regs : List Reg) (b : Bytes) :
    registerAll { bytes := b } regs ≠ .panic :=
  Ssz.registerAll_no_panic regs _ (by simp)

/-- decoding FEWER items than registered is harmless as well -/
theorem builder_protocol_prefix {α} (regs : List Reg) (b : Bytes) (items : List Bytes)
    (h : build regs b = .ok items) (fs : List (Bytes → Res α)) (hl : fs.length ≤ regs.length)
    (hf : ∀ f ∈ fs, ∀ s, f s ≠ .panic) : decodeAllWith fs items ≠ .panic :=
  decodeAllWith_no_panic fs items (by rw [build_length regs b items h]; exact hl) hf

/-- outside the documented use (one call too many) `decode_next_with` does panic -/
example : build [] [] = .ok [] ∧ decodeAllWith [fun s => Res.ok s] [] = .panic := by
  constructor
  · simp [build, registerAll, Builder.finalize]
  · rfl

/-! ### bitfield byte constructors -/

/-- `from_bytes` / `from_ssz_bytes` of `BitList<N>`, `BitVector<N>`, `BitVectorDynamic` -/
theorem bitfield_fromBytes_no_panic (k : BKind) (b : Bytes) : BF.fromBytes k b ≠ .panic :=
  fromBytes_no_panic k b

/-- SSZ decoding of a bitfield value (agrees with the interface lemma `bits_no_panic`) -/
theorem decodeBits_no_panic (k : BKind) (b : Bytes) : decodeBits k b ≠ .panic :=
  decodeBits_ne_panic k b

-- `Option`-valued helpers: no panic outcome by type (recorded, not proven)
example : Bytes → Option Nat := readOffset
example : Nat → Option Nat → Nat → Option Nat → Option Nat := sanitizeOffset
example : Bytes → Option (UInt8 × Bytes) := splitUnionBytes
example : Nat → Bytes → Option BF := BF.fromBytesF
example : Bytes → Nat → Option BF := BF.fromBytesWithLen
example : Bytes → Option BF := BF.decodeDyn
example : Bytes → Nat → Option BF := fromRawBytes

/-! ### degenerate zero-length item types -/

example : decode (.list .vec (.bytesN 0)) [1] = .err := by
  simp [decode, Ty.isFixed, Ty.fixedLen]
example : decode (.list .vec (.uint 0)) [1] = .err := by
  simp [decode, Ty.isFixed, Ty.fixedLen]
example : decode (.list .vec (.container [])) [1] = .err := by
  simp [decode, Ty.isFixed, Ty.fixedLen, allFixed, sumFixedLen]
example : decode (.list .set (.tuple [])) [1] = .err := by
  simp [decode, Ty.isFixed, Ty.fixedLen, allFixed, sumFixedLen]
example : decode (.list .vec (.container [.bytesN 0, .uint 0])) [1, 2] = .err := by
  simp [decode, Ty.isFixed, Ty.fixedLen, allFixed, sumFixedLen]
example : decode (.tuple [.bytesN 0, .bytesN 0]) [] = .ok (.tuple [.bytes [], .bytes []]) := by
  simp [decode, decodeItems, regsOf, Ty.reg, Ty.isFixed, Ty.fixedLen, build, registerAll,
    Builder.register, Builder.finalize]
example : decode (.container [.bytesN 0, .bytesN 0]) [] = .ok (.tuple [.bytes [], .bytes []]) := by
  simp [decode, decodeSplit, allFixed, sumFixedLen, Ty.isFixed, Ty.fixedLen]
example : decode (.tuple [.bytesN 0, .bytesN 0]) [7] = .err := by
  simp [decode, decodeItems, regsOf, Ty.reg, Ty.isFixed, Ty.fixedLen, build, registerAll,
    Builder.register, Builder.finalize]
/-- the empty list of zero-length items is still accepted (the emptiness test comes first) -/
example : decode (.list .vec (.bytesN 0)) [] = .ok (.list []) := by simp [decode]

end Ssz.C05
