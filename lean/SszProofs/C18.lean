import SszProofs.Lemmas.Hex
import SszProofs.Lemmas.BitCore
import SszProofs.C14
set_option linter.unusedSimpArgs false
set_option linter.unusedVariables false
/-
  C18 — bitfield serde form is the 0x-hex of the SSZ encoding.

  `Serialize` writes `"0x"` followed by the lowercase hex of `as_ssz_bytes()`; `Deserialize` accepts
  exactly the `0x`-prefixed, even-length hex strings (either case, as `hex::decode` 0.4.3 does) of a
  byte string that `from_ssz_bytes` accepts for the type, with that value. Hence serde round-trips.
  Strings are UTF-8 byte lists: 48 = '0', 120 = 'x', 88 = 'X'.
-/
namespace Ssz.C18
open Ssz.Hex
open Ssz.BC
open Ssz

/-! ### the hex codec -/

theorem hexDecode_hexEncode (b : Bytes) : hexDecode (hexEncode b) = some b :=
  Hex.hexDecode_hexEncode b

/-- every character written is `0-9` or `a-f`, two per byte -/
theorem hexEncode_lower (b : Bytes) :
    (∀ c ∈ hexEncode b, isLowerHexDigit c = true) ∧ (hexEncode b).length = 2 * b.length :=
  ⟨hexEncode_chars b, hexEncode_length b⟩

/-- spelled out: each character is in `'0'..'9'` or `'a'..'f'` -/
theorem hexEncode_lower_ranges (b : Bytes) (c : UInt8) (h : c ∈ hexEncode b) :
    (48 ≤ c.toNat ∧ c.toNat ≤ 57) ∨ (97 ≤ c.toNat ∧ c.toNat ≤ 102) := by
  have := hexEncode_chars b c h
  simpa [isLowerHexDigit] using this

theorem hexDecode_some_iff (s : Bytes) :
    (∃ b, hexDecode s = some b) ↔ s.length % 2 = 0 ∧ ∀ c ∈ s, isHexDigit c = true :=
  Hex.hexDecode_some_iff s

theorem hexDecode_length (s b : Bytes) (h : hexDecode s = some b) : b.length * 2 = s.length :=
  Hex.hexDecode_length s b h

/-- the written form is the only all-lowercase string that reads back as `b` -/
theorem hexEncode_canonical (s b : Bytes) (h : hexDecode s = some b)
    (hl : ∀ c ∈ s, isLowerHexDigit c = true) : s = hexEncode b :=
  hexDecode_lower_unique s b h hl

/-! ### `Serialize` -/

theorem serialize_def (k : BKind) (bf : BF) :
    BF.serialize k bf = (bf.intoBytes k).map hexEncodePrefixed := rfl

theorem serialize_form (k : BKind) (bf : BF) (hinv : bf.Inv) (hk : k.lenOk bf.len = true) :
    ∃ b, bf.intoBytes k = .ok b ∧ BF.serialize k bf = .ok ([48, 120] ++ hexEncode b) := by
  obtain ⟨b, hb, _⟩ := fromBytes_complete k bf hinv hk
  exact ⟨b, hb, by rw [serialize_def, hb]; rfl⟩

/-- serialization of a well-formed bitfield does not panic (no length condition needed) -/
theorem serialize_no_panic (k : BKind) (bf : BF) (hinv : bf.Inv) : BF.serialize k bf ≠ .panic := by
  rw [serialize_def]
  have := C14.intoBytes_no_panic k bf hinv
  cases h : bf.intoBytes k with
  | ok b => intro e; cases e
  | err => intro e; cases e
  | panic => exact absurd h this

/-- shape of the output: `"0x"`, then `2 * |ssz|` lowercase hex digits -/
theorem serialize_shape (k : BKind) (bf : BF) (s : Bytes) (h : BF.serialize k bf = .ok s) :
    ∃ b, bf.intoBytes k = .ok b ∧ s = [48, 120] ++ hexEncode b ∧ s.length = 2 + 2 * b.length ∧
      ∀ c ∈ s.drop 2, isLowerHexDigit c = true := by
  rw [serialize_def] at h
  cases hb : bf.intoBytes k with
  | ok b =>
    rw [hb] at h
    injection h with h
    subst h
    refine ⟨b, rfl, rfl, ?_, ?_⟩
    · simp only [hexEncodePrefixed, List.length_cons, hexEncode_length]; omega
    · exact hexEncode_chars b
  | err => rw [hb] at h; cases h
  | panic => rw [hb] at h; cases h

/-! ### `Deserialize` -/

theorem deserialize_ok_iff (k : BKind) (s : Bytes) (v : BF) :
    BF.deserialize k s = .ok v ↔
      ∃ h b, s = [48, 120] ++ h ∧ hexDecode h = some b ∧ BF.fromBytes k b = .ok v := by
  unfold BF.deserialize
  constructor
  · intro hd
    cases hp : hexDecodePrefixed s with
    | none => rw [hp] at hd; cases hd
    | some b =>
      rw [hp] at hd
      obtain ⟨h, hs, hh⟩ := (hexDecodePrefixed_some_iff s b).mp hp
      exact ⟨h, b, hs, hh, hd⟩
  · rintro ⟨h, b, rfl, hh, hv⟩
    rw [hexDecodePrefixed_prefix, hh]
    exact hv

/-- the same with the hex condition unfolded: `0x`, an even number of hex digits (either case), and
    the decoded byte string is an accepted SSZ encoding -/
theorem deserialize_ok_iff' (k : BKind) (s : Bytes) :
    (∃ v, BF.deserialize k s = .ok v) ↔
      ∃ h, s = [48, 120] ++ h ∧ h.length % 2 = 0 ∧ (∀ c ∈ h, isHexDigit c = true) ∧
        ∃ b v, hexDecode h = some b ∧ BF.fromBytes k b = .ok v := by
  constructor
  · rintro ⟨v, hv⟩
    obtain ⟨h, b, hs, hh, hf⟩ := (deserialize_ok_iff k s v).mp hv
    obtain ⟨h1, h2⟩ := (Hex.hexDecode_some_iff h).mp ⟨b, hh⟩
    exact ⟨h, hs, h1, h2, b, v, hh, hf⟩
  · rintro ⟨h, hs, _, _, b, v, hh, hf⟩
    exact ⟨v, (deserialize_ok_iff k s v).mpr ⟨h, b, hs, hh, hf⟩⟩

theorem deserialize_no_panic (k : BKind) (s : Bytes) : BF.deserialize k s ≠ .panic := by
  unfold BF.deserialize
  cases hexDecodePrefixed s with
  | none => intro e; cases e
  | some b => exact fromBytes_ne_panic k b

theorem deserialize_err_of_not_ok (k : BKind) (s : Bytes) (h : ∀ v, BF.deserialize k s ≠ .ok v) :
    BF.deserialize k s = .err := by
  cases hd : BF.deserialize k s with
  | ok v => exact absurd hd (h v)
  | err => rfl
  | panic => exact absurd hd (deserialize_no_panic k s)

/-- anything not starting with the two characters `0x` is rejected -/
theorem deserialize_missing_prefix (k : BKind) (s : Bytes) (h : s.take 2 ≠ [48, 120]) :
    BF.deserialize k s = .err := by
  unfold BF.deserialize
  rw [hexDecodePrefixed_none_of_prefix s h]

/-- in particular the upper-case prefix `0X` is rejected -/
theorem deserialize_upper_prefix (k : BKind) (h : Bytes) : BF.deserialize k ([48, 88] ++ h) = .err :=
  deserialize_missing_prefix k _ (by simp)

/-- an odd number of characters after the prefix is rejected -/
theorem deserialize_odd (k : BKind) (h : Bytes) (hodd : h.length % 2 = 1) :
    BF.deserialize k ([48, 120] ++ h) = .err := by
  unfold BF.deserialize
  rw [hexDecodePrefixed_prefix, (hexDecode_none_iff h).mpr (Or.inl hodd)]

/-- a character outside `0-9a-fA-F` after the prefix is rejected -/
theorem deserialize_non_hex (k : BKind) (h : Bytes) (c : UInt8) (hc : c ∈ h) (hn : isHexDigit c = false) :
    BF.deserialize k ([48, 120] ++ h) = .err := by
  unfold BF.deserialize
  rw [hexDecodePrefixed_prefix, (hexDecode_none_iff h).mpr (Or.inr ⟨c, hc, hn⟩)]

/-- valid hex of a byte string the SSZ decoder refuses is rejected -/
theorem deserialize_bad_ssz (k : BKind) (h b : Bytes) (hh : hexDecode h = some b)
    (hb : BF.fromBytes k b = .err) : BF.deserialize k ([48, 120] ++ h) = .err := by
  unfold BF.deserialize
  rw [hexDecodePrefixed_prefix, hh]
  exact hb

/-- case of the digits does not matter (the real `hex::decode` is case-insensitive) -/
theorem deserialize_case_insensitive (k : BKind) (h h' : Bytes) (e : h.map hexVal = h'.map hexVal) :
    BF.deserialize k ([48, 120] ++ h) = BF.deserialize k ([48, 120] ++ h') := by
  unfold BF.deserialize
  rw [hexDecodePrefixed_prefix, hexDecodePrefixed_prefix, hexDecode_congr h h' e]

/-- length bounds and well-formedness hold on the serde path -/
theorem deserialize_valid (k : BKind) (s : Bytes) (v : BF) (h : BF.deserialize k s = .ok v) :
    v.Inv ∧ k.lenOk v.len = true := by
  obtain ⟨_, b, _, _, hf⟩ := (deserialize_ok_iff k s v).mp h
  exact ⟨(fromBytes_sound k b v hf).1, (fromBytes_sound k b v hf).2.1⟩

/-- per behaviour: bitlists at most `N` bits, bitvectors exactly `N`, dynamic a positive multiple of 8 -/
theorem deserialize_len (s : Bytes) (v : BF) :
    (∀ N, BF.deserialize (.variable N) s = .ok v → v.len ≤ N) ∧
    (∀ N, BF.deserialize (.fixed N) s = .ok v → v.len = N) ∧
    (BF.deserialize .dynamic s = .ok v → 0 < v.len ∧ v.len % 8 = 0) := by
  refine ⟨fun N h => ?_, fun N h => ?_, fun h => ?_⟩
  · simpa [BKind.lenOk] using (deserialize_valid _ s v h).2
  · simpa [BKind.lenOk] using (deserialize_valid _ s v h).2
  · simpa [BKind.lenOk] using (deserialize_valid _ s v h).2

/-! ### round trips -/

theorem serde_roundtrip (k : BKind) (bf : BF) (hinv : bf.Inv) (hk : k.lenOk bf.len = true) :
    ∃ s, BF.serialize k bf = .ok s ∧ BF.deserialize k s = .ok bf := by
  obtain ⟨b, hb, hf⟩ := fromBytes_complete k bf hinv hk
  refine ⟨[48, 120] ++ hexEncode b, by rw [serialize_def, hb]; rfl, ?_⟩
  exact (deserialize_ok_iff k _ bf).mpr ⟨hexEncode b, b, rfl, Hex.hexDecode_hexEncode b, hf⟩

/-- the other direction: re-serializing an accepted string gives the lowercase form of the same hex,
    i.e. `"0x"` + lowercase hex of the bytes that were decoded -/
theorem serialize_deserialize (k : BKind) (s : Bytes) (v : BF) (h : BF.deserialize k s = .ok v) :
    ∃ hx b, s = [48, 120] ++ hx ∧ hexDecode hx = some b ∧
      BF.serialize k v = .ok ([48, 120] ++ hexEncode b) := by
  obtain ⟨hx, b, hs, hh, hf⟩ := (deserialize_ok_iff k s v).mp h
  refine ⟨hx, b, hs, hh, ?_⟩
  rw [serialize_def, (fromBytes_sound k b v hf).2.2]; rfl

/-- and exactly `s` when `s` was written in lowercase -/
theorem serialize_deserialize_lower (k : BKind) (s : Bytes) (v : BF) (h : BF.deserialize k s = .ok v)
    (hl : ∀ c ∈ s.drop 2, isLowerHexDigit c = true) : BF.serialize k v = .ok s := by
  obtain ⟨hx, b, rfl, hh, hs⟩ := serialize_deserialize k s v h
  rw [hs, hexDecode_lower_unique hx b hh hl]

/-- serde strings determine the value: two well-formed bitfields with the same serialization are equal -/
theorem serialize_injective (k : BKind) (a b : BF) (ha : a.Inv) (hka : k.lenOk a.len = true)
    (hb : b.Inv) (hkb : k.lenOk b.len = true) (h : BF.serialize k a = BF.serialize k b) : a = b := by
  obtain ⟨s, hs, hd⟩ := serde_roundtrip k a ha hka
  obtain ⟨s', hs', hd'⟩ := serde_roundtrip k b hb hkb
  rw [hs, hs'] at h
  injection h with h
  subst h
  rw [hd] at hd'
  injection hd'

/-! ### instances -/

-- "0x0d": the 3-bit bitlist 1,0,1 (bits 0b101, delimiter at position 3 → byte 0x0d)
example : BF.serialize (.variable 8) ⟨[0x05], 3⟩ = .ok [48, 120, 48, 100] := by decide
example : "0x0d".toList.map Char.toNat = [48, 120, 48, 100] := by decide
example : BF.deserialize (.variable 8) [48, 120, 48, 100] = .ok ⟨[0x05], 3⟩ := by decide
example : (⟨[0x05], 3⟩ : BF).abs = [true, false, true] := by decide
-- "0x0D": upper-case digits are accepted
example : BF.deserialize (.variable 8) [48, 120, 48, 68] = .ok ⟨[0x05], 3⟩ := by decide
-- "0d": no prefix
example : BF.deserialize (.variable 8) [48, 100] = .err := by decide
-- "0x0": odd length
example : BF.deserialize (.variable 8) [48, 120, 48] = .err := by decide
-- "0X0d": upper-case prefix
example : BF.deserialize (.variable 8) [48, 88, 48, 100] = .err := by decide
-- "0x0g": not a hex digit
example : BF.deserialize (.variable 8) [48, 120, 48, 103] = .err := by decide
-- "0x": empty hex is valid hex of the empty byte string, which no bitfield type accepts
example : BF.deserialize (.variable 8) [48, 120] = .err := by decide
example : BF.deserialize (.fixed 8) [48, 120] = .err := by decide
example : BF.deserialize .dynamic [48, 120] = .err := by decide
-- "0x0d" for a bitlist of capacity 2: valid hex, SSZ decoding refuses (3 bits > 2)
example : BF.deserialize (.variable 2) [48, 120, 48, 100] = .err := by decide
-- bitvector of 8 bits 0xab ↔ "0xab"; "0xAB" and "0xaB" read back the same
example : BF.serialize (.fixed 8) ⟨[0xab], 8⟩ = .ok [48, 120, 97, 98] := by decide
example : BF.deserialize (.fixed 8) [48, 120, 97, 98] = .ok ⟨[0xab], 8⟩ := by decide
example : BF.deserialize (.fixed 8) [48, 120, 65, 66] = .ok ⟨[0xab], 8⟩ := by decide
example : BF.deserialize (.fixed 8) [48, 120, 97, 66] = .ok ⟨[0xab], 8⟩ := by decide
-- dynamic bitvector of 16 bits ↔ "0x1234"
example : BF.serialize .dynamic ⟨[0x12, 0x34], 16⟩ = .ok [48, 120, 49, 50, 51, 52] := by decide
example : BF.deserialize .dynamic [48, 120, 49, 50, 51, 52] = .ok ⟨[0x12, 0x34], 16⟩ := by decide
-- the hex codec on its own
example : hexEncode [0x00, 0x0f, 0xa0, 0xff] = [48, 48, 48, 102, 97, 48, 102, 102] := by decide
example : hexDecode [48, 48, 48, 70, 65, 48, 102, 70] = some [0x00, 0x0f, 0xa0, 0xff] := by decide

end Ssz.C18
