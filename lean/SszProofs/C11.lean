import SszModel.BitPool
import SszProofs.Lemmas.BitCore
import SszProofs.Lemmas.BitOps
import SszProofs.Lemmas.PoolLemmas
import SszProofs.C13
import SszProofs.C14
set_option linter.unusedSimpArgs false
set_option linter.unusedVariables false
/-
  C11 — bitfields behave as boolean sequences under any operation history.

  `specStep` is a machine over plain `List Bool` pools, written without any reference to bytes
  (decoding excepted, which is stated with the SSZ validity predicates and `Spec.bitsOf`). The pool
  machine of the model (`BPool.step`, the one the compiled driver runs and the Rust harness mirrors
  on `BitList<N>` / `BitVector<N>` / `BitVectorDynamic`) refines it through `BF.abs`, one step and
  hence every history; every bitfield of every reachable pool is `Valid` (minimal byte length, no
  bit at or beyond `len`, length obeying the behaviour's rule), no operation panics, failed
  operations leave the pool unchanged, and every observation is a function of the sequence.
-/
namespace Ssz.C11
open Ssz Ssz.BC Ssz.Ops Ssz.C13 Ssz.Pool

/-! ### 1. the specification machine over boolean sequences -/

inductive SOut where
  | pushed (l : List Bool)               -- a new sequence was appended to the pool
  | mutated (ok : Bool) (l : List Bool)  -- in-place operation: verdict and the sequence afterwards
  | flag (b : Bool)
  | bit (o : Option Bool)
  | err | panic | badRef
deriving Repr, DecidableEq

/-- how an output of the implementation model is observed -/
def absOut : BOut → SOut
  | .pushed bf => .pushed bf.abs
  | .mutated ok bf => .mutated ok bf.abs
  | .flag b => .flag b
  | .bit o => .bit o
  | .err => .err
  | .panic => .panic
  | .badRef => .badRef

/-- element-wise combination on `n` positions, missing positions being `false` -/
def zipN (f : Bool → Bool → Bool) (n : Nat) (a b : List Bool) : List Bool :=
  (List.range n).map fun i => f (a.getD i false) (b.getD i false)

/-- shift up by `n`: positions below `n` are `false`, position `i ≥ n` takes the old `i - n` -/
def shiftSeq (l : List Bool) (n : Nat) : List Bool :=
  (List.range l.length).map fun i => if i < n then false else l.getD (i - n) false

/-- `with_capacity(n)` / `new()` / `new(n)` -/
def capSeq : BKind → Nat → Option (List Bool)
  | .fixed N, _ => some (List.replicate N false)
  | .variable N, n => if (BKind.variable N).lenOk n then some (List.replicate n false) else none
  | .dynamic, n => if BKind.dynamic.lenOk n then some (List.replicate n false) else none

/-- the sequence the SSZ specification assigns to a byte string -/
def decodeSeq : BKind → Bytes → Option (List Bool)
  | .variable N, b =>
    if Spec.bitlistValid N b then
      some (Spec.bitsOf b (8 * (b.length - 1) + (b.getLast?.getD 0).toNat.log2))   -- below the delimiter
    else none
  | .fixed N, b => if Spec.bitvectorValid N b then some (Spec.bitsOf b N) else none
  | .dynamic, b => if b = [] then none else some (Spec.bitsOf b (8 * b.length))

/-- result lengths of `union` / `intersection` per behaviour -/
def unionLen : BKind → Nat → Nat → Nat
  | .variable _, m, n => max m n
  | .fixed N, _, _ => N
  | .dynamic, m, n => max m n
def interLenS : BKind → Nat → Nat → Nat
  | .variable _, m, n => min m n
  | .fixed N, _, _ => N
  | .dynamic, m, n => max m n

def pushS (pool : List (List Bool)) : Option (List Bool) → List (List Bool) × SOut
  | some l => (pool ++ [l], .pushed l)
  | none => (pool, .err)

def specStep (k : BKind) (pool : List (List Bool)) : BOp → List (List Bool) × SOut
  | .cap n => pushS pool (capSeq k n)
  | .bits l => pushS pool (if k.lenOk l.length then some l else none)
  | .fromBytes b => pushS pool (decodeSeq k b)
  | .set r i v => match pool[r]? with
    | none => (pool, .badRef)
    | some l =>
      if i < l.length then (pool.set r (l.set i v), .mutated true (l.set i v))
      else (pool, .mutated false l)
  | .get r i => match pool[r]? with
    | none => (pool, .badRef)
    | some l => (pool, .bit l[i]?)
  | .shift r n => match pool[r]? with
    | none => (pool, .badRef)
    | some l =>
      if n ≤ l.length then (pool.set r (shiftSeq l n), .mutated true (shiftSeq l n))
      else (pool, .mutated false l)
  | .diffin r s => match pool[r]?, pool[s]? with
    | some a, some b =>
      let a' := zipN (fun x y => x && !y) a.length a b
      (pool.set r a', .mutated true a')
    | _, _ => (pool, .badRef)
  | .clone r => match pool[r]? with
    | none => (pool, .badRef)
    | some l => pushS pool (some l)
  | .redec r => match pool[r]? with
    | none => (pool, .badRef)
    | some l => pushS pool (some l)
  | .union r s => match pool[r]?, pool[s]? with
    | some a, some b => pushS pool (some (zipN (· || ·) (unionLen k a.length b.length) a b))
    | _, _ => (pool, .badRef)
  | .inter r s => match pool[r]?, pool[s]? with
    | some a, some b => pushS pool (some (zipN (· && ·) (interLenS k a.length b.length) a b))
    | _, _ => (pool, .badRef)
  | .diff r s => match pool[r]?, pool[s]? with
    | some a, some b => pushS pool (some (zipN (fun x y => x && !y) a.length a b))
    | _, _ => (pool, .badRef)
  | .subset r s => match pool[r]?, pool[s]? with
    | some a, some b => (pool, .flag (subsetSeq a b))
    | _, _ => (pool, .badRef)
  | .eq r s => match pool[r]?, pool[s]? with
    | some a, some b => (pool, .flag (decide (a = b)))
    | _, _ => (pool, .badRef)

def specRun (k : BKind) : List (List Bool) → List BOp → List (List Bool) × List SOut
  | pool, [] => (pool, [])
  | pool, op :: ops =>
    let (pool', o) := specStep k pool op
    let (pool'', os) := specRun k pool' ops
    (pool'', o :: os)

/-- the shift of the specification machine, in list vocabulary -/
theorem shiftSeq_eq_take (l : List Bool) (n : Nat) (hn : n ≤ l.length) :
    shiftSeq l n = (List.replicate n false ++ l).take l.length := shift_eq_take l n hn

/-! ### 2. one step: invariant, refinement, failed operations -/

/-- the statement proven per operation: the new pool is valid, its abstraction is the pool of the
    specification machine, and so is the output -/
def StepOk (k : BKind) (pool : List BF) (op : BOp) : Prop :=
  (∀ bf ∈ (BPool.step k pool op).1, Valid k bf) ∧
  specStep k (pool.map BF.abs) op =
    (((BPool.step k pool op).1).map BF.abs, absOut (BPool.step k pool op).2)

theorem pushRes_ok (k : BKind) (pool : List BF) (bf : BF) (hv : ∀ x ∈ pool, Valid k x)
    (h : Valid k bf) :
    (∀ x ∈ (pushRes pool (.ok bf)).1, Valid k x) ∧
    pushS (pool.map BF.abs) (some bf.abs) =
      ((pushRes pool (.ok bf)).1.map BF.abs, absOut (pushRes pool (.ok bf)).2) := by
  refine ⟨forall_mem_append_one _ pool bf hv h, ?_⟩
  simp only [pushRes, pushS, map_abs_push, absOut]

theorem pushRes_err (k : BKind) (pool : List BF) (hv : ∀ x ∈ pool, Valid k x) :
    (∀ x ∈ (pushRes pool (.err : Res BF)).1, Valid k x) ∧
    pushS (pool.map BF.abs) none =
      ((pushRes pool (.err : Res BF)).1.map BF.abs, absOut (pushRes pool (.err : Res BF)).2) :=
  ⟨hv, rfl⟩

theorem step_cap (k : BKind) (pool : List BF) (n : Nat) (hv : ∀ x ∈ pool, Valid k x) :
    StepOk k pool (.cap n) := by
  unfold StepOk
  simp only [BPool.step, specStep]
  cases k with
  | «variable» N =>
    by_cases hn : (BKind.variable N).lenOk n = true
    · rw [newOf_ok _ n hn]
      have := pushRes_ok _ pool (BF.newFixed n) hv ⟨newFixed_inv n, hn⟩
      rw [newFixed_abs] at this
      simpa only [capSeq, hn, if_true, Res.ofOption] using this
    · have : newOf (.variable N) n = none := by
        cases h : newOf (.variable N) n with
        | none => rfl
        | some bf =>
          have := ((newOf_eq _ n bf).mp h).1
          exact absurd ((lenOk_variable N n).mpr this) hn
      rw [this]
      simpa only [capSeq, hn, if_false, Bool.false_eq_true, Res.ofOption] using pushRes_err _ pool hv
  | fixed N =>
    have e : newOf (.fixed N) n = some (BF.newFixed N) := rfl
    rw [e]
    have := pushRes_ok _ pool (BF.newFixed N) hv ⟨newFixed_inv N, (lenOk_fixed N N).mpr rfl⟩
    rw [newFixed_abs] at this
    simpa only [capSeq, Res.ofOption] using this
  | dynamic =>
    by_cases hn : BKind.dynamic.lenOk n = true
    · rw [newOf_ok _ n hn]
      have := pushRes_ok _ pool (BF.newFixed n) hv ⟨newFixed_inv n, hn⟩
      rw [newFixed_abs] at this
      simpa only [capSeq, hn, if_true, Res.ofOption] using this
    · have : newOf .dynamic n = none := by
        cases h : newOf .dynamic n with
        | none => rfl
        | some bf =>
          have := ((newOf_eq _ n bf).mp h).1
          exact absurd ((lenOk_dynamic n).mpr this) hn
      rw [this]
      simpa only [capSeq, hn, if_false, Bool.false_eq_true, Res.ofOption] using pushRes_err _ pool hv

theorem step_bits (k : BKind) (pool : List BF) (l : List Bool) (hv : ∀ x ∈ pool, Valid k x) :
    StepOk k pool (.bits l) := by
  unfold StepOk
  simp only [BPool.step, specStep]
  by_cases hn : k.lenOk l.length = true
  · have h := (ofBitsK_eq k l _).mpr ⟨hn, rfl⟩
    obtain ⟨hval, habs⟩ := ofBitsK_valid k l _ h
    rw [h, if_pos hn]
    have := pushRes_ok _ pool (BF.ofBits l) hv hval
    rw [habs] at this
    simpa only [Res.ofOption] using this
  · have h : ofBitsK k l = none := ofBitsK_none k l (by simpa using hn)
    rw [h, if_neg hn]
    simpa only [Res.ofOption] using pushRes_err _ pool hv

theorem step_fromBytes (k : BKind) (pool : List BF) (b : Bytes) (hv : ∀ x ∈ pool, Valid k x) :
    StepOk k pool (.fromBytes b) := by
  unfold StepOk
  simp only [BPool.step, specStep]
  have key : ∀ bf, BF.fromBytes k b = .ok bf → decodeSeq k b = some bf.abs →
      (∀ x ∈ (pushRes pool (BF.fromBytes k b)).1, Valid k x) ∧
      pushS (pool.map BF.abs) (decodeSeq k b) =
        ((pushRes pool (BF.fromBytes k b)).1.map BF.abs, absOut (pushRes pool (BF.fromBytes k b)).2) := by
    intro bf h1 h2
    rw [h1, h2]
    exact pushRes_ok _ pool bf hv (fromBytes_valid k b bf h1)
  have key' : BF.fromBytes k b = .err → decodeSeq k b = none →
      (∀ x ∈ (pushRes pool (BF.fromBytes k b)).1, Valid k x) ∧
      pushS (pool.map BF.abs) (decodeSeq k b) =
        ((pushRes pool (BF.fromBytes k b)).1.map BF.abs, absOut (pushRes pool (BF.fromBytes k b)).2) := by
    intro h1 h2
    rw [h1, h2]
    exact pushRes_err _ pool hv
  cases k with
  | «variable» N =>
    by_cases hval : Spec.bitlistValid N b = true
    · apply key _ (by rw [fromBytes_variable, if_pos hval])
      simp only [decodeSeq, hval, if_true, ofBits_abs']
    · apply key' (by rw [fromBytes_variable, if_neg hval])
      simp only [decodeSeq, hval, if_false, Bool.false_eq_true]
  | fixed N =>
    by_cases hval : Spec.bitvectorValid N b = true
    · apply key _ (by rw [fromBytes_fixed, if_pos hval])
      simp only [decodeSeq, hval, if_true, abs_mk_bitsOf]
    · apply key' (by rw [fromBytes_fixed, if_neg hval])
      simp only [decodeSeq, hval, if_false, Bool.false_eq_true]
  | dynamic =>
    by_cases hb : b = []
    · apply key' (by rw [fromBytes_dynamic, if_pos hb])
      simp only [decodeSeq, hb, if_true]
    · apply key _ (by rw [fromBytes_dynamic, if_neg hb])
      simp only [decodeSeq, hb, if_false, abs_mk_bitsOf]

theorem step_set (k : BKind) (pool : List BF) (r i : Nat) (v : Bool) (hv : ∀ x ∈ pool, Valid k x) :
    StepOk k pool (.set r i v) := by
  unfold StepOk
  simp only [BPool.step, specStep, getElem?_map_abs]
  cases hr : pool[r]? with
  | none => exact ⟨hv, rfl⟩
  | some bf =>
    have hbf := hv bf (mem_of_get pool r bf hr)
    simp only [Option.map_some, abs_length]
    rcases set_cases bf hbf.1 i v with ⟨hi, bf', hs, hinv, hlen, habs⟩ | ⟨hi, hs⟩
    · rw [hs, if_pos hi]
      refine ⟨forall_mem_set _ pool r bf' hv ⟨hinv, by rw [hlen]; exact hbf.2⟩, ?_⟩
      simp only [map_abs_set, absOut, habs]
    · rw [hs, if_neg (by omega)]
      exact ⟨hv, rfl⟩

theorem step_get (k : BKind) (pool : List BF) (r i : Nat) (hv : ∀ x ∈ pool, Valid k x) :
    StepOk k pool (.get r i) := by
  unfold StepOk
  simp only [BPool.step, specStep, getElem?_map_abs]
  cases hr : pool[r]? with
  | none => exact ⟨hv, rfl⟩
  | some bf =>
    have hbf := hv bf (mem_of_get pool r bf hr)
    refine ⟨hv, ?_⟩
    simp only [Option.map_some, absOut, get_eq_abs bf hbf.1 i]

theorem step_shift (k : BKind) (pool : List BF) (r n : Nat) (hv : ∀ x ∈ pool, Valid k x) :
    StepOk k pool (.shift r n) := by
  unfold StepOk
  simp only [BPool.step, specStep, getElem?_map_abs]
  cases hr : pool[r]? with
  | none => exact ⟨hv, rfl⟩
  | some bf =>
    have hbf := hv bf (mem_of_get pool r bf hr)
    simp only [Option.map_some, abs_length]
    rcases shiftUp_cases bf hbf.1 n with ⟨hn, bf', hs, hinv, hlen, habs⟩ | ⟨hn, hs⟩
    · rw [hs, if_pos hn]
      refine ⟨forall_mem_set _ pool r bf' hv ⟨hinv, by rw [hlen]; exact hbf.2⟩, ?_⟩
      simp only [map_abs_set, absOut, habs, shiftSeq, abs_length]
    · rw [hs, if_neg (by omega)]
      exact ⟨hv, rfl⟩

theorem step_diffin (k : BKind) (pool : List BF) (r s : Nat) (hv : ∀ x ∈ pool, Valid k x) :
    StepOk k pool (.diffin r s) := by
  unfold StepOk
  simp only [BPool.step, specStep, getElem?_map_abs]
  cases hr : pool[r]? with
  | none => exact ⟨hv, rfl⟩
  | some a =>
    cases hs : pool[s]? with
    | none => exact ⟨hv, rfl⟩
    | some b =>
      have ha := hv a (mem_of_get pool r a hr)
      have hb := hv b (mem_of_get pool s b hs)
      obtain ⟨_, _, habs⟩ := differenceInplace_spec a b ha.1 hb.1
      refine ⟨forall_mem_set _ pool r _ hv (differenceInplace_valid k a b ha hb.1), ?_⟩
      simp only [Option.map_some, map_abs_set, absOut, habs, zipN, abs_length]

theorem step_clone (k : BKind) (pool : List BF) (r : Nat) (hv : ∀ x ∈ pool, Valid k x) :
    StepOk k pool (.clone r) := by
  unfold StepOk
  simp only [BPool.step, specStep, getElem?_map_abs]
  cases hr : pool[r]? with
  | none => exact ⟨hv, rfl⟩
  | some bf => exact pushRes_ok k pool bf hv (hv bf (mem_of_get pool r bf hr))

theorem step_redec (k : BKind) (pool : List BF) (r : Nat) (hv : ∀ x ∈ pool, Valid k x) :
    StepOk k pool (.redec r) := by
  unfold StepOk
  simp only [BPool.step, specStep, getElem?_map_abs]
  cases hr : pool[r]? with
  | none => exact ⟨hv, rfl⟩
  | some bf =>
    have hbf := hv bf (mem_of_get pool r bf hr)
    simp only [Option.map_some, redec_ok k bf hbf]
    exact pushRes_ok k pool bf hv hbf

theorem unionLen_eq (k : BKind) (a b : BF) (ha : Valid k a) (hb : Valid k b) :
    unionLen k a.len b.len = max a.len b.len := by
  cases k with
  | «variable» N => rfl
  | fixed N =>
    have e1 := (lenOk_fixed _ _).mp ha.2
    have e2 := (lenOk_fixed _ _).mp hb.2
    simp only [unionLen, e1, e2, Nat.max_self]
  | dynamic => rfl

theorem interLenS_eq (k : BKind) (a b : BF) (ha : Valid k a) (hb : Valid k b) :
    interLenS k a.len b.len = interLen k a.len b.len := by
  cases k with
  | «variable» N => rfl
  | fixed N =>
    have e1 := (lenOk_fixed _ _).mp ha.2
    have e2 := (lenOk_fixed _ _).mp hb.2
    simp only [interLenS, interLen, e1, e2, Nat.min_self]
  | dynamic => rfl

theorem step_union (k : BKind) (pool : List BF) (r s : Nat) (hv : ∀ x ∈ pool, Valid k x) :
    StepOk k pool (.union r s) := by
  unfold StepOk
  simp only [BPool.step, specStep, getElem?_map_abs]
  cases hr : pool[r]? with
  | none => exact ⟨hv, rfl⟩
  | some a =>
    cases hs : pool[s]? with
    | none => exact ⟨hv, rfl⟩
    | some b =>
      have ha := hv a (mem_of_get pool r a hr)
      have hb := hv b (mem_of_get pool s b hs)
      obtain ⟨res, h1, h2, h3, h4, h5⟩ := unionK_spec k a b ha.1 hb.1 ha.2 hb.2
      simp only [Option.map_some, h1, abs_length, unionLen_eq k a b ha hb]
      have := pushRes_ok k pool res hv ⟨h2, h3⟩
      rw [h5, h4] at this
      exact this

theorem step_inter (k : BKind) (pool : List BF) (r s : Nat) (hv : ∀ x ∈ pool, Valid k x) :
    StepOk k pool (.inter r s) := by
  unfold StepOk
  simp only [BPool.step, specStep, getElem?_map_abs]
  cases hr : pool[r]? with
  | none => exact ⟨hv, rfl⟩
  | some a =>
    cases hs : pool[s]? with
    | none => exact ⟨hv, rfl⟩
    | some b =>
      have ha := hv a (mem_of_get pool r a hr)
      have hb := hv b (mem_of_get pool s b hs)
      obtain ⟨res, h1, h2, h3, h4, h5⟩ := interK_spec k a b ha.1 hb.1 ha.2 hb.2
      simp only [Option.map_some, h1, abs_length, interLenS_eq k a b ha hb]
      have := pushRes_ok k pool res hv ⟨h2, h3⟩
      rw [h5, h4] at this
      exact this

theorem step_diff (k : BKind) (pool : List BF) (r s : Nat) (hv : ∀ x ∈ pool, Valid k x) :
    StepOk k pool (.diff r s) := by
  unfold StepOk
  simp only [BPool.step, specStep, getElem?_map_abs]
  cases hr : pool[r]? with
  | none => exact ⟨hv, rfl⟩
  | some a =>
    cases hs : pool[s]? with
    | none => exact ⟨hv, rfl⟩
    | some b =>
      have ha := hv a (mem_of_get pool r a hr)
      have hb := hv b (mem_of_get pool s b hs)
      obtain ⟨_, _, habs⟩ := difference_spec a b ha.1 hb.1
      have := pushRes_ok k pool (a.difference b) hv (difference_valid k a b ha hb.1)
      rw [habs] at this
      simp only [Option.map_some, abs_length]
      exact this

theorem step_subset (k : BKind) (pool : List BF) (r s : Nat) (hv : ∀ x ∈ pool, Valid k x) :
    StepOk k pool (.subset r s) := by
  unfold StepOk
  simp only [BPool.step, specStep, getElem?_map_abs]
  cases hr : pool[r]? with
  | none => exact ⟨hv, rfl⟩
  | some a =>
    cases hs : pool[s]? with
    | none => exact ⟨hv, rfl⟩
    | some b =>
      have ha := hv a (mem_of_get pool r a hr)
      have hb := hv b (mem_of_get pool s b hs)
      refine ⟨hv, ?_⟩
      simp only [Option.map_some, absOut, isSubset_eq a b ha.1 hb.1]

theorem step_eq (k : BKind) (pool : List BF) (r s : Nat) (hv : ∀ x ∈ pool, Valid k x) :
    StepOk k pool (.eq r s) := by
  unfold StepOk
  simp only [BPool.step, specStep, getElem?_map_abs]
  cases hr : pool[r]? with
  | none => exact ⟨hv, rfl⟩
  | some a =>
    cases hs : pool[s]? with
    | none => exact ⟨hv, rfl⟩
    | some b =>
      have ha := hv a (mem_of_get pool r a hr)
      have hb := hv b (mem_of_get pool s b hs)
      refine ⟨hv, ?_⟩
      simp only [Option.map_some, absOut, decide_eq_abs a b ha.1 hb.1]

/-- every operation, from a valid pool -/
theorem step_ok (k : BKind) (pool : List BF) (op : BOp) (hv : ∀ bf ∈ pool, Valid k bf) :
    StepOk k pool op := by
  cases op with
  | cap n => exact step_cap k pool n hv
  | bits l => exact step_bits k pool l hv
  | fromBytes b => exact step_fromBytes k pool b hv
  | set r i v => exact step_set k pool r i v hv
  | get r i => exact step_get k pool r i hv
  | shift r n => exact step_shift k pool r n hv
  | diffin r s => exact step_diffin k pool r s hv
  | clone r => exact step_clone k pool r hv
  | redec r => exact step_redec k pool r hv
  | union r s => exact step_union k pool r s hv
  | inter r s => exact step_inter k pool r s hv
  | diff r s => exact step_diff k pool r s hv
  | subset r s => exact step_subset k pool r s hv
  | eq r s => exact step_eq k pool r s hv

/-- the invariant is preserved by every operation -/
theorem inv_step (k : BKind) (pool : List BF) (op : BOp) (hv : ∀ bf ∈ pool, Valid k bf) :
    ∀ bf ∈ (BPool.step k pool op).1, Valid k bf := (step_ok k pool op hv).1

/-- refinement, pools: the boolean-sequence machine started on the abstraction of the pool ends
    on the abstraction of the new pool -/
theorem refine_step (k : BKind) (pool : List BF) (op : BOp) (hv : ∀ bf ∈ pool, Valid k bf) :
    (specStep k (pool.map BF.abs) op).1 = ((BPool.step k pool op).1).map BF.abs := by
  rw [(step_ok k pool op hv).2]

/-- refinement, outputs -/
theorem refine_step_out (k : BKind) (pool : List BF) (op : BOp) (hv : ∀ bf ∈ pool, Valid k bf) :
    (specStep k (pool.map BF.abs) op).2 = absOut (BPool.step k pool op).2 := by
  rw [(step_ok k pool op hv).2]

/-- the specification machine has no panic output at all -/
theorem specStep_ne_panic (k : BKind) (pool : List (List Bool)) (op : BOp) :
    (specStep k pool op).2 ≠ .panic := by
  have hp : ∀ o, (pushS pool o).2 ≠ .panic := by
    intro o; cases o <;> (intro e; cases e)
  cases op with
  | cap n => exact hp _
  | bits l => exact hp _
  | fromBytes b => exact hp _
  | set r i v =>
    simp only [specStep]
    cases pool[r]? with
    | none => intro e; cases e
    | some l => by_cases h : i < l.length <;> simp [h]
  | get r i =>
    simp only [specStep]
    cases pool[r]? <;> (intro e; cases e)
  | shift r n =>
    simp only [specStep]
    cases pool[r]? with
    | none => intro e; cases e
    | some l => by_cases h : n ≤ l.length <;> simp [h]
  | diffin r s =>
    simp only [specStep]
    cases pool[r]? <;> cases pool[s]? <;> (intro e; cases e)
  | clone r =>
    simp only [specStep]
    cases pool[r]? <;> (intro e; cases e)
  | redec r =>
    simp only [specStep]
    cases pool[r]? <;> (intro e; cases e)
  | union r s =>
    simp only [specStep]
    cases pool[r]? <;> cases pool[s]? <;> (intro e; cases e)
  | inter r s =>
    simp only [specStep]
    cases pool[r]? <;> cases pool[s]? <;> (intro e; cases e)
  | diff r s =>
    simp only [specStep]
    cases pool[r]? <;> cases pool[s]? <;> (intro e; cases e)
  | subset r s =>
    simp only [specStep]
    cases pool[r]? <;> cases pool[s]? <;> (intro e; cases e)
  | eq r s =>
    simp only [specStep]
    cases pool[r]? <;> cases pool[s]? <;> (intro e; cases e)

/-- from a valid pool the implementation model never panics (no `expect`, `unwrap`,
    `unreachable!` or slice index of the source is reached) -/
theorem step_no_panic (k : BKind) (pool : List BF) (op : BOp) (hv : ∀ bf ∈ pool, Valid k bf) :
    (BPool.step k pool op).2 ≠ .panic := by
  intro h
  have := refine_step_out k pool op hv
  rw [h] at this
  exact specStep_ne_panic k _ op this

/-- a failed operation (`set`/`shift_up` returning `Err`, or a refused construction) leaves the
    pool unchanged; this holds for every pool -/
theorem failed_op_unchanged (k : BKind) (pool : List BF) (op : BOp)
    (h : (∃ bf, (BPool.step k pool op).2 = .mutated false bf) ∨ (BPool.step k pool op).2 = .err) :
    (BPool.step k pool op).1 = pool := by
  have hp : ∀ res : Res BF, ((∃ bf, (pushRes pool res).2 = .mutated false bf) ∨ (pushRes pool res).2 = .err) →
      (pushRes pool res).1 = pool := by
    intro res hres
    cases res with
    | ok bf => rcases hres with ⟨_, e⟩ | e <;> cases e
    | err => rfl
    | panic => rfl
  revert h
  cases op with
  | cap n => exact hp _
  | bits l => exact hp _
  | fromBytes b => exact hp _
  | set r i v =>
    simp only [BPool.step]
    cases pool[r]? with
    | none => intro _; rfl
    | some bf =>
      simp only
      cases bf.set i v with
      | none => intro _; rfl
      | some bf' => intro h; rcases h with ⟨_, e⟩ | e <;> cases e
  | get r i =>
    simp only [BPool.step]
    cases pool[r]? <;> (intro _; rfl)
  | shift r n =>
    simp only [BPool.step]
    cases pool[r]? with
    | none => intro _; rfl
    | some bf =>
      simp only
      cases bf.shiftUp n with
      | err => intro _; rfl
      | panic => intro _; rfl
      | ok bf' => intro h; rcases h with ⟨_, e⟩ | e <;> cases e
  | diffin r s =>
    simp only [BPool.step]
    cases pool[r]? <;> cases pool[s]? <;>
      first | (intro _; rfl) | (intro h; rcases h with ⟨_, e⟩ | e <;> cases e)
  | clone r =>
    simp only [BPool.step]
    cases pool[r]? with
    | none => intro _; rfl
    | some bf => exact hp _
  | redec r =>
    simp only [BPool.step]
    cases pool[r]? with
    | none => intro _; rfl
    | some bf => exact hp _
  | union r s =>
    simp only [BPool.step]
    cases pool[r]? <;> cases pool[s]? <;> first | (intro _; rfl) | exact hp _
  | inter r s =>
    simp only [BPool.step]
    cases pool[r]? <;> cases pool[s]? <;> first | (intro _; rfl) | exact hp _
  | diff r s =>
    simp only [BPool.step]
    cases pool[r]? <;> cases pool[s]? <;> first | (intro _; rfl) | exact hp _
  | subset r s =>
    simp only [BPool.step]
    cases pool[r]? <;> cases pool[s]? <;> (intro _; rfl)
  | eq r s =>
    simp only [BPool.step]
    cases pool[r]? <;> cases pool[s]? <;> (intro _; rfl)

/-- when exactly `set` fails, on a valid pool: the index is out of range — the only failing path of
    the source, taken before anything is written — and the reported value is the old one -/
theorem set_fails_iff (k : BKind) (pool : List BF) (r i : Nat) (v : Bool) (bf : BF)
    (hv : ∀ x ∈ pool, Valid k x) (hr : pool[r]? = some bf) :
    ((BPool.step k pool (.set r i v)).2 = .mutated false bf ↔ bf.len ≤ i) ∧
    (i < bf.len → ∃ bf', (BPool.step k pool (.set r i v)) = (pool.set r bf', .mutated true bf') ∧
      bf'.abs = bf.abs.set i v) := by
  have hbf := hv bf (mem_of_get pool r bf hr)
  simp only [BPool.step, hr]
  rcases set_cases bf hbf.1 i v with ⟨hi, bf', hs, _, _, habs⟩ | ⟨hi, hs⟩
  · rw [hs]
    refine ⟨⟨fun e => (by cases e), fun h => (by omega)⟩, fun _ => ⟨bf', rfl, habs⟩⟩
  · rw [hs]
    exact ⟨⟨fun _ => hi, fun _ => rfl⟩, fun h => by omega⟩

/-- when exactly `shift_up` fails, on a valid pool: `n > len`, the early return of the source
    before its first loop — so the receiver is untouched; the loops themselves never fail -/
theorem shift_fails_iff (k : BKind) (pool : List BF) (r n : Nat) (bf : BF)
    (hv : ∀ x ∈ pool, Valid k x) (hr : pool[r]? = some bf) :
    ((BPool.step k pool (.shift r n)).2 = .mutated false bf ↔ bf.len < n) ∧
    (n ≤ bf.len → ∃ bf', (BPool.step k pool (.shift r n)) = (pool.set r bf', .mutated true bf') ∧
      bf'.abs = shiftSeq bf.abs n) := by
  have hbf := hv bf (mem_of_get pool r bf hr)
  simp only [BPool.step, hr]
  rcases shiftUp_cases bf hbf.1 n with ⟨hn, bf', hs, _, _, habs⟩ | ⟨hn, hs⟩
  · rw [hs]
    refine ⟨⟨fun e => (by cases e), fun h => (by omega)⟩, fun _ => ⟨bf', rfl, ?_⟩⟩
    rw [habs, shiftSeq, abs_length]
  · rw [hs]
    exact ⟨⟨fun _ => hn, fun _ => rfl⟩, fun h => by omega⟩

/-! ### 3. every history -/

theorem run_nil (k : BKind) (pool : List BF) : BPool.run k pool [] = (pool, []) := rfl

theorem run_cons (k : BKind) (pool : List BF) (op : BOp) (ops : List BOp) :
    BPool.run k pool (op :: ops) =
      ((BPool.run k (BPool.step k pool op).1 ops).1,
        (BPool.step k pool op).2 :: (BPool.run k (BPool.step k pool op).1 ops).2) := rfl

theorem specRun_cons (k : BKind) (pool : List (List Bool)) (op : BOp) (ops : List BOp) :
    specRun k pool (op :: ops) =
      ((specRun k (specStep k pool op).1 ops).1,
        (specStep k pool op).2 :: (specRun k (specStep k pool op).1 ops).2) := rfl

/-- the invariant along a history, from any valid pool -/
theorem inv_run_from (k : BKind) : ∀ (ops : List BOp) (pool : List BF), (∀ bf ∈ pool, Valid k bf) →
    ∀ bf ∈ (BPool.run k pool ops).1, Valid k bf
  | [], pool, hv => hv
  | op :: ops, pool, hv => by
    rw [run_cons]
    exact inv_run_from k ops _ (inv_step k pool op hv)

/-- refinement along a history, from any valid pool: final pools and output lists correspond -/
theorem refine_run_from (k : BKind) : ∀ (ops : List BOp) (pool : List BF), (∀ bf ∈ pool, Valid k bf) →
    specRun k (pool.map BF.abs) ops =
      ((BPool.run k pool ops).1.map BF.abs, (BPool.run k pool ops).2.map absOut)
  | [], pool, hv => rfl
  | op :: ops, pool, hv => by
    rw [run_cons, specRun_cons, (step_ok k pool op hv).2]
    simp only [refine_run_from k ops _ (inv_step k pool op hv), List.map_cons]

/-- every bitfield in the pool reached by any history from the empty pool is valid -/
theorem inv_run (k : BKind) (ops : List BOp) : ∀ bf ∈ (BPool.run k [] ops).1, Valid k bf :=
  inv_run_from k ops [] (fun _ h => by cases h)

/-- for every history, the outputs of the implementation model seen through `abs` are the outputs
    of the boolean-sequence machine, and so is the final pool -/
theorem refine_run (k : BKind) (ops : List BOp) :
    specRun k [] ops = ((BPool.run k [] ops).1.map BF.abs, (BPool.run k [] ops).2.map absOut) :=
  refine_run_from k ops [] (fun _ h => by cases h)

/-- no history panics -/
theorem run_no_panic_from (k : BKind) : ∀ (ops : List BOp) (pool : List BF), (∀ bf ∈ pool, Valid k bf) →
    BOut.panic ∉ (BPool.run k pool ops).2
  | [], pool, hv => by simp [run_nil]
  | op :: ops, pool, hv => by
    rw [run_cons]
    intro h
    rcases List.mem_cons.mp h with e | e
    · exact step_no_panic k pool op hv e.symm
    · exact run_no_panic_from k ops _ (inv_step k pool op hv) e

theorem run_no_panic (k : BKind) (ops : List BOp) : BOut.panic ∉ (BPool.run k [] ops).2 :=
  run_no_panic_from k ops [] (fun _ h => by cases h)

/-- the pools reachable by histories -/
def Reachable (k : BKind) (pool : List BF) : Prop := ∃ ops, (BPool.run k [] ops).1 = pool

theorem run_append (k : BKind) : ∀ (ops₁ ops₂ : List BOp) (pool : List BF),
    (BPool.run k pool (ops₁ ++ ops₂)).1 = (BPool.run k (BPool.run k pool ops₁).1 ops₂).1
  | [], _, _ => rfl
  | op :: ops₁, ops₂, pool => by
    rw [List.cons_append, run_cons, run_cons]
    exact run_append k ops₁ ops₂ _

theorem reachable_nil (k : BKind) : Reachable k [] := ⟨[], rfl⟩

theorem reachable_step (k : BKind) (pool : List BF) (op : BOp) (h : Reachable k pool) :
    Reachable k (BPool.step k pool op).1 := by
  obtain ⟨ops, rfl⟩ := h
  refine ⟨ops ++ [op], ?_⟩
  rw [run_append]
  rfl

/-- in every reachable state every bitfield is valid: in particular the exposed byte view has the
    minimal length for the bit length and no bit set at or beyond the length -/
theorem reachable_valid (k : BKind) (pool : List BF) (h : Reachable k pool) :
    ∀ bf ∈ pool, Valid k bf ∧ bf.bytes.length = bytesForBitLen bf.len ∧
      ∀ i, bf.len ≤ i → bit bf.bytes i = false := by
  obtain ⟨ops, rfl⟩ := h
  intro bf hbf
  have hv := inv_run k ops bf hbf
  exact ⟨hv, hv.1.1, hv.1.2⟩

/-- the state after every prefix of a history is valid too -/
theorem inv_run_prefix (k : BKind) (ops : List BOp) (n : Nat) :
    ∀ bf ∈ (BPool.run k [] (ops.take n)).1, Valid k bf := inv_run k (ops.take n)

/-! ### 4. observations are functions of the boolean sequence -/

/-- the SSZ type whose serialization `into_bytes` produces -/
def tyOf : BKind → Ty
  | .variable N => .bitlist N
  | .fixed N => .bitvector N
  | .dynamic => .bitvectorDyn

/-- all observations of a bitfield except `get` (which takes an index) -/
structure Obs where
  len : Nat
  iter : List Bool
  numSetBits : Nat
  highestSetBit : Option Nat
  isZero : Bool
  hashInput : Bytes × Nat
  encoding : Res Bytes
  bytes : Bytes
deriving DecidableEq

/-- what the implementation model shows -/
def obsImpl (k : BKind) (bf : BF) : Obs :=
  { len := bf.len, iter := bf.iter, numSetBits := bf.numSetBits, highestSetBit := bf.highestSetBit,
    isZero := bf.isZero, hashInput := bf.hashInput, encoding := bf.intoBytes k, bytes := bf.bytes }

/-- the same observations defined on a plain boolean sequence -/
def obsSpec (k : BKind) (l : List Bool) : Obs :=
  { len := l.length, iter := l, numSetBits := (l.filter id).length, highestSetBit := lastTrue l,
    isZero := l.all (fun b => !b),
    hashInput := (Spec.packBits l (bytesForBitLen l.length), l.length),
    encoding := .ok (Spec.ser (tyOf k) (.bits l)),
    bytes := Spec.packBits l (bytesForBitLen l.length) }

/-- `into_bytes` / `as_ssz_bytes` of a valid bitfield is the specification's serialization of its
    sequence, for each behaviour -/
theorem encoding_of_abs (k : BKind) (bf : BF) (h : Valid k bf) :
    bf.intoBytes k = .ok (Spec.ser (tyOf k) (.bits bf.abs)) := by
  obtain ⟨h1, h2, h3⟩ := C14.intoBytes_eq_ser bf h.1
  cases k with
  | «variable» N => exact h1 N
  | fixed N =>
    have e := (lenOk_fixed _ _).mp h.2
    rw [e] at h2
    exact h2
  | dynamic =>
    have e := (lenOk_dynamic _).mp h.2
    exact h3 e.1 e.2

/-- every observation of a valid bitfield is the corresponding function of its sequence -/
theorem observations_of_abs (k : BKind) (bf : BF) (h : Valid k bf) :
    obsImpl k bf = obsSpec k bf.abs := by
  unfold obsImpl obsSpec
  rw [iter_eq_abs bf h.1, numSetBits_eq bf h.1, highestSetBit_eq_lastTrue bf h.1,
    isZero_eq_all bf h.1, hashInput_eq bf h.1, encoding_of_abs k bf h, abs_length,
    ← bytes_eq_packBits bf h.1]

/-- the same, field by field, and the indexed and relational observations -/
theorem obs_len (bf : BF) : bf.len = bf.abs.length := (abs_length bf).symm
theorem obs_get (k : BKind) (bf : BF) (h : Valid k bf) (i : Nat) : bf.get i = bf.abs[i]? :=
  get_eq_abs bf h.1 i
theorem obs_iter (k : BKind) (bf : BF) (h : Valid k bf) : bf.iter = bf.abs := iter_eq_abs bf h.1
theorem obs_numSetBits (k : BKind) (bf : BF) (h : Valid k bf) :
    bf.numSetBits = (bf.abs.filter id).length := numSetBits_eq bf h.1
theorem obs_highestSetBit (k : BKind) (bf : BF) (h : Valid k bf) :
    bf.highestSetBit = lastTrue bf.abs := highestSetBit_eq_lastTrue bf h.1
/-- `lastTrue` is the index of the last `true` -/
theorem lastTrue_spec (l : List Bool) :
    (∀ i, lastTrue l = some i ↔ l.getD i false = true ∧ ∀ j, i < j → l.getD j false = false) ∧
    (lastTrue l = none ↔ ∀ i, l.getD i false = false) :=
  ⟨lastTrue_some_iff l, lastTrue_none_iff l⟩
theorem obs_isZero (k : BKind) (bf : BF) (h : Valid k bf) :
    (bf.isZero = bf.abs.all (fun b => !b)) ∧ (bf.isZero = true ↔ ∀ b ∈ bf.abs, b = false) := by
  refine ⟨isZero_eq_all bf h.1, ?_⟩
  rw [isZero_eq_all bf h.1, List.all_eq_true]
  constructor
  · intro hz b hb; simpa using hz b hb
  · intro hz b hb; simpa using hz b hb
/-- the derived `PartialEq` (structural equality of `{bytes, len}`) is equality of the sequences -/
theorem obs_eq (k : BKind) (a b : BF) (ha : Valid k a) (hb : Valid k b) : a = b ↔ a.abs = b.abs :=
  eq_iff_abs a b ha.1 hb.1
theorem obs_hash (k : BKind) (bf : BF) (h : Valid k bf) :
    bf.hashInput = (Spec.packBits bf.abs (bytesForBitLen bf.abs.length), bf.abs.length) :=
  hashInput_eq bf h.1
/-- equal sequences feed the hasher identically -/
theorem hash_congr (k : BKind) (a b : BF) (ha : Valid k a) (hb : Valid k b) (h : a.abs = b.abs) :
    a.hashInput = b.hashInput := by
  rw [obs_hash k a ha, obs_hash k b hb, h]
theorem obs_subset (k : BKind) (a b : BF) (ha : Valid k a) (hb : Valid k b) :
    a.isSubset b = subsetSeq a.abs b.abs := isSubset_eq a b ha.1 hb.1
/-- the exposed byte view (`as_slice`): minimal length, no bit at or beyond `len`, and the packing
    of the sequence -/
theorem obs_bytes (k : BKind) (bf : BF) (h : Valid k bf) :
    bf.bytes.length = bytesForBitLen bf.len ∧ (∀ i, bf.len ≤ i → bit bf.bytes i = false) ∧
    bf.bytes = Spec.packBits bf.abs (bytesForBitLen bf.abs.length) := by
  refine ⟨h.1.1, h.1.2, ?_⟩
  rw [abs_length]
  exact bytes_eq_packBits bf h.1

/-- all observations of every bitfield of every reachable pool -/
theorem reachable_observations (k : BKind) (ops : List BOp) :
    ∀ bf ∈ (BPool.run k [] ops).1, obsImpl k bf = obsSpec k bf.abs ∧ ∀ i, bf.get i = bf.abs[i]? :=
  fun bf hbf => ⟨observations_of_abs k bf (inv_run k ops bf hbf), obs_get k bf (inv_run k ops bf hbf)⟩

/-! ### 5. examples -/

/-- a history on a 9-bit bitlist of capacity 16: `with_capacity(9)`, `set(3)`, `shift_up(2)`, a
    failed `set(9)`, a failed `shift_up(10)`, a shorter bitlist, `union`, re-decoding the union -/
def hist9 : List BOp :=
  [.cap 9, .set 0 3 true, .set 0 8 true, .shift 0 2, .set 0 9 true, .shift 0 10, .bits [true, false, true],
   .union 0 1, .redec 2, .eq 2 3, .get 3 5, .get 3 9, .cap 17]

example : (BPool.run (.variable 16) [] hist9).2 =
    [.pushed ⟨[0x00, 0x00], 9⟩, .mutated true ⟨[0x08, 0x00], 9⟩, .mutated true ⟨[0x08, 0x01], 9⟩,
     .mutated true ⟨[0x20, 0x00], 9⟩, .mutated false ⟨[0x20, 0x00], 9⟩, .mutated false ⟨[0x20, 0x00], 9⟩,
     .pushed ⟨[0x05], 3⟩, .pushed ⟨[0x25, 0x00], 9⟩, .pushed ⟨[0x25, 0x00], 9⟩, .flag true,
     .bit (some true), .bit none, .err] := by decide

example : (BPool.run (.variable 16) [] hist9).1 =
    [⟨[0x20, 0x00], 9⟩, ⟨[0x05], 3⟩, ⟨[0x25, 0x00], 9⟩, ⟨[0x25, 0x00], 9⟩] := by decide

/-- the same history on boolean sequences -/
example : (specRun (.variable 16) [] hist9).2 =
    [.pushed [false, false, false, false, false, false, false, false, false],
     .mutated true [false, false, false, true, false, false, false, false, false],
     .mutated true [false, false, false, true, false, false, false, false, true],
     .mutated true [false, false, false, false, false, true, false, false, false],
     .mutated false [false, false, false, false, false, true, false, false, false],
     .mutated false [false, false, false, false, false, true, false, false, false],
     .pushed [true, false, true],
     .pushed [true, false, true, false, false, true, false, false, false],
     .pushed [true, false, true, false, false, true, false, false, false],
     .flag true, .bit (some true), .bit none, .err] := by decide

example : (specRun (.variable 16) [] hist9).2 = (BPool.run (.variable 16) [] hist9).2.map absOut := by
  decide

/-- byte boundaries and the other behaviours -/
example : (BPool.run (.fixed 8) [] [.cap 3, .set 0 7 true, .set 0 8 true, .shift 0 1, .fromBytes [0x81],
      .inter 0 1, .diffin 1 0, .subset 0 1]).2 =
    [.pushed ⟨[0x00], 8⟩, .mutated true ⟨[0x80], 8⟩, .mutated false ⟨[0x80], 8⟩, .mutated true ⟨[0x00], 8⟩,
     .pushed ⟨[0x81], 8⟩, .pushed ⟨[0x00], 8⟩, .mutated true ⟨[0x81], 8⟩, .flag true] := by decide

example : (BPool.run .dynamic [] [.cap 0, .cap 12, .cap 8, .fromBytes [0xFF, 0x01], .inter 0 1, .union 0 1,
      .diff 1 0, .redec 1]).2 =
    [.err, .err, .pushed ⟨[0x00], 8⟩, .pushed ⟨[0xFF, 0x01], 16⟩, .pushed ⟨[0x00, 0x00], 16⟩,
     .pushed ⟨[0xFF, 0x01], 16⟩, .pushed ⟨[0xFF, 0x01], 16⟩, .pushed ⟨[0xFF, 0x01], 16⟩] := by decide

example : (BPool.run (.variable 0) [] [.cap 0, .set 0 0 true, .shift 0 0, .shift 0 1, .fromBytes [0x01],
      .eq 0 1, .cap 1]).2 =
    [.pushed ⟨[0x00], 0⟩, .mutated false ⟨[0x00], 0⟩, .mutated true ⟨[0x00], 0⟩, .mutated false ⟨[0x00], 0⟩,
     .pushed ⟨[0x00], 0⟩, .flag true, .err] := by decide

example : obsImpl (.variable 16) ⟨[0x25, 0x00], 9⟩ =
    obsSpec (.variable 16) [true, false, true, false, false, true, false, false, false] := by
  unfold obsSpec
  simp only [tyOf, Spec.ser]
  decide

/-- `Display` of a bitvector is the boolean sequence written with '0' / '1', lowest index first -/
theorem obs_display (k : BKind) (bf : BF) (h : Valid k bf) :
    bf.display = bf.abs.map fun b => if b then 49 else 48 := by
  unfold BF.display
  rw [obs_iter k bf h]

end Ssz.C11
