import SszProofs.C01
import SszProofs.C02
import SszProofs.C03
import SszProofs.C19
/-
  C04 — Decoding accepts exactly the valid encodings and returns the specified value.

  The strict reference deserializer is the relational inverse of the reference serializer
  `Spec.ser` (SszModel/Spec.lean): a byte string `b` is a valid serialization of the value `v` for
  the schema `t` iff `v` is a value of `t` and `Spec.ser t v = b`. The theorem below says the
  decoder computes exactly that relation.

  Hypotheses: `t.strict` (no ordered map/set, no transparent enum — the property makes the same
  exclusion) and `t.rt` (no list of zero-length items, which SSZ forbids and whose count is not
  recoverable); `b.length < 2^32` because offsets are 32-bit.
-/
namespace Ssz.C04
open Ssz

/-- accept/reject and value agree with the specification, both directions -/
theorem decode_iff_spec (t : Ty) (b : Bytes) (v : Val)
    (hwf : t.wf = true) (hs : t.strict = true) (hr : t.rt = true) (hb : b.length < 2^32) :
    decode t b = .ok v ↔ hasType t v = true ∧ Spec.ser t v = b := by
  constructor
  · intro h
    have hty := C02.decode_wellTyped t b v hs h
    have henc := C02.canonical t b v hs h
    refine ⟨hty, ?_⟩
    rw [← C03.encode_eq_spec_of_encode_length t v hty (by rw [henc]; exact hb)]
    exact henc
  · rintro ⟨hty, hser⟩
    have hlen : (Spec.ser t v).length < 2^32 := by rw [hser]; exact hb
    have henc := C03.encode_eq_spec t v hwf hty hlen
    have := C01.roundtrip t v hwf hr hty (by rw [henc]; exact hlen)
    rwa [henc, hser] at this

/-- the decoder never accepts anything the specification does not produce (no `rt` needed) -/
theorem accepted_is_valid (t : Ty) (b : Bytes) (v : Val) (hs : t.strict = true) (hb : b.length < 2^32)
    (h : decode t b = .ok v) : hasType t v = true ∧ Spec.ser t v = b := by
  have hty := C02.decode_wellTyped t b v hs h
  have henc := C02.canonical t b v hs h
  exact ⟨hty, by rw [← C03.encode_eq_spec_of_encode_length t v hty (by rw [henc]; exact hb)]; exact henc⟩

/-- the value the specification assigns to accepted bytes is unique -/
theorem value_unique (t : Ty) (b : Bytes) (v w : Val)
    (hwf : t.wf = true) (hs : t.strict = true) (hr : t.rt = true) (hb : b.length < 2^32)
    (hv : hasType t v = true ∧ Spec.ser t v = b) (hw : hasType t w = true ∧ Spec.ser t w = b) : v = w := by
  have h1 := (decode_iff_spec t b v hwf hs hr hb).mpr hv
  have h2 := (decode_iff_spec t b w hwf hs hr hb).mpr hw
  rw [h1] at h2
  exact Res.ok.inj h2

/-- every input is either accepted with a value or rejected with an error: never a panic
    (C05), so "decoding fails" is exactly "is not a valid serialization" -/
theorem rejected_iff_invalid (t : Ty) (b : Bytes)
    (hwf : t.wf = true) (hs : t.strict = true) (hr : t.rt = true) (hb : b.length < 2^32) :
    (∀ v, decode t b ≠ .ok v) ↔ ¬ ∃ v, hasType t v = true ∧ Spec.ser t v = b := by
  constructor
  · rintro h ⟨v, hv⟩
    exact h v ((decode_iff_spec t b v hwf hs hr hb).mpr hv)
  · intro h v hd
    exact h ⟨v, (decode_iff_spec t b v hwf hs hr hb).mp hd⟩

/-- ordered maps and sets (forward direction only, as the property states): whatever is accepted
    is a well-formed entry list, and the result is the collection of its entries -/
theorem collections_forward (c : CKind) (t : Ty) (b : Bytes) (m : Val)
    (h : decode (.list c t) b = .ok m) :
    ∃ es, decode (.list .vec t) b = .ok (.list es) ∧ m = .list (collect c es) :=
  (C19.decode_ok_iff c t b m).mp h

/-- ... and when the entry type is strict, that entry list is itself a valid serialization -/
theorem collections_entries_valid (c : CKind) (t : Ty) (b : Bytes) (m : Val)
    (hs : t.strict = true) (hb : b.length < 2^32) (h : decode (.list c t) b = .ok m) :
    ∃ es, hasType (.list .vec t) (.list es) = true ∧ Spec.ser (.list .vec t) (.list es) = b ∧
      m = .list (collect c es) := by
  obtain ⟨es, hd, hm⟩ := collections_forward c t b m h
  have := accepted_is_valid (.list .vec t) b (.list es) (by simp [Ty.strict, hs]) hb hd
  exact ⟨es, this.1, this.2, hm⟩


/-- the reference serializer is injective on well-typed values of a type: no two values of a schema
    share a serialization (so "the value the specification assigns to those bytes" is well defined) -/
theorem spec_injective (t : Ty) (v w : Val) (hwf : t.wf = true) (hr : t.rt = true)
    (hv : hasType t v = true) (hw : hasType t w = true) (hlen : (Spec.ser t v).length < 2^32)
    (h : Spec.ser t v = Spec.ser t w) : v = w := by
  have e1 := C03.encode_eq_spec t v hwf hv hlen
  have e2 := C03.encode_eq_spec t w hwf hw (by rw [← h]; exact hlen)
  exact C01.encode_injective_on_typed t v w hwf hr hv hw (by rw [e1]; exact hlen) (by rw [e1, e2, h])

/-- decoding is a left inverse of the reference serializer -/
theorem decode_spec_ser (t : Ty) (v : Val) (hwf : t.wf = true) (hr : t.rt = true)
    (hv : hasType t v = true) (hlen : (Spec.ser t v).length < 2^32) :
    decode t (Spec.ser t v) = .ok v := by
  have e1 := C03.encode_eq_spec t v hwf hv hlen
  have := C01.roundtrip t v hwf hr hv (by rw [e1]; exact hlen)
  rwa [e1] at this

/-- non-vacuity: a mixed container, both directions instantiated -/
example : decode (.container [.uint 2, .list .vec (.uint 1)]) [7, 0, 6, 0, 0, 0, 1, 2]
    = .ok (.tuple [.uint 7, .list [.uint 1, .uint 2]]) := by
  rw [decode_iff_spec _ _ _ (by simp [Ty.wf, wfAll]) (by simp [Ty.strict, strictAll]) (by simp [Ty.rt, rtAll, Ty.isFixed, Ty.fixedLen, keyTyOk]) (by simp)]
  constructor
  · simp [hasType, hasTypes, hasTypeAll]
  · simp [Spec.ser, Spec.serFields, Spec.serAll, Spec.layout, Spec.isVariable, Spec.uintBytes, List.range, List.range.loop]

end Ssz.C04
