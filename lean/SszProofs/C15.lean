import SszProofs.Lemmas.Append
/-
  C15 — Union selectors are validated and assigned by declaration order.
-/
set_option linter.unusedSimpArgs false
namespace Ssz.C15
open Ssz

/-- the selector-splitting helper: empty input is an error -/
theorem split_nil : splitUnionBytes [] = none := rfl

/-- ... otherwise it returns the first byte and the rest unchanged, exactly when the byte is ≤ 127 -/
theorem split_cons (s : UInt8) (rest : Bytes) :
    splitUnionBytes (s :: rest) = if s.toNat ≤ 127 then some (s, rest) else none := by
  simp only [splitUnionBytes, unionSelectorNew, MAX_UNION_SELECTOR]
  by_cases h : s.toNat ≤ 127 <;> simp [h]

theorem split_ok_iff (b : Bytes) (s : UInt8) (rest : Bytes) :
    splitUnionBytes b = some (s, rest) ↔ b = s :: rest ∧ s.toNat ≤ 127 := by
  cases b with
  | nil => simp [splitUnionBytes]
  | cons x xs =>
    rw [split_cons]
    by_cases h : x.toNat ≤ 127
    · simp only [h, if_true, Option.some.injEq, Prod.mk.injEq, List.cons.injEq]
      constructor
      · rintro ⟨rfl, rfl⟩; exact ⟨⟨rfl, rfl⟩, h⟩
      · rintro ⟨⟨rfl, rfl⟩, _⟩; exact ⟨rfl, rfl⟩
    · simp only [h, if_false, List.cons.injEq]
      constructor
      · intro hh; cases hh
      · rintro ⟨⟨rfl, rfl⟩, h2⟩; exact absurd h2 h

theorem selector_new (s : UInt8) : unionSelectorNew s = if s.toNat ≤ 127 then some s else none := rfl

theorem appendNth_get : ∀ (ts : List Ty) (i : Nat) (v : Val) (t : Ty), ts[i]? = some t →
    appendNth ts i v [] = encode t v
  | [], i, v, t, h => by simp at h
  | t' :: ts, 0, v, t, h => by simp at h; subst h; simp [appendNth, encode]
  | t' :: ts, i+1, v, t, h => by
      simp only [appendNth]
      exact appendNth_get ts i v t (by simpa using h)

/-- encoding a union value: one selector byte equal to the declaration index, then the variant -/
theorem encode_union (ts : List Ty) (i : Nat) (v : Val) (t : Ty) (h : ts[i]? = some t) :
    encode (.union ts) (.union i v) = UInt8.ofNat i :: encode t v := by
  simp only [encode, sszAppend]
  rw [appendNth_prefix, appendNth_get ts i v t h]
  simp [encode]

theorem encode_option_none (t : Ty) : encode (.option t) .none = [0] := by simp [encode, sszAppend]
theorem encode_option_some (t : Ty) (v : Val) : encode (.option t) (.some v) = 1 :: encode t v := by
  simp only [encode, sszAppend]
  rw [append_prefix]; simp

theorem decodeNth_ok : ∀ (ts : List Ty) (i sel : Nat) (body : Bytes) (v : Val),
    decodeNth ts i sel body = .ok v → i < ts.length
  | [], i, sel, body, v, h => by simp [decodeNth] at h
  | t :: ts, 0, sel, body, v, h => by simp
  | t :: ts, i+1, sel, body, v, h => by
      simp only [decodeNth] at h
      have := decodeNth_ok ts i sel body v h
      simp; omega

/-- decoding rejects empty input -/
theorem decode_union_empty (ts : List Ty) : decode (.union ts) [] = .err := by
  simp [decode, splitUnionBytes]

/-- ... and every selector that does not name a declared variant or exceeds 127, for all 256 bytes -/
theorem decode_union_selector (ts : List Ty) (s : UInt8) (body : Bytes) (v : Val)
    (h : decode (.union ts) (s :: body) = .ok v) : s.toNat < ts.length ∧ s.toNat ≤ 127 := by
  by_cases hs : s.toNat ≤ 127
  · simp only [decode, split_cons, hs, if_true] at h
    exact ⟨decodeNth_ok ts _ _ _ v h, hs⟩
  · simp [decode, split_cons, hs] at h

theorem decodeNth_val : ∀ (ts : List Ty) (i sel : Nat) (body : Bytes) (v : Val),
    decodeNth ts i sel body = .ok v → ∃ t x, ts[i]? = some t ∧ decode t body = .ok x ∧ v = .union sel x
  | [], i, sel, body, v, h => by simp [decodeNth] at h
  | t :: ts, 0, sel, body, v, h => by
      simp only [decodeNth] at h
      cases hd : decode t body with
      | ok x => rw [hd] at h; simp at h; exact ⟨t, x, by simp, hd, h.symm⟩
      | err => rw [hd] at h; simp at h
      | panic => rw [hd] at h; simp at h
  | t :: ts, i+1, sel, body, v, h => by
      simp only [decodeNth] at h
      obtain ⟨t', x, h1, h2, h3⟩ := decodeNth_val ts i sel body v h
      exact ⟨t', x, by simpa using h1, h2, h3⟩

/-- the decoded variant is the one the selector names, decoded from the remaining bytes -/
theorem decode_union_value (ts : List Ty) (s : UInt8) (body : Bytes) (v : Val)
    (h : decode (.union ts) (s :: body) = .ok v) :
    ∃ t x, ts[s.toNat]? = some t ∧ decode t body = .ok x ∧ v = .union s.toNat x := by
  by_cases hs : s.toNat ≤ 127
  · simp only [decode, split_cons, hs, if_true] at h
    exact decodeNth_val ts _ _ _ v h
  · simp [decode, split_cons, hs] at h

/-- Option is Union[None, T]: selector 0 with an empty body, selector 1 followed by T -/
theorem decode_option (t : Ty) (b : Bytes) (v : Val) (h : decode (.option t) b = .ok v) :
    (b = [0] ∧ v = .none) ∨ (∃ body x, b = 1 :: body ∧ decode t body = .ok x ∧ v = .some x) := by
  cases b with
  | nil => simp [decode, splitUnionBytes] at h
  | cons s body =>
    by_cases hs : s.toNat ≤ 127
    · simp only [decode, split_cons, hs, if_true] at h
      by_cases h0 : s = 0
      · subst h0
        by_cases hb : body = []
        · subst hb; simp at h; exact Or.inl ⟨rfl, h.symm⟩
        · simp [hb] at h
      · by_cases h1 : s = 1
        · subst h1
          simp only [h0, if_false, if_true] at h
          cases hd : decode t body with
          | ok x => rw [hd] at h; simp at h; exact Or.inr ⟨body, x, rfl, hd, h.symm⟩
          | err => rw [hd] at h; simp at h
          | panic => rw [hd] at h; simp at h
        · simp [h0, h1] at h
    · simp [decode, split_cons, hs] at h

example : decode (.union [.uint 1, .list .vec (.uint 1)]) [1, 42, 42] = .ok (.union 1 (.list [.uint 42, .uint 42])) := by simp [decode, split_cons, decodeNth, listVar, chunks, chunksGo, mapRes, collect, fromLE, Ty.isFixed, Ty.fixedLen]
example : decode (.union [.uint 1, .list .vec (.uint 1)]) [2, 42] = .err := by simp [decode, split_cons, decodeNth, listVar, chunks, chunksGo, mapRes, collect, fromLE, Ty.isFixed, Ty.fixedLen]
example : decode (.union [.uint 1]) [128, 42] = .err := by simp [decode, split_cons, decodeNth, listVar, chunks, chunksGo, mapRes, collect, fromLE, Ty.isFixed, Ty.fixedLen]

end Ssz.C15
