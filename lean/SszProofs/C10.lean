import SszProofs.Lemmas.Append
/-
  C10 — Encoding is append-only, context-free and identical across entry points.
  `sszAppend t v buf` models `v.ssz_append(&mut buf)`, `encode t v` the default `as_ssz_bytes`.
  `Arc<T>`, `&T` and transparent wrappers have the schema of `T` in the model (their impls forward to
  `T`); that they forward is checked on the real code by the `entry` correspondence group.
-/
set_option linter.unusedSimpArgs false
namespace Ssz.C10
open Ssz

/-- appending to any buffer leaves it untouched and adds exactly the standalone encoding: for every
    type of the algebra, every value (even ill-typed ones) and every prefix -/
theorem append_only (t : Ty) (v : Val) (buf : Bytes) : sszAppend t v buf = buf ++ encode t v :=
  append_prefix t v buf

/-- consequently the result does not depend on the buffer contents -/
theorem context_free (t : Ty) (v : Val) (buf buf' : Bytes) :
    (sszAppend t v buf).drop buf.length = (sszAppend t v buf').drop buf'.length := by
  rw [append_only, append_only]; simp

/-- the `as_ssz_bytes` overrides (`FixedBytes<N>`, `Bloom`, `Bytes`: `self.0.to_vec()`) equal the default -/
theorem override_bytesN (n : Nat) (l : Bytes) : encode (.bytesN n) (.bytes l) = l := by
  simp [encode, sszAppend]
theorem override_byteList (l : Bytes) : encode .byteList (.bytes l) = l := by
  simp [encode, sszAppend]

/-- the manual container encoder, driven with the same fields over any pre-filled buffer and the
    documented `num_fixed_bytes`, produces the prefix followed by the container encoding -/
theorem manual_encoder (ts : List Ty) (vs : List Val) (buf : Bytes) :
    (appendFields ts vs (Enc.container buf (sumFixedLen ts))).finalize
      = buf ++ encode (.container ts) (.tuple vs) := by
  have := append_only (.container ts) (.tuple vs) buf
  simpa [sszAppend] using this

/-- any append sequence on the container encoder (any items, any `num_fixed_bytes`) is independent
    of the pre-filled buffer -/
theorem encoder_prefix (regs : List Reg) (items : List Bytes) (buf : Bytes) (k : Nat) :
    (encodeItemsGo regs items (Enc.container buf k)).finalize
      = buf ++ (encodeItemsGo regs items (Enc.container [] k)).finalize := by
  simp [go_eq, Enc.container]

/-- tuples and derived containers with the same fields encode identically -/
theorem tuple_eq_container (ts : List Ty) (vs : List Val) :
    encode (.tuple ts) (.tuple vs) = encode (.container ts) (.tuple vs) := by
  simp [encode, sszAppend]

example : sszAppend (.container [.uint 2, .list .vec (.uint 2), .uint 4])
    (.tuple [.uint 1, .list [.uint 0, .uint 1], .uint 1]) [0xAA]
    = [0xAA, 1,0, 10,0,0,0, 1,0,0,0, 0,0, 1,0] := by
  simp [sszAppend, appendFields, appendAll, appendSeq, Enc.container, Enc.appendWith, Enc.finalize, encodeLength, le, sumFixedLen, Ty.isFixed, Ty.fixedLen]

end Ssz.C10
