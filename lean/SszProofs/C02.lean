import SszProofs.Lemmas.Canonical
import SszProofs.C15
/-
  C02 — Canonical decoding: accepted bytes re-encode to exactly themselves.
-/
set_option linter.unusedSimpArgs false
namespace Ssz.C02
open Ssz.Canon
open Ssz

mutual
/-- canonicity and well-typedness together, for every strict type -/
theorem canon : ∀ (t : Ty) (b : Bytes) (v : Val), t.strict = true → decode t b = .ok v →
    encode t v = b ∧ hasType t v = true
  | .uint k, b, v, _, h => by
      simp only [decode] at h
      by_cases hl : b.length = k
      · simp [hl] at h; subst h; subst hl
        simp [encode, sszAppend, hasType, le_fromLE, fromLE_lt]
      · simp [hl] at h
  | .bool, b, v, _, h => by
      simp only [decode] at h
      split at h
      · rename_i x
        by_cases h0 : x = 0
        · subst h0; simp at h; subst h; simp [encode, sszAppend, hasType]
        · by_cases h1 : x = 1
          · subst h1; simp at h; subst h; simp [encode, sszAppend, hasType]
          · simp [h0, h1] at h
      · cases h
  | .nonZeroUsize, b, v, _, h => by
      simp only [decode] at h
      by_cases hl : b.length = 8
      · by_cases hz : fromLE b = 0
        · simp [hl, hz] at h
        · simp [hl, hz] at h; subst h
          have h1 := le_fromLE b
          have h2 := fromLE_lt b
          rw [hl] at h1 h2
          rw [pow_256_8] at h2
          simp [encode, sszAppend, hasType, h1, h2]; omega
      · simp [hl] at h
  | .bytesN n, b, v, _, h => by
      simp only [decode] at h
      by_cases hl : b.length = n
      · simp [hl] at h; subst h; simp [encode, sszAppend, hasType, hl]
      · simp [hl] at h
  | .byteList, b, v, _, h => by
      simp only [decode] at h
      injection h with h; subst h; simp [encode, sszAppend, hasType]
  | .list c t, b, v, hs, h => by
      simp only [Ty.strict, Bool.and_eq_true, beq_iff_eq] at hs
      obtain ⟨hc, hst⟩ := hs
      subst hc
      have ih := fun c v => canon t c v hst
      simp only [decode] at h
      by_cases he : b.isEmpty = true
      · simp [he] at h; subst h
        have : b = [] := by simpa using he
        subst this
        by_cases hf : t.isFixed = true
        · simp [encode_list_fixed _ _ _ hf, hasType, hasTypeAll]
        · have hf' : t.isFixed = false := by simpa using hf
          simp [encode_list_var _ _ _ hf', hasType, hasTypeAll, encodeListVar_eq, hdr]
      · simp only [he, Bool.false_eq_true, if_false] at h
        by_cases hf : t.isFixed = true
        · simp only [hf, if_true] at h
          by_cases h0 : t.fixedLen = 0
          · simp [h0] at h
          · simp only [h0, if_false] at h
            cases hch : chunks t.fixedLen b with
            | ok cs =>
              rw [hch] at h
              simp only at h
              cases hm : mapRes (decode t) cs with
              | ok vs =>
                rw [hm] at h; simp [collect] at h; subst h
                obtain ⟨e1, e2⟩ := mapRes_canon t ih cs vs hm
                rw [encode_list_fixed _ _ _ hf, e1, chunks_flatten _ _ _ hch]
                simp [hasType, e2]
              | err => rw [hm] at h; simp at h
              | panic => rw [hm] at h; simp at h
            | err => rw [hch] at h; simp at h
            | panic => rw [hch] at h; simp at h
        · have hf' : t.isFixed = false := by simpa using hf
          simp only [hf', Bool.false_eq_true, if_false] at h
          cases hl : listVar (decode t) b none with
          | ok vs =>
            rw [hl] at h; simp [collect] at h; subst h
            rcases listVar_sound _ _ _ _ hl with ⟨hb, _⟩ | ⟨items, _, hm, henc, _⟩
            · subst hb; simp at he
            · obtain ⟨e1, e2⟩ := mapRes_canon t ih items vs hm
              rw [encode_list_var _ _ _ hf', e1, henc]
              simp [hasType, e2]
          | err => rw [hl] at h; simp at h
          | panic => rw [hl] at h; simp at h
  | .option t, b, v, hs, h => by
      simp only [Ty.strict] at hs
      rcases C15.decode_option t b v h with ⟨hb, hv⟩ | ⟨body, x, hb, hd, hv⟩
      · subst hb; subst hv; simp [C15.encode_option_none, hasType]
      · subst hb; subst hv
        obtain ⟨e1, e2⟩ := canon t body x hs hd
        simp [C15.encode_option_some, hasType, e1, e2]
  | .tuple ts, b, v, hs, h => by
      simp only [Ty.strict] at hs
      simp only [decode] at h
      cases hb : build (regsOf ts) b with
      | ok items =>
        rw [hb] at h; simp only at h
        obtain ⟨hb1, hb2⟩ := build_sound _ _ _ hb
        cases hd : decodeItems ts items with
        | ok vs =>
          rw [hd] at h; simp at h; subst h
          obtain ⟨e1, e2⟩ := canon_items ts items vs hs hb2 hd
          rw [encode_tuple, e1, hb1]; simp [hasType, e2]
        | err => rw [hd] at h; simp at h
        | panic => rw [hd] at h; simp at h
      | err => rw [hb] at h; simp at h
      | panic => rw [hb] at h; simp at h
  | .container ts, b, v, hs, h => by
      simp only [Ty.strict] at hs
      simp only [decode] at h
      by_cases hf : allFixed ts = true
      · simp only [hf, if_true] at h
        by_cases hl : b.length = sumFixedLen ts
        · simp only [hl, ne_eq, not_true_eq_false, if_false] at h
          cases hd : decodeSplit ts b with
          | ok vs =>
            rw [hd] at h; simp at h; subst h
            obtain ⟨e1, e2, e3⟩ := canon_split ts b vs hs hf hl hd
            rw [encode_container, encodeItems_eq, e1 _, e2]
            simp [hasType, e3]
          | err => rw [hd] at h; simp at h
          | panic => rw [hd] at h; simp at h
        · simp [hl] at h
      · simp only [hf, Bool.false_eq_true, if_false] at h
        cases hb : build (regsOf ts) b with
        | ok items =>
          rw [hb] at h; simp only at h
          obtain ⟨hb1, hb2⟩ := build_sound _ _ _ hb
          cases hd : decodeItems ts items with
          | ok vs =>
            rw [hd] at h; simp at h; subst h
            obtain ⟨e1, e2⟩ := canon_items ts items vs hs hb2 hd
            rw [encode_container, e1, hb1]; simp [hasType, e2]
          | err => rw [hd] at h; simp at h
          | panic => rw [hd] at h; simp at h
        | err => rw [hb] at h; simp at h
        | panic => rw [hb] at h; simp at h
  | .union ts, b, v, hs, h => by
      simp only [Ty.strict] at hs
      simp only [decode] at h
      cases hsp : splitUnionBytes b with
      | none => rw [hsp] at h; simp at h
      | some p =>
        obtain ⟨s, body⟩ := p
        rw [hsp] at h; simp only at h
        obtain ⟨hb, _⟩ := (C15.split_ok_iff b s body).mp hsp
        subst hb
        obtain ⟨x, hv, e1, e2⟩ := canon_nth ts s.toNat s.toNat body v hs h
        subst hv
        simp only [encode, sszAppend, hasType, e2, and_true]
        rw [appendNth_prefix, e1]; simp
  | .tagEnum n, b, v, _, h => by
      simp only [decode] at h
      split at h
      · rename_i s
        by_cases hn : s.toNat < n
        · simp [hn] at h; subst h; simp [encode, sszAppend, hasType, hn]
        · simp [hn] at h
      · cases h
  | .transparentEnum ts, b, v, hs, h => by simp [Ty.strict] at hs
  | .bitvector n, b, v, _, h => by
      simp only [decode] at h
      obtain ⟨l, hv, hl, hb⟩ := bits_canonical _ _ _ h
      subst hv; simp [BKind.lenOk] at hl
      simp [encode, sszAppend, hasType, hb, hl]
  | .bitlist n, b, v, _, h => by
      simp only [decode] at h
      obtain ⟨l, hv, hl, hb⟩ := bits_canonical _ _ _ h
      subst hv; simp [BKind.lenOk] at hl
      simp [encode, sszAppend, hasType, hb, hl]
  | .bitvectorDyn, b, v, _, h => by
      simp only [decode] at h
      obtain ⟨l, hv, hl, hb⟩ := bits_canonical _ _ _ h
      subst hv; simp [BKind.lenOk] at hl
      simp [encode, sszAppend, hasType, hb, hl]
  | .legacyOption t, b, v, hs, h => by
      simp only [Ty.strict] at hs
      simp only [decode] at h
      by_cases hl : b.length < 4
      · simp [hl] at h
      · simp only [hl, if_false] at h
        have h4 := le_take4 b (by omega)
        have hb : b.take 4 ++ b.drop 4 = b := List.take_append_drop 4 b
        by_cases h0 : fromLE (b.take 4) = 0
        · simp only [h0, if_true] at h
          by_cases he : (b.drop 4).isEmpty = true
          · simp [he] at h; subst h
            have hd : b.drop 4 = [] := by simpa using he
            rw [hd, List.append_nil] at hb
            rw [h0, hb] at h4
            simp [encode, sszAppend, hasType, encodeLength, h4]
          · simp [he] at h
        · by_cases h1 : fromLE (b.take 4) = 1
          · simp only [h1, if_true] at h
            cases hd : decode t (b.drop 4) with
            | ok x =>
              rw [hd] at h; simp at h; subst h
              obtain ⟨e1, e2⟩ := canon t _ x hs hd
              rw [h1] at h4
              simp only [encode, sszAppend, hasType, e2, and_true, List.nil_append]
              rw [append_prefix]
              show encodeLength 1 ++ encode t x = b
              rw [e1]
              simp [encodeLength, h4, hb]
            | err => rw [hd] at h; simp at h
            | panic => rw [hd] at h; simp at h
          · simp [h0, h1] at h
/-- `decoder.decode_next()` per field of a builder-decoded tuple/struct -/
theorem canon_items : ∀ (ts : List Ty) (items : List Bytes) (vs : List Val), strictAll ts = true →
    itemsFit (regsOf ts) items = true → decodeItems ts items = .ok vs →
    encodeEach ts vs = items ∧ hasTypes ts vs = true
  | [], items, vs, _, hfit, h => by
      have := itemsFit_nil items hfit; subst this
      simp [decodeItems] at h; subst h; simp [encodeEach, hasTypes]
  | t :: ts, [], vs, _, _, h => by simp [decodeItems] at h
  | t :: ts, it :: its, vs, hs, hfit, h => by
      simp only [strictAll, Bool.and_eq_true] at hs
      simp only [decodeItems] at h
      cases hd : decode t it with
      | ok v =>
        rw [hd] at h; simp only at h
        cases hr : decodeItems ts its with
        | ok vs' =>
          rw [hr] at h; simp at h; subst h
          obtain ⟨e1, e2⟩ := canon t it v hs.1 hd
          obtain ⟨e3, e4⟩ := canon_items ts its vs' hs.2 (itemsFit_cons _ _ _ _ hfit) hr
          simp [encodeEach, hasTypes, e1, e2, e3, e4]
        | err => rw [hr] at h; simp at h
        | panic => rw [hr] at h; simp at h
      | err => rw [hd] at h; simp at h
      | panic => rw [hd] at h; simp at h
/-- `split_at` per field of an all-fixed derived struct -/
theorem canon_split : ∀ (ts : List Ty) (b : Bytes) (vs : List Val), strictAll ts = true →
    allFixed ts = true → b.length = sumFixedLen ts → decodeSplit ts b = .ok vs →
    (∀ o, fpart (regsOf ts) (encodeEach ts vs) o = b) ∧ vpart (regsOf ts) (encodeEach ts vs) = [] ∧
      hasTypes ts vs = true
  | [], b, vs, _, _, hl, h => by
      simp [decodeSplit] at h; subst h
      have : b = [] := List.length_eq_zero_iff.mp (by simpa [sumFixedLen] using hl)
      subst this
      simp [regsOf, encodeEach, fpart, vpart, hasTypes]
  | t :: ts, b, vs, hs, hf, hl, h => by
      simp only [strictAll, Bool.and_eq_true] at hs
      simp only [allFixed, Bool.and_eq_true] at hf
      simp only [sumFixedLen] at hl
      simp only [decodeSplit] at h
      by_cases hgt : t.fixedLen > b.length
      · simp [hgt] at h
      · simp only [hgt, if_false] at h
        cases hd : decode t (b.take t.fixedLen) with
        | ok v =>
          rw [hd] at h; simp only at h
          cases hr : decodeSplit ts (b.drop t.fixedLen) with
          | ok vs' =>
            rw [hr] at h; simp at h; subst h
            obtain ⟨e1, e2⟩ := canon t _ v hs.1 hd
            obtain ⟨e3, e4, e5⟩ := canon_split ts _ vs' hs.2 hf.2 (by simp; omega) hr
            have hreg : t.reg = .fixed t.fixedLen := by simp [Ty.reg, hf.1]
            simp only [regsOf, encodeEach, hreg, fpart, vpart, hasTypes, e1, e2, e3, e4, e5,
              List.take_append_drop]
            simp
          | err => rw [hr] at h; simp at h
          | panic => rw [hr] at h; simp at h
        | err => rw [hd] at h; simp at h
        | panic => rw [hd] at h; simp at h
/-- the selector `match` of a derived union -/
theorem canon_nth : ∀ (ts : List Ty) (i sel : Nat) (body : Bytes) (v : Val), strictAll ts = true →
    decodeNth ts i sel body = .ok v →
    ∃ x, v = .union sel x ∧ appendNth ts i x [] = body ∧ hasTypeNth ts i x = true
  | [], i, sel, body, v, _, h => by simp [decodeNth] at h
  | t :: ts, 0, sel, body, v, hs, h => by
      simp only [strictAll, Bool.and_eq_true] at hs
      simp only [decodeNth] at h
      cases hd : decode t body with
      | ok x =>
        rw [hd] at h; simp at h
        obtain ⟨e1, e2⟩ := canon t body x hs.1 hd
        exact ⟨x, h.symm, by simpa [appendNth, encode] using e1, by simpa [hasTypeNth] using e2⟩
      | err => rw [hd] at h; simp at h
      | panic => rw [hd] at h; simp at h
  | t :: ts, i+1, sel, body, v, hs, h => by
      simp only [strictAll, Bool.and_eq_true] at hs
      simp only [decodeNth] at h
      obtain ⟨x, h1, h2, h3⟩ := canon_nth ts i sel body v hs.2 h
      exact ⟨x, h1, by simpa [appendNth] using h2, by simpa [hasTypeNth] using h3⟩
end

/-- C02: whatever the decoder accepts re-encodes to exactly the accepted bytes -/
theorem canonical (t : Ty) (b : Bytes) (v : Val) (hs : t.strict = true) (h : decode t b = .ok v) :
    encode t v = b := (canon t b v hs h).1

/-- companion: decoded values are well typed -/
theorem decode_wellTyped (t : Ty) (b : Bytes) (v : Val) (hs : t.strict = true)
    (h : decode t b = .ok v) : hasType t v = true := (canon t b v hs h).2

/-- no two different byte strings decode to the same value -/
theorem decode_injective (t : Ty) (b b' : Bytes) (v : Val) (hs : t.strict = true)
    (h : decode t b = .ok v) (h' : decode t b' = .ok v) : b = b' := by
  rw [← canonical t b v hs h, ← canonical t b' v hs h']

/-- equivalently: a byte string that is not the encoding of `v` never decodes to `v` -/
theorem rejects_noncanonical (t : Ty) (b : Bytes) (v : Val) (hs : t.strict = true)
    (hne : encode t v ≠ b) : decode t b ≠ .ok v :=
  fun h => hne (canonical t b v hs h)

/-! ### the itemised rejections -/

/-- trailing bytes after a fixed-size value are rejected -/
theorem rejects_trailing_bytes_fixed (t : Ty) (b : Bytes) (x : UInt8) (v w : Val)
    (hf : t.isFixed = true) (h : decode t b = .ok v) : decode t (b ++ [x]) ≠ .ok w := by
  intro h'
  have h1 := decode_fixed_length t b v hf h
  have h2 := decode_fixed_length t _ w hf h'
  simp at h2; omega

/-- bool bytes other than 0 and 1 are rejected -/
theorem rejects_bool_byte (x : UInt8) (h0 : x ≠ 0) (h1 : x ≠ 1) : decode .bool [x] = .err := by
  simp [decode, h0, h1]

/-- `None` (selector 0) followed by anything is rejected -/
theorem rejects_option_none_body (t : Ty) (x : UInt8) (rest : Bytes) :
    decode (.option t) (0 :: x :: rest) = .err := by
  simp [decode, C15.split_cons]

/-- a tag enum is exactly one byte -/
theorem rejects_tag_trailing (n : Nat) (s x : UInt8) (rest : Bytes) :
    decode (.tagEnum n) (s :: x :: rest) = .err := by
  simp [decode]

/-- legacy four-byte option: selector 0 followed by anything is rejected -/
theorem rejects_legacy_none_body (t : Ty) (x : UInt8) (rest : Bytes) :
    decode (.legacyOption t) (0 :: 0 :: 0 :: 0 :: x :: rest) = .err := by
  simp [decode, fromLE]

theorem fromBytes_fixed4_pad : BF.fromBytes (.fixed 4) [0x10] = .err := by decide
theorem fromBytes_variable3_long : BF.fromBytes (.variable 3) [0x10] = .err := by decide +kernel

/-- unfolding set used by the container/list examples below -/
macro "ssz_eval" : tactic => `(tactic|
  simp [decode, encode, sszAppend, appendFields, appendSeq, appendAll, Enc.container, Enc.appendWith,
    Enc.finalize, encodeLength, le, decodeItems, allFixed, sumFixedLen, Ty.isFixed, regsOf, Ty.reg,
    Ty.fixedLen, build, registerAll, Builder.register, readOffset, sanitizeOffset, fromLE,
    Builder.finalize, setSlices, listVar, listVarGo, collect, chunks, chunksGo, mapRes,
    C15.split_cons])

-- accepted: offsets 8, 9 delimit the two byte lists; re-encoding gives the input back
example : decode (.container [.byteList, .byteList]) [8,0,0,0, 9,0,0,0, 1, 2]
    = .ok (.tuple [.bytes [1], .bytes [2]]) := by ssz_eval
example : encode (.container [.byteList, .byteList]) (.tuple [.bytes [1], .bytes [2]])
    = [8,0,0,0, 9,0,0,0, 1, 2] := by ssz_eval
-- the first offset skips a byte (fixed part is 5 bytes, first offset says 6)
example : decode (.container [.uint 1, .byteList]) [7, 6,0,0,0, 99, 1] = .err := by ssz_eval
-- the first offset points into the fixed part (overlap)
example : decode (.container [.uint 1, .byteList]) [7, 4,0,0,0, 1] = .err := by ssz_eval
-- decreasing offsets
example : decode (.container [.byteList, .byteList]) [9,0,0,0, 8,0,0,0, 1, 2] = .err := by ssz_eval
example : decode (.tuple [.byteList, .byteList]) [9,0,0,0, 8,0,0,0, 1, 2] = .err := by ssz_eval
-- offset past the end
example : decode (.container [.byteList, .byteList]) [8,0,0,0, 11,0,0,0, 1, 2] = .err := by ssz_eval
-- the same for lists of variable-size items
example : decode (.list .vec .byteList) [8,0,0,0, 9,0,0,0, 1, 2]
    = .ok (.list [.bytes [1], .bytes [2]]) := by ssz_eval
example : decode (.list .vec .byteList) [8,0,0,0, 7,0,0,0, 1, 2] = .err := by ssz_eval
example : decode (.list .vec .byteList) [8,0,0,0, 11,0,0,0, 1, 2] = .err := by ssz_eval
example : decode (.list .vec .byteList) [9,0,0,0, 9,0,0,0, 1, 2] = .err := by ssz_eval
-- a short trailing chunk in a list of fixed-size items
example : decode (.list .vec (.uint 2)) [1, 0, 2] = .err := by ssz_eval
-- trailing byte after an all-fixed struct
example : decode (.container [.uint 1, .uint 1]) [1, 2, 3] = .err := by ssz_eval
-- bool byte 2
example : decode .bool [2] = .err := rejects_bool_byte 2 (by decide) (by decide)
-- bitvector with a padding bit set, over-long bitlist
example : decode (.bitvector 4) [0x10] = .err := by simp [decode, decodeBits, fromBytes_fixed4_pad]
example : decode (.bitlist 3) [0x10] = .err := by simp [decode, decodeBits, fromBytes_variable3_long]
-- unused union body, trailing byte after a tag
example : decode (.option (.uint 1)) [0, 5] = .err := rejects_option_none_body _ 5 []
example : decode (.tagEnum 3) [1, 99] = .err := rejects_tag_trailing 3 1 99 []
example : decode (.legacyOption (.uint 1)) [0,0,0,0, 5] = .err := rejects_legacy_none_body _ 5 []
-- two inputs that a lenient decoder would map to the same value: only one is accepted
example : decode (.option (.uint 1)) [0] = .ok .none := by ssz_eval

/-! ### consequences -/

/-- decoding is idempotent through the encoder: the re-encoding of an accepted input is accepted
    again, with the same value (decode ∘ encode ∘ decode = decode) -/
theorem decode_encode_decode (t : Ty) (b : Bytes) (v : Val) (hs : t.strict = true)
    (h : decode t b = .ok v) : decode t (encode t v) = .ok v := by
  rw [canonical t b v hs h]; exact h

/-- the set of accepted inputs of a strict type is exactly the image of the encoder on the decoded
    values: `b` is accepted iff it is the encoding of some value that the decoder maps back to itself -/
theorem accepted_iff_fixpoint (t : Ty) (b : Bytes) (hs : t.strict = true) :
    (∃ v, decode t b = .ok v) ↔ ∃ v, encode t v = b ∧ decode t (encode t v) = .ok v := by
  constructor
  · rintro ⟨v, h⟩; exact ⟨v, canonical t b v hs h, decode_encode_decode t b v hs h⟩
  · rintro ⟨v, he, hd⟩; exact ⟨v, by rw [← he]; exact hd⟩

/-- two accepted inputs are equal iff their values are equal -/
theorem accepted_eq_iff (t : Ty) (b b' : Bytes) (v v' : Val) (hs : t.strict = true)
    (h : decode t b = .ok v) (h' : decode t b' = .ok v') : b = b' ↔ v = v' := by
  constructor
  · intro e; subst e; rw [h] at h'; cases h'; rfl
  · intro e; subst e; exact decode_injective t b b' v hs h h'

end Ssz.C02
