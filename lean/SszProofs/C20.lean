import SszProofs.Lemmas.BitCore
set_option linter.unusedSimpArgs false
set_option linter.unusedVariables false
/-
  C20 — the `Arbitrary` generators of `BitVector<N>` and `BitList<N>` (feature `arbitrary`) never
  panic, return only valid bitfields of their type, and can succeed for every capacity `N ≥ 1`
  (bitvectors: every `N`). Also recorded: before the `fix:` commit that sizes the bitvector buffer in
  bytes, `BitVector<N>::arbitrary` could not succeed for any `N ≥ 2` (nor for `N = 0`).
-/
namespace Ssz.C20
open Ssz.BC
open Ssz

/-! ### the generators are the byte-level decoders applied to a filled buffer -/

theorem fillBuffer_length (data : Bytes) (n : Nat) : (fillBuffer data n).1.length = n := by
  simp only [fillBuffer, List.length_append, List.length_take, List.length_replicate]; omega

theorem fillBuffer_nil (n : Nat) : fillBuffer [] n = (List.replicate n 0, []) := by
  simp [fillBuffer]

theorem arbitraryFixed_eq (N : Nat) (data : Bytes) :
    BF.arbitraryFixed N data = BF.fromBytes (.fixed N) (fillBuffer data (bytesForBitLen N)).1 := rfl

theorem arbitraryVariable_eq (N : Nat) (data : Bytes) :
    BF.arbitraryVariable N data =
      BF.fromBytes (.variable N)
        (fillBuffer (fillBuffer data 8).2 (min (fromLE (fillBuffer data 8).1) N)).1 := rfl

/-- the buffer handed to `from_bytes` has at most `N` bytes -/
theorem arbitraryVariable_buffer_le (N : Nat) (data : Bytes) :
    (fillBuffer (fillBuffer data 8).2 (min (fromLE (fillBuffer data 8).1) N)).1.length ≤ N := by
  rw [fillBuffer_length]; exact Nat.min_le_right _ _

/-! ### no panic -/

theorem arbitraryFixed_no_panic (N : Nat) (data : Bytes) : BF.arbitraryFixed N data ≠ .panic := by
  rw [arbitraryFixed_eq]; exact fromBytes_ne_panic _ _

theorem arbitraryVariable_no_panic (N : Nat) (data : Bytes) : BF.arbitraryVariable N data ≠ .panic := by
  rw [arbitraryVariable_eq]; exact fromBytes_ne_panic _ _

/-! ### every generated value is a valid bitfield of its type -/

theorem arbitraryFixed_valid (N : Nat) (data : Bytes) (bf : BF) (h : BF.arbitraryFixed N data = .ok bf) :
    bf.Inv ∧ bf.len = N ∧ ∃ b, bf.intoBytes (.fixed N) = .ok b ∧ BF.fromBytes (.fixed N) b = .ok bf := by
  rw [arbitraryFixed_eq] at h
  obtain ⟨hinv, hk, hb⟩ := fromBytes_sound _ _ bf h
  exact ⟨hinv, by simpa [BKind.lenOk] using hk, _, hb, h⟩

theorem arbitraryVariable_valid (N : Nat) (data : Bytes) (bf : BF)
    (h : BF.arbitraryVariable N data = .ok bf) :
    bf.Inv ∧ bf.len ≤ N ∧
      ∃ b, bf.intoBytes (.variable N) = .ok b ∧ BF.fromBytes (.variable N) b = .ok bf := by
  rw [arbitraryVariable_eq] at h
  obtain ⟨hinv, hk, hb⟩ := fromBytes_sound _ _ bf h
  exact ⟨hinv, by simpa [BKind.lenOk] using hk, _, hb, h⟩

/-- the generated bitvector is the filled buffer itself, with `N` bits -/
theorem arbitraryFixed_value (N : Nat) (data : Bytes) (bf : BF) (h : BF.arbitraryFixed N data = .ok bf) :
    bf = ⟨(fillBuffer data (bytesForBitLen N)).1, N⟩ := by
  have h' : fromRawBytes (fillBuffer data (bytesForBitLen N)).1 N = some bf :=
    (resOfOption_ok_iff _ _).mp h
  exact ((fromRawBytes_iff _ _ _).mp h').1

/-- the buffer has at most `N` BYTES, so a generated bitlist occupies at most `N` bytes including
    its delimiter (the generator cannot produce the longer bitlists of the type when `N > 8`) -/
theorem arbitraryVariable_len_lt (N : Nat) (data : Bytes) (bf : BF)
    (h : BF.arbitraryVariable N data = .ok bf) : bf.len / 8 + 1 ≤ N := by
  rw [arbitraryVariable_eq] at h
  have hl := ((fromBytesV_ok_iff N _ bf).mp h).2.2.1
  have := arbitraryVariable_buffer_le N data
  omega

/-! ### reachability -/

/-- with no data left the buffer is all zero, which is the empty-set bitvector: holds for every `N` -/
theorem arbitraryFixed_nil (N : Nat) : BF.arbitraryFixed N [] = .ok (BF.newFixed N) := by
  show Res.ofOption (fromRawBytes (fillBuffer [] (bytesForBitLen N)).1 N) = _
  rw [fillBuffer_nil]
  show Res.ofOption (fromRawBytes (List.replicate (bytesForBitLen N) 0) N) = _
  rw [(fromRawBytes_iff _ _ ⟨List.replicate (bytesForBitLen N) 0, N⟩).mpr ⟨rfl, inv_zeros N⟩]
  rfl

theorem arbitraryFixed_reachable (N : Nat) : ∃ data bf, BF.arbitraryFixed N data = .ok bf :=
  ⟨[], _, arbitraryFixed_nil N⟩

/-- capacity only enters `from_bytes` through the final bound check -/
theorem fromBytesV_mono (M N : Nat) (b : Bytes) (bf : BF) (h : BF.fromBytesV M b = .ok bf)
    (hN : bf.len ≤ N) : BF.fromBytesV N b = .ok bf := by
  obtain ⟨h1, _, h3, h4⟩ := (fromBytesV_ok_iff M b bf).mp h
  exact (fromBytesV_ok_iff N b bf).mpr ⟨h1, hN, h3, h4⟩

/-- size word `1` followed by one data byte `x`: the buffer is `[x]` -/
theorem arbitraryVariable_one_byte (N : Nat) (hN : 1 ≤ N) (x : UInt8) :
    BF.arbitraryVariable N [1, 0, 0, 0, 0, 0, 0, 0, x] = BF.fromBytesV N [x] := by
  have hw : fillBuffer [1, 0, 0, 0, 0, 0, 0, 0, x] 8 = ([1, 0, 0, 0, 0, 0, 0, 0], [x]) := by
    simp [fillBuffer]
  have hle : fromLE [1, 0, 0, 0, 0, 0, 0, 0] = 1 := by decide
  have hmin : min 1 N = 1 := Nat.min_eq_left hN
  have hb : fillBuffer [x] 1 = ([x], []) := by simp [fillBuffer]
  rw [arbitraryVariable_eq, hw]
  simp only [hle, hmin, hb]
  rfl

/-- the witness: size word 1, then the byte `0x01` (a lone delimiter) gives the empty bitlist -/
theorem arbitraryVariable_empty (N : Nat) (hN : 1 ≤ N) :
    BF.arbitraryVariable N [1, 0, 0, 0, 0, 0, 0, 0, 1] = .ok ⟨[0], 0⟩ := by
  rw [arbitraryVariable_one_byte N hN]
  exact fromBytesV_mono 0 N [1] _ (by decide) (Nat.zero_le _)

theorem arbitraryVariable_reachable (N : Nat) (h : 1 ≤ N) :
    ∃ data bf, BF.arbitraryVariable N data = .ok bf :=
  ⟨_, _, arbitraryVariable_empty N h⟩

/-- a non-trivial value: byte `0x03` gives the one-bit bitlist whose bit is set -/
theorem arbitraryVariable_one_bit (N : Nat) (hN : 1 ≤ N) :
    BF.arbitraryVariable N [1, 0, 0, 0, 0, 0, 0, 0, 3] = .ok ⟨[1], 1⟩ ∧
    (⟨[1], 1⟩ : BF).abs = [true] := by
  refine ⟨?_, by decide⟩
  rw [arbitraryVariable_one_byte N hN]
  exact fromBytesV_mono 1 N [3] _ (by decide) hN

/-- more generally every length up to `min N 7` is reachable from 9 bytes of data: any non-zero byte
    `x` whose highest set bit is at position at most `N` is accepted, with that position as length -/
theorem arbitraryVariable_one_byte_ok (N : Nat) (hN : 1 ≤ N) (x : UInt8) (hx : x ≠ 0)
    (hlog : x.toNat.log2 ≤ N) :
    ∃ bf, BF.arbitraryVariable N [1, 0, 0, 0, 0, 0, 0, 0, x] = .ok bf ∧ bf.len = x.toNat.log2 := by
  rw [arbitraryVariable_one_byte N hN]
  have key : ∀ a < 256, a ≠ 0 →
      (BF.fromBytesV 8 [UInt8.ofNat a]).map BF.len = .ok a.log2 := by decide +kernel
  have hk := key x.toNat x.toNat_lt (by
    intro e; apply hx; exact UInt8.toNat_inj.mp (by simpa using e))
  rw [UInt8.ofNat_toNat] at hk
  cases h1 : BF.fromBytesV 8 [x] with
  | err => rw [h1] at hk; cases hk
  | panic => rw [h1] at hk; cases hk
  | ok bf =>
  rw [h1] at hk
  have h2 : bf.len = x.toNat.log2 := by simpa using hk
  exact ⟨bf, fromBytesV_mono 8 N [x] bf h1 (by omega), h2⟩

/-- capacity 0 is the exception: the buffer is empty and `from_bytes` rejects the empty string, so
    `BitList<0>::arbitrary` never succeeds (the property is claimed for `N ≥ 1` only) -/
theorem arbitraryVariable_zero (data : Bytes) : BF.arbitraryVariable 0 data = .err := by
  rw [arbitraryVariable_eq]
  have : (fillBuffer (fillBuffer data 8).2 (min (fromLE (fillBuffer data 8).1) 0)).1 = [] := by
    apply List.eq_nil_of_length_eq_zero
    rw [fillBuffer_length]; exact Nat.min_eq_right (Nat.zero_le _)
  rw [this]
  decide

/-! ### the defect repaired by the `fix:` commit -/

/-- `BitVector<N>::arbitrary` before the repair: the buffer had `N` bytes (bits mistaken for bytes) -/
def arbitraryFixedOld (N : Nat) (data : Bytes) : Res BF :=
  let (buf, _) := fillBuffer data N
  Res.ofOption (BF.fromBytesF N buf)

/-- generation could never succeed for `N ≥ 2`: `from_bytes` wants `⌈N/8⌉ < N` bytes -/
theorem arbitraryFixedOld_err (N : Nat) (hN : 2 ≤ N) (data : Bytes) : arbitraryFixedOld N data = .err := by
  show Res.ofOption (fromRawBytes (fillBuffer data N).1 N) = .err
  have hl := fillBuffer_length data N
  have hne : (fillBuffer data N).1.length ≠ bytesForBitLen N := by
    rw [hl]; unfold bytesForBitLen; omega
  unfold fromRawBytes
  rw [if_neg (by omega), if_pos hne]
  rfl

/-- nor for `N = 0` (an empty buffer, while `BitVector<0>` is encoded as one zero byte) -/
theorem arbitraryFixedOld_zero (data : Bytes) : arbitraryFixedOld 0 data = .err := by
  show Res.ofOption (fromRawBytes (fillBuffer data 0).1 0) = .err
  have : (fillBuffer data 0).1 = [] := List.eq_nil_of_length_eq_zero (fillBuffer_length data 0)
  rw [this]; rfl

/-- the only capacity at which the old code could succeed -/
theorem arbitraryFixedOld_ok_imp (N : Nat) (data : Bytes) (bf : BF) (h : arbitraryFixedOld N data = .ok bf) :
    N = 1 := by
  match N, h with
  | 0, h => rw [arbitraryFixedOld_zero] at h; cases h
  | 1, _ => rfl
  | n + 2, h => rw [arbitraryFixedOld_err (n + 2) (by omega)] at h; cases h

/-- whereas the repaired code agrees with the old one at `N = 1` and succeeds at every `N` -/
theorem arbitraryFixedOld_one (data : Bytes) : arbitraryFixedOld 1 data = BF.arbitraryFixed 1 data := rfl

/-! ### instances -/

example : fillBuffer [1, 2, 3] 2 = ([1, 2], [3]) := by decide
example : fillBuffer [1, 2, 3] 5 = ([1, 2, 3, 0, 0], []) := by decide
-- bitvectors
example : BF.arbitraryFixed 0 [] = .ok ⟨[0], 0⟩ := by decide
example : BF.arbitraryFixed 0 [1] = .err := by decide            -- BitVector<0> must be the zero byte
example : BF.arbitraryFixed 4 [0x0f, 0xff] = .ok ⟨[0x0f], 4⟩ := by decide
example : BF.arbitraryFixed 4 [0x1f] = .err := by decide          -- a bit above N
example : BF.arbitraryFixed 16 [0xab] = .ok ⟨[0xab, 0x00], 16⟩ := by decide   -- zero-filled
example : BF.arbitraryFixed 9 [0xff, 0x01, 0x55] = .ok ⟨[0xff, 0x01], 9⟩ := by decide
example : arbitraryFixedOld 16 [0xab, 0xcd] = .err := by decide   -- 16 bytes for 16 bits
example : arbitraryFixedOld 2 [] = .err := by decide
-- bitlists
example : BF.arbitraryVariable 8 [1, 0, 0, 0, 0, 0, 0, 0, 1] = .ok ⟨[0], 0⟩ := by decide
example : BF.arbitraryVariable 8 [1, 0, 0, 0, 0, 0, 0, 0, 3] = .ok ⟨[1], 1⟩ := by decide
example : BF.arbitraryVariable 8 [2, 0, 0, 0, 0, 0, 0, 0, 0xff, 0x01] = .ok ⟨[0xff], 8⟩ := by decide
example : BF.arbitraryVariable 8 [2, 0, 0, 0, 0, 0, 0, 0, 0xff, 0x02] = .err := by decide  -- 9 bits > 8
example : BF.arbitraryVariable 8 [] = .err := by decide           -- size 0: empty buffer
example : BF.arbitraryVariable 8 [1] = .err := by decide          -- buffer [0]: no delimiter
-- the size word is capped by N (here 0xffff… → 2 bytes)
example : BF.arbitraryVariable 2 [0xff, 0xff, 0xff, 0xff, 0xff, 0xff, 0xff, 0xff, 0x01, 0x01] =
    .err := by decide                                              -- 8 bits > capacity 2
example : BF.arbitraryVariable 2 [0xff, 0xff, 0xff, 0xff, 0xff, 0xff, 0xff, 0xff, 0x05] =
    .err := by decide                                              -- buffer [5, 0]: zero last byte
example : BF.arbitraryVariable 0 [1, 0, 0, 0, 0, 0, 0, 0, 1] = .err := by decide

end Ssz.C20
