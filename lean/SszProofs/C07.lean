import SszProofs.Lemmas.CodecFacts
import SszModel.Spec
/-
  C07 — Size metadata is exact and consistent.

  * `bytesLen_eq`: for every type of the algebra and every well-typed value, `ssz_bytes_len` equals the
    length of the bytes `as_ssz_bytes` produces. The only hypothesis is `hasType t v`: an ill-typed
    value is encoded as nothing by the model while e.g. `bytesLen (.uint 8) _ = 8`. No hypothesis on
    selectors / tags (`UInt8.ofNat i`) is needed: a selector is one byte whatever its value.
  * `fixed_len_exact`, `bytesLen_fixed`: a fixed-size type always encodes to `ssz_fixed_len()` bytes.
  * `fixed_decode_len`: its decoder accepts only inputs of that length.
  * `variable_fixedLen`: `ssz_fixed_len()` is 4 for every variable-size type.
  * `fixed_not_variable`: `is_ssz_fixed_len()` is the negation of the specification's
    `is_variable_size`, defined independently in `SszModel/Spec.lean`.
  * the list forms of these for `allFixed` / `sumFixedLen` (field lists of containers and tuples).
-/
set_option linter.unusedSimpArgs false
namespace Ssz.C07
open Ssz Ssz.Size

/-! ### predicted size = produced size -/

/-- sum of the produced lengths of the items of a list -/
def encLenSum (t : Ty) (vs : List Val) : Nat := sumLens (vs.map (encode t))

theorem encLenSum_nil (t : Ty) : encLenSum t [] = 0 := by simp [encLenSum, sumLens]
theorem encLenSum_cons (t : Ty) (v : Val) (vs : List Val) :
    encLenSum t (v :: vs) = (encode t v).length + encLenSum t vs := by simp [encLenSum, sumLens]

theorem hasTypeAll_mem (t : Ty) : ∀ (vs : List Val), hasTypeAll t vs = true → ∀ v ∈ vs, hasType t v = true
  | [], _, v, hv => by simp at hv
  | x :: xs, h, v, hv => by
      simp only [hasTypeAll, Bool.and_eq_true] at h
      rcases List.mem_cons.mp hv with rfl | hv
      · exact h.1
      · exact hasTypeAll_mem t xs h.2 v hv

/-- list of fixed-size items: `fixed_len * len` bytes -/
theorem encode_listFixed_length' (c : CKind) (t : Ty) (vs : List Val) (hf : t.isFixed = true)
    (ht : hasTypeAll t vs = true) : (encode (.list c t) (.list vs)).length = t.fixedLen * vs.length := by
  rw [encode_listFixed_length c t vs hf, sumLens_const t.fixedLen]
  · simp
  · intro x hx
    obtain ⟨v, hv, rfl⟩ := List.mem_map.mp hx
    exact encode_fixed_length t v hf (hasTypeAll_mem t vs ht v hv)

theorem appendNth_cons_length (ts : List Ty) (i : Nat) (v : Val) (buf : Bytes) :
    (appendNth ts i v buf).length = buf.length + (appendNth ts i v []).length := by
  rw [appendNth_prefix]; simp

theorem sszAppend_length (t : Ty) (v : Val) (buf : Bytes) :
    (sszAppend t v buf).length = buf.length + (encode t v).length := by
  rw [append_prefix]; simp [encode]

mutual
/-- `ssz_bytes_len()` is exact -/
theorem bytesLen_eq : ∀ (t : Ty) (v : Val), hasType t v = true → bytesLen t v = (encode t v).length
  | .uint k, v, ht => by
      cases v <;> simp [hasType] at ht
      simp [bytesLen, encode, sszAppend, le_length]
  | .bool, v, ht => by
      cases v <;> simp [hasType] at ht
      simp [bytesLen, encode, sszAppend]
  | .nonZeroUsize, v, ht => by
      cases v <;> simp [hasType] at ht
      simp [bytesLen, encode, sszAppend, le_length]
  | .bytesN n, v, ht => by
      cases v <;> simp [hasType] at ht
      simp [bytesLen, encode, sszAppend, ht]
  | .byteList, v, ht => by
      cases v <;> simp [hasType] at ht
      simp [bytesLen, encode, sszAppend]
  | .tagEnum n, v, ht => by
      cases v <;> simp [hasType] at ht
      simp [bytesLen, encode, sszAppend]
  | .bitvector n, v, ht => by
      cases v <;> simp [hasType] at ht
      simp [bytesLen, encode, sszAppend, bitsBytes, BF.intoBytes, BF.intoBytesF]
  | .bitlist n, v, ht => by
      cases v <;> simp [hasType] at ht
      simp [bytesLen, encode, sszAppend]
  | .bitvectorDyn, v, ht => by
      cases v <;> simp [hasType] at ht
      simp [bytesLen, encode, sszAppend, bitsBytes, BF.intoBytes]
  | .option t, v, ht => by
      cases v <;> simp [hasType] at ht
      · simp [bytesLen, encode, sszAppend]
      · rename_i x
        simp only [bytesLen, encode, sszAppend, List.nil_append]
        rw [sszAppend_length, bytesLen_eq t x ht]; simp; omega
  | .legacyOption t, v, ht => by
      cases v <;> simp [hasType] at ht
      · simp [bytesLen, encode, sszAppend, encodeLength_length]
      · rename_i x
        simp only [bytesLen, encode, sszAppend, List.nil_append]
        rw [sszAppend_length, encodeLength_length]
        cases hf : t.isFixed
        · simp only [Bool.false_eq_true, ↓reduceIte]
          rw [bytesLen_eq t x ht]; omega
        · simp only [↓reduceIte]
          rw [encode_fixed_length t x hf ht]; omega
  | .list c t, v, ht => by
      cases v <;> simp [hasType] at ht
      rename_i vs
      cases hf : t.isFixed
      · rw [encode_listVar_length c t vs hf]
        simp only [bytesLen, hf, Bool.false_eq_true, ↓reduceIte]
        rw [bytesLenSum_eq t vs ht.1, encLenSum]
      · rw [encode_listFixed_length' c t vs hf ht.1]
        simp [bytesLen, hf]
  | .tuple ts, v, ht => by
      cases v <;> simp [hasType] at ht
      rename_i vs
      rw [encode_tuple_length]
      cases hf : allFixed ts
      · simp only [bytesLen, hf, Bool.false_eq_true, ↓reduceIte]
        exact bytesLenFields_eq ts vs ht
      · simp only [bytesLen, hf, ↓reduceIte]
        exact (encLenFields_fixed ts vs hf ht).symm
  | .container ts, v, ht => by
      cases v <;> simp [hasType] at ht
      rename_i vs
      rw [encode_container_length]
      cases hf : allFixed ts
      · simp only [bytesLen, hf, Bool.false_eq_true, ↓reduceIte]
        exact bytesLenFields_eq ts vs ht
      · simp only [bytesLen, hf, ↓reduceIte]
        exact (encLenFields_fixed ts vs hf ht).symm
  | .union ts, v, ht => by
      cases v <;> simp [hasType] at ht
      rename_i i x
      simp only [bytesLen, encode, sszAppend, List.nil_append]
      rw [appendNth_cons_length, bytesLenNth_eq ts i x ht]; simp; omega
  | .transparentEnum ts, v, ht => by
      cases v <;> simp [hasType] at ht
      rename_i i x
      simp only [bytesLen, encode, sszAppend]
      exact bytesLenNth_eq ts i x ht
/-- the item sum used for lists of variable-size items -/
theorem bytesLenSum_eq (t : Ty) : ∀ (vs : List Val), hasTypeAll t vs = true →
    bytesLenSum t vs = encLenSum t vs
  | [], _ => by simp [bytesLenSum, encLenSum_nil]
  | v :: vs, ht => by
      simp only [hasTypeAll, Bool.and_eq_true] at ht
      simp only [bytesLenSum, encLenSum_cons]
      rw [bytesLen_eq t v ht.1, bytesLenSum_eq t vs ht.2]
/-- the field sum used for containers and tuples with a variable-size field -/
theorem bytesLenFields_eq : ∀ (ts : List Ty) (vs : List Val), hasTypes ts vs = true →
    bytesLenFields ts vs = encLenFields ts vs
  | [], [], _ => by simp [bytesLenFields, encLenFields]
  | [], _ :: _, ht => by simp [hasTypes] at ht
  | _ :: _, [], ht => by simp [hasTypes] at ht
  | t :: ts, v :: vs, ht => by
      simp only [hasTypes, Bool.and_eq_true] at ht
      simp only [bytesLenFields, encLenFields]
      rw [bytesLenFields_eq ts vs ht.2]
      cases hf : t.isFixed
      · simp only [Bool.false_eq_true, ↓reduceIte]
        rw [bytesLen_eq t v ht.1]
      · simp only [↓reduceIte]
        rw [encode_fixed_length t v hf ht.1]
/-- the selected variant of a union / transparent enum -/
theorem bytesLenNth_eq : ∀ (ts : List Ty) (i : Nat) (v : Val), hasTypeNth ts i v = true →
    bytesLenNth ts i v = (appendNth ts i v []).length
  | [], _, _, ht => by simp [hasTypeNth] at ht
  | t :: _, 0, v, ht => by
      simp only [hasTypeNth] at ht
      simp only [bytesLenNth, appendNth]
      exact bytesLen_eq t v ht
  | _ :: ts, i+1, v, ht => by
      simp only [hasTypeNth] at ht
      simp only [bytesLenNth, appendNth]
      exact bytesLenNth_eq ts i v ht
end

/-! ### fixed-size types -/

/-- every value of a fixed-size type encodes to exactly the advertised fixed length -/
theorem fixed_len_exact (t : Ty) (v : Val) (hf : t.isFixed = true) (ht : hasType t v = true) :
    (encode t v).length = t.fixedLen := encode_fixed_length t v hf ht

/-- ... and `ssz_bytes_len()` reports that length -/
theorem bytesLen_fixed (t : Ty) (v : Val) (hf : t.isFixed = true) (ht : hasType t v = true) :
    bytesLen t v = t.fixedLen := by
  rw [bytesLen_eq t v ht, encode_fixed_length t v hf ht]

/-- the decoder of a fixed-size type accepts only inputs of the advertised length -/
theorem fixed_decode_len (t : Ty) (b : Bytes) (v : Val) (hf : t.isFixed = true)
    (h : decode t b = .ok v) : b.length = t.fixedLen := decode_fixed_length t b v hf h

/-- contrapositive: any other length is rejected (`Err` or panic, never `Ok`) -/
theorem fixed_decode_rejects (t : Ty) (b : Bytes) (hf : t.isFixed = true)
    (hl : b.length ≠ t.fixedLen) : ∀ v, decode t b ≠ .ok v :=
  fun v h => hl (decode_fixed_length t b v hf h)

/-- two values of one fixed-size type have encodings of the same length -/
theorem fixed_len_uniform (t : Ty) (v w : Val) (hf : t.isFixed = true)
    (hv : hasType t v = true) (hw : hasType t w = true) : (encode t v).length = (encode t w).length := by
  rw [encode_fixed_length t v hf hv, encode_fixed_length t w hf hw]

/-! ### variable-size types -/

/-- the fixed-part length of every variable-size type is `BYTES_PER_LENGTH_OFFSET = 4` -/
theorem variable_fixedLen (t : Ty) (h : t.isFixed = false) : t.fixedLen = 4 :=
  Size.variable_fixedLen t h

mutual
/-- the model's `is_ssz_fixed_len()` is the negation of the specification's `is_variable_size` -/
theorem fixed_not_variable : ∀ (t : Ty), Spec.isVariable t = !t.isFixed
  | .uint _ | .bool | .nonZeroUsize | .bytesN _ | .tagEnum _ | .bitvector _
  | .byteList | .list _ _ | .option _ | .union _ | .bitlist _ | .bitvectorDyn | .legacyOption _
  | .transparentEnum _ => by simp [Spec.isVariable, Ty.isFixed]
  | .tuple ts => by simp only [Spec.isVariable, Ty.isFixed]; exact anyVariable_not_allFixed ts
  | .container ts => by simp only [Spec.isVariable, Ty.isFixed]; exact anyVariable_not_allFixed ts
theorem anyVariable_not_allFixed : ∀ (ts : List Ty), Spec.anyVariable ts = !allFixed ts
  | [] => by simp [Spec.anyVariable, allFixed]
  | t :: ts => by
      simp only [Spec.anyVariable, allFixed, fixed_not_variable t, anyVariable_not_allFixed ts,
        Bool.not_and]
end

/-! ### field lists (`allFixed`, `sumFixedLen`) -/

/-- all fields fixed-size: the field encodings add up to the advertised total -/
theorem allFixed_len_exact (ts : List Ty) (vs : List Val) (hf : allFixed ts = true)
    (ht : hasTypes ts vs = true) : sumLens (encodeEach ts vs) = sumFixedLen ts := by
  induction ts generalizing vs with
  | nil => cases vs <;> simp [encodeEach, sumLens, sumFixedLen]
  | cons t ts ih =>
    cases vs with
    | nil => simp [hasTypes] at ht
    | cons v vs =>
      simp only [allFixed, Bool.and_eq_true] at hf
      simp only [hasTypes, Bool.and_eq_true] at ht
      have := ih vs hf.2 ht.2
      simp only [sumLens] at this
      simp only [encodeEach, sumLens, List.map_cons, List.sum_cons, sumFixedLen, this,
        encode_fixed_length t v hf.1 ht.1]

/-- all fields fixed-size: the container is the plain concatenation of its fields -/
theorem allFixed_encode_concat (ts : List Ty) (vs : List Val) (hf : allFixed ts = true) :
    encode (.container ts) (.tuple vs) = (encodeEach ts vs).flatten ∧
    encode (.tuple ts) (.tuple vs) = (encodeEach ts vs).flatten := by
  have key : ∀ (ts : List Ty) (vs : List Val) (o : Nat), allFixed ts = true →
      fpart (regsOf ts) (encodeEach ts vs) o = (encodeEach ts vs).flatten := by
    intro ts
    induction ts with
    | nil => intro vs o _; cases vs <;> simp [regsOf, encodeEach, fpart]
    | cons t ts ih =>
      intro vs o hf
      simp only [allFixed, Bool.and_eq_true] at hf
      cases vs with
      | nil => simp [regsOf, Ty.reg, hf.1, encodeEach, fpart]
      | cons v vs => simp [regsOf, Ty.reg, hf.1, encodeEach, fpart, ih vs o hf.2]
  constructor <;>
  · simp only [encode, sszAppend]
    rw [appendFields_eq, go_eq, key ts vs _ hf, vpart_allFixed ts _ hf]
    simp [Enc.container]

/-- a container / tuple is fixed-size iff all its fields are, and then advertises their sum -/
theorem container_fixedLen (ts : List Ty) (hf : allFixed ts = true) :
    (Ty.container ts).isFixed = true ∧ (Ty.container ts).fixedLen = sumFixedLen ts ∧
    (Ty.tuple ts).isFixed = true ∧ (Ty.tuple ts).fixedLen = sumFixedLen ts := by
  simp [Ty.isFixed, Ty.fixedLen, hf]

/-- with a variable-size field the container itself occupies one offset word in its parent -/
theorem container_variable_fixedLen (ts : List Ty) (hf : allFixed ts = false) :
    (Ty.container ts).fixedLen = 4 ∧ (Ty.tuple ts).fixedLen = 4 := by
  simp [Ty.fixedLen, hf]

/-- `sumFixedLen` is the length of the fixed part (fields and offset words) of every container -/
theorem sumFixedLen_eq_fixedSize (ts : List Ty) : sumFixedLen ts = fixedSize (regsOf ts) :=
  (fixedSize_regsOf ts).symm

/-- each field contributes its advertised length if fixed-size and 4 otherwise -/
theorem sumFixedLen_split (ts : List Ty) :
    sumFixedLen ts = (ts.map fun t => if t.isFixed then t.fixedLen else 4).sum := by
  induction ts with
  | nil => simp [sumFixedLen]
  | cons t ts ih =>
    simp only [sumFixedLen, List.map_cons, List.sum_cons, ih]
    cases hf : t.isFixed <;> simp [Size.variable_fixedLen t, hf]

/-- the decoder of a field list of fixed-size types (through the builder, as tuples and containers
    with a variable field elsewhere use it) accepts exactly `sumFixedLen` bytes -/
theorem allFixed_build_len (ts : List Ty) (b : Bytes) (items : List Bytes)
    (hf : allFixed ts = true) (h : build (regsOf ts) b = .ok items) : b.length = sumFixedLen ts :=
  build_allFixed_length ts b items hf h

/-- every encoding is at least as long as the fixed part of its container -/
theorem sumFixedLen_le_encode (ts : List Ty) (vs : List Val) (ht : hasTypes ts vs = true) :
    sumFixedLen ts ≤ (encode (.container ts) (.tuple vs)).length := by
  rw [encode_container_length]
  induction ts generalizing vs with
  | nil => simp [sumFixedLen]
  | cons t ts ih =>
    cases vs with
    | nil => simp [hasTypes] at ht
    | cons v vs =>
      simp only [hasTypes, Bool.and_eq_true] at ht
      have := ih vs ht.2
      simp only [sumFixedLen, encLenFields]
      cases hf : t.isFixed
      · simp only [Bool.false_eq_true, ↓reduceIte, Size.variable_fixedLen t hf]; omega
      · simp only [↓reduceIte, encode_fixed_length t v hf ht.1]; omega

/-! ### the hypotheses are satisfiable: concrete values -/

/-- a mixed container `{ a: u16, b: Vec<u8>, c: bool }` -/
example :
    hasType (.container [.uint 2, .list .vec (.uint 1), .bool])
      (.tuple [.uint 258, .list [.uint 7, .uint 9], .bool true]) = true ∧
    encode (.container [.uint 2, .list .vec (.uint 1), .bool])
      (.tuple [.uint 258, .list [.uint 7, .uint 9], .bool true]) = [2, 1, 7, 0, 0, 0, 1, 7, 9] ∧
    bytesLen (.container [.uint 2, .list .vec (.uint 1), .bool])
      (.tuple [.uint 258, .list [.uint 7, .uint 9], .bool true]) = 9 := by
  simp [hasType, hasTypes, hasTypeAll, encode, sszAppend, appendFields, appendAll, Enc.appendWith,
    Enc.container, Enc.finalize, Ty.isFixed, allFixed, Ty.fixedLen, sumFixedLen, encodeLength, le,
    bytesLen, bytesLenFields, bytesLenSum]

/-- a list of variable-size items `Vec<Vec<u8>>` -/
example :
    hasType (.list .vec (.list .vec (.uint 1))) (.list [.list [.uint 1], .list [], .list [.uint 2, .uint 3]]) = true ∧
    encode (.list .vec (.list .vec (.uint 1))) (.list [.list [.uint 1], .list [], .list [.uint 2, .uint 3]])
      = [12, 0, 0, 0, 13, 0, 0, 0, 13, 0, 0, 0, 1, 2, 3] ∧
    bytesLen (.list .vec (.list .vec (.uint 1))) (.list [.list [.uint 1], .list [], .list [.uint 2, .uint 3]]) = 15 := by
  simp [hasType, hasTypeAll, encode, sszAppend, appendSeq, appendAll, Enc.appendWith,
    Enc.container, Enc.finalize, Ty.isFixed, Ty.fixedLen, encodeLength, le, bytesLen, bytesLenSum]

/-- an all-fixed container `{ a: u8, b: (bool, u16) }`: encoder length, advertised length and the
    decoder's verdict on a short input -/
example :
    (Ty.container [.uint 1, .tuple [.bool, .uint 2]]).isFixed = true ∧
    (Ty.container [.uint 1, .tuple [.bool, .uint 2]]).fixedLen = 4 ∧
    hasType (.container [.uint 1, .tuple [.bool, .uint 2]]) (.tuple [.uint 5, .tuple [.bool false, .uint 513]]) = true ∧
    encode (.container [.uint 1, .tuple [.bool, .uint 2]]) (.tuple [.uint 5, .tuple [.bool false, .uint 513]])
      = [5, 0, 1, 2] ∧
    decode (.container [.uint 1, .tuple [.bool, .uint 2]]) [5, 0, 1] = .err := by
  simp [hasType, hasTypes, encode, sszAppend, appendFields, Enc.appendWith, Enc.container,
    Enc.finalize, Ty.isFixed, allFixed, Ty.fixedLen, sumFixedLen, le, decode]

/-! ### consequences used by callers that stream values into one buffer -/

/-- `buf.len()` after `v.ssz_append(&mut buf)` is the old length plus `v.ssz_bytes_len()`: the size
    prediction is exact for appends to a non-empty buffer too, so `Vec::with_capacity(ssz_bytes_len)`
    followed by any number of appends never under- or over-reserves -/
theorem append_length_predicted (t : Ty) (v : Val) (buf : Bytes) (ht : hasType t v = true) :
    (sszAppend t v buf).length = buf.length + bytesLen t v := by
  rw [sszAppend_length, bytesLen_eq t v ht]

/-- two consecutive appends grow the buffer by the sum of the two predictions -/
theorem append_length_two (t u : Ty) (v w : Val) (buf : Bytes) (hv : hasType t v = true)
    (hw : hasType u w = true) :
    (sszAppend u w (sszAppend t v buf)).length = buf.length + bytesLen t v + bytesLen u w := by
  rw [append_length_predicted u w _ hw, append_length_predicted t v _ hv]

/-- the encodings of a fixed-size type form a prefix-free code: no encoding is a proper prefix of
    another (this is what lets a list of fixed-size items be cut into chunks without delimiters) -/
theorem fixed_prefix_free (t : Ty) (v w : Val) (extra : Bytes) (hf : t.isFixed = true)
    (hv : hasType t v = true) (hw : hasType t w = true) (h : encode t v = encode t w ++ extra) :
    extra = [] := by
  have h1 := fixed_len_exact t v hf hv
  have h2 := fixed_len_exact t w hf hw
  have h3 : (encode t v).length = (encode t w).length + extra.length := by rw [h]; simp
  have : extra.length = 0 := by omega
  exact List.eq_nil_of_length_eq_zero this

/-- a decoder of a fixed-size type rejects every proper extension of an accepted input -/
theorem fixed_decode_rejects_extension (t : Ty) (b extra : Bytes) (v : Val) (hf : t.isFixed = true)
    (h : decode t b = .ok v) (hne : extra ≠ []) : ∀ w, decode t (b ++ extra) ≠ .ok w := by
  intro w hw'
  have h1 := fixed_decode_len t b v hf h
  have h2 := fixed_decode_len t (b ++ extra) w hf hw'
  have : extra.length = 0 := by simp at h2; omega
  exact hne (List.eq_nil_of_length_eq_zero this)

example : hasType (.uint 2) (.uint 513) = true ∧ (sszAppend (.uint 2) (.uint 513) [9, 9]).length = 2 + 2 := by
  simp [hasType, sszAppend, le]

end Ssz.C07
