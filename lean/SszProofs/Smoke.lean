import SszModel.Offset
namespace Ssz
theorem smoke_le_length (k n : Nat) : (le k n).length = k := by
  induction k generalizing n with
  | zero => rfl
  | succ k ih => simp [le, ih]
end Ssz
