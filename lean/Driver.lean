import SszModel.Text
import SszModel.Serde
import SszModel.BitMachine
import SszModel.Alloc
import SszModel.DeriveText
/-
  One request per line on stdin (tab separated), one answer per line on stdout.
-/
open Ssz Ssz.Text

def parseRegs (s : String) : Option (List Reg) :=
  if s == "-" then some [] else
  (s.splitOn ",").mapM fun r =>
    match r.toList with
    | 'v' :: [] => some Reg.var
    | 'f' :: ds => (parseNat ds).bind fun (n, rest) => if rest.isEmpty then some (Reg.fixed n) else none
    | _ => none

def hexList (l : List Bytes) : String := ",".intercalate (l.map fun b => "x" ++ toHex b)

def parseOptNat (s : String) : Option (Option Nat) :=
  if s == "-" then some none else s.toNat?.map some

def parseColl (s : String) : Option Coll :=
  match s.toList with
  | ['v'] => some .vec
  | ['r'] => some .refusing
  | 'b' :: ds => s.toNat?.map Coll.bounded |>.orElse fun _ => (parseNat ds).map fun (n, _) => Coll.bounded n
  | _ => none

def answer (fields : List String) : String :=
  match fields with
  | ["dec", ty, hex] =>
    match tyOfString ty, fromHex hex with
    | some t, some b => resStr valStr (decode t b)
    | _, _ => "bad-request"
  | ["enc", ty, val] =>
    match tyOfString ty, valOfString val with
    | some t, some v => if hasType t v then toHex (encode t v) else "ill-typed"
    | _, _ => "bad-request"
  | ["spec", ty, val] =>
    match tyOfString ty, valOfString val with
    | some t, some v => if hasType t v then toHex (Spec.ser t v) else "ill-typed"
    | _, _ => "bad-request"
  | ["collect_coarse", kind, val] =>
    -- entries ordered by the leading integer of their key only (a key type with a coarse `Ord`)
    match valOfString val with
    | some (.list vs) =>
      let idOf : Val → Nat := fun v => match v with | .tuple (.uint i :: _) => i | _ => 0
      let key : Val → Val := fun v => if kind == "map" then (match v with | .tuple (k :: _) => k | w => w) else v
      valStr (.list (collectCmp (fun a b => compare (idOf (key a)) (idOf (key b))) vs))
    | _ => "bad-request"
  | ["len", ty, val] =>
    match tyOfString ty, valOfString val with
    | some t, some v => if hasType t v then toString (bytesLen t v) else "ill-typed"
    | _, _ => "bad-request"
  | ["append", ty, val, pre] =>
    match tyOfString ty, valOfString val, fromHex pre with
    | some t, some v, some p => if hasType t v then toHex (sszAppend t v p) else "ill-typed"
    | _, _, _ => "bad-request"
  | ["meta", ty] =>
    match tyOfString ty with
    | some t => (if t.isFixed then "fixed " else "variable ") ++ toString t.fixedLen
    | none => "bad-request"
  | ["const"] =>
    s!"{BYTES_PER_LENGTH_OFFSET} {BYTES_PER_UNION_SELECTOR} {MAX_UNION_SELECTOR} {MAX_LENGTH_VALUE}"
  | ["offset_enc", n] =>
    match n.toNat? with
    | some n => toHex (encodeLength n)
    | none => "bad-request"
  | ["offset_enc_dbg", n] =>
    match n.toNat? with
    | some n => resStr toHex (encodeLengthDbg n)
    | none => "bad-request"
  | ["bf_display", bits] =>
    match parseBits bits with
    | some l => String.ofList ((BF.ofBits l).display.map fun c => Char.ofNat c.toNat)
    | none => "bad-request"
  | ["offset_read", hex] =>
    match fromHex hex with
    | some b => optStr toString (readOffset b)
    | none => "bad-request"
  | ["split_union", hex] =>
    match fromHex hex with
    | some b => optStr (fun (p : UInt8 × Bytes) => toString p.1.toNat ++ " x" ++ toHex p.2) (splitUnionBytes b)
    | none => "bad-request"
  | ["selector", n] =>
    match n.toNat? with
    | some n => if n < 256 then optStr (fun (s : UInt8) => toString s.toNat) (unionSelectorNew (UInt8.ofNat n)) else "bad-request"
    | none => "bad-request"
  | ["builder", regs, hex] =>
    match parseRegs regs, fromHex hex with
    | some rs, some b => resStr hexList (build rs b)
    | _, _ => "bad-request"
  | ["listvar", maxLen, coll, hex] =>
    match parseOptNat maxLen, parseColl coll, fromHex hex with
    | some m, some c, some b =>
      let (r, tr) := listVarT (fun s => Res.ok s) b m c
      resStr hexList r ++ " calls=" ++ hexList tr.calls ++ " hint=" ++
        (match tr.sizeHint with | some n => toString n | none => "-")
    | _, _, _ => "bad-request"
  | ["accepts", d] =>
    match parseDef d with
    | some d => toString (accepts d)
    | none => "bad-request"
  | ["denc", d, val] =>
    match parseDef d, valOfString val with
    | some d, some v => toHex (genEncode d v)
    | _, _ => "bad-request"
  | ["ddec", d, hex] =>
    match parseDef d, fromHex hex with
    | some d, some b => resStr valStr (genDecode d b)
    | _, _ => "bad-request"
  | ["dmeta_enc", d] =>
    match parseDef d with
    | some d => metaStr (encSchema d)
    | none => "bad-request"
  | ["dmeta_dec", d] =>
    match parseDef d with
    | some d => metaStr (decSchema d)
    | none => "bad-request"
  | ["dspec", d, val] =>
    match parseDef d, valOfString val with
    | some (.struct_ (some .transparent) e fields), some (.tuple vs) =>
        (match projectDe fields vs with
         | [x] => toHex (Spec.ser (encSchema (.struct_ (some .transparent) e fields)) x)
         | _ => "ill-typed")
    | some (.struct_ b e fields), some (.tuple vs) =>
        toHex (Spec.ser (encSchema (.struct_ b e fields)) (.tuple (projectSer fields vs)))
    | some d, some v => toHex (Spec.ser (encSchema d) v)
    | _, _ => "bad-request"
  | ["alloc", ty, hex] =>
    match tyOfString ty, fromHex hex with
    | some t, some b => toString (allocUnits t b)
    | _, _ => "bad-request"
  | ["bitops", kind, ops] =>
    match parseKind kind with
    | some k => runBitOps k ops
    | none => "bad-request"
  | ["bf_from", kind, hex] =>
    match parseKind kind, fromHex hex with
    | some k, some b => resStr bfStr (BF.fromBytes k b)
    | _, _ => "bad-request"
  | ["bf_into", kind, bits] =>
    match parseKind kind, parseBits bits with
    | some k, some l => resStr toHex ((BF.ofBits l).intoBytes k)
    | _, _ => "bad-request"
  | ["bf_withlen", hex, n] =>
    match fromHex hex, n.toNat? with
    | some b, some n => optStr bfStr (BF.fromBytesWithLen b n)
    | _, _ => "bad-request"
  | ["bf_new", kind, n] =>
    match parseKind kind, n.toNat? with
    | some k, some n => optStr bfStr (newOf k n)
    | _, _ => "bad-request"
  | ["bf_resize", n, m, bits] =>
    match n.toNat?, m.toNat?, parseBits bits with
    | some n, some m, some l => optStr bfStr (BF.resize n m (BF.ofBits l))
    | _, _, _ => "bad-request"
  | ["spec_bitlist_valid", n, hex] =>
    match n.toNat?, fromHex hex with
    | some n, some b => toString (Spec.bitlistValid n b)
    | _, _ => "bad-request"
  | ["spec_bitvector_valid", n, hex] =>
    match n.toNat?, fromHex hex with
    | some n, some b => toString (Spec.bitvectorValid n b)
    | _, _ => "bad-request"
  | ["serde_ser", kind, bits] =>
    match parseKind kind, parseBits bits with
    | some k, some l => resStr toHex (BF.serialize k (BF.ofBits l))
    | _, _ => "bad-request"
  | ["serde_de", kind, hex] =>
    match parseKind kind, fromHex hex with
    | some k, some s => resStr bfStr (BF.deserialize k s)
    | _, _ => "bad-request"
  | ["arb", kind, hex] =>
    match parseKind kind, fromHex hex with
    | some (.fixed n), some d => resStr bfStr (BF.arbitraryFixed n d)
    | some (.variable n), some d => resStr bfStr (BF.arbitraryVariable n d)
    | _, _ => "bad-request"
  | _ => "bad-request"

partial def loop (h : IO.FS.Stream) (out : IO.FS.Stream) : IO Unit := do
  let line ← h.getLine
  if line.isEmpty then return ()
  let line := if line.endsWith "\n" then (line.dropEnd 1).toString else line
  out.putStrLn (answer (line.splitOn "\t"))
  loop h out

def main : IO Unit := do
  let stdin ← IO.getStdin
  let stdout ← IO.getStdout
  loop stdin stdout
