import SszModel.Codec
/-
  Cost semantics of the decoders' allocation sites (C06). `allocUnits t b` is an UPPER BOUND, in
  abstract units (bytes of inline value representation), on everything `decode t b` requests from
  the allocator: byte copies (`to_vec`, `to_smallvec`), the element slots of the collections
  (`Vec::with_capacity(size_hint.upper)` on the offset-table path, the geometric growth of `collect`
  on the chunk path, the intermediate vector and the nodes of `BTreeMap/BTreeSet::from_iter`), the
  heap spill of the builder's 8-slot inline vectors, and recursively what the item decoders request.
  On error paths fewer items are decoded than counted here. The harness's counting allocator checks
  on every sampled decode that the bytes really requested are at most `16 * allocUnits + 2048`.
-/
namespace Ssz

mutual
/-- size of the inline part of a decoded value (`size_of::<T>()` up to padding) -/
def Ty.slot : Ty → Nat
  | .uint k => k
  | .bool => 1
  | .nonZeroUsize => 8
  | .bytesN n => n
  | .byteList => 32
  | .list _ _ => 24
  | .option t => t.slot + 8
  | .tuple ts => slotSum ts
  | .container ts => slotSum ts
  | .union ts => slotMax ts + 8
  | .tagEnum _ => 1
  | .transparentEnum ts => slotMax ts + 8
  | .bitvector _ => 152
  | .bitlist _ => 152
  | .bitvectorDyn => 152
  | .legacyOption t => t.slot + 8
def slotSum : List Ty → Nat
  | [] => 0
  | t :: ts => t.slot + slotSum ts
def slotMax : List Ty → Nat
  | [] => 0
  | t :: ts => max t.slot (slotMax ts)
end

/-- heap spill of `SmallVec8<&[u8]>` and `SmallVec8<Offset>` in the builder -/
def spill (n : Nat) : Nat := if n > 8 then 64 * n else 0

mutual
def allocUnits : Ty → Bytes → Nat
  | .byteList, b => b.length
  | .bitvector _, b => b.length
  | .bitlist _, b => b.length
  | .bitvectorDyn, b => b.length
  | .list _ t, b =>
      if b.isEmpty then 0
      else if t.isFixed then
        if t.fixedLen = 0 then 0
        else match chunks t.fixedLen b with
          | .ok cs => 4 * cs.length * t.slot + allocAll t cs
          | _ => 0
      else
        let tr := (listVarT (decode t) b none .vec).2
        4 * (tr.sizeHint.getD 0) * t.slot + allocAll t tr.calls
  | .option t, b => allocUnits t (b.drop 1)
  | .tuple ts, b => spill ts.length + (match build (regsOf ts) b with
      | .ok items => allocItems ts items
      | _ => 0)
  | .container ts, b =>
      if allFixed ts then allocSplit ts b
      else spill ts.length + (match build (regsOf ts) b with
        | .ok items => allocItems ts items
        | _ => 0)
  | .union ts, b => (match b with
      | s :: body => allocNth ts s.toNat body
      | [] => 0)
  | .transparentEnum ts, b => allocEvery ts b
  | .legacyOption t, b => allocUnits t (b.drop 4)
  | _, _ => 0
def allocAll (t : Ty) : List Bytes → Nat
  | [] => 0
  | c :: cs => allocUnits t c + allocAll t cs
def allocItems : List Ty → List Bytes → Nat
  | t :: ts, it :: its => allocUnits t it + allocItems ts its
  | _, _ => 0
def allocSplit : List Ty → Bytes → Nat
  | [], _ => 0
  | t :: ts, b => allocUnits t (b.take t.fixedLen) + allocSplit ts (b.drop t.fixedLen)
def allocNth : List Ty → Nat → Bytes → Nat
  | [], _, _ => 0
  | t :: _, 0, body => allocUnits t body
  | _ :: ts, i+1, body => allocNth ts i body
def allocEvery : List Ty → Bytes → Nat
  | [], _ => 0
  | t :: ts, b => allocUnits t b + allocEvery ts b
end

end Ssz
