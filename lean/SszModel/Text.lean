import SszModel.Spec
/-
  Text syntax of the line protocol: type descriptors, values, hex. Used only by the driver.
-/
namespace Ssz.Text

def hexDigit (n : Nat) : Char := if n < 10 then Char.ofNat (48 + n) else Char.ofNat (87 + n)

def toHex (b : Bytes) : String :=
  String.ofList (b.flatMap fun x => [hexDigit (x.toNat / 16), hexDigit (x.toNat % 16)])

def hexVal (c : Char) : Option Nat :=
  if '0' ≤ c ∧ c ≤ '9' then some (c.toNat - 48)
  else if 'a' ≤ c ∧ c ≤ 'f' then some (c.toNat - 87)
  else if 'A' ≤ c ∧ c ≤ 'F' then some (c.toNat - 55)
  else none

def fromHexChars : List Char → Option Bytes
  | [] => some []
  | a :: b :: rest => do
    let x ← hexVal a
    let y ← hexVal b
    let r ← fromHexChars rest
    pure (UInt8.ofNat (x * 16 + y) :: r)
  | _ => none

def fromHex (s : String) : Option Bytes := fromHexChars s.toList

def takeDigits : List Char → List Char × List Char
  | c :: cs => if c.isDigit then let (d, r) := takeDigits cs; (c :: d, r) else ([], c :: cs)
  | [] => ([], [])

def natOfDigits (ds : List Char) : Nat := ds.foldl (fun n c => n * 10 + (c.toNat - 48)) 0

def parseNat (cs : List Char) : Option (Nat × List Char) :=
  let (d, r) := takeDigits cs
  if d.isEmpty then none else some (natOfDigits d, r)

mutual
partial def parseTy (cs : List Char) : Option (Ty × List Char) :=
  match cs with
  | 'U' :: r => do let (n, r) ← parseNat r; pure (.uint n, r)
  | 'B' :: 'V' :: r => do let (n, r) ← parseNat r; pure (.bitvector n, r)
  | 'B' :: 'L' :: r => do let (n, r) ← parseNat r; pure (.bitlist n, r)
  | 'B' :: 'D' :: r => pure (.bitvectorDyn, r)
  | 'B' :: r => pure (.bool, r)
  | 'N' :: 'Z' :: r => pure (.nonZeroUsize, r)
  | 'X' :: 'L' :: r => pure (.byteList, r)
  | 'X' :: r => do let (n, r) ← parseNat r; pure (.bytesN n, r)
  | 'L' :: 'O' :: '(' :: r => do
      let (t, r) ← parseTy r
      match r with | ')' :: r => pure (.legacyOption t, r) | _ => none
  | 'L' :: '(' :: r => do
      let (t, r) ← parseTy r
      match r with | ')' :: r => pure (.list .vec t, r) | _ => none
  | 'S' :: '(' :: r => do
      let (t, r) ← parseTy r
      match r with | ')' :: r => pure (.list .set t, r) | _ => none
  | 'M' :: '(' :: r => do
      let (ts, r) ← parseTys r
      match ts with | [k, v] => pure (.list .map (.tuple [k, v]), r) | _ => none
  | 'O' :: '(' :: r => do
      let (t, r) ← parseTy r
      match r with | ')' :: r => pure (.option t, r) | _ => none
  | 'T' :: '(' :: r => do let (ts, r) ← parseTys r; pure (.tuple ts, r)
  | 'C' :: '(' :: r => do let (ts, r) ← parseTys r; pure (.container ts, r)
  | 'N' :: '(' :: r => do let (ts, r) ← parseTys r; pure (.union ts, r)
  | 'E' :: '(' :: r => do let (ts, r) ← parseTys r; pure (.transparentEnum ts, r)
  | 'G' :: r => do let (n, r) ← parseNat r; pure (.tagEnum n, r)
  | _ => none
/-- parses `t1,t2,...)` including the closing parenthesis; `)` alone is the empty list -/
partial def parseTys (cs : List Char) : Option (List Ty × List Char) :=
  match cs with
  | ')' :: r => pure ([], r)
  | _ => do
    let (t, r) ← parseTy cs
    match r with
    | ',' :: r => do let (ts, r) ← parseTys r; pure (t :: ts, r)
    | ')' :: r => pure ([t], r)
    | _ => none
end

def takeWhileC (p : Char → Bool) : List Char → List Char × List Char
  | c :: cs => if p c then let (d, r) := takeWhileC p cs; (c :: d, r) else ([], c :: cs)
  | [] => ([], [])

mutual
partial def parseVal (cs : List Char) : Option (Val × List Char) :=
  match cs with
  | 't' :: r => pure (.bool true, r)
  | 'f' :: r => pure (.bool false, r)
  | 'x' :: r =>
      let (h, r) := takeWhileC (fun c => (hexVal c).isSome) r
      (fromHexChars h).map fun b => (.bytes b, r)
  | 'b' :: r =>
      let (h, r) := takeWhileC (fun c => c == '0' || c == '1') r
      pure (.bits (h.map (· == '1')), r)
  | '[' :: r => do let (vs, r) ← parseVals ']' r; pure (.list vs, r)
  | '(' :: r => do let (vs, r) ← parseVals ')' r; pure (.tuple vs, r)
  | 'N' :: r => pure (.none, r)
  | 'S' :: '(' :: r => do
      let (v, r) ← parseVal r
      match r with | ')' :: r => pure (.some v, r) | _ => none
  | 'U' :: r => do
      let (i, r) ← parseNat r
      match r with
      | '(' :: r => do
        let (v, r) ← parseVal r
        match r with | ')' :: r => pure (.union i v, r) | _ => none
      | _ => none
  | 'G' :: r => do let (i, r) ← parseNat r; pure (.tag i, r)
  | _ => do let (n, r) ← parseNat cs; pure (.uint n, r)
partial def parseVals (close : Char) (cs : List Char) : Option (List Val × List Char) :=
  match cs with
  | c :: r => if c == close then pure ([], r) else do
      let (v, r') ← parseVal cs
      match r' with
      | ',' :: r'' => do let (vs, r''') ← parseVals close r''; pure (v :: vs, r''')
      | c' :: r'' => if c' == close then pure ([v], r'') else none
      | [] => none
  | [] => none
end

def tyOfString (s : String) : Option Ty :=
  match parseTy s.toList with
  | some (t, []) => some t
  | _ => none

def valOfString (s : String) : Option Val :=
  match parseVal s.toList with
  | some (v, []) => some v
  | _ => none

def bitsStr (l : List Bool) : String := String.ofList (l.map fun b => if b then '1' else '0')

mutual
partial def valStr : Val → String
  | .uint n => toString n
  | .bool b => if b then "t" else "f"
  | .bytes l => "x" ++ toHex l
  | .list vs => "[" ++ ",".intercalate (vs.map valStr) ++ "]"
  | .none => "N"
  | .some v => "S(" ++ valStr v ++ ")"
  | .tuple vs => "(" ++ ",".intercalate (vs.map valStr) ++ ")"
  | .union i v => "U" ++ toString i ++ "(" ++ valStr v ++ ")"
  | .tag i => "G" ++ toString i
  | .bits l => "b" ++ bitsStr l
end

def resStr {α} (f : α → String) : Res α → String
  | .ok a => "ok " ++ f a
  | .err => "err"
  | .panic => "panic"

def optStr {α} (f : α → String) : Option α → String
  | some a => "ok " ++ f a
  | none => "err"

end Ssz.Text
