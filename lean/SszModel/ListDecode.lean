import SszModel.Builder
/-
  decode/impls.rs `decode_list_of_variable_length_items` and decode/try_from_iter.rs.
  `listVar` is the plain version (collection = `Vec`, pulls every item); `listVarT` is the traced
  version with a `max_len` and a collection kind, returning also the slices handed to the item
  decoder (in call order) and the `size_hint` upper bound the collection saw.
-/
namespace Ssz

/-- the lazy `map` inside `process_results`; `i` counts from 1 and is `n - r` -/
def listVarGo {α} (f : Bytes → Res α) (b : Bytes) (first n : Nat) : (remaining : Nat) → (offset : Nat) → Res (List α)
  | 0, _ => .ok []
  | r+1, offset =>
    let i := n - r
    if i == n then
      if offset ≤ b.length then           -- bytes.get(offset..)
        match f (b.drop offset) with
        | .ok v => (match listVarGo f b first n r offset with | .ok vs => .ok (v :: vs) | .err => .err | .panic => .panic)
        | .err => .err
        | .panic => .panic
      else .err
    else
      if i * 4 > b.length then .panic      -- `&bytes[(i * 4)..]`
      else match readOffset (b.drop (i * 4)) with
        | none => .err
        | some next =>
          match sanitizeOffset next (some offset) b.length (some first) with
          | none => .err
          | some offset' =>
            if offset ≤ offset' ∧ offset' ≤ b.length then   -- bytes.get(start..offset)
              match f ((b.drop offset).take (offset' - offset)) with
              | .ok v => (match listVarGo f b first n r offset' with | .ok vs => .ok (v :: vs) | .err => .err | .panic => .panic)
              | .err => .err
              | .panic => .panic
            else .err

def listVar {α} (f : Bytes → Res α) (b : Bytes) (maxLen : Option Nat) : Res (List α) :=
  if b.isEmpty then .ok []
  else match readOffset b with
    | none => .err
    | some first =>
      match sanitizeOffset first none b.length (some first) with
      | none => .err
      | some _ =>
        if first % 4 != 0 || first < 4 then .err
        else
          let n := first / 4
          if maxLen.any (fun m => decide (n > m)) then .err
          else listVarGo f b first n n first

/-- `sequence_ssz_append`, variable-size branch, on already-encoded items -/
def encodeListVar (items : List Bytes) : Bytes :=
  encodeItems (List.replicate items.length .var) items

/-! ### traced version with collection kinds (C06 / C16) -/

/-- target collections: `Vec` (never refuses), a collection refusing the `k+1`-th item after
    pulling it, a collection that refuses without looking at the iterator -/
inductive Coll where
  | vec | bounded (k : Nat) | refusing
deriving Repr, DecidableEq

structure Trace where
  calls : List Bytes := []          -- slices handed to the item decoder, in call order
  sizeHint : Option Nat := none     -- upper bound of `size_hint()` seen by `try_from_iter`
deriving Repr, DecidableEq

/-- like `listVarGo` but stops pulling after `budget` further items have been accepted and one
    more has been pulled (the refused one); returns the slices passed to `f` so far -/
def listVarGoT {α} (f : Bytes → Res α) (b : Bytes) (first n : Nat) :
    (remaining : Nat) → (offset : Nat) → (budget : Option Nat) → List Bytes → Res (List α) × List Bytes
  | 0, _, _, tr => (.ok [], tr)
  | r+1, offset, budget, tr =>
    let i := n - r
    let continue_ (slice : Bytes) (offset' : Nat) : Res (List α) × List Bytes :=
      match f slice with
      | .ok v =>
        (match budget with
         | some 0 => (.err, tr ++ [slice])     -- collection refuses the item it just pulled
         | _ =>
          let (res, tr') := listVarGoT f b first n r offset' (budget.map (· - 1)) (tr ++ [slice])
          (match res with | .ok vs => (.ok (v :: vs), tr') | .err => (.err, tr') | .panic => (.panic, tr')))
      | .err => (.err, tr ++ [slice])
      | .panic => (.panic, tr ++ [slice])
    if i == n then
      if offset ≤ b.length then continue_ (b.drop offset) offset
      else (.err, tr)
    else
      if i * 4 > b.length then (.panic, tr)
      else match readOffset (b.drop (i * 4)) with
        | none => (.err, tr)
        | some next =>
          match sanitizeOffset next (some offset) b.length (some first) with
          | none => (.err, tr)
          | some offset' =>
            if offset ≤ offset' ∧ offset' ≤ b.length then
              continue_ ((b.drop offset).take (offset' - offset)) offset'
            else (.err, tr)

def listVarT {α} (f : Bytes → Res α) (b : Bytes) (maxLen : Option Nat) (c : Coll) : Res (List α) × Trace :=
  if b.isEmpty then
    (match c with | .refusing => (.err, {}) | _ => (.ok [], { sizeHint := some 0 }))
  else match readOffset b with
    | none => (.err, {})
    | some first =>
      match sanitizeOffset first none b.length (some first) with
      | none => (.err, {})
      | some _ =>
        if first % 4 != 0 || first < 4 then (.err, {})
        else
          let n := first / 4
          if maxLen.any (fun m => decide (n > m)) then (.err, {})
          else match c with
            | .refusing => (.err, {})
            | .vec =>
              let (r, tr) := listVarGoT f b first n n first none []
              (r, { calls := tr, sizeHint := some n })
            | .bounded k =>
              let (r, tr) := listVarGoT f b first n n first (some k) []
              (r, { calls := tr, sizeHint := some n })

end Ssz
