import SszModel.Basic
/-
  encode.rs:139-166 `encode_length`; decode.rs:75-94 `sanitize_offset`; decode.rs:339-376
  `split_union_bytes`, `read_offset`, `decode_offset`; union_selector.rs.
-/
namespace Ssz

def BYTES_PER_LENGTH_OFFSET : Nat := 4
def BYTES_PER_UNION_SELECTOR : Nat := 1
def MAX_UNION_SELECTOR : Nat := 127
def MAX_LENGTH_VALUE : Nat := 2^32 - 1

/-- `encode_length`: release-build semantics (`len.to_le_bytes()[0..4]`, i.e. `len mod 2^32`);
    in debug builds a `debug_assert!(len <= MAX_LENGTH_VALUE)` fires instead, see `encodeLengthDbg`. -/
def encodeLength (n : Nat) : Bytes := le 4 (n % 2^32)

/-- `encode_length` with debug assertions enabled. -/
def encodeLengthDbg (n : Nat) : Res Bytes :=
  if n ≤ MAX_LENGTH_VALUE then .ok (encodeLength n) else .panic

/-- `read_offset`: needs at least four bytes, reads the first four as little-endian `u32`. -/
def readOffset (b : Bytes) : Option Nat :=
  if b.length ≥ 4 then some (fromLE (b.take 4)) else none

/-- `sanitize_offset`, the four branches in source order; error kinds collapsed. -/
def sanitizeOffset (offset : Nat) (prev : Option Nat) (numBytes : Nat) (numFixed : Option Nat) : Option Nat :=
  if numFixed.any (fun f => decide (offset < f)) then none
  else if prev.isNone && numFixed.any (fun f => offset != f) then none
  else if offset > numBytes then none
  else if prev.any (fun p => decide (p > offset)) then none
  else some offset

/-- `UnionSelector::new` -/
def unionSelectorNew (s : UInt8) : Option UInt8 :=
  if s.toNat ≤ MAX_UNION_SELECTOR then some s else none

/-- `split_union_bytes` -/
def splitUnionBytes (b : Bytes) : Option (UInt8 × Bytes) :=
  match b with
  | [] => none
  | s :: body => match unionSelectorNew s with
    | some s => some (s, body)
    | none => none

end Ssz
